(** C07 — property theorems only.  Each is closed by [exact] of a lemma proved in Proofs*.v
    and followed by [Print Assumptions].

    Scope of what is proved here (see Open.v for what is carried by the harness only):
    the in-memory trie operations of trie.go (insert / delete / get, transcribed in Model.v)
    on fully resolved tries refine a finite map, keep the trie in the unique canonical form,
    and therefore the trie structure (up to the hash caches) and the root hash computed from
    it depend on the key-value content alone — not on the order of operations. *)
From Coq Require Import List NArith Arith Bool.
From Kardia Require Import C07.Model C07.ProofsBase C07.ProofsMap C07.ProofsCanon C07.ProofsEnc C07.ProofsCache C07.ProofsRlp C07.ProofsCodec C07.ProofsCommit C07.ProofsReopen C07.ProofsProof C07.ProofsBuild C07.ProofsStack C07.ProofsStackIns C07.Open.
From Kardia Require Import C07.ModelRange C07.ProofsIter C07.ProofsRange C07.ProofsView C07.SourceTie.
Import ListNotations.

(** keybytesToHex is injective on byte strings and yields well-formed keys *)
Theorem C07_keybytes_hex_injective :
  forall a b, is_bytes a -> is_bytes b -> keybytes_to_hex a = keybytes_to_hex b -> a = b.
Proof. exact keybytes_to_hex_inj. Qed.
Print Assumptions C07_keybytes_hex_injective.

Theorem C07_keybytes_hex_wellformed : forall bs, is_bytes bs -> wfk (keybytes_to_hex bs).
Proof. exact keybytes_to_hex_wfk. Qed.
Print Assumptions C07_keybytes_hex_wellformed.

(** hexToCompact / compactToHex round-trip on every key a trie node can carry (nibbles, with or
    without the terminator); hence the compact encoding is injective *)
Theorem C07_compact_roundtrip :
  forall k, (nibs k \/ wfk k) -> compact_to_hex (hex_to_compact k) = k.
Proof. exact compact_roundtrip. Qed.
Print Assumptions C07_compact_roundtrip.

Theorem C07_compact_injective :
  forall a b, (nibs a \/ wfk a) -> (nibs b \/ wfk b) -> hex_to_compact a = hex_to_compact b -> a = b.
Proof. exact compact_injective. Qed.
Print Assumptions C07_compact_injective.

(** Trie.get on a canonical trie returns the node unchanged and the value the content relation
    assigns to the key (empty = absent); the fuel computed from the key always suffices *)
Theorem C07_get_refines :
  forall d fuel n k, canon n -> wfk k -> length k < fuel ->
  exists v, get fuel d n k = Ok (v, n) /\
            ((v = [] /\ forall w, ~ has n k w) \/ (v <> [] /\ has n k v)).
Proof. exact get_spec. Qed.
Print Assumptions C07_get_refines.

(** Trie.insert of a non-empty value: never fails, stays canonical, content becomes m[k := v] *)
Theorem C07_insert_refines :
  forall d v, v <> [] ->
  forall fuel n k, canon n -> wfk k -> length k < fuel ->
  exists b n', insert fuel d n k (Value v) = Ok (b, n') /\ canon n' /\ n' <> Empty /\
               (b = false -> n' = n) /\
               (forall cs g, n = Full cs g -> exists cs' g', n' = Full cs' g') /\
               (forall k' w, has n' k' w <-> (k' = k /\ w = v) \/ (k' <> k /\ has n k' w)).
Proof. exact insert_spec. Qed.
Print Assumptions C07_insert_refines.

(** Trie.delete: never fails, stays canonical (branches with one child left are collapsed,
    short nodes merged), content becomes m \ {k} *)
Theorem C07_delete_refines :
  forall d fuel n k, canon n -> wfk k -> length k < fuel ->
  exists b n', delete fuel d n k = Ok (b, n') /\ canon n' /\
               (b = false -> n' = n) /\
               (forall cs g, n = Full cs g -> n' <> Empty) /\
               (forall k' w, has n' k' w <-> (k' <> k /\ has n k' w)).
Proof. exact delete_spec. Qed.
Print Assumptions C07_delete_refines.

(** the canonical form is unique: same content => same trie, up to the hash caches *)
Theorem C07_canonical_unique :
  forall a b, canon a -> canon b -> (forall k w, has a k w <-> has b k w) -> erase a = erase b.
Proof. intros a b Ha Hb. exact (canon_unique a Ha b Hb). Qed.
Print Assumptions C07_canonical_unique.

(** authenticated *map*: after any sequence of Update/Delete (Update with an empty value
    deletes) starting from the empty trie, no operation fails and Get returns for every key
    exactly the last value written (empty if deleted or never written) *)
Theorem C07_history_refines_map :
  forall d ops, Forall (fun o => is_bytes (mop_key o)) ops ->
  exists n, run d Empty ops = Ok n /\ canon n /\
            forall kb, is_bytes kb -> trie_get d n kb = Ok (content (fun _ => []) ops kb, n).
Proof.
  intros d ops Hk. destruct (run_represents d ops _ _ represents_empty Hk) as (n & Hr & Hrep).
  exists n. split; auto. split; [apply Hrep|]. intros kb Hb. apply represents_get; auto.
Qed.
Print Assumptions C07_history_refines_map.

(** canonical root: two histories that end with the same content end with the same trie (up to
    caches) and hence the same root hash — independent of the order of insertion and of
    deleted intermediate entries.  [H] is arbitrary: nothing about Keccak is assumed. *)
Theorem C07_root_content_only :
  forall (H : bytes -> bytes) d ops1 ops2 n1 n2,
  Forall (fun o => is_bytes (mop_key o)) ops1 -> Forall (fun o => is_bytes (mop_key o)) ops2 ->
  (forall kb, is_bytes kb -> content (fun _ => []) ops1 kb = content (fun _ => []) ops2 kb) ->
  run d Empty ops1 = Ok n1 -> run d Empty ops2 = Ok n2 ->
  erase n1 = erase n2 /\
  fst (trie_hash H (erase n1)) = fst (trie_hash H (erase n2)).
Proof.
  intros H d ops1 ops2 n1 n2 H1 H2 Hc R1 R2.
  destruct (run_represents d ops1 _ _ represents_empty H1) as (m1 & E1 & P1).
  destruct (run_represents d ops2 _ _ represents_empty H2) as (m2 & E2 & P2).
  rewrite R1 in E1. rewrite R2 in E2. inversion E1; inversion E2; subst.
  assert (E : erase m1 = erase m2) by (eapply represents_unique; eauto).
  split; auto. rewrite E. reflexivity.
Qed.
Print Assumptions C07_root_content_only.

(** hasher.hash with caches = hashing from scratch: whenever every cached hash in a trie is the
    from-scratch hash of its node (which holds initially and is preserved, see below), the hasher
    returns the from-scratch result, does not change the content, and leaves correct caches *)
Theorem C07_hash_cache_correct :
  forall (H : bytes -> bytes) n root, caches_ok H root n ->
  fst (hash_node H n root) = fst (hash_node H (erase n) root) /\
  erase (snd (hash_node H n root)) = erase n /\
  caches_ok H root (snd (hash_node H n root)).
Proof. exact hash_node_ok. Qed.
Print Assumptions C07_hash_cache_correct.

(** canonical root, with intermediate hashing: for histories of Update / Delete / Hash() (Hash
    replaces the root by its cached copy, as Trie.Hash does), the root hash that Trie.Hash
    reports at the end — computed WITH all caches accumulated on the way — depends on the final
    content alone: not on the order of operations and not on where Hash() was called *)
Theorem C07_root_independent_of_hashing :
  forall (H : bytes -> bytes) d ops1 ops2 n1 n2,
  Forall (fun o => is_bytes (hop_key o)) ops1 -> Forall (fun o => is_bytes (hop_key o)) ops2 ->
  (forall kb, is_bytes kb ->
     content (fun _ => []) (flat_map hop_mop ops1) kb = content (fun _ => []) (flat_map hop_mop ops2) kb) ->
  hrun H d Empty ops1 = Ok n1 -> hrun H d Empty ops2 = Ok n2 ->
  fst (trie_hash H n1) = fst (trie_hash H n2) /\
  (forall kb, is_bytes kb -> trie_get d n1 kb = Ok (content (fun _ => []) (flat_map hop_mop ops1) kb, n1)).
Proof.
  intros H d ops1 ops2 n1 n2 H1 H2 Hc R1 R2.
  destruct (hrun_represents H d ops1 _ Empty represents_empty I H1) as (m1 & E1 & P1 & C1).
  destruct (hrun_represents H d ops2 _ Empty represents_empty I H2) as (m2 & E2 & P2 & C2).
  rewrite R1 in E1. rewrite R2 in E2. inversion E1; inversion E2; subst.
  assert (E : erase m1 = erase m2) by (eapply represents_unique; eauto).
  destruct (trie_hash_ok H m1 C1) as (T1 & _). destruct (trie_hash_ok H m2 C2) as (T2 & _).
  split; [rewrite T1, T2, E; reflexivity|]. intros kb Hb. apply represents_get; auto.
Qed.
Print Assumptions C07_root_independent_of_hashing.

(** node codec round trip: decodeNode applied to the encoding that hasher / committer / Prove
    write for a canonical node (followed by arbitrary bytes, as for embedded nodes) returns the
    node with every child collapsed exactly as it was encoded: hash node, embedded node,
    value, nil.  [H] is arbitrary except that its outputs are 32 bytes long; keys and values
    in the trie are shorter than 2^32 ([sized]). *)
Theorem C07_node_codec_roundtrip :
  forall (H : bytes -> bytes), (forall x, length (H x) = 32) ->
  forall n, canon n -> sized n -> n <> Empty ->
  forall fuel h rest, length (cenc H n) <= fuel ->
  decode_node fuel h (cenc H n ++ rest) = Some (shallow H h n).
Proof. exact decode_cenc. Qed.
Print Assumptions C07_node_codec_roundtrip.

(** Trie.get on a partially resolved trie (hash nodes resolved through the database and
    decodeNode) returns what the fully resolved canonical trie holds, and the replacement
    root it returns is again a view of the same trie *)
Theorem C07_get_through_resolution :
  forall (H : bytes -> bytes), (forall x, length (H x) = 32) ->
  forall d fuel n' n k, rel H d n' n -> canon n -> sized n -> wfk k ->
  2 * length k + ref_cost n' < fuel ->
  exists v n'', get fuel d n' k = Ok (v, n'') /\
                ((v = [] /\ forall w, ~ has n k w) \/ (v <> [] /\ has n k v)) /\ rel H d n'' n.
Proof. exact get_rel. Qed.
Print Assumptions C07_get_through_resolution.

(** commit, then reopen: after any history of Update / Delete / Hash(), Trie.Commit(false)
    followed by Database.Update and trie.New(root) yields a trie with the committed root
    hash whose Get returns the map value for every key; so does the committed trie itself
    (its root is now a hash node).  Alternatives: an explicit Keccak collision, or the
    root hash is the all-zero hash, which trie.New treats as "empty trie". *)
Theorem C07_reopen :
  forall (H : bytes -> bytes), (forall x, length (H x) = 32) ->
  forall d0 d ops n,
  Forall (fun o => is_bytes (hop_key o)) ops ->
  hrun H d0 Empty ops = Ok n -> n <> Empty ->
  let m := content (fun _ => []) (flat_map hop_mop ops) in
  bounded m ->
  let '(h, root', set) := trie_commit H n in
  let d' := set ++ d in
  collision H \/ h = repeat 0%N 32 \/
  (h = fst (trie_hash H n) /\ root' = Ref h /\
   exists r, trie_open H d' h = Ok r /\ fst (trie_hash H r) = h /\
             forall kb, is_bytes kb ->
               (exists r', trie_get d' r kb = Ok (m kb, r')) /\
               (exists r', trie_get d' root' kb = Ok (m kb, r'))).
Proof.
  intros H Hlen d0 d ops n Hk Hr Hne m Hb.
  destruct (hrun_represents H d0 ops _ Empty represents_empty I Hk) as (n1 & E1 & P1 & C1).
  rewrite Hr in E1. inversion E1; subst n1.
  exact (commit_reopen H Hlen d m n P1 C1 Hb Hne).
Qed.
Print Assumptions C07_reopen.

(** proofs, soundness: for ANY list of blobs (the verifier keys them by their own hash, as
    [db_of] does), VerifyProof against the root of the trie reached by a history returns a
    value only if it is exactly the stored one and "absent" only if the key is absent — or an
    explicit Keccak collision exists.  Hence no tampered proof verifies to a different answer. *)
Theorem C07_proof_sound :
  forall (H : bytes -> bytes), (forall x, length (H x) = 32) ->
  forall d0 ops n kb blobs,
  Forall (fun o => is_bytes (hop_key o)) ops ->
  hrun H d0 Empty ops = Ok n -> n <> Empty -> is_bytes kb ->
  let m := content (fun _ => []) (flat_map hop_mop ops) in
  bounded m ->
  match verify_proof H (fst (trie_hash H n)) kb blobs with
  | VValue v => (v = m kb /\ v <> []) \/ collision H
  | VAbsent => m kb = [] \/ collision H
  | _ => True
  end.
Proof.
  intros H Hlen d0 ops n kb blobs Hk Hr Hne Hkb m Hb.
  destruct (hrun_represents H d0 ops _ Empty represents_empty I Hk) as (n1 & E1 & P1 & C1).
  rewrite Hr in E1. inversion E1; subst n1.
  exact (proof_sound H Hlen m n kb blobs P1 C1 Hb Hne Hkb).
Qed.
Print Assumptions C07_proof_sound.

(** proofs, completeness: Trie.Prove succeeds and the proof it builds verifies against the root
    to exactly the stored value, or to "absent" for an absent key (or a collision exists) *)
Theorem C07_proof_complete :
  forall (H : bytes -> bytes), (forall x, length (H x) = 32) ->
  forall d0 d ops n kb,
  Forall (fun o => is_bytes (hop_key o)) ops ->
  hrun H d0 Empty ops = Ok n -> n <> Empty -> is_bytes kb ->
  let m := content (fun _ => []) (flat_map hop_mop ops) in
  bounded m ->
  exists blobs, prove H d n kb = Ok blobs /\
    (verify_proof H (fst (trie_hash H n)) kb blobs =
       match m kb with [] => VAbsent | _ => VValue (m kb) end \/ collision H).
Proof.
  intros H Hlen d0 d ops n kb Hk Hr Hne Hkb m Hb.
  destruct (hrun_represents H d0 ops _ Empty represents_empty I Hk) as (n1 & E1 & P1 & C1).
  rewrite Hr in E1. inversion E1; subst n1.
  exact (proof_complete H Hlen d m n kb P1 C1 Hb Hne Hkb).
Qed.
Print Assumptions C07_proof_complete.

(** the canonical constructor agrees with the operational trie: whatever history of updates and
    deletes produced the trie [n], it equals (up to hash caches) [build] applied to any
    duplicate-free list of its entries — so [build] is an order-free definition of "the trie of
    this content", and the root is [build_root] of the content *)
Theorem C07_build_canonical :
  forall d ops n, Forall (fun o => is_bytes (mop_key o)) ops -> run d Empty ops = Ok n ->
  forall m : list (key * bytes),
    NoDup (map fst m) ->
    (forall k w, has n k w <-> In (k, w) m) ->
    erase n = erase (build (build_fuel m) m).
Proof.
  intros d ops n Hk Hr m Hn Hh.
  destruct (run_represents d ops _ _ represents_empty Hk) as (n1 & E1 & P1).
  rewrite Hr in E1. inversion E1; subst n1.
  apply build_canonical; auto. apply P1.
Qed.
Print Assumptions C07_build_canonical.

(** stack trie, hashing half: whenever the stack trie's state [s] is a view ([strel]) of a trie
    node [n] — finished subtrees replaced by their collapsed value (encoding if < 32 bytes,
    else hash) — StackTrie.Hash returns the root hash of [n] *)
Theorem C07_stack_hash :
  forall (H : bytes -> bytes), (forall x, length (H x) = 32) ->
  forall s n, strel H s n -> is_node' n -> st_root H s = H (cenc H n).
Proof. exact st_root_rel. Qed.
Print Assumptions C07_stack_hash.

(** streaming (stack) trie = trie: for keys fed in strictly increasing byte order with no key a
    prefix of another ([sorted_bytes]: any earlier key differs from any later key first at a
    position where both have a byte, the earlier one the smaller) and non-empty values,
    StackTrie.Update never panics and StackTrie.Hash equals the root of the canonical trie
    [build] of the same content (which by C07_build_canonical / C07_root_content_only is the
    root Trie.Hash reports for that content).  types.DeriveSha feeds exactly such a sequence
    (rlp(1..127), rlp(0), rlp(128..)). *)
Theorem C07_stack_equals :
  forall (H : bytes -> bytes), (forall x, length (H x) = 32) ->
  forall kvs : list (bytes * bytes),
  Forall (fun kv => is_bytes (fst kv) /\ snd kv <> []) kvs -> sorted_bytes kvs ->
  stack_root H kvs = Some (build_root H kvs).
Proof.
  intros H Hlen kvs Hok Hs. apply (stack_equals H Hlen); auto. apply sorted_bytes_pf; auto.
Qed.
Print Assumptions C07_stack_equals.

(** canonical root, with an intermediate COMMIT: after any history of Update / Delete / Hash(), a
    Commit (Trie.Commit(false) + Database.Update: the root becomes a hash node, every node is
    resolved from the database on demand) and any further history of Update / Delete / Hash() —
    now running THROUGH hash nodes — no operation fails, Get returns the last value written, and
    the root Trie.Hash reports equals the root of ANY history without the commit that ends with
    the same content.  Or an explicit Keccak collision exists.  [small_op]: keys and values of the
    second history are shorter than 2^30 bytes (as [bounded] says for the first). *)
Theorem C07_root_independent_of_commit :
  forall (H : bytes -> bytes), (forall x, length (H x) = 32) ->
  forall d0 d ops1 n1 ops2,
  Forall (fun o => is_bytes (hop_key o)) ops1 ->
  hrun H d0 Empty ops1 = Ok n1 -> n1 <> Empty ->
  let m1 := content (fun _ => []) (flat_map hop_mop ops1) in
  bounded m1 ->
  Forall (fun o => is_bytes (hop_key o) /\ small_op o) ops2 ->
  let m2 := content m1 (flat_map hop_mop ops2) in
  let '(h, root', set) := trie_commit H n1 in
  let d' := set ++ d in
  collision H \/
  (h = fst (trie_hash H n1) /\
   exists n2', hrun H d' root' ops2 = Ok n2' /\
     (forall kb, is_bytes kb -> exists r, trie_get d' n2' kb = Ok (m2 kb, r)) /\
     (forall d3 ops3 nf,
        Forall (fun o => is_bytes (hop_key o)) ops3 -> hrun H d3 Empty ops3 = Ok nf ->
        (forall kb, is_bytes kb -> content (fun _ => []) (flat_map hop_mop ops3) kb = m2 kb) ->
        fst (trie_hash H n2') = fst (trie_hash H nf))).
Proof.
  intros H Hlen d0 d ops1 n1 ops2 Hk1 Hr1 Hne m1 Hb1 Hk2 m2.
  destruct (hrun_represents H d0 ops1 _ Empty represents_empty I Hk1) as (nx & E1 & P1 & C1).
  rewrite Hr1 in E1. inversion E1; subst nx.
  pose proof (commit_view H d m1 n1 P1 C1 Hb1 Hne) as Hcv.
  destruct (trie_commit H n1) as [[h root'] set]. destruct Hcv as [Col|(Eh & Er & Hvs)]; [left; exact Col|].
  right. split; [exact Eh|].
  destruct (vrun H Hlen (set ++ d) ops2 m1 root' Hvs Hk2) as (n2' & Hrun & Hvs2).
  exists n2'. split; [exact Hrun|]. split.
  - intros kb Hkb. apply (vstate_get H Hlen (set ++ d) m2 n2' kb Hvs2 Hkb).
  - intros d3 ops3 nf Hk3 Hr3 Hm.
    destruct (hrun_represents H d3 ops3 _ Empty represents_empty I Hk3) as (ny & E3 & P3 & C3).
    rewrite Hr3 in E3. inversion E3; subst ny.
    destruct (trie_hash_ok H nf C3) as (T & _). rewrite T.
    apply (vstate_root H (set ++ d) m2 n2' _ nf Hvs2 P3). intros kb Hkb. symmetry. apply Hm; auto.
Qed.
Print Assumptions C07_root_independent_of_commit.

(** leaf iterator (NewIterator(t.NodeIterator(start)), which hashes the trie first): after any
    history of Update / Delete / Hash() the iterator yields exactly the entries of the content whose
    path (nibbles, terminator) is not below the start prefix — every such key once, with the last
    value written, in strictly increasing path order.  Keys shorter than 199 bytes: the trie is then
    shallower than the traversal fuel of the model (400 levels; the Go code has no such bound). *)
Theorem C07_iterator_enumerates :
  forall (H : bytes -> bytes) d0 d ops n start,
  Forall (fun o => is_bytes (hop_key o)) ops ->
  hrun H d0 Empty ops = Ok n ->
  let m := content (fun _ => []) (flat_map hop_mop ops) in
  let n' := snd (trie_hash H n) in
  (forall kb, m kb <> [] -> length kb < 199) ->
  exists l, iter_from d n' start = Ok l /\
    ksorted (map (fun kv => keybytes_to_hex (fst kv)) l) /\
    forall kb v, is_bytes kb ->
      (In (kb, v) l <->
       v = m kb /\ v <> [] /\ kcmp (keybytes_to_hex kb) (removelast (keybytes_to_hex start)) <> Lt).
Proof.
  intros H d0 d ops n start Hk Hr m n' Hd.
  destruct (hrun_represents H d0 ops _ Empty represents_empty I Hk) as (n1 & E1 & P1 & C1).
  rewrite Hr in E1. inversion E1; subst n1.
  destruct (trie_hash_ok H n C1) as (_ & E2 & _).
  assert (Hrep' : represents m n').
  { destruct P1 as [Hc Hrr]. split.
    - eapply canon_same_erase; [symmetry; exact E2|auto].
    - intros k w. unfold m. rewrite <- Hrr. apply has_same_erase; auto. }
  apply iter_from_represents; auto. eapply represents_depth; eauto.
Qed.
Print Assumptions C07_iterator_enumerates.

(** the walk itself, on any canonical trie: the leaves in visiting order are the content relation,
    sorted strictly by path *)
Theorem C07_walk_is_content :
  forall d n fuel, canon n -> depth n < fuel ->
  walk fuel d n [] = Ok (leaves n) /\
  ksorted (map fst (leaves n)) /\
  forall k v, In (k, v) (leaves n) <-> has n k v.
Proof.
  intros d n fuel Hc Hd. split; [|split].
  - rewrite (walk_leaves d n Hc fuel [] Hd). f_equal. apply pf_nil.
  - apply leaves_sorted; auto.
  - apply leaves_has; auto.
Qed.
Print Assumptions C07_walk_is_content.

(** range proofs, the proof-less form (VerifyRangeProof with proof == nil: "the whole leaf set"):
    acceptance means the claimed root IS the canonical root of exactly the given leaves, and a
    sorted leaf set is accepted against its root.  PARTIAL: for the two-edge form only the
    transcription, the correspondence run and the direct oracles exist (and see the refutation below
    for elements outside the edges); [sorted_bytes]: strictly increasing, no key a prefix of another
    (the verifier refuses non-increasing keys itself; prefix-related keys make the stack trie panic) *)
Theorem C07_range_whole_partial :
  forall (H : bytes -> bytes), (forall x, length (H x) = 32) ->
  forall root first last (keys vals : list bytes) more,
  let kvs := combine keys vals in
  Forall (fun kv => is_bytes (fst kv) /\ snd kv <> []) kvs -> sorted_bytes kvs ->
  verify_range H root first last keys vals None = RAccept more ->
  more = false /\ length keys = length vals /\ root = build_root H kvs.
Proof. exact range_whole_sound. Qed.
Print Assumptions C07_range_whole_partial.

Theorem C07_range_whole_complete :
  forall (H : bytes -> bytes), (forall x, length (H x) = 32) ->
  forall first last (keys vals : list bytes),
  let kvs := combine keys vals in
  length keys = length vals ->
  Forall (fun kv => is_bytes (fst kv) /\ snd kv <> []) kvs -> sorted_bytes kvs ->
  increasing keys = true ->
  verify_range H (build_root H kvs) first last keys vals None = RAccept false.
Proof. exact range_whole_complete. Qed.
Print Assumptions C07_range_whole_complete.

(** REFUTED (known finding range-outside-element): "an accepted range lists only entries of the
    trie" fails for keys outside [firstKey, lastKey].  Witness, computed on the model (which
    transcribes the code: the error of Trie.Update is dropped while the leaves are re-inserted and
    there is no bound check): trie {10,20,30,40 -> 33 x key byte}, edge proofs for 20 and 30; the
    stream (10 -> v), 20, 30 is accepted for v = ee AND for v = dd while the trie holds 10 -> 10..10
    (and the honest stream 20, 30 is accepted).  [h0] is a 32-byte function that computes in Coq. *)
Theorem C07_range_outside_refuted :
  (forall x, length (h0 x) = 32) /\
  match w_trie with
  | Ok n =>
    let root := fst (trie_hash h0 n) in
    match prove h0 [] n [32%N], prove h0 [] n [48%N], trie_get [] n [16%N] with
    | Ok p1, Ok p2, Ok (stored, _) =>
      let blobs := p1 ++ p2 in
      let accepts v := match verify_range h0 root [32%N] [48%N] w_keys (v :: w_rest) (Some blobs) with
                       | RAccept _ => true | _ => false end in
      accepts [238%N] && accepts [221%N] && beq stored (w_val 16) &&
      match verify_range h0 root [32%N] [48%N] [[32]; [48]]%N w_rest (Some blobs) with
      | RAccept _ => true | _ => false end
    | _, _, _ => false
    end
  | _ => false
  end = true.
Proof. exact (conj h0_len range_outside_witness). Qed.
Print Assumptions C07_range_outside_refuted.

(** source tie: the arithmetic, loop bounds and decisions of the model (hex / compact key codecs,
    the [len(enc) < 32 && !force] embedding rule of hasher and stack trie, decodeRef's size rules,
    the guards of Trie.get / insert / delete / Commit / New, Prove, VerifyRangeProof / unsetInternal /
    unset / hasRightElement, StackTrie.insert / hashRec / Hash and the three loops of DeriveSha) are
    the expressions go2coq extracted from the Go source on this run, on the same operands
    (statement and atoms in C07/SourceTie.v; Generated/C07Source.v is rewritten by every check) *)
Theorem C07_source_tie : C07_source_tie_statement.
Proof. exact C07_source_tie_proof. Qed.
Print Assumptions C07_source_tie.

(** the hypotheses are satisfiable and the functions compute: three keys with a shared prefix
    inserted in two different orders (one history also inserts and deletes a fourth key, the
    other calls Hash() in between); with the identity as "hash" the root is the whole encoding,
    so equal roots mean equal structure *)
Example C07_example_two_orders :
  let a := HUpdate [1; 35]%N [170]%N in
  let b := HUpdate [1; 36]%N [187; 187]%N in
  let c := HUpdate [1]%N [204]%N in
  let x := HUpdate [1; 35; 69]%N [221]%N in
  let id := fun z : bytes => z in
  match hrun id [] Empty [a; HHashOp; b; c], hrun id [] Empty [x; c; b; HDelete [1; 35; 69]%N; a] with
  | Ok n1, Ok n2 =>
    beq (fst (trie_hash id n1)) (fst (trie_hash id n2)) &&
    match trie_get [] n2 [1; 36]%N with Ok (v, _) => beq v [187; 187]%N | _ => false end &&
    match trie_get [] n1 [1; 35; 69]%N with Ok (v, _) => beq v [] | _ => false end
  | _, _ => false
  end = true.
Proof. vm_compute. reflexivity. Qed.

(** The decision-critical functions of the anchored code have exactly the decisions the source tie knows about
    (go2coq manifests, regenerated from /repo on every check; statement in SourceManifest.v). *)
From Kardia Require Import C07.SourceManifest.
Theorem C07_source_manifest : C07_source_manifest_statement.
Proof. exact C07_source_manifest_proof. Qed.
Print Assumptions C07_source_manifest.
