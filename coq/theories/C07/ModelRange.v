(** C07 — model, part 2 (round 3): the leaf iterator (trie/iterator.go, as the sequence of
    leaves it yields) and the range-proof verifier of trie/proof.go (proofToPath,
    unsetInternal, unset, hasRightElement, VerifyRangeProof).

    Conventions as in Model.v.  The Go code mutates the resolved path nodes in place; here every
    function returns the rebuilt node (decodeNode makes fresh nodes for every blob, so there is
    no aliasing and the functional reading is exact).  Go panics are [Crash]; an error return of
    the verifier is [Missing] in the [res]-typed helpers and [RError] at the top.
    No proofs in this file. *)
From Coq Require Import List NArith Arith Bool.
From Kardia Require Import C07.Model.
Import ListNotations.

(* ------------------------------------------------------------------ orders *)

(** bytes.Compare on hex keys (nibbles, terminator 16) *)
Fixpoint kcmp (a b : key) : comparison :=
  match a, b with
  | [], [] => Eq
  | [], _ :: _ => Lt
  | _ :: _, [] => Gt
  | x :: a', y :: b' => match Nat.compare x y with Eq => kcmp a' b' | c => c end
  end.

(** bytes.Compare on byte strings *)
Fixpoint bcmp (a b : bytes) : comparison :=
  match a, b with
  | [], [] => Eq
  | [], _ :: _ => Lt
  | _ :: _, [] => Gt
  | x :: a', y :: b' => match N.compare x y with Eq => bcmp a' b' | c => c end
  end.

Definition is_lt (c : comparison) : bool := match c with Lt => true | _ => false end.
Definition is_gt (c : comparison) : bool := match c with Gt => true | _ => false end.
Definition is_eq (c : comparison) : bool := match c with Eq => true | _ => false end.

(** hexToKeybytes (the terminator is dropped; callers have an even number of nibbles) *)
Definition hex_to_keybytes (k : key) : bytes :=
  decode_nibbles (if has_term k then removelast k else k).

(* ------------------------------------------------------------------ iterator.go *)

(** the leaves below [n] in the order nodeIterator visits them (pre-order, children 0..16, so
    the value of a branch comes AFTER the keys it is a prefix of), with their hex paths
    (terminator included).  Hash nodes are resolved through the database without being linked
    into the trie (resolveHash). *)
Fixpoint walk (fuel : nat) (d : db) (n : node) (pre : key) : res (list (key * bytes)) :=
  match fuel with
  | O => OutOfFuel
  | S f =>
    match n with
    | Empty => Ok []
    | Value v => Ok [(pre, v)]
    | Short k c _ => walk f d c (pre ++ k)
    | Full cs _ =>
      (fix go (l : list node) (i : nat) {struct l} : res (list (key * bytes)) :=
         match l with
         | [] => Ok []
         | c :: t =>
           rbind (walk f d c (pre ++ [i])) (fun a =>
           rbind (go t (S i)) (fun b => Ok (a ++ b)))
         end) cs 0
    | Ref h => rbind (resolve_hash d h) (fun r => walk f d r pre)
    end
  end.

Definition walk_fuel : nat := 400.

(** NewIterator(t.NodeIterator(start)) run to the end: the (key bytes, value) pairs yielded.
    seek positions the iterator before the first node whose path is >= hex(start) without the
    terminator; leaves are therefore yielded iff their path compares >= that prefix. *)
Definition iter_from (d : db) (root : node) (start : bytes) : res (list (bytes * bytes)) :=
  let sk := removelast (keybytes_to_hex start) in
  rbind (walk walk_fuel d root []) (fun l =>
    Ok (map (fun kv => (hex_to_keybytes (fst kv), snd kv))
            (filter (fun kv => negb (is_lt (kcmp (fst kv) sk))) l))).

(* ------------------------------------------------------------------ proof.go: range proofs *)

(** get(tn, key, skipResolved = false): one step *)
Definition pget1 (tn : node) (k : key) : res (key * node) :=
  match tn with
  | Short nk c _ =>
    if Nat.ltb (length k) (length nk) || negb (keq nk (firstn (length nk) k))
    then Ok ([], Empty)
    else Ok (skipn (length nk) k, c)
  | Full cs _ =>
    match k with
    | [] => Crash
    | k0 :: kt => match nth_error cs k0 with None => Crash | Some c => Ok (kt, c) end
    end
  | Ref _ => Ok (k, tn)
  | Empty => Ok (k, Empty)
  | Value _ => Ok ([], tn)
  end.

(** resolveNode of proofToPath: a missing or undecodable node is an error *)
Definition resolve_proof (pd : db) (h : bytes) : res node :=
  match db_get pd h with
  | None | Some [] => Missing
  | Some buf => match decode_node (length buf) (Some h) buf with
                | Some n => Ok n
                | None => Missing
                end
  end.

(** "Link the parent and child" *)
Definition link (parent : node) (k : key) (c : node) : res node :=
  match parent with
  | Short nk _ fl => Ok (Short nk c fl)
  | Full cs fl => match k with k0 :: _ => Ok (Full (set_nth k0 c cs) fl) | [] => Crash end
  | _ => Crash
  end.

(** the loop of proofToPath from [parent] on: (rebuilt parent, value found or []) *)
Fixpoint ptp (fuel : nat) (pd : db) (parent : node) (k : key) (allow : bool) : res (node * bytes) :=
  match fuel with
  | O => OutOfFuel
  | S f =>
    rbind (pget1 parent k) (fun kc =>
      let keyrest := fst kc in
      let child := snd kc in
      let continue_in (c : node) :=
          rbind (ptp f pd c keyrest allow) (fun r =>
          rbind (link parent k (fst r)) (fun p' => Ok (p', snd r))) in
      match child with
      | Empty => if allow then Ok (parent, []) else Missing
      | Short _ _ _ | Full _ _ =>
        (* already resolved: key, parent = keyrest, child *)
        continue_in child
      | Ref h =>
        rbind (resolve_proof pd h) (fun c' =>
        rbind (link parent k c') (fun _ => continue_in c'))
      | Value v =>
        rbind (link parent k child) (fun p' =>
          match v with
          | _ :: _ => Ok (p', v)
          | [] => continue_in child
          end)
      end)
  end.

(** proofToPath(rootHash, root, key, proofDb, allowNonExistent) *)
Definition proof_to_path (fuel : nat) (pd : db) (root_hash : bytes) (root : option node)
           (kb : bytes) (allow : bool) : res (node * bytes) :=
  rbind (match root with Some r => Ok r | None => resolve_proof pd root_hash end) (fun r =>
    ptp fuel pd r (keybytes_to_hex kb) allow).

(** cs with the children at indices lo <= i < hi set to nil *)
Definition clear_range (lo hi : nat) (cs : list node) : list node :=
  map (fun ic => if Nat.leb lo (fst ic) && Nat.ltb (fst ic) hi then Empty else snd ic)
      (combine (seq 0 (length cs)) cs).

Inductive uout := UErr | UCrash | UFuel | UWhole | UNode (n : node).

(** store the outcome for a child of a fullNode *)
Definition put_child (o : uout) (i : nat) (cs : list node) : uout + list node :=
  match o with
  | UNode x => inr (set_nth i x cs)
  | UWhole => inr (set_nth i Empty cs)
  | o => inl o
  end.


(** unset(parent, child, key, pos, removeLeft); [k] = key[pos:], [pfull]: the parent is a
    fullNode (the code asserts it wherever it removes the child from its parent);
    UWhole = "parent.Children[key[pos-1]] = nil" *)
Fixpoint unset (fuel : nat) (pfull : bool) (child : node) (k : key) (rl : bool) : uout :=
  match fuel with
  | O => UFuel
  | S f =>
    match child with
    | Full cs _ =>
      match k with
      | [] => UCrash
      | k0 :: kt =>
        let cs1 := if rl then clear_range 0 k0 cs else clear_range (S k0) 16 cs in
        match nth_error cs1 k0 with
        | None => UCrash
        | Some c =>
          match put_child (unset f true c kt rl) k0 cs1 with
          | inl o => o
          | inr cs2 => UNode (Full cs2 newflag)
          end
        end
      end
    | Short nk cc _ =>
      if Nat.ltb (length k) (length nk) || negb (keq nk (firstn (length nk) k)) then
        if (if rl then is_lt (kcmp nk k) else is_gt (kcmp nk k))
        then (if pfull then UWhole else UCrash)
        else UNode child
      else
        match cc with
        | Value _ => if pfull then UWhole else UCrash
        | _ =>
          match unset f false cc (skipn (length nk) k) rl with
          | UNode c' => UNode (Short nk c' newflag)
          | UWhole => UCrash
          | o => o
          end
        end
    | Empty => UNode Empty
    | Ref _ | Value _ => UCrash
    end
  end.

(** the result of removing the fork-point short node from its parent *)
Definition drop_fork (has_parent pfull : bool) : uout :=
  if negb has_parent then UWhole else if pfull then UWhole else UCrash.

(** unsetInternal from node [n] on; [l], [r] = left[pos:], right[pos:].  At the root UWhole
    means "return true" (unset the entire trie). *)
Fixpoint unset_internal (fuel : nat) (has_parent pfull : bool) (n : node) (l r : key) : uout :=
  match fuel with
  | O => UFuel
  | S f =>
    match n with
    | Short nk c _ =>
      let fl := kcmp (firstn (length nk) l) nk in
      let fr := kcmp (firstn (length nk) r) nk in
      if is_eq fl && is_eq fr then
        match unset_internal f true false c (skipn (length nk) l) (skipn (length nk) r) with
        | UNode c' => UNode (Short nk c' newflag)
        | UWhole => UCrash
        | o => o
        end
      else if is_lt fl && is_lt fr then UErr
      else if is_gt fl && is_gt fr then UErr
      else if negb (is_eq fl) && negb (is_eq fr) then drop_fork has_parent pfull
      else if negb (is_eq fr) then
        match c with
        | Value _ => drop_fork has_parent pfull
        | _ => match unset f false c (skipn (length nk) l) false with
               | UNode c' => UNode (Short nk c' newflag)
               | UWhole => UCrash
               | o => o
               end
        end
      else
        match c with
        | Value _ => drop_fork has_parent pfull
        | _ => match unset f false c (skipn (length nk) r) true with
               | UNode c' => UNode (Short nk c' newflag)
               | UWhole => UCrash
               | o => o
               end
        end
    | Full cs _ =>
      match l, r with
      | l0 :: lt, r0 :: rt =>
        match nth_error cs l0, nth_error cs r0 with
        | Some ln, Some rn =>
          let fork :=
              let cs1 := clear_range (S l0) r0 cs in
              match nth_error cs1 l0 with
              | None => UCrash
              | Some lc =>
                match put_child (unset f true lc lt false) l0 cs1 with
                | inl o => o
                | inr cs2 =>
                  match nth_error cs2 r0 with
                  | None => UCrash
                  | Some rc =>
                    match put_child (unset f true rc rt true) r0 cs2 with
                    | inl o => o
                    | inr cs3 => UNode (Full cs3 newflag)
                    end
                  end
                end
              end in
          if is_empty ln || is_empty rn then fork
          else
            match ln, rn with
            | Ref _, Ref _ | Value _, Value _ => UCrash   (* interface comparison of slice types *)
            | _, _ =>
              if negb (Nat.eqb l0 r0) then fork
              else
                match put_child (unset_internal f true true ln lt rt) l0 cs with
                | inl o => o
                | inr cs' => UNode (Full cs' newflag)
                end
            end
        | _, _ => UCrash
        end
      | _, _ => UCrash
      end
    | _ => UCrash
    end
  end.

(** hasRightElement (the key is already in hex form) *)
Fixpoint has_right (fuel : nat) (n : node) (k : key) : res bool :=
  match fuel with
  | O => OutOfFuel
  | S f =>
    match n with
    | Empty => Ok false
    | Value _ => Ok false
    | Ref _ => Crash
    | Full cs _ =>
      match k with
      | [] => Crash
      | k0 :: kt =>
        if existsb (fun c => negb (is_empty c)) (firstn (16 - S k0) (skipn (S k0) cs)) then Ok true
        else match nth_error cs k0 with
             | None => Crash
             | Some c => has_right f c kt
             end
      end
    | Short nk c _ =>
      if Nat.ltb (length k) (length nk) || negb (keq nk (firstn (length nk) k))
      then Ok (is_gt (kcmp nk k))
      else has_right f c (skipn (length nk) k)
    end
  end.

Fixpoint increasing (ks : list bytes) : bool :=
  match ks with
  | a :: ((b :: _) as t) => is_lt (bcmp a b) && increasing t
  | _ => true
  end.

Definition last_key (ks : list bytes) : bytes := List.last ks [].

Inductive rres := RAccept (more : bool) | RError | RCrash.

Definition rres_of {A} (r : res A) (f : A -> rres) : rres :=
  match r with Ok a => f a | Missing => RError | Crash => RCrash | OutOfFuel => RCrash end.

Section WithHash.
Variable H : bytes -> bytes.

(** the leaf stream re-inserted into the partial trie; Update errors (a hash node met with the
    empty reader) are ignored by the code, panics are not *)
Fixpoint refill (root : node) (kvs : list (bytes * bytes)) : res node :=
  match kvs with
  | [] => Ok root
  | (k, v) :: t =>
    match trie_update [] root k v with
    | Ok r => refill r t
    | Missing => refill root t
    | Crash => Crash
    | OutOfFuel => OutOfFuel
    end
  end.

(** VerifyRangeProof(rootHash, firstKey, lastKey, keys, values, proof); [proof = None] is the
    nil proof, otherwise the blobs the verifier keys by their own hash *)
Definition verify_range (root : bytes) (first last : bytes) (keys vals : list bytes)
           (proof : option (list bytes)) : rres :=
  if negb (Nat.eqb (length keys) (length vals)) then RError
  else if negb (increasing keys) then RError
  else if existsb (fun v => Nat.eqb (length v) 0) vals then RError
  else
    match proof with
    | None =>
      match stack_root H (combine keys vals) with
      | None => RCrash
      | Some h => if beq h root then RAccept false else RError
      end
    | Some blobs =>
      let pd := db_of H blobs in
      let fuel := 16 * length blobs + 4 * (length first + length last) + walk_fuel in
      match keys with
      | [] =>
        rres_of (proof_to_path fuel pd root None first true) (fun rv =>
          match snd rv with
          | _ :: _ => RError
          | [] => rres_of (has_right fuel (fst rv) (keybytes_to_hex first))
                          (fun b => if b then RError else RAccept false)
          end)
      | k1 :: krest =>
        if match krest with [] => beq first last | _ => false end then
          rres_of (proof_to_path fuel pd root None first false) (fun rv =>
            if negb (beq first k1) then RError
            else if negb (beq (snd rv) (hd [] vals)) then RError
            else rres_of (has_right fuel (fst rv) (keybytes_to_hex first)) RAccept)
        else if negb (is_lt (bcmp first last)) then RError
        else if negb (Nat.eqb (length first) (length last)) then RError
        else
          rres_of (proof_to_path fuel pd root None first true) (fun rv1 =>
          rres_of (proof_to_path fuel pd root (Some (fst rv1)) last true) (fun rv2 =>
            match unset_internal fuel false false (fst rv2)
                                 (keybytes_to_hex first) (keybytes_to_hex last) with
            | UErr => RError
            | UCrash | UFuel => RCrash
            | (UWhole | UNode _) as o =>
              let start := match o with UNode n => n | _ => Empty end in
              rres_of (refill start (combine keys vals)) (fun tr =>
                let hc := trie_hash H tr in
                if negb (beq (fst hc) root) then RError
                else rres_of (has_right (fuel + 2 * length (last_key keys) + 4) (snd hc)
                                        (keybytes_to_hex (last_key keys))) RAccept)
            end))
      end
    end.

End WithHash.
