(** C07 proofs, part 9: Trie.get through hash-node resolution (database lookups + decodeNode)
    refines the same map as on the fully resolved trie; hence a trie committed to the database
    and reopened by root hash has the same content and the same root. *)
From Coq Require Import List ZArith NArith Arith Bool Lia.
From Kardia Require Import C07.Model C07.ProofsBase C07.ProofsMap C07.ProofsCanon C07.ProofsEnc
     C07.ProofsCache C07.ProofsRlp C07.ProofsCodec C07.ProofsCommit.
Import ListNotations.

Lemma Forall2_nth_error_r {A B} (R : A -> B -> Prop) l l' i y :
  Forall2 R l l' -> nth_error l' i = Some y -> exists x, nth_error l i = Some x /\ R x y.
Proof.
  intros Hf. revert i. induction Hf as [|a b l l' Hab Hl IH]; intros [|i] Hn; cbn in *; try discriminate.
  - inversion Hn; subst. eauto.
  - eauto.
Qed.

Lemma Forall2_set_nth_l {A B} (R : A -> B -> Prop) l l' i x y :
  Forall2 R l l' -> nth_error l' i = Some y -> R x y -> Forall2 R (set_nth i x l) l'.
Proof.
  intros Hf. revert i. induction Hf as [|a b l l' Hab Hl IH]; intros [|i] Hn Hr; cbn in *; try discriminate.
  - inversion Hn; subst. constructor; auto.
  - constructor; eauto.
Qed.

Lemma Forall2_map_l {A B} (R : B -> A -> Prop) (f : A -> B) l :
  (forall c, In c l -> R (f c) c) -> Forall2 R (map f l) l.
Proof. induction l as [|a l IH]; intros Hh; cbn; constructor; [apply Hh; left; auto|apply IH; intros; apply Hh; right; auto]. Qed.

Lemma keybytes_to_hex_length kb : length (keybytes_to_hex kb) = 2 * length kb + 1.
Proof. induction kb as [|b kb IH]; cbn [keybytes_to_hex length]; lia. Qed.

Lemma rlp_list_not_128 p : rlp_list p <> [128%N].
Proof.
  unfold rlp_list. destruct (N.ltb (nlen p) 56); intros E; apply (f_equal (hd 0%N)) in E; cbn [hd] in E; lia.
Qed.

Section Reopen.
Variable H : bytes -> bytes.
Hypothesis Hlen : forall x, length (H x) = 32.
Variable d : db.

Definition is_node (c : node) : Prop := match c with Short _ _ _ | Full _ _ => True | _ => False end.

(** everything strictly below [c] that is referenced by hash can be read from the database *)
Definition below (c : node) : Prop :=
  match c with
  | Short _ ch _ => covered_db H d false ch
  | Full cs _ => forall ch, In ch cs -> covered_db H d false ch
  | _ => True
  end.

Lemma covered_below root c : covered_db H d root c -> below c.
Proof. intros Hc. inversion Hc; subst; cbn; auto. Qed.

(** [rel n' n]: the run-time node [n'] (with hash nodes) is a partially resolved view of the
    canonical node [n] whose missing parts are all in the database *)
Inductive rel : node -> node -> Prop :=
| RelE : rel Empty Empty
| RelV v : rel (Value v) (Value v)
| RelS k c' c f' f : rel c' c -> rel (Short k c' f') (Short k c f)
| RelF cs' cs f' f : Forall2 rel cs' cs -> rel (Full cs' f') (Full cs f)
| RelR c : is_node c -> db_get d (H (cenc H c)) = Some (cenc H c) -> below c ->
           rel (Ref (H (cenc H c))) c.

Lemma hspec_canon_cases c : canon c -> c <> Empty ->
  hspec H c false = HEmb (cenc H c) \/ hspec H c false = HHash (H (cenc H c)).
Proof. intros Hc Hne. rewrite (hspec_node H c Hc Hne). apply finish_cases. Qed.

Lemma canon_is_node c : canon c -> c <> Empty -> is_node c.
Proof. intros Hc Hne. destruct Hc; cbn; auto. Qed.

(** what the parent stores for a child is a view of that child *)
Lemma cref_rel c : covered_db H d false c ->
  (c = Empty \/ (exists v, c = Value v) \/
   (canon c /\ c <> Empty /\ (below c -> rel (shallow H None c) c))) ->
  rel (cref H c) c.
Proof.
  intros Hcov [->|[(v & ->)|(Hc & Hne & IH)]].
  - cbn. constructor.
  - cbn. constructor.
  - unfold cref. destruct (hspec_canon_cases c Hc Hne) as [E|E]; rewrite E.
    + apply IH. eapply covered_below; eauto.
    + apply RelR; [apply canon_is_node; auto| |eapply covered_below; eauto].
      inversion Hcov as [| |? k0 c0 f0 Ho _|? cs0 f0 Ho _]; subst; try (inversion Hc; fail); try congruence;
        apply Ho; exact E.
Qed.

Lemma shallow_rel c : canon c -> forall h, below c -> rel (shallow H h c) c.
Proof.
  induction 1 as [|p v f Hp Hv|k cs g f Hk Hn Hc IH|cs f Hl Hch IH H16 Hcnt]; intros h Hb.
  - constructor.
  - rewrite shallow_short. constructor. cbn. constructor.
  - rewrite shallow_short. constructor. apply cref_rel; [exact Hb|].
    right. right. split; auto. split; [discriminate|]. intros Hb'. apply IH; auto.
  - rewrite shallow_full. constructor. apply Forall2_map_l. intros c Hin.
    apply cref_rel; [apply Hb; auto|].
    destruct (In_nth_error _ _ Hin) as (i & Hi). pose proof (nth_error_some_lt _ _ _ Hi) as Hlt.
    rewrite Hl in Hlt. destruct (Nat.eq_dec i 16) as [->|Hd].
    + destruct (H16 _ Hi) as [->|(v & _ & ->)]; eauto.
    + assert (Hi16 : i < 16) by lia. destruct (is_empty c) eqn:E.
      * apply is_empty_true in E. auto.
      * apply is_empty_false in E. right. right. split; [eapply Hch; eauto|]. split; auto.
        intros Hb'. apply (IH i c Hi Hi16). auto.
Qed.

Lemma resolve_ok c : canon c -> sized c -> is_node c ->
  db_get d (H (cenc H c)) = Some (cenc H c) ->
  resolve_hash d (H (cenc H c)) = Ok (shallow H (Some (H (cenc H c))) c).
Proof.
  intros Hc Hs Hn Hg. unfold resolve_hash. rewrite Hg.
  assert (Hne : c <> Empty) by (destruct c; cbn in Hn; try tauto; discriminate).
  pose proof (decode_cenc H Hlen c Hc Hs Hne (length (cenc H c)) (Some (H (cenc H c))) [] (le_n _)) as Hd.
  rewrite app_nil_r in Hd. rewrite Hd.
  destruct (cenc H c) eqn:E; [|reflexivity].
  destruct (cenc_item H Hlen c Hc Hs Hne) as (P & hdr & _ & Hnn & _). rewrite E in Hnn. congruence.
Qed.

Lemma get_ref_eq f h k :
  get (S f) d (Ref h) k = rbind (resolve_hash d h) (fun child => get f d child k).
Proof. reflexivity. Qed.

Definition ref_cost (n : node) : nat := match n with Ref _ => 1 | _ => 0 end.

Lemma rel_value_inv c' v : rel c' (Value v) -> c' = Value v.
Proof. intros Hr. inversion Hr; subst; auto. match goal with X : is_node _ |- _ => destruct X end. Qed.

Lemma rel_empty_inv c' : rel c' Empty -> c' = Empty.
Proof. intros Hr. inversion Hr; subst; auto. match goal with X : is_node _ |- _ => destruct X end. Qed.

(** Trie.get on a partially resolved view *)
Lemma get_rel : forall fuel n' n k, rel n' n -> canon n -> sized n -> wfk k ->
  2 * length k + ref_cost n' < fuel ->
  exists v n'', get fuel d n' k = Ok (v, n'') /\ get_ok n k v /\ rel n'' n.
Proof.
  induction fuel as [|f IH]; intros n' n k Hr Hc Hs Hk Hf; [lia|].
  destruct Hr as [|v|k0 c' c f' fl Hrc|cs' cs f' fl Hrc|c Hn Hg Hb].
  - (* empty *)
    exists [], Empty. split; [reflexivity|]. split; [|constructor].
    left. split; auto. intros w Hw. inversion Hw.
  - inversion Hc.
  - (* short *)
    rewrite get_short_eq.
    inversion Hs as [| |? ? ? Hkl Hsc|]; subst.
    inversion Hc as [|p v ? Hp Hv|? cs g ? Hk0 Hn0 Hcf|]; subst.
    + (* leaf *)
      apply rel_value_inv in Hrc. subst c'.
      destruct (short_cond (p ++ [16]) k) eqn:E.
      * exists [], (Short (p ++ [16]) (Value v) f'). split; auto. split; [|constructor; constructor].
        left. split; auto. intros w Hw. apply has_short in Hw as (r & -> & _).
        assert (short_cond (p ++ [16]) ((p ++ [16]) ++ r) = false) by (apply short_cond_false; eauto).
        congruence.
      * apply short_cond_false in E as (r & ->).
        assert (r = []) as -> by (apply (wfk_prefix_eq (p ++ [16]) r); [apply wfk_snoc; auto | auto]).
        rewrite skipn_app_len. destruct f as [|f]; [rewrite !app_length in Hf; cbn in Hf; lia|].
        exists v, (Short (p ++ [16]) (Value v) f'). split; [reflexivity|]. split; [|constructor; constructor].
        right. split; auto. constructor. constructor.
    + (* extension *)
      destruct (short_cond k0 k) eqn:E.
      * exists [], (Short k0 c' f'). split; auto. split; [|constructor; auto].
        left. split; auto. intros w Hw. apply has_short in Hw as (r & -> & _).
        assert (short_cond k0 (k0 ++ r) = false) by (apply short_cond_false; eauto). congruence.
      * apply short_cond_false in E as (r & ->). rewrite skipn_app_len.
        assert (Hwr : wfk r) by (apply (wfk_app_inv k0); auto).
        destruct (IH c' (Full cs g) r Hrc Hcf Hsc Hwr) as (v & n2 & Hg & Hok & Hr2).
        { rewrite app_length in Hf. destruct k0; [congruence|]. cbn in Hf.
          destruct c'; cbn [ref_cost] in *; lia. }
        rewrite Hg. cbn [rbind fst snd]. exists v, (Short k0 n2 f'). split; auto.
        split; [|constructor; auto].
        destruct Hok as [[-> Hno]|[Hv Hh]].
        -- left. split; auto. intros w Hw. apply has_short in Hw as (r' & Heq & Hr').
           apply app_inv_head in Heq. subst. eapply Hno; eauto.
        -- right. split; auto. constructor; auto.
  - (* full *)
    inversion Hs as [| | |? ? Hsc]; subst.
    inversion Hc as [| | |? ? Hl Hch H16 Hcnt]; subst.
    destruct k as [|i kt]; [cbn in Hk; tauto|]. rewrite get_full_eq.
    assert (Hi17 : i <= 16) by (cbn in Hk; lia).
    destruct (nth_error_lt_some cs i) as (c & Hn); [lia|].
    destruct (Forall2_nth_error_r _ _ _ _ _ Hrc Hn) as (c' & Hn' & Hrc').
    rewrite Hn'. cbn in Hk. destruct Hk as [[-> ->]|[Hi Hkt]].
    + destruct f as [|f]; [cbn in Hf; lia|].
      destruct (H16 _ Hn) as [->|(v & Hv & ->)].
      * apply rel_empty_inv in Hrc'. subst c'. exists [], (Full cs' f').
        cbn [get rbind fst snd]. rewrite (set_nth_same _ _ _ Hn'). split; auto.
        split; [|constructor; auto]. left. split; auto.
        intros w Hw. apply has_full in Hw as (i & r & c & Heq & Hn2 & Hr). inversion Heq; subst.
        rewrite Hn in Hn2. inversion Hn2; subst. inversion Hr.
      * apply rel_value_inv in Hrc'. subst c'. exists v, (Full cs' f').
        cbn [get rbind fst snd]. rewrite (set_nth_same _ _ _ Hn'). split; auto.
        split; [|constructor; auto]. right. split; auto. econstructor; eauto. constructor.
    + assert (Hcc : canon c) by (eapply Hch; eauto).
      assert (Hsc' : sized c) by (apply Hsc; eapply nth_error_In; eauto).
      destruct (IH c' c kt Hrc' Hcc Hsc' Hkt) as (v & n2 & Hg & Hok & Hr2).
      { cbn in Hf. destruct c'; cbn [ref_cost] in *; lia. }
      rewrite Hg. cbn [rbind fst snd]. exists v, (Full (set_nth i n2 cs') f'). split; auto.
      split; [|constructor; eapply Forall2_set_nth_l; eauto].
      destruct Hok as [[-> Hno]|[Hv Hh]].
      * left. split; auto. intros w Hw. apply has_full in Hw as (j & r & c2 & Heq & Hn2 & Hr).
        inversion Heq; subst. rewrite Hn in Hn2. inversion Hn2; subst. eapply Hno; eauto.
      * right. split; auto. econstructor; eauto.
  - (* hash node: resolve, then continue on the decoded node *)
    rewrite get_ref_eq. rewrite (resolve_ok c Hc Hs Hn Hg). cbn [rbind].
    apply IH; auto.
    + apply shallow_rel; auto.
    + cbn [ref_cost] in Hf. destruct c; cbn in Hn; try tauto; cbn; lia.
Qed.

(* ------------------------------------------------------------------ sizes from the content *)

Lemma sized_of_content n : canon n ->
  (forall k w, has n k w -> (nlen k < B32)%N /\ (nlen w < B32)%N) -> sized n.
Proof.
  induction 1 as [|p v f Hp Hv|k cs g f Hk Hn Hc IH|cs f Hl Hch IH H16 Hcnt]; intros Hb.
  - constructor.
  - assert (Hh : has (Short (p ++ [16]) (Value v) f) ((p ++ [16]) ++ []) v) by (constructor; constructor).
    destruct (Hb _ _ Hh) as [B1 B2]. rewrite app_nil_r in B1. constructor; auto. constructor; auto.
  - destruct (canon_has_key _ Hc) as (k' & w & Hh); [discriminate|].
    assert (Hh2 : has (Short k (Full cs g) f) (k ++ k') w) by (constructor; auto).
    destruct (Hb _ _ Hh2) as [B1 _]. rewrite nlen_app in B1. constructor; [lia|].
    apply IH. intros k2 w2 Hk2. assert (Hh3 : has (Short k (Full cs g) f) (k ++ k2) w2) by (constructor; auto).
    destruct (Hb _ _ Hh3) as [C1 C2]. rewrite nlen_app in C1. split; auto. lia.
  - constructor. intros c Hin. destruct (In_nth_error _ _ Hin) as (i & Hi).
    pose proof (nth_error_some_lt _ _ _ Hi) as Hlt. rewrite Hl in Hlt.
    destruct (Nat.eq_dec i 16) as [->|Hd].
    + destruct (H16 _ Hi) as [->|(v & _ & ->)]; [constructor|].
      assert (Hh : has (Full cs f) [16] v) by (econstructor; eauto; constructor).
      destruct (Hb _ _ Hh). constructor; auto.
    + apply (IH i c Hi); [lia|]. intros k2 w2 Hk2.
      assert (Hh : has (Full cs f) (i :: k2) w2) by (econstructor; eauto).
      destruct (Hb _ _ Hh) as [C1 C2]. cbn [nlen] in C1. split; auto. lia.
Qed.

(** the content is bounded: keys and values shorter than 2^30 bytes *)
Definition bounded (m : bytes -> bytes) : Prop :=
  forall kb, m kb <> [] -> (nlen kb < 1073741824)%N /\ (nlen (m kb) < 1073741824)%N.

Lemma represents_sized m n : represents m n -> bounded m -> sized n.
Proof.
  intros [Hc Hr] Hb. apply sized_of_content; auto. intros k w Hh.
  apply Hr in Hh as (kb & _ & -> & -> & Hw). destruct (Hb kb Hw) as [B1 B2].
  rewrite !nlen_length in *. rewrite keybytes_to_hex_length. unfold B32. lia.
Qed.

Lemma get_ok_represents m n kb v : represents m n -> is_bytes kb ->
  get_ok n (keybytes_to_hex kb) v -> v = m kb.
Proof.
  intros [Hc Hr] Hkb [[-> Hno]|[Hv Hh]].
  - destruct (m kb) eqn:E; auto. exfalso. apply (Hno (m kb)). apply Hr. exists kb.
    repeat split; auto. rewrite E. discriminate.
  - apply Hr in Hh as (kb' & Hb' & Heq & -> & _). apply keybytes_to_hex_inj in Heq; auto. congruence.
Qed.

(* ------------------------------------------------------------------ commit, then reopen *)

Lemma cenc_erase a b : erase a = erase b -> cenc H a = cenc H b.
Proof.
  intros E. destruct a, b; cbn in E; try discriminate; try reflexivity.
  - injection E as E1 E2. subst. unfold cenc. f_equal. unfold hspec. rewrite E2. reflexivity.
  - injection E as E1. unfold cenc. f_equal.
    assert (X : map (fun c => hspec H c false) cs = map (fun c => hspec H (erase c) false) cs).
    { apply map_ext. intros c. symmetry. apply hspec_erase. }
    assert (Y : map (fun c => hspec H c false) cs0 = map (fun c => hspec H (erase c) false) cs0).
    { apply map_ext. intros c. symmetry. apply hspec_erase. }
    rewrite X, Y. rewrite <- !(map_map erase (fun c => hspec H c false)). rewrite E1. reflexivity.
Qed.

End Reopen.

Section Final.
Variable H : bytes -> bytes.
Hypothesis Hlen : forall x, length (H x) = 32.

Lemma finish_forced e : finish H e true = HHash (H e).
Proof. unfold finish. rewrite andb_false_r. reflexivity. Qed.

Lemma trie_hash_shallow h c : is_node c -> fst (trie_hash H (shallow H (Some h) c)) = h.
Proof. destruct c; cbn [is_node]; try tauto; intros _; reflexivity. Qed.

Lemma top_dirty root c : is_node c -> caches_ok H root c ->
  match c with Short _ _ fl | Full _ fl => fdirty fl = true | _ => True end.
Proof.
  destruct c; cbn [is_node]; try tauto; intros _ Hok.
  - apply caches_ok_short in Hok. destruct Hok as (X & _). exact X.
  - apply caches_ok_full in Hok. destruct Hok as (X & _). exact X.
Qed.

(** Trie.Commit(false) + Database.Update, then trie.New(root) (and also the committed trie
    itself, whose root is now a hash node): same root, same content — unless a Keccak
    collision is exhibited, or the root hash is the all-zero hash (which trie.New treats as
    the empty trie) *)
Theorem commit_reopen d m n : represents m n -> caches_ok H true n -> bounded m -> n <> Empty ->
  let '(h, root', set) := trie_commit H n in
  let d' := set ++ d in
  collision H \/ h = repeat 0%N 32 \/
  (h = fst (trie_hash H n) /\ root' = Ref h /\
   exists r, trie_open H d' h = Ok r /\ fst (trie_hash H r) = h /\
             forall kb, is_bytes kb ->
               (exists r', trie_get d' r kb = Ok (m kb, r')) /\
               (exists r', trie_get d' root' kb = Ok (m kb, r'))).
Proof.
  intros Hrep Hok Hb Hne.
  destruct (hash_node_ok4 H n true Hok) as (A & B & C & D).
  set (n2 := snd (hash_node H n true)) in *.
  assert (Hc2 : canon n2) by (apply (canon_same_erase n n2); [symmetry; exact B|apply Hrep]).
  assert (Hne2 : n2 <> Empty).
  { intros X. rewrite X in B. cbn in B. symmetry in B. apply erase_empty in B. congruence. }
  assert (Hrep2 : represents m n2).
  { split; auto. intros k w. rewrite (has_same_erase H n2 n B). apply Hrep. }
  pose proof (represents_sized H Hlen m n2 Hrep2 Hb) as Hs2.
  pose proof (canon_is_node n2 Hc2 Hne2) as Hn2.
  assert (Ecenc : cenc H n = cenc H n2) by (apply cenc_erase; symmetry; exact B).
  assert (Hnn : is_node n) by (apply canon_is_node; [apply Hrep|auto]).
  assert (Ah : fst (hash_node H n true) = HHash (H (cenc H n2))).
  { rewrite A, (hspec_cenc H n true Hnn), finish_forced, Ecenc. reflexivity. }
  assert (Ah2 : hspec H n2 true = HHash (H (cenc H n2))).
  { rewrite (hspec_cenc H n2 true Hn2), finish_forced. reflexivity. }
  destruct (commit_ok H n2 Hc2 true C D) as (K1 & K2 & K3).
  (* unfold Trie.Commit *)
  assert (Ecommit : trie_commit H n = (H (cenc H n2), Ref (H (cenc H n2)), snd (commit_node n2))).
  { unfold trie_commit. rewrite (trie_hash_eq H n Hne). cbn [fst snd]. fold n2. rewrite Ah.
    pose proof (top_dirty true n2 Hn2 C) as Hd.
    destruct n as [| | | |]; cbn [is_node] in Hnn; try tauto;
      (destruct n2 as [| |k2 c2 fl2|cs2 fl2|]; cbn [is_node] in Hn2; try tauto;
       rewrite Hd; rewrite K1, Ah2; reflexivity). }
  rewrite Ecommit. cbv zeta. clear Ecommit. clearbody n2.
  set (h := H (cenc H n2)). set (S := snd (commit_node n2)).
  destruct (covered_in_db H S d true n2 K3 K2) as [Hcov|Col]; [|left; exact Col].
  assert (Hget : db_get (S ++ d) h = Some (cenc H n2)).
  { destruct n2 as [| |k2 c2 fl2|cs2 fl2|]; cbn [is_node] in Hn2; try tauto;
      inversion Hcov as [| |? ? ? ? Ho _|? ? ? Ho _]; subst; apply Ho; exact Ah2. }
  pose proof (covered_below H (S ++ d) true n2 Hcov) as Hbelow.
  destruct (beq h (repeat 0%N 32)) eqn:Ez; [right; left; apply beq_eq; exact Ez|].
  destruct (beq h (empty_root H)) eqn:Ee.
  { left. apply beq_eq in Ee. exists (cenc H n2), [128%N]. split; auto.
    destruct (cenc_item H Hlen n2 Hc2 Hs2 Hne2) as (P & _).
    destruct n2; cbn [is_node] in Hn2; try tauto;
      [rewrite cenc_short|rewrite cenc_full]; apply rlp_list_not_128. }
  right. right. split; [rewrite (trie_hash_eq H n Hne); cbn [fst]; rewrite Ah; reflexivity|].
  split; [reflexivity|].
  exists (shallow H (Some h) n2). split.
  { unfold trie_open. rewrite Ez, Ee. cbn [orb]. apply resolve_ok; auto. }
  split; [apply trie_hash_shallow; auto|].
  intros kb Hkb. pose proof (keybytes_to_hex_wfk _ Hkb) as Hw.
  split.
  - destruct (get_rel H Hlen (S ++ d) (fuel_of (keybytes_to_hex kb)) (shallow H (Some h) n2) n2
                (keybytes_to_hex kb)) as (v & r' & Hg & Hv & _); auto.
    + apply shallow_rel; auto.
    + unfold fuel_of. destruct n2; cbn [is_node] in Hn2; try tauto; cbn; lia.
    + exists r'. unfold trie_get. rewrite Hg. rewrite (get_ok_represents m n2 kb v Hrep2 Hkb Hv). reflexivity.
  - destruct (get_rel H Hlen (S ++ d) (fuel_of (keybytes_to_hex kb)) (Ref h) n2
                (keybytes_to_hex kb)) as (v & r' & Hg & Hv & _); auto.
    + apply RelR; auto.
    + unfold fuel_of. cbn. lia.
    + exists r'. unfold trie_get. rewrite Hg. rewrite (get_ok_represents m n2 kb v Hrep2 Hkb Hv). reflexivity.
Qed.

End Final.
