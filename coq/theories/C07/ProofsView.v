(** C07 proofs, part 15 (round 3): Update / Delete / Hash THROUGH hash nodes.
    A run-time trie whose root was committed (hash nodes resolved from the database on demand,
    decoded nodes carrying their hash) is a [view] of a canonical trie; Trie.insert and Trie.delete
    on the view run in lockstep with the same operation on the canonical trie and yield a view
    of its result; hasher.hash on a view returns the canonical hash.  Hence operations after a
    commit / reopen keep refining the map and the root stays the canonical root of the content. *)
From Coq Require Import List ZArith NArith Arith Bool Lia.
From Kardia Require Import C07.Model C07.ProofsBase C07.ProofsMap C07.ProofsCanon C07.ProofsEnc
     C07.ProofsCache C07.ProofsRlp C07.ProofsCodec C07.ProofsCommit C07.ProofsReopen.
Import ListNotations.

Lemma rbind_ok {A B} (x : res A) (g : A -> res B) r :
  rbind x g = Ok r -> exists a, x = Ok a /\ g a = Ok r.
Proof. destruct x; cbn; intros E; try discriminate. eauto. Qed.

(* ------------------------------------------------------------------ fuel monotonicity *)

Section Mono.
Variable d : db.

Lemma insert_ref_eq f h k0 kt value :
  insert (S f) d (Ref h) (k0 :: kt) value =
  rbind (resolve_hash d h) (fun rn =>
    rbind (insert f d rn (k0 :: kt) value) (fun r =>
      if fst r then Ok (true, snd r) else Ok (false, rn))).
Proof. reflexivity. Qed.

Lemma delete_ref_eq f h k :
  delete (S f) d (Ref h) k =
  rbind (resolve_hash d h) (fun rn =>
    rbind (delete f d rn k) (fun r =>
      if fst r then Ok (true, snd r) else Ok (false, rn))).
Proof. reflexivity. Qed.

Lemma insert_mono : forall f n k v r, insert f d n k v = Ok r -> insert (S f) d n k v = Ok r.
Proof.
  induction f as [|f IH]; intros n k v r Hi; [discriminate|].
  destruct k as [|k0 kt]; [exact Hi|].
  destruct n as [|v0|nk c fl|cs fl|h]; try exact Hi.
  - rewrite insert_short_eq in *. cbv zeta in *.
    destruct (Nat.eqb (prefix_len (k0 :: kt) nk) (length nk)); [|exact Hi].
    apply rbind_ok in Hi as (a & Ha & Hg). rewrite (IH _ _ _ _ Ha). exact Hg.
  - rewrite insert_full_eq in *. destruct (nth_error cs k0); [|exact Hi].
    apply rbind_ok in Hi as (a & Ha & Hg). rewrite (IH _ _ _ _ Ha). exact Hg.
  - rewrite insert_ref_eq in *. apply rbind_ok in Hi as (rn & Hr & Hi). rewrite Hr. cbn [rbind].
    apply rbind_ok in Hi as (a & Ha & Hg). rewrite (IH _ _ _ _ Ha). exact Hg.
Qed.

Lemma delete_mono : forall f n k r, delete f d n k = Ok r -> delete (S f) d n k = Ok r.
Proof.
  induction f as [|f IH]; intros n k r Hi; [discriminate|].
  destruct n as [|v0|nk c fl|cs fl|h]; try exact Hi.
  - rewrite delete_short_eq in *. cbv zeta in *.
    destruct (Nat.ltb (prefix_len k nk) (length nk)); [exact Hi|].
    destruct (Nat.eqb (prefix_len k nk) (length k)); [exact Hi|].
    apply rbind_ok in Hi as (a & Ha & Hg). rewrite (IH _ _ _ Ha). exact Hg.
  - destruct k as [|k0 kt]; [exact Hi|]. rewrite delete_full_eq in *.
    destruct (nth_error cs k0); [|exact Hi].
    apply rbind_ok in Hi as (a & Ha & Hg). rewrite (IH _ _ _ Ha). exact Hg.
  - rewrite delete_ref_eq in *. apply rbind_ok in Hi as (rn & Hr & Hi). rewrite Hr. cbn [rbind].
    apply rbind_ok in Hi as (a & Ha & Hg). rewrite (IH _ _ _ Ha). exact Hg.
Qed.

End Mono.

(* ------------------------------------------------------------------ views *)

Section View.
Variable H : bytes -> bytes.
Hypothesis Hlen : forall x, length (H x) = 32.
Variable d : db.

(** a cached hash is the hash of the canonical node at that position *)
Definition hash_ok (root : bool) (n : node) (f' : flag) : Prop :=
  forall h, fhash f' = Some h -> hspec H n root = HHash h.

Lemma hash_ok_new root n : hash_ok root n newflag.
Proof. intros h X. discriminate. Qed.

(** [view root n' n]: the run-time node [n'] is a partially resolved view of the canonical node
    [n] ([rel]) whose cached hashes are right; [root]: the node sits at the root (forced hashing) *)
Inductive view : bool -> node -> node -> Prop :=
| VwE root : view root Empty Empty
| VwV root v : view root (Value v) (Value v)
| VwS root k c' c f' f : view false c' c -> hash_ok root (Short k c f) f' ->
                         view root (Short k c' f') (Short k c f)
| VwF root cs' cs f' f : Forall2 (view false) cs' cs -> hash_ok root (Full cs f) f' ->
                         view root (Full cs' f') (Full cs f)
| VwR root c : is_node c -> db_get d (H (cenc H c)) = Some (cenc H c) -> below H d c ->
               hspec H c root = HHash (H (cenc H c)) ->
               view root (Ref (H (cenc H c))) c.

Lemma view_rel : forall root n' n, view root n' n -> rel H d n' n.
Proof.
  fix IH 4. intros root n' n Hv. destruct Hv as [r|r v|r k c' c f' f Hc Hh|r cs' cs f' f Hcs Hh|r c Hn Hg Hb Hs].
  - constructor.
  - constructor.
  - constructor. exact (IH _ _ _ Hc).
  - constructor. clear Hh. revert cs' cs Hcs. fix IHl 3. intros cs' cs Hcs. destruct Hcs as [|a b l l' Hab Hl].
    + constructor.
    + constructor; [exact (IH _ _ _ Hab)|exact (IHl _ _ Hl)].
  - constructor; auto.
Qed.

Lemma view_empty_l root c : view root Empty c -> c = Empty.
Proof. intros Hv. inversion Hv; auto. Qed.
Lemma view_empty_r root c' : view root c' Empty -> c' = Empty.
Proof. intros Hv. inversion Hv; subst; auto. match goal with X : is_node Empty |- _ => destruct X end. Qed.

Lemma view_is_empty root c' c : view root c' c -> is_empty c' = is_empty c.
Proof. intros Hv. destruct Hv; try reflexivity. destruct c; cbn in *; tauto. Qed.

Lemma view_value_r root c' v : view root c' (Value v) -> c' = Value v.
Proof. intros Hv. inversion Hv; subst; auto. match goal with X : is_node (Value _) |- _ => destruct X end. Qed.

(** canonical and sized all the way down (what resolving a hash node below needs) *)
Inductive okn : node -> Prop :=
| OkE : okn Empty
| OkV v : okn (Value v)
| OkS k c f : canon (Short k c f) -> sized (Short k c f) -> okn c -> okn (Short k c f)
| OkF cs f : canon (Full cs f) -> sized (Full cs f) -> (forall c, In c cs -> okn c) -> okn (Full cs f).

Lemma canon_okn n : canon n -> sized n -> okn n.
Proof.
  induction 1 as [|p v f Hp Hv|k cs g f Hk Hn Hc IH|cs f Hl Hch IH H16 Hcnt]; intros Hs.
  - constructor.
  - constructor; [constructor; auto|exact Hs|constructor].
  - inversion Hs; subst. constructor; [constructor; auto|exact Hs|auto].
  - inversion Hs as [| | |? ? Hsc]; subst. constructor; [constructor; auto|exact Hs|].
    intros c Hin. destruct (In_nth_error _ _ Hin) as (i & Hi).
    pose proof (nth_error_some_lt _ _ _ Hi) as Hlt. rewrite Hl in Hlt.
    destruct (Nat.eq_dec i 16) as [->|Hne].
    + destruct (H16 _ Hi) as [->|(v & _ & ->)]; constructor.
    + apply (IH i c Hi); [lia|]. apply Hsc; auto.
Qed.

Lemma okn_node c : okn c -> is_node c -> canon c /\ sized c.
Proof. intros Ho Hn. destruct Ho; cbn in Hn; try tauto; auto. Qed.

(* ---------------------------------------------------------------- resolving a hash node *)

(** what the parent stores for a child is a view of that child *)
Lemma cref_view c : covered_db H d false c ->
  (c = Empty \/ (exists v, c = Value v) \/
   (canon c /\ c <> Empty /\ (below H d c -> view false (shallow H None c) c))) ->
  view false (cref H c) c.
Proof.
  intros Hcov [->|[(v & ->)|(Hc & Hne & IH)]].
  - cbn. constructor.
  - cbn. constructor.
  - unfold cref. destruct (hspec_canon_cases H c Hc Hne) as [E|E]; rewrite E.
    + apply IH. eapply covered_below; eauto.
    + apply VwR; [apply canon_is_node; auto| |eapply covered_below; eauto|exact E].
      inversion Hcov as [| |? k0 c0 f0 Ho _|? cs0 f0 Ho _]; subst; try (inversion Hc; fail); try congruence;
        apply Ho; exact E.
Qed.

Lemma shallow_view c : canon c -> forall h root, below H d c ->
  hash_ok root c (mkFlag h false) -> view root (shallow H h c) c.
Proof.
  induction 1 as [|p v f Hp Hv|k cs g f Hk Hn Hc IH|cs f Hl Hch IH H16 Hcnt]; intros h root Hb Hh.
  - constructor.
  - rewrite shallow_short. constructor; [cbn; constructor|exact Hh].
  - rewrite shallow_short. constructor; [|exact Hh]. apply cref_view; [exact Hb|].
    right. right. split; auto. split; [discriminate|]. intros Hb'. apply IH; auto.
    intros x X. discriminate.
  - rewrite shallow_full. constructor; [|exact Hh]. apply Forall2_map_l. intros c Hin.
    apply cref_view; [apply Hb; auto|].
    destruct (In_nth_error _ _ Hin) as (i & Hi). pose proof (nth_error_some_lt _ _ _ Hi) as Hlt.
    rewrite Hl in Hlt. destruct (Nat.eq_dec i 16) as [->|Hd].
    + destruct (H16 _ Hi) as [->|(v & _ & ->)]; eauto.
    + assert (Hi16 : i < 16) by lia. destruct (is_empty c) eqn:E.
      * apply is_empty_true in E. auto.
      * apply is_empty_false in E. right. right. split; [eapply Hch; eauto|]. split; auto.
        intros Hb'. apply (IH i c Hi Hi16); auto. intros x X. discriminate.
Qed.

(** resolving the hash node of a view gives a view of the same canonical node *)
Lemma resolve_view root c : okn c -> view root (Ref (H (cenc H c))) c ->
  exists rn, resolve_hash d (H (cenc H c)) = Ok rn /\ view root rn c /\ ref_cost rn = 0.
Proof.
  intros Ho Hv.
  assert (Hx : is_node c /\ db_get d (H (cenc H c)) = Some (cenc H c) /\ below H d c /\
               hspec H c root = HHash (H (cenc H c))).
  { inversion Hv; subst; auto. }
  destruct Hx as (Hn & Hg & Hb & Hs). destruct (okn_node c Ho Hn) as [Hc Hsz].
  exists (shallow H (Some (H (cenc H c))) c). split; [apply resolve_ok; auto|]. split.
  - apply shallow_view; auto. intros h X. cbn in X. inversion X; subst. exact Hs.
  - destruct c; cbn in Hn; try tauto; reflexivity.
Qed.

(** every Ref view names the hash of the canonical node *)
Lemma view_ref_inv root h c : view root (Ref h) c -> h = H (cenc H c).
Proof. intros Hv. inversion Hv; subst; reflexivity. Qed.

(* ---------------------------------------------------------------- list helpers *)

Lemma Forall2_set_nth_both {A B} (R : A -> B -> Prop) l l' i x y :
  Forall2 R l l' -> R x y -> Forall2 R (set_nth i x l) (set_nth i y l').
Proof.
  intros Hf. revert i. induction Hf as [|a b l l' Hab Hl IH]; intros [|i] Hr; cbn; constructor; auto.
Qed.

Lemma Forall2_repeat {A B} (R : A -> B -> Prop) x y n : R x y -> Forall2 R (repeat x n) (repeat y n).
Proof. intros Hr. induction n; cbn; constructor; auto. Qed.

Lemma Forall2_nth {A B} (R : A -> B -> Prop) l l' i x y :
  Forall2 R l l' -> R x y -> R (nth i l x) (nth i l' y).
Proof.
  intros Hf. revert i. induction Hf as [|a b l l' Hab Hl IH]; intros [|i] Hr; cbn; auto.
Qed.

Lemma Forall2_length_eq {A B} (R : A -> B -> Prop) l l' : Forall2 R l l' -> length l = length l'.
Proof. induction 1; cbn; auto. Qed.

Lemma In_set_nth {A} (l : list A) : forall i x y, In x (set_nth i y l) -> x = y \/ In x l.
Proof.
  induction l as [|a l IH]; intros [|i] x y Hin; cbn in *; auto.
  - destruct Hin; auto.
  - destruct Hin as [->|Hin]; auto. destruct (IH _ _ _ Hin); auto.
Qed.

Lemma single_child_view cs' cs : Forall2 (view false) cs' cs ->
  forall i acc, single_child cs' i acc = single_child cs i acc.
Proof.
  induction 1 as [|c' c l' l Hc Hl IH]; intros i acc; cbn [single_child]; auto.
  rewrite (view_is_empty _ _ _ Hc). destruct (is_empty c); auto. destruct acc; auto.
Qed.

Definition not_ref (n : node) : Prop := match n with Ref _ => False | _ => True end.

Lemma view_leafn r x' x : view false x' x -> view false (leafn r x') (leafn r x).
Proof.
  intros Hv. destruct r as [|a r]; cbn [leafn]; auto. constructor; auto. apply hash_ok_new.
Qed.

Lemma okn_short_key k c f : okn (Short k c f) -> 1 <= length k.
Proof.
  intros Ho. inversion Ho as [| |? ? ? Hc _ _|]; subst.
  inversion Hc; subst.
  - rewrite app_length. cbn. lia.
  - destruct k; [congruence|cbn; lia].
Qed.

Lemma okn_short_child k c f : okn (Short k c f) -> okn c.
Proof. intros Ho. inversion Ho; subst; auto. Qed.

Lemma okn_full_child cs f i c : okn (Full cs f) -> nth_error cs i = Some c -> okn c.
Proof. intros Ho Hn. inversion Ho as [| | |? ? _ _ Hch]; subst. apply Hch. eapply nth_error_In; eauto. Qed.

Lemma skipn_length_le {A} n (l : list A) : n <= length l -> length (skipn n l) = length l - n.
Proof. intros _. apply skipn_length. Qed.

(* ---------------------------------------------------------------- insert through hash nodes *)

(** the result of the operation on the canonical trie, independent of the (sufficient) fuel *)
Definition ins_res (n : node) (k : key) (value : node) (b : bool) (m : node) : Prop :=
  exists F, forall f0, F <= f0 -> insert f0 d n k value = Ok (b, m).

Lemma mono_le_insert f f' n k v r : insert f d n k v = Ok r -> f <= f' -> insert f' d n k v = Ok r.
Proof. intros Hi Hle. induction Hle; auto. apply insert_mono; auto. Qed.

Lemma mono_le_delete f f' n k r : delete f d n k = Ok r -> f <= f' -> delete f' d n k = Ok r.
Proof. intros Hi Hle. induction Hle; auto. apply delete_mono; auto. Qed.

(** from a stable result of a step that recurses into a child: the child's result is stable too *)
Lemma stable_child {A} (step : nat -> res A) (sub : nat -> res (bool * node)) (cont : bool * node -> res A) F r :
  (forall f0, F <= f0 -> step (S f0) = rbind (sub f0) cont) ->
  (forall f0, S F <= f0 -> step f0 = Ok r) ->
  (forall f f' x, sub f = Ok x -> f <= f' -> sub f' = Ok x) ->
  exists rc, (forall f0, F <= f0 -> sub f0 = Ok rc) /\ cont rc = Ok r.
Proof.
  intros Hstep Hres Hmono.
  pose proof (Hres (S F) (le_n _)) as H0. rewrite (Hstep F (le_n _)) in H0.
  apply rbind_ok in H0 as (rc & Hs & Hc). exists rc. split; auto.
  intros f0 Hle. eapply Hmono; eauto.
Qed.

Lemma view_insert w : forall fuel root n' n k b m,
  view root n' n -> okn n -> ins_res n k (Value w) b m ->
  2 * length k + ref_cost n' < fuel ->
  exists m', insert fuel d n' k (Value w) = Ok (b, m') /\ view root m' m /\ (b = false -> m = n).
Proof.
  induction fuel as [|f IH]; intros root n' n k b m Hv Ho [F Hres] Hf; [lia|].
  destruct k as [|k0 kt].
  - (* the key ends here *)
    pose proof (Hres (S F) (Nat.le_succ_diag_r _)) as H0. rewrite insert_nil_eq in H0.
    rewrite insert_nil_eq.
    destruct n as [|v| | |].
    + inversion H0; subst. apply view_empty_r in Hv. subst. eexists. split; [reflexivity|]. split; [constructor|discriminate].
    + apply view_value_r in Hv. subst. inversion H0; subst. eexists. split; [reflexivity|]. split; [constructor|].
      intros Hb. apply negb_false_iff in Hb. apply beq_eq in Hb. subst. reflexivity.
    + inversion H0; subst. exists (Value w). split; [|split; [constructor|discriminate]].
      inversion Hv; subst; reflexivity.
    + inversion H0; subst. exists (Value w). split; [|split; [constructor|discriminate]].
      inversion Hv; subst; reflexivity.
    + inversion Ho.
  - destruct Hv as [r|r v|r nk c' c f' fl Hc Hh|r cs' cs f' fl Hcs Hh|r c Hn Hg Hb Hs].
    + (* empty *)
      pose proof (Hres (S F) (Nat.le_succ_diag_r _)) as H0. cbn in H0. inversion H0; subst.
      eexists. split; [reflexivity|]. split; [|discriminate]. constructor; [constructor|apply hash_ok_new].
    + pose proof (Hres (S F) (Nat.le_succ_diag_r _)) as H0. cbn in H0. discriminate.
    + (* short *)
      rewrite insert_short_eq. cbv zeta. set (k := k0 :: kt) in *. set (ml := prefix_len k nk).
      pose proof (okn_short_key _ _ _ Ho) as Hnk. pose proof (prefix_len_le k nk) as [Hml1 Hml2]. fold ml in Hml1, Hml2.
      destruct (Nat.eqb ml (length nk)) eqn:Eml.
      * apply Nat.eqb_eq in Eml.
        destruct (stable_child (fun f0 => insert f0 d (Short nk c fl) k (Value w))
                    (fun f0 => insert f0 d c (skipn ml k) (Value w))
                    (fun r => if fst r then Ok (true, Short nk (snd r) newflag) else Ok (false, Short nk c fl))
                    F (b, m)) as ([bc mc] & Hsub & Hcont).
        { intros f0 _. unfold k. rewrite insert_short_eq. cbv zeta. fold k. fold ml.
          rewrite (proj2 (Nat.eqb_eq _ _) Eml). reflexivity. }
        { intros f0 Hle. apply Hres. lia. }
        { intros; eapply mono_le_insert; eauto. }
        destruct (IH false c' c (skipn ml k) bc mc Hc (okn_short_child _ _ _ Ho)) as (mc' & Hi & Hvc & Hsame).
        { exists F. exact Hsub. }
        { rewrite skipn_length. unfold k in *. cbn [length ref_cost] in *. destruct c'; cbn [ref_cost]; lia. }
        rewrite Hi. cbn [rbind fst snd] in *. destruct bc.
        -- inversion Hcont; subst. eexists. split; [reflexivity|]. split; [|discriminate].
           constructor; auto. apply hash_ok_new.
        -- inversion Hcont; subst. eexists. split; [reflexivity|]. split; [|reflexivity].
           constructor; auto.
      * pose proof (Hres (S F) (Nat.le_succ_diag_r _)) as H0. unfold k in H0. rewrite insert_short_eq in H0.
        cbv zeta in H0. fold k in H0. fold ml in H0. rewrite Eml in H0.
        destruct (nth_error nk ml) as [oi|]; [|discriminate]. destruct (nth_error k ml) as [ni|]; [|discriminate].
        assert (Hb2 : Forall2 (view false)
                        (set_nth ni (leafn (skipn (S ml) k) (Value w)) (set_nth oi (leafn (skipn (S ml) nk) c') empty_children))
                        (set_nth ni (leafn (skipn (S ml) k) (Value w)) (set_nth oi (leafn (skipn (S ml) nk) c) empty_children))).
        { apply Forall2_set_nth_both; [|apply view_leafn; constructor].
          apply Forall2_set_nth_both; [|apply view_leafn; auto].
          apply Forall2_repeat. constructor. }
        destruct (Nat.eqb ml 0); inversion H0; subst; (eexists; split; [reflexivity|]; split; [|discriminate]).
        -- constructor; auto. apply hash_ok_new.
        -- constructor; [|apply hash_ok_new]. constructor; auto. apply hash_ok_new.
    + (* full *)
      rewrite insert_full_eq.
      assert (Hcn : exists c, nth_error cs k0 = Some c).
      { pose proof (Hres (S F) (Nat.le_succ_diag_r _)) as H0. rewrite insert_full_eq in H0.
        destruct (nth_error cs k0); [eauto|discriminate]. }
      destruct Hcn as (c & Hn).
      destruct (Forall2_nth_error_r _ _ _ _ _ Hcs Hn) as (c' & Hn' & Hc). rewrite Hn'.
      destruct (stable_child (fun f0 => insert f0 d (Full cs fl) (k0 :: kt) (Value w))
                  (fun f0 => insert f0 d c kt (Value w))
                  (fun r => if fst r then Ok (true, Full (set_nth k0 (snd r) cs) newflag) else Ok (false, Full cs fl))
                  F (b, m)) as ([bc mc] & Hsub & Hcont).
      { intros f0 _. rewrite insert_full_eq, Hn. reflexivity. }
      { intros f0 Hle. apply Hres. lia. }
      { intros; eapply mono_le_insert; eauto. }
      destruct (IH false c' c kt bc mc Hc (okn_full_child _ _ _ _ Ho Hn)) as (mc' & Hi & Hvc & Hsame).
      { exists F. exact Hsub. }
      { cbn [length ref_cost] in *. destruct c'; cbn [ref_cost]; lia. }
      rewrite Hi. cbn [rbind fst snd] in *. destruct bc.
      * inversion Hcont; subst. eexists. split; [reflexivity|]. split; [|discriminate].
        constructor; [|apply hash_ok_new]. apply Forall2_set_nth_both; auto.
      * inversion Hcont; subst. eexists. split; [reflexivity|]. split; [|reflexivity]. constructor; auto.
    + (* hash node *)
      rewrite insert_ref_eq.
      destruct (resolve_view r c Ho (VwR r c Hn Hg Hb Hs)) as (rn & Hr & Hvr & Hrc). rewrite Hr. cbn [rbind].
      destruct (IH r rn c (k0 :: kt) b m Hvr Ho) as (m' & Hi & Hvm & Hsame).
      { exists F. exact Hres. }
      { rewrite Hrc. cbn [ref_cost] in Hf. lia. }
      rewrite Hi. cbn [rbind fst snd]. destruct b.
      * exists m'. split; [reflexivity|]. split; auto.
      * exists rn. split; [reflexivity|]. rewrite (Hsame eq_refl). split; auto.
Qed.

(* ---------------------------------------------------------------- delete through hash nodes *)

Definition del_res (n : node) (k : key) (b : bool) (m : node) : Prop :=
  exists F, forall f0, F <= f0 -> delete f0 d n k = Ok (b, m).

(** the shapes of a view that is not itself a hash node are the shapes of the canonical node *)
Lemma view_short_l root nk cc' f1 m : view root (Short nk cc' f1) m ->
  exists cc f2, m = Short nk cc f2 /\ view false cc' cc.
Proof. intros Hv. inversion Hv; subst. eauto. Qed.

Lemma view_value_l root v m : view root (Value v) m -> m = Value v.
Proof. intros Hv. inversion Hv; subst. reflexivity. Qed.

Lemma view_full_l root cs0 f1 m : view root (Full cs0 f1) m ->
  exists cs f2, m = Full cs f2 /\ Forall2 (view false) cs0 cs.
Proof. intros Hv. inversion Hv; subst. eauto. Qed.

Lemma view_not_short root m' m : view root m' m -> not_ref m' ->
  (forall k c f, m' <> Short k c f) -> (forall k c f, m <> Short k c f).
Proof.
  intros Hv Hnr Hns k c f E. subst m. inversion Hv; subst.
  - eapply Hns; eauto.
  - cbn in Hnr. exact Hnr.
Qed.

(** the reduction of a branch whose child at k0 became [nn] (Trie.delete, fullNode case) *)
Lemma view_collapse root cs1' cs1 nn' nn b m :
  Forall2 (view false) cs1' cs1 -> view false nn' nn ->
  (is_empty nn = true -> forall c, In c cs1 -> okn c) ->
  collapse d cs1 nn = Ok (b, m) ->
  exists m', collapse d cs1' nn' = Ok (b, m') /\ view root m' m /\ not_ref m' /\ b = true.
Proof.
  intros Hcs Hnn Hok0 Hc. unfold collapse in *. rewrite (view_is_empty _ _ _ Hnn).
  destruct (is_empty nn) eqn:Enn; cbn [negb] in *; [|
    inversion Hc; subst; eexists; (split; [reflexivity|]); (split; [|split; [exact I|reflexivity]]);
    constructor; auto; apply hash_ok_new].
  pose proof (Hok0 eq_refl) as Hok. clear Hok0.
  destruct false eqn:Edummy; [discriminate|].
  - rewrite (single_child_view _ _ Hcs). destruct (single_child cs1 0 None) as [[pos|u]|].
    + pose proof (Forall2_nth _ _ _ pos Empty Empty Hcs (VwE false)) as Hon.
      set (only' := nth pos cs1' Empty) in *. set (only := nth pos cs1 Empty) in *.
      assert (Hoo : okn only).
      { unfold only. destruct (nth_in_or_default pos cs1 Empty) as [Hin| ->]; [apply Hok; auto|constructor]. }
      destruct (negb (Nat.eqb pos 16)).
      * (* the remaining child is looked at (resolved if it is a hash node) *)
        assert (Hcanon : (match only with Ref h => resolve_hash d h | _ => Ok only end) = Ok only).
        { destruct only; try reflexivity. inversion Hoo. }
        rewrite Hcanon in Hc. cbn [rbind] in Hc.
        assert (Hres : exists cn', (match only' with Ref h => resolve_hash d h | _ => Ok only' end) = Ok cn' /\
                                   view false cn' only /\ not_ref cn').
        { destruct only' as [|v|k0 c0 f0|cs0 f0|h] eqn:Eo.
          - exists Empty. auto using I. split; auto. split; auto. exact I.
          - eexists. split; [reflexivity|]. split; auto. exact I.
          - eexists. split; [reflexivity|]. split; auto. exact I.
          - eexists. split; [reflexivity|]. split; auto. exact I.
          - pose proof (view_ref_inv _ _ _ Hon) as ->.
            destruct (resolve_view false only Hoo Hon) as (rn & Hr & Hvr & Hrc).
            exists rn. split; auto. split; auto. destruct rn; cbn in *; auto. discriminate. }
        destruct Hres as (cn' & Hr' & Hvc & Hnr). rewrite Hr'. cbn [rbind].
        destruct cn' as [|v|ck cv' f1|cs0 f1|h].
        -- apply view_empty_l in Hvc. rewrite Hvc in Hc. inversion Hc; subst.
           eexists. split; [reflexivity|]. split; [|split; [exact I|reflexivity]].
           constructor; [|apply hash_ok_new]. rewrite <- Hvc. exact Hon.
        -- pose proof (view_value_l _ _ _ Hvc) as Eo. rewrite Eo in Hc. inversion Hc; subst.
           eexists. split; [reflexivity|]. split; [|split; [exact I|reflexivity]].
           constructor; [|apply hash_ok_new]. rewrite <- Eo. exact Hon.
        -- destruct (view_short_l _ _ _ _ _ Hvc) as (cv & f2 & E & Hcv). rewrite E in Hc. inversion Hc; subst.
           eexists. split; [reflexivity|]. split; [|split; [exact I|reflexivity]].
           constructor; auto. apply hash_ok_new.
        -- destruct (view_full_l _ _ _ _ Hvc) as (cs2 & f2 & Eo & _). rewrite Eo in Hc. inversion Hc; subst.
           eexists. split; [reflexivity|]. split; [|split; [exact I|reflexivity]].
           constructor; [|apply hash_ok_new]. rewrite <- Eo. exact Hon.
        -- cbn in Hnr. tauto.
      * inversion Hc; subst. eexists. split; [reflexivity|]. split; [|split; [exact I|reflexivity]].
        constructor; auto. apply hash_ok_new.
    + inversion Hc; subst. eexists. split; [reflexivity|]. split; [|split; [exact I|reflexivity]].
      constructor; auto. apply hash_ok_new.
    + inversion Hc; subst. eexists. split; [reflexivity|]. split; [|split; [exact I|reflexivity]].
      constructor; auto. apply hash_ok_new.
Qed.

Lemma view_delete : forall fuel root n' n k b m,
  view root n' n -> okn n -> del_res n k b m ->
  2 * length k + ref_cost n' < fuel ->
  exists m', delete fuel d n' k = Ok (b, m') /\ view root m' m /\ (b = false -> m = n) /\ (b = true -> not_ref m').
Proof.
  induction fuel as [|f IH]; intros root n' n k b m Hv Ho [F Hres] Hf; [lia|].
  destruct Hv as [r|r v|r nk c' c f' fl Hc Hh|r cs' cs f' fl Hcs Hh|r c Hn Hg Hb Hs].
  - pose proof (Hres (S F) (Nat.le_succ_diag_r _)) as H0. cbn in H0. inversion H0; subst.
    exists Empty. split; [reflexivity|]. split; [constructor|]. split; [reflexivity|discriminate].
  - pose proof (Hres (S F) (Nat.le_succ_diag_r _)) as H0. cbn in H0. inversion H0; subst.
    exists Empty. split; [reflexivity|]. split; [constructor|]. split; [discriminate|intros _; exact I].
  - (* short *)
    rewrite delete_short_eq. cbv zeta. set (ml := prefix_len k nk).
    pose proof (okn_short_key _ _ _ Ho) as Hnk. pose proof (prefix_len_le k nk) as [Hml1 Hml2]. fold ml in Hml1, Hml2.
    pose proof (Hres (S F) (Nat.le_succ_diag_r _)) as H0. rewrite delete_short_eq in H0. cbv zeta in H0. fold ml in H0.
    destruct (Nat.ltb ml (length nk)) eqn:Elt.
    + inversion H0; subst. eexists. split; [reflexivity|]. split; [constructor; auto|]. split; [reflexivity|discriminate].
    + destruct (Nat.eqb ml (length k)) eqn:Eeq.
      * inversion H0; subst. exists Empty. split; [reflexivity|]. split; [constructor|]. split; [discriminate|intros _; exact I].
      * clear H0. apply Nat.ltb_ge in Elt.
        destruct (stable_child (fun f0 => delete f0 d (Short nk c fl) k)
                    (fun f0 => delete f0 d c (skipn (length nk) k))
                    (fun r => if fst r then
                                match snd r with
                                | Short ck cc _ => Ok (true, Short (nk ++ ck) cc newflag)
                                | child => Ok (true, Short nk child newflag)
                                end
                              else Ok (false, Short nk c fl))
                    F (b, m)) as ([bc mc] & Hsub & Hcont).
        { intros f0 _. rewrite delete_short_eq. cbv zeta. fold ml.
          rewrite (proj2 (Nat.ltb_ge _ _) Elt), Eeq. reflexivity. }
        { intros f0 Hle. apply Hres. lia. }
        { intros; eapply mono_le_delete; eauto. }
        destruct (IH false c' c (skipn (length nk) k) bc mc Hc (okn_short_child _ _ _ Ho)) as (mc' & Hi & Hvc & Hsame & Hnr).
        { exists F. exact Hsub. }
        { rewrite skipn_length. cbn [ref_cost] in *. destruct c'; cbn [ref_cost]; lia. }
        rewrite Hi. cbn [rbind fst snd] in *. destruct bc.
        -- specialize (Hnr eq_refl).
           destruct mc' as [|v|ck cc' f1|cs0 f1|h].
           ++ apply view_empty_l in Hvc. subst mc. inversion Hcont; subst.
              eexists. split; [reflexivity|]. split; [|split; [discriminate|intros _; exact I]].
              constructor; [constructor|apply hash_ok_new].
           ++ pose proof (view_value_l _ _ _ Hvc) as Eo. subst mc. inversion Hcont; subst.
              eexists. split; [reflexivity|]. split; [|split; [discriminate|intros _; exact I]].
              constructor; [constructor|apply hash_ok_new].
           ++ destruct (view_short_l _ _ _ _ _ Hvc) as (cc & f2 & E & Hcc). subst mc. inversion Hcont; subst.
              eexists. split; [reflexivity|]. split; [|split; [discriminate|intros _; exact I]].
              constructor; auto. apply hash_ok_new.
           ++ destruct (view_full_l _ _ _ _ Hvc) as (cs2 & f2 & Eo & _). subst mc. inversion Hcont; subst.
              eexists. split; [reflexivity|]. split; [|split; [discriminate|intros _; exact I]].
              constructor; [exact Hvc|apply hash_ok_new].
           ++ cbn in Hnr. tauto.
        -- inversion Hcont; subst. eexists. split; [reflexivity|]. split; [constructor; auto|]. split; [reflexivity|discriminate].
  - (* full *)
    destruct k as [|k0 kt].
    { pose proof (Hres (S F) (Nat.le_succ_diag_r _)) as H0. cbn in H0. discriminate. }
    rewrite delete_full_eq.
    assert (Hcn : exists c, nth_error cs k0 = Some c).
    { pose proof (Hres (S F) (Nat.le_succ_diag_r _)) as H0. rewrite delete_full_eq in H0.
      destruct (nth_error cs k0); [eauto|discriminate]. }
    destruct Hcn as (c & Hn).
    destruct (Forall2_nth_error_r _ _ _ _ _ Hcs Hn) as (c' & Hn' & Hc). rewrite Hn'.
    destruct (stable_child (fun f0 => delete f0 d (Full cs fl) (k0 :: kt))
                (fun f0 => delete f0 d c kt)
                (fun r => if fst r then collapse d (set_nth k0 (snd r) cs) (snd r) else Ok (false, Full cs fl))
                F (b, m)) as ([bc mc] & Hsub & Hcont).
    { intros f0 _. rewrite delete_full_eq, Hn. reflexivity. }
    { intros f0 Hle. apply Hres. lia. }
    { intros; eapply mono_le_delete; eauto. }
    destruct (IH false c' c kt bc mc Hc (okn_full_child _ _ _ _ Ho Hn)) as (mc' & Hi & Hvc & Hsame & Hnr).
    { exists F. exact Hsub. }
    { cbn [length ref_cost] in *. destruct c'; cbn [ref_cost]; lia. }
    rewrite Hi. cbn [rbind fst snd] in *. destruct bc.
    + destruct (view_collapse r (set_nth k0 mc' cs') (set_nth k0 mc cs) mc' mc b m) as (m' & Hcl & Hvm & Hnm & Hbt); auto.
      { apply Forall2_set_nth_both; auto. }
      { intros Hem x Hin. apply is_empty_true in Hem. subst mc.
        apply In_set_nth in Hin as [->|Hin]; [constructor|].
        inversion Ho as [| | |? ? _ _ Hch]; subst. auto. }
      exists m'. split; [exact Hcl|]. split; auto. split; [intros X; congruence|auto].
    + inversion Hcont; subst. eexists. split; [reflexivity|]. split; [constructor; auto|]. split; [reflexivity|discriminate].
  - (* hash node *)
    rewrite delete_ref_eq.
    destruct (resolve_view r c Ho (VwR r c Hn Hg Hb Hs)) as (rn & Hr & Hvr & Hrc). rewrite Hr. cbn [rbind].
    destruct (IH r rn c k b m Hvr Ho) as (m' & Hi & Hvm & Hsame & Hnr).
    { exists F. exact Hres. }
    { rewrite Hrc. cbn [ref_cost] in Hf. lia. }
    rewrite Hi. cbn [rbind fst snd]. destruct b.
    + exists m'. split; [reflexivity|]. split; auto.
    + exists rn. split; [reflexivity|]. rewrite (Hsame eq_refl). split; auto. split; auto. discriminate.
Qed.

(* ---------------------------------------------------------------- hashing a view *)

Lemma hspec_leafs root : hspec H Empty root = HNil /\ (forall v, hspec H (Value v) root = HVal v).
Proof. split; reflexivity. Qed.

Lemma view_hash : forall n' root n, view root n' n ->
  fst (hash_node H n' root) = hspec H n root /\ view root (snd (hash_node H n' root)) n.
Proof.
  induction n' as [|v|k c' f' IHc|cs' f' IHcs|h] using node_ind'; intros root n Hv.
  - apply view_empty_l in Hv. subst. split; [reflexivity|constructor].
  - apply view_value_l in Hv. subst. split; [reflexivity|constructor].
  - destruct (view_short_l _ _ _ _ _ Hv) as (c & f & -> & Hc).
    assert (Hh : hash_ok root (Short k c f) f') by (inversion Hv; subst; auto).
    cbn [hash_node]. destruct (fhash f') as [h|] eqn:Ef.
    + cbn [fst snd]. split; [symmetry; apply Hh; auto|exact Hv].
    + destruct (IHc false c Hc) as [E1 E2]. cbn [fst snd]. rewrite E1.
      split; [rewrite hspec_short; reflexivity|].
      constructor; auto. intros h Eh. apply flag_after_none in Eh. rewrite hspec_short. exact Eh.
  - destruct (view_full_l _ _ _ _ Hv) as (cs & f & -> & Hcs).
    assert (Hh : hash_ok root (Full cs f) f') by (inversion Hv; subst; auto).
    cbn [hash_node]. destruct (fhash f') as [h|] eqn:Ef.
    + cbn [fst snd]. split; [symmetry; apply Hh; auto|exact Hv].
    + assert (Hall : map fst (map (fun c => hash_node H c false) cs') = map (fun c => hspec H c false) cs /\
                     Forall2 (view false) (map snd (map (fun c => hash_node H c false) cs')) cs).
      { clear Hv Hh Ef. induction Hcs as [|a b l l' Hab Hl IHl]; [split; [reflexivity|constructor]|].
        inversion IHcs as [|? ? Pa Pl]; subst. destruct (Pa false b Hab) as [E1 E2]. destruct (IHl Pl) as [F1 F2].
        cbn [map]. rewrite E1, F1. split; [reflexivity|constructor; auto]. }
      destruct Hall as [F1 F2]. cbn [fst snd]. rewrite F1.
      split; [rewrite hspec_full; reflexivity|].
      constructor; auto. intros h Eh. apply flag_after_none in Eh. rewrite hspec_full. exact Eh.
  - assert (Hs : hspec H n root = HHash h) by (inversion Hv; subst; auto).
    cbn [hash_node fst snd]. split; [symmetry; exact Hs|exact Hv].
Qed.

Lemma view_trie_hash n' n : view true n' n ->
  fst (trie_hash H n') = fst (trie_hash H (erase n)) /\ view true (snd (trie_hash H n')) n.
Proof.
  intros Hv. destruct (is_empty n') eqn:E.
  - apply is_empty_true in E. subst. apply view_empty_l in Hv. subst. split; [reflexivity|constructor].
  - assert (En : is_empty n = false) by (rewrite <- (view_is_empty _ _ _ Hv); exact E).
    apply is_empty_false in E, En.
    assert (Ee : erase n <> Empty) by (intros X; apply erase_empty in X; auto).
    rewrite (trie_hash_eq H n' E), (trie_hash_eq H (erase n) Ee). cbn [fst snd].
    destruct (view_hash n' true n Hv) as [E1 E2]. rewrite E1. split; auto.
Qed.

(* ---------------------------------------------------------------- histories on a view *)

(** the run-time trie [n'] is a view of the canonical trie of the map [m] *)
Definition vstate (m : bytes -> bytes) (n' : node) : Prop :=
  exists n, represents m n /\ bounded m /\ view true n' n.

Definition small_op (o : hop) : Prop :=
  match o with
  | HUpdate k v => (nlen k < 1073741824)%N /\ (nlen v < 1073741824)%N
  | _ => True
  end.

Lemma bounded_mupd m o : bounded m -> small_op o -> Forall (fun x => bounded (mupd m x)) (hop_mop o).
Proof.
  intros Hb Hs. destruct o as [k v|k|]; cbn [hop_mop]; [constructor; [|constructor]|constructor; [|constructor]|constructor].
  - unfold bounded. intros x. cbn [mupd]. destruct (beq x k) eqn:E; [|apply Hb].
    apply beq_eq in E. subst. intros _. exact Hs.
  - unfold bounded. intros x. cbn [mupd]. destruct (beq x k); [congruence|apply Hb].
Qed.

Lemma vstate_okn m n : represents m n -> bounded m -> okn n.
Proof. intros Hr Hb. apply canon_okn; [apply Hr|]. eapply represents_sized; eauto. Qed.

Lemma fuel_view k n' : 2 * length k + ref_cost n' < fuel_of k.
Proof. unfold fuel_of. destruct n'; cbn [ref_cost]; lia. Qed.

Lemma vstep_delete m n' kb : vstate m n' -> is_bytes kb ->
  exists n1', trie_delete d n' kb = Ok n1' /\ vstate (mupd m (MDelete kb)) n1'.
Proof.
  intros (n & Hrep & Hb & Hv) Hkb.
  destruct (represents_delete d m n kb Hrep Hkb) as (n1 & Hd & Hr1).
  unfold trie_delete in *. apply rbind_ok in Hd as ([b x] & Hd & E). cbn in E. inversion E; subst x.
  destruct (view_delete (fuel_of (keybytes_to_hex kb)) true n' n (keybytes_to_hex kb) b n1 Hv
              (vstate_okn m n Hrep Hb)) as (m' & Hd' & Hvm & _).
  { exists (fuel_of (keybytes_to_hex kb)). intros f0 Hle. eapply mono_le_delete; eauto. }
  { apply fuel_view. }
  rewrite Hd'. cbn [rbind snd]. exists m'. split; auto. exists n1. split; auto. split; auto.
  intros k. cbn [mupd]. destruct (beq k kb); [congruence|apply Hb].
Qed.

Lemma vstep_update m n' kb v : vstate m n' -> is_bytes kb -> bounded (mupd m (MUpdate kb v)) ->
  exists n1', trie_update d n' kb v = Ok n1' /\ vstate (mupd m (MUpdate kb v)) n1'.
Proof.
  intros Hvs Hkb Hb1. destruct v as [|v0 vt].
  - destruct (vstep_delete m n' kb Hvs Hkb) as (n1' & Hd & (n1 & Hr1 & _ & Hv1)).
    exists n1'. split; [exact Hd|]. exists n1. split; auto.
  - destruct Hvs as (n & Hrep & Hb & Hv).
    destruct (represents_update d m n kb (v0 :: vt) Hrep Hkb) as (n1 & Hd & Hr1).
    unfold trie_update in *. apply rbind_ok in Hd as ([b x] & Hd & E). cbn in E. inversion E; subst x.
    destruct (view_insert (v0 :: vt) (fuel_of (keybytes_to_hex kb)) true n' n (keybytes_to_hex kb) b n1 Hv
                (vstate_okn m n Hrep Hb)) as (m' & Hd' & Hvm & _).
    { exists (fuel_of (keybytes_to_hex kb)). intros f0 Hle. eapply mono_le_insert; eauto. }
    { apply fuel_view. }
    rewrite Hd'. cbn [rbind snd]. exists m'. split; auto. exists n1. auto.
Qed.

Lemma vrun ops : forall m n', vstate m n' ->
  Forall (fun o => is_bytes (hop_key o) /\ small_op o) ops ->
  exists n2', hrun H d n' ops = Ok n2' /\ vstate (content m (flat_map hop_mop ops)) n2'.
Proof.
  induction ops as [|o t IH]; intros m n' Hvs Hk; cbn [hrun flat_map]; eauto.
  inversion Hk as [|? ? [Ho Hs] Ht]; subst.
  assert (Hbm : bounded m) by (destruct Hvs as (n & _ & Hb & _); exact Hb).
  pose proof (bounded_mupd m o Hbm Hs) as Hbo.
  destruct o as [k v|k|]; cbn [apply_hop hop_mop app content] in *; cbn in Ho.
  - inversion Hbo; subst. destruct (vstep_update m n' k v Hvs Ho) as (n1' & Hu & Hv1); auto.
    rewrite Hu. cbn [rbind]. apply IH; auto.
  - destruct (vstep_delete m n' k Hvs Ho) as (n1' & Hu & Hv1). rewrite Hu. cbn [rbind]. apply IH; auto.
  - cbn [rbind]. apply IH; auto. destruct Hvs as (n & Hrep & Hb & Hv).
    exists n. split; auto. split; auto. apply view_trie_hash; auto.
Qed.

Lemma vstate_get m n' kb : vstate m n' -> is_bytes kb -> exists r', trie_get d n' kb = Ok (m kb, r').
Proof.
  intros (n & Hrep & Hb & Hv) Hkb. pose proof (keybytes_to_hex_wfk _ Hkb) as Hw.
  destruct (get_rel H Hlen d (fuel_of (keybytes_to_hex kb)) n' n (keybytes_to_hex kb)) as (v & r' & Hg & Hok & _); auto.
  - eapply view_rel; eauto.
  - apply Hrep.
  - eapply represents_sized; eauto.
  - apply fuel_view.
  - exists r'. unfold trie_get. rewrite Hg. rewrite (get_ok_represents m n kb v Hrep Hkb Hok). reflexivity.
Qed.

Lemma vstate_root m n' mf nf : vstate m n' -> represents mf nf ->
  (forall kb, is_bytes kb -> m kb = mf kb) ->
  fst (trie_hash H n') = fst (trie_hash H (erase nf)).
Proof.
  intros (n & Hrep & _ & Hv) Hrf Hm. destruct (view_trie_hash n' n Hv) as [E _]. rewrite E.
  rewrite (represents_unique m mf n nf Hrep Hrf Hm). reflexivity.
Qed.

End View.

(* ---------------------------------------------------------------- after a commit *)

Section AfterCommit.
Variable H : bytes -> bytes.
Hypothesis Hlen : forall x, length (H x) = 32.

(** Trie.Commit(false) + Database.Update leave a trie (root = hash node) that is a view of the
    canonical trie of the same map over the enlarged database — or a collision is exhibited *)
Theorem commit_view d m n : represents m n -> caches_ok H true n -> bounded m -> n <> Empty ->
  let '(h, root', set) := trie_commit H n in
  collision H \/ (h = fst (trie_hash H n) /\ root' = Ref h /\ vstate H (set ++ d) m root').
Proof.
  intros Hrep Hok Hb Hne.
  destruct (hash_node_ok4 H n true Hok) as (A & B & C & D).
  set (n2 := snd (hash_node H n true)) in *.
  assert (Hc2 : canon n2) by (apply (canon_same_erase n n2); [symmetry; exact B|apply Hrep]).
  assert (Hne2 : n2 <> Empty).
  { intros X. rewrite X in B. cbn in B. symmetry in B. apply erase_empty in B. congruence. }
  assert (Hrep2 : represents m n2).
  { split; auto. intros k w. rewrite (has_same_erase H n2 n B). apply Hrep. }
  pose proof (canon_is_node n2 Hc2 Hne2) as Hn2.
  assert (Ecenc : cenc H n = cenc H n2) by (apply cenc_erase; symmetry; exact B).
  assert (Hnn : is_node n) by (apply canon_is_node; [apply Hrep|auto]).
  assert (Ah : fst (hash_node H n true) = HHash (H (cenc H n2))).
  { rewrite A, (hspec_cenc H n true Hnn), finish_forced, Ecenc. reflexivity. }
  assert (Ah2 : hspec H n2 true = HHash (H (cenc H n2))).
  { rewrite (hspec_cenc H n2 true Hn2), finish_forced. reflexivity. }
  destruct (commit_ok H n2 Hc2 true C D) as (K1 & K2 & K3).
  assert (Ecommit : trie_commit H n = (H (cenc H n2), Ref (H (cenc H n2)), snd (commit_node n2))).
  { unfold trie_commit. rewrite (trie_hash_eq H n Hne). cbn [fst snd]. fold n2. rewrite Ah.
    pose proof (top_dirty H true n2 Hn2 C) as Hd.
    destruct n as [| | | |]; cbn [is_node] in Hnn; try tauto;
      (destruct n2 as [| |k2 c2 fl2|cs2 fl2|]; cbn [is_node] in Hn2; try tauto;
       rewrite Hd; rewrite K1, Ah2; reflexivity). }
  rewrite Ecommit. clear Ecommit. clearbody n2.
  set (h := H (cenc H n2)). set (S := snd (commit_node n2)).
  destruct (covered_in_db H S d true n2 K3 K2) as [Hcov|Col]; [|left; exact Col].
  assert (Hget : db_get (S ++ d) h = Some (cenc H n2)).
  { destruct n2 as [| |k2 c2 fl2|cs2 fl2|]; cbn [is_node] in Hn2; try tauto;
      inversion Hcov as [| |? ? ? ? Ho _|? ? ? Ho _]; subst; apply Ho; exact Ah2. }
  pose proof (covered_below H (S ++ d) true n2 Hcov) as Hbelow.
  right. split; [rewrite (trie_hash_eq H n Hne); cbn [fst]; rewrite Ah; reflexivity|].
  split; [reflexivity|]. exists n2. split; auto. split; auto. apply VwR; auto.
Qed.

End AfterCommit.
