(** C04 — about the statements of C04/Open.v:
    - [polka_of] exists: a computable function that returns the +2/3 value of a vote set (so the hypothesis
      [polka_of_spec] of Open.v / LockModel.v is satisfiable for every validator set);
    - the full statement AS WRITTEN in Open.v ([C04_liveness_full_statement]) is false: its [prefix_conf]
      lets two correct validators be locked on different blocks and its rounds deliver only the prevotes of
      the current round, so nothing ever releases those locks (in the code the polka of the later lock's
      round does, once its prevotes are delivered: addVote, "Unlocking because of POL"); computed witness;
    - an instance of the liveness theorem of C04/ProofsLock.v (its hypotheses are satisfiable). *)
From Coq Require Import List ZArith Arith Bool Lia.
From Kardia Require Import C01.Power C04.ProofsRound C04.Open C04.LockModel C04.ProofsLock.
Import ListNotations.
Local Open Scope Z_scope.

Section PolkaOf.
Variable powers : list Z.
Hypothesis powers_nonneg : Forall (fun p => 0 <= p) powers.
Variable B : Type.
Variable B_eq_dec : forall x y : B, {x = y} + {x <> y}.

Notation maj23 := (maj23 powers B B_eq_dec).

Definition is_maj23 (vs : voteset B) (y : option B) : bool :=
  2 * Power.total powers <? 3 * Power.pw powers (voted_for B B_eq_dec vs y).

(** the value voted by the first validator (below k) whose value has +2/3 *)
Fixpoint find_polka (k : nat) (vs : voteset B) : option (option B) :=
  match k with
  | O => None
  | S k' =>
    match find_polka k' vs with
    | Some y => Some y
    | None => match vs k' with
              | Some y => if is_maj23 vs y then Some y else None
              | None => None
              end
    end
  end.

Definition polka_fn (vs : voteset B) : option (option B) := find_polka (Power.n powers) vs.

Lemma is_maj23_iff vs y : is_maj23 vs y = true <-> maj23 vs y.
Proof. unfold is_maj23, ProofsRound.maj23. apply Z.ltb_lt. Qed.

Lemma find_polka_sound k vs y : find_polka k vs = Some y -> maj23 vs y.
Proof.
  induction k as [|k IH]; cbn [find_polka]; [discriminate|].
  destruct (find_polka k vs) as [z|]; [intros E; inversion E; subst; apply IH; reflexivity|].
  destruct (vs k) as [z|]; [|discriminate].
  destruct (is_maj23 vs z) eqn:Em; [|discriminate]. intros E; inversion E; subst. apply is_maj23_iff. exact Em.
Qed.

Lemma find_polka_some k vs i y :
  (i < k)%nat -> vs i = Some y -> maj23 vs y -> exists z, find_polka k vs = Some z.
Proof.
  induction k as [|k IH]; intros Hi Hv Hm; [lia|]. cbn [find_polka].
  destruct (find_polka k vs) as [z|] eqn:Ef; [exists z; reflexivity|].
  destruct (Nat.eq_dec i k) as [->|Hne].
  - rewrite Hv. apply is_maj23_iff in Hm. rewrite Hm. exists y. reflexivity.
  - destruct (IH ltac:(lia) Hv Hm) as [z Hz]. discriminate.
Qed.

Theorem polka_fn_spec vs y : polka_fn vs = Some y <-> maj23 vs y.
Proof.
  split; [apply find_polka_sound|]. intros Hm.
  assert (Hpos : 0 < Power.pw powers (voted_for B B_eq_dec vs y)).
  { unfold ProofsRound.maj23 in Hm. assert (0 <= Power.total powers) by (unfold Power.total; apply pw_nonneg; assumption). lia. }
  apply (pw_pos_witness powers) in Hpos. destruct Hpos as [i [Hi Hv]].
  unfold voted_for in Hv. destruct (vs i) as [z|] eqn:Ez; [|discriminate].
  apply val_eqb_eq in Hv. subst z.
  destruct (find_polka_some (Power.n powers) vs i y Hi Ez Hm) as [z Hz].
  unfold polka_fn. rewrite Hz. f_equal.
  apply (maj23_unique powers powers_nonneg B B_eq_dec vs z y); [apply find_polka_sound with (k := Power.n powers); exact Hz|exact Hm].
Qed.

End PolkaOf.

(* ------------------------------------------------------------------ *)
(** * the statement of Open.v as written is false *)

Definition w_powers : list Z := [1; 1; 1; 1].
Definition w_correct (i : nat) : bool := Nat.ltb i 3.
Definition w_valid (_ : nat) : bool := true.
Definition w_proposer (_ : nat) : nat := 2%nat.
Definition w_polka := polka_fn w_powers nat Nat.eq_dec.

(** validator 0 locked on block 1, validator 1 locked on block 2 (both in round 0), validator 2 unlocked *)
Definition w_conf : conf nat := fun i =>
  match i with
  | O => {| locked := Some (1%nat, O); validb := Some (1%nat, O) |}
  | S O => {| locked := Some (2%nat, O); validb := Some (2%nat, O) |}
  | _ => {| locked := None; validb := None |}
  end.
Definition w_none : nat -> option nat := fun _ => None.

Lemma w_nonneg : Forall (fun p => 0 <= p) w_powers.
Proof. repeat constructor; lia. Qed.

(** every synchronous round from [w_conf] ends in [w_conf] without a decision: the correct proposer (it has
    no valid block) proposes block 3; the prevotes are 1, 2, 3: no polka; everybody precommits nil *)
Lemma w_round r :
  sync_round w_powers nat Nat.eq_dec w_correct w_valid w_proposer w_polka r w_conf w_conf w_none.
Proof.
  set (shown := fun _ : nat => Some 3%nat).
  set (PV := fun i : nat => if Nat.ltb i 3 then Some (do_prevote nat w_valid (lock_block nat (w_conf i)) (shown i)) else None).
  set (PC := fun i : nat => if Nat.ltb i 3 then Some (@None nat) else None).
  assert (Ep : w_polka PV = None) by (vm_compute; reflexivity).
  exists shown, (fun _ => PV), (fun _ => PC).
  refine (conj _ (conj _ (conj _ (conj _ _)))).
  - intros _. exists 3%nat. split; [reflexivity|]. intros i _. reflexivity.
  - intros j _ i _ Hc. unfold PV. unfold w_correct in Hc. rewrite Hc. reflexivity.
  - intros j _ i _ Hc. unfold PC. unfold w_correct in Hc. rewrite Hc. rewrite Ep. reflexivity.
  - intros i _. rewrite Ep. repeat split; try discriminate; intros; discriminate.
  - intros i b _. split; [discriminate|]. intros [Hm _]. exfalso.
    unfold maj23 in Hm. vm_compute in Hm. discriminate.
Qed.

Lemma w_rounds : forall k r, sync_rounds w_powers nat Nat.eq_dec w_correct w_valid w_proposer w_polka r (S k) w_conf w_none.
Proof.
  induction k as [|k IH]; intros r.
  - eapply sr_one. apply w_round.
  - eapply sr_more; [apply w_round|intros; reflexivity|apply IH].
Qed.

Lemma w_prefix : prefix_conf nat w_correct w_valid 1 w_conf.
Proof.
  intros i _. split.
  - intros b lr Hl. destruct i as [|[|i]]; cbn in Hl; try discriminate; inversion Hl; subst.
    + split; [reflexivity|]. split; [lia|]. exists 0%nat. split; [reflexivity|lia].
    + split; [reflexivity|]. split; [lia|]. exists 0%nat. split; [reflexivity|lia].
  - intros b vr Hv. destruct i as [|[|i]]; cbn in Hv; try discriminate; inversion Hv; subst; (split; [reflexivity|lia]).
Qed.

Theorem liveness_full_statement_refuted : ~ C04_liveness_full_statement.
Proof.
  intros H.
  specialize (H w_powers w_nonneg nat Nat.eq_dec w_correct ltac:(vm_compute; reflexivity) w_valid w_proposer 1%nat).
  assert (Hrot : forall r, exists r', (r <= r' < r + 1)%nat /\ w_correct (w_proposer r') = true).
  { intros r. exists r. split; [lia|reflexivity]. }
  specialize (H Hrot w_polka (polka_fn_spec w_powers w_nonneg nat Nat.eq_dec)).
  destruct (H 1%nat w_conf w_prefix 4%nat w_none (w_rounds 3 1%nat) ltac:(cbn; lia)) as [i [b [_ Hd]]].
  discriminate.
Qed.

(* ------------------------------------------------------------------ *)
(** * an instance of ProofsLock.suffix_decides: the same four validators, nobody locked, the three correct
    validators propose in turn; every round decides block 7 *)

Definition e_proposer (r : nat) : nat := Nat.modulo r 3.
Definition e_state (r : nat) : vstate nat := {| locked := Some (7%nat, r); validb := Some (7%nat, r) |}.
Definition e_cfs (k : nat) : conf nat := fun _ =>
  match k with O => {| locked := None; validb := None |} | S k' => e_state k' end.
Definition e_ds (_ : nat) (i : nat) : option nat := if Nat.ltb i 3 then Some 7%nat else None.

Lemma e_round k :
  shared_round w_powers nat Nat.eq_dec w_correct w_valid e_proposer w_polka (0 + k) (e_cfs k) (e_cfs (S k)) (e_ds k).
Proof.
  set (PV := fun i : nat => if Nat.ltb i 3 then Some (Some 7%nat) else None).
  assert (Hm : maj23 w_powers nat Nat.eq_dec PV (Some 7%nat)) by (vm_compute; reflexivity).
  assert (Ep : w_polka PV = Some (Some 7%nat)) by (apply (polka_fn_spec w_powers w_nonneg nat Nat.eq_dec); exact Hm).
  exists (fun _ => Some 7%nat), PV, PV, (fun _ => Some 7%nat).
  refine (conj _ (conj _ (conj _ (conj _ (conj _ _))))).
  - intros _. exists 7%nat. split; [|intros; reflexivity].
    unfold proposes. destruct k; cbn; reflexivity.
  - intros i _ Hc. unfold PV. unfold w_correct in Hc. rewrite Hc. destruct k; reflexivity.
  - intros i _ Hc. unfold PV. unfold w_correct in Hc. rewrite Hc. reflexivity.
  - intros i _. right. exists 7%nat. split; [exact Ep|reflexivity].
  - intros i _. rewrite Ep. unfold lock_step. cbn [orb].
    replace (val_eqb nat Nat.eq_dec (Some 7%nat) (Some 7%nat)) with true by reflexivity.
    rewrite orb_true_r. cbn [e_cfs e_state locked validb]. split; reflexivity.
  - intros i b Hc. unfold e_ds. unfold w_correct in Hc. rewrite Hc. split.
    + intros E. inversion E; subst. split; [exact Hm|reflexivity].
    + intros [_ E]. inversion E. reflexivity.
Qed.

Example ex_suffix_decides :
  exists k x, (k < 2 * 3)%nat /\ forall i, w_correct i = true -> e_ds k i = Some x.
Proof.
  apply (suffix_decides w_powers w_nonneg nat Nat.eq_dec w_correct ltac:(vm_compute; reflexivity)
           ltac:(intros i Hi; unfold w_correct in Hi; apply Nat.ltb_lt in Hi; cbn; lia) w_valid e_proposer w_polka
           (polka_fn_spec w_powers w_nonneg nat Nat.eq_dec) 0%nat e_cfs e_ds e_round).
  - split.
    + intros i _. split; intros x Hx; discriminate.
    + intros i j x y _ _ Hx. discriminate.
  - intros i Hi r. unfold w_correct in Hi. apply Nat.ltb_lt in Hi.
    (* among r, r+1, r+2 one is congruent to i modulo 3 *)
    exists (r + Nat.modulo (i + 3 - Nat.modulo r 3) 3)%nat. unfold e_proposer.
    pose proof (Nat.mod_upper_bound (i + 3 - Nat.modulo r 3) 3 ltac:(lia)).
    split; [lia|].
    pose proof (Nat.mod_upper_bound r 3 ltac:(lia)) as Hr.
    pose proof (Nat.div_mod r 3 ltac:(lia)) as Er.
    set (m := Nat.modulo r 3) in *. set (q := Nat.div r 3) in *.
    destruct (Nat.le_gt_cases m i) as [Hle|Hgt].
    + assert (Em : Nat.modulo (i + 3 - m) 3 = (i - m)%nat).
      { replace (i + 3 - m)%nat with ((i - m) + 1 * 3)%nat by lia. rewrite Nat.mod_add by lia. apply Nat.mod_small. lia. }
      rewrite Em. replace (r + (i - m))%nat with (i + q * 3)%nat by lia. rewrite Nat.mod_add by lia. apply Nat.mod_small. lia.
    + assert (Em : Nat.modulo (i + 3 - m) 3 = (i + 3 - m)%nat) by (apply Nat.mod_small; lia).
      rewrite Em. replace (r + (i + 3 - m))%nat with (i + (q + 1) * 3)%nat by lia. rewrite Nat.mod_add by lia. apply Nat.mod_small. lia.
Qed.
