(** C04 — what WeightedMedian computes (C04/MedianModel.v [median_time], the code's `median <= weight` loop):
    the time of the earliest entry such that the entries with a time up to it weigh at least
    floor(total / 2).  This is the specification the harness checks directly (oracle median-spec). *)
From Coq Require Import List ZArith Bool Lia Sorted.
From Kardia Require Import C04.MedianModel C04.ProofsMedian.
Import ListNotations.
Local Open Scope Z_scope.

(** weight of the entries with a time <= t *)
Definition cum_le (l : list wtime) (t : Z) : Z :=
  total_weight (filter (fun x => wt_time x <=? t) l).

Lemma cum_le_cons x l t : cum_le (x :: l) t = (if wt_time x <=? t then wt_weight x else 0) + cum_le l t.
Proof. unfold cum_le. cbn [filter]. destruct (wt_time x <=? t); cbn [total_weight fold_right]; unfold total_weight; lia. Qed.

Lemma cum_le_insert x l t : cum_le (insert_wt x l) t = (if wt_time x <=? t then wt_weight x else 0) + cum_le l t.
Proof.
  induction l as [|z r IH]; cbn [insert_wt]; [apply cum_le_cons|].
  destruct (wt_time x <=? wt_time z); [apply cum_le_cons|]. rewrite !cum_le_cons, IH. lia.
Qed.

Lemma cum_le_sort l t : cum_le (sort_wt l) t = cum_le l t.
Proof. induction l as [|x r IH]; cbn [sort_wt]; [reflexivity|]. rewrite cum_le_insert, cum_le_cons, IH. reflexivity. Qed.

Lemma cum_le_app a b t : cum_le (a ++ b) t = cum_le a t + cum_le b t.
Proof. induction a as [|x a IH]; cbn [app]; [unfold cum_le; cbn; lia|]. rewrite !cum_le_cons, IH. lia. Qed.

Lemma cum_le_bounds l t : Forall (fun x => 0 <= wt_weight x) l -> 0 <= cum_le l t <= total_weight l.
Proof.
  induction 1 as [|x l Hx _ IH]; [unfold cum_le; cbn; lia|].
  rewrite cum_le_cons. change (total_weight (x :: l)) with (wt_weight x + total_weight l).
  destruct (wt_time x <=? t); lia.
Qed.

(** all entries with a time <= t: the whole list counts *)
Lemma cum_le_all l t : Forall (fun x => wt_time x <= t) l -> cum_le l t = total_weight l.
Proof.
  induction 1 as [|x l Hx _ IH]; [reflexivity|].
  rewrite cum_le_cons. change (total_weight (x :: l)) with (wt_weight x + total_weight l).
  destruct (Z.leb_spec (wt_time x) t); lia.
Qed.

(** no entry with a time <= t: nothing counts *)
Lemma cum_le_none l t : Forall (fun x => t < wt_time x) l -> cum_le l t = 0.
Proof.
  induction 1 as [|x l Hx _ IH]; [reflexivity|].
  rewrite cum_le_cons. destruct (Z.leb_spec (wt_time x) t); lia.
Qed.

(** where the loop stops: the entries before weigh less than the start value (when there are any), with
    the entry itself at least the start value *)
Lemma wm_loop_stop : forall l m t,
  Forall (fun x => 0 <= wt_weight x) l ->
  wm_loop m l = Some t ->
  exists p e q, l = p ++ e :: q /\ wt_time e = t /\ m <= total_weight p + wt_weight e /\ (p <> [] -> total_weight p < m).
Proof.
  induction l as [|x r IH]; intros m t Hw H; cbn [wm_loop] in H; [discriminate|].
  inversion Hw as [|? ? Hx Hr]; subst.
  destruct (Z.leb_spec m (wt_weight x)) as [Hle|Hgt].
  - inversion H; subst. exists [], x, r. cbn. repeat split; try lia. intros E; contradiction.
  - destruct (IH (m - wt_weight x) t Hr H) as [p [e [q [El [Et [Hm Hp]]]]]].
    exists (x :: p), e, q. subst r. change (total_weight (x :: p)) with (wt_weight x + total_weight p).
    repeat split; try reflexivity; try assumption; try lia.
    intros _. destruct p as [|y p']; [cbn; lia|]. specialize (Hp ltac:(discriminate)). lia.
Qed.

Lemma sorted_suffix_ge : forall p e q, StronglySorted le_time (p ++ e :: q) -> Forall (fun x => le_time e x) q.
Proof.
  induction p as [|a p IH]; intros e q H; cbn [app] in H.
  - inversion H as [|? ? _ Hall]; subst. exact Hall.
  - inversion H as [|? ? Hs _]; subst. apply (IH e q Hs).
Qed.

(** THE WEIGHTED MEDIAN AS CODED: the result is the time of an entry; the entries with a time up to it weigh
    at least floor(total/2); for every entry with an earlier time, the entries up to that time weigh less *)
Theorem median_time_spec present t :
  Forall (fun x => 0 <= wt_weight x) present ->
  median_time present = Some t ->
  (exists e, In e present /\ wt_time e = t) /\
  total_weight present / 2 <= cum_le present t /\
  (forall y, In y present -> wt_time y < t -> cum_le present (wt_time y) < total_weight present / 2).
Proof.
  intros Hw H. unfold median_time in H. set (m := total_weight present / 2) in *.
  assert (Hws : Forall (fun x => 0 <= wt_weight x) (sort_wt present)).
  { rewrite Forall_forall in *. intros x Hx. apply Hw. apply sort_wt_In. exact Hx. }
  destruct (wm_loop_stop _ _ _ Hws H) as [p [e [q [El [Et [Hm Hp]]]]]].
  pose proof (sort_wt_sorted present) as Hs. rewrite El in Hs.
  assert (Hpe : Forall (fun x => wt_time x <= t) p).
  { pose proof (sorted_prefix_le p e q Hs) as Hf. eapply Forall_impl; [|exact Hf]. unfold le_time. intros a Ha. lia. }
  assert (Hq : Forall (fun x => t <= wt_time x) q).
  { pose proof (sorted_suffix_ge p e q Hs) as Hf. eapply Forall_impl; [|exact Hf]. unfold le_time. intros a Ha. lia. }
  assert (Hwp : Forall (fun x => 0 <= wt_weight x) p /\ 0 <= wt_weight e /\ Forall (fun x => 0 <= wt_weight x) q).
  { rewrite El in Hws. apply Forall_app in Hws. destruct Hws as [A Bq]. inversion Bq; subst. auto. }
  destruct Hwp as [Hwp [Hwe Hwq]].
  split; [|split].
  - exists e. split; [|exact Et]. apply sort_wt_In. rewrite El. apply in_or_app. right. left. reflexivity.
  - rewrite <- (cum_le_sort present t), El, cum_le_app, cum_le_cons.
    rewrite (cum_le_all p t Hpe). destruct (Z.leb_spec (wt_time e) t) as [_|Hn]; [|lia].
    pose proof (cum_le_bounds q t Hwq). lia.
  - intros y Hy Hlt. rewrite <- (cum_le_sort present (wt_time y)), El, cum_le_app, cum_le_cons.
    assert (Hnq : cum_le q (wt_time y) = 0).
    { apply cum_le_none. eapply Forall_impl; [|exact Hq]. intros a Ha. cbn beta in Ha. lia. }
    destruct (Z.leb_spec (wt_time e) (wt_time y)) as [Hle|_]; [lia|]. rewrite Hnq.
    (* y is among the entries before e *)
    assert (Hyp : In y p).
    { apply sort_wt_In in Hy. rewrite El in Hy. apply in_app_or in Hy. destruct Hy as [Hy|[Hy|Hy]]; [exact Hy|subst; lia|].
      rewrite Forall_forall in Hq. specialize (Hq y Hy). lia. }
    assert (Hne : p <> []) by (intros E; subst p; destruct Hyp).
    pose proof (cum_le_bounds p (wt_time y) Hwp). specialize (Hp Hne). lia.
Qed.
