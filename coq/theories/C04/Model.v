(** C04 — the timeout ticker (consensus/ticker.go, timeoutRoutine) as a state machine.

    The Go routine keeps [ti], the last timeoutInfo it accepted, and one timer.  A request
    [newti] read from tickChan is IGNORED when it is for an earlier height, or for the same height
    and an earlier round, or for the same height and round and ([ti.Step > 0] and) a step that is
    not later; otherwise the running timer is stopped, [ti := newti] and the timer is armed with
    [newti.Duration].  When the timer fires, [ti] is sent on tockChan; [ti] itself is not changed.
    Durations are abstracted: [Fire] may happen whenever a timeout is pending (the harness decides
    when, the model says which one).  No proofs in this file. *)
From Coq Require Import NArith Bool List.
Import ListNotations.
Local Open Scope N_scope.

Record tinfo := { ti_h : N; ti_r : N; ti_s : N }.

(** EmptyTimeoutInfo(): height 0, round 1, step 1 *)
Definition empty_ti : tinfo := {| ti_h := 0; ti_r := 1; ti_s := 1 |}.

(** the filter of timeoutRoutine, branch by branch *)
Definition accepts (ti newti : tinfo) : bool :=
  if ti_h newti <? ti_h ti then false
  else if ti_h newti =? ti_h ti then
    if ti_r newti <? ti_r ti then false
    else if ti_r newti =? ti_r ti then
      if (0 <? ti_s ti) && (ti_s newti <=? ti_s ti) then false else true
    else true
  else true.

Record ticker := { last : tinfo; pending : option tinfo }.

Definition init : ticker := {| last := empty_ti; pending := None |}.

Inductive op := Schedule (t : tinfo) | Fire.
Inductive obs := Acc | Ign | Fired (t : tinfo) | NoFire.

Definition step (k : ticker) (o : op) : ticker * obs :=
  match o with
  | Schedule t =>
    if accepts (last k) t then ({| last := t; pending := Some t |}, Acc) else (k, Ign)
  | Fire =>
    match pending k with
    | Some t => ({| last := last k; pending := None |}, Fired t)
    | None => (k, NoFire)
    end
  end.

Fixpoint run (k : ticker) (ops : list op) : ticker * list obs :=
  match ops with
  | [] => (k, [])
  | o :: rest =>
    let '(k1, ob) := step k o in
    let '(k2, obs) := run k1 rest in (k2, ob :: obs)
  end.

(** the requests of an op list, in order *)
Fixpoint scheduled (ops : list op) : list tinfo :=
  match ops with
  | [] => []
  | Schedule t :: rest => t :: scheduled rest
  | Fire :: rest => scheduled rest
  end.
