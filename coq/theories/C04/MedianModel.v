(** C04 — block time: types/time/time.go WeightedMedian and kai/state/cstate/state.go MedianTime,
    transcribed.  Times are integers (UnixNano), weights are voting powers.  No proofs here. *)
From Coq Require Import List ZArith Bool.
Import ListNotations.
Local Open Scope Z_scope.

(** one present commit signature: timestamp, voting power of its validator, and (ghost, for the
    statements only) whether the validator is faulty *)
Record wtime := { wt_time : Z; wt_weight : Z; wt_faulty : bool }.

Fixpoint insert_wt (x : wtime) (l : list wtime) : list wtime :=
  match l with
  | [] => [x]
  | y :: r => if wt_time x <=? wt_time y then x :: y :: r else y :: insert_wt x r
  end.
(** sort.Slice by Time.UnixNano (ascending); nil entries are the absent signatures, dropped before *)
Fixpoint sort_wt (l : list wtime) : list wtime :=
  match l with
  | [] => []
  | x :: r => insert_wt x (sort_wt r)
  end.

Definition total_weight (l : list wtime) : Z := fold_right (fun x acc => wt_weight x + acc) 0 l.

(** the loop of WeightedMedian as it is: [if median <= weight { res = time; break }; median -= weight] *)
Fixpoint wm_loop (median : Z) (l : list wtime) : option Z :=
  match l with
  | [] => None                       (* res stays the zero time *)
  | x :: r => if median <=? wt_weight x then Some (wt_time x) else wm_loop (median - wt_weight x) r
  end.

(** MedianTime(commit, validators): total = power of the present signatures; median = total / 2 *)
Definition median_time (present : list wtime) : option Z :=
  wm_loop (total_weight present / 2) (sort_wt present).

(** the variant with a strict comparison (the repair that was NOT applied, see Properties.v) *)
Fixpoint wm_loop_strict (median : Z) (l : list wtime) : option Z :=
  match l with
  | [] => None
  | x :: r => if median <? wt_weight x then Some (wt_time x) else wm_loop_strict (median - wt_weight x) r
  end.
Definition median_time_strict (present : list wtime) : option Z :=
  wm_loop_strict (total_weight present / 2) (sort_wt present).
