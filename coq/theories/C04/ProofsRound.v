(** C04 — a good round commits.  Abstract level (the decision rules of doPrevote, enterPrecommit and
    enterCommit/tryFinalizeCommit of consensus/state.go as functions, vote sets as "the counted
    vote of each validator", voting power from C01/Power.v): if the correct validators hold more
    than two thirds of the power, all of them have the same valid proposal block b before they
    prevote, none of them is locked on another block, and they receive each other's prevotes and
    precommits, then every one of them prevotes b, sees a polka for b and for nothing else,
    precommits b, and satisfies the commit condition for b and for nothing else — whatever the
    other validators send, in whatever order. *)
From Coq Require Import List ZArith Arith Bool Lia.
From Kardia Require Import C01.Power.
Import ListNotations.
Local Open Scope Z_scope.

Section GoodRound.
Variable powers : list Z.
Hypothesis powers_nonneg : Forall (fun p => 0 <= p) powers.
Variable B : Type.
Variable B_eq_dec : forall x y : B, {x = y} + {x <> y}.

Notation total := (Power.total powers).
Notation pw := (Power.pw powers).

Definition val_eqb (x y : option B) : bool :=
  match x, y with
  | None, None => true
  | Some a, Some b => if B_eq_dec a b then true else false
  | _, _ => false
  end.
Lemma val_eqb_eq x y : val_eqb x y = true <-> x = y.
Proof.
  destruct x as [a|], y as [b|]; simpl; try (split; discriminate); try tauto.
  destruct (B_eq_dec a b) as [->|Hne]; split; auto; try discriminate. intros H; inversion H; contradiction.
Qed.

(** a vote set of one (round, type) as a node holds it: the vote counted for each validator index
    (types.VoteSet counts one vote per validator), [None] = nothing received from it *)
Definition voteset := nat -> option (option B).
Definition voted_for (vs : voteset) (x : option B) (i : nat) : bool :=
  match vs i with Some y => val_eqb y x | None => false end.
Definition maj23 (vs : voteset) (x : option B) : Prop := 2 * total < 3 * pw (voted_for vs x).

Lemma maj23_unique vs x y : maj23 vs x -> maj23 vs y -> x = y.
Proof.
  unfold maj23. intros Hx Hy.
  assert (Ht : pw (voted_for vs x) <= total) by (apply pw_le_total; assumption).
  assert (H : total < pw (voted_for vs x) + pw (voted_for vs y)) by lia.
  apply (pw_meet powers powers_nonneg) in H. apply (pw_pos_witness powers) in H.
  destruct H as [i [_ Hi]]. apply andb_true_iff in Hi. destruct Hi as [H1 H2].
  unfold voted_for in H1, H2. destruct (vs i) as [z|]; [|discriminate].
  apply val_eqb_eq in H1. apply val_eqb_eq in H2. congruence.
Qed.

(** doPrevote: the locked block if any, else the proposal block if it is there and valid, else nil *)
Definition do_prevote (valid : B -> bool) (locked pblock : option B) : option B :=
  match locked with
  | Some l => Some l
  | None => match pblock with
            | Some p => if valid p then Some p else None
            | None => None
            end
  end.

(** enterPrecommit: nil without a polka or on a nil polka; the polka block when it is the locked
    block or the (valid) proposal block; nil (and unlock) on a polka for a block the node does not have *)
Definition do_precommit (polka : option (option B)) (locked pblock : option B) : option B :=
  match polka with
  | None => None
  | Some None => None
  | Some (Some b) =>
    if val_eqb locked (Some b) then Some b
    else if val_eqb pblock (Some b) then Some b else None
  end.

(** enterCommit / tryFinalizeCommit: the block is committed in this round when +2/3 precommitted it
    and the node has it *)
Definition commits (precommits : voteset) (pblock : option B) (b : B) : Prop :=
  maj23 precommits (Some b) /\ pblock = Some b.

Variable correct : nat -> bool.
Hypothesis correct_quorum : 2 * total < 3 * pw correct.

(** a vote set that contains the vote [v i] of every correct validator i (and anything from the others) *)
Definition has_correct_votes (vs : voteset) (v : nat -> option B) : Prop :=
  forall i, (i < Power.n powers)%nat -> correct i = true -> vs i = Some (v i).

Lemma correct_votes_maj23 vs v x :
  has_correct_votes vs v -> (forall i, correct i = true -> v i = x) -> maj23 vs x.
Proof.
  intros Hvs Hv. unfold maj23.
  assert (H : pw correct <= pw (voted_for vs x)).
  { apply pw_mono; [assumption|]. intros i Hi Hc. unfold voted_for. rewrite (Hvs i Hi Hc).
    apply val_eqb_eq. rewrite (Hv i Hc). reflexivity. }
  lia.
Qed.

Variable valid : B -> bool.
Variable b : B.
Hypothesis b_valid : valid b = true.
(** per correct node: its lock and its proposal block when it prevotes *)
Variable locked : nat -> option B.
Variable pblock : nat -> option B.
Hypothesis have_block : forall i, correct i = true -> pblock i = Some b.
Hypothesis lock_compatible : forall i, correct i = true -> locked i = None \/ locked i = Some b.

Lemma good_prevote i : correct i = true -> do_prevote valid (locked i) (pblock i) = Some b.
Proof.
  intros Hc. unfold do_prevote. destruct (lock_compatible i Hc) as [->| ->]; [|reflexivity].
  rewrite (have_block i Hc), b_valid. reflexivity.
Qed.

(** the prevote and precommit sets of each node (indexed by the node) *)
Variable prevotes precommits : nat -> voteset.
Hypothesis prevotes_delivered : forall j, correct j = true ->
  has_correct_votes (prevotes j) (fun i => do_prevote valid (locked i) (pblock i)).

(** every correct node sees a polka for b and for nothing else *)
Lemma good_polka j : correct j = true ->
  maj23 (prevotes j) (Some b) /\ forall y, maj23 (prevotes j) y -> y = Some b.
Proof.
  intros Hc. assert (H : maj23 (prevotes j) (Some b)).
  { eapply correct_votes_maj23; [apply prevotes_delivered; exact Hc|]. intros i Hi. apply good_prevote; exact Hi. }
  split; [exact H|]. intros y Hy. eapply maj23_unique; eauto.
Qed.

(** so its precommit is for b (the lock moves to b in this round) *)
Lemma good_precommit j : correct j = true ->
  do_precommit (Some (Some b)) (locked j) (pblock j) = Some b.
Proof.
  intros Hc. unfold do_precommit. rewrite (have_block j Hc).
  assert (E : val_eqb (Some b) (Some b) = true) by (apply val_eqb_eq; reflexivity).
  rewrite E. destruct (val_eqb (locked j) (Some b)); reflexivity.
Qed.

Hypothesis precommits_delivered : forall j, correct j = true ->
  has_correct_votes (precommits j) (fun i => do_precommit (Some (Some b)) (locked i) (pblock i)).

(** GOOD ROUND: every correct node prevotes b, precommits b and fulfils the commit condition for b
    and for no other value *)
Theorem good_round j : correct j = true ->
  do_prevote valid (locked j) (pblock j) = Some b /\
  (maj23 (prevotes j) (Some b) /\ forall y, maj23 (prevotes j) y -> y = Some b) /\
  do_precommit (Some (Some b)) (locked j) (pblock j) = Some b /\
  commits (precommits j) (pblock j) b /\
  (forall y, maj23 (precommits j) y -> y = Some b).
Proof.
  intros Hc. split; [apply good_prevote; exact Hc|]. split; [apply good_polka; exact Hc|].
  split; [apply good_precommit; exact Hc|].
  assert (H : maj23 (precommits j) (Some b)).
  { eapply correct_votes_maj23; [apply precommits_delivered; exact Hc|]. intros i Hi. apply good_precommit; exact Hi. }
  split; [split; [exact H|apply have_block; exact Hc]|].
  intros y Hy. eapply maj23_unique; eauto.
Qed.

End GoodRound.

(** the hypotheses are satisfiable: four validators of power 1, validators 0..2 correct and
    unlocked, validator 3 sends conflicting votes *)
Example ex_good_round :
  let powers := [1; 1; 1; 1] in
  let correct := fun i => Nat.ltb i 3 in
  let vs : nat -> voteset nat := fun _ i => if Nat.ltb i 3 then Some (Some 7%nat) else Some (Some 8%nat) in
  commits powers nat Nat.eq_dec (vs 0%nat) (Some 7%nat) 7%nat.
Proof.
  intros powers correct vs.
  assert (Hp : Forall (fun p => 0 <= p) powers) by (repeat constructor; lia).
  assert (Hq : 2 * Power.total powers < 3 * Power.pw powers correct) by (vm_compute; reflexivity).
  refine (proj1 (proj2 (proj2 (proj2 (good_round powers Hp nat Nat.eq_dec correct Hq (fun _ => true) 7%nat eq_refl
     (fun _ => None) (fun _ => Some 7%nat) (fun _ _ => eq_refl) (fun _ _ => or_introl eq_refl) vs vs _ _ 0%nat eq_refl))))).
  - intros j _ i Hi Hc. unfold vs. unfold correct in Hc. rewrite Hc. reflexivity.
  - intros j _ i Hi Hc. unfold vs. unfold correct in Hc. rewrite Hc. reflexivity.
Qed.
