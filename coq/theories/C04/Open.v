(** C04 — what is NOT proved: the full liveness statement, written out.

    Round-level model of one height during the synchronous suffix.  Only the correct validators
    have state: their lock and their valid block (with rounds).  In a synchronous round every
    correct validator receives the same proposal (when the proposer is correct) and the prevotes
    and precommits of all correct validators before its timeouts fire; the faulty validators
    (power below one third) add arbitrary votes, possibly different ones to different validators,
    and a faulty proposer shows arbitrary proposals (or none) to each validator.

    The decision rules are those of consensus/state.go as transcribed in ProofsRound.v
    ([do_prevote], [do_precommit], [commits]); the lock bookkeeping is the one of enterPrecommit and
    addVote:  a polka for b in the current round moves the lock and the valid block to (b, round);
    a polka for another value (nil included when seen in enterPrecommit) in a round above the lock
    round releases the lock.

    PROVED (Properties.v): [C04_ticker_progress] (a timeout for the current step is never lost),
    [C04_timeout_never_lost] (the same for the whole round/step skeleton of state.go),
    [C04_good_round] (a round in which the correct validators have the same valid proposal block
    and compatible locks commits).

    STATUS OF THE STATEMENT BELOW.  [C04_liveness_full_statement] as written here is FALSE
    ([C04_liveness_full_statement_refuted], witness in C04/ProofsOpen.v): [prefix_conf] allows two correct
    validators to be locked on different blocks, and [sync_round] hands a validator only the prevotes of
    the current round, so nothing releases those locks; it also leaves the valid block of a validator that
    unlocks unconstrained.  In the code the lock with the earlier round is released when the prevotes of
    the later lock's round arrive (addVote, "Unlocking because of POL"), and under timely delivery all
    correct validators count the same vote sets (gossip + the +2/3 claims of queryMaj23Routine).  The
    model with these two facts is C04/LockModel.v; for it the liveness of the synchronous suffix IS proved
    ([C04_liveness_partial]: from every well-formed configuration whose locks agree, one of the next 2 w
    rounds commits at every correct validator; [locks_agree_from_polkas]: the locks agree once the polkas of
    the earlier rounds are known to all).  What remains between that theorem and the property text:
    the rotation window w is a hypothesis here and a theorem of C12 ([C04_rotation_bound_statement]); "a
    block with a polka reaches every correct validator" relies on C13 (genuine parts complete a set);
    "a new block of a correct proposer passes validateBlock" fails for the block time under the weighted
    median finding ([C04_median_byzantine_refuted]); the refinement from ConsensusState to the round model is
    checked by the harness (adversarial prefix, synchronous suffix, failure when no commit happens within
    20 n rounds), not proved. *)
From Coq Require Import List ZArith Arith Bool.
From Kardia Require Import C01.Power C04.ProofsRound.
Import ListNotations.
Local Open Scope Z_scope.

Section Full.
Variable powers : list Z.
Variable B : Type.
Variable B_eq_dec : forall x y : B, {x = y} + {x <> y}.
Variable correct : nat -> bool.
Variable valid : B -> bool.          (* validateBlock against the chain state of this height *)
Variable proposer : nat -> nat.      (* round -> validator index (C12: weighted round robin) *)

(** state of a correct validator between rounds *)
Record vstate := { locked : option (B * nat); validb : option (B * nat) }.
Definition conf := nat -> vstate.

Definition lock_block (s : vstate) : option B := option_map fst (locked s).

(** what a correct proposer proposes: its valid block if it has one, else a new valid block *)
Definition proposes (s : vstate) (b : B) : Prop :=
  match validb s with
  | Some (v, _) => b = v
  | None => valid b = true
  end.

(** the +2/3 prevote value a validator sees ([None]: none).  A function of the vote set that
    agrees with [maj23] (unique by ProofsRound.maj23_unique); kept as a parameter so that no choice
    principle is needed. *)
Variable polka_of : voteset B -> option (option B).
Hypothesis polka_of_spec : forall vs y, polka_of vs = Some y <-> maj23 powers B B_eq_dec vs y.

(** one synchronous round r from configuration c to c', deciding [decision] at the validators that
    commit.  [shown i] is the proposal block validator i holds before it prevotes; [pv j], [pc j]
    are the prevote and precommit sets validator j ends up with. *)
Definition sync_round (r : nat) (c c' : conf) (decision : nat -> option B) : Prop :=
  exists (shown : nat -> option B) (pv pc : nat -> voteset B),
  (* a correct proposer shows the same block to everybody; a faulty one shows anything *)
  (correct (proposer r) = true ->
     exists b, proposes (c (proposer r)) b /\ forall i, correct i = true -> shown i = Some b) /\
  (* every correct validator gets every correct prevote / precommit (the others are arbitrary) *)
  (forall j, correct j = true ->
      has_correct_votes powers B correct (pv j) (fun i => do_prevote B valid (lock_block (c i)) (shown i))) /\
  (forall j, correct j = true ->
      has_correct_votes powers B correct (pc j)
        (fun i => do_precommit B B_eq_dec (polka_of (pv i)) (lock_block (c i)) (shown i))) /\
  (* lock bookkeeping (enterPrecommit / addVote) *)
  (forall i, correct i = true ->
      (forall b, polka_of (pv i) = Some (Some b) ->
                 (lock_block (c i) = Some b \/ shown i = Some b) ->
                 locked (c' i) = Some (b, r) /\ validb (c' i) = Some (b, r)) /\
      (polka_of (pv i) = None -> c' i = c i) /\
      (forall y, polka_of (pv i) = Some y ->
                 (forall b, y = Some b -> lock_block (c i) <> Some b /\ shown i <> Some b) ->
                 locked (c' i) = None)) /\
  (* commit *)
  (forall i b, correct i = true ->
      (decision i = Some b <-> commits powers B B_eq_dec (pc i) (shown i) b)).

(** rounds r0, r0+1, ... of the synchronous suffix *)
Inductive sync_rounds : nat -> nat -> conf -> (nat -> option B) -> Prop :=
| sr_one r c c' d : sync_round r c c' d -> sync_rounds r 1 c d
| sr_more r k c c' d d' :
    sync_round r c c' d -> (forall i, correct i = true -> d i = None) ->
    sync_rounds (S r) k c' d' -> sync_rounds r (S k) c d'.

(** a configuration the adversarial prefix can leave behind: a lock was taken on a valid block in
    a round before r0, and the valid block of a validator is at least as recent as its lock *)
Definition prefix_conf (r0 : nat) (c : conf) : Prop :=
  forall i, correct i = true ->
    (forall b lr, locked (c i) = Some (b, lr) -> valid b = true /\ (lr < r0)%nat /\
                  exists vr, validb (c i) = Some (b, vr) /\ (lr <= vr)%nat) /\
    (forall b vr, validb (c i) = Some (b, vr) -> valid b = true /\ (vr < r0)%nat).

(** the gap: within [bound] synchronous rounds some round has a correct proposer whose block all
    correct validators hold with compatible locks (the hypotheses of C04_good_round) *)
Definition lock_convergence (bound : nat) : Prop :=
  forall r0 c, prefix_conf r0 c ->
  forall k d, sync_rounds r0 k c d -> (k >= bound)%nat ->
  exists i b, correct i = true /\ d i = Some b.

End Full.

(** FULL LIVENESS in the abstraction of this file (refuted as written, see the header): with the correct validators above two thirds of the power and a
    proposer rotation in which a correct validator proposes at least once in every window of
    [w] rounds (C12), every synchronous suffix decides within [2 * w + 2] rounds, whatever the
    locks left by the adversarial prefix. *)
Definition C04_liveness_full_statement : Prop :=
  forall (powers : list Z), Forall (fun p => 0 <= p) powers ->
  forall (B : Type) (B_eq_dec : forall x y : B, {x = y} + {x <> y}) (correct : nat -> bool),
    2 * Power.total powers < 3 * Power.pw powers correct ->
  forall (valid : B -> bool) (proposer : nat -> nat) (w : nat),
    (forall r, exists r', (r <= r' < r + w)%nat /\ correct (proposer r') = true) ->
    forall (polka_of : voteset B -> option (option B)),
    (forall vs y, polka_of vs = Some y <-> maj23 powers B B_eq_dec vs y) ->
    lock_convergence powers B B_eq_dec correct valid proposer polka_of (2 * w + 2).

(** proposer-rotation bound (proved in C12, cited here): in the weighted round robin of
    types/validator_set.go a validator with power p out of a total T is the proposer at least once
    in every window of ceil(T / p) + 1 consecutive rounds, so a correct validator proposes within
    [w] = max over correct validators of that window.  [rotation powers r] stands for the proposer of
    round r computed by IncrementProposerPriority from the initial priorities (C12.Model). *)
Definition C04_rotation_bound_statement (rotation : list Z -> nat -> nat) : Prop :=
  forall (powers : list Z) (i : nat),
    Forall (fun p => 0 < p) powers -> (i < length powers)%nat ->
    let w := Z.to_nat (Power.total powers / nth i powers 0 + 1) in
    forall r, exists r', (r <= r' <= r + w)%nat /\ rotation powers r' = i.
