(** C04 — liveness of the synchronous suffix under timely delivery (C04/LockModel.v): from any
    well-formed configuration in which the locks of the correct validators agree, some round among the next
    2 w commits, w being a window in which every correct validator is the proposer at least once. *)
From Coq Require Import List ZArith Arith Bool Lia.
From Kardia Require Import C01.Power C04.ProofsRound C04.Open C04.LockModel.
Import ListNotations.
Local Open Scope Z_scope.

Section Shared.
Variable powers : list Z.
Hypothesis powers_nonneg : Forall (fun p => 0 <= p) powers.
Variable B : Type.
Variable B_eq_dec : forall x y : B, {x = y} + {x <> y}.
Variable correct : nat -> bool.
Hypothesis correct_quorum : 2 * Power.total powers < 3 * Power.pw powers correct.
Hypothesis correct_in_range : forall i, correct i = true -> (i < Power.n powers)%nat.
Variable valid : B -> bool.
Variable proposer : nat -> nat.
Variable polka_of : voteset B -> option (option B).
Hypothesis polka_of_spec : forall vs y, polka_of vs = Some y <-> maj23 powers B B_eq_dec vs y.

Notation lock_block := (lock_block B).
Notation valid_block := (valid_block B).
Notation wf_conf := (wf_conf B correct valid).
Notation locks_agree := (locks_agree B correct).
Notation uniform := (uniform B correct valid).
Notation unlocked := (unlocked B correct).
Notation shared_round := (shared_round powers B B_eq_dec correct valid proposer polka_of).
Notation maj23 := (maj23 powers B B_eq_dec).
Notation val_eqb := (val_eqb B B_eq_dec).

Lemma val_eqb_true x y : val_eqb x y = true <-> x = y.
Proof. apply val_eqb_eq. Qed.

(** a +2/3 value was voted by a correct validator *)
Lemma maj23_correct_witness vs x :
  maj23 vs x -> exists i, (i < Power.n powers)%nat /\ correct i = true /\ vs i = Some x.
Proof.
  unfold ProofsRound.maj23. intros Hx.
  assert (Ht : Power.pw powers (voted_for B B_eq_dec vs x) <= Power.total powers) by (apply pw_le_total; assumption).
  assert (Hc : Power.pw powers correct <= Power.total powers) by (apply pw_le_total; assumption).
  assert (H : Power.total powers < Power.pw powers (voted_for B B_eq_dec vs x) + Power.pw powers correct) by lia.
  apply (pw_meet powers powers_nonneg) in H. apply (pw_pos_witness powers) in H.
  destruct H as [i [Hi Hb]]. apply andb_true_iff in Hb. destruct Hb as [H1 H2].
  exists i. split; [exact Hi|]. split; [exact H2|].
  unfold voted_for in H1. destruct (vs i) as [z|]; [|discriminate]. apply val_eqb_true in H1. congruence.
Qed.

(** there is a correct validator *)
Lemma some_correct : exists i, correct i = true.
Proof.
  assert (Ht : 0 <= Power.total powers).
  { unfold Power.total. apply pw_nonneg. assumption. }
  assert (H : 0 < Power.pw powers correct) by lia.
  apply (pw_pos_witness powers) in H. destruct H as [i [_ Hi]]. exists i. exact Hi.
Qed.

Definition Inv (c : conf B) : Prop := wf_conf c /\ locks_agree c.
Definition settled (c : conf B) : Prop := (exists b, uniform c b) \/ unlocked c.
Definition eqc (c c' : conf B) : Prop := forall i, correct i = true -> c' i = c i.

(** where the agreement of the locks comes from: a lock (b, lr) is taken on the polka of round lr
    (enterPrecommit), and addVote releases a lock when the polka of a later round (up to the current one) is
    for another block; once the prevotes of the earlier rounds have been exchanged, every correct validator
    knows the same polkas [polka_at] (one per round at most, [maj23_unique]) *)
Lemma locks_agree_from_polkas (c : conf B) (polka_at : nat -> option B) :
  (forall i b lr, correct i = true -> locked B (c i) = Some (b, lr) -> polka_at lr = Some b) ->
  (forall i b lr r b', correct i = true -> locked B (c i) = Some (b, lr) -> (lr < r)%nat ->
                       polka_at r = Some b' -> b' = b) ->
  locks_agree c.
Proof.
  intros H1 H2 i j b b' Hi Hj Hb Hb'. unfold Open.lock_block in Hb, Hb'.
  destruct (locked B (c i)) as [[x lr]|] eqn:Ei; cbn in Hb; [|discriminate]. inversion Hb; subst x.
  destruct (locked B (c j)) as [[y lr']|] eqn:Ej; cbn in Hb'; [|discriminate]. inversion Hb'; subst y.
  destruct (lt_eq_lt_dec lr lr') as [[Hlt|Heq]|Hgt].
  - symmetry. exact (H2 i b lr lr' b' Hi Ei Hlt (H1 j b' lr' Hj Ej)).
  - subst lr'. pose proof (H1 i b lr Hi Ei) as A. pose proof (H1 j b' lr Hj Ej) as A'. congruence.
  - exact (H2 j b' lr' lr b Hj Ej Hgt (H1 i b lr Hi Ei)).
Qed.

(** the block of a polka is valid: some correct validator prevoted it *)
Lemma polka_block_valid c shown PV b :
  wf_conf c ->
  has_correct_votes powers B correct PV (fun i => do_prevote B valid (lock_block (c i)) (shown i)) ->
  maj23 PV (Some b) -> valid b = true.
Proof.
  intros Hwf Hpv Hm. destruct (maj23_correct_witness PV (Some b) Hm) as [i [Hi [Hc Hv]]].
  rewrite (Hpv i Hi Hc) in Hv. inversion Hv as [Hd]. clear Hv.
  unfold do_prevote in Hd. destruct (Hwf i Hc) as [Hl _].
  destruct (lock_block (c i)) as [l|] eqn:El.
  - inversion Hd; subst. apply (Hl b eq_refl).
  - destruct (shown i) as [p|]; [|discriminate]. destruct (valid p) eqn:Ev; [|discriminate]. inversion Hd; subst. exact Ev.
Qed.

(** what one round does to the configuration *)
Lemma round_cases r c c' d :
  Inv c -> shared_round r c c' d ->
  eqc c c' \/
  (unlocked c' /\ forall i, correct i = true -> valid_block (c' i) = valid_block (c i)) \/
  (exists b, uniform c' b).
Proof.
  intros [Hwf Hag] [shown [PV [PC [pcv [Hprop [Hpv [Hpc [Hpca [Hlock Hdec]]]]]]]]].
  destruct (polka_of PV) as [[b|]|] eqn:Ep.
  - (* a polka for block b *)
    right. right. exists b.
    assert (Hm : maj23 PV (Some b)) by (apply polka_of_spec; exact Ep).
    split; [exact (polka_block_valid c shown PV b Hwf Hpv Hm)|].
    intros i Hc. specialize (Hlock i Hc). unfold lock_step in Hlock.
    unfold LockModel.valid_block, Open.lock_block.
    destruct (val_eqb (lock_block (c i)) (Some b) || val_eqb (shown i) (Some b)).
    + destruct Hlock as [H1 H2]. rewrite H1, H2. cbn. split; [reflexivity|right; reflexivity].
    + destruct Hlock as [[H1|H1] H2]; rewrite H1, H2; cbn; split; try reflexivity; [left|right]; reflexivity.
  - (* a polka for nil *)
    right. left. split.
    + intros i Hc. destruct (Hlock i Hc) as [H1 _]. unfold Open.lock_block. rewrite H1. reflexivity.
    + intros i Hc. destruct (Hlock i Hc) as [_ H2]. unfold LockModel.valid_block. rewrite H2. reflexivity.
  - left. intros i Hc. exact (Hlock i Hc).
Qed.

Lemma uniform_inv c b : uniform c b -> Inv c.
Proof.
  intros [Hv Hu]. split.
  - intros i Hc. destruct (Hu i Hc) as [Hvb Hl]. split.
    + intros x Hx. destruct Hl as [Hl|Hl]; rewrite Hl in Hx; [discriminate|]. inversion Hx; subst. split; assumption.
    + intros v Hvv. rewrite Hvb in Hvv. inversion Hvv; subst. exact Hv.
  - intros i j x y Hi Hj Hx Hy. destruct (Hu i Hi) as [_ [H|H]]; rewrite H in Hx; [discriminate|].
    destruct (Hu j Hj) as [_ [H'|H']]; rewrite H' in Hy; [discriminate|]. congruence.
Qed.

Lemma eqc_inv c c' : eqc c c' -> Inv c -> Inv c'.
Proof.
  intros He [Hwf Hag]. split.
  - intros i Hc. rewrite (He i Hc). apply Hwf. exact Hc.
  - intros i j x y Hi Hj. rewrite (He i Hi), (He j Hj). apply Hag; assumption.
Qed.

Lemma round_inv r c c' d : Inv c -> shared_round r c c' d -> Inv c'.
Proof.
  intros HI Hr. destruct (round_cases r c c' d HI Hr) as [He|[[Hu Hvb]|[b Hb]]].
  - exact (eqc_inv c c' He HI).
  - destruct HI as [Hwf _]. split.
    + intros i Hc. split.
      * intros x Hx. rewrite (Hu i Hc) in Hx. discriminate.
      * intros v Hv. rewrite (Hvb i Hc) in Hv. destruct (Hwf i Hc) as [_ H]. apply H. exact Hv.
    + intros i j x y Hi Hj Hx. rewrite (Hu i Hi) in Hx. discriminate.
  - exact (uniform_inv c' b Hb).
Qed.

Lemma settled_step r c c' d : Inv c -> settled c -> shared_round r c c' d -> settled c'.
Proof.
  intros HI Hs Hr. destruct (round_cases r c c' d HI Hr) as [He|[[Hu _]|[b Hb]]].
  - destruct Hs as [[b [Hv Hu]]|Hu].
    + left. exists b. split; [exact Hv|]. intros i Hc. rewrite (He i Hc). apply Hu. exact Hc.
    + right. intros i Hc. rewrite (He i Hc). apply Hu. exact Hc.
  - right. exact Hu.
  - left. exists b. exact Hb.
Qed.

(** GOOD ROUND: every correct validator holds the valid block x, all locks are on x or absent: everybody
    decides x *)
Lemma decide_shown c (shown : nat -> option B) (PV PC : voteset B) (pcv : nat -> option B) (d : nat -> option B) x :
  has_correct_votes powers B correct PV (fun i => do_prevote B valid (lock_block (c i)) (shown i)) ->
  has_correct_votes powers B correct PC pcv ->
  (forall i, correct i = true -> precommit_allowed B B_eq_dec (polka_of PV) (c i) (shown i) (pcv i)) ->
  (forall i b, correct i = true -> (d i = Some b <-> commits powers B B_eq_dec PC (shown i) b)) ->
  (forall i, correct i = true -> shown i = Some x) -> valid x = true ->
  (forall i, correct i = true -> lock_block (c i) = None \/ lock_block (c i) = Some x) ->
  forall i, correct i = true -> d i = Some x.
Proof.
  intros Hpv Hpc Hpca Hdec Hsh Hvx Hl i Hc.
  assert (Hpre : forall j, correct j = true -> do_prevote B valid (lock_block (c j)) (shown j) = Some x).
  { intros j Hj. unfold do_prevote. rewrite (Hsh j Hj). destruct (Hl j Hj) as [E|E]; rewrite E; [rewrite Hvx|]; reflexivity. }
  assert (Hm : maj23 PV (Some x)).
  { apply (correct_votes_maj23 powers powers_nonneg B B_eq_dec correct correct_quorum PV _ (Some x) Hpv Hpre). }
  assert (Ep : polka_of PV = Some (Some x)) by (apply polka_of_spec; exact Hm).
  assert (Hpc2 : forall j, correct j = true -> pcv j = Some x).
  { intros j Hj. destruct (Hpca j Hj) as [E|[b [E1 E2]]].
    - rewrite E, Ep. unfold do_precommit. rewrite (Hsh j Hj).
      assert (E2 : val_eqb (Some x) (Some x) = true) by (apply val_eqb_true; reflexivity).
      rewrite E2. destruct (val_eqb (lock_block (c j)) (Some x)); reflexivity.
    - rewrite Ep in E1. inversion E1; subst. exact E2. }
  assert (Hmc : maj23 PC (Some x)).
  { apply (correct_votes_maj23 powers powers_nonneg B B_eq_dec correct correct_quorum PC pcv (Some x) Hpc Hpc2). }
  apply (Hdec i x Hc). split; [exact Hmc|exact (Hsh i Hc)].
Qed.

(** in a settled configuration every round with a correct proposer commits *)
Lemma settled_good r c c' d :
  Inv c -> settled c -> shared_round r c c' d -> correct (proposer r) = true ->
  exists x, forall i, correct i = true -> d i = Some x.
Proof.
  intros [Hwf _] Hs [shown [PV [PC [pcv [Hprop [Hpv [Hpc [Hpca [Hlock Hdec]]]]]]]]] Hcp.
  destruct (Hprop Hcp) as [y [Hy Hsh]]. exists y.
  apply (decide_shown c shown PV PC pcv d y Hpv Hpc Hpca Hdec Hsh).
  - (* the proposal is valid *)
    unfold proposes in Hy. destruct (validb B (c (proposer r))) as [[v vr]|] eqn:Ev; [|exact Hy]. subst y.
    destruct (Hwf _ Hcp) as [_ H]. apply H. unfold LockModel.valid_block. rewrite Ev. reflexivity.
  - destruct Hs as [[b [Hv Hu]]|Hu].
    + (* everybody's valid block is b: the proposal is b *)
      assert (y = b).
      { unfold proposes in Hy. destruct (Hu _ Hcp) as [Hvb _]. unfold LockModel.valid_block in Hvb.
        destruct (validb B (c (proposer r))) as [[v vr]|]; cbn in Hvb; [|discriminate]. inversion Hvb. congruence. }
      subst y. intros i Hc. apply (Hu i Hc).
    + intros i Hc. left. apply Hu. exact Hc.
Qed.

(** when the locks agree, a round whose correct proposer is itself locked commits *)
Lemma locked_proposer_good r c c' d b :
  Inv c -> shared_round r c c' d -> correct (proposer r) = true -> lock_block (c (proposer r)) = Some b ->
  forall i, correct i = true -> d i = Some b.
Proof.
  intros [Hwf Hag] [shown [PV [PC [pcv [Hprop [Hpv [Hpc [Hpca [Hlock Hdec]]]]]]]]] Hcp Hl.
  destruct (Hprop Hcp) as [y [Hy Hsh]].
  destruct (Hwf _ Hcp) as [Hw1 _]. destruct (Hw1 b Hl) as [Hvb Hvalid].
  assert (y = b).
  { unfold proposes in Hy. unfold LockModel.valid_block in Hvalid.
    destruct (validb B (c (proposer r))) as [[v vr]|]; cbn in Hvalid; [|discriminate]. inversion Hvalid. congruence. }
  subst y.
  apply (decide_shown c shown PV PC pcv d b Hpv Hpc Hpca Hdec Hsh Hvb).
  intros i Hc. destruct (lock_block (c i)) as [x|] eqn:Ex; [|left; reflexivity].
  right. f_equal. exact (Hag i (proposer r) x b Hc Hcp Ex Hl).
Qed.

(** some correct validator is locked, or none is (the correct validators are among the first n indices) *)
Lemma locked_dec c :
  (forall i, correct i = true -> lock_block (c i) = None) \/ (exists i b, correct i = true /\ lock_block (c i) = Some b).
Proof.
  assert (H : forall k, (forall i, (i < k)%nat -> correct i = true -> lock_block (c i) = None) \/
                        (exists i b, correct i = true /\ lock_block (c i) = Some b)).
  { induction k as [|k IH]; [left; intros; lia|].
    destruct IH as [H|H]; [|right; exact H].
    destruct (correct k) eqn:Ec.
    - destruct (lock_block (c k)) as [b|] eqn:El.
      + right. exists k, b. split; assumption.
      + left. intros i Hi Hci. destruct (Nat.eq_dec i k) as [->|Hne]; [exact El|apply H; [lia|exact Hci]].
    - left. intros i Hi Hci. destruct (Nat.eq_dec i k) as [->|Hne]; [congruence|apply H; [lia|exact Hci]]. }
  destruct (H (Power.n powers)) as [Hn|He]; [left|right; exact He].
  intros i Hc. apply Hn; [apply correct_in_range; exact Hc|exact Hc].
Qed.

(* ------------------------------------------------------------------ *)
(** * runs *)

Variable r0 : nat.
Variable cfs : nat -> conf B.          (* configuration before round r0 + k *)
Variable ds : nat -> nat -> option B.  (* decisions of round r0 + k *)
Hypothesis run_rounds : forall k, shared_round (r0 + k) (cfs k) (cfs (S k)) (ds k).
Hypothesis start_inv : Inv (cfs 0).

Lemma run_inv k : Inv (cfs k).
Proof. induction k as [|k IH]; [exact start_inv|]. exact (round_inv _ _ _ _ IH (run_rounds k)). Qed.

Lemma settled_persists k m : settled (cfs k) -> settled (cfs (k + m)).
Proof.
  intros Hs. induction m as [|m IH]; [rewrite Nat.add_0_r; exact Hs|].
  rewrite Nat.add_succ_r. exact (settled_step _ _ _ _ (run_inv (k + m)) IH (run_rounds (k + m))).
Qed.

(** up to round m either nothing has changed for the correct validators, or a settled configuration was reached *)
Lemma static_or_settled m :
  (forall k, (k <= m)%nat -> eqc (cfs 0) (cfs k)) \/ (exists k, (k <= m)%nat /\ settled (cfs k)).
Proof.
  induction m as [|m IH].
  - left. intros k Hk. assert (k = 0)%nat by lia. subst k. intros i _. reflexivity.
  - destruct IH as [Hst|[k [Hk Hs]]]; [|right; exists k; split; [lia|exact Hs]].
    destruct (round_cases _ _ _ _ (run_inv m) (run_rounds m)) as [He|[[Hu _]|[b Hb]]].
    + left. intros k Hk. destruct (Nat.eq_dec k (S m)) as [->|Hne]; [|apply Hst; lia].
      intros i Hc. rewrite (He i Hc). apply (Hst m (Nat.le_refl m) i Hc).
    + right. exists (S m). split; [lia|right; exact Hu].
    + right. exists (S m). split; [lia|left; exists b; exact Hb].
Qed.

Variable w : nat.
(** the rotation: every correct validator is the proposer at least once in every window of w rounds (C12) *)
Hypothesis rotation : forall i, correct i = true -> forall r, exists r', (r <= r' < r + w)%nat /\ proposer r' = i.

(** LIVENESS OF THE SYNCHRONOUS SUFFIX: some round among the first 2 w decides, at every correct validator *)
Theorem suffix_decides :
  exists k x, (k < 2 * w)%nat /\ forall i, correct i = true -> ds k i = Some x.
Proof.
  destruct some_correct as [i1 Hi1].
  assert (Hw : (0 < w)%nat).
  { destruct (rotation i1 Hi1 0%nat) as [r' [Hr' _]]. lia. }
  assert (Hsettled : forall k1, (k1 <= w)%nat -> settled (cfs k1) ->
            exists k x, (k < 2 * w)%nat /\ forall i, correct i = true -> ds k i = Some x).
  { intros k1 Hk1 Hs. destruct (rotation i1 Hi1 (r0 + k1)%nat) as [r' [Hr' Hp]].
    set (k := (r' - r0)%nat). assert (Ek : (r0 + k = r')%nat) by (unfold k; lia).
    assert (Hs2 : settled (cfs k)).
    { replace k with (k1 + (k - k1))%nat by (unfold k; lia). apply settled_persists. exact Hs. }
    pose proof (run_rounds k) as Hr. rewrite Ek in Hr.
    assert (Hcp : correct (proposer r') = true) by (rewrite Hp; exact Hi1).
    destruct (settled_good r' (cfs k) (cfs (S k)) (ds k) (run_inv k) Hs2 Hr Hcp) as [x Hx].
    exists k, x. split; [unfold k; lia|exact Hx]. }
  destruct (static_or_settled (w - 1)) as [Hst|[k1 [Hk1 Hs]]]; [|apply (Hsettled k1); [lia|exact Hs]].
  (* nothing changes during the first w rounds: either nobody is locked, or a locked validator proposes *)
  destruct (locked_dec (cfs 0%nat)) as [Hu|[i0 [b [Hi0 Hl0]]]].
  - apply (Hsettled 0%nat); [lia|]. right. exact Hu.
  - destruct (rotation i0 Hi0 r0) as [r' [Hr' Hp]].
    set (k := (r' - r0)%nat). assert (Ek : (r0 + k = r')%nat) by (unfold k; lia).
    assert (Hk : (k <= w - 1)%nat) by (unfold k; lia).
    pose proof (run_rounds k) as Hr. rewrite Ek in Hr.
    assert (Hcp : correct (proposer r') = true) by (rewrite Hp; exact Hi0).
    assert (Hl : lock_block (cfs k (proposer r')) = Some b).
    { rewrite Hp. rewrite (Hst k Hk i0 Hi0). exact Hl0. }
    exists k, b. split; [lia|].
    exact (locked_proposer_good r' (cfs k) (cfs (S k)) (ds k) b (run_inv k) Hr Hcp Hl).
Qed.

End Shared.
