(** C04 — the ticker never loses the latest timeout: proofs about C04/Model.v. *)
From Coq Require Import NArith Bool List Lia.
From Kardia Require Import C04.Model.
Import ListNotations.
Local Open Scope N_scope.

(** lexicographic order on (height, round, step) *)
Definition lt3 (a b : tinfo) : Prop :=
  ti_h a < ti_h b \/ (ti_h a = ti_h b /\ (ti_r a < ti_r b \/ (ti_r a = ti_r b /\ ti_s a < ti_s b))).
Definition eq3 (a b : tinfo) : Prop := ti_h a = ti_h b /\ ti_r a = ti_r b /\ ti_s a = ti_s b.
Definition le3 (a b : tinfo) : Prop := lt3 a b \/ eq3 a b.

Lemma eq3_eq a b : eq3 a b -> a = b.
Proof. destruct a, b; unfold eq3; simpl; intros [-> [-> ->]]; reflexivity. Qed.

Lemma le3_refl a : le3 a a.
Proof. right; unfold eq3; auto. Qed.

Lemma lt3_trans a b c : lt3 a b -> lt3 b c -> lt3 a c.
Proof. unfold lt3; lia. Qed.
Lemma le3_lt3_trans a b c : le3 a b -> lt3 b c -> lt3 a c.
Proof. unfold le3, lt3, eq3; lia. Qed.
Lemma le3_trans a b c : le3 a b -> le3 b c -> le3 a c.
Proof. unfold le3, lt3, eq3; lia. Qed.
Lemma lt3_le3 a b : lt3 a b -> le3 a b.
Proof. left; assumption. Qed.
Lemma lt3_irrefl a : ~ lt3 a a.
Proof. unfold lt3; lia. Qed.
Lemma not_lt3_le3 a b : ~ lt3 a b -> le3 b a.
Proof. unfold le3, lt3, eq3; lia. Qed.

(** the filter is exactly "strictly later" once the remembered step is positive (it always is:
    EmptyTimeoutInfo has step 1 and every RoundStepType is at least 1) *)
Lemma accepts_iff ti t : 0 < ti_s ti -> (accepts ti t = true <-> lt3 ti t).
Proof.
  intros Hs. unfold accepts, lt3.
  destruct (N.ltb_spec (ti_h t) (ti_h ti)) as [H1|H1]; [split; [discriminate|lia]|].
  destruct (N.eqb_spec (ti_h t) (ti_h ti)) as [H2|H2]; [|split; [lia|reflexivity]].
  destruct (N.ltb_spec (ti_r t) (ti_r ti)) as [H3|H3]; [split; [discriminate|lia]|].
  destruct (N.eqb_spec (ti_r t) (ti_r ti)) as [H4|H4]; [|split; [lia|reflexivity]].
  destruct (N.ltb_spec 0 (ti_s ti)) as [H5|H5]; [|lia].
  destruct (N.leb_spec (ti_s t) (ti_s ti)) as [H6|H6]; cbn [andb]; split; try discriminate; try lia; reflexivity.
Qed.

(** the quirk: with a remembered step 0 the same (height, round) is accepted again whatever the step *)
Lemma accepts_step0 ti t :
  ti_s ti = 0 -> ti_h t = ti_h ti -> ti_r t = ti_r ti -> accepts ti t = true.
Proof.
  intros Hs Hh Hr. unfold accepts. rewrite Hh, Hr, Hs, !N.ltb_irrefl, !N.eqb_refl. reflexivity.
Qed.

Definition pos_step (t : tinfo) : Prop := 0 < ti_s t.

(** invariant of the ticker with respect to the requests seen so far *)
Record TInv (k : ticker) (hist : list tinfo) : Prop := {
  inv_pos : pos_step (last k);
  inv_pending : pending k = None \/ pending k = Some (last k);
  inv_from : last k = empty_ti \/ In (last k) hist;
  inv_max : Forall (fun t => le3 t (last k)) hist;
  inv_init : le3 empty_ti (last k)
}.

Lemma TInv_init : TInv init [].
Proof.
  constructor; simpl; auto.
  - unfold pos_step; simpl; lia.
  - apply le3_refl.
Qed.

Lemma TInv_step k hist o :
  TInv k hist -> (forall t, o = Schedule t -> pos_step t) ->
  TInv (fst (step k o)) (hist ++ match o with Schedule t => [t] | Fire => [] end).
Proof.
  intros [Hpos Hpend Hfrom Hmax Hinit] Ho. destruct o as [t|]; cbn [step].
  - specialize (Ho t eq_refl).
    destruct (accepts (last k) t) eqn:E; cbn [fst].
    + apply accepts_iff in E; [|exact Hpos].
      constructor; cbn [last pending]; auto.
      * right. apply in_or_app. right. left. reflexivity.
      * apply Forall_app. split.
        -- eapply Forall_impl; [|exact Hmax]. intros a Ha. cbn beta. apply lt3_le3. exact (le3_lt3_trans _ _ _ Ha E).
        -- constructor; [apply le3_refl|constructor].
      * apply lt3_le3. exact (le3_lt3_trans _ _ _ Hinit E).
    + assert (Hn : ~ lt3 (last k) t).
      { intros Hlt. apply (accepts_iff (last k) t Hpos) in Hlt. congruence. }
      constructor; auto.
      * destruct Hfrom as [Hf|Hf]; [left; exact Hf|right; apply in_or_app; left; exact Hf].
      * apply Forall_app. split; [exact Hmax|]. constructor; [|constructor]. apply not_lt3_le3. exact Hn.
  - rewrite app_nil_r. destruct (pending k) as [p|] eqn:Ep; cbn [fst].
    + constructor; cbn [last pending]; auto.
    + constructor; auto.
Qed.

Lemma TInv_run : forall ops k hist,
  TInv k hist -> Forall pos_step (scheduled ops) -> TInv (fst (run k ops)) (hist ++ scheduled ops).
Proof.
  induction ops as [|o ops IH]; intros k hist Hinv Hpos; cbn [run scheduled].
  - rewrite app_nil_r. exact Hinv.
  - destruct (step k o) as [k1 ob] eqn:Es. destruct (run k1 ops) as [k2 obs] eqn:Er. cbn [fst].
    assert (H1 : TInv k1 (hist ++ match o with Schedule t => [t] | Fire => [] end)).
    { replace k1 with (fst (step k o)) by (rewrite Es; reflexivity). apply TInv_step; [exact Hinv|].
      intros t ->. cbn [scheduled] in Hpos. inversion Hpos; assumption. }
    assert (Hpos' : Forall pos_step (scheduled ops)).
    { destruct o; cbn [scheduled] in Hpos; [inversion Hpos; assumption|exact Hpos]. }
    specialize (IH k1 _ H1 Hpos'). rewrite Er in IH. cbn [fst] in IH.
    destruct o; cbn [scheduled]; [rewrite <- app_assoc in IH; exact IH|rewrite app_nil_r in IH; exact IH].
Qed.

(** after any sequence of requests and firings: the pending timeout (if any) is the remembered one,
    it was requested (or is the initial one), and it is the latest of all requests in
    (height, round, step) order *)
Theorem ticker_latest ops :
  Forall pos_step (scheduled ops) ->
  let k := fst (run init ops) in
  (forall p, pending k = Some p -> p = last k) /\
  (last k = empty_ti \/ In (last k) (scheduled ops)) /\
  Forall (fun t => le3 t (last k)) (scheduled ops).
Proof.
  intros Hpos k. pose proof (TInv_run ops init [] TInv_init Hpos) as [_ Hpend Hfrom Hmax _].
  cbn [app] in *. fold k in Hpend, Hfrom, Hmax. repeat split; auto.
  intros p Hp. destruct Hpend as [H|H]; rewrite H in Hp; [discriminate|inversion Hp; reflexivity].
Qed.

(** a request later than everything requested before is never refused, and becomes the pending one *)
Theorem ticker_newer_accepted ops t :
  Forall pos_step (scheduled ops) -> pos_step t ->
  lt3 empty_ti t -> Forall (fun t' => lt3 t' t) (scheduled ops) ->
  step (fst (run init ops)) (Schedule t) = ({| last := t; pending := Some t |}, Acc).
Proof.
  intros Hpos Ht H0 Hall. pose proof (TInv_run ops init [] TInv_init Hpos) as [Hp _ Hfrom _ _].
  cbn [app] in *. set (k := fst (run init ops)) in *.
  assert (Hlt : lt3 (last k) t).
  { destruct Hfrom as [->|Hin]; [exact H0|]. rewrite Forall_forall in Hall. apply Hall. exact Hin. }
  cbn [step]. apply (accepts_iff (last k) t Hp) in Hlt. rewrite Hlt. reflexivity.
Qed.

(** a refused request is covered: a timeout at least as late was accepted before (it is pending or
    has fired) *)
Theorem ticker_refusal_covered ops t :
  Forall pos_step (scheduled ops) ->
  snd (step (fst (run init ops)) (Schedule t)) = Ign ->
  le3 t (last (fst (run init ops))) /\
  (last (fst (run init ops)) = empty_ti \/ In (last (fst (run init ops))) (scheduled ops)).
Proof.
  intros Hpos Hign. pose proof (TInv_run ops init [] TInv_init Hpos) as [Hp _ Hfrom _ _].
  cbn [app] in *. set (k := fst (run init ops)) in *. split; [|exact Hfrom].
  cbn [step] in Hign. destruct (accepts (last k) t) eqn:E; cbn [snd] in Hign; [discriminate|].
  apply not_lt3_le3. intros Hlt. apply (accepts_iff (last k) t Hp) in Hlt. congruence.
Qed.

(** the timeout that fires is the pending one, i.e. the latest accepted request *)
Theorem ticker_fire ops t :
  Forall pos_step (scheduled ops) ->
  snd (step (fst (run init ops)) Fire) = Fired t ->
  t = last (fst (run init ops)) /\ Forall (fun t' => le3 t' t) (scheduled ops).
Proof.
  intros Hpos Hf. destruct (ticker_latest ops Hpos) as [H1 [_ H3]].
  set (k := fst (run init ops)) in *. cbn [step] in Hf.
  destruct (pending k) as [p|] eqn:E; cbn [snd] in Hf; [|discriminate].
  inversion Hf; subst p. rewrite (H1 t eq_refl). split; [reflexivity|exact H3].
Qed.

(** non-vacuity: the timeouts of one round in the order the state machine requests them, including
    a refused late PrevoteWait after PrecommitWait *)
Example ex_round :
  snd (run init [Schedule {| ti_h := 1; ti_r := 1; ti_s := 1 |}; Fire;
                 Schedule {| ti_h := 1; ti_r := 1; ti_s := 3 |};
                 Schedule {| ti_h := 1; ti_r := 1; ti_s := 7 |};
                 Schedule {| ti_h := 1; ti_r := 1; ti_s := 5 |}; Fire;
                 Schedule {| ti_h := 1; ti_r := 2; ti_s := 3 |}])
  = [Acc; Fired {| ti_h := 1; ti_r := 1; ti_s := 1 |}; Acc; Acc; Ign;
     Fired {| ti_h := 1; ti_r := 1; ti_s := 7 |}; Acc].
Proof. vm_compute. reflexivity. Qed.
