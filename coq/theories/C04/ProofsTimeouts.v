(** C04 — the timeout durations grow past any message delay (configs/config.go Propose / Prevote /
    Precommit as transcribed in C04/StepModel.v [timeout_dur]), and the constants of the repository the
    models use (Generated/C04Facts.v, regenerated from the code on every check). *)
From Coq Require Import ZArith NArith Bool List Lia.
From Kardia Require Import Base.Int64 C04.Model C04.StepModel Generated.C04Facts.
Local Open Scope Z_scope.

(** without overflow the duration is base + delta * round *)
Lemma timeout_dur_exact base delta round :
  in_int64 (delta * round) -> in_int64 (base + delta * round) -> timeout_dur base delta round = base + delta * round.
Proof.
  intros H1 H2. unfold timeout_dur. rewrite (wrap64_id _ H1). rewrite (wrap64_id _ H2).
  rewrite Z.mul_1_r. apply wrap64_id. exact H2.
Qed.

(** whatever the message delay D, every round beyond D / delta has a timeout longer than D (as long as the
    sum stays in the int64 range) *)
Lemma timeouts_outgrow_delay base delta D r :
  0 <= base -> 0 < delta -> 0 <= r -> D / delta < r -> base + delta * r <= max_int64 ->
  D < timeout_dur base delta r.
Proof.
  intros Hb Hd Hr Hq Hmax.
  assert (Hm : D < delta * r).
  { pose proof (Z.div_mod D delta ltac:(lia)) as E. pose proof (Z.mod_pos_bound D delta Hd) as Hb'. nia. }
  assert (H0 : 0 <= delta * r) by nia.
  rewrite timeout_dur_exact; unfold in_int64, min_int64, max_int64, two63 in *; lia.
Qed.

(** the shipped configuration: no uint32 round overflows, so every round r has the timeouts
    base + delta * r, and they grow strictly with the round *)
Lemma default_timeouts_exact r :
  0 <= r < 4294967296 ->
  timeout_dur default_timeout_propose default_timeout_propose_delta r = default_timeout_propose + default_timeout_propose_delta * r /\
  timeout_dur default_timeout_prevote default_timeout_prevote_delta r = default_timeout_prevote + default_timeout_prevote_delta * r /\
  timeout_dur default_timeout_precommit default_timeout_precommit_delta r = default_timeout_precommit + default_timeout_precommit_delta * r /\
  0 < default_timeout_propose_delta /\ 0 < default_timeout_prevote_delta /\ 0 < default_timeout_precommit_delta.
Proof.
  intros Hr.
  unfold default_timeout_propose, default_timeout_propose_delta, default_timeout_prevote, default_timeout_prevote_delta,
    default_timeout_precommit, default_timeout_precommit_delta.
  repeat split; try lia; apply timeout_dur_exact; unfold in_int64, min_int64, max_int64, two63; lia.
Qed.

(** the shipped configuration waits for transactions with a positive interval: step NewRound of round 1 is
    a waiting state of the skeleton, with its own timeout *)
Lemma default_config_waits :
  let c := {| create_empty := default_create_empty_blocks; interval_pos := 0 <? default_create_empty_blocks_interval;
              skip_commit := default_skip_timeout_commit |} in
  wait_for_txs c = true /\ interval_pos c = true.
Proof. vm_compute. split; reflexivity. Qed.

(** the step numbering and EmptyTimeoutInfo of the models are the repository's *)
Lemma facts_steps :
  Z.of_N sNewHeight = fact_step_new_height /\ Z.of_N sNewRound = fact_step_new_round /\ Z.of_N sPropose = fact_step_propose /\
  Z.of_N sPrevote = fact_step_prevote /\ Z.of_N sPrevoteWait = fact_step_prevote_wait /\ Z.of_N sPrecommit = fact_step_precommit /\
  Z.of_N sPrecommitWait = fact_step_precommit_wait /\ Z.of_N sCommit = fact_step_commit /\
  Z.of_N (ti_h empty_ti) = fact_empty_ti_height /\ Z.of_N (ti_r empty_ti) = fact_empty_ti_round /\ Z.of_N (ti_s empty_ti) = fact_empty_ti_step.
Proof. repeat split; reflexivity. Qed.
