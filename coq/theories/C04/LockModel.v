(** C04 — the synchronous suffix with TIMELY DELIVERY modelled in full: round-level model of one height in
    which, before any timeout fires, every correct validator has received everything any correct validator
    has (votes, the +2/3 claims of queryMaj23Routine that make a node accept the conflicting vote of an
    equivocating validator, the proposal of a correct proposer, the parts of a block with a polka).  Hence
    in a round all correct validators count the SAME prevote set [PV] and the same precommit set [PC]
    (the Byzantine validators contribute arbitrary entries), and a block that has a polka in the round
    reaches every correct validator before it leaves the round (addVote / addProposalBlockPart
    "Update Valid*": ValidBlock, ValidRound := that block, this round).

    Decision rules: [do_prevote], [do_precommit], [commits] of C04/ProofsRound.v (doPrevote, enterPrecommit,
    enterCommit of consensus/state.go).  Lock bookkeeping [lock_step] (enterPrecommit, addVote):
    - no polka: nothing changes;
    - a polka for nil: the lock is released, the valid block stays;
    - a polka for block b: a validator that is locked on b or holds the proposal block b locks (b, r) and
      its valid block becomes (b, r); a validator that does not hold b releases its lock (or, when the parts
      arrive before it precommits, locks b) and its valid block becomes (b, r) once the parts are there.
    A correct proposer proposes its valid block if it has one, else a new block that passes validateBlock
    ([proposes] of C04/Open.v).  No proofs in this file. *)
From Coq Require Import List ZArith Arith Bool.
From Kardia Require Import C01.Power C04.ProofsRound C04.Open.
Import ListNotations.
Local Open Scope Z_scope.

Section Shared.
Variable powers : list Z.
Variable B : Type.
Variable B_eq_dec : forall x y : B, {x = y} + {x <> y}.
Variable correct : nat -> bool.
Variable valid : B -> bool.
Variable proposer : nat -> nat.
Variable polka_of : voteset B -> option (option B).

Definition valid_block (s : vstate B) : option B := option_map fst (validb B s).

(** the lock and the valid block of one correct validator over round r, given the polka of the common
    prevote set and the proposal block [sh] it holds *)
Definition lock_step (r : nat) (polka : option (option B)) (sh : option B) (s s' : vstate B) : Prop :=
  match polka with
  | None => s' = s
  | Some None => locked B s' = None /\ validb B s' = validb B s
  | Some (Some b) =>
    if val_eqb B B_eq_dec (lock_block B s) (Some b) || val_eqb B B_eq_dec sh (Some b)
    then locked B s' = Some (b, r) /\ validb B s' = Some (b, r)
    else (locked B s' = None \/ locked B s' = Some (b, r)) /\ validb B s' = Some (b, r)
  end.

(** the precommit of a correct validator: enterPrecommit's rule; a validator that obtains the block of the
    polka before it precommits may precommit it *)
Definition precommit_allowed (polka : option (option B)) (s : vstate B) (sh : option B) (v : option B) : Prop :=
  v = do_precommit B B_eq_dec polka (lock_block B s) sh \/ (exists b, polka = Some (Some b) /\ v = Some b).

(** one synchronous round r: configuration c -> c', decisions d *)
Definition shared_round (r : nat) (c c' : conf B) (d : nat -> option B) : Prop :=
  exists (shown : nat -> option B) (PV PC : voteset B) (pcv : nat -> option B),
  (* a correct proposer shows the same block to everybody; a faulty one shows anything to anybody *)
  (correct (proposer r) = true ->
     exists b, proposes B valid (c (proposer r)) b /\ forall i, correct i = true -> shown i = Some b) /\
  (* the common prevote set contains the prevote of every correct validator *)
  has_correct_votes powers B correct PV (fun i => do_prevote B valid (lock_block B (c i)) (shown i)) /\
  (* the common precommit set contains the precommit of every correct validator *)
  has_correct_votes powers B correct PC pcv /\
  (forall i, correct i = true -> precommit_allowed (polka_of PV) (c i) (shown i) (pcv i)) /\
  (* locks and valid blocks *)
  (forall i, correct i = true -> lock_step r (polka_of PV) (shown i) (c i) (c' i)) /\
  (* commit: +2/3 precommits for the block the validator holds *)
  (forall i b, correct i = true -> (d i = Some b <-> commits powers B B_eq_dec PC (shown i) b)).

(** well-formed configuration: locks and valid blocks are valid blocks; a locked validator's valid block is
    its locked block (enterPrecommit sets both; ValidBlock only moves to a block with a later polka, which
    releases or moves the lock) *)
Definition wf_conf (c : conf B) : Prop :=
  forall i, correct i = true ->
    (forall b, lock_block B (c i) = Some b -> valid b = true /\ valid_block (c i) = Some b) /\
    (forall v, valid_block (c i) = Some v -> valid v = true).

(** what the synchronous suffix starts from, once the polkas of the earlier rounds have been exchanged
    (addVote: a polka of a round above the lock round for another block releases the lock): the locks of the
    correct validators are on one block *)
Definition locks_agree (c : conf B) : Prop :=
  forall i j b b', correct i = true -> correct j = true ->
    lock_block B (c i) = Some b -> lock_block B (c j) = Some b' -> b = b'.

(** the three phases of the suffix *)
Definition uniform (c : conf B) (b : B) : Prop :=   (* everybody's valid block is b, locks are on b or absent *)
  valid b = true /\ forall i, correct i = true ->
    valid_block (c i) = Some b /\ (lock_block B (c i) = None \/ lock_block B (c i) = Some b).
Definition unlocked (c : conf B) : Prop := forall i, correct i = true -> lock_block B (c i) = None.
Definition phase (c : conf B) : Prop := (exists b, uniform c b) \/ unlocked c \/ locks_agree c.

End Shared.
