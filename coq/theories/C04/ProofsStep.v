(** C04 — no timeout is lost: proofs about the round/step skeleton of C04/StepModel.v.

    Invariant [Inv] of a node (state machine skeleton + ticker + timeouts in flight), preserved by every
    event; consequences:
    - [wake]: in every waiting state a timeout that handleTimeout will accept is pending in the ticker
      or in flight;
    - [handle_live_progress]: handling such a timeout moves the node strictly forward in
      (height, round, step);
    - [handle_stale_noop]: a stale timeout changes nothing. *)
From Coq Require Import NArith Bool List Lia.
From Kardia Require Import C04.Model C04.Proofs C04.StepModel.
Import ListNotations.
Local Open Scope N_scope.

Ltac usteps := unfold sNewHeight, sNewRound, sPropose, sPrevote, sPrevoteWait, sPrecommit, sPrecommitWait, sCommit in *.

(** case analysis on every N comparison in sight *)
Ltac nb1 :=
  match goal with
  | |- context [N.eqb ?a ?b] => destruct (N.eqb_spec a b)
  | |- context [N.ltb ?a ?b] => destruct (N.ltb_spec a b)
  | |- context [N.leb ?a ?b] => destruct (N.leb_spec a b)
  | H : context [N.eqb ?a ?b] |- _ => destruct (N.eqb_spec a b)
  | H : context [N.ltb ?a ?b] |- _ => destruct (N.ltb_spec a b)
  | H : context [N.leb ?a ?b] |- _ => destruct (N.leb_spec a b)
  end.
Ltac nb := repeat (nb1; cbn [negb orb andb] in *).

(** the timeouts the state machine requests: steps NewHeight, NewRound (both only in round 1), Propose,
    PrevoteWait, PrecommitWait; EmptyTimeoutInfo has this shape too *)
Definition shape (t : tinfo) : Prop :=
  (ti_s t = 1 \/ ti_s t = 2 \/ ti_s t = 3 \/ ti_s t = 5 \/ ti_s t = 7) /\ (ti_s t <= 2 -> ti_r t = 1) /\ 1 <= ti_r t.
(** not ahead of the node's (height, round) *)
Definition le_hr (t : tinfo) (nd : node) : Prop := ti_h t < nH nd \/ (ti_h t = nH nd /\ ti_r t <= nR nd).
(** the node is beyond t *)
Definition passed (nd : node) (t : tinfo) : Prop :=
  ti_h t < nH nd \/ (ti_h t = nH nd /\ (ti_r t < nR nd \/ (ti_r t = nR nd /\ ti_s t < nS nd))).

Record Inv (c : scfg) (nd : node) : Prop := {
  i_S : 1 <= nS nd <= 8;
  i_R : 1 <= nR nd;
  i_pend : pending (nTk nd) = None \/ pending (nTk nd) = Some (last (nTk nd));
  i_shape : shape (last (nTk nd));
  i_le : le_hr (last (nTk nd)) nd;
  i_tocks : Forall (fun t => shape t /\ le_hr t nd) (nTocks nd);
  (* the remembered timeout is pending, or in flight, or the node has moved beyond it *)
  i_cover : pending (nTk nd) = Some (last (nTk nd)) \/ In (last (nTk nd)) (nTocks nd) \/ passed nd (last (nTk nd));
  (* once PrecommitWait was entered in this round, its timeout is the remembered one *)
  i_trig : nTrig nd = true -> nS nd < 8 ->
           ti_h (last (nTk nd)) = nH nd /\ ti_r (last (nTk nd)) = nR nd /\ ti_s (last (nTk nd)) = 7;
  (* in a waiting step the remembered timeout is for this height and round and not for an earlier step *)
  i_wait : (nS nd = 1 \/ nS nd = 3 \/ nS nd = 5 \/ (nS nd = 2 /\ interval_pos c = true /\ nR nd = 1)) ->
           ti_h (last (nTk nd)) = nH nd /\ ti_r (last (nTk nd)) = nR nd /\ nS nd <= ti_s (last (nTk nd))
}.

(** step NewRound is a resting state only in round 1 of a node that waits for transactions *)
Definition Rest2 (c : scfg) (nd : node) : Prop := nS nd = 2 -> nR nd = 1 /\ wait_for_txs c = true.

(* ------------------------------------------------------------------ *)
(** * the ticker under a request *)

Lemma sched_cases k t : 0 < ti_s (last k) ->
  (lt3 (last k) t /\ fst (step k (Schedule t)) = {| last := t; pending := Some t |}) \/
  (~ lt3 (last k) t /\ fst (step k (Schedule t)) = k).
Proof.
  intros Hp. cbn [step]. destruct (accepts (last k) t) eqn:E; cbn [fst].
  - left. split; [apply (accepts_iff (last k) t Hp); exact E|reflexivity].
  - right. split; [|reflexivity]. intros Hlt. apply (accepts_iff (last k) t Hp) in Hlt. congruence.
Qed.

Lemma shape_pos t : shape t -> 0 < ti_s t.
Proof. unfold shape. lia. Qed.

(* ------------------------------------------------------------------ *)
(** * the two generic moves *)

(** a move of (round, step) that does not go backwards, together with a request for this height *)
Lemma inv_sched c nd nd' q :
  Inv c nd ->
  nH nd' = nH nd -> nTocks nd' = nTocks nd ->
  nTk nd' = fst (step (nTk nd) (Schedule (mk_ti (nH nd) (nR nd') q))) ->
  (nR nd < nR nd' \/ (nR nd = nR nd' /\ nS nd <= nS nd')) -> 1 <= nS nd' <= 8 ->
  (q = 2 \/ q = 3 \/ q = 5 \/ q = 7) -> (q <= 2 -> nR nd' = 1) ->
  (nS nd <= q \/ nS nd' = nS nd) ->
  ((nS nd' = 1 \/ nS nd' = 3 \/ nS nd' = 5 \/ (nS nd' = 2 /\ interval_pos c = true /\ nR nd' = 1)) -> nS nd' <= q) ->
  (nTrig nd' = true -> nS nd' < 8 -> q = 7 \/ (nTrig nd = true /\ nR nd = nR nd')) ->
  Inv c nd'.
Proof.
  intros [HS HR Hpend Hshape Hle Htocks Hcover Htrig Hwait] EH Etocks Etk Hmove HS' Hq Hq2 Href Hwc Htr.
  destruct (sched_cases (nTk nd) (mk_ti (nH nd) (nR nd') q) (shape_pos _ Hshape)) as [[Hlt E]|[Hnlt E]];
    rewrite E in Etk.
  - (* accepted *)
    constructor; rewrite ?Etk, ?EH, ?Etocks; cbn [last pending mk_ti ti_h ti_r ti_s].
    + exact HS'.
    + lia.
    + right. reflexivity.
    + unfold shape. cbn [mk_ti ti_h ti_r ti_s]. lia.
    + unfold le_hr. cbn [mk_ti ti_h ti_r ti_s]. rewrite EH. lia.
    + eapply Forall_impl; [|exact Htocks]. intros t [Hs Hl]. split; [exact Hs|]. unfold le_hr in *. rewrite EH. lia.
    + left. reflexivity.
    + intros Ht Hs8. destruct (Htr Ht Hs8) as [->|[Ht0 ER]]; [lia|].
      exfalso. assert (Hs : nS nd < 8) by lia. destruct (Htrig Ht0 Hs) as [H1 [H2 H3]].
      unfold lt3 in Hlt. cbn [mk_ti ti_h ti_r ti_s] in Hlt. lia.
    + intros Hw. specialize (Hwc Hw). lia.
  - (* refused: the remembered timeout is for this height and round and at least as late *)
    apply not_lt3_le3 in Hnlt. unfold le3, lt3, eq3 in Hnlt. cbn [mk_ti ti_h ti_r ti_s] in Hnlt.
    unfold le_hr in Hle.
    assert (Eh : ti_h (last (nTk nd)) = nH nd) by lia.
    assert (Er : ti_r (last (nTk nd)) = nR nd /\ nR nd' = nR nd) by lia. destruct Er as [Er ER].
    assert (Es : q <= ti_s (last (nTk nd))) by lia.
    constructor; rewrite ?Etk, ?EH, ?Etocks.
    + exact HS'.
    + lia.
    + exact Hpend.
    + exact Hshape.
    + unfold le_hr. rewrite EH. lia.
    + eapply Forall_impl; [|exact Htocks]. intros t [Hs Hl]. split; [exact Hs|]. unfold le_hr in *. rewrite EH. lia.
    + destruct Hcover as [H|[H|H]]; [left; exact H|right; left; exact H|]. right. right.
      unfold passed in *. rewrite EH. lia.
    + intros Ht Hs8. destruct (Htr Ht Hs8) as [->|[Ht0 _]].
      * unfold shape in Hshape. lia.
      * assert (Hs : nS nd < 8) by lia. destruct (Htrig Ht0 Hs) as [H1 [H2 H3]]. lia.
    + intros Hw. specialize (Hwc Hw). lia.
Qed.

(** a move of (round, step) that does not go backwards, to a step that does not wait, without a request *)
Lemma inv_move c nd nd' :
  Inv c nd ->
  nH nd' = nH nd -> nTocks nd' = nTocks nd -> nTk nd' = nTk nd ->
  (nR nd < nR nd' \/ (nR nd = nR nd' /\ nS nd <= nS nd')) -> 1 <= nS nd' <= 8 ->
  ~ (nS nd' = 1 \/ nS nd' = 3 \/ nS nd' = 5 \/ (nS nd' = 2 /\ interval_pos c = true /\ nR nd' = 1)) ->
  (nTrig nd' = true -> nS nd' < 8 -> nTrig nd = true /\ nR nd = nR nd') ->
  Inv c nd'.
Proof.
  intros [HS HR Hpend Hshape Hle Htocks Hcover Htrig Hwait] EH Etocks Etk Hmove HS' Hnw Htr.
  constructor; rewrite ?Etk, ?EH, ?Etocks.
  - exact HS'.
  - lia.
  - exact Hpend.
  - exact Hshape.
  - unfold le_hr in *. rewrite EH. lia.
  - eapply Forall_impl; [|exact Htocks]. intros t [Hs Hl]. split; [exact Hs|]. unfold le_hr in *. rewrite EH. lia.
  - destruct Hcover as [H|[H|H]]; [left; exact H|right; left; exact H|]. right. right. unfold passed in *. rewrite EH. lia.
  - intros Ht Hs8. destruct (Htr Ht Hs8) as [Ht0 ER]. assert (Hs : nS nd < 8) by lia.
    destruct (Htrig Ht0 Hs) as [H1 [H2 H3]]. lia.
  - intros Hw. contradiction.
Qed.

(* ------------------------------------------------------------------ *)
(** * the enter functions *)

Lemma enter_prevote_inv c nd h r :
  Inv c nd -> (h = nH nd -> r <= nR nd) -> Inv c (enter_prevote nd h r).
Proof.
  intros HI Hpre. unfold enter_prevote, g_step. pose proof (i_S _ _ HI) as HS. usteps.
  nb; try exact HI; try (exfalso; lia).
  apply (inv_move c nd _ HI); cbn [set_rs nH nR nS nTrig nTk nTocks]; try reflexivity; try lia.
  intros Ht _. split; [exact Ht|lia].
Qed.

Lemma enter_precommit_inv c nd h r :
  Inv c nd -> (h = nH nd -> r <= nR nd) -> Inv c (enter_precommit nd h r).
Proof.
  intros HI Hpre. unfold enter_precommit, g_step. pose proof (i_S _ _ HI) as HS. usteps.
  nb; try exact HI; try (exfalso; lia).
  apply (inv_move c nd _ HI); cbn [set_rs nH nR nS nTrig nTk nTocks]; try reflexivity; try lia.
  intros Ht _. split; [exact Ht|lia].
Qed.

Lemma enter_prevote_wait_inv c nd h r :
  Inv c nd -> (h = nH nd -> r <= nR nd) -> Inv c (enter_prevote_wait nd h r).
Proof.
  intros HI Hpre. unfold enter_prevote_wait, g_step. pose proof (i_S _ _ HI) as HS. usteps.
  nb; try exact HI; try (exfalso; lia).
  apply (inv_sched c nd _ 5 HI); cbn [set_rs schedule nH nR nS nTrig nTk nTocks]; try reflexivity; try lia.
  - subst h. reflexivity.
  - intros Ht _. right. split; [exact Ht|lia].
Qed.

Lemma enter_precommit_wait_inv c nd h r :
  Inv c nd -> Inv c (enter_precommit_wait nd h r).
Proof.
  intros HI. unfold enter_precommit_wait, g_precommit_wait. pose proof (i_S _ _ HI) as HS. usteps.
  destruct (nTrig nd) eqn:Et; nb; try exact HI; try (exfalso; lia).
  apply (inv_sched c nd _ 7 HI); cbn [set_rs set_trig schedule nH nR nS nTrig nTk nTocks]; try reflexivity; try lia.
  subst h r. reflexivity.
Qed.

Lemma enter_propose_inv c nd h r cp :
  Inv c nd -> (h = nH nd -> r <= nR nd) -> Inv c (enter_propose nd h r cp).
Proof.
  intros HI Hpre. unfold enter_propose, g_step. pose proof (i_S _ _ HI) as HS. usteps.
  nb; try exact HI; try (exfalso; lia).
  assert (H1 : Inv c (set_rs (schedule nd h r 3) r 3)).
  { apply (inv_sched c nd _ 3 HI); cbn [set_rs schedule nH nR nS nTrig nTk nTocks]; try reflexivity; try lia.
    - subst h. reflexivity.
    - intros Ht _. right. split; [exact Ht|lia]. }
  destruct cp; [|exact H1].
  apply enter_prevote_inv; [exact H1|]. cbn [set_rs schedule nH nR nS]. lia.
Qed.

Lemma interval_wait c : interval_pos c = true -> wait_for_txs c = true.
Proof. unfold wait_for_txs. intros ->. apply orb_true_r. Qed.

Lemma enter_new_round_inv c nd h r cp :
  Inv c nd -> Inv c (enter_new_round c nd h r cp).
Proof.
  intros HI. unfold enter_new_round, g_new_round. pose proof (i_S _ _ HI) as HS. pose proof (i_R _ _ HI) as HR. usteps.
  destruct (N.eqb_spec (nH nd) h) as [EH|]; cbn [negb orb]; [|exact HI].
  destruct (N.ltb_spec r (nR nd)) as [|Hr]; cbn [orb]; [exact HI|].
  destruct (N.eqb_spec (nR nd) r) as [ER|NR]; cbn [andb orb].
  - destruct (N.eqb_spec (nS nd) 1) as [ES|]; cbn [negb]; [|exact HI].
    (* from NewHeight into the same round *)
    destruct (wait_for_txs c && (r =? 1)) eqn:Ew.
    + apply andb_true_iff in Ew. destruct Ew as [Ew Er1]. apply N.eqb_eq in Er1.
      destruct (interval_pos c) eqn:Ei.
      * apply (inv_sched c nd _ 2 HI); cbn [set_rs set_trig schedule nH nR nS nTrig nTk nTocks]; try reflexivity; try lia;
          try (intros Ht; discriminate Ht).
        subst h. reflexivity.
      * apply (inv_move c nd _ HI); cbn [set_rs set_trig schedule nH nR nS nTrig nTk nTocks]; try reflexivity; try lia;
          try (intros Ht; discriminate Ht).
        intros [H|[H|[H|[_ [H _]]]]]; try lia. rewrite Ei in H. discriminate.
    + apply enter_propose_inv; [|cbn [set_rs set_trig nH nR nS]; lia].
      apply (inv_move c nd _ HI); cbn [set_rs set_trig schedule nH nR nS nTrig nTk nTocks]; try reflexivity; try lia;
        try (intros Ht; discriminate Ht).
      intros [H|[H|[H|[_ [Hi H1]]]]]; try lia. rewrite (interval_wait c Hi) in Ew. subst r.
      rewrite H1 in Ew. cbn in Ew. discriminate.
  - (* into a later round *)
    destruct (wait_for_txs c && (r =? 1)) eqn:Ew.
    + apply andb_true_iff in Ew. destruct Ew as [_ Er1]. apply N.eqb_eq in Er1. lia.
    + apply enter_propose_inv; [|cbn [set_rs set_trig nH nR nS]; lia].
      apply (inv_move c nd _ HI); cbn [set_rs set_trig schedule nH nR nS nTrig nTk nTocks]; try reflexivity; try lia;
        try (intros Ht; discriminate Ht).
Qed.

Lemma finalize_inv c nd : Inv c nd -> Inv c (finalize nd).
Proof.
  intros HI. unfold finalize. usteps. destruct (N.eqb_spec (nS nd) 8) as [ES|]; [|exact HI].
  destruct HI as [HS HR Hpend Hshape Hle Htocks Hcover Htrig Hwait].
  destruct (sched_cases (nTk nd) (mk_ti (nH nd + 1) 1 1) (shape_pos _ Hshape)) as [[Hlt E]|[Hnlt E]].
  - constructor; unfold le_hr, passed, shape in *; cbn [schedule nH nR nS nTrig nTk nTocks]; rewrite ?E;
      cbn [last pending mk_ti ti_h ti_r ti_s]; try lia; try (intros Ht; discriminate Ht).
    + right; reflexivity.
    + eapply Forall_impl; [|exact Htocks]. cbn beta. intros t [Hs Hl]. split; [exact Hs|]. lia.
    + left; reflexivity.
  - exfalso. apply Hnlt. unfold lt3, le_hr in *. cbn [mk_ti ti_h ti_r ti_s]. lia.
Qed.

Lemma enter_commit_inv c nd h hb : Inv c nd -> Inv c (enter_commit nd h hb).
Proof.
  intros HI. unfold enter_commit, g_commit. pose proof (i_S _ _ HI) as HS. usteps.
  nb; try exact HI; try (exfalso; lia).
  assert (H1 : Inv c (set_rs nd (nR nd) 8)).
  { apply (inv_move c nd _ HI); cbn [set_rs nH nR nS nTrig nTk nTocks]; try reflexivity; try lia. }
  destruct hb; [apply finalize_inv; exact H1|exact H1].
Qed.

(** what the enter functions do to height and round *)
Ltac crunch :=
  repeat (cbn [set_rs set_trig schedule nH nR nS nTrig nTocks negb orb andb] in *; nb1);
  cbn [set_rs set_trig schedule nH nR nS nTrig nTocks negb orb andb] in *.

Lemma enter_prevote_hr nd h r :
  nH (enter_prevote nd h r) = nH nd /\ nTocks (enter_prevote nd h r) = nTocks nd /\
  (nR (enter_prevote nd h r) = nR nd \/ (h = nH nd /\ nR (enter_prevote nd h r) = r /\ nR nd <= r)).
Proof. unfold enter_prevote, g_step. crunch; repeat split; try reflexivity; lia. Qed.

Lemma enter_propose_hr nd h r cp :
  nH (enter_propose nd h r cp) = nH nd /\ nTocks (enter_propose nd h r cp) = nTocks nd /\
  (nR (enter_propose nd h r cp) = nR nd \/ (h = nH nd /\ nR (enter_propose nd h r cp) = r /\ nR nd <= r)).
Proof. unfold enter_propose, enter_prevote, g_step. destruct cp; crunch; repeat split; try reflexivity; lia. Qed.

Lemma enter_new_round_hr c nd h r cp :
  nH (enter_new_round c nd h r cp) = nH nd /\ nTocks (enter_new_round c nd h r cp) = nTocks nd /\
  (h = nH nd -> r <= nR (enter_new_round c nd h r cp)).
Proof.
  unfold enter_new_round, g_new_round, enter_propose, enter_prevote, g_step.
  destruct cp, (wait_for_txs c), (interval_pos c); crunch; repeat split; try reflexivity; lia.
Qed.

Lemma enter_precommit_hr nd h r :
  nH (enter_precommit nd h r) = nH nd /\ nTocks (enter_precommit nd h r) = nTocks nd.
Proof. unfold enter_precommit. destruct (g_step _ _ _ _ _ _); split; reflexivity. Qed.

(* ------------------------------------------------------------------ *)
(** * handleTimeout *)

Lemma handle_timeout_inv c nd t cp :
  Inv c nd -> le_hr t nd -> Inv c (handle_timeout c nd t cp).
Proof.
  intros HI Hle. unfold handle_timeout. pose proof (i_R _ _ HI) as HR.
  destruct (g_timeout_stale _ _ _ _ _ _); [exact HI|].
  assert (Hpre : ti_h t = nH nd -> ti_r t <= nR nd) by (unfold le_hr in Hle; lia).
  destruct (ti_s t =? sNewHeight); [apply enter_new_round_inv; exact HI|].
  destruct (ti_s t =? sNewRound); [apply enter_propose_inv; [exact HI|lia]|].
  destruct (ti_s t =? sPropose); [apply enter_prevote_inv; assumption|].
  destruct (ti_s t =? sPrevoteWait); [apply enter_precommit_inv; assumption|].
  destruct (ti_s t =? sPrecommitWait); [|exact HI].
  apply enter_new_round_inv. apply enter_precommit_inv; assumption.
Qed.

Lemma handle_timeout_tocks c nd t cp : nTocks (handle_timeout c nd t cp) = nTocks nd.
Proof.
  unfold handle_timeout. destruct (g_timeout_stale _ _ _ _ _ _); [reflexivity|].
  destruct (ti_s t =? sNewHeight); [apply enter_new_round_hr|].
  destruct (ti_s t =? sNewRound); [apply enter_propose_hr|].
  destruct (ti_s t =? sPropose); [apply enter_prevote_hr|].
  destruct (ti_s t =? sPrevoteWait); [apply enter_precommit_hr|].
  destruct (ti_s t =? sPrecommitWait); [|reflexivity].
  destruct (enter_new_round_hr c (enter_precommit nd (ti_h t) (ti_r t)) (ti_h t) (ti_r t + 1) cp) as [_ [H _]].
  rewrite H. apply enter_precommit_hr.
Qed.

(** a stale timeout is ignored *)
Lemma handle_stale_noop c nd t cp : ~ live nd t -> 1 <= nS nd -> handle_timeout c nd t cp = nd.
Proof.
  intros Hn HS. unfold handle_timeout, g_timeout_stale. unfold live in Hn. nb; try reflexivity; exfalso; apply Hn; lia.
Qed.

(** (height, round, step) of the node after a live timeout of the shapes the state machine requests *)
Lemma handle_live c nd t cp :
  shape t -> le_hr t nd -> 1 <= nS nd -> 1 <= nR nd -> live nd t ->
  st_lt nd (handle_timeout c nd t cp) /\ passed (handle_timeout c nd t cp) t.
Proof.
  intros Hsh Hle HS HR Hlive. unfold shape in Hsh. unfold le_hr in Hle. unfold live in Hlive.
  assert (Eh : ti_h t = nH nd) by lia. assert (Er : ti_r t = nR nd) by lia. assert (Es : nS nd <= ti_s t) by lia.
  unfold handle_timeout, g_timeout_stale. rewrite Eh, Er, !N.eqb_refl, N.ltb_irrefl. cbn [negb orb andb].
  destruct (N.ltb_spec (ti_s t) (nS nd)) as [|_]; [lia|].
  unfold st_lt, passed. rewrite Eh, Er. usteps.
  destruct (N.eqb_spec (ti_s t) 1) as [E1|N1].
  { assert (nR nd = 1) by lia. assert (nS nd = 1) by lia.
    unfold enter_new_round, g_new_round, enter_propose, g_step, enter_prevote, g_step. usteps.
    rewrite E1. nb; try lia;
      repeat match goal with |- context [if ?b then _ else _] => destruct b end;
      cbn [set_rs set_trig schedule nH nR nS]; nb; cbn [set_rs set_trig schedule nH nR nS]; lia. }
  destruct (N.eqb_spec (ti_s t) 2) as [E2|N2].
  { assert (nR nd = 1) by lia.
    unfold enter_propose, g_step, enter_prevote, g_step. usteps.
    rewrite E2. nb; try lia;
      repeat match goal with |- context [if ?b then _ else _] => destruct b end;
      cbn [set_rs set_trig schedule nH nR nS]; nb; cbn [set_rs set_trig schedule nH nR nS]; lia. }
  destruct (N.eqb_spec (ti_s t) 3) as [E3|N3].
  { unfold enter_prevote, g_step. usteps. rewrite E3. nb; cbn [set_rs nH nR nS]; lia. }
  destruct (N.eqb_spec (ti_s t) 5) as [E5|N5].
  { unfold enter_precommit, g_step. usteps. rewrite E5. nb; cbn [set_rs nH nR nS]; lia. }
  destruct (N.eqb_spec (ti_s t) 7) as [E7|N7]; [|lia].
  destruct (enter_precommit_hr nd (nH nd) (nR nd)) as [HH _].
  assert (HRp : nR (enter_precommit nd (nH nd) (nR nd)) = nR nd).
  { unfold enter_precommit. destruct (g_step _ _ _ _ _ _); reflexivity. }
  assert (HSp : 1 <= nS (enter_precommit nd (nH nd) (nR nd))).
  { unfold enter_precommit. destruct (g_step _ _ _ _ _ _); cbn [set_rs nS]; usteps; lia. }
  set (nd1 := enter_precommit nd (nH nd) (nR nd)) in *.
  destruct (enter_new_round_hr c nd1 (nH nd) (nR nd + 1) cp) as [H1 [_ H3]].
  rewrite H1, HH. specialize (H3 (eq_sym HH)). rewrite E7. lia.
Qed.

(* ------------------------------------------------------------------ *)
(** * the events *)

Lemma in_remove_nth {A} (x t : A) : forall l k, In x l -> nth_error l k = Some t -> x = t \/ In x (remove_nth k l).
Proof.
  induction l as [|y l IH]; intros k Hin Hk; [destruct Hin|].
  destruct k as [|k]; cbn [nth_error remove_nth] in *.
  - inversion Hk; subst. destruct Hin as [->|Hin]; [left; reflexivity|right; exact Hin].
  - destruct Hin as [->|Hin]; [right; left; reflexivity|].
    destruct (IH k Hin Hk) as [->|H]; [left; reflexivity|right; right; exact H].
Qed.

Lemma forall_remove_nth {A} (P : A -> Prop) : forall l k, Forall P l -> Forall P (remove_nth k l).
Proof.
  induction l as [|y l IH]; intros k H; [destruct k; constructor|].
  inversion H; subst. destruct k; cbn [remove_nth]; [assumption|constructor; auto].
Qed.

Lemma nth_error_forall {A} (P : A -> Prop) l k t : Forall P l -> nth_error l k = Some t -> P t.
Proof. intros H Hk. rewrite Forall_forall in H. apply H. eapply nth_error_In; exact Hk. Qed.

Lemma apply_inv c nd e : Inv c nd -> Inv c (apply c nd e).
Proof.
  intros HI. pose proof (i_R _ _ HI) as HR.
  destruct e as [|k cp|vr maj gopc any polcase cp|vr maj nonnil any hasall hb cp|hasall cp|cp has23 hb]; cbn [apply].
  - (* the timer fires *)
    destruct (pending (nTk nd)) as [t|] eqn:Ep; [|exact HI].
    destruct HI as [HS HR' Hpend Hshape Hle Htocks Hcover Htrig Hwait].
    assert (Et : t = last (nTk nd)).
    { destruct Hpend as [H|H]; rewrite H in Ep; [discriminate|inversion Ep; reflexivity]. }
    subst t. cbn [step]. rewrite Ep. cbn [fst].
    constructor; cbn [nH nR nS nTrig nTk nTocks last pending]; try assumption.
    + left; reflexivity.
    + apply Forall_app. split; [exact Htocks|]. constructor; [split; assumption|constructor].
    + right. left. apply in_or_app. right. left. reflexivity.
  - (* a timeout in flight is handled *)
    destruct (nth_error (nTocks nd) k) as [t|] eqn:Ek; [|exact HI].
    destruct (nth_error_forall _ _ _ _ (i_tocks _ _ HI) Ek) as [Hsh Hle].
    pose proof (handle_timeout_inv c nd t cp HI Hle) as H1.
    pose proof (handle_timeout_tocks c nd t cp) as Etk.
    assert (Hpass : passed (handle_timeout c nd t cp) t).
    { destruct (i_S _ _ HI) as [HS _].
      destruct (N.eq_dec (ti_h t) (nH nd)) as [Eh|Nh].
      - destruct (N.lt_ge_cases (ti_r t) (nR nd)) as [Hr|Hr].
        + rewrite handle_stale_noop; [|unfold live, le_hr in *; lia|exact HS]. unfold passed. lia.
        + destruct (N.lt_ge_cases (ti_s t) (nS nd)) as [Hs|Hs].
          * rewrite handle_stale_noop; [|unfold live, le_hr in *; lia|exact HS]. unfold passed, le_hr in *. lia.
          * apply handle_live; try assumption. unfold live, le_hr in *. lia.
      - rewrite handle_stale_noop; [|unfold live, le_hr in *; lia|exact HS]. unfold passed, le_hr in *. lia. }
    set (nd1 := handle_timeout c nd t cp) in *.
    destruct H1 as [HS HR' Hpend Hshape Hle1 Htocks Hcover Htrig Hwait].
    constructor; cbn [set_tocks nH nR nS nTrig nTk nTocks]; try assumption.
    + apply forall_remove_nth. exact Htocks.
    + destruct Hcover as [H|[H|H]]; [left; exact H| |right; right; exact H].
      rewrite Etk in H. destruct (in_remove_nth _ _ _ _ H Ek) as [E|Hin].
      * right. right. rewrite E. exact Hpass.
      * right. left. rewrite Etk. exact Hin.
  - (* a prevote *)
    destruct (nS nd =? sCommit); [exact HI|].
    destruct ((nR nd <? vr) && any); [apply enter_new_round_inv; exact HI|].
    destruct (N.eqb_spec (nR nd) vr) as [ER|]; cbn [andb].
    + destruct (sPrevote <=? nS nd).
      * destruct (maj && gopc); [apply enter_precommit_inv; [exact HI|lia]|].
        destruct any; [apply enter_prevote_wait_inv; [exact HI|lia]|exact HI].
      * destruct (polcase && cp); [apply enter_prevote_inv; [exact HI|lia]|exact HI].
    + destruct (polcase && cp); [apply enter_prevote_inv; [exact HI|lia]|exact HI].
  - (* a precommit *)
    destruct (nS nd =? sCommit); [exact HI|].
    destruct maj.
    + pose proof (enter_new_round_inv c nd (nH nd) vr cp HI) as H1.
      destruct (enter_new_round_hr c nd (nH nd) vr cp) as [EH1 [_ Hr1]]. specialize (Hr1 eq_refl).
      set (nd1 := enter_new_round c nd (nH nd) vr cp) in *.
      assert (H2 : Inv c (enter_precommit nd1 (nH nd) vr)) by (apply enter_precommit_inv; [exact H1|intros _; exact Hr1]).
      destruct nonnil.
      * pose proof (enter_commit_inv c _ (nH nd) hb H2) as H3.
        destruct (skip_commit c && hasall); [apply enter_new_round_inv; exact H3|exact H3].
      * apply enter_precommit_wait_inv. exact H2.
    + destruct ((nR nd <=? vr) && any); [|exact HI].
      apply enter_precommit_wait_inv. apply enter_new_round_inv. exact HI.
  - (* a precommit of the previous height *)
    destruct ((nS nd =? sNewHeight) && skip_commit c && hasall); [apply enter_new_round_inv; exact HI|exact HI].
  - (* the proposal block is complete *)
    destruct ((nS nd <=? sPropose) && cp).
    + pose proof (enter_prevote_inv c nd (nH nd) (nR nd) HI ltac:(lia)) as H1.
      destruct has23; [|exact H1]. apply enter_precommit_inv; [exact H1|].
      destruct (enter_prevote_hr nd (nH nd) (nR nd)) as [_ [_ [H|[_ [H _]]]]]; rewrite H; lia.
    + destruct (nS nd =? sCommit); [|exact HI]. destruct hb; [apply finalize_inv; exact HI|exact HI].
Qed.

Lemma init_inv c h0 : 1 <= h0 -> Inv c (init_node h0).
Proof.
  intros Hh. unfold init_node, schedule. cbn [nH nR nS nTrig nTk nTocks].
  assert (E : fst (step init (Schedule (mk_ti h0 1 sNewHeight))) = {| last := mk_ti h0 1 1; pending := Some (mk_ti h0 1 1) |}).
  { cbn [step init last]. unfold accepts, empty_ti, mk_ti, sNewHeight. cbn [ti_h ti_r ti_s].
    destruct (N.ltb_spec h0 0); [lia|]. destruct (N.eqb_spec h0 0); [lia|]. reflexivity. }
  rewrite E. usteps.
  constructor; unfold shape, le_hr, passed; cbn [nH nR nS nTrig nTk nTocks last pending mk_ti ti_h ti_r ti_s]; try lia;
    try (intros Ht; discriminate Ht).
  - right; reflexivity.
  - constructor.
  - left; reflexivity.
Qed.

Lemma run_inv c : forall evs nd, Inv c nd -> Inv c (run_node c nd evs).
Proof.
  induction evs as [|e evs IH]; intros nd HI; cbn [run_node fold_left]; [exact HI|].
  apply IH. apply apply_inv. exact HI.
Qed.

(* ------------------------------------------------------------------ *)
(** * step NewRound is a resting state only while waiting for transactions in round 1 *)

Lemma rest2_prevote c nd h r : Rest2 c nd -> Rest2 c (enter_prevote nd h r).
Proof. unfold Rest2, enter_prevote. destruct (g_step _ _ _ _ _ _); [auto|]. cbn [set_rs nS]. usteps. lia. Qed.
Lemma rest2_precommit c nd h r : Rest2 c nd -> Rest2 c (enter_precommit nd h r).
Proof. unfold Rest2, enter_precommit. destruct (g_step _ _ _ _ _ _); [auto|]. cbn [set_rs nS]. usteps. lia. Qed.
Lemma rest2_prevote_wait c nd h r : Rest2 c nd -> Rest2 c (enter_prevote_wait nd h r).
Proof. unfold Rest2, enter_prevote_wait. destruct (g_step _ _ _ _ _ _); [auto|]. cbn [set_rs nS]. usteps. lia. Qed.
Lemma rest2_precommit_wait c nd h r : Rest2 c nd -> Rest2 c (enter_precommit_wait nd h r).
Proof. unfold Rest2, enter_precommit_wait. destruct (g_precommit_wait _ _ _ _ _); auto. Qed.
Lemma rest2_finalize c nd : Rest2 c nd -> Rest2 c (finalize nd).
Proof. unfold Rest2, finalize. destruct (nS nd =? sCommit); [|auto]. cbn [schedule nS]. usteps. lia. Qed.
Lemma rest2_commit c nd h hb : Rest2 c nd -> Rest2 c (enter_commit nd h hb).
Proof.
  intros H. unfold enter_commit. destruct (g_commit _ _ _); [exact H|].
  destruct hb; [apply rest2_finalize|]; unfold Rest2; cbn [set_rs nS]; usteps; lia.
Qed.
Lemma rest2_propose c nd h r cp : Rest2 c nd -> Rest2 c (enter_propose nd h r cp).
Proof.
  intros H. unfold enter_propose. destruct (g_step _ _ _ _ _ _); [exact H|].
  destruct cp; [apply rest2_prevote|]; unfold Rest2; cbn [set_rs schedule nS]; usteps; lia.
Qed.
(** enterPropose called by enterNewRound right after updateRoundStep(round, NewRound) always enters *)
Lemma propose_after_new_round nd r cp tr :
  3 <= nS (enter_propose (set_trig (set_rs nd r sNewRound) tr) (nH nd) r cp).
Proof.
  unfold enter_propose, enter_prevote, g_step. usteps. destruct cp; crunch; lia.
Qed.
Lemma rest2_new_round c nd h r cp : Rest2 c nd -> Rest2 c (enter_new_round c nd h r cp).
Proof.
  intros H. unfold enter_new_round, g_new_round.
  destruct (N.eqb_spec (nH nd) h) as [EH|]; cbn [negb orb]; [|exact H].
  destruct ((r <? nR nd) || (nR nd =? r) && negb (nS nd =? sNewHeight)); [exact H|].
  destruct (wait_for_txs c && (r =? 1)) eqn:Ew.
  - apply andb_true_iff in Ew. destruct Ew as [Ew Er]. apply N.eqb_eq in Er.
    destruct (interval_pos c); unfold Rest2; cbn [set_rs set_trig schedule nS nR]; intros _; split; assumption.
  - subst h. pose proof (propose_after_new_round nd r cp false) as H3. unfold Rest2. lia.
Qed.

Lemma handle_timeout_rest2 c nd t cp : Rest2 c nd -> Rest2 c (handle_timeout c nd t cp).
Proof.
  intros H. unfold handle_timeout. destruct (g_timeout_stale _ _ _ _ _ _); [exact H|].
  destruct (ti_s t =? sNewHeight); [apply rest2_new_round; exact H|].
  destruct (ti_s t =? sNewRound); [apply rest2_propose; exact H|].
  destruct (ti_s t =? sPropose); [apply rest2_prevote; exact H|].
  destruct (ti_s t =? sPrevoteWait); [apply rest2_precommit; exact H|].
  destruct (ti_s t =? sPrecommitWait); [|exact H].
  apply rest2_new_round. apply rest2_precommit. exact H.
Qed.

Lemma apply_rest2 c nd e : Rest2 c nd -> Rest2 c (apply c nd e).
Proof.
  intros H.
  destruct e as [|k cp|vr maj gopc any polcase cp|vr maj nonnil any hasall hb cp|hasall cp|cp has23 hb]; cbn [apply].
  - destruct (pending (nTk nd)); exact H.
  - destruct (nth_error (nTocks nd) k); [|exact H].
    pose proof (handle_timeout_rest2 c nd t cp H) as H1. unfold Rest2 in *. cbn [set_tocks nS nR]. exact H1.
  - destruct (nS nd =? sCommit); [exact H|].
    destruct ((nR nd <? vr) && any); [apply rest2_new_round; exact H|].
    destruct ((nR nd =? vr) && (sPrevote <=? nS nd)).
    + destruct (maj && gopc); [apply rest2_precommit; exact H|].
      destruct any; [apply rest2_prevote_wait; exact H|exact H].
    + destruct (polcase && cp); [apply rest2_prevote; exact H|exact H].
  - destruct (nS nd =? sCommit); [exact H|].
    destruct maj.
    + destruct nonnil.
      * destruct (skip_commit c && hasall); [apply rest2_new_round|]; apply rest2_commit; apply rest2_precommit;
          apply rest2_new_round; exact H.
      * apply rest2_precommit_wait. apply rest2_precommit. apply rest2_new_round. exact H.
    + destruct ((nR nd <=? vr) && any); [|exact H]. apply rest2_precommit_wait. apply rest2_new_round. exact H.
  - destruct ((nS nd =? sNewHeight) && skip_commit c && hasall); [apply rest2_new_round; exact H|exact H].
  - destruct ((nS nd <=? sPropose) && cp).
    + destruct has23; [apply rest2_precommit|]; apply rest2_prevote; exact H.
    + destruct (nS nd =? sCommit); [|exact H]. destruct hb; [apply rest2_finalize; exact H|exact H].
Qed.

Lemma init_rest2 c h0 : Rest2 c (init_node h0).
Proof. unfold Rest2, init_node. cbn [schedule nS]. usteps. lia. Qed.

Lemma run_rest2 c : forall evs nd, Rest2 c nd -> Rest2 c (run_node c nd evs).
Proof.
  induction evs as [|e evs IH]; intros nd H; cbn [run_node fold_left]; [exact H|].
  apply IH. apply apply_rest2. exact H.
Qed.

(* ------------------------------------------------------------------ *)
(** * the theorems *)

(** in a waiting state a timeout that handleTimeout accepts is pending or in flight *)
Lemma wake c nd :
  Inv c nd -> Rest2 c nd -> waiting c nd ->
  exists t, (pending (nTk nd) = Some t \/ In t (nTocks nd)) /\ live nd t.
Proof.
  intros [HS HR Hpend Hshape Hle Htocks Hcover Htrig Hwait] H2 Hw.
  exists (last (nTk nd)). unfold waiting, live, passed, Rest2 in *. usteps.
  assert (Hl : ti_h (last (nTk nd)) = nH nd /\ ti_r (last (nTk nd)) = nR nd /\ nS nd <= ti_s (last (nTk nd))).
  { destruct Hw as [Hw|[Hw|[Hw|[[Hw Hi]|[Ht Hs]]]]].
    - apply Hwait. lia.
    - apply Hwait. lia.
    - apply Hwait. lia.
    - apply Hwait. right. right. right. destruct (H2 Hw) as [Hr _]. auto.
    - destruct (Htrig Ht Hs) as [A [B C]]. lia. }
  split; [|lia].
  destruct Hcover as [H|[H|H]]; [left; exact H|right; exact H|lia].
Qed.

(** NO TIMEOUT IS LOST: after any sequence of events of a node started at height h0, if the node is in
    a waiting state then a timeout is pending in its ticker or in flight to its receive routine that
    handleTimeout will not ignore *)
Theorem timeout_never_lost c h0 evs :
  1 <= h0 ->
  let nd := run_node c (init_node h0) evs in
  waiting c nd -> exists t, (pending (nTk nd) = Some t \/ In t (nTocks nd)) /\ live nd t.
Proof.
  intros Hh nd Hw. apply (wake c nd); [| |exact Hw].
  - apply run_inv. apply init_inv. exact Hh.
  - apply run_rest2. apply init_rest2.
Qed.

(** ... and when that timeout reaches handleTimeout the node moves strictly forward in
    (height, round, step); every timeout in flight or pending has one of the requested shapes, is not
    ahead of the node, and a timeout that is not live changes nothing *)
Theorem timeout_handled_progress c h0 evs t cp :
  1 <= h0 ->
  let nd := run_node c (init_node h0) evs in
  (pending (nTk nd) = Some t \/ In t (nTocks nd)) ->
  (live nd t -> st_lt nd (handle_timeout c nd t cp)) /\
  (~ live nd t -> handle_timeout c nd t cp = nd).
Proof.
  intros Hh nd Hin.
  assert (HI : Inv c nd) by (apply run_inv; apply init_inv; exact Hh).
  assert (Hsl : shape t /\ le_hr t nd).
  { destruct Hin as [Hp|Hin].
    - destruct (i_pend _ _ HI) as [H|H]; rewrite H in Hp; [discriminate|]. inversion Hp; subst t.
      split; [apply (i_shape _ _ HI)|apply (i_le _ _ HI)].
    - pose proof (i_tocks _ _ HI) as Hf. rewrite Forall_forall in Hf. apply Hf. exact Hin. }
  destruct Hsl as [Hsh Hle]. destruct (i_S _ _ HI) as [HS _]. split.
  - intros Hl. apply (handle_live c nd t cp Hsh Hle HS (i_R _ _ HI) Hl).
  - intros Hn. apply handle_stale_noop; assumption.
Qed.

(** step NewRound is a resting state only in round 1 of a node that waits for transactions *)
Theorem new_round_rest c h0 evs :
  let nd := run_node c (init_node h0) evs in nS nd = sNewRound -> nR nd = 1 /\ wait_for_txs c = true.
Proof. intros nd. exact (run_rest2 c evs (init_node h0) (init_rest2 c h0)). Qed.

(** non-vacuity: a node that waits for transactions (interval 35ms): NewHeight timeout, NewRound
    timeout, Propose timeout, +2/3-any prevotes, PrevoteWait timeout, +2/3-any precommits,
    PrecommitWait timeout: round 2, step Propose, the Propose timeout of round 2 pending *)
Example ex_skeleton :
  let c := {| create_empty := true; interval_pos := true; skip_commit := false |} in
  let nd := run_node c (init_node 1)
     [EvFire; EvTock 0 false; EvFire; EvTock 0 false; EvFire; EvTock 0 false;
      EvPrevote 1 false false true false false; EvFire; EvTock 0 false;
      EvPrecommit 1 false false true false false false; EvFire; EvTock 0 false] in
  (nH nd, nR nd, nS nd, nTrig nd, pending (nTk nd)) = (1, 2, 3, false, Some (mk_ti 1 2 3)).
Proof. vm_compute. reflexivity. Qed.
