(** C04 — the weighted median of a commit's timestamps: the claim in the comment of
    cstate.MedianTime ("a faulty process can not arbitrarily increase or decrease the computed
    value") is refuted for the code as it is, and holds (lower bound) for the strict variant. *)
From Coq Require Import List ZArith Bool Lia Sorted.
From Kardia Require Import C04.MedianModel.
Import ListNotations.
Local Open Scope Z_scope.
Ltac Zify.zify_post_hook ::= Z.div_mod_to_equations.

(** witness: four validators of power 1 (total 4); the commit holds three signatures (> 2/3 of 4);
    one signer is faulty (1 < 4/3) and signs the earliest timestamp: the block time is the faulty one *)
Definition witness : list wtime :=
  [ {| wt_time := 100; wt_weight := 1; wt_faulty := false |};
    {| wt_time := 0;   wt_weight := 1; wt_faulty := true |};
    {| wt_time := 101; wt_weight := 1; wt_faulty := false |} ].

Definition faulty_weight (l : list wtime) : Z :=
  fold_right (fun x acc => (if wt_faulty x then wt_weight x else 0) + acc) 0 l.

Lemma median_byzantine_refuted :
  let T := 4 in
  3 * faulty_weight witness < T /\ 2 * T < 3 * total_weight witness /\
  median_time witness = Some 0 /\
  (forall x, In x witness -> wt_faulty x = false -> 0 < wt_time x) /\
  median_time_strict witness = Some 100.
Proof.
  cbv zeta. repeat split; try (vm_compute; reflexivity).
  intros x Hin Hf. unfold witness in Hin. simpl in Hin.
  destruct Hin as [<-|[<-|[<-|[]]]]; simpl in *; try lia; discriminate.
Qed.

(** ---- the strict variant: lower bound ---- *)

Definition le_time (a b : wtime) : Prop := wt_time a <= wt_time b.

Lemma insert_wt_In x l y : In y (insert_wt x l) <-> y = x \/ In y l.
Proof.
  induction l as [|z r IH]; simpl; [intuition|].
  destruct (wt_time x <=? wt_time z); simpl; [intuition|]. rewrite IH. intuition.
Qed.

Lemma insert_wt_sorted x l : StronglySorted le_time l -> StronglySorted le_time (insert_wt x l).
Proof.
  induction 1 as [|z r Hs IH Hall]; simpl; [constructor; constructor|].
  destruct (Z.leb_spec (wt_time x) (wt_time z)) as [H|H].
  - constructor; [constructor; assumption|]. constructor; [exact H|].
    eapply Forall_impl; [|exact Hall]. unfold le_time. intros a Ha. lia.
  - constructor; [exact IH|]. rewrite Forall_forall. intros y Hy. apply insert_wt_In in Hy.
    destruct Hy as [->|Hy]; [unfold le_time; lia|]. rewrite Forall_forall in Hall. apply Hall; assumption.
Qed.

Lemma sort_wt_sorted l : StronglySorted le_time (sort_wt l).
Proof. induction l; simpl; [constructor|apply insert_wt_sorted; assumption]. Qed.

Lemma insert_wt_total x l : total_weight (insert_wt x l) = wt_weight x + total_weight l.
Proof. induction l as [|z r IH]; simpl; [reflexivity|]. destruct (wt_time x <=? wt_time z); simpl; lia. Qed.
Lemma sort_wt_total l : total_weight (sort_wt l) = total_weight l.
Proof. induction l; simpl; [reflexivity|]. rewrite insert_wt_total. lia. Qed.
Lemma insert_wt_faulty x l : faulty_weight (insert_wt x l) = (if wt_faulty x then wt_weight x else 0) + faulty_weight l.
Proof. induction l as [|z r IH]; simpl; [reflexivity|]. destruct (wt_time x <=? wt_time z); simpl; lia. Qed.
Lemma sort_wt_faulty l : faulty_weight (sort_wt l) = faulty_weight l.
Proof. induction l; simpl; [reflexivity|]. rewrite insert_wt_faulty. lia. Qed.
Lemma sort_wt_In l y : In y (sort_wt l) <-> In y l.
Proof. induction l; simpl; [tauto|]. rewrite insert_wt_In, IHl. intuition. Qed.

(** where the strict loop stops, the weight up to and including that entry exceeds the start value *)
Lemma wm_strict_stop : forall l m t,
  wm_loop_strict m l = Some t ->
  exists p e q, l = p ++ e :: q /\ wt_time e = t /\ m < total_weight p + wt_weight e.
Proof.
  induction l as [|x r IH]; intros m t H; simpl in H; [discriminate|].
  destruct (Z.ltb_spec m (wt_weight x)) as [Hlt|Hge].
  - inversion H; subst. exists [], x, r. simpl. repeat split; lia.
  - destruct (IH _ _ H) as [p [e [q [-> [Ht Hm]]]]].
    exists (x :: p), e, q. simpl. repeat split; auto; lia.
Qed.

Lemma sorted_prefix_le : forall p e q, StronglySorted le_time (p ++ e :: q) -> Forall (fun x => le_time x e) p.
Proof.
  induction p as [|a p IH]; intros e q H; simpl in *; [constructor|].
  inversion H as [|? ? Hs Hall]; subst. constructor.
  - rewrite Forall_forall in Hall. apply Hall. apply in_or_app. right. left. reflexivity.
  - eapply IH; eauto.
Qed.

Lemma all_faulty_weight l : Forall (fun x => 0 <= wt_weight x) l ->
  (forall x, In x l -> wt_faulty x = true) -> total_weight l = faulty_weight l.
Proof.
  induction l as [|x r IH]; intros Hw Hf; simpl; [reflexivity|].
  inversion Hw; subst. rewrite (Hf x (or_introl eq_refl)). rewrite IH; auto. intros y Hy. apply Hf. right; exact Hy.
Qed.

Lemma faulty_weight_app a b : faulty_weight (a ++ b) = faulty_weight a + faulty_weight b.
Proof. induction a; simpl; lia. Qed.
Lemma total_weight_app a b : total_weight (a ++ b) = total_weight a + total_weight b.
Proof. induction a; simpl; lia. Qed.
Lemma faulty_weight_nonneg l : Forall (fun x => 0 <= wt_weight x) l -> 0 <= faulty_weight l.
Proof. induction 1 as [|x r Hx Hr IH]; simpl; [lia|]. destruct (wt_faulty x); lia. Qed.

(** with the strict comparison, faulty signers holding less than half of the present power cannot
    pull the block time below every correct timestamp *)
Theorem median_strict_lower_bound present t :
  Forall (fun x => 0 <= wt_weight x) present ->
  2 * faulty_weight present < total_weight present ->
  median_time_strict present = Some t ->
  exists c, In c present /\ wt_faulty c = false /\ wt_time c <= t.
Proof.
  intros Hw Hf Hm. unfold median_time_strict in Hm.
  destruct (wm_strict_stop _ _ _ Hm) as [p [e [q [Hl [Ht Hstop]]]]].
  pose proof (sort_wt_sorted present) as Hs. rewrite Hl in Hs.
  pose proof (sorted_prefix_le p e q Hs) as Hle.
  assert (Hw' : Forall (fun x => 0 <= wt_weight x) (p ++ e :: q)).
  { rewrite <- Hl. rewrite Forall_forall in *. intros x Hx. apply Hw. apply sort_wt_In. exact Hx. }
  (* some entry of p ++ [e] is correct *)
  destruct (existsb (fun x => negb (wt_faulty x)) (p ++ [e])) eqn:Ex.
  - apply existsb_exists in Ex. destruct Ex as [c [Hin Hc]]. apply negb_true_iff in Hc.
    exists c. split; [|split; [exact Hc|]].
    + apply sort_wt_In. rewrite Hl. apply in_app_or in Hin. apply in_or_app.
      destruct Hin as [Hin|[<-|[]]]; [left; exact Hin|right; left; reflexivity].
    + apply in_app_or in Hin. destruct Hin as [Hin|[<-|[]]]; [|lia].
      rewrite Forall_forall in Hle. specialize (Hle _ Hin). unfold le_time in Hle. lia.
  - exfalso.
    assert (Hall : forall x, In x (p ++ [e]) -> wt_faulty x = true).
    { intros x Hx. destruct (wt_faulty x) eqn:E; [reflexivity|].
      assert (existsb (fun x => negb (wt_faulty x)) (p ++ [e]) = true).
      { apply existsb_exists. exists x. rewrite E. auto. }
      congruence. }
    assert (Hwp : Forall (fun x => 0 <= wt_weight x) (p ++ [e])).
    { rewrite Forall_forall in *. intros x Hx. apply Hw'. apply in_app_or in Hx. apply in_or_app.
      destruct Hx as [Hx|[<-|[]]]; [left; exact Hx|right; left; reflexivity]. }
    pose proof (all_faulty_weight _ Hwp Hall) as Heq.
    rewrite total_weight_app in Heq. simpl in Heq.
    assert (Hfw : faulty_weight (p ++ [e]) <= faulty_weight present).
    { rewrite <- (sort_wt_faulty present), Hl.
      replace (p ++ e :: q) with ((p ++ [e]) ++ q) by (rewrite <- app_assoc; reflexivity).
      rewrite (faulty_weight_app (p ++ [e]) q).
      assert (0 <= faulty_weight q).
      { apply faulty_weight_nonneg. rewrite Forall_forall in *. intros x Hx. apply Hw'. apply in_or_app. right. right. exact Hx. }
      lia. }
    lia.
Qed.
