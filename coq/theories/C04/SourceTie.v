(** C04 — tie of the model's guards and arithmetic to the Go SOURCE.
    [Generated/C04Source.v] is produced on every check by /verif/go2coq from /repo's working tree: every
    guard / integer expression of timeoutTicker.timeoutRoutine (consensus/ticker.go), of
    ConsensusState.handleTimeout, enterNewRound, enterPropose, enterPrevote, enterPrevoteWait,
    enterPrecommit, enterPrecommitWait, enterCommit, finalizeCommit, tryFinalizeCommit, addVote,
    addProposalBlockPart, isProposalComplete (consensus/state.go), of ConsensusConfig.Propose / Prevote /
    Precommit / WaitForTxs (configs/config.go), of WeightedMedian (types/time) and MedianTime
    (kai/state/cstate), as Gallina over [Z] with explicit machine-integer wraps (Base/GoSem.v).

    The lemmas below say that the hand-written models ARE built from exactly these expressions on
    exactly these operands:
    - [accepts] of C04/Model.v is the nest of the five conditions of timeoutRoutine, in the source's
      order ([src_accepts]);
    - the entry guards [g_new_round], [g_step], [g_precommit_wait], [g_commit], [g_timeout_stale] of
      C04/StepModel.v are the "Invalid args" conditions of the enter functions / handleTimeout, and the
      events [EvPrevote], [EvPrecommit], [EvLastCommit], [EvBlockDone] of [apply] are addVote's and
      addProposalBlockPart's conditions around the same calls ([src_apply_*]);
    - [wait_for_txs], enterNewRound's waitForTxs and interval test, [timeout_dur] are the configs
      expressions;
    - [wm_loop] / [median_time] of C04/MedianModel.v are WeightedMedian's comparison, subtraction and
      halving, and MedianTime's sum.
    The [_atoms] lemmas pin WHAT is compared.  A Go edit that flips a comparison, changes a constant or an
    operand of one of these expressions changes the generated file and re-opens these obligations.
    Not in go2coq's subset: single-atom results (isProposer's bytes.Equal, `weightedTime != nil`); these
    are covered by the harness only (a negated isProposer ends in no-progress). *)
From Coq Require Import List ZArith NArith Bool Lia String.
From Kardia Require Import Base.Int64 Base.GoSem.
From Kardia Require Import Generated.C04Source.
From Kardia Require Import C04.Model C04.StepModel C04.MedianModel.
Import ListNotations.
Local Open Scope Z_scope.

(* ------------------------------------------------------------------ *)
(** * N against Z comparisons *)

Lemma N2Z_eqb a b : Z.eqb (Z.of_N a) (Z.of_N b) = N.eqb a b.
Proof. destruct (N.eqb_spec a b); destruct (Z.eqb_spec (Z.of_N a) (Z.of_N b)); try reflexivity; lia. Qed.
Lemma N2Z_ltb a b : Z.ltb (Z.of_N a) (Z.of_N b) = N.ltb a b.
Proof. destruct (N.ltb_spec a b); destruct (Z.ltb_spec (Z.of_N a) (Z.of_N b)); try reflexivity; lia. Qed.
Lemma N2Z_leb a b : Z.leb (Z.of_N a) (Z.of_N b) = N.leb a b.
Proof. destruct (N.leb_spec a b); destruct (Z.leb_spec (Z.of_N a) (Z.of_N b)); try reflexivity; lia. Qed.
Lemma N2Z_neqb a b : go_neqb (Z.of_N a) (Z.of_N b) = negb (N.eqb a b).
Proof. unfold go_neqb. now rewrite N2Z_eqb. Qed.
Lemma N2Z_gtb0 a : Z.gtb (Z.of_N a) 0 = N.ltb 0 a.
Proof. rewrite Z.gtb_ltb. exact (N2Z_ltb 0 a). Qed.

Ltac n2z := rewrite ?N2Z_neqb, ?N2Z_eqb, ?N2Z_ltb, ?N2Z_leb, ?N2Z_gtb0.

(* ------------------------------------------------------------------ *)
(** * consensus/ticker.go: the filter of timeoutRoutine *)

Definition src_h_lt := consensus__timeoutTicker_timeoutRoutine__if_newti_Height_lt_ti_Height.
Definition src_h_eq := consensus__timeoutTicker_timeoutRoutine__if_newti_Height_eq_ti_Height.
Definition src_r_lt := consensus__timeoutTicker_timeoutRoutine__if_newti_Round_lt_ti_Round.
Definition src_r_eq := consensus__timeoutTicker_timeoutRoutine__if_newti_Round_eq_ti_Round.
Definition src_s_le := consensus__timeoutTicker_timeoutRoutine__if_ti_Step_gt_0_and_newti_Step_le_ti_Step.

(** the nest of `continue`s of the source: true = the request replaces the remembered timeout *)
Definition accepts_src (ti newti : tinfo) : bool :=
  if src_h_lt (Z.of_N (ti_h newti)) (Z.of_N (ti_h ti)) then false
  else if src_h_eq (Z.of_N (ti_h newti)) (Z.of_N (ti_h ti)) then
    if src_r_lt (Z.of_N (ti_r newti)) (Z.of_N (ti_r ti)) then false
    else if src_r_eq (Z.of_N (ti_r newti)) (Z.of_N (ti_r ti)) then
      if src_s_le (Z.of_N (ti_s ti)) (Z.of_N (ti_s newti)) then false else true
    else true
  else true.

Lemma src_accepts ti newti : accepts ti newti = accepts_src ti newti.
Proof.
  unfold accepts, accepts_src, src_h_lt, src_h_eq, src_r_lt, src_r_eq, src_s_le,
    consensus__timeoutTicker_timeoutRoutine__if_newti_Height_lt_ti_Height,
    consensus__timeoutTicker_timeoutRoutine__if_newti_Height_eq_ti_Height,
    consensus__timeoutTicker_timeoutRoutine__if_newti_Round_lt_ti_Round,
    consensus__timeoutTicker_timeoutRoutine__if_newti_Round_eq_ti_Round,
    consensus__timeoutTicker_timeoutRoutine__if_ti_Step_gt_0_and_newti_Step_le_ti_Step.
  n2z. reflexivity.
Qed.

Lemma src_ticker_atoms :
  consensus__timeoutTicker_timeoutRoutine__if_newti_Height_lt_ti_Height_atoms = ["newti.Height : uint64"; "ti.Height : uint64"]%string
  /\ consensus__timeoutTicker_timeoutRoutine__if_newti_Height_eq_ti_Height_atoms = ["newti.Height : uint64"; "ti.Height : uint64"]%string
  /\ consensus__timeoutTicker_timeoutRoutine__if_newti_Round_lt_ti_Round_atoms = ["newti.Round : uint32"; "ti.Round : uint32"]%string
  /\ consensus__timeoutTicker_timeoutRoutine__if_newti_Round_eq_ti_Round_atoms = ["newti.Round : uint32"; "ti.Round : uint32"]%string
  /\ consensus__timeoutTicker_timeoutRoutine__if_ti_Step_gt_0_and_newti_Step_le_ti_Step_atoms
     = ["ti.Step : github.com/kardiachain/go-kardia/consensus/types.RoundStepType";
        "newti.Step : github.com/kardiachain/go-kardia/consensus/types.RoundStepType"]%string.
Proof. repeat split; reflexivity. Qed.

(* ------------------------------------------------------------------ *)
(** * consensus/state.go: handleTimeout and the entry guards *)

Definition src_stale := consensus__ConsensusState_handleTimeout__if_ti_Height_ne_rs_Height_or_ti_Round_lt_rs_Round_or_ti_Round_e_deeb9baa.
Definition src_g_new_round := consensus__ConsensusState_enterNewRound__if_cs_Height_ne_height_or_round_lt_cs_Round_or_cs_Round_eq_roun_2354a6d9.
Definition src_g_propose := consensus__ConsensusState_enterPropose__if_cs_Height_ne_height_or_round_lt_cs_Round_or_cs_Round_eq_roun_2d56b608.
Definition src_g_prevote := consensus__ConsensusState_enterPrevote__if_cs_Height_ne_height_or_round_lt_cs_Round_or_cs_Round_eq_roun_89292bfb.
Definition src_g_prevote_wait := consensus__ConsensusState_enterPrevoteWait__if_cs_Height_ne_height_or_round_lt_cs_Round_or_cs_Round_eq_roun_e2ee6aba.
Definition src_g_precommit := consensus__ConsensusState_enterPrecommit__if_cs_Height_ne_height_or_round_lt_cs_Round_or_cs_Round_eq_roun_175a6e72.
Definition src_g_precommit_wait := consensus__ConsensusState_enterPrecommitWait__if_cs_Height_ne_height_or_round_ne_cs_Round_or_cs_Round_eq_roun_5359bacc.
Definition src_g_commit := consensus__ConsensusState_enterCommit__if_cs_Height_ne_height_or_cstypes_RoundStepCommit_le_cs_Step.
Definition src_g_finalize := consensus__ConsensusState_finalizeCommit__if_cs_Height_ne_height_or_cs_Step_ne_cstypes_RoundStepCommit.

Lemma src_timeout_stale H R S th tr ts :
  g_timeout_stale H R S th tr ts = src_stale (Z.of_N th) (Z.of_N H) (Z.of_N tr) (Z.of_N R) (Z.of_N ts) (Z.of_N S).
Proof.
  unfold g_timeout_stale, src_stale,
    consensus__ConsensusState_handleTimeout__if_ti_Height_ne_rs_Height_or_ti_Round_lt_rs_Round_or_ti_Round_e_deeb9baa.
  n2z. reflexivity.
Qed.

Lemma src_new_round_guard H R S h r :
  g_new_round H R S h r = src_g_new_round (Z.of_N H) (Z.of_N h) (Z.of_N r) (Z.of_N R) (Z.of_N S).
Proof.
  unfold g_new_round, src_g_new_round, sNewHeight,
    consensus__ConsensusState_enterNewRound__if_cs_Height_ne_height_or_round_lt_cs_Round_or_cs_Round_eq_roun_2354a6d9.
  change 1 with (Z.of_N 1). n2z. reflexivity.
Qed.

Lemma src_propose_guard H R S h r :
  g_step sPropose H R S h r = src_g_propose (Z.of_N H) (Z.of_N h) (Z.of_N r) (Z.of_N R) (Z.of_N S).
Proof.
  unfold g_step, src_g_propose, sPropose,
    consensus__ConsensusState_enterPropose__if_cs_Height_ne_height_or_round_lt_cs_Round_or_cs_Round_eq_roun_2d56b608.
  change 3 with (Z.of_N 3). n2z. reflexivity.
Qed.
Lemma src_prevote_guard H R S h r :
  g_step sPrevote H R S h r = src_g_prevote (Z.of_N H) (Z.of_N h) (Z.of_N r) (Z.of_N R) (Z.of_N S).
Proof.
  unfold g_step, src_g_prevote, sPrevote,
    consensus__ConsensusState_enterPrevote__if_cs_Height_ne_height_or_round_lt_cs_Round_or_cs_Round_eq_roun_89292bfb.
  change 4 with (Z.of_N 4). n2z. reflexivity.
Qed.
Lemma src_prevote_wait_guard H R S h r :
  g_step sPrevoteWait H R S h r = src_g_prevote_wait (Z.of_N H) (Z.of_N h) (Z.of_N r) (Z.of_N R) (Z.of_N S).
Proof.
  unfold g_step, src_g_prevote_wait, sPrevoteWait,
    consensus__ConsensusState_enterPrevoteWait__if_cs_Height_ne_height_or_round_lt_cs_Round_or_cs_Round_eq_roun_e2ee6aba.
  change 5 with (Z.of_N 5). n2z. reflexivity.
Qed.
Lemma src_precommit_guard H R S h r :
  g_step sPrecommit H R S h r = src_g_precommit (Z.of_N H) (Z.of_N h) (Z.of_N r) (Z.of_N R) (Z.of_N S).
Proof.
  unfold g_step, src_g_precommit, sPrecommit,
    consensus__ConsensusState_enterPrecommit__if_cs_Height_ne_height_or_round_lt_cs_Round_or_cs_Round_eq_roun_175a6e72.
  change 6 with (Z.of_N 6). n2z. reflexivity.
Qed.
Lemma src_precommit_wait_guard H R trig h r :
  g_precommit_wait H R trig h r = src_g_precommit_wait (Z.of_N H) (Z.of_N h) (Z.of_N r) (Z.of_N R) trig.
Proof.
  unfold g_precommit_wait, src_g_precommit_wait,
    consensus__ConsensusState_enterPrecommitWait__if_cs_Height_ne_height_or_round_ne_cs_Round_or_cs_Round_eq_roun_5359bacc.
  n2z. reflexivity.
Qed.
Lemma src_commit_guard H S h :
  g_commit H S h = src_g_commit (Z.of_N H) (Z.of_N h) (Z.of_N S).
Proof.
  unfold g_commit, src_g_commit, sCommit,
    consensus__ConsensusState_enterCommit__if_cs_Height_ne_height_or_cstypes_RoundStepCommit_le_cs_Step.
  change 8 with (Z.of_N 8). n2z. reflexivity.
Qed.
(** finalizeCommit's own guard, for the height the caller passes (its own): the model's [nS nd =? sCommit] *)
Lemma src_finalize_guard H S :
  negb (N.eqb S sCommit) = src_g_finalize (Z.of_N H) (Z.of_N H) (Z.of_N S).
Proof.
  unfold src_g_finalize, sCommit,
    consensus__ConsensusState_finalizeCommit__if_cs_Height_ne_height_or_cs_Step_ne_cstypes_RoundStepCommit.
  change 8 with (Z.of_N 8). n2z. rewrite N.eqb_refl. reflexivity.
Qed.

(** handleTimeout as a whole: the staleness test, then the switch on ti.Step with the source's case
    conditions and the source's ti.Round+1 (uint32 addition: no wrap below 2^32 - 1) *)
Definition src_case_new_height := consensus__ConsensusState_handleTimeout__case_ti_Step_eq_cstypes_RoundStepNewHeight.
Definition src_case_new_round := consensus__ConsensusState_handleTimeout__case_ti_Step_eq_cstypes_RoundStepNewRound.
Definition src_case_propose := consensus__ConsensusState_handleTimeout__case_ti_Step_eq_cstypes_RoundStepPropose.
Definition src_case_prevote_wait := consensus__ConsensusState_handleTimeout__case_ti_Step_eq_cstypes_RoundStepPrevoteWait.
Definition src_case_precommit_wait := consensus__ConsensusState_handleTimeout__case_ti_Step_eq_cstypes_RoundStepPrecommitWait.
Definition src_next_round := consensus__ConsensusState_handleTimeout__arg_ti_Round_plus_1.

Definition handle_timeout_src (c : scfg) (nd : node) (t : tinfo) (complete : bool) : node :=
  if src_stale (Z.of_N (ti_h t)) (Z.of_N (nH nd)) (Z.of_N (ti_r t)) (Z.of_N (nR nd)) (Z.of_N (ti_s t)) (Z.of_N (nS nd)) then nd
  else if src_case_new_height (Z.of_N (ti_s t)) then enter_new_round c nd (ti_h t) 1 complete
  else if src_case_new_round (Z.of_N (ti_s t)) then enter_propose nd (ti_h t) 1 complete
  else if src_case_propose (Z.of_N (ti_s t)) then enter_prevote nd (ti_h t) (ti_r t)
  else if src_case_prevote_wait (Z.of_N (ti_s t)) then enter_precommit nd (ti_h t) (ti_r t)
  else if src_case_precommit_wait (Z.of_N (ti_s t)) then
    enter_new_round c (enter_precommit nd (ti_h t) (ti_r t)) (ti_h t) (Z.to_N (src_next_round (Z.of_N (ti_r t)))) complete
  else nd.

Lemma src_handle_timeout c nd t complete :
  Z.of_N (ti_r t) + 1 < 4294967296 ->
  handle_timeout c nd t complete = handle_timeout_src c nd t complete.
Proof.
  intros Hr. unfold handle_timeout, handle_timeout_src. rewrite src_timeout_stale.
  unfold src_case_new_height, src_case_new_round, src_case_propose, src_case_prevote_wait, src_case_precommit_wait, src_next_round,
    consensus__ConsensusState_handleTimeout__case_ti_Step_eq_cstypes_RoundStepNewHeight,
    consensus__ConsensusState_handleTimeout__case_ti_Step_eq_cstypes_RoundStepNewRound,
    consensus__ConsensusState_handleTimeout__case_ti_Step_eq_cstypes_RoundStepPropose,
    consensus__ConsensusState_handleTimeout__case_ti_Step_eq_cstypes_RoundStepPrevoteWait,
    consensus__ConsensusState_handleTimeout__case_ti_Step_eq_cstypes_RoundStepPrecommitWait,
    consensus__ConsensusState_handleTimeout__arg_ti_Round_plus_1,
    sNewHeight, sNewRound, sPropose, sPrevoteWait, sPrecommitWait.
  change 1 with (Z.of_N 1) at 1. change 2 with (Z.of_N 2). change 3 with (Z.of_N 3). change 5 with (Z.of_N 5). change 7 with (Z.of_N 7).
  n2z.
  assert (E : Z.to_N (go_add U32 (Z.of_N (ti_r t)) 1) = (ti_r t + 1)%N).
  { unfold go_add. rewrite wrap_id by (unfold in_range; lia). lia. }
  rewrite E. reflexivity.
Qed.

(** enterNewRound's arguments: the proposer rotation is advanced by round - cs.Round (uint32, no wrap when
    cs.Round < round), the next round's vote sets are created for round + 1 *)
Lemma src_round_increment r R : 0 <= R -> R < r -> r < 4294967296 ->
  consensus__ConsensusState_enterNewRound__arg_int64_round_minus_cs_Round r R = r - R.
Proof.
  intros H0 H1 H2. unfold consensus__ConsensusState_enterNewRound__arg_int64_round_minus_cs_Round, go_conv, go_sub.
  rewrite (wrap_id U32) by (unfold in_range; lia). apply wrap_id. unfold in_range. lia.
Qed.

Lemma src_args_atoms :
  consensus__ConsensusState_handleTimeout__arg_ti_Round_plus_1_atoms = ["ti.Round : uint32"]%string
  /\ consensus__ConsensusState_enterNewRound__arg_int64_round_minus_cs_Round_atoms = ["round : uint32"; "cs.Round : uint32"]%string
  /\ consensus__ConsensusState_enterNewRound__arg_round_plus_1_atoms = ["round : uint32"]%string
  /\ consensus__ConsensusState_enterNewRound__if_cs_Round_lt_round_atoms = ["cs.Round : uint32"; "round : uint32"]%string
  /\ consensus__ConsensusState_handleTimeout__case_ti_Step_eq_cstypes_RoundStepPrecommitWait_atoms
     = ["ti.Step : github.com/kardiachain/go-kardia/consensus/types.RoundStepType"]%string.
Proof. repeat split; reflexivity. Qed.

Lemma src_guard_atoms :
  consensus__ConsensusState_handleTimeout__if_ti_Height_ne_rs_Height_or_ti_Round_lt_rs_Round_or_ti_Round_e_deeb9baa_atoms
    = ["ti.Height : uint64"; "rs.Height : uint64"; "ti.Round : uint32"; "rs.Round : uint32";
       "ti.Step : github.com/kardiachain/go-kardia/consensus/types.RoundStepType";
       "rs.Step : github.com/kardiachain/go-kardia/consensus/types.RoundStepType"]%string
  /\ consensus__ConsensusState_enterNewRound__if_cs_Height_ne_height_or_round_lt_cs_Round_or_cs_Round_eq_roun_2354a6d9_atoms
    = ["cs.Height : uint64"; "height : uint64"; "round : uint32"; "cs.Round : uint32";
       "cs.Step : github.com/kardiachain/go-kardia/consensus/types.RoundStepType"]%string
  /\ consensus__ConsensusState_enterPropose__if_cs_Height_ne_height_or_round_lt_cs_Round_or_cs_Round_eq_roun_2d56b608_atoms
    = ["cs.Height : uint64"; "height : uint64"; "round : uint32"; "cs.Round : uint32";
       "cs.Step : github.com/kardiachain/go-kardia/consensus/types.RoundStepType"]%string
  /\ consensus__ConsensusState_enterPrevote__if_cs_Height_ne_height_or_round_lt_cs_Round_or_cs_Round_eq_roun_89292bfb_atoms
    = ["cs.Height : uint64"; "height : uint64"; "round : uint32"; "cs.Round : uint32";
       "cs.Step : github.com/kardiachain/go-kardia/consensus/types.RoundStepType"]%string
  /\ consensus__ConsensusState_enterPrevoteWait__if_cs_Height_ne_height_or_round_lt_cs_Round_or_cs_Round_eq_roun_e2ee6aba_atoms
    = ["cs.Height : uint64"; "height : uint64"; "round : uint32"; "cs.Round : uint32";
       "cs.Step : github.com/kardiachain/go-kardia/consensus/types.RoundStepType"]%string
  /\ consensus__ConsensusState_enterPrecommit__if_cs_Height_ne_height_or_round_lt_cs_Round_or_cs_Round_eq_roun_175a6e72_atoms
    = ["cs.Height : uint64"; "height : uint64"; "round : uint32"; "cs.Round : uint32";
       "cs.Step : github.com/kardiachain/go-kardia/consensus/types.RoundStepType"]%string
  /\ consensus__ConsensusState_enterPrecommitWait__if_cs_Height_ne_height_or_round_ne_cs_Round_or_cs_Round_eq_roun_5359bacc_atoms
    = ["cs.Height : uint64"; "height : uint64"; "round : uint32"; "cs.Round : uint32"; "cs.TriggeredTimeoutPrecommit : bool"]%string
  /\ consensus__ConsensusState_enterCommit__if_cs_Height_ne_height_or_cstypes_RoundStepCommit_le_cs_Step_atoms
    = ["cs.Height : uint64"; "height : uint64"; "cs.Step : github.com/kardiachain/go-kardia/consensus/types.RoundStepType"]%string
  /\ consensus__ConsensusState_finalizeCommit__if_cs_Height_ne_height_or_cs_Step_ne_cstypes_RoundStepCommit_atoms
    = ["cs.Height : uint64"; "height : uint64"; "cs.Step : github.com/kardiachain/go-kardia/consensus/types.RoundStepType"]%string.
Proof. repeat split; reflexivity. Qed.

(** the preconditions the enter*Wait functions panic on, and the "no polka" test of enterPrecommit: what
    the model's free booleans stand for *)
Lemma src_panic_atoms :
  consensus__ConsensusState_enterPrevoteWait__if_not_cs_Votes_Prevotes_round__HasTwoThirdsAny_atoms
    = ["cs.Votes.Prevotes(round).HasTwoThirdsAny() : bool"]%string
  /\ consensus__ConsensusState_enterPrecommitWait__if_not_cs_Votes_Precommits_round__HasTwoThirdsAny_atoms
    = ["cs.Votes.Precommits(round).HasTwoThirdsAny() : bool"]%string
  /\ (forall b, consensus__ConsensusState_enterPrevoteWait__if_not_cs_Votes_Prevotes_round__HasTwoThirdsAny b = negb b)
  /\ (forall b, consensus__ConsensusState_enterPrecommitWait__if_not_cs_Votes_Precommits_round__HasTwoThirdsAny b = negb b).
Proof. repeat split; reflexivity. Qed.

(* ------------------------------------------------------------------ *)
(** * configs: WaitForTxs, enterNewRound's use of it, the timeout durations *)

(** the skeleton's view of a ConsensusConfig *)
Definition cfg_of (ce : bool) (interval : Z) (skip : bool) : scfg :=
  {| create_empty := ce;
     interval_pos := consensus__ConsensusState_enterNewRound__if_cs_config_CreateEmptyBlocksInterval_gt_0 interval;
     skip_commit := skip |}.

Lemma src_wait_for_txs ce interval skip :
  wait_for_txs (cfg_of ce interval skip) =
  configs__ConsensusConfig_WaitForTxs__ret_not_cfg_IsCreateEmptyBlocks_or_cfg_CreateEmptyBlocksInterval_gt_0 ce interval.
Proof. reflexivity. Qed.

(** enterNewRound: waitForTxs := cs.config.WaitForTxs() && (round == 1) *)
Lemma src_new_round_wait c r :
  (wait_for_txs c && (r =? 1)%N)%bool = consensus__ConsensusState_enterNewRound__set_waitForTxs (wait_for_txs c) (Z.of_N r).
Proof.
  unfold consensus__ConsensusState_enterNewRound__set_waitForTxs. change 1 with (Z.of_N 1). n2z. reflexivity.
Qed.

Lemma src_config_atoms :
  configs__ConsensusConfig_WaitForTxs__ret_not_cfg_IsCreateEmptyBlocks_or_cfg_CreateEmptyBlocksInterval_gt_0_atoms
    = ["cfg.IsCreateEmptyBlocks : bool"; "cfg.CreateEmptyBlocksInterval : time.Duration"]%string
  /\ consensus__ConsensusState_enterNewRound__set_waitForTxs_atoms = ["cs.config.WaitForTxs() : bool"; "round : uint32"]%string
  /\ consensus__ConsensusState_enterNewRound__if_cs_config_CreateEmptyBlocksInterval_gt_0_atoms
    = ["cs.config.CreateEmptyBlocksInterval : time.Duration"]%string
  /\ configs__ConsensusConfig_Propose__ret_time_Duration_cfg_TimeoutPropose_Nanoseconds_plus_cfg_Timeou_924588db_atoms
    = ["cfg.TimeoutPropose.Nanoseconds() : int64"; "cfg.TimeoutProposeDelta.Nanoseconds() : int64"; "round : uint32"]%string
  /\ configs__ConsensusConfig_Prevote__ret_time_Duration_cfg_TimeoutPrevote_Nanoseconds_plus_cfg_Timeou_98ba0541_atoms
    = ["cfg.TimeoutPrevote.Nanoseconds() : int64"; "cfg.TimeoutPrevoteDelta.Nanoseconds() : int64"; "round : uint32"]%string
  /\ configs__ConsensusConfig_Precommit__ret_time_Duration_cfg_TimeoutPrecommit_Nanoseconds_plus_cfg_Time_fdba3b3f_atoms
    = ["cfg.TimeoutPrecommit.Nanoseconds() : int64"; "cfg.TimeoutPrecommitDelta.Nanoseconds() : int64"; "round : uint32"]%string.
Proof. repeat split; reflexivity. Qed.

Lemma wrap64_idem z : wrap64 (wrap64 z) = wrap64 z.
Proof. apply wrap64_id. apply wrap64_range. Qed.

(** Propose/Prevote/Precommit(round) for every uint32 round: [timeout_dur] *)
Lemma src_timeout_dur base delta round :
  0 <= round < 4294967296 ->
  configs__ConsensusConfig_Propose__ret_time_Duration_cfg_TimeoutPropose_Nanoseconds_plus_cfg_Timeou_924588db base delta round = timeout_dur base delta round
  /\ configs__ConsensusConfig_Prevote__ret_time_Duration_cfg_TimeoutPrevote_Nanoseconds_plus_cfg_Timeou_98ba0541 base delta round = timeout_dur base delta round
  /\ configs__ConsensusConfig_Precommit__ret_time_Duration_cfg_TimeoutPrecommit_Nanoseconds_plus_cfg_Time_fdba3b3f base delta round = timeout_dur base delta round.
Proof.
  intros Hr.
  assert (Hc : go_conv I64 round = round).
  { unfold go_conv. apply wrap_id. unfold in_range. lia. }
  unfold configs__ConsensusConfig_Propose__ret_time_Duration_cfg_TimeoutPropose_Nanoseconds_plus_cfg_Timeou_924588db,
    configs__ConsensusConfig_Prevote__ret_time_Duration_cfg_TimeoutPrevote_Nanoseconds_plus_cfg_Timeou_98ba0541,
    configs__ConsensusConfig_Precommit__ret_time_Duration_cfg_TimeoutPrecommit_Nanoseconds_plus_cfg_Time_fdba3b3f, timeout_dur.
  rewrite Hc. unfold go_mul, go_add, go_conv. rewrite !wrap_I64, wrap64_idem. repeat split; reflexivity.
Qed.

(* ------------------------------------------------------------------ *)
(** * addVote and addProposalBlockPart around the enter functions: the events of [apply] *)

Definition src_av_commit := consensus__ConsensusState_addVote__if_cs_Step_eq_cstypes_RoundStepCommit.
Definition src_av_skip := consensus__ConsensusState_addVote__case_cs_Round_lt_vote_Round_and_prevotes_HasTwoThirdsAny.
Definition src_av_cur := consensus__ConsensusState_addVote__case_cs_Round_eq_vote_Round_and_cstypes_RoundStepPrevote_le_cs_Step.
Definition src_av_pc := consensus__ConsensusState_addVote__if_ok_and_cs_isProposalComplete_or_blockID_Hash_IsZero.
Definition src_av_any := consensus__ConsensusState_addVote__if_prevotes_HasTwoThirdsAny.
Definition src_av_pol := consensus__ConsensusState_addVote__case_cs_Proposal_ne_nil_and_1_le_cs_Proposal_POLRound_and_cs_Prop_37fde8e4.
Definition src_av_ok2 := consensus__ConsensusState_addVote__if_ok_2.
Definition src_av_nonnil := consensus__ConsensusState_addVote__if_not_blockID_Hash_IsZero.
Definition src_av_skipc := consensus__ConsensusState_addVote__if_cs_config_IsSkipTimeoutCommit_and_precommits_HasAll.
Definition src_av_pcany := consensus__ConsensusState_addVote__if_cs_Round_le_vote_Round_and_precommits_HasTwoThirdsAny.
Definition src_av_last := consensus__ConsensusState_addVote__if_cs_config_IsSkipTimeoutCommit_and_cs_LastCommit_HasAll.
Definition src_av_last_step := consensus__ConsensusState_addVote__if_cs_Step_ne_cstypes_RoundStepNewHeight.
Definition src_bp_step := consensus__ConsensusState_addProposalBlockPart__if_cs_Step_le_cstypes_RoundStepPropose_and_cs_isProposalComplete.
Definition src_bp_commit := consensus__ConsensusState_addProposalBlockPart__if_cs_Step_eq_cstypes_RoundStepCommit.
Definition src_bp_23 := consensus__ConsensusState_addProposalBlockPart__if_hasTwoThirds.

(** addVote, prevote branch.  [isnil] = blockID.Hash.IsZero(), [complete] = isProposalComplete(); the
    model's [gopc] is their disjunction; [hasprop]/[polround] = cs.Proposal != nil / its POLRound, the
    model's [polcase] is the third case's condition on them *)
Lemma src_apply_prevote c nd vr maj complete isnil any hasprop polround :
  apply c nd (EvPrevote vr maj (complete || isnil) any (src_av_pol hasprop polround (Z.of_N vr)) complete) =
  if src_av_commit (Z.of_N (nS nd)) then nd
  else if src_av_skip (Z.of_N (nR nd)) (Z.of_N vr) any then enter_new_round c nd (nH nd) vr complete
  else if src_av_cur (Z.of_N (nR nd)) (Z.of_N vr) (Z.of_N (nS nd)) then
    (if src_av_pc maj complete isnil then enter_precommit nd (nH nd) vr
     else if src_av_any any then enter_prevote_wait nd (nH nd) vr else nd)
  else if src_av_pol hasprop polround (Z.of_N vr) then
    (if consensus__ConsensusState_addVote__if_cs_isProposalComplete complete then enter_prevote nd (nH nd) (nR nd) else nd)
  else nd.
Proof.
  cbn [apply]. unfold src_av_commit, src_av_skip, src_av_cur, src_av_pc, src_av_any,
    consensus__ConsensusState_addVote__if_cs_Step_eq_cstypes_RoundStepCommit,
    consensus__ConsensusState_addVote__case_cs_Round_lt_vote_Round_and_prevotes_HasTwoThirdsAny,
    consensus__ConsensusState_addVote__case_cs_Round_eq_vote_Round_and_cstypes_RoundStepPrevote_le_cs_Step,
    consensus__ConsensusState_addVote__if_ok_and_cs_isProposalComplete_or_blockID_Hash_IsZero,
    consensus__ConsensusState_addVote__if_prevotes_HasTwoThirdsAny,
    consensus__ConsensusState_addVote__if_cs_isProposalComplete, sCommit, sPrevote.
  change 8 with (Z.of_N 8). change 4 with (Z.of_N 4). n2z.
  destruct (nS nd =? 8)%N; [reflexivity|].
  destruct ((nR nd <? vr)%N && any)%bool; [reflexivity|].
  destruct ((nR nd =? vr)%N && (4 <=? nS nd)%N)%bool; [reflexivity|].
  destruct (src_av_pol hasprop polround (Z.of_N vr)); cbn [andb]; reflexivity.
Qed.

(** addVote, precommit branch.  [isnil] = blockID.Hash.IsZero(): the model's [nonnil] is its negation *)
Lemma src_apply_precommit c nd vr maj isnil any hasall hb complete :
  apply c nd (EvPrecommit vr maj (negb isnil) any hasall hb complete) =
  if src_av_commit (Z.of_N (nS nd)) then nd
  else if src_av_ok2 maj then
    let nd2 := enter_precommit (enter_new_round c nd (nH nd) vr complete) (nH nd) vr in
    if src_av_nonnil isnil then
      let nd3 := enter_commit nd2 (nH nd) hb in
      if src_av_skipc (skip_commit c) hasall then enter_new_round c nd3 (nH nd3) 1 false else nd3
    else enter_precommit_wait nd2 (nH nd) vr
  else if src_av_pcany (Z.of_N (nR nd)) (Z.of_N vr) any then
    enter_precommit_wait (enter_new_round c nd (nH nd) vr complete) (nH nd) vr
  else nd.
Proof.
  cbn [apply]. unfold src_av_commit, src_av_ok2, src_av_nonnil, src_av_skipc, src_av_pcany,
    consensus__ConsensusState_addVote__if_cs_Step_eq_cstypes_RoundStepCommit,
    consensus__ConsensusState_addVote__if_ok_2, consensus__ConsensusState_addVote__if_not_blockID_Hash_IsZero,
    consensus__ConsensusState_addVote__if_cs_config_IsSkipTimeoutCommit_and_precommits_HasAll,
    consensus__ConsensusState_addVote__if_cs_Round_le_vote_Round_and_precommits_HasTwoThirdsAny, sCommit.
  change 8 with (Z.of_N 8). n2z. reflexivity.
Qed.

(** addVote, a precommit of the previous height: only in step NewHeight *)
Lemma src_apply_last_commit c nd hasall complete :
  apply c nd (EvLastCommit hasall complete) =
  if src_av_last_step (Z.of_N (nS nd)) then nd
  else if src_av_last (skip_commit c) hasall then enter_new_round c nd (nH nd) 1 complete else nd.
Proof.
  cbn [apply]. unfold src_av_last_step, src_av_last,
    consensus__ConsensusState_addVote__if_cs_Step_ne_cstypes_RoundStepNewHeight,
    consensus__ConsensusState_addVote__if_cs_config_IsSkipTimeoutCommit_and_cs_LastCommit_HasAll, sNewHeight.
  change 1 with (Z.of_N 1). n2z. destruct (nS nd =? 1)%N; cbn [negb andb]; reflexivity.
Qed.

(** addProposalBlockPart once the part set is complete *)
Lemma src_apply_block_done c nd complete has23 hb :
  apply c nd (EvBlockDone complete has23 hb) =
  if src_bp_step (Z.of_N (nS nd)) complete then
    (let nd1 := enter_prevote nd (nH nd) (nR nd) in if src_bp_23 has23 then enter_precommit nd1 (nH nd) (nR nd) else nd1)
  else if src_bp_commit (Z.of_N (nS nd)) then (if hb then finalize nd else nd)
  else nd.
Proof.
  cbn [apply]. unfold src_bp_step, src_bp_commit, src_bp_23,
    consensus__ConsensusState_addProposalBlockPart__if_cs_Step_le_cstypes_RoundStepPropose_and_cs_isProposalComplete,
    consensus__ConsensusState_addProposalBlockPart__if_cs_Step_eq_cstypes_RoundStepCommit,
    consensus__ConsensusState_addProposalBlockPart__if_hasTwoThirds, sPropose, sCommit.
  change 3 with (Z.of_N 3). change 8 with (Z.of_N 8). n2z. reflexivity.
Qed.

Lemma src_addvote_atoms :
  consensus__ConsensusState_addVote__if_cs_Step_eq_cstypes_RoundStepCommit_atoms
    = ["cs.Step : github.com/kardiachain/go-kardia/consensus/types.RoundStepType"]%string
  /\ consensus__ConsensusState_addVote__case_cs_Round_lt_vote_Round_and_prevotes_HasTwoThirdsAny_atoms
    = ["cs.Round : uint32"; "vote.Round : uint32"; "prevotes.HasTwoThirdsAny() : bool"]%string
  /\ consensus__ConsensusState_addVote__case_cs_Round_eq_vote_Round_and_cstypes_RoundStepPrevote_le_cs_Step_atoms
    = ["cs.Round : uint32"; "vote.Round : uint32"; "cs.Step : github.com/kardiachain/go-kardia/consensus/types.RoundStepType"]%string
  /\ consensus__ConsensusState_addVote__if_ok_and_cs_isProposalComplete_or_blockID_Hash_IsZero_atoms
    = ["ok : bool"; "cs.isProposalComplete() : bool"; "blockID.Hash.IsZero() : bool"]%string
  /\ consensus__ConsensusState_addVote__case_cs_Proposal_ne_nil_and_1_le_cs_Proposal_POLRound_and_cs_Prop_37fde8e4_atoms
    = ["cs.Proposal != nil : bool"; "cs.Proposal.POLRound : uint32"; "vote.Round : uint32"]%string
  /\ consensus__ConsensusState_addVote__if_cs_config_IsSkipTimeoutCommit_and_precommits_HasAll_atoms
    = ["cs.config.IsSkipTimeoutCommit : bool"; "precommits.HasAll() : bool"]%string
  /\ consensus__ConsensusState_addVote__if_cs_Round_le_vote_Round_and_precommits_HasTwoThirdsAny_atoms
    = ["cs.Round : uint32"; "vote.Round : uint32"; "precommits.HasTwoThirdsAny() : bool"]%string
  /\ consensus__ConsensusState_addVote__if_cs_config_IsSkipTimeoutCommit_and_cs_LastCommit_HasAll_atoms
    = ["cs.config.IsSkipTimeoutCommit : bool"; "cs.LastCommit.HasAll() : bool"]%string
  /\ consensus__ConsensusState_addVote__if_cs_Step_ne_cstypes_RoundStepNewHeight_atoms
    = ["cs.Step : github.com/kardiachain/go-kardia/consensus/types.RoundStepType"]%string
  /\ consensus__ConsensusState_addProposalBlockPart__if_cs_Step_le_cstypes_RoundStepPropose_and_cs_isProposalComplete_atoms
    = ["cs.Step : github.com/kardiachain/go-kardia/consensus/types.RoundStepType"; "cs.isProposalComplete() : bool"]%string
  /\ consensus__ConsensusState_addProposalBlockPart__if_cs_Step_eq_cstypes_RoundStepCommit_atoms
    = ["cs.Step : github.com/kardiachain/go-kardia/consensus/types.RoundStepType"]%string.
Proof. repeat split; reflexivity. Qed.

(** isProposalComplete (the model's [complete] answers): no proposal or no block: false; no POL round
    claimed (POLRound < 1): true; else the +2/3 majority of that round's prevotes *)
Lemma src_proposal_complete :
  (forall a b, consensus__ConsensusState_isProposalComplete__if_cs_Proposal_eq_nil_or_cs_ProposalBlock_eq_nil a b = (a || b)%bool)
  /\ (forall p, consensus__ConsensusState_isProposalComplete__if_cs_Proposal_POLRound_lt_1 p = (p <? 1))
  /\ consensus__ConsensusState_isProposalComplete__if_cs_Proposal_eq_nil_or_cs_ProposalBlock_eq_nil_atoms
     = ["cs.Proposal == nil : untyped bool"; "cs.ProposalBlock == nil : untyped bool"]%string
  /\ consensus__ConsensusState_isProposalComplete__if_cs_Proposal_POLRound_lt_1_atoms = ["cs.Proposal.POLRound : uint32"]%string.
Proof. repeat split; reflexivity. Qed.

(* ------------------------------------------------------------------ *)
(** * types/time WeightedMedian and cstate.MedianTime *)

(** the loop of WeightedMedian over the sorted non-nil entries, written with the source's comparison and
    subtraction *)
Fixpoint wm_loop_src (median : Z) (l : list wtime) : option Z :=
  match l with
  | [] => None
  | x :: r =>
    if types_time__WeightedMedian__if_median_le_weightedTime_Weight median (wt_weight x) then Some (wt_time x)
    else wm_loop_src (types_time__WeightedMedian__set_median_op median (wt_weight x)) r
  end.

Lemma src_wm_loop : forall l median,
  Forall (fun x => 0 <= wt_weight x) l -> 0 <= median <= max_int64 ->
  wm_loop median l = wm_loop_src median l.
Proof.
  induction l as [|x r IH]; intros median Hw Hm; cbn [wm_loop wm_loop_src]; [reflexivity|].
  inversion Hw as [|? ? Hx Hr]; subst.
  unfold types_time__WeightedMedian__if_median_le_weightedTime_Weight, types_time__WeightedMedian__set_median_op.
  destruct (Z.leb_spec median (wt_weight x)) as [|Hlt]; [reflexivity|].
  assert (E : go_sub I64 median (wt_weight x) = median - wt_weight x).
  { unfold go_sub. apply wrap_id. unfold in_range. unfold max_int64, two63 in Hm. lia. }
  rewrite E. apply IH; [exact Hr|lia].
Qed.

(** median := totalVotingPower / 2 (truncated division; the total is not negative) *)
Lemma src_median_half total : 0 <= total <= max_int64 -> types_time__WeightedMedian__set_median total = total / 2.
Proof.
  intros H. unfold types_time__WeightedMedian__set_median, go_quot. rewrite Z.quot_div_nonneg by lia.
  apply wrap_id. unfold in_range. unfold max_int64, two63 in H.
  pose proof (Z.div_pos total 2). pose proof (Z.div_le_upper_bound total 2 total). lia.
Qed.

(** MedianTime: totalVotingPower += votingPower, without wrap while the sum stays in int64 *)
Lemma src_total_step acc w : in_int64 (acc + w) -> kai_state_cstate__MedianTime__set_totalVotingPower_op acc w = acc + w.
Proof. intros H. unfold kai_state_cstate__MedianTime__set_totalVotingPower_op, go_add. apply wrap_id. apply in_range_I64. exact H. Qed.

(** the sort order of WeightedMedian: ascending UnixNano ([insert_wt] inserts before the first later-or-equal
    entry; ties do not change the result, see the harness oracle median-spec) *)
Lemma src_sort_less a b :
  types_time__WeightedMedian__ret_weightedTimes_at_i__Time_UnixNano_lt_weightedTimes_at_j__Time_UnixNano a b = (a <? b).
Proof. reflexivity. Qed.

Lemma src_median_time present :
  Forall (fun x => 0 <= wt_weight x) present -> total_weight present <= max_int64 ->
  median_time present = wm_loop_src (types_time__WeightedMedian__set_median (total_weight present)) (sort_wt present).
Proof.
  intros Hw Ht.
  assert (H0 : 0 <= total_weight present).
  { clear Ht. induction Hw as [|x l Hx _ IH]; cbn [total_weight fold_right]; [lia|]. unfold total_weight in IH. lia. }
  assert (Hs : Forall (fun x => 0 <= wt_weight x) (sort_wt present)).
  { clear Ht H0. induction Hw as [|x l Hx _ IH]; cbn [sort_wt]; [constructor|].
    revert IH. generalize (sort_wt l). induction l0 as [|y r IHr]; intros Hr; cbn [insert_wt].
    - constructor; [exact Hx|constructor].
    - inversion Hr; subst. destruct (wt_time x <=? wt_time y); constructor; auto. }
  unfold median_time. rewrite src_median_half by lia.
  apply src_wm_loop; [exact Hs|].
  pose proof (Z.div_pos (total_weight present) 2). pose proof (Z.div_le_upper_bound (total_weight present) 2 (total_weight present)). lia.
Qed.

Lemma src_median_atoms :
  types_time__WeightedMedian__set_median_atoms = ["totalVotingPower : int64"]%string
  /\ types_time__WeightedMedian__if_median_le_weightedTime_Weight_atoms = ["median : int64"; "weightedTime.Weight : int64"]%string
  /\ types_time__WeightedMedian__set_median_op_atoms = ["median : int64"; "weightedTime.Weight : int64"]%string
  /\ types_time__WeightedMedian__ret_weightedTimes_at_i__Time_UnixNano_lt_weightedTimes_at_j__Time_UnixNano_atoms
     = ["weightedTimes[i].Time.UnixNano() : int64"; "weightedTimes[j].Time.UnixNano() : int64"]%string
  /\ kai_state_cstate__MedianTime__set_totalVotingPower_op_atoms = ["totalVotingPower : int64"; "votingPower : int64"]%string.
Proof. repeat split; reflexivity. Qed.

(* ------------------------------------------------------------------ *)
(** * the statement quoted in Properties.v *)

Definition C04_source_tie_statement : Prop :=
  (* ticker *)
  (forall ti newti, accepts ti newti = accepts_src ti newti)
  (* handleTimeout and the entry guards *)
  /\ (forall H R S th tr ts, g_timeout_stale H R S th tr ts = src_stale (Z.of_N th) (Z.of_N H) (Z.of_N tr) (Z.of_N R) (Z.of_N ts) (Z.of_N S))
  /\ (forall H R S h r, g_new_round H R S h r = src_g_new_round (Z.of_N H) (Z.of_N h) (Z.of_N r) (Z.of_N R) (Z.of_N S))
  /\ (forall H R S h r, g_step sPropose H R S h r = src_g_propose (Z.of_N H) (Z.of_N h) (Z.of_N r) (Z.of_N R) (Z.of_N S))
  /\ (forall H R S h r, g_step sPrevote H R S h r = src_g_prevote (Z.of_N H) (Z.of_N h) (Z.of_N r) (Z.of_N R) (Z.of_N S))
  /\ (forall H R S h r, g_step sPrevoteWait H R S h r = src_g_prevote_wait (Z.of_N H) (Z.of_N h) (Z.of_N r) (Z.of_N R) (Z.of_N S))
  /\ (forall H R S h r, g_step sPrecommit H R S h r = src_g_precommit (Z.of_N H) (Z.of_N h) (Z.of_N r) (Z.of_N R) (Z.of_N S))
  /\ (forall H R trig h r, g_precommit_wait H R trig h r = src_g_precommit_wait (Z.of_N H) (Z.of_N h) (Z.of_N r) (Z.of_N R) trig)
  /\ (forall H S h, g_commit H S h = src_g_commit (Z.of_N H) (Z.of_N h) (Z.of_N S))
  /\ (forall H S, negb (N.eqb S sCommit) = src_g_finalize (Z.of_N H) (Z.of_N H) (Z.of_N S))
  (* handleTimeout as a whole, enterNewRound's rotation argument *)
  /\ (forall c nd t complete, Z.of_N (ti_r t) + 1 < 4294967296 -> handle_timeout c nd t complete = handle_timeout_src c nd t complete)
  /\ (forall r R, 0 <= R -> R < r -> r < 4294967296 ->
        consensus__ConsensusState_enterNewRound__arg_int64_round_minus_cs_Round r R = r - R)
  (* the events *)
  /\ (forall c nd vr maj complete isnil any hasprop polround,
        apply c nd (EvPrevote vr maj (complete || isnil) any (src_av_pol hasprop polround (Z.of_N vr)) complete) =
        if src_av_commit (Z.of_N (nS nd)) then nd
        else if src_av_skip (Z.of_N (nR nd)) (Z.of_N vr) any then enter_new_round c nd (nH nd) vr complete
        else if src_av_cur (Z.of_N (nR nd)) (Z.of_N vr) (Z.of_N (nS nd)) then
          (if src_av_pc maj complete isnil then enter_precommit nd (nH nd) vr
           else if src_av_any any then enter_prevote_wait nd (nH nd) vr else nd)
        else if src_av_pol hasprop polround (Z.of_N vr) then
          (if consensus__ConsensusState_addVote__if_cs_isProposalComplete complete then enter_prevote nd (nH nd) (nR nd) else nd)
        else nd)
  /\ (forall c nd vr maj isnil any hasall hb complete,
        apply c nd (EvPrecommit vr maj (negb isnil) any hasall hb complete) =
        if src_av_commit (Z.of_N (nS nd)) then nd
        else if src_av_ok2 maj then
          let nd2 := enter_precommit (enter_new_round c nd (nH nd) vr complete) (nH nd) vr in
          if src_av_nonnil isnil then
            let nd3 := enter_commit nd2 (nH nd) hb in
            if src_av_skipc (skip_commit c) hasall then enter_new_round c nd3 (nH nd3) 1 false else nd3
          else enter_precommit_wait nd2 (nH nd) vr
        else if src_av_pcany (Z.of_N (nR nd)) (Z.of_N vr) any then
          enter_precommit_wait (enter_new_round c nd (nH nd) vr complete) (nH nd) vr
        else nd)
  /\ (forall c nd hasall complete,
        apply c nd (EvLastCommit hasall complete) =
        if src_av_last_step (Z.of_N (nS nd)) then nd
        else if src_av_last (skip_commit c) hasall then enter_new_round c nd (nH nd) 1 complete else nd)
  /\ (forall c nd complete has23 hb,
        apply c nd (EvBlockDone complete has23 hb) =
        if src_bp_step (Z.of_N (nS nd)) complete then
          (let nd1 := enter_prevote nd (nH nd) (nR nd) in if src_bp_23 has23 then enter_precommit nd1 (nH nd) (nR nd) else nd1)
        else if src_bp_commit (Z.of_N (nS nd)) then (if hb then finalize nd else nd)
        else nd)
  (* configs *)
  /\ (forall ce interval skip, wait_for_txs (cfg_of ce interval skip) =
        configs__ConsensusConfig_WaitForTxs__ret_not_cfg_IsCreateEmptyBlocks_or_cfg_CreateEmptyBlocksInterval_gt_0 ce interval)
  /\ (forall c r, (wait_for_txs c && (r =? 1)%N)%bool = consensus__ConsensusState_enterNewRound__set_waitForTxs (wait_for_txs c) (Z.of_N r))
  /\ (forall base delta round, 0 <= round < 4294967296 ->
        configs__ConsensusConfig_Propose__ret_time_Duration_cfg_TimeoutPropose_Nanoseconds_plus_cfg_Timeou_924588db base delta round = timeout_dur base delta round
        /\ configs__ConsensusConfig_Prevote__ret_time_Duration_cfg_TimeoutPrevote_Nanoseconds_plus_cfg_Timeou_98ba0541 base delta round = timeout_dur base delta round
        /\ configs__ConsensusConfig_Precommit__ret_time_Duration_cfg_TimeoutPrecommit_Nanoseconds_plus_cfg_Time_fdba3b3f base delta round = timeout_dur base delta round)
  (* weighted median *)
  /\ (forall present, Forall (fun x => 0 <= wt_weight x) present -> total_weight present <= max_int64 ->
        median_time present = wm_loop_src (types_time__WeightedMedian__set_median (total_weight present)) (sort_wt present))
  /\ (forall acc w, in_int64 (acc + w) -> kai_state_cstate__MedianTime__set_totalVotingPower_op acc w = acc + w).

Lemma C04_source_tie_proof : C04_source_tie_statement.
Proof.
  unfold C04_source_tie_statement.
  split; [exact src_accepts|]. split; [exact src_timeout_stale|]. split; [exact src_new_round_guard|].
  split; [exact src_propose_guard|]. split; [exact src_prevote_guard|]. split; [exact src_prevote_wait_guard|].
  split; [exact src_precommit_guard|]. split; [exact src_precommit_wait_guard|]. split; [exact src_commit_guard|].
  split; [exact src_finalize_guard|]. split; [exact src_handle_timeout|]. split; [exact src_round_increment|]. split; [exact src_apply_prevote|]. split; [exact src_apply_precommit|].
  split; [exact src_apply_last_commit|]. split; [exact src_apply_block_done|]. split; [exact src_wait_for_txs|].
  split; [exact src_new_round_wait|]. split; [exact src_timeout_dur|]. split; [exact src_median_time|].
  exact src_total_step.
Qed.
