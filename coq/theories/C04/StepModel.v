(** C04 — the round/step skeleton of consensus/state.go together with the ticker of C04/Model.v.

    What a node is, as far as timeouts are concerned: its height, round and step (cs.Height, cs.Round,
    cs.Step), the flag cs.TriggeredTimeoutPrecommit, its timeoutTicker, and the timeouts that have fired and
    are on their way to the receive routine (tockChan).  Every [enter_*] below is the Go function of the
    same name reduced to (1) its entry guard, literally, (2) its scheduleTimeout call, (3) its
    updateRoundStep; the conditions that depend on votes, blocks and parts (a +2/3 majority, "is the
    proposal complete", "do we have the block") are free booleans of the events, so that the statements
    proved about this skeleton hold whatever the votes are.  The events are the call sites of these
    functions: handleTimeout, addVote (prevote branch, precommit branch, late precommit of the previous
    height), addProposalBlockPart, and the firing of the timer.

    Step numbers are those of consensus/types/round_state.go (RoundStepNewHeight = 1 ... RoundStepCommit
    = 8); rounds start at 1.  uint32 wrap of ti.Round+1 is not modelled (rounds are unbounded here).
    The durations of the timeouts are in [timeout_dur] (configs/config.go Propose/Prevote/Precommit, int64
    wrap included).  No proofs in this file. *)
From Coq Require Import NArith ZArith Bool List.
From Kardia Require Import Base.Int64 C04.Model.
Import ListNotations.
Local Open Scope N_scope.

Definition sNewHeight : N := 1.
Definition sNewRound : N := 2.
Definition sPropose : N := 3.
Definition sPrevote : N := 4.
Definition sPrevoteWait : N := 5.
Definition sPrecommit : N := 6.
Definition sPrecommitWait : N := 7.
Definition sCommit : N := 8.

(** configs.ConsensusConfig as far as the skeleton reads it *)
Record scfg := { create_empty : bool;    (* IsCreateEmptyBlocks *)
                 interval_pos : bool;    (* CreateEmptyBlocksInterval > 0 *)
                 skip_commit : bool }.   (* IsSkipTimeoutCommit *)
(** WaitForTxs(): !cfg.IsCreateEmptyBlocks || cfg.CreateEmptyBlocksInterval > 0 *)
Definition wait_for_txs (c : scfg) : bool := negb (create_empty c) || interval_pos c.

Record node := { nH : N; nR : N; nS : N; nTrig : bool; nTk : ticker; nTocks : list tinfo }.

Definition mk_ti (h r s : N) : tinfo := {| ti_h := h; ti_r := r; ti_s := s |}.

(** updateRoundStep(round, step) *)
Definition set_rs (nd : node) (r s : N) : node :=
  {| nH := nH nd; nR := r; nS := s; nTrig := nTrig nd; nTk := nTk nd; nTocks := nTocks nd |}.
Definition set_trig (nd : node) (b : bool) : node :=
  {| nH := nH nd; nR := nR nd; nS := nS nd; nTrig := b; nTk := nTk nd; nTocks := nTocks nd |}.
(** scheduleTimeout(_, h, r, s): a request to the ticker (the real routine decides) *)
Definition schedule (nd : node) (h r s : N) : node :=
  {| nH := nH nd; nR := nR nd; nS := nS nd; nTrig := nTrig nd;
     nTk := fst (step (nTk nd) (Schedule (mk_ti h r s))); nTocks := nTocks nd |}.

(** the entry guards ("Invalid args": the function returns at once when the guard is true) *)
(* enterNewRound: (cs.Height != height) || (round < cs.Round) || (cs.Round == round) && (cs.Step != RoundStepNewHeight) *)
Definition g_new_round (H R S h r : N) : bool :=
  negb (H =? h) || (r <? R) || ((R =? r) && negb (S =? sNewHeight)).
(* enterPropose/Prevote/PrevoteWait/Precommit: (cs.Height != height) || (round < cs.Round) || (cs.Round == round && <step> <= cs.Step) *)
Definition g_step (k : N) (H R S h r : N) : bool :=
  negb (H =? h) || (r <? R) || ((R =? r) && (k <=? S)).
(* enterPrecommitWait: (cs.Height != height) || (round != cs.Round) || (cs.Round == round && cs.TriggeredTimeoutPrecommit) *)
Definition g_precommit_wait (H R : N) (trig : bool) (h r : N) : bool :=
  negb (H =? h) || negb (r =? R) || ((R =? r) && trig).
(* enterCommit: (cs.Height != height) || RoundStepCommit <= cs.Step *)
Definition g_commit (H S h : N) : bool := negb (H =? h) || (sCommit <=? S).
(* handleTimeout: (ti.Height != rs.Height) || (ti.Round < rs.Round) || (ti.Round == rs.Round && ti.Step < rs.Step) *)
Definition g_timeout_stale (H R S th tr ts : N) : bool :=
  negb (th =? H) || (tr <? R) || ((tr =? R) && (ts <? S)).

(** enterPrevote: guard; (doPrevote: a signed vote on the internal queue;) updateRoundStep(round, Prevote) *)
Definition enter_prevote (nd : node) (h r : N) : node :=
  if g_step sPrevote (nH nd) (nR nd) (nS nd) h r then nd else set_rs nd r sPrevote.

(** enterPropose: guard; scheduleTimeout(Propose(round), h, r, Propose); (decideProposal;) deferred:
    updateRoundStep(round, Propose); if isProposalComplete() { enterPrevote(height, cs.Round) } *)
Definition enter_propose (nd : node) (h r : N) (complete : bool) : node :=
  if g_step sPropose (nH nd) (nR nd) (nS nd) h r then nd
  else let nd1 := set_rs (schedule nd h r sPropose) r sPropose in
       if complete then enter_prevote nd1 h (nR nd1) else nd1.

(** enterNewRound: guard; updateRoundStep(round, NewRound); TriggeredTimeoutPrecommit = false;
    waitForTxs := WaitForTxs() && round == 1: then the NewRound timeout when the interval is positive,
    else enterPropose *)
Definition enter_new_round (c : scfg) (nd : node) (h r : N) (complete : bool) : node :=
  if g_new_round (nH nd) (nR nd) (nS nd) h r then nd
  else let nd1 := set_trig (set_rs nd r sNewRound) false in
       if wait_for_txs c && (r =? 1) then (if interval_pos c then schedule nd1 h r sNewRound else nd1)
       else enter_propose nd1 h r complete.

(** enterPrevoteWait: guard; scheduleTimeout(Prevote(round), h, r, PrevoteWait); updateRoundStep *)
Definition enter_prevote_wait (nd : node) (h r : N) : node :=
  if g_step sPrevoteWait (nH nd) (nR nd) (nS nd) h r then nd
  else set_rs (schedule nd h r sPrevoteWait) r sPrevoteWait.

(** enterPrecommit: guard; (the precommit;) updateRoundStep(round, Precommit) *)
Definition enter_precommit (nd : node) (h r : N) : node :=
  if g_step sPrecommit (nH nd) (nR nd) (nS nd) h r then nd else set_rs nd r sPrecommit.

(** enterPrecommitWait: guard; scheduleTimeout(Precommit(round), h, r, PrecommitWait);
    TriggeredTimeoutPrecommit = true (the step does not change) *)
Definition enter_precommit_wait (nd : node) (h r : N) : node :=
  if g_precommit_wait (nH nd) (nR nd) (nTrig nd) h r then nd
  else set_trig (schedule nd h r sPrecommitWait) true.

(** finalizeCommit (only in step Commit): updateToState: height+1, round 1, NewHeight, the flag
    cleared; then scheduleRound0: the NewHeight timeout of the new height *)
Definition finalize (nd : node) : node :=
  if nS nd =? sCommit then
    schedule {| nH := nH nd + 1; nR := 1; nS := sNewHeight; nTrig := false; nTk := nTk nd; nTocks := nTocks nd |}
             (nH nd + 1) 1 sNewHeight
  else nd.

(** enterCommit: guard; updateRoundStep(cs.Round, Commit); tryFinalizeCommit: finalizeCommit when the
    block is there *)
Definition enter_commit (nd : node) (h : N) (have_block : bool) : node :=
  if g_commit (nH nd) (nS nd) h then nd
  else let nd1 := set_rs nd (nR nd) sCommit in if have_block then finalize nd1 else nd1.

(** handleTimeout(ti, rs): the staleness guard, then the switch on ti.Step ([complete]: what
    isProposalComplete() answers if enterPropose is reached) *)
Definition handle_timeout (c : scfg) (nd : node) (t : tinfo) (complete : bool) : node :=
  if g_timeout_stale (nH nd) (nR nd) (nS nd) (ti_h t) (ti_r t) (ti_s t) then nd
  else if ti_s t =? sNewHeight then enter_new_round c nd (ti_h t) 1 complete
  else if ti_s t =? sNewRound then enter_propose nd (ti_h t) 1 complete
  else if ti_s t =? sPropose then enter_prevote nd (ti_h t) (ti_r t)
  else if ti_s t =? sPrevoteWait then enter_precommit nd (ti_h t) (ti_r t)
  else if ti_s t =? sPrecommitWait then
    enter_new_round c (enter_precommit nd (ti_h t) (ti_r t)) (ti_h t) (ti_r t + 1) complete
  else nd. (* panic("Invalid timeout step") *)

Fixpoint remove_nth {A : Type} (k : nat) (l : list A) : list A :=
  match l, k with
  | [], _ => []
  | _ :: r, O => r
  | x :: r, S k' => x :: remove_nth k' r
  end.

Definition set_tocks (nd : node) (l : list tinfo) : node :=
  {| nH := nH nd; nR := nR nd; nS := nS nd; nTrig := nTrig nd; nTk := nTk nd; nTocks := l |}.

(** the inputs of the receive routine and the timer, with the vote/block dependent answers as
    parameters *)
Inductive ev :=
| EvFire                                        (* the timer fires: timer.C -> tockChan *)
| EvTock (k : nat) (complete : bool)            (* the k-th timeout in flight reaches handleTimeout *)
| EvPrevote (vr : N) (maj gopc any polcase complete : bool)
    (* addVote, a prevote of round vr of this height was added: maj = TwoThirdsMajority ok,
       gopc = isProposalComplete() || the majority is nil, any = HasTwoThirdsAny,
       polcase = the proposal's POLRound is vr *)
| EvPrecommit (vr : N) (maj nonnil any hasall have_block complete : bool)
    (* addVote, a precommit of round vr of this height was added *)
| EvLastCommit (hasall complete : bool)         (* addVote, a precommit of the previous height *)
| EvBlockDone (complete has23 have_block : bool). (* addProposalBlockPart completed the part set *)

Definition apply (c : scfg) (nd : node) (e : ev) : node :=
  match e with
  | EvFire =>
    match pending (nTk nd) with
    | Some t => {| nH := nH nd; nR := nR nd; nS := nS nd; nTrig := nTrig nd;
                   nTk := fst (step (nTk nd) Fire); nTocks := nTocks nd ++ [t] |}
    | None => nd
    end
  | EvTock k complete =>
    match nth_error (nTocks nd) k with
    | Some t => let nd1 := handle_timeout c nd t complete in set_tocks nd1 (remove_nth k (nTocks nd1))
    | None => nd
    end
  | EvPrevote vr maj gopc any polcase complete =>
    if nS nd =? sCommit then nd  (* "if cs.Step == RoundStepCommit { return }" *)
    else if (nR nd <? vr) && any then enter_new_round c nd (nH nd) vr complete
    else if (nR nd =? vr) && (sPrevote <=? nS nd) then
      (if maj && gopc then enter_precommit nd (nH nd) vr
       else if any then enter_prevote_wait nd (nH nd) vr else nd)
    else if polcase && complete then enter_prevote nd (nH nd) (nR nd)
    else nd
  | EvPrecommit vr maj nonnil any hasall have_block complete =>
    if nS nd =? sCommit then nd
    else if maj then
      let nd1 := enter_new_round c nd (nH nd) vr complete in
      let nd2 := enter_precommit nd1 (nH nd) vr in
      if nonnil then
        let nd3 := enter_commit nd2 (nH nd) have_block in
        if skip_commit c && hasall then enter_new_round c nd3 (nH nd3) 1 false else nd3
      else enter_precommit_wait nd2 (nH nd) vr
    else if (nR nd <=? vr) && any then
      enter_precommit_wait (enter_new_round c nd (nH nd) vr complete) (nH nd) vr
    else nd
  | EvLastCommit hasall complete =>
    if (nS nd =? sNewHeight) && skip_commit c && hasall then enter_new_round c nd (nH nd) 1 complete else nd
  | EvBlockDone complete has23 have_block =>
    if (nS nd <=? sPropose) && complete then
      let nd1 := enter_prevote nd (nH nd) (nR nd) in
      if has23 then enter_precommit nd1 (nH nd) (nR nd) else nd1
    else if nS nd =? sCommit then (if have_block then finalize nd else nd)
    else nd
  end.

Definition run_node (c : scfg) (nd : node) (evs : list ev) : node := fold_left (apply c) evs nd.

(** a node that has just been started at height h0 (NewConsensusState + OnStart: updateToState,
    scheduleRound0) with a new ticker *)
Definition init_node (h0 : N) : node :=
  schedule {| nH := h0; nR := 1; nS := sNewHeight; nTrig := false; nTk := init; nTocks := [] |} h0 1 sNewHeight.

(** the states in which the node does nothing until a timeout arrives: NewHeight, Propose, PrevoteWait,
    NewRound when it waits for transactions with a positive interval, and any step before Commit once
    +2/3-any precommits were seen (PrecommitWait does not change the step) *)
Definition waiting (c : scfg) (nd : node) : Prop :=
  nS nd = sNewHeight \/ nS nd = sPropose \/ nS nd = sPrevoteWait \/
  (nS nd = sNewRound /\ interval_pos c = true) \/
  (nTrig nd = true /\ nS nd < sCommit).

(** a timeout that handleTimeout will not ignore in this state *)
Definition live (nd : node) (t : tinfo) : Prop :=
  ti_h t = nH nd /\ (nR nd < ti_r t \/ (ti_r t = nR nd /\ nS nd <= ti_s t)).

(** (height, round, step) order on node states *)
Definition st_lt (a b : node) : Prop :=
  nH a < nH b \/ (nH a = nH b /\ (nR a < nR b \/ (nR a = nR b /\ nS a < nS b))).

(** the observable part of a node, for the driver *)
Definition node_of (h r s : N) (trig : bool) : node :=
  {| nH := h; nR := r; nS := s; nTrig := trig; nTk := init; nTocks := [] |}.

(* ------------------------------------------------------------------ *)
(** configs/config.go: Propose(round) = time.Duration(TimeoutPropose.Nanoseconds() +
    TimeoutProposeDelta.Nanoseconds()*int64(round)) * time.Nanosecond  (the same for Prevote and
    Precommit), in int64 arithmetic; [round] is a uint32 *)
Definition timeout_dur (base delta round : Z) : Z :=
  wrap64 (wrap64 (base + wrap64 (delta * round)) * 1).
