(** C04 — property theorems only.  The full liveness statement is a Definition in C04/Open.v
    ([C04_liveness_full_statement]); what is proved here are its ingredients. *)
From Coq Require Import List ZArith NArith Arith Bool.
From Kardia Require Import Base.Int64 C01.Power C04.Model C04.Proofs C04.ProofsRound C04.Open C04.MedianModel C04.ProofsMedian.
From Kardia Require Import C04.StepModel C04.ProofsStep C04.ProofsTimeouts Generated.C04Facts C04.SourceTie.
From Kardia Require Import C04.LockModel C04.ProofsLock C04.ProofsOpen C04.ProofsMedianSpec.
Import ListNotations.

(** The ticker never loses the latest timeout (consensus/ticker.go timeoutRoutine): after any
    sequence of requests and firings the pending timeout is the remembered one, it was requested
    (or is the initial EmptyTimeoutInfo), and it is the latest of all requests in (height, round,
    step) order; a request later than every earlier one — the timeout of the step the state machine
    has just entered — is never refused and becomes the pending one. *)
Theorem C04_ticker_progress :
  forall ops, Forall pos_step (scheduled ops) ->
    let k := fst (run init ops) in
    ((forall p, pending k = Some p -> p = last k) /\
     (last k = empty_ti \/ In (last k) (scheduled ops)) /\
     Forall (fun t => le3 t (last k)) (scheduled ops)) /\
    (forall t, pos_step t -> lt3 empty_ti t -> Forall (fun t' => lt3 t' t) (scheduled ops) ->
               step k (Schedule t) = ({| last := t; pending := Some t |}, Acc)).
Proof.
  intros ops Hpos k. split; [exact (ticker_latest ops Hpos)|].
  intros t Ht H0 Hall. exact (ticker_newer_accepted ops t Hpos Ht H0 Hall).
Qed.
Print Assumptions C04_ticker_progress.

(** A refused request is covered by a timeout at least as late that was accepted before. *)
Theorem C04_ticker_refusal_covered :
  forall ops t, Forall pos_step (scheduled ops) ->
    snd (step (fst (run init ops)) (Schedule t)) = Ign ->
    le3 t (last (fst (run init ops))) /\
    (last (fst (run init ops)) = empty_ti \/ In (last (fst (run init ops))) (scheduled ops)).
Proof. exact ticker_refusal_covered. Qed.
Print Assumptions C04_ticker_refusal_covered.

(** The timeout that fires is the pending one: the latest request. *)
Theorem C04_ticker_fires_latest :
  forall ops t, Forall pos_step (scheduled ops) ->
    snd (step (fst (run init ops)) Fire) = Fired t ->
    t = last (fst (run init ops)) /\ Forall (fun t' => le3 t' t) (scheduled ops).
Proof. exact ticker_fire. Qed.
Print Assumptions C04_ticker_fires_latest.

(** Good round (abstract decision rules of doPrevote / enterPrecommit / enterCommit): correct
    validators above two thirds of the power, the same valid proposal block at all of them before
    they prevote, no lock on another block, each other's votes delivered => every correct validator
    prevotes b, sees a polka for b only, precommits b and meets the commit condition for b only. *)
Theorem C04_good_round :
  forall powers, Forall (fun p => (0 <= p)%Z) powers ->
  forall (B : Type) (B_eq_dec : forall x y : B, {x = y} + {x <> y}) (correct : nat -> bool),
    (2 * Power.total powers < 3 * Power.pw powers correct)%Z ->
  forall (valid : B -> bool) (b : B), valid b = true ->
  forall (locked pblock : nat -> option B),
    (forall i, correct i = true -> pblock i = Some b) ->
    (forall i, correct i = true -> locked i = None \/ locked i = Some b) ->
  forall (prevotes precommits : nat -> voteset B),
    (forall j, correct j = true ->
       has_correct_votes powers B correct (prevotes j) (fun i => do_prevote B valid (locked i) (pblock i))) ->
    (forall j, correct j = true ->
       has_correct_votes powers B correct (precommits j)
         (fun i => do_precommit B B_eq_dec (Some (Some b)) (locked i) (pblock i))) ->
  forall j, correct j = true ->
    do_prevote B valid (locked j) (pblock j) = Some b /\
    (maj23 powers B B_eq_dec (prevotes j) (Some b) /\
     forall y, maj23 powers B B_eq_dec (prevotes j) y -> y = Some b) /\
    do_precommit B B_eq_dec (Some (Some b)) (locked j) (pblock j) = Some b /\
    commits powers B B_eq_dec (precommits j) (pblock j) b /\
    (forall y, maj23 powers B B_eq_dec (precommits j) y -> y = Some b).
Proof. exact good_round. Qed.
Print Assumptions C04_good_round.

(** Two +2/3 values of one vote set are equal (so "the" polka / "the" commit value is well defined). *)
Theorem C04_maj23_unique :
  forall powers, Forall (fun p => (0 <= p)%Z) powers ->
  forall (B : Type) (B_eq_dec : forall x y : B, {x = y} + {x <> y}) (vs : voteset B) x y,
    maj23 powers B B_eq_dec vs x -> maj23 powers B B_eq_dec vs y -> x = y.
Proof. exact maj23_unique. Qed.
Print Assumptions C04_maj23_unique.

(** REFUTED: "the block time computed by MedianTime lies between timestamps of correct validators".
    Witness: four validators of power 1, a commit of three signatures, one signer faulty (below one
    third of the total power) with the earliest timestamp: types/time WeightedMedian ([median <=
    weight] with median = 3/2 = 1) returns the faulty timestamp, which is before every correct one.
    With such a LastCommit every correct proposer builds a block whose time is not after the previous
    block's: the reachable permanent halt exhibited by the harness (class no-progress, "bft-time:").
    The last conjunct: the strict comparison would have picked a correct timestamp. *)
Theorem C04_median_byzantine_refuted :
  let T := 4%Z in
  (3 * faulty_weight witness < T)%Z /\ (2 * T < 3 * total_weight witness)%Z /\
  median_time witness = Some 0%Z /\
  (forall x, In x witness -> wt_faulty x = false -> (0 < wt_time x)%Z) /\
  median_time_strict witness = Some 100%Z.
Proof. exact median_byzantine_refuted. Qed.
Print Assumptions C04_median_byzantine_refuted.

(** Remark (the repair that was not applied because it changes the time of existing blocks): with
    [median < weight] faulty signers holding less than half of the present power cannot pull the
    block time below every correct timestamp. *)
Theorem C04_median_strict_lower_bound :
  forall present t,
    Forall (fun x => (0 <= wt_weight x)%Z) present ->
    (2 * faulty_weight present < total_weight present)%Z ->
    median_time_strict present = Some t ->
    exists c, In c present /\ wt_faulty c = false /\ (wt_time c <= t)%Z.
Proof. exact median_strict_lower_bound. Qed.
Print Assumptions C04_median_strict_lower_bound.

(** NO TIMEOUT IS LOST (round/step skeleton of consensus/state.go + the ticker, C04/StepModel.v; the vote and
    block dependent conditions are free parameters of the events, so this holds whatever the votes are): after
    any sequence of timer firings, handled timeouts, added prevotes / precommits / late precommits and
    completed block part sets of a node started at height h0, if the node is in a state in which it only waits
    for a timeout - NewHeight, Propose, PrevoteWait, NewRound with a positive CreateEmptyBlocksInterval, or any
    step before Commit once TriggeredTimeoutPrecommit is set - then a timeout that handleTimeout will not
    ignore is pending in its ticker or in flight to its receive routine.  (DESIGN: C04_timeout_progress; the
    only waiting state without a timeout is "commit decided, block missing" = step Commit.) *)
Theorem C04_timeout_never_lost :
  forall (c : scfg) (h0 : N) (evs : list ev), (1 <= h0)%N ->
    let nd := run_node c (init_node h0) evs in
    waiting c nd -> exists t, (pending (nTk nd) = Some t \/ In t (nTocks nd)) /\ live nd t.
Proof. exact timeout_never_lost. Qed.
Print Assumptions C04_timeout_never_lost.

(** ... and when such a timeout (pending or in flight) reaches handleTimeout, the node moves strictly forward
    in (height, round, step); one that is not live (another height, an earlier round, an earlier step of the
    round) changes nothing. *)
Theorem C04_timeout_handled_progress :
  forall (c : scfg) (h0 : N) (evs : list ev) (t : tinfo) (cp : bool), (1 <= h0)%N ->
    let nd := run_node c (init_node h0) evs in
    (pending (nTk nd) = Some t \/ In t (nTocks nd)) ->
    (live nd t -> st_lt nd (handle_timeout c nd t cp)) /\
    (~ live nd t -> handle_timeout c nd t cp = nd).
Proof. exact timeout_handled_progress. Qed.
Print Assumptions C04_timeout_handled_progress.

(** Step NewRound is a resting state only in round 1 of a node whose configuration waits for transactions
    (so the one waiting state of the skeleton without a timeout is NewRound with IsCreateEmptyBlocks = false,
    which the evidence lists as an assumption: nothing in consensus/ reacts to TxsAvailable). *)
Theorem C04_new_round_rest :
  forall (c : scfg) (h0 : N) (evs : list ev),
    let nd := run_node c (init_node h0) evs in nS nd = sNewRound -> nR nd = 1%N /\ wait_for_txs c = true.
Proof. exact new_round_rest. Qed.
Print Assumptions C04_new_round_rest.

(** The timeouts outgrow any message delay: with a positive delta, every round beyond D / delta has a
    Propose / Prevote / Precommit timeout longer than D, as long as base + delta * round stays in int64
    ([timeout_dur] is configs/config.go's int64 expression, wraps included). *)
Theorem C04_timeouts_outgrow_delay :
  forall base delta D r, (0 <= base)%Z -> (0 < delta)%Z -> (0 <= r)%Z -> (D / delta < r)%Z ->
    (base + delta * r <= max_int64)%Z -> (D < timeout_dur base delta r)%Z.
Proof. exact timeouts_outgrow_delay. Qed.
Print Assumptions C04_timeouts_outgrow_delay.

(** With the shipped configuration (Generated/C04Facts.v, read from configs.DefaultConsensusConfig() on every
    check) no uint32 round overflows: round r has the timeouts base + delta * r with positive deltas. *)
Theorem C04_default_timeouts_exact :
  forall r, (0 <= r < 4294967296)%Z ->
    timeout_dur default_timeout_propose default_timeout_propose_delta r = (default_timeout_propose + default_timeout_propose_delta * r)%Z /\
    timeout_dur default_timeout_prevote default_timeout_prevote_delta r = (default_timeout_prevote + default_timeout_prevote_delta * r)%Z /\
    timeout_dur default_timeout_precommit default_timeout_precommit_delta r = (default_timeout_precommit + default_timeout_precommit_delta * r)%Z /\
    (0 < default_timeout_propose_delta)%Z /\ (0 < default_timeout_prevote_delta)%Z /\ (0 < default_timeout_precommit_delta)%Z.
Proof. exact default_timeouts_exact. Qed.
Print Assumptions C04_default_timeouts_exact.

(** The step numbering and EmptyTimeoutInfo of the models are those of the repository (facts regenerated from
    consensus/types and consensus.EmptyTimeoutInfo()). *)
Theorem C04_facts_steps :
  Z.of_N sNewHeight = fact_step_new_height /\ Z.of_N sNewRound = fact_step_new_round /\ Z.of_N sPropose = fact_step_propose /\
  Z.of_N sPrevote = fact_step_prevote /\ Z.of_N sPrevoteWait = fact_step_prevote_wait /\ Z.of_N sPrecommit = fact_step_precommit /\
  Z.of_N sPrecommitWait = fact_step_precommit_wait /\ Z.of_N sCommit = fact_step_commit /\
  Z.of_N (ti_h empty_ti) = fact_empty_ti_height /\ Z.of_N (ti_r empty_ti) = fact_empty_ti_round /\ Z.of_N (ti_s empty_ti) = fact_empty_ti_step.
Proof. exact facts_steps. Qed.
Print Assumptions C04_facts_steps.

(** SOURCE TIE: the models' guards and arithmetic ARE the expressions go2coq translates from the Go sources on
    every check (ticker filter, handleTimeout's staleness test, the entry guards of the enter functions, addVote's
    and addProposalBlockPart's conditions around them, WaitForTxs, the timeout durations, WeightedMedian's loop
    and MedianTime's sum).  Statement in C04/SourceTie.v. *)
Theorem C04_source_tie : C04_source_tie_statement.
Proof. exact C04_source_tie_proof. Qed.
Print Assumptions C04_source_tie.

(** PARTIAL (liveness of the synchronous suffix under timely delivery, C04/LockModel.v: all correct validators
    count the same prevote and precommit sets in a round, a block with a polka reaches every correct validator
    before it leaves the round; Byzantine validators vote and propose arbitrarily): correct validators above
    two thirds of the power, [polka_of] the +2/3 value of a vote set, a run of rounds r0, r0+1, ... from a
    well-formed configuration in which the locks of the correct validators agree ([Inv]), every correct
    validator the proposer at least once in every window of w rounds => one of the first 2 w rounds decides
    the same block at EVERY correct validator.  Missing for the full property: see C04/Open.v (rotation bound
    from C12, parts from C13, validity of a correct proposer's new block, refinement from ConsensusState). *)
Theorem C04_liveness_partial :
  forall powers, Forall (fun p => (0 <= p)%Z) powers ->
  forall (B : Type) (B_eq_dec : forall x y : B, {x = y} + {x <> y}) (correct : nat -> bool),
    (2 * Power.total powers < 3 * Power.pw powers correct)%Z ->
    (forall i, correct i = true -> (i < Power.n powers)%nat) ->
  forall (valid : B -> bool) (proposer : nat -> nat) (polka_of : voteset B -> option (option B)),
    (forall vs y, polka_of vs = Some y <-> maj23 powers B B_eq_dec vs y) ->
  forall (r0 : nat) (cfs : nat -> conf B) (ds : nat -> nat -> option B),
    (forall k, shared_round powers B B_eq_dec correct valid proposer polka_of (r0 + k) (cfs k) (cfs (S k)) (ds k)) ->
    Inv B correct valid (cfs 0%nat) ->
  forall w : nat,
    (forall i, correct i = true -> forall r, exists r', (r <= r' < r + w)%nat /\ proposer r' = i) ->
    exists k x, (k < 2 * w)%nat /\ forall i, correct i = true -> ds k i = Some x.
Proof. exact suffix_decides. Qed.
Print Assumptions C04_liveness_partial.

(** The agreement of the locks at the start of the suffix follows from the code's two lock rules once the
    polkas of the earlier rounds are known to every correct validator: a lock (b, lr) is taken on the polka of
    round lr; a polka of a later round for another block releases it. *)
Theorem C04_locks_agree_from_polkas :
  forall (B : Type) (correct : nat -> bool) (c : conf B) (polka_at : nat -> option B),
    (forall i b lr, correct i = true -> locked B (c i) = Some (b, lr) -> polka_at lr = Some b) ->
    (forall i b lr r b', correct i = true -> locked B (c i) = Some (b, lr) -> (lr < r)%nat ->
                         polka_at r = Some b' -> b' = b) ->
    locks_agree B correct c.
Proof. exact locks_agree_from_polkas. Qed.
Print Assumptions C04_locks_agree_from_polkas.

(** [polka_of] exists for every validator set: a computable function that returns the +2/3 value of a vote set. *)
Theorem C04_polka_of_exists :
  forall powers, Forall (fun p => (0 <= p)%Z) powers ->
  forall (B : Type) (B_eq_dec : forall x y : B, {x = y} + {x <> y}) (vs : voteset B) (y : option B),
    polka_fn powers B B_eq_dec vs = Some y <-> maj23 powers B B_eq_dec vs y.
Proof. exact polka_fn_spec. Qed.
Print Assumptions C04_polka_of_exists.

(** REFUTED: the full statement as it was written in C04/Open.v (arbitrary locks after the prefix, only the
    current round's prevotes delivered).  Witness: four validators of power 1, the first three correct,
    validator 0 locked on block 1 and validator 1 on block 2 (round 0), a correct proposer in every round:
    the prevotes are 1, 2 and the proposal, no polka, nil precommits, for ever. *)
Theorem C04_liveness_full_statement_refuted : ~ C04_liveness_full_statement.
Proof. exact liveness_full_statement_refuted. Qed.
Print Assumptions C04_liveness_full_statement_refuted.

(** What WeightedMedian computes (the `median <= weight` loop over the entries sorted by time, as coded): the
    time of an entry such that the entries with a time up to it weigh at least floor(total / 2), while for
    every entry with an earlier time the entries up to that time weigh less (the harness checks exactly this
    on the real function: oracle median-spec). *)
Theorem C04_median_time_spec :
  forall present t,
    Forall (fun x => (0 <= wt_weight x)%Z) present ->
    median_time present = Some t ->
    (exists e, In e present /\ wt_time e = t) /\
    (total_weight present / 2 <= cum_le present t)%Z /\
    (forall y, In y present -> (wt_time y < t)%Z -> (cum_le present (wt_time y) < total_weight present / 2)%Z).
Proof. exact median_time_spec. Qed.
Print Assumptions C04_median_time_spec.

(** The decision-critical functions of the anchored code have exactly the decisions the source tie knows about
    (go2coq manifests, regenerated from /repo on every check; statement in SourceManifest.v). *)
From Kardia Require Import C04.SourceManifest.
Theorem C04_source_manifest : C04_source_manifest_statement.
Proof. exact C04_source_manifest_proof. Qed.
Print Assumptions C04_source_manifest.
