(** C04 — property theorems only.  The full liveness statement is a Definition in C04/Open.v
    ([C04_liveness_full_statement]); what is proved here are its ingredients. *)
From Coq Require Import List ZArith NArith Arith Bool.
From Kardia Require Import C01.Power C04.Model C04.Proofs C04.ProofsRound C04.Open C04.MedianModel C04.ProofsMedian.
Import ListNotations.

(** The ticker never loses the latest timeout (consensus/ticker.go timeoutRoutine): after any
    sequence of requests and firings the pending timeout is the remembered one, it was requested
    (or is the initial EmptyTimeoutInfo), and it is the latest of all requests in (height, round,
    step) order; a request later than every earlier one — the timeout of the step the state machine
    has just entered — is never refused and becomes the pending one. *)
Theorem C04_ticker_progress :
  forall ops, Forall pos_step (scheduled ops) ->
    let k := fst (run init ops) in
    ((forall p, pending k = Some p -> p = last k) /\
     (last k = empty_ti \/ In (last k) (scheduled ops)) /\
     Forall (fun t => le3 t (last k)) (scheduled ops)) /\
    (forall t, pos_step t -> lt3 empty_ti t -> Forall (fun t' => lt3 t' t) (scheduled ops) ->
               step k (Schedule t) = ({| last := t; pending := Some t |}, Acc)).
Proof.
  intros ops Hpos k. split; [exact (ticker_latest ops Hpos)|].
  intros t Ht H0 Hall. exact (ticker_newer_accepted ops t Hpos Ht H0 Hall).
Qed.
Print Assumptions C04_ticker_progress.

(** A refused request is covered by a timeout at least as late that was accepted before. *)
Theorem C04_ticker_refusal_covered :
  forall ops t, Forall pos_step (scheduled ops) ->
    snd (step (fst (run init ops)) (Schedule t)) = Ign ->
    le3 t (last (fst (run init ops))) /\
    (last (fst (run init ops)) = empty_ti \/ In (last (fst (run init ops))) (scheduled ops)).
Proof. exact ticker_refusal_covered. Qed.
Print Assumptions C04_ticker_refusal_covered.

(** The timeout that fires is the pending one: the latest request. *)
Theorem C04_ticker_fires_latest :
  forall ops t, Forall pos_step (scheduled ops) ->
    snd (step (fst (run init ops)) Fire) = Fired t ->
    t = last (fst (run init ops)) /\ Forall (fun t' => le3 t' t) (scheduled ops).
Proof. exact ticker_fire. Qed.
Print Assumptions C04_ticker_fires_latest.

(** Good round (abstract decision rules of doPrevote / enterPrecommit / enterCommit): correct
    validators above two thirds of the power, the same valid proposal block at all of them before
    they prevote, no lock on another block, each other's votes delivered => every correct validator
    prevotes b, sees a polka for b only, precommits b and meets the commit condition for b only. *)
Theorem C04_good_round :
  forall powers, Forall (fun p => (0 <= p)%Z) powers ->
  forall (B : Type) (B_eq_dec : forall x y : B, {x = y} + {x <> y}) (correct : nat -> bool),
    (2 * Power.total powers < 3 * Power.pw powers correct)%Z ->
  forall (valid : B -> bool) (b : B), valid b = true ->
  forall (locked pblock : nat -> option B),
    (forall i, correct i = true -> pblock i = Some b) ->
    (forall i, correct i = true -> locked i = None \/ locked i = Some b) ->
  forall (prevotes precommits : nat -> voteset B),
    (forall j, correct j = true ->
       has_correct_votes powers B correct (prevotes j) (fun i => do_prevote B valid (locked i) (pblock i))) ->
    (forall j, correct j = true ->
       has_correct_votes powers B correct (precommits j)
         (fun i => do_precommit B B_eq_dec (Some (Some b)) (locked i) (pblock i))) ->
  forall j, correct j = true ->
    do_prevote B valid (locked j) (pblock j) = Some b /\
    (maj23 powers B B_eq_dec (prevotes j) (Some b) /\
     forall y, maj23 powers B B_eq_dec (prevotes j) y -> y = Some b) /\
    do_precommit B B_eq_dec (Some (Some b)) (locked j) (pblock j) = Some b /\
    commits powers B B_eq_dec (precommits j) (pblock j) b /\
    (forall y, maj23 powers B B_eq_dec (precommits j) y -> y = Some b).
Proof. exact good_round. Qed.
Print Assumptions C04_good_round.

(** Two +2/3 values of one vote set are equal (so "the" polka / "the" commit value is well defined). *)
Theorem C04_maj23_unique :
  forall powers, Forall (fun p => (0 <= p)%Z) powers ->
  forall (B : Type) (B_eq_dec : forall x y : B, {x = y} + {x <> y}) (vs : voteset B) x y,
    maj23 powers B B_eq_dec vs x -> maj23 powers B B_eq_dec vs y -> x = y.
Proof. exact maj23_unique. Qed.
Print Assumptions C04_maj23_unique.

(** REFUTED: "the block time computed by MedianTime lies between timestamps of correct validators".
    Witness: four validators of power 1, a commit of three signatures, one signer faulty (below one
    third of the total power) with the earliest timestamp: types/time WeightedMedian ([median <=
    weight] with median = 3/2 = 1) returns the faulty timestamp, which is before every correct one.
    With such a LastCommit every correct proposer builds a block whose time is not after the previous
    block's: the reachable permanent halt exhibited by the harness (class no-progress, "bft-time:").
    The last conjunct: the strict comparison would have picked a correct timestamp. *)
Theorem C04_median_byzantine_refuted :
  let T := 4%Z in
  (3 * faulty_weight witness < T)%Z /\ (2 * T < 3 * total_weight witness)%Z /\
  median_time witness = Some 0%Z /\
  (forall x, In x witness -> wt_faulty x = false -> (0 < wt_time x)%Z) /\
  median_time_strict witness = Some 100%Z.
Proof. exact median_byzantine_refuted. Qed.
Print Assumptions C04_median_byzantine_refuted.

(** Remark (the repair that was not applied because it changes the time of existing blocks): with
    [median < weight] faulty signers holding less than half of the present power cannot pull the
    block time below every correct timestamp. *)
Theorem C04_median_strict_lower_bound :
  forall present t,
    Forall (fun x => (0 <= wt_weight x)%Z) present ->
    (2 * faulty_weight present < total_weight present)%Z ->
    median_time_strict present = Some t ->
    exists c, In c present /\ wt_faulty c = false /\ (wt_time c <= t)%Z.
Proof. exact median_strict_lower_bound. Qed.
Print Assumptions C04_median_strict_lower_bound.
