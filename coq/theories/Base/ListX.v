(** Small list utilities shared by the models (stdlib style). *)
From Coq Require Import List Arith ZArith Lia.
Import ListNotations.

Fixpoint set_nth {A} (n : nat) (x : A) (l : list A) : list A :=
  match n, l with
  | O, _ :: t => x :: t
  | S n', h :: t => h :: set_nth n' x t
  | _, [] => []
  end.

Lemma set_nth_length {A} n (x : A) l : length (set_nth n x l) = length l.
Proof. revert n; induction l as [|h t IH]; destruct n; simpl; auto. Qed.

Lemma nth_error_set_nth_eq {A} n (x : A) l : n < length l -> nth_error (set_nth n x l) n = Some x.
Proof. revert n; induction l as [|h t IH]; destruct n; simpl; intros; try lia; auto. apply IH; lia. Qed.

Lemma nth_error_set_nth_neq {A} n m (x : A) l : n <> m -> nth_error (set_nth n x l) m = nth_error l m.
Proof.
  revert n m; induction l as [|h t IH]; destruct n, m; simpl; intros; auto; try congruence.
Qed.

Lemma set_nth_oob {A} n (x : A) l : length l <= n -> set_nth n x l = l.
Proof. revert n; induction l as [|h t IH]; destruct n; simpl; intros; auto; try lia. f_equal. apply IH. lia. Qed.
