(** Extracting [anchor] makes sure nat, positive, N and Z all exist in the extracted
    model.ml, so that the shared OCaml glue (ocaml/common/conv.ml) compiles for every property. *)
From Coq Require Import ZArith NArith.
Definition anchor (a : nat) (b : N) (c : Z) (d : positive) : nat := a.
