(** Semantics of the Go machine-integer operations that the source translator /verif/go2coq emits.
    Every integer value is a [Z]; an operation at Go type [t] computes the exact result in [Z] and
    wraps it into the range of [t] (two's complement for signed types, modular for unsigned ones),
    exactly as the Go specification prescribes for non-constant integer arithmetic.
    Division and shifts are only emitted for NON-ZERO CONSTANT divisors / constant shift counts (the
    translator refuses anything else), so the totalisation of [Z.quot _ 0] is never reached. *)
From Coq Require Import ZArith Bool Lia.
From Kardia Require Import Base.Int64.
Local Open Scope Z_scope.

Inductive ity := I8 | I16 | I32 | I64 | U8 | U16 | U32 | U64.

Definition wrap (t : ity) (z : Z) : Z :=
  match t with
  | I8 => (z + 128) mod 256 - 128
  | I16 => (z + 32768) mod 65536 - 32768
  | I32 => (z + 2147483648) mod 4294967296 - 2147483648
  | I64 => (z + 9223372036854775808) mod 18446744073709551616 - 9223372036854775808
  | U8 => z mod 256
  | U16 => z mod 65536
  | U32 => z mod 4294967296
  | U64 => z mod 18446744073709551616
  end.

Definition in_range (t : ity) (z : Z) : Prop :=
  match t with
  | I8 => -128 <= z <= 127
  | I16 => -32768 <= z <= 32767
  | I32 => -2147483648 <= z <= 2147483647
  | I64 => -9223372036854775808 <= z <= 9223372036854775807
  | U8 => 0 <= z <= 255
  | U16 => 0 <= z <= 65535
  | U32 => 0 <= z <= 4294967295
  | U64 => 0 <= z <= 18446744073709551615
  end.

Definition go_add (t : ity) (a b : Z) : Z := wrap t (a + b).
Definition go_sub (t : ity) (a b : Z) : Z := wrap t (a - b).
Definition go_mul (t : ity) (a b : Z) : Z := wrap t (a * b).
Definition go_neg (t : ity) (a : Z) : Z := wrap t (- a).
(** Go's integer division truncates toward zero, the remainder has the sign of the dividend *)
Definition go_quot (t : ity) (a b : Z) : Z := wrap t (Z.quot a b).
Definition go_rem (t : ity) (a b : Z) : Z := wrap t (Z.rem a b).
Definition go_shl (t : ity) (a k : Z) : Z := wrap t (a * 2 ^ k).
(** [>>] is an arithmetic shift on signed and a logical shift on unsigned operands; on an in-range
    [Z] both are the floor division by [2^k] *)
Definition go_shr (t : ity) (a k : Z) : Z := wrap t (a / 2 ^ k).
Definition go_and (t : ity) (a b : Z) : Z := wrap t (Z.land a b).
Definition go_or (t : ity) (a b : Z) : Z := wrap t (Z.lor a b).
Definition go_xor (t : ity) (a b : Z) : Z := wrap t (Z.lxor a b).
Definition go_conv (t : ity) (a : Z) : Z := wrap t a.
Definition go_neqb (a b : Z) : bool := negb (Z.eqb a b).

(** math/bits *)
Definition go_bits_add64 (x y c : Z) : Z * Z :=
  ((x + y + c) mod 18446744073709551616, (x + y + c) / 18446744073709551616).
Definition go_bits_sub64 (x y b : Z) : Z * Z :=
  ((x - y - b) mod 18446744073709551616, if Z.ltb (x - y - b) 0 then 1 else 0).
Definition go_bits_mul64 (x y : Z) : Z * Z :=
  ((x * y) / 18446744073709551616, (x * y) mod 18446744073709551616).

Lemma wrap_id t z : in_range t z -> wrap t z = z.
Proof.
  destruct t; unfold in_range, wrap; intros H;
    first [ rewrite Z.mod_small by lia; lia | apply Z.mod_small; lia ].
Qed.

Lemma wrap_range t z : in_range t (wrap t z).
Proof.
  destruct t; unfold in_range, wrap;
    match goal with |- context [ ?a mod ?m ] => pose proof (Z.mod_pos_bound a m ltac:(lia)) end; lia.
Qed.

Lemma wrap_I64 z : wrap I64 z = wrap64 z.
Proof. reflexivity. Qed.
Lemma wrap_U64 z : wrap U64 z = wrapu64 z.
Proof. reflexivity. Qed.
Lemma in_range_I64 z : in_range I64 z <-> in_int64 z.
Proof. unfold in_range, in_int64, min_int64, max_int64, two63. lia. Qed.

Lemma go_neqb_spec a b : go_neqb a b = true <-> a <> b.
Proof. unfold go_neqb. rewrite negb_true_iff, Z.eqb_neq. tauto. Qed.

Definition modulus (t : ity) : Z :=
  match t with
  | I8 | U8 => 256 | I16 | U16 => 65536 | I32 | U32 => 4294967296 | I64 | U64 => 18446744073709551616
  end.

Lemma wrap_spec t e : exists k, wrap t e = e + k * modulus t.
Proof.
  destruct t; unfold wrap, modulus;
    match goal with
    | |- context [ ?a mod ?m ] => exists (- (a / m)); pose proof (Z.div_mod a m ltac:(lia)); lia
    end.
Qed.

(** [gosem]: unfold the operations and discharge every wrap whose argument is provably in range. *)
Ltac gosem_unfold :=
  unfold go_add, go_sub, go_mul, go_neg, go_quot, go_rem, go_shl, go_shr, go_conv, go_neqb in *.
Ltac gosem_wraps :=
  repeat match goal with
         | |- context [ wrap ?t ?e ] => rewrite (wrap_id t e) by (unfold in_range in *; lia)
         end.
Ltac gosem := gosem_unfold; gosem_wraps.

(** [abstract_wraps]: replace every [wrap t e] by a fresh integer [w] with [w = e + k * 2^bits] and
    [w] in the range of [t]; what remains is linear integer arithmetic. *)
Ltac abstract_wraps :=
  repeat match goal with
         | |- context [ wrap ?t ?e ] =>
             let w := fresh "w" in let k := fresh "k" in let Hk := fresh "Hk" in let Hr := fresh "Hr" in
             destruct (wrap_spec t e) as [k Hk]; pose proof (wrap_range t e) as Hr;
             set (w := wrap t e) in *; clearbody w; cbn [modulus in_range] in Hk, Hr
         | H : context [ wrap ?t ?e ] |- _ =>
             let w := fresh "w" in let k := fresh "k" in let Hk := fresh "Hk" in let Hr := fresh "Hr" in
             destruct (wrap_spec t e) as [k Hk]; pose proof (wrap_range t e) as Hr;
             set (w := wrap t e) in *; clearbody w; cbn [modulus in_range] in Hk, Hr
         end.

(** [bool_cases]: case analysis on every integer comparison of the goal *)
Ltac bool_cases :=
  repeat (rewrite ?Z.gtb_ltb, ?Z.geb_leb;
          match goal with
          | |- context [ Z.ltb ?x ?y ] => destruct (Z.ltb_spec x y)
          | |- context [ Z.leb ?x ?y ] => destruct (Z.leb_spec x y)
          | |- context [ Z.eqb ?x ?y ] => destruct (Z.eqb_spec x y)
          end; cbn [andb orb negb xorb]).

(** the usual closing script of a source-tie lemma *)
Ltac gosolve :=
  gosem_unfold; abstract_wraps; bool_cases;
  try reflexivity; try lia; try (exfalso; lia); repeat f_equal; try lia.
