(** Machine integers as explicit wraps of [Z]; used wherever the Go code computes in
    int64 / uint64 / uint32 and the property is about (absence of) overflow. *)
From Coq Require Import ZArith Lia.
Local Open Scope Z_scope.

Definition two63 : Z := 9223372036854775808.
Definition two64 : Z := 18446744073709551616.
Definition max_int64 : Z := two63 - 1.
Definition min_int64 : Z := - two63.

(** two's-complement int64 wrap-around *)
Definition wrap64 (z : Z) : Z := (z + two63) mod two64 - two63.
(** uint64 / uint32 wrap-around *)
Definition wrapu64 (z : Z) : Z := z mod two64.
Definition wrapu32 (z : Z) : Z := z mod 4294967296.

Definition in_int64 (z : Z) : Prop := min_int64 <= z <= max_int64.

Lemma wrap64_id z : in_int64 z -> wrap64 z = z.
Proof.
  unfold in_int64, wrap64, min_int64, max_int64, two63, two64. intros H.
  rewrite Z.mod_small; lia.
Qed.

Lemma wrap64_range z : in_int64 (wrap64 z).
Proof.
  unfold in_int64, wrap64, min_int64, max_int64, two63, two64.
  pose proof (Z.mod_pos_bound (z + 9223372036854775808) 18446744073709551616 ltac:(lia)). lia.
Qed.

Lemma wrapu64_id z : 0 <= z < two64 -> wrapu64 z = z.
Proof. unfold wrapu64. intros. apply Z.mod_small; lia. Qed.

(** Go's int64 division truncates toward zero: [Z.quot]. *)
Definition div64 (a b : Z) : Z := wrap64 (Z.quot a b).

(** safeAddClip / safeSubClip of types/validator_set.go *)
Definition safe_add_clip (a b : Z) : Z :=
  let c := a + b in
  if Z.ltb max_int64 c then max_int64 else if Z.ltb c min_int64 then min_int64 else c.
Definition safe_sub_clip (a b : Z) : Z :=
  let c := a - b in
  if Z.ltb max_int64 c then max_int64 else if Z.ltb c min_int64 then min_int64 else c.

Lemma safe_add_clip_exact a b : in_int64 (a + b) -> safe_add_clip a b = a + b.
Proof.
  unfold safe_add_clip, in_int64. intros H.
  destruct (Z.ltb_spec max_int64 (a+b)); [lia|].
  destruct (Z.ltb_spec (a+b) min_int64); lia.
Qed.
