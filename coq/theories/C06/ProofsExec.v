(** C06 (c) — receipts, cumulative gas and bloom are functions of the list of per-transaction
    results; skipped transactions leave no trace; the bloom does not even depend on the order of
    the logs; and (d) the proposer's own block passes validateBlock. *)
From Coq Require Import List ZArith NArith Bool Lia Permutation.
From Kardia Require Import Base.Int64 C06.Model C06.ProofsMap.
Import ListNotations.
Local Open Scope Z_scope.

Section BloomFacts.
  Variables bits_addr bits_topic : N -> list N.

  Lemma sorted_bloom_add b p : sorted b -> sorted (bloom_add b p).
  Proof. apply sorted_set. Qed.

  Lemma bloom_add_comm b x y : sorted b -> bloom_add (bloom_add b x) y = bloom_add (bloom_add b y) x.
  Proof.
    intros S. unfold bloom_add. destruct (N.eq_dec x y) as [->|D]; [reflexivity|].
    apply set_set_comm; assumption.
  Qed.

  Lemma bloom_bits_perm ps ps' : Permutation ps ps' -> fold_left bloom_add ps [] = fold_left bloom_add ps' [].
  Proof.
    intros P. apply (fold_left_perm_all bloom_add sorted); auto.
    - intros a x. apply sorted_bloom_add.
    - intros a x y. apply bloom_add_comm.
    - exact I.
  Qed.

  Lemma bloom_logs_perm logs logs' :
    Permutation logs logs' -> bloom_of_logs bits_addr bits_topic logs = bloom_of_logs bits_addr bits_topic logs'.
  Proof. intros P. unfold bloom_of_logs. apply bloom_bits_perm, Permutation_flat_map, P. Qed.

  Definition logs_of (r : txres) : list log := match r with Skipped => [] | Applied _ _ l => l end.
  Definition gas_of (r : txres) : Z := match r with Skipped => 0 | Applied _ g _ => g end.
  Definition is_applied (r : txres) : bool := match r with Skipped => false | Applied _ _ _ => true end.

  Lemma receipts_skip cum rs :
    receipts_from bits_addr bits_topic cum (filter is_applied rs) = receipts_from bits_addr bits_topic cum rs.
  Proof.
    revert cum. induction rs as [|[|st g l] t IH]; intros cum; cbn [filter is_applied receipts_from]; auto.
    f_equal. apply IH.
  Qed.

  Lemma receipts_logs cum rs :
    flat_map r_logs (receipts_from bits_addr bits_topic cum rs) = flat_map logs_of rs.
  Proof.
    revert cum. induction rs as [|[|st g l] t IH]; intros cum; cbn [receipts_from flat_map logs_of r_logs]; auto.
    rewrite IH. reflexivity.
  Qed.

  (** skipped (rejected and reverted) transactions leave no trace in the results of the block *)
  Lemma exec_skip rs :
    exec_summary bits_addr bits_topic (filter is_applied rs) = exec_summary bits_addr bits_topic rs.
  Proof. unfold exec_summary. rewrite receipts_skip. reflexivity. Qed.

  (** the block bloom is the bloom of all logs of the applied transactions — in any order *)
  Lemma exec_bloom rs logs :
    Permutation logs (flat_map logs_of rs) ->
    snd (exec_summary bits_addr bits_topic rs) = bloom_of_logs bits_addr bits_topic logs.
  Proof. intros P. unfold exec_summary. cbn [snd]. rewrite receipts_logs. symmetry. apply bloom_logs_perm, P. Qed.

  (** every receipt's own bloom is the bloom of its logs, its status and gas are the transaction's *)
  Lemma receipts_pointwise cum rs :
    map (fun r => (r_status r, r_gas r, r_logs r, r_bloom r)) (receipts_from bits_addr bits_topic cum rs) =
    flat_map (fun r => match r with
                       | Skipped => []
                       | Applied st g l => [(st, g, l, bloom_of_logs bits_addr bits_topic l)]
                       end) rs.
  Proof.
    revert cum. induction rs as [|[|st g l] t IH]; intros cum; cbn [receipts_from flat_map map]; auto.
    cbn [app r_status r_gas r_logs r_bloom]. f_equal. apply IH.
  Qed.

  (** cumulative gas: the exact running sum as long as it stays below 2^64 (the block gas limit
      does that: gas used <= GasPool <= header.GasLimit, C09) *)
  Definition total_gas (rs : list txres) : Z := fold_right (fun r acc => gas_of r + acc) 0 rs.

  Lemma total_gas_cons r t : total_gas (r :: t) = gas_of r + total_gas t.
  Proof. reflexivity. Qed.

  Lemma total_gas_nonneg rs : Forall (fun r => 0 <= gas_of r) rs -> 0 <= total_gas rs.
  Proof. induction 1 as [|r t H F IH]; [cbn; lia|rewrite total_gas_cons; lia]. Qed.

  Lemma last_cons {A} (l : list A) : forall x d, last (x :: l) d = last l x.
  Proof.
    induction l as [|y t IH]; intros x d; [reflexivity|].
    change (last (x :: y :: t) d) with (last (y :: t) d). rewrite (IH y d), (IH y x). reflexivity.
  Qed.

  Lemma gas_last cum rs :
    Forall (fun r => 0 <= gas_of r) rs -> 0 <= cum -> cum + total_gas rs < two64 ->
    last (map r_cum (receipts_from bits_addr bits_topic cum rs)) cum = cum + total_gas rs.
  Proof.
    revert cum. induction rs as [|[|st g l] t IH]; intros cum F C B; inversion F as [|? ? G F']; subst.
    - cbn. lia.
    - cbn [receipts_from]. rewrite total_gas_cons in *. cbn [gas_of] in *. rewrite IH by (auto; lia). lia.
    - rewrite total_gas_cons in B. cbn [gas_of] in B, G.
      pose proof (total_gas_nonneg t F') as TN.
      cbn [receipts_from map r_cum].
      assert (wrapu64 (cum + g) = cum + g) as W by (apply wrapu64_id; lia).
      rewrite W, last_cons, total_gas_cons. cbn [gas_of].
      rewrite (IH (cum + g) F') by lia. lia.
  Qed.

  Lemma gas_used_total rs :
    Forall (fun r => 0 <= gas_of r) rs -> total_gas rs < two64 ->
    snd (fst (exec_summary bits_addr bits_topic rs)) = total_gas rs.
  Proof.
    intros F B. unfold exec_summary, gas_used. cbn [fst snd].
    rewrite (gas_last 0 rs F); lia.
  Qed.
End BloomFacts.

(* ------------------------------------------------------------------ *)
(** * (d) the proposer's own block *)

Lemma own_block_valid st sigs cok med nev maxev pin :
  s_initial_height st = 1%N ->
  (s_last_height st = 0%N -> sigs = 0%N) ->
  (s_last_height st <> 0%N -> cok = true /\ s_last_time st < med) ->
  nev <= maxev -> pin = true ->
  validate_block st (create_proposal_block st sigs cok med nev maxev pin) = VOk.
Proof.
  intros HI H0 H1 HE ->.
  unfold validate_block, create_proposal_block.
  cbn [b_height b_last_block_id b_app_hash b_vals_hash b_next_vals_hash b_time b_basic_ok b_commit_nil
       b_commit_sigs b_commit_ok b_median b_evidence b_max_evidence b_proposer_in negb].
  rewrite HI. rewrite !N.eqb_refl. cbn [negb andb].
  destruct (N.eq_dec (s_last_height st) 0) as [Z|NZ].
  - rewrite Z. rewrite (H0 Z). cbn. rewrite Z.eqb_refl. cbn.
    destruct (Z.ltb_spec maxev nev); [lia|reflexivity].
  - destruct (H1 NZ) as [-> LT].
    destruct (N.eqb_spec (s_last_height st) 0) as [|_]; [congruence|]. cbn [andb].
    destruct (N.ltb_spec 0 (s_last_height st)) as [_|]; [|lia]. cbn [andb negb].
    destruct (N.eqb_spec (s_last_height st + 1) 1) as [|_]; [lia|]. cbn [andb negb].
    destruct (N.ltb_spec 1 (s_last_height st + 1)) as [_|]; [|lia].
    destruct (Z.ltb_spec (s_last_time st) med) as [_|]; [|lia]. cbn [negb].
    rewrite Z.eqb_refl. cbn [negb].
    destruct (Z.ltb_spec maxev nev); [lia|reflexivity].
Qed.

(** the hypotheses are satisfiable (first block, and a later block) *)
Example own_block_examples :
  let st0 := {| s_last_height := 0; s_initial_height := 1; s_last_block_id := 0; s_app_hash := 0;
                s_vals_hash := 11; s_next_vals_hash := 12; s_last_time := 1000 |} in
  let st7 := {| s_last_height := 7; s_initial_height := 1; s_last_block_id := 5; s_app_hash := 6;
                s_vals_hash := 11; s_next_vals_hash := 12; s_last_time := 1000 |} in
  validate_block st0 (create_proposal_block st0 0 false 0 0 3 true) = VOk /\
  validate_block st7 (create_proposal_block st7 4 true 1500 1 3 true) = VOk.
Proof. split; vm_compute; reflexivity. Qed.

(** quirks of the code as it is: CreateProposalBlock compares the height with the literal 1, and
    validateBlock wants the first block at LastBlockHeight+1 = 1 AND at InitialHeight: a chain
    whose genesis says initial_height = 5 rejects every first block, including the proposer's *)
Lemma initial_height_quirk :
  let st := {| s_last_height := 0; s_initial_height := 5; s_last_block_id := 0; s_app_hash := 0;
               s_vals_hash := 11; s_next_vals_hash := 12; s_last_time := 1000 |} in
  validate_block st (create_proposal_block st 0 false 0 0 3 true) = VHeight.
Proof. vm_compute. reflexivity. Qed.

(** the proposer caps the evidence with ConsensusParams.Evidence.MaxBytes, the validators with
    ConsensusParams.Block.MaxBytes: with more evidence than the validators' cap the own block is
    rejected (hypothesis [nev <= maxev] above is needed) *)
Lemma evidence_cap_needed :
  let st := {| s_last_height := 0; s_initial_height := 1; s_last_block_id := 0; s_app_hash := 0;
               s_vals_hash := 11; s_next_vals_hash := 12; s_last_time := 1000 |} in
  validate_block st (create_proposal_block st 0 false 0 4 3 true) = VEvidence.
Proof. vm_compute. reflexivity. Qed.
