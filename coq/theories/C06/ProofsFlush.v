(** C06 (a) — the flush of the dirty objects does not depend on the enumeration order of
    Go's maps: neither of stateObjectsPending nor of the objects' pendingStorage. *)
From Coq Require Import List ZArith NArith Bool Lia Permutation.
From Kardia Require Import C06.Model C06.ProofsMap.
Import ListNotations.

(** well-formed content: canonical at both levels *)
Definition wf_content (c : content) : Prop :=
  sorted c /\ forall a acc, In (a, acc) c -> sorted (a_storage acc).

(* ------------------------------------------------------------------ *)
(** * storage level *)

Lemma sorted_set_slot m kv : sorted m -> sorted (set_slot m kv).
Proof. intros S. unfold set_slot. destruct (N.eqb (snd kv) 0); [apply sorted_del|apply sorted_set]; exact S. Qed.

Definition slot_val (v : N) : option N := if N.eqb v 0 then None else Some v.

Lemma get_set_slot m k kv : sorted m ->
  fm_get k (set_slot m kv) = if N.eqb k (fst kv) then slot_val (snd kv) else fm_get k m.
Proof.
  intros S. unfold set_slot, slot_val. destruct (N.eqb (snd kv) 0).
  - apply get_del, S.
  - apply get_set.
Qed.

Lemma set_slot_comm m x y : sorted m -> fst x <> fst y ->
  set_slot (set_slot m x) y = set_slot (set_slot m y) x.
Proof.
  intros S D. apply fmap_ext; [repeat apply sorted_set_slot; exact S|repeat apply sorted_set_slot; exact S|].
  intros k. rewrite !get_set_slot by (try apply sorted_set_slot; exact S).
  destruct (N.eqb_spec k (fst y)), (N.eqb_spec k (fst x)); congruence.
Qed.

Lemma sorted_apply_slots slots base : sorted base -> sorted (apply_slots slots base).
Proof. apply fold_left_pres. intros a x. apply sorted_set_slot. Qed.

Lemma apply_slots_perm slots slots' base :
  sorted base -> NoDup (map fst slots) -> Permutation slots slots' ->
  apply_slots slots base = apply_slots slots' base.
Proof.
  intros S ND P. unfold apply_slots.
  apply (fold_left_perm set_slot fst sorted); auto.
  - intros a x. apply sorted_set_slot.
  - intros a x y. apply set_slot_comm.
Qed.

(* ------------------------------------------------------------------ *)
(** * account level *)

Definition new_account (c : content) (d : dirty) : account :=
  {| a_nonce := d_nonce d; a_balance := d_balance d; a_code := d_code d;
     a_storage := apply_slots (d_slots d) (if d_reset d then [] else storage_of c (d_addr d)) |}.

Lemma commit_one_eq c d :
  commit_one c d = if d_deleted d then fm_del (d_addr d) c else fm_set (d_addr d) (new_account c d) c.
Proof. reflexivity. Qed.

Lemma sorted_commit_one c d : sorted c -> sorted (commit_one c d).
Proof. intros S. rewrite commit_one_eq. destruct (d_deleted d); [apply sorted_del|apply sorted_set]; exact S. Qed.

Lemma get_commit_one c d k : sorted c ->
  fm_get k (commit_one c d) =
  if N.eqb k (d_addr d) then (if d_deleted d then None else Some (new_account c d)) else fm_get k c.
Proof.
  intros S. rewrite commit_one_eq. destruct (d_deleted d).
  - apply get_del, S.
  - apply get_set.
Qed.

Lemma storage_of_commit_other c d a : sorted c -> a <> d_addr d ->
  storage_of (commit_one c d) a = storage_of c a.
Proof.
  intros S D. unfold storage_of. rewrite (get_commit_one c d a S).
  destruct (N.eqb_spec a (d_addr d)); [congruence|reflexivity].
Qed.

Lemma new_account_commit_other c d1 d2 : sorted c -> d_addr d2 <> d_addr d1 ->
  new_account (commit_one c d1) d2 = new_account c d2.
Proof.
  intros S D. unfold new_account. rewrite (storage_of_commit_other c d1 (d_addr d2) S D). reflexivity.
Qed.

Lemma commit_one_comm c d1 d2 : sorted c -> d_addr d1 <> d_addr d2 ->
  commit_one (commit_one c d1) d2 = commit_one (commit_one c d2) d1.
Proof.
  intros S D.
  apply fmap_ext; [repeat apply sorted_commit_one; exact S|repeat apply sorted_commit_one; exact S|].
  intros k.
  rewrite (get_commit_one (commit_one c d1) d2 k) by (apply sorted_commit_one; exact S).
  rewrite (get_commit_one (commit_one c d2) d1 k) by (apply sorted_commit_one; exact S).
  rewrite (get_commit_one c d1 k S), (get_commit_one c d2 k S).
  rewrite (new_account_commit_other c d1 d2 S) by congruence.
  rewrite (new_account_commit_other c d2 d1 S) by congruence.
  destruct (N.eqb_spec k (d_addr d2)), (N.eqb_spec k (d_addr d1)); congruence.
Qed.

Lemma sorted_commit_updates ds c : sorted c -> sorted (commit_updates ds c).
Proof. apply fold_left_pres. intros a x. apply sorted_commit_one. Qed.

(** permuting the objects *)
Lemma commit_updates_perm ds ds' c :
  sorted c -> NoDup (map d_addr ds) -> Permutation ds ds' ->
  commit_updates ds c = commit_updates ds' c.
Proof.
  intros S ND P. unfold commit_updates.
  apply (fold_left_perm commit_one d_addr sorted); auto.
  - intros a x. apply sorted_commit_one.
  - intros a x y. apply commit_one_comm.
Qed.

(* ------------------------------------------------------------------ *)
(** * permuting the slots inside the objects *)

Definition same_upto_slots (d d' : dirty) : Prop :=
  d_addr d = d_addr d' /\ d_deleted d = d_deleted d' /\ d_reset d = d_reset d' /\
  d_nonce d = d_nonce d' /\ d_balance d = d_balance d' /\ d_code d = d_code d' /\
  Permutation (d_slots d) (d_slots d').

Lemma wf_storage_of c a : wf_content c -> sorted (storage_of c a).
Proof.
  intros [S W]. unfold storage_of. destruct (fm_get a c) as [acc|] eqn:E; [|exact I].
  apply (W a acc), get_in_pair, E.
Qed.

Lemma wf_commit_one c d : wf_content c -> wf_content (commit_one c d).
Proof.
  intros WF. pose proof WF as [S W]. split; [apply sorted_commit_one, S|].
  intros a acc H. rewrite commit_one_eq in H. destruct (d_deleted d).
  - apply (W a acc), (in_del _ _ _ H).
  - apply in_set in H. destruct H as [H|H]; [|apply (W a acc), H].
    injection H as _ ->. cbn [new_account a_storage].
    apply sorted_apply_slots. destruct (d_reset d); [exact I|apply wf_storage_of, WF].
Qed.

Lemma commit_one_slots c d d' :
  wf_content c -> NoDup (map fst (d_slots d)) -> same_upto_slots d d' -> commit_one c d = commit_one c d'.
Proof.
  intros WF ND (Ea & Ed & Er & En & Eb & Ec & P).
  rewrite !commit_one_eq. unfold new_account. rewrite <- Ea, <- Ed, <- Er, <- En, <- Eb, <- Ec.
  destruct (d_deleted d); [reflexivity|].
  rewrite (apply_slots_perm (d_slots d) (d_slots d')); [reflexivity| |exact ND|exact P].
  destruct (d_reset d); [exact I|apply wf_storage_of, WF].
Qed.

Lemma commit_updates_slots ds : forall ds1 c,
  wf_content c -> Forall (fun d => NoDup (map fst (d_slots d))) ds -> Forall2 same_upto_slots ds ds1 ->
  commit_updates ds c = commit_updates ds1 c.
Proof.
  induction ds as [|d t IH]; intros ds1 c WF F F2; inversion F2; subst; [reflexivity|].
  inversion F; subst. unfold commit_updates in *. cbn [fold_left].
  rewrite (commit_one_slots c d y WF) by assumption.
  apply IH; [|assumption|assumption].
  apply wf_commit_one, WF.
Qed.

(** the full statement: any reordering of the objects and, inside every object, of its slots *)
Definition wf_dirty (ds : list dirty) : Prop :=
  NoDup (map d_addr ds) /\ Forall (fun d => NoDup (map fst (d_slots d))) ds.

Definition reordering (ds ds' : list dirty) : Prop :=
  exists ds1, Forall2 same_upto_slots ds ds1 /\ Permutation ds1 ds'.

Lemma same_upto_slots_addrs ds : forall ds1, Forall2 same_upto_slots ds ds1 -> map d_addr ds = map d_addr ds1.
Proof.
  induction ds as [|d t IH]; intros ds1 F; inversion F; subst; [reflexivity|].
  cbn [map]. f_equal; [|apply IH; assumption]. match goal with H : same_upto_slots _ _ |- _ => destruct H as (E & _) end. exact E.
Qed.

Lemma commit_order_free c ds ds' :
  wf_content c -> wf_dirty ds -> reordering ds ds' -> commit_updates ds c = commit_updates ds' c.
Proof.
  intros WF [ND F] (ds1 & F2 & P).
  rewrite (commit_updates_slots ds ds1 c WF F F2).
  apply commit_updates_perm; [apply WF| |exact P].
  rewrite <- (same_upto_slots_addrs ds ds1 F2). exact ND.
Qed.

(** hence the root, whatever function of the content it is *)
Lemma root_order_free {H : Type} (root : content -> H) c ds ds' :
  wf_content c -> wf_dirty ds -> reordering ds ds' ->
  commit_updates ds c = commit_updates ds' c /\ root (commit_updates ds c) = root (commit_updates ds' c).
Proof. intros WF WD R. pose proof (commit_order_free c ds ds' WF WD R) as E. split; [exact E|rewrite E; reflexivity]. Qed.

Lemma wf_commit_updates ds : forall c, wf_content c -> wf_content (commit_updates ds c).
Proof.
  induction ds as [|d t IH]; intros c WF; [exact WF|].
  unfold commit_updates in *. cbn [fold_left]. apply IH, wf_commit_one, WF.
Qed.

(* ------------------------------------------------------------------ *)
(** * what the driver computes: [flush_both] *)

Lemma permute_perm {A} (idx idx' : list nat) (l : list A) :
  Permutation idx idx' -> Permutation (permute idx l) (permute idx' l).
Proof. intros P. unfold permute. apply Permutation_flat_map, P. Qed.


Lemma same_upto_rev d : same_upto_slots d (rev_slots d).
Proof. unfold same_upto_slots, rev_slots; cbn. repeat split; try reflexivity. apply Permutation_rev. Qed.

Lemma Forall2_map_rev ds : Forall2 same_upto_slots ds (map rev_slots ds).
Proof. induction ds as [|d t IH]; cbn [map]; constructor; [apply same_upto_rev|exact IH]. Qed.

(** if the index list makes [permute idx ds] a permutation of [ds] (the driver checks nothing:
    the harness sends a permutation of 0..n-1), both runs of [flush_both] agree *)
Lemma flush_both_agree idx ds c :
  wf_content c -> wf_dirty ds -> Permutation ds (permute idx ds) ->
  fst (flush_both idx ds c) = snd (flush_both idx ds c).
Proof.
  intros WF WD P. unfold flush_both. cbn [fst snd].
  apply commit_order_free; [exact WF|exact WD|].
  exists (map rev_slots ds). split; [apply Forall2_map_rev|].
  apply Permutation_map, P.
Qed.

(* ------------------------------------------------------------------ *)
(** * the hypotheses are satisfiable, on a case with a deletion, a re-creation and slot clears *)

Definition ex_content : content :=
  [ (5%N, {| a_nonce := 1; a_balance := 100; a_code := 0; a_storage := [] |});
    (9%N, {| a_nonce := 1; a_balance := 7; a_code := 77; a_storage := [(3%N, 4%N); (8%N, 1%N)] |});
    (12%N, {| a_nonce := 0; a_balance := 1; a_code := 0; a_storage := [] |}) ].

Definition ex_dirty : list dirty :=
  [ {| d_addr := 9; d_deleted := false; d_reset := false; d_nonce := 1; d_balance := 9; d_code := 77;
       d_slots := [(8%N, 0%N); (2%N, 6%N); (3%N, 5%N)] |};
    {| d_addr := 12; d_deleted := true; d_reset := false; d_nonce := 0; d_balance := 0; d_code := 0; d_slots := [] |};
    {| d_addr := 7; d_deleted := false; d_reset := true; d_nonce := 1; d_balance := 3; d_code := 5;
       d_slots := [(1%N, 1%N)] |};
    {| d_addr := 5; d_deleted := false; d_reset := false; d_nonce := 2; d_balance := 50; d_code := 0; d_slots := [] |} ].

Example ex_wf : wf_content ex_content /\ wf_dirty ex_dirty.
Proof.
  split.
  - split.
    + cbn. repeat split; intros k' H; repeat (destruct H as [<-|H]; [lia|]); destruct H.
    + intros a acc H. cbn in H.
      repeat (destruct H as [H|H]; [injection H as <- <-; cbn; repeat split; try (intros k' H'; repeat (destruct H' as [<-|H']; [lia|]); destruct H')|]).
      destruct H.
  - split.
    + cbn. repeat constructor; cbn; intuition lia.
    + repeat constructor; cbn; intuition lia.
Qed.

Example ex_flush :
  flush_both [2; 0; 3; 1]%nat ex_dirty ex_content =
  (let r := [ (5%N, {| a_nonce := 2; a_balance := 50; a_code := 0; a_storage := [] |});
              (7%N, {| a_nonce := 1; a_balance := 3; a_code := 5; a_storage := [(1%N, 1%N)] |});
              (9%N, {| a_nonce := 1; a_balance := 9; a_code := 77; a_storage := [(2%N, 6%N); (3%N, 5%N)] |}) ] in
   (r, r)).
Proof. vm_compute. reflexivity. Qed.

(* ------------------------------------------------------------------ *)
(** * the driver's [permute] with an index list that is a permutation of 0..n-1 is a permutation *)

Lemma permute_seq {A} (l : list A) : forall pre,
  flat_map (fun i => match nth_error (pre ++ l) i with Some x => [x] | None => [] end)
           (seq (length pre) (length l)) = l.
Proof.
  induction l as [|x t IH]; intros pre; cbn [length seq flat_map]; [reflexivity|].
  rewrite nth_error_app2 by lia. rewrite Nat.sub_diag. cbn [nth_error app]. f_equal.
  specialize (IH (pre ++ [x])). rewrite <- app_assoc in IH. cbn [app] in IH.
  rewrite app_length in IH. cbn [length] in IH. rewrite Nat.add_1_r in IH. exact IH.
Qed.

Lemma permute_is_permutation : forall (A : Type) (idx : list nat) (l : list A),
    Permutation idx (seq 0 (length l)) -> Permutation l (permute idx l).
Proof.
  intros A idx l P. unfold permute.
  rewrite (Permutation_flat_map _ P).
  pose proof (permute_seq l []) as E. cbn [app length] in E. rewrite E. apply Permutation_refl.
Qed.

Lemma flush_both_agree_idx idx ds c :
  wf_content c -> wf_dirty ds -> Permutation idx (seq 0 (length ds)) ->
  fst (flush_both idx ds c) = snd (flush_both idx ds c).
Proof. intros WF WD P. apply flush_both_agree; [exact WF|exact WD|apply permute_is_permutation, P]. Qed.
