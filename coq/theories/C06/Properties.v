(** C06 — property theorems only.  Each is closed by [exact] of a lemma proved in Proofs*.v and
    followed by [Print Assumptions].

    The property is PARTIAL by construction: cache warmth, the prefetcher, the snapshot layers, the
    trie node database and its GC mode are runtime artefacts with no counterpart in the model (the
    world state IS its content); that they do not influence the result is what the harness
    samples on the real code (every cache configuration, re-opened and copied databases, fresh
    processes).  What is proved here is why the order in which Go enumerates its maps cannot
    matter, at the four places where the code ranges over a map or consumes a list whose order
    is unspecified.

    Vocabulary.  [content]: canonical finite map address -> account (nonce, balance, code,
    storage as canonical finite map); [wf_content]: keys strictly ascending at both levels;
    [dirty]: one entry of stateObjectsPending (deleted flag, re-created flag, account fields,
    pendingStorage as a list); [wf_dirty]: addresses pairwise distinct, slot keys of each object
    pairwise distinct (they are keys of Go maps); [reordering ds ds']: [ds'] lists the same
    objects in any order, each with its slots in any order; [commit_updates]: the loops of
    IntermediateRoot over the pending objects. *)
From Coq Require Import List ZArith NArith Bool Permutation.
From Kardia Require Import Base.Int64 C06.Model C06.ModelValset C06.ProofsMap C06.ProofsFlush
     C06.ProofsValset C06.ProofsCalc C06.ProofsExec.
Import ListNotations.
Local Open Scope Z_scope.

(** (a) The state after the flush — hence its root, for ANY function [root] of the content —
    does not depend on the order in which the dirty objects and their dirty slots are enumerated. *)
Theorem C06_root_order_free :
  forall (H : Type) (root : content -> H) c ds ds',
    wf_content c -> wf_dirty ds -> reordering ds ds' ->
    commit_updates ds c = commit_updates ds' c /\
    root (commit_updates ds c) = root (commit_updates ds' c).
Proof. intros H root. exact (root_order_free root). Qed.
Print Assumptions C06_root_order_free.

(** well-formedness is an invariant of the flush (so the statement applies block after block) *)
Theorem C06_flush_preserves_wf :
  forall ds c, wf_content c -> wf_content (commit_updates ds c).
Proof. exact wf_commit_updates. Qed.
Print Assumptions C06_flush_preserves_wf.

(** the two runs the model driver performs for every block of the harness (reported order;
    permuted objects with reversed slots) agree *)
Theorem C06_flush_runs_agree :
  forall idx ds c, wf_content c -> wf_dirty ds -> Permutation ds (permute idx ds) ->
    fst (flush_both idx ds c) = snd (flush_both idx ds c).
Proof. exact flush_both_agree. Qed.
Print Assumptions C06_flush_runs_agree.

(** (b) UpdateWithChangeSet (error classes collapsed to "rejected, set unchanged"): any
    permutation of the change set gives the same validator set, priorities included. *)
Theorem C06_valset_order_free :
  forall s cs cs', Permutation cs cs' -> update s cs = update s cs'.
Proof. exact update_order_free. Qed.
Print Assumptions C06_valset_order_free.

(** calculateValidatorSetUpdates + UpdateWithChangeSet (code as repaired by 530b44a): the order
    in which the application reports its validators does not matter, for ANY report ... *)
Theorem C06_reported_order_free :
  forall s vals vals', Permutation vals vals' -> apply_reported s vals = apply_reported s vals'.
Proof. exact apply_reported_order_free. Qed.
Print Assumptions C06_reported_order_free.

(** ... a report that lists an address twice being rejected in every order (before the repair
    one order could be accepted and another rejected; found by this check) *)
Theorem C06_reported_duplicates_rejected :
  forall s vals, ~ NoDup (map v_addr vals) -> apply_reported s vals = UpdErr.
Proof. exact apply_reported_dup_rejected. Qed.
Print Assumptions C06_reported_duplicates_rejected.

(** ... nor does the order in which `for valAddr := range last` emits the removals (any
    permutation of the computed change set) *)
Theorem C06_removal_order_free :
  forall s vals cs, Permutation (calculate_updates (vs_vals s) vals) cs ->
    update s cs = apply_reported s vals.
Proof. exact apply_changes_order_free. Qed.
Print Assumptions C06_removal_order_free.

(** (c) Receipts, gas used and bloom are a function of the list of per-transaction results in
    which rejected transactions leave no trace ... *)
Theorem C06_exec_function :
  forall (bits_addr bits_topic : N -> list N) rs,
    exec_summary bits_addr bits_topic (filter is_applied rs) = exec_summary bits_addr bits_topic rs.
Proof. exact exec_skip. Qed.
Print Assumptions C06_exec_function.

(** ... receipt by receipt: status, gas and logs are the transaction's, the receipt bloom is the
    bloom of its logs ... *)
Theorem C06_exec_receipts :
  forall (bits_addr bits_topic : N -> list N) cum rs,
    map (fun r => (r_status r, r_gas r, r_logs r, r_bloom r)) (receipts_from bits_addr bits_topic cum rs) =
    flat_map (fun r => match r with
                       | Skipped => []
                       | Applied st g l => [(st, g, l, bloom_of_logs bits_addr bits_topic l)]
                       end) rs.
Proof. exact receipts_pointwise. Qed.
Print Assumptions C06_exec_receipts.

(** ... the block bloom is the bloom of the logs of the applied transactions, in ANY order (so
    it is order-sensitive through nothing at all) ... *)
Theorem C06_exec_bloom_order_free :
  forall (bits_addr bits_topic : N -> list N) rs logs,
    Permutation logs (flat_map logs_of rs) ->
    snd (exec_summary bits_addr bits_topic rs) = bloom_of_logs bits_addr bits_topic logs.
Proof. exact exec_bloom. Qed.
Print Assumptions C06_exec_bloom_order_free.

(** ... and the gas used is the exact sum of the gas of the applied transactions while that
    sum is below 2^64 (uint64 accumulation never wraps under a block gas limit). *)
Theorem C06_exec_gas_is_sum :
  forall (bits_addr bits_topic : N -> list N) rs,
    Forall (fun r => 0 <= gas_of r) rs -> total_gas rs < two64 ->
    snd (fst (exec_summary bits_addr bits_topic rs)) = total_gas rs.
Proof. exact gas_used_total. Qed.
Print Assumptions C06_exec_gas_is_sum.

(** (d) PARTIAL (header fields only; Block.ValidateBasic, VerifyCommit, MedianTime, evidence
    checks enter as data): the block CreateProposalBlock builds from a state is accepted by
    validateBlock against the same state, provided the chain starts at height 1, the proposer
    is a validator, it includes a valid commit of the previous block whose median time is later
    than the previous block's time (empty commit for the first block), and no more evidence than
    the validators' cap. *)
Theorem C06_own_block_valid_partial :
  forall st sigs cok med nev maxev pin,
    s_initial_height st = 1%N ->
    (s_last_height st = 0%N -> sigs = 0%N) ->
    (s_last_height st <> 0%N -> cok = true /\ s_last_time st < med) ->
    nev <= maxev -> pin = true ->
    validate_block st (create_proposal_block st sigs cok med nev maxev pin) = VOk.
Proof. exact own_block_valid. Qed.
Print Assumptions C06_own_block_valid_partial.

(** the two side conditions are needed with the code as it is *)
Theorem C06_own_block_initial_height_quirk :
  let st := {| s_last_height := 0; s_initial_height := 5; s_last_block_id := 0; s_app_hash := 0;
               s_vals_hash := 11; s_next_vals_hash := 12; s_last_time := 1000 |} in
  validate_block st (create_proposal_block st 0 false 0 0 3 true) = VHeight.
Proof. exact initial_height_quirk. Qed.
Print Assumptions C06_own_block_initial_height_quirk.

Theorem C06_own_block_evidence_cap_needed :
  let st := {| s_last_height := 0; s_initial_height := 1; s_last_block_id := 0; s_app_hash := 0;
               s_vals_hash := 11; s_next_vals_hash := 12; s_last_time := 1000 |} in
  validate_block st (create_proposal_block st 0 false 0 4 3 true) = VEvidence.
Proof. exact evidence_cap_needed. Qed.
Print Assumptions C06_own_block_evidence_cap_needed.
