(** C06 — property theorems only.  Each is closed by [exact] of a lemma proved in Proofs*.v and
    followed by [Print Assumptions].

    The property is PARTIAL by construction: cache warmth, the prefetcher, the snapshot layers, the
    trie node database and its GC mode are runtime artefacts with no counterpart in the model (the
    world state IS its content); that they do not influence the result is what the harness
    samples on the real code (every cache configuration, re-opened and copied databases, fresh
    processes).  What is proved here is why the order in which Go enumerates its maps cannot
    matter, at the four places where the code ranges over a map or consumes a list whose order
    is unspecified.

    Vocabulary.  [content]: canonical finite map address -> account (nonce, balance, code,
    storage as canonical finite map); [wf_content]: keys strictly ascending at both levels;
    [dirty]: one entry of stateObjectsPending (deleted flag, re-created flag, account fields,
    pendingStorage as a list); [wf_dirty]: addresses pairwise distinct, slot keys of each object
    pairwise distinct (they are keys of Go maps); [reordering ds ds']: [ds'] lists the same
    objects in any order, each with its slots in any order; [commit_updates]: the loops of
    IntermediateRoot over the pending objects. *)
From Coq Require Import List ZArith NArith Bool Permutation.
From Kardia Require Import Base.Int64 C06.Model C06.ModelValset C06.ModelSnap C06.ProofsMap C06.ProofsFlush
     C06.ProofsValset C06.ProofsCalc C06.ProofsExec C06.ProofsSnapInv C06.ProofsSnapView C06.ProofsSnapChain.
Import ListNotations.
Local Open Scope Z_scope.

(** (a) The state after the flush — hence its root, for ANY function [root] of the content —
    does not depend on the order in which the dirty objects and their dirty slots are enumerated. *)
Theorem C06_root_order_free :
  forall (H : Type) (root : content -> H) c ds ds',
    wf_content c -> wf_dirty ds -> reordering ds ds' ->
    commit_updates ds c = commit_updates ds' c /\
    root (commit_updates ds c) = root (commit_updates ds' c).
Proof. intros H root. exact (root_order_free root). Qed.
Print Assumptions C06_root_order_free.

(** well-formedness is an invariant of the flush (so the statement applies block after block) *)
Theorem C06_flush_preserves_wf :
  forall ds c, wf_content c -> wf_content (commit_updates ds c).
Proof. exact wf_commit_updates. Qed.
Print Assumptions C06_flush_preserves_wf.

(** the two runs the model driver performs for every block of the harness (reported order;
    permuted objects with reversed slots) agree *)
Theorem C06_flush_runs_agree :
  forall idx ds c, wf_content c -> wf_dirty ds -> Permutation ds (permute idx ds) ->
    fst (flush_both idx ds c) = snd (flush_both idx ds c).
Proof. exact flush_both_agree. Qed.
Print Assumptions C06_flush_runs_agree.

(** ... whenever the index list the harness sends is a permutation of 0..n-1 (it always is) *)
Theorem C06_permute_is_permutation :
  forall (A : Type) (idx : list nat) (l : list A),
    Permutation idx (seq 0 (length l)) -> Permutation l (permute idx l).
Proof. exact permute_is_permutation. Qed.
Print Assumptions C06_permute_is_permutation.

Theorem C06_flush_runs_agree_idx :
  forall idx ds c, wf_content c -> wf_dirty ds -> Permutation idx (seq 0 (length ds)) ->
    fst (flush_both idx ds c) = snd (flush_both idx ds c).
Proof. exact flush_both_agree_idx. Qed.
Print Assumptions C06_flush_runs_agree_idx.

(** (b) UpdateWithChangeSet (error classes collapsed to "rejected, set unchanged"): any
    permutation of the change set gives the same validator set, priorities included. *)
Theorem C06_valset_order_free :
  forall s cs cs', Permutation cs cs' -> update s cs = update s cs'.
Proof. exact update_order_free. Qed.
Print Assumptions C06_valset_order_free.

(** calculateValidatorSetUpdates + UpdateWithChangeSet (code as repaired by 530b44a): the order
    in which the application reports its validators does not matter, for ANY report ... *)
Theorem C06_reported_order_free :
  forall s vals vals', Permutation vals vals' -> apply_reported s vals = apply_reported s vals'.
Proof. exact apply_reported_order_free. Qed.
Print Assumptions C06_reported_order_free.

(** ... a report that lists an address twice being rejected in every order (before the repair
    one order could be accepted and another rejected; found by this check) *)
Theorem C06_reported_duplicates_rejected :
  forall s vals, ~ NoDup (map v_addr vals) -> apply_reported s vals = UpdErr.
Proof. exact apply_reported_dup_rejected. Qed.
Print Assumptions C06_reported_duplicates_rejected.

(** ... nor does the order in which `for valAddr := range last` emits the removals (any
    permutation of the computed change set) *)
Theorem C06_removal_order_free :
  forall s vals cs, Permutation (calculate_updates (vs_vals s) vals) cs ->
    update s cs = apply_reported s vals.
Proof. exact apply_changes_order_free. Qed.
Print Assumptions C06_removal_order_free.

(** (c) Receipts, gas used and bloom are a function of the list of per-transaction results in
    which rejected transactions leave no trace ... *)
Theorem C06_exec_function :
  forall (bits_addr bits_topic : N -> list N) rs,
    exec_summary bits_addr bits_topic (filter is_applied rs) = exec_summary bits_addr bits_topic rs.
Proof. exact exec_skip. Qed.
Print Assumptions C06_exec_function.

(** ... receipt by receipt: status, gas and logs are the transaction's, the receipt bloom is the
    bloom of its logs ... *)
Theorem C06_exec_receipts :
  forall (bits_addr bits_topic : N -> list N) cum rs,
    map (fun r => (r_status r, r_gas r, r_logs r, r_bloom r)) (receipts_from bits_addr bits_topic cum rs) =
    flat_map (fun r => match r with
                       | Skipped => []
                       | Applied st g l => [(st, g, l, bloom_of_logs bits_addr bits_topic l)]
                       end) rs.
Proof. exact receipts_pointwise. Qed.
Print Assumptions C06_exec_receipts.

(** ... the block bloom is the bloom of the logs of the applied transactions, in ANY order (so
    it is order-sensitive through nothing at all) ... *)
Theorem C06_exec_bloom_order_free :
  forall (bits_addr bits_topic : N -> list N) rs logs,
    Permutation logs (flat_map logs_of rs) ->
    snd (exec_summary bits_addr bits_topic rs) = bloom_of_logs bits_addr bits_topic logs.
Proof. exact exec_bloom. Qed.
Print Assumptions C06_exec_bloom_order_free.

(** ... and the gas used is the exact sum of the gas of the applied transactions while that
    sum is below 2^64 (uint64 accumulation never wraps under a block gas limit). *)
Theorem C06_exec_gas_is_sum :
  forall (bits_addr bits_topic : N -> list N) rs,
    Forall (fun r => 0 <= gas_of r) rs -> total_gas rs < two64 ->
    snd (fst (exec_summary bits_addr bits_topic rs)) = total_gas rs.
Proof. exact gas_used_total. Qed.
Print Assumptions C06_exec_gas_is_sum.

(** (d) PARTIAL (header fields only; Block.ValidateBasic, VerifyCommit, MedianTime, evidence
    checks enter as data): the block CreateProposalBlock builds from a state is accepted by
    validateBlock against the same state, provided the chain starts at height 1, the proposer
    is a validator, it includes a valid commit of the previous block whose median time is later
    than the previous block's time (empty commit for the first block), and no more evidence than
    the validators' cap. *)
Theorem C06_own_block_valid_partial :
  forall st sigs cok med nev maxev pin,
    s_initial_height st = 1%N ->
    (s_last_height st = 0%N -> sigs = 0%N) ->
    (s_last_height st <> 0%N -> cok = true /\ s_last_time st < med) ->
    nev <= maxev -> pin = true ->
    validate_block st (create_proposal_block st sigs cok med nev maxev pin) = VOk.
Proof. exact own_block_valid. Qed.
Print Assumptions C06_own_block_valid_partial.

(** the two side conditions are needed with the code as it is *)
Theorem C06_own_block_initial_height_quirk :
  let st := {| s_last_height := 0; s_initial_height := 5; s_last_block_id := 0; s_app_hash := 0;
               s_vals_hash := 11; s_next_vals_hash := 12; s_last_time := 1000 |} in
  validate_block st (create_proposal_block st 0 false 0 0 3 true) = VHeight.
Proof. exact initial_height_quirk. Qed.
Print Assumptions C06_own_block_initial_height_quirk.

Theorem C06_own_block_evidence_cap_needed :
  let st := {| s_last_height := 0; s_initial_height := 1; s_last_block_id := 0; s_app_hash := 0;
               s_vals_hash := 11; s_next_vals_hash := 12; s_last_time := 1000 |} in
  validate_block st (create_proposal_block st 0 false 0 4 3 true) = VEvidence.
Proof. exact evidence_cap_needed. Qed.
Print Assumptions C06_own_block_evidence_cap_needed.

Local Close Scope Z_scope.

(** (e) Snapshot configuration (ModelSnap.v: the StateDB overlay of a block with createObject's
    reset branch, the destruct set, Snapshot / RevertToSnapshot, Finalise, Commit; the diff layers
    with their lookup order, flatten, diffToDisk, Cap, the generated disk layer).

    Vocabulary.  [chain_snap keep n blocks]: a node that keeps snapshots executes the blocks (lists
    of StateDB operations as the KVM issues them, reverts included): every read of the parent state
    goes through the diff layers down to the disk layer, Commit flushes into the tries and pushes
    the layer (destructs, accounts, storage), Cap keeps [keep] layers and flattens the rest into
    the disk layer.  [chain_trie c blocks]: a node without snapshots, every read goes to the tries.
    Both return, per block, the state content and the values read.  [genesis_node c]: tries [c],
    no diff layer, the disk layer generated from [c].

    For EVERY chain of blocks, every Cap depth and every (canonical) genesis state the two nodes
    compute the same state after every block and return the same reads: the result of block
    execution does not depend on whether the node keeps snapshots. *)
Theorem C06_snapshot_config_free :
  forall keep c blocks, wf_content c ->
    chain_snap keep (genesis_node c) blocks = chain_trie c blocks.
Proof. exact chain_config_free. Qed.
Print Assumptions C06_snapshot_config_free.

(** ... from any consistent node, not only from genesis (re-opened nodes, any layer stack) *)
Theorem C06_snapshot_config_free_from :
  forall keep blocks n, node_ok n -> chain_snap keep n blocks = chain_trie (n_content n) blocks.
Proof. exact chain_agree. Qed.
Print Assumptions C06_snapshot_config_free_from.

(** ... and the snapshot node stays consistent: after any chain, looking an account or a slot up
    through its layers gives what its tries hold *)
Theorem C06_snapshot_view_invariant :
  forall keep blocks n, node_ok n ->
    view_ok (n_layers (final_snap keep n blocks)) (n_disk (final_snap keep n blocks))
            (n_content (final_snap keep n blocks)).
Proof. exact chain_view. Qed.
Print Assumptions C06_snapshot_view_invariant.

(** one block: the diff layer Commit hands to snapshot.Tree.Update describes exactly the state the
    same Commit flushes into the tries — for ANY overlay reachable by the operations (the
    invariant [inv]) *)
Theorem C06_snapshot_layer_of_commit :
  forall ls dk c st, wf_content c -> view_ok ls dk c -> inv (bk_layers ls dk) st -> dirt st = [] ->
    view_ok (layer_of st :: ls) dk (commit_updates (pending_objs st) c).
Proof. exact view_commit. Qed.
Print Assumptions C06_snapshot_layer_of_commit.

(** the invariant holds after any list of operations, on any backend; in particular every address
    left in stateObjectsDestruct at the end of a block is one of the pending objects: a
    "destructed" mark never covers an account the flush leaves alone (what a missing restore in
    resetObjectChange.revert breaks: ProofsSnapChain.ex_stale_view_breaks) *)
Theorem C06_overlay_invariant :
  forall bk ops, inv bk (fst (run_block bk ops)) /\ dirt (fst (run_block bk ops)) = [].
Proof. exact run_block_inv. Qed.
Print Assumptions C06_overlay_invariant.

Theorem C06_destruct_set_tracked :
  forall bk ops a, mem a (destr (fst (run_block bk ops))) = true ->
    mem a (pend (fst (run_block bk ops))) = true /\ fm_get a (live (fst (run_block bk ops))) <> None.
Proof. exact destruct_tracked. Qed.
Print Assumptions C06_destruct_set_tracked.

(** two parent views that answer every account and slot lookup alike give the same run of a
    block, whether the reads are served by snap.Storage (by address, whatever the object's root)
    or by the object's own storage trie (empty for a re-created object) *)
Theorem C06_overlay_read_path_free :
  forall b1 b2 ops, bk_same b1 b2 -> bk_wf b1 -> run_block b1 ops = run_block b2 ops.
Proof. intros b1 b2 ops S W. exact (same_run_block b1 b2 S W ops). Qed.
Print Assumptions C06_overlay_read_path_free.

(** the snapshot tree below the head: flattening a layer into its parent, writing the bottom
    layer to disk, Cap at any depth and generating the disk layer from a state change no lookup *)
Theorem C06_snapshot_flatten_free :
  forall l p ls dk, wf_layer l -> bk_same (bk_layers (flatten l p :: ls) dk) (bk_layers (l :: p :: ls) dk).
Proof. exact look_flatten. Qed.
Print Assumptions C06_snapshot_flatten_free.

Theorem C06_snapshot_disk_free :
  forall l dk, wf_layer l -> bk_same (bk_layers [] (diff_to_disk l dk)) (bk_layers [l] dk).
Proof. exact look_diff_to_disk. Qed.
Print Assumptions C06_snapshot_disk_free.

Theorem C06_snapshot_cap_free :
  forall n ls dk, Forall wf_layer ls ->
    Forall wf_layer (fst (cap n ls dk)) /\
    bk_same (bk_layers (fst (cap n ls dk)) (snd (cap n ls dk))) (bk_layers ls dk).
Proof. exact look_cap. Qed.
Print Assumptions C06_snapshot_cap_free.

Theorem C06_snapshot_generated_disk_layer :
  forall c, sorted c -> view_ok [] (disk_of_content c) c.
Proof. exact view_genesis. Qed.
Print Assumptions C06_snapshot_generated_disk_layer.

(** (f) Source tie: the guards and integer expressions of validateBlock, CreateProposalBlock,
    calculateValidatorSetUpdates, updateState, ApplyTransaction (cumulative gas), bloomValues /
    Bloom.add, StateDB.Finalise / IntermediateRoot / createObject / getStateObject,
    stateObject.GetCommittedState / AddBalance / SubBalance / empty / updateTrie,
    resetObjectChange.revert, snapshot diffLayer.flatten / Tree.Cap / Tree.cap / diffToDisk are
    translated from /repo's Go source on every check (Generated/C06Source.v); the decisions the
    model takes ARE those expressions on those operands (statement spelled out in SourceTie.v). *)
From Kardia Require Import C06.SourceTie.
Theorem C06_source_tie : C06_source_tie_statement.
Proof. exact C06_source_tie_proof. Qed.
Print Assumptions C06_source_tie.

(** The decision-critical functions of the anchored code have exactly the decisions the source tie knows about
    (go2coq manifests, regenerated from /repo on every check; statement in SourceManifest.v). *)
From Kardia Require Import C06.SourceManifest.
Theorem C06_source_manifest : C06_source_manifest_statement.
Proof. exact C06_source_manifest_proof. Qed.
Print Assumptions C06_source_manifest.
