(** C06 — own copy of the validator-set update model (transcription of types/validator_set.go
    updateWithChangeSet and helpers; the same text as C12/Model.v, which is validated against the
    implementation by the C12 harness and, here, by the V operations of the C06 harness), plus
    cstate.calculateValidatorSetUpdates (kai/state/cstate/execution.go).  No proofs in this file.

    Conventions: an address is the number whose 20-byte big-endian encoding it is; every int64
    expression goes through [wrap64]; a run-time panic is the outcome [None]. *)
From Coq Require Import List ZArith NArith Bool Lia.
From Kardia Require Import Base.Int64 Base.ListX Generated.C06Facts.
Import ListNotations.
Local Open Scope Z_scope.

(* ------------------------------------------------------------------ *)
(** * Data *)

Record validator := { v_addr : N; v_power : Z; v_prio : Z }.

Definition set_prio (v : validator) (p : Z) : validator :=
  {| v_addr := v_addr v; v_power := v_power v; v_prio := p |}.

Record vset := {
  vs_vals : list validator;          (* vs.Validators, in slice order *)
  vs_proposer : option (N * Z);      (* vs.Proposer: (Address, VotingPower) of the object *)
  vs_total : Z }.                    (* cached totalVotingPower *)

Definition empty_vset : vset := {| vs_vals := []; vs_proposer := None; vs_total := 0 |}.

Definition with_vals (s : vset) (l : list validator) : vset :=
  {| vs_vals := l; vs_proposer := vs_proposer s; vs_total := vs_total s |}.
Definition with_total (s : vset) (t : Z) : vset :=
  {| vs_vals := vs_vals s; vs_proposer := vs_proposer s; vs_total := t |}.
Definition with_proposer (s : vset) (p : option (N * Z)) : vset :=
  {| vs_vals := vs_vals s; vs_proposer := p; vs_total := vs_total s |}.

(** error classes of updateWithChangeSet *)
Inductive uerr := UOk | UDup | UNegative | UTooBig | UZeroPower | UUnknown | UOverflow | UEmpty.

(* ------------------------------------------------------------------ *)
(** * Safe maths (literal) *)

Definition safe_add (a b : Z) : Z * bool :=
  if (0 <? b) && (wrap64 (max_int64 - b) <? a) then (-1, true)
  else if (b <? 0) && (a <? wrap64 (min_int64 - b)) then (-1, true)
  else (wrap64 (a + b), false).

Definition safe_sub (a b : Z) : Z * bool :=
  if (0 <? b) && (a <? wrap64 (min_int64 + b)) then (-1, true)
  else if (b <? 0) && (wrap64 (max_int64 + b) <? a) then (-1, true)
  else (wrap64 (a - b), false).

Definition safe_add_clip' (a b : Z) : Z :=
  let '(c, overflow) := safe_add a b in
  if overflow then (if b <? 0 then min_int64 else max_int64) else c.

Definition safe_sub_clip' (a b : Z) : Z :=
  let '(c, overflow) := safe_sub a b in
  if overflow then (if 0 <? b then min_int64 else max_int64) else c.

(* ------------------------------------------------------------------ *)
(** * Sorting (sort.Sort on at most 12 elements is Go's stable insertion sort; on longer
      slices the code only sorts lists whose keys are pairwise distinct or whose tie order
      cannot influence the result, see the comments at each use) *)

Fixpoint insert_by {A} (lt : A -> A -> bool) (x : A) (l : list A) : list A :=
  match l with
  | [] => [x]
  | h :: t => if lt h x then h :: insert_by lt x t else x :: l
  end.
Definition sort_by {A} (lt : A -> A -> bool) (l : list A) : list A :=
  fold_right (insert_by lt) [] l.

(** ValidatorsByAddress.Less *)
Definition addr_lt (a b : validator) : bool := N.ltb (v_addr a) (v_addr b).
(** ValidatorsByVotingPower.Less *)
Definition power_lt (a b : validator) : bool :=
  if Z.eqb (v_power a) (v_power b) then N.ltb (v_addr a) (v_addr b)
  else Z.ltb (v_power b) (v_power a).

(* ------------------------------------------------------------------ *)
(** * Lookups *)

(** GetByAddress (first match) *)
Fixpoint get_by_addr (a : N) (l : list validator) : option validator :=
  match l with
  | [] => None
  | v :: t => if N.eqb a (v_addr v) then Some v else get_by_addr a t
  end.
Definition has_addr (a : N) (l : list validator) : bool :=
  match get_by_addr a l with Some _ => true | None => false end.

(* ------------------------------------------------------------------ *)
(** * Total voting power *)

(** updateTotalVotingPower: [None] is the panic "Total voting power should be guarded" *)
Fixpoint sum_clip (l : list validator) (sum : Z) : option Z :=
  match l with
  | [] => Some sum
  | v :: t =>
    let sum' := safe_add_clip' sum (v_power v) in
    if max_total_voting_power <? sum' then None else sum_clip t sum'
  end.
Definition update_total (s : vset) : option vset :=
  match sum_clip (vs_vals s) 0 with
  | None => None
  | Some t => Some (with_total s t)
  end.
(** TotalVotingPower(): recomputes when the cache is 0 *)
Definition total_voting_power (s : vset) : option (vset * Z) :=
  if vs_total s =? 0 then
    match update_total s with None => None | Some s' => Some (s', vs_total s') end
  else Some (s, vs_total s).

(* ------------------------------------------------------------------ *)
(** * Priorities: rescale, centre, increment *)

(** computeMaxMinPriorityDiff (on a non-empty list), as repaired by eb47a62 *)
Fixpoint max_min (l : list validator) (mx mn : Z) : Z * Z :=
  match l with
  | [] => (mx, mn)
  | v :: t =>
    let mn' := if v_prio v <? mn then v_prio v else mn in
    let mx' := if mx <? v_prio v then v_prio v else mx in
    max_min t mx' mn'
  end.
Definition max_min_diff (l : list validator) : Z :=
  let '(mx, mn) := max_min l min_int64 max_int64 in
  let diff := wrap64 (mx - mn) in
  if diff <? 0 then wrap64 (-1 * diff) else diff.

(** RescalePriorities(diffMax) on a non-empty set; [None]: integer division by zero *)
Definition rescale (l : list validator) (diff_max : Z) : option (list validator) :=
  if diff_max <=? 0 then Some l
  else
    let diff := max_min_diff l in
    let ratio := div64 (wrap64 (wrap64 (diff + diff_max) - 1)) diff_max in
    if diff_max <? diff then
      if ratio =? 0 then None
      else Some (map (fun v => set_prio v (div64 (v_prio v) ratio)) l)
    else Some l.

(** computeAvgProposerPriority: big.Int sum, Euclidean division by n > 0 (= floor);
    [None] is the panic "Cannot represent avg ProposerPriority as an int64" *)
Definition sum_prio (l : list validator) : Z := fold_right (fun v acc => v_prio v + acc) 0 l.
Definition avg_prio (l : list validator) : option Z :=
  let avg := sum_prio l / Z.of_nat (length l) in
  if (min_int64 <=? avg) && (avg <=? max_int64) then Some avg else None.

(** shiftByAvgProposerPriority on a non-empty set *)
Definition shift_by_avg (l : list validator) : option (list validator) :=
  match avg_prio l with
  | None => None
  | Some avg => Some (map (fun v => set_prio v (safe_sub_clip' (v_prio v) avg)) l)
  end.

(** Validator.CompareProposerPriority; [None] is the panic "Cannot compare identical validators" *)
Definition compare_prio (v other : validator) : option bool :=   (* Some true: v wins *)
  if v_prio other <? v_prio v then Some true
  else if v_prio v <? v_prio other then Some false
  else if N.ltb (v_addr v) (v_addr other) then Some true
  else if N.ltb (v_addr other) (v_addr v) then Some false
  else None.

(** getValWithMostPriority: the position of the winner (the code keeps a pointer) *)
Fixpoint most_from (res : nat * validator) (i : nat) (l : list validator) : option (nat * validator) :=
  match l with
  | [] => Some res
  | v :: t =>
    match compare_prio (snd res) v with
    | None => None
    | Some true => most_from res (S i) t
    | Some false => most_from (i, v) (S i) t
    end
  end.
Definition most_priority (l : list validator) : option (nat * validator) :=
  match l with
  | [] => None                         (* nil pointer dereference in the caller *)
  | v :: t => most_from (O, v) 1%nat t
  end.

(** incrementProposerPriority (one round): returns the new set and the proposer *)
Definition increment_once (s : vset) : option (vset * validator) :=
  let l1 := map (fun v => set_prio v (wrap64 (v_prio v + v_power v))) (vs_vals s) in
  match most_priority l1 with
  | None => None
  | Some (i, m) =>
    match total_voting_power (with_vals s l1) with
    | None => None
    | Some (s1, t) =>
      let m' := set_prio m (safe_sub_clip' (v_prio m) t) in
      Some (with_vals s1 (set_nth i m' l1), m')
    end
  end.

Definition iter_state := option (vset * option validator).
Definition iter_step (st : iter_state) : iter_state :=
  match st with
  | None => None
  | Some (s, _) =>
    match increment_once s with
    | None => None
    | Some (s', p) => Some (s', Some p)
    end
  end.

(** IncrementProposerPriority(times) *)
Definition increment (s : vset) (times : Z) : option vset :=
  match vs_vals s with
  | [] => None                                           (* panic("empty validator set") *)
  | _ =>
    match times with
    | Zpos n =>
      match total_voting_power s with
      | None => None
      | Some (s0, t) =>
        let diff_max := wrap64 (priority_window_size_factor * t) in
        match rescale (vs_vals s0) diff_max with
        | None => None
        | Some l1 =>
          match shift_by_avg l1 with
          | None => None
          | Some l2 =>
            match Pos.iter iter_step (Some (with_vals s0 l2, None)) n with
            | Some (s', Some p) => Some (with_proposer s' (Some (v_addr p, v_power p)))
            | _ => None
            end
          end
        end
      end
    | _ => None                                          (* panic: non-positive times *)
    end
  end.

(* ------------------------------------------------------------------ *)
(** * GetProposer / findProposer *)

Fixpoint find_proposer_from (res : option validator) (l : list validator) : option (option validator) :=
  match l with
  | [] => Some res
  | v :: t =>
    match res with
    | None => find_proposer_from (Some v) t
    | Some p =>
      if N.eqb (v_addr v) (v_addr p) then find_proposer_from res t
      else match compare_prio p v with
           | None => None
           | Some true => find_proposer_from res t
           | Some false => find_proposer_from (Some v) t
           end
    end
  end.

(** GetProposer(): result and the (possibly updated) set; outer [None] = panic *)
Definition get_proposer (s : vset) : option (vset * option (N * Z)) :=
  match vs_vals s with
  | [] => Some (s, None)
  | _ =>
    match vs_proposer s with
    | Some p => Some (s, Some p)
    | None =>
      match find_proposer_from None (vs_vals s) with
      | None => None
      | Some None => None                               (* nil.Copy() is nil: cannot happen on a non-empty list *)
      | Some (Some p) =>
        let pr := Some (v_addr p, v_power p) in Some (with_proposer s pr, pr)
      end
    end
  end.

(* ------------------------------------------------------------------ *)
(** * updateWithChangeSet *)

(** processChanges after the sort: scan with prevAddr (initially the zero address) *)
Inductive scan_res := ScanErr (e : uerr) | ScanOk (updates removals : list validator).
Fixpoint process_scan (prev : N) (chs : list validator) : scan_res :=
  match chs with
  | [] => ScanOk [] []
  | c :: t =>
    if N.eqb (v_addr c) prev then ScanErr UDup
    else if v_power c <? 0 then ScanErr UNegative
    else if max_total_voting_power <? v_power c then ScanErr UTooBig
    else match process_scan (v_addr c) t with
         | ScanErr e => ScanErr e
         | ScanOk ups rems =>
           if v_power c =? 0 then ScanOk ups (c :: rems) else ScanOk (c :: ups) rems
         end
  end.
Definition process_changes (changes : list validator) : scan_res :=
  process_scan 0%N (sort_by addr_lt changes).

(** verifyRemovals; outer [None] = panic("more deletes than validators") *)
Fixpoint removed_power (dels vals : list validator) (acc : Z) : Z * bool :=   (* (power, found all) *)
  match dels with
  | [] => (acc, true)
  | d :: t =>
    match get_by_addr (v_addr d) vals with
    | None => (acc, false)
    | Some v => removed_power t vals (wrap64 (acc + v_power v))
    end
  end.
Definition verify_removals (dels vals : list validator) : option (Z * bool) :=
  let '(p, ok) := removed_power dels vals 0 in
  if negb ok then Some (p, false)
  else if Nat.ltb (length vals) (length dels) then None
  else Some (p, true).

(** verifyUpdates: [delta], sort by delta (sort.Slice; ties have equal deltas so their
    order cannot change any partial sum), running total against the cap *)
Definition delta (vals : list validator) (u : validator) : Z :=
  match get_by_addr (v_addr u) vals with
  | Some v => wrap64 (v_power u - v_power v)
  | None => v_power u
  end.
Fixpoint add_deltas (vals ups : list validator) (tvp : Z) : option Z :=   (* None: ErrTotalVotingPowerOverflow *)
  match ups with
  | [] => Some tvp
  | u :: t =>
    let tvp' := wrap64 (tvp + delta vals u) in
    if max_total_voting_power <? tvp' then None else add_deltas vals t tvp'
  end.
Definition verify_updates (ups vals : list validator) (total removed : Z) : option Z :=
  let sorted := sort_by (fun a b => delta vals a <? delta vals b) ups in
  match add_deltas vals sorted (wrap64 (total - removed)) with
  | None => None
  | Some tvp => Some (wrap64 (tvp + removed))
  end.

(** numNewValidators *)
Definition num_new (ups vals : list validator) : nat :=
  length (filter (fun u => negb (has_addr (v_addr u) vals)) ups).

(** computeNewPriorities *)
Definition new_priorities (ups vals : list validator) (tvp : Z) : list validator :=
  map (fun u =>
         match get_by_addr (v_addr u) vals with
         | None => set_prio u (wrap64 (- wrap64 (tvp + Z.shiftr tvp 3)))
         | Some v => set_prio u (v_prio v)
         end) ups.

(** applyUpdates: merge of the address-sorted existing list with the sorted updates *)
Fixpoint merge_updates (ex : list validator) : list validator -> list validator :=
  fix inner (ups : list validator) : list validator :=
    match ex, ups with
    | [], _ => ups
    | _, [] => ex
    | e :: ex', u :: ups' =>
      if N.ltb (v_addr e) (v_addr u) then e :: merge_updates ex' ups
      else if N.eqb (v_addr e) (v_addr u) then u :: merge_updates ex' ups'
      else u :: inner ups'
    end.
Definition apply_updates (vals ups : list validator) : list validator :=
  merge_updates (sort_by addr_lt vals) ups.

(** applyRemovals; [None]: existing[0] on an empty slice (index out of range) *)
Fixpoint apply_removals (ex dels : list validator) {struct ex} : option (list validator) :=
  match dels with
  | [] => Some ex
  | d :: dt =>
    match ex with
    | [] => None
    | e :: et =>
      if N.eqb (v_addr e) (v_addr d) then apply_removals et dt
      else match apply_removals et dels with
           | None => None
           | Some r => Some (e :: r)
           end
    end
  end.

(** result of updateWithChangeSet: panic, or (new set, error class); on error the set is
    returned as the code leaves it *)
Definition update_with_change_set (s : vset) (changes : list validator) (allow_deletes : bool)
  : option (vset * uerr) :=
  match changes with
  | [] => Some (s, UOk)
  | _ =>
    match process_changes changes with
    | ScanErr e => Some (s, e)
    | ScanOk ups dels =>
      if negb allow_deletes && negb (Nat.eqb (length dels) 0) then Some (s, UZeroPower)
      else
      match verify_removals dels (vs_vals s) with
      | None => None
      | Some (_, false) => Some (s, UUnknown)
      | Some (removed, true) =>
        match total_voting_power s with
        | None => None
        | Some (s0, total) =>
          match verify_updates ups (vs_vals s0) total removed with
          | None => Some (s0, UOverflow)
          | Some tvp =>
            if Nat.eqb (num_new ups (vs_vals s0)) 0 && Nat.eqb (length (vs_vals s0)) (length dels)
            then Some (s0, UEmpty)
            else
              let ups' := new_priorities ups (vs_vals s0) tvp in
              let l1 := apply_updates (vs_vals s0) ups' in
              match apply_removals l1 dels with
              | None => None
              | Some l2 =>
                match update_total (with_vals s0 l2) with
                | None => None
                | Some s1 =>
                  match l2 with
                  | [] => None                    (* RescalePriorities panics on an empty set *)
                  | _ =>
                  match total_voting_power s1 with
                  | None => None
                  | Some (s2, t2) =>
                    match rescale (vs_vals s2) (wrap64 (priority_window_size_factor * t2)) with
                    | None => None
                    | Some l3 =>
                      match shift_by_avg l3 with
                      | None => None
                      | Some l4 => Some (with_vals s2 (sort_by power_lt l4), UOk)
                      end
                    end
                  end
                  end
                end
              end
          end
        end
      end
    end
  end.

(* ------------------------------------------------------------------ *)
(** * cstate.calculateValidatorSetUpdates

    [last] is the Go map (address -> power) built from the current NextValidators; the reported
    validators are scanned in the order the application returned them; an entry is an update
    when its address is not (any more) in the map or its power differs; the address is deleted
    from the map after the first visit (a repeated address never gets there: see [has_dup_addr]);
    what remains in the map becomes a removal (power 0).  Go enumerates the remaining keys in
    map-iteration order; the model emits them in the order of [last] — C06_valset_order_free
    is what makes that choice irrelevant. *)

Definition amap := list (N * Z).

Fixpoint amap_get (a : N) (m : amap) : option Z :=
  match m with
  | [] => None
  | (k, p) :: t => if N.eqb a k then Some p else amap_get a t
  end.
Fixpoint amap_del (a : N) (m : amap) : amap :=
  match m with
  | [] => []
  | (k, p) :: t => if N.eqb a k then amap_del a t else (k, p) :: amap_del a t
  end.
(** last[addr] = power: replaces an existing entry in place, else appends *)
Fixpoint amap_put (a : N) (p : Z) (m : amap) : amap :=
  match m with
  | [] => [(a, p)]
  | (k, q) :: t => if N.eqb a k then (k, p) :: t else (k, q) :: amap_put a p t
  end.
Definition amap_of (vals : list validator) : amap :=
  fold_left (fun m v => amap_put (v_addr v) (v_power v) m) vals [].

Definition is_update (m : amap) (v : validator) : bool :=
  match amap_get (v_addr v) m with
  | Some p => negb (Z.eqb p (v_power v))
  | None => true
  end.

Fixpoint calc_scan (m : amap) (vals : list validator) : list validator * amap :=
  match vals with
  | [] => ([], m)
  | v :: t =>
    let '(ups, rest) := calc_scan (amap_del (v_addr v) m) t in
    (if is_update m v then v :: ups else ups, rest)
  end.

Definition removal_of (e : N * Z) : validator := {| v_addr := fst e; v_power := 0; v_prio := 0 |}.

(** the pre-scan added by fix 530b44a: a report that lists an address twice is handed on whole,
    so that UpdateWithChangeSet rejects it ("duplicate entry") whatever the order of its entries *)
Fixpoint has_dup_addr (seen : list N) (vals : list validator) : bool :=
  match vals with
  | [] => false
  | v :: t => if existsb (N.eqb (v_addr v)) seen then true else has_dup_addr (v_addr v :: seen) t
  end.

Definition calculate_updates (last_vals vals : list validator) : list validator :=
  match vals with
  | [] => []
  | _ =>
    if has_dup_addr [] vals then vals
    else let '(ups, rest) := calc_scan (amap_of last_vals) vals in ups ++ map removal_of rest
  end.

(** what updateState does with the change set (before IncrementProposerPriority): the error
    classes are collapsed — consensus only distinguishes "applied" from "rejected". *)
Inductive upd_result := UpdPanic | UpdErr | UpdOk (s : vset).

Definition update (s : vset) (changes : list validator) : upd_result :=
  match update_with_change_set s changes true with
  | None => UpdPanic
  | Some (s', UOk) => UpdOk s'
  | Some (_, _) => UpdErr
  end.

(** ApplyBlock: valUpdates = calculateValidatorSetUpdates(NextValidators, reported); updateState
    applies them only when the list is not empty. *)
Definition apply_reported (s : vset) (reported : list validator) : upd_result :=
  update s (calculate_updates (vs_vals s) reported).
