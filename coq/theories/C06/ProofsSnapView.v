(** C06 — the snapshot layers say what the tries say: after Commit (the new diff layer), after
    flatten, after diffToDisk, after Cap, for the generated disk layer; hence a node that reads
    through its snapshot tree and a node that reads its tries compute the same chain. *)
From Coq Require Import List ZArith NArith Bool Lia.
From Kardia Require Import C06.Model C06.ModelSnap C06.ProofsMap C06.ProofsFlush C06.ProofsSnapInv.
Import ListNotations.

(* ------------------------------------------------------------------ *)
(** * list facts *)

Lemma sorted_nodup {V} (m : fmap V) : sorted m -> NoDup (map fst m).
Proof.
  induction m as [|[k v] t IH]; intros S; cbn [map fst]; [constructor|].
  constructor; [apply (sorted_head_notin _ _ _ S)|apply IH, S].
Qed.

Lemma existsb_keys a (s : fmap unit) : existsb (N.eqb a) (map fst s) = mem a s.
Proof.
  destruct (existsb (N.eqb a) (map fst s)) eqn:E1, (mem a s) eqn:E2; auto.
  - apply existsb_exists in E1 as (x & Hx & Hx'). apply N.eqb_eq in Hx'. subst x.
    apply mem_in in Hx. congruence.
  - apply mem_in in E2.
    assert (existsb (N.eqb a) (map fst s) = true) by (apply existsb_exists; exists a; split; [auto|apply N.eqb_refl]).
    congruence.
Qed.

Lemma existsb_notin a l : ~ In a l -> existsb (N.eqb a) l = false.
Proof.
  intros NI. destruct (existsb (N.eqb a) l) eqn:E; [|reflexivity].
  apply existsb_exists in E as (x & Hx & Hx'). apply N.eqb_eq in Hx'. subst. contradiction.
Qed.

(** an association list built from a duplicate-free key list, at most one entry per key *)
Lemma get_flat_map_single {V} (g : N -> option V) (h : N -> list (N * V)) l a :
  (forall b, h b = match g b with Some x => [(b, x)] | None => [] end) -> NoDup l ->
  fm_get a (flat_map h l) = if existsb (N.eqb a) l then g a else None.
Proof.
  intros H. induction l as [|b t IH]; intros ND; cbn [flat_map existsb]; [reflexivity|].
  inversion ND as [|? ? NI ND']; subst. rewrite H.
  destruct (N.eqb_spec a b) as [->|D]; cbn [orb].
  - destruct (g b) as [x|]; cbn [app fm_get]; [rewrite N.eqb_refl; reflexivity|].
    rewrite (IH ND'), (existsb_notin _ _ NI). reflexivity.
  - destruct (g b) as [x|]; cbn [app fm_get]; [|apply IH, ND'].
    destruct (N.eqb_spec a b); [congruence|]. apply IH, ND'.
Qed.

Lemma keys_flat_map_single {V} (h : N -> list (N * V)) l x :
  (forall b e, In e (h b) -> fst e = b) -> In x (map fst (flat_map h l)) -> In x l.
Proof.
  intros H. induction l as [|b t IH]; cbn [flat_map]; [tauto|].
  rewrite map_app, in_app_iff. intros [I|I]; [left|right; apply IH, I].
  apply in_map_iff in I as (e & <- & He). symmetry. apply (H b e He).
Qed.

(** ... is ascending when the key list is *)
Fixpoint ascending (l : list N) : Prop :=
  match l with
  | [] => True
  | k :: t => (forall k', In k' t -> (k < k')%N) /\ ascending t
  end.

Lemma sorted_ascending {V} (m : fmap V) : sorted m <-> ascending (map fst m).
Proof.
  induction m as [|[k v] t IH]; cbn [map fst sorted ascending]; [tauto|].
  unfold keys. rewrite IH. tauto.
Qed.

Lemma sorted_flat_map_single {V} (h : N -> list (N * V)) l :
  (forall b, h b = [] \/ exists x, h b = [(b, x)]) -> ascending l -> sorted (flat_map h l).
Proof.
  intros H. induction l as [|b t IH]; intros A; cbn [flat_map]; [exact I|].
  destruct A as [F A]. destruct (H b) as [->|[x ->]]; cbn [app]; [apply IH, A|].
  cbn [sorted]. split; [|apply IH, A].
  intros k' Hk. apply F. apply (keys_flat_map_single h t k'); [|exact Hk].
  intros b0 e He. destruct (H b0) as [E|[x0 E]]; rewrite E in He; [destruct He|].
  destruct He as [<-|[]]. reflexivity.
Qed.

(* ------------------------------------------------------------------ *)
(** * the flush, by lookup *)

Lemma slot_of_val v : match slot_val v with Some v' => v' | None => 0%N end = v.
Proof. unfold slot_val. destruct (N.eqb_spec v 0); congruence. Qed.

Lemma get_apply_slots slots : forall base k, sorted base -> sorted slots ->
  fm_get k (apply_slots slots base) =
  match fm_get k slots with Some v => slot_val v | None => fm_get k base end.
Proof.
  induction slots as [|[k0 v0] t IH]; intros base k SB SS; [reflexivity|].
  change (apply_slots ((k0, v0) :: t) base) with (apply_slots t (set_slot base (k0, v0))).
  pose proof (sorted_head_notin _ _ _ SS) as NI. destruct SS as [_ SS].
  rewrite (IH _ k (sorted_set_slot _ _ SB) SS). cbn [fm_get].
  rewrite (get_set_slot base k (k0, v0) SB). cbn [fst snd].
  destruct (N.eqb_spec k k0) as [->|D]; [|reflexivity].
  rewrite (get_none _ _ NI). reflexivity.
Qed.

Lemma find_none_addr ds a : ~ In a (map d_addr ds) -> find (fun d => N.eqb (d_addr d) a) ds = None.
Proof.
  induction ds as [|d t IH]; cbn [find map]; [reflexivity|]. intros NI.
  destruct (N.eqb_spec (d_addr d) a) as [E|E]; [exfalso; apply NI; left; exact E|].
  apply IH. intros I. apply NI. right. exact I.
Qed.

Lemma get_commit_updates ds : forall c, sorted c -> NoDup (map d_addr ds) -> forall a,
  fm_get a (commit_updates ds c) =
  match find (fun d => N.eqb (d_addr d) a) ds with
  | Some d => if d_deleted d then None else Some (new_account c d)
  | None => fm_get a c
  end.
Proof.
  induction ds as [|d t IH]; intros c S ND a; [reflexivity|].
  change (commit_updates (d :: t) c) with (commit_updates t (commit_one c d)).
  inversion ND as [|? ? NI ND']; subst.
  rewrite (IH _ (sorted_commit_one c d S) ND' a). cbn [find].
  destruct (N.eqb_spec (d_addr d) a) as [E|E].
  - subst a. rewrite (find_none_addr _ _ NI). rewrite (get_commit_one c d _ S), N.eqb_refl. reflexivity.
  - destruct (find (fun d0 => N.eqb (d_addr d0) a) t) as [d'|] eqn:F.
    + apply find_some in F as [_ F]. apply N.eqb_eq in F.
      rewrite (new_account_commit_other c d d' S) by congruence. reflexivity.
    + rewrite (get_commit_one c d a S). destruct (N.eqb_spec a (d_addr d)); [congruence|reflexivity].
Qed.

Lemma find_pending (g : N -> option sobj) l a : NoDup l ->
  find (fun d => N.eqb (d_addr d) a)
       (flat_map (fun b => match g b with Some o => [to_dirty b o] | None => [] end) l) =
  if existsb (N.eqb a) l then option_map (to_dirty a) (g a) else None.
Proof.
  induction l as [|b t IH]; intros ND; cbn [flat_map existsb]; [reflexivity|].
  inversion ND as [|? ? NI ND']; subst.
  destruct (N.eqb_spec a b) as [->|D]; cbn [orb].
  - destruct (g b) as [o|]; cbn [app find option_map to_dirty d_addr]; [rewrite N.eqb_refl; reflexivity|].
    rewrite (IH ND'), (existsb_notin _ _ NI). reflexivity.
  - destruct (g b) as [o|]; cbn [app find to_dirty d_addr]; [|apply IH, ND'].
    destruct (N.eqb_spec b a); [congruence|]. apply IH, ND'.
Qed.

Lemma nodup_pending (g : N -> option sobj) l : NoDup l ->
  NoDup (map d_addr (flat_map (fun b => match g b with Some o => [to_dirty b o] | None => [] end) l)).
Proof.
  induction l as [|b t IH]; intros ND; cbn [flat_map map]; [constructor|].
  inversion ND as [|? ? NI ND']; subst.
  destruct (g b) as [o|]; cbn [app map]; [|apply IH, ND'].
  constructor; [|apply IH, ND']. cbn [to_dirty d_addr]. intros I. apply NI.
  apply in_map_iff in I as (d & E & Hd). apply in_flat_map in Hd as (b' & Hb' & Hd).
  destruct (g b'); [|destruct Hd]. destruct Hd as [<-|[]]. cbn in E. congruence.
Qed.

(* ------------------------------------------------------------------ *)
(** * views *)

(** the snapshot tree (layers over a disk layer) describes the state [c] *)
Definition view_ok (ls : list layer) (dk : disk) (c : content) : Prop :=
  bk_same (bk_layers ls dk) (bk_content c).

Lemma bk_content_wf c : bk_wf (bk_content c).
Proof.
  intros a k. cbn. unfold storage_of. destruct (fm_get a c); [discriminate|reflexivity].
Qed.

Lemma bk_same_wf b1 b2 : bk_same b1 b2 -> bk_wf b2 -> bk_wf b1.
Proof. intros [A S] W a k H. rewrite S. apply W. rewrite <- A. exact H. Qed.

(** the lookups of the layer built by Commit *)
Section LayerOf.
  Variable st : core.
  Hypothesis SP : sorted (pend st).

  Let ks := map fst (pend st).
  Let ND : NoDup ks := sorted_nodup _ SP.

  Lemma get_layer_accts a :
    fm_get a (l_accts (layer_of st)) =
    if mem a (pend st) then
      match fm_get a (live st) with
      | Some o => if so_deleted o then None else Some (so_nonce o, so_balance o, so_code o)
      | None => None
      end
    else None.
  Proof.
    cbn [layer_of l_accts].
    rewrite (get_flat_map_single
               (fun b => match fm_get b (live st) with
                         | Some o => if so_deleted o then None else Some (so_nonce o, so_balance o, so_code o)
                         | None => None end)); [|intros b; destruct (fm_get b (live st)) as [o|]; [destruct (so_deleted o)|]; reflexivity|exact ND].
    unfold ks. rewrite existsb_keys. reflexivity.
  Qed.

  Lemma get_layer_stor a :
    fm_get a (l_stor (layer_of st)) =
    if mem a (pend st) then
      match fm_get a (live st) with
      | Some o => if so_deleted o then None else match so_slots o with [] => None | s => Some s end
      | None => None
      end
    else None.
  Proof.
    cbn [layer_of l_stor].
    rewrite (get_flat_map_single
               (fun b => match fm_get b (live st) with
                         | Some o => if so_deleted o then None else match so_slots o with [] => None | s => Some s end
                         | None => None end));
      [|intros b; destruct (fm_get b (live st)) as [o|]; [destruct (so_deleted o); [|destruct (so_slots o)]|]; reflexivity|exact ND].
    unfold ks. rewrite existsb_keys. reflexivity.
  Qed.

  Lemma stor_get_layer a k :
    stor_get (l_stor (layer_of st)) a k =
    if mem a (pend st) then
      match fm_get a (live st) with
      | Some o => if so_deleted o then None else fm_get k (so_slots o)
      | None => None
      end
    else None.
  Proof.
    unfold stor_get. rewrite get_layer_stor. destruct (mem a (pend st)); [|reflexivity].
    destruct (fm_get a (live st)) as [o|]; [|reflexivity].
    destruct (so_deleted o); [reflexivity|]. destruct (so_slots o); reflexivity.
  Qed.

  Lemma sorted_layer_stor : sorted (l_stor (layer_of st)).
  Proof.
    cbn [layer_of l_stor]. apply sorted_flat_map_single.
    - intros b. destruct (fm_get b (live st)) as [o|]; [|left; reflexivity].
      destruct (so_deleted o); [left; reflexivity|]. destruct (so_slots o) as [|e s]; [left; reflexivity|].
      right. eexists. reflexivity.
    - apply sorted_ascending, SP.
  Qed.

  Lemma get_pending c a : sorted c ->
    fm_get a (commit_updates (pending_objs st) c) =
    if mem a (pend st) then
      match fm_get a (live st) with
      | Some o => if so_deleted o then None else Some (new_account c (to_dirty a o))
      | None => fm_get a c
      end
    else fm_get a c.
  Proof.
    intros S. unfold pending_objs.
    rewrite (get_commit_updates _ c S (nodup_pending _ _ ND) a).
    rewrite (find_pending _ _ a ND). unfold ks. rewrite existsb_keys.
    destruct (mem a (pend st)); [|reflexivity].
    destruct (fm_get a (live st)) as [o|]; reflexivity.
  Qed.
End LayerOf.

(** T2: the layer Commit hands to the snapshot tree describes the state Commit flushes *)
Theorem view_commit ls dk c st :
  wf_content c -> view_ok ls dk c -> inv (bk_layers ls dk) st -> dirt st = [] ->
  view_ok (layer_of st :: ls) dk (commit_updates (pending_objs st) c).
Proof.
  intros WF [VA VS] I D.
  pose proof (inv_sorted _ _ I) as SP. pose proof WF as [SC _].
  assert (TR : forall a, mem a (destr st) = true -> mem a (pend st) = true).
  { intros a M. destruct (inv_track _ _ I a M) as [H|H]; [rewrite D in H; discriminate|exact H]. }
  split.
  - (* accounts *)
    intros a. cbn [bk_layers bk_content bk_acc look_acc].
    rewrite (get_layer_accts st SP a), (get_pending st SP c a SC).
    change (l_destr (layer_of st)) with (destr st).
    destruct (mem a (pend st)) eqn:P.
    + destruct (fm_get a (live st)) as [o|] eqn:L; [|exfalso; apply (inv_pend _ _ I a P), L].
      destruct (inv_obj _ _ I a o L) as (A & B & C & S).
      destruct (so_deleted o) eqn:DL.
      * rewrite (C eq_refl). reflexivity.
      * reflexivity.
    + destruct (mem a (destr st)) eqn:M; [rewrite (TR a M) in P; discriminate|].
      apply VA.
  - (* slots *)
    intros a k. cbn [bk_layers bk_content bk_slot look_slot].
    rewrite (stor_get_layer st SP a k). unfold storage_of at 1.
    rewrite (get_pending st SP c a SC).
    change (l_destr (layer_of st)) with (destr st).
    destruct (mem a (pend st)) eqn:P.
    + destruct (fm_get a (live st)) as [o|] eqn:L; [|exfalso; apply (inv_pend _ _ I a P), L].
      destruct (inv_obj _ _ I a o L) as (A & B & C & S).
      destruct (so_deleted o) eqn:DL.
      * rewrite (C eq_refl). reflexivity.
      * cbn [new_account a_storage to_dirty d_slots d_reset d_addr]. unfold slot_of, slots_list.
        rewrite get_apply_slots; [|destruct (so_fresh o); [exact Logic.I|apply wf_storage_of, WF]|exact S].
        destruct (fm_get k (so_slots o)) as [v|]; [apply eq_sym, slot_of_val|].
        destruct (mem a (destr st)) eqn:M.
        -- destruct (A eq_refl) as [F|F]; [|congruence]. rewrite F. reflexivity.
        -- destruct (so_fresh o) eqn:F.
           ++ cbn [fm_get]. apply (bk_same_wf _ _ (conj VA VS) (bk_content_wf c)). apply B; reflexivity.
           ++ apply VS.
    + destruct (mem a (destr st)) eqn:M; [rewrite (TR a M) in P; discriminate|].
      apply VS.
Qed.

(* ------------------------------------------------------------------ *)
(** * flatten, diffToDisk, Cap *)

Lemma get_rm {V} (m : fmap V) a k : fm_get a (fm_rm k m) = if N.eqb a k then None else fm_get a m.
Proof.
  unfold fm_rm. induction m as [|[k0 v0] t IH]; cbn [filter fm_get fst].
  - destruct (N.eqb a k); reflexivity.
  - destruct (N.eqb_spec k0 k) as [->|D]; cbn [negb].
    + rewrite IH. destruct (N.eqb_spec a k); reflexivity.
    + cbn [fm_get]. rewrite IH. destruct (N.eqb_spec a k0) as [->|D']; [|reflexivity].
      destruct (N.eqb_spec k0 k); [congruence|reflexivity].
Qed.

Lemma get_fold_rm {V} dks : forall (m : fmap V) a,
  fm_get a (fold_right (fun b m0 => fm_rm b m0) m dks) = if existsb (N.eqb a) dks then None else fm_get a m.
Proof.
  induction dks as [|b t IH]; intros m a; cbn [fold_right existsb]; [reflexivity|].
  rewrite get_rm, IH. destruct (N.eqb a b); reflexivity.
Qed.

Lemma mem_fold_set dks : forall s a,
  mem a (fold_right (fun b m => fm_set b tt m) s dks) = existsb (N.eqb a) dks || mem a s.
Proof.
  induction dks as [|b t IH]; intros s a; cbn [fold_right existsb]; [reflexivity|].
  rewrite mem_set, IH. destruct (N.eqb a b); reflexivity.
Qed.

Lemma get_overlay {V} (top : fmap V) : forall base a,
  fm_get a (overlay top base) = match fm_get a top with Some x => Some x | None => fm_get a base end.
Proof.
  induction top as [|[k v] t IH]; intros base a; cbn [overlay fold_right fm_get fst snd]; [reflexivity|].
  rewrite get_set. destruct (N.eqb a k); [reflexivity|]. apply IH.
Qed.

Lemma sorted_rm {V} (m : fmap V) k : sorted m -> sorted (fm_rm k m).
Proof.
  unfold fm_rm. induction m as [|[k0 v0] t IH]; intros S; cbn [filter]; [exact I|].
  destruct S as [F S]. destruct (negb (N.eqb (fst (k0, v0)) k)); [|apply IH, S].
  cbn [sorted]. split; [|apply IH, S]. intros k' Hk. apply F.
  unfold keys in *. apply in_map_iff in Hk as (e & <- & He). apply filter_In in He as [He _].
  apply in_map, He.
Qed.

Lemma sorted_fold_rm {V} dks : forall (m : fmap V), sorted m -> sorted (fold_right (fun b m0 => fm_rm b m0) m dks).
Proof. induction dks as [|b t IH]; intros m S; cbn [fold_right]; [exact S|]. apply sorted_rm, IH, S. Qed.

Definition wf_layer (l : layer) : Prop := sorted (l_stor l).

(** the storage of the child written over the storage of the parent *)
Definition flat_step (asl : N * fmap N) (m : fmap (fmap N)) : fmap (fmap N) :=
  match fm_get (fst asl) m with
  | None => fm_set (fst asl) (snd asl) m
  | Some ps => fm_set (fst asl) (merge_slots (snd asl) ps) m
  end.

Lemma get_flat_fold top : forall stor1 a, NoDup (map fst top) ->
  fm_get a (fold_right flat_step stor1 top) =
  match fm_get a top with
  | Some s => Some (match fm_get a stor1 with None => s | Some ps => merge_slots s ps end)
  | None => fm_get a stor1
  end.
Proof.
  induction top as [|[b s] t IH]; intros stor1 a ND; cbn [fold_right fm_get map fst]; [reflexivity|].
  inversion ND as [|? ? NI ND']; subst.
  unfold flat_step at 1. cbn [fst snd].
  destruct (N.eqb_spec a b) as [->|D].
  - rewrite (IH stor1 b ND'). rewrite (get_none _ _ NI).
    destruct (fm_get b stor1); rewrite get_set, N.eqb_refl; reflexivity.
  - destruct (fm_get b (fold_right flat_step stor1 t)); rewrite get_set;
      (destruct (N.eqb_spec a b); [congruence|]); apply IH, ND'.
Qed.

Lemma sorted_flat_fold top : forall stor1, sorted stor1 -> sorted (fold_right flat_step stor1 top).
Proof.
  induction top as [|[b s] t IH]; intros stor1 S; cbn [fold_right]; [exact S|].
  unfold flat_step. destruct (fm_get _ _); apply sorted_set, IH, S.
Qed.

Lemma flatten_stor l p : l_stor (flatten l p) =
  fold_right flat_step (fold_right (fun a m => fm_rm a m) (l_stor p) (map fst (l_destr l))) (l_stor l).
Proof. reflexivity. Qed.

Lemma wf_flatten l p : wf_layer p -> wf_layer (flatten l p).
Proof. intros W. unfold wf_layer. rewrite flatten_stor. apply sorted_flat_fold, sorted_fold_rm, W. Qed.

(** T4: flattening a layer into its parent changes no lookup *)
Theorem look_flatten l p ls dk : wf_layer l ->
  bk_same (bk_layers (flatten l p :: ls) dk) (bk_layers (l :: p :: ls) dk).
Proof.
  intros W. split.
  - intros a. cbn [bk_layers bk_acc look_acc flatten l_accts l_destr].
    rewrite get_overlay, get_fold_rm, mem_fold_set, existsb_keys.
    destruct (fm_get a (l_accts l)); [reflexivity|].
    destruct (mem a (l_destr l)); [reflexivity|]. cbn [orb].
    destruct (fm_get a (l_accts p)); reflexivity.
  - intros a k. cbn [bk_layers bk_slot look_slot]. unfold stor_get at 1.
    rewrite flatten_stor, (get_flat_fold _ _ a (sorted_nodup _ W)), get_fold_rm, existsb_keys.
    cbn [flatten l_destr]. rewrite mem_fold_set, existsb_keys.
    unfold stor_get.
    destruct (fm_get a (l_stor l)) as [s|].
    + destruct (mem a (l_destr l)); cbn [orb].
      * destruct (fm_get k s); reflexivity.
      * destruct (fm_get a (l_stor p)) as [ps|].
        -- unfold merge_slots. rewrite get_overlay. destruct (fm_get k s); [reflexivity|].
           destruct (fm_get k ps); reflexivity.
        -- destruct (fm_get k s); reflexivity.
    + destruct (mem a (l_destr l)); cbn [orb]; [reflexivity|].
      destruct (fm_get a (l_stor p)) as [ps|]; reflexivity.
Qed.

(** diffToDisk *)
Lemma get_disk_slots slots : forall base k,
  fm_get k (disk_slots slots base) = match fm_get k slots with Some v => slot_val v | None => fm_get k base end.
Proof.
  induction slots as [|[k0 v0] t IH]; intros base k; cbn [disk_slots fold_right fm_get fst snd]; [reflexivity|].
  fold (disk_slots t base). unfold slot_val at 1.
  destruct (N.eqb_spec v0 0) as [->|D].
  - rewrite get_rm. destruct (N.eqb k k0); [reflexivity|]. apply IH.
  - rewrite get_set. destruct (N.eqb k k0); [|apply IH].
    destruct (N.eqb_spec v0 0); [congruence|reflexivity].
Qed.

Definition disk_step (asl : N * fmap N) (m : fmap (fmap N)) : fmap (fmap N) :=
  fm_set (fst asl) (disk_slots (snd asl) (match fm_get (fst asl) m with Some b => b | None => [] end)) m.

Lemma get_disk_fold top : forall stor1 a, NoDup (map fst top) ->
  fm_get a (fold_right disk_step stor1 top) =
  match fm_get a top with
  | Some s => Some (disk_slots s (match fm_get a stor1 with Some b => b | None => [] end))
  | None => fm_get a stor1
  end.
Proof.
  induction top as [|[b s] t IH]; intros stor1 a ND; cbn [fold_right fm_get map fst]; [reflexivity|].
  inversion ND as [|? ? NI ND']; subst.
  unfold disk_step at 1. cbn [fst snd]. rewrite get_set.
  destruct (N.eqb_spec a b) as [->|D].
  - rewrite (IH stor1 b ND'). rewrite (get_none _ _ NI). reflexivity.
  - apply IH, ND'.
Qed.

(** T5: writing the bottom layer to disk changes no lookup *)
Theorem look_diff_to_disk l dk : wf_layer l ->
  bk_same (bk_layers [] (diff_to_disk l dk)) (bk_layers [l] dk).
Proof.
  intros W. split.
  - intros a. cbn [bk_layers bk_acc look_acc diff_to_disk dk_accts].
    rewrite get_overlay, get_fold_rm, existsb_keys.
    destruct (fm_get a (l_accts l)); [reflexivity|]. destruct (mem a (l_destr l)); reflexivity.
  - intros a k. cbn [bk_layers bk_slot look_slot diff_to_disk dk_stor]. unfold stor_get.
    change (fold_right _ ?s (l_stor l)) with (fold_right disk_step s (l_stor l)).
    rewrite (get_disk_fold _ _ a (sorted_nodup _ W)), get_fold_rm, existsb_keys.
    destruct (fm_get a (l_stor l)) as [s|].
    + rewrite get_disk_slots. destruct (fm_get k s) as [v|]; [apply slot_of_val|].
      destruct (mem a (l_destr l)); [reflexivity|].
      destruct (fm_get a (dk_stor dk)); reflexivity.
    + destruct (mem a (l_destr l)); [reflexivity|]. reflexivity.
Qed.

(** lookups through a stack only depend on the lookups of its lower part *)
Lemma look_app pre : forall r1 d1 r2 d2,
  bk_same (bk_layers r1 d1) (bk_layers r2 d2) ->
  bk_same (bk_layers (pre ++ r1) d1) (bk_layers (pre ++ r2) d2).
Proof.
  induction pre as [|l t IH]; intros r1 d1 r2 d2 H; [exact H|].
  destruct (IH _ _ _ _ H) as [A S]. cbn in A, S. split.
  - intros a. cbn. rewrite A. reflexivity.
  - intros a k. cbn. rewrite S. reflexivity.
Qed.

Lemma bk_same_refl b : bk_same b b.
Proof. split; reflexivity. Qed.
Lemma bk_same_trans b1 b2 b3 : bk_same b1 b2 -> bk_same b2 b3 -> bk_same b1 b3.
Proof. intros [A1 S1] [A2 S2]. split; intros; [rewrite A1; apply A2|rewrite S1; apply S2]. Qed.
Lemma bk_same_sym b1 b2 : bk_same b1 b2 -> bk_same b2 b1.
Proof. intros [A S]. split; intros; [rewrite A|rewrite S]; reflexivity. Qed.

Lemma look_flatten_all t : forall b dk, Forall wf_layer t -> flatten_all t = Some b ->
  wf_layer b /\ bk_same (bk_layers [b] dk) (bk_layers t dk).
Proof.
  induction t as [|l t IH]; intros b dk F E; cbn [flatten_all] in E; [discriminate|].
  inversion F as [|? ? Wl Ft]; subst.
  destruct (flatten_all t) as [p|] eqn:Et.
  - injection E as <-. destruct (IH p dk Ft eq_refl) as [Wp Sp]. split; [apply wf_flatten, Wp|].
    apply (bk_same_trans _ _ _ (look_flatten l p [] dk Wl)).
    apply (look_app [l] [p] dk t dk Sp).
  - injection E as <-. destruct t; [|cbn in Et; destruct (flatten_all t); discriminate].
    split; [exact Wl|apply bk_same_refl].
Qed.

(** T6: Cap changes no lookup *)
Theorem look_cap n ls dk : Forall wf_layer ls ->
  Forall wf_layer (fst (cap n ls dk)) /\
  bk_same (bk_layers (fst (cap n ls dk)) (snd (cap n ls dk))) (bk_layers ls dk).
Proof.
  intros F. unfold cap. destruct (flatten_all (skipn n ls)) as [b|] eqn:E; cbn [fst snd].
  - assert (Fs : Forall wf_layer (skipn n ls)) by (apply Forall_skipn, F).
    destruct (look_flatten_all _ b dk Fs E) as [Wb Sb].
    split.
    + rewrite <- (firstn_skipn n ls) in F. apply Forall_app in F. apply F.
    + rewrite <- (firstn_skipn n ls) at 2.
      pose proof (look_app (firstn n ls) [] (diff_to_disk b dk) [b] dk (look_diff_to_disk b dk Wb)) as H1.
      rewrite app_nil_r in H1. apply (bk_same_trans _ _ _ H1).
      apply look_app, Sb.
  - split; [exact F|apply bk_same_refl].
Qed.

(* ------------------------------------------------------------------ *)
(** * the generated disk layer *)

Lemma get_disk_stor c : sorted c -> forall a,
  fm_get a (dk_stor (disk_of_content c)) =
  match fm_get a c with
  | Some acc => match a_storage acc with [] => None | s => Some s end
  | None => None
  end.
Proof.
  cbn [disk_of_content dk_stor].
  induction c as [|[b acc] t IH]; intros S a; cbn [flat_map fm_get fst snd]; [reflexivity|].
  pose proof (sorted_head_notin _ _ _ S) as NI. destruct S as [_ S].
  destruct (a_storage acc) as [|e s] eqn:ES; cbn [app fm_get fst].
  - rewrite (IH S a). destruct (N.eqb_spec a b) as [->|D]; [|reflexivity].
    rewrite (get_none _ _ NI), ES. reflexivity.
  - destruct (N.eqb_spec a b) as [->|D]; [rewrite ES; reflexivity|]. apply IH, S.
Qed.

Theorem view_genesis c : sorted c -> view_ok [] (disk_of_content c) c.
Proof.
  intros SC. split.
  - intros a. cbn [bk_layers bk_content bk_acc look_acc disk_of_content dk_accts].
    clear SC. induction c as [|[b acc] t IH]; cbn [map fm_get fst snd]; [reflexivity|].
    destruct (N.eqb a b); [reflexivity|exact IH].
  - intros a k. cbn [bk_layers bk_content bk_slot look_slot].
    unfold stor_get, storage_of, slot_of. rewrite (get_disk_stor c SC a).
    destruct (fm_get a c) as [acc|]; [|reflexivity].
    destruct (a_storage acc); reflexivity.
Qed.
