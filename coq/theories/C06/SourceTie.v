(** C06 — tie of the model's decisions and arithmetic to the Go SOURCE.
    [Generated/C06Source.v] is produced on every check by /verif/go2coq from /repo's working tree:
    every guard / integer expression of
      kai/state/cstate: validateBlock, calculateValidatorSetUpdates, updateState;
      mainchain/blockchain: BlockOperations.CreateProposalBlock, commitBlock, ApplyTransaction;
      types: bloomValues, Bloom.add;
      kai/state: StateDB.Finalise, IntermediateRoot, createObject, getStateObject,
                 stateObject.GetCommittedState, AddBalance, SubBalance, empty, updateTrie,
                 resetObjectChange.revert;
      kai/state/snapshot: diffLayer.flatten, Tree.Cap, Tree.cap, diffToDisk.
    The lemmas say that the model (Model.v, ModelValset.v, ModelSnap.v) takes exactly these
    decisions on exactly these operands (the [_atoms] lists are pinned): where possible as an
    equality that mentions the model's own definition ([validate_block st b = src_validate st b],
    [finalise_one], [get_obj], [create_object], [committed], [commit_one], [receipts_from], ...),
    otherwise guard by guard against the expression the model uses at that place. *)
From Coq Require Import List ZArith NArith Bool Lia String.
From Kardia Require Import Base.Int64 Base.GoSem.
From Kardia Require Import Generated.C06Source.
From Kardia Require Import Generated.C06Facts C06.Model C06.ModelValset C06.ModelSnap C06.ProofsMap C06.ProofsFlush
     C06.ProofsSnapInv C06.ProofsSnapView.
Import ListNotations.
Local Open Scope Z_scope.

(** big.Int.Sign as the Go int it returns *)
Definition sign_int (a : Z) : Z := match a ?= 0 with Lt => -1 | Eq => 0 | Gt => 1 end.

Lemma sign_int_eq0 v : Z.eqb (sign_int v) 0 = Z.eqb v 0.
Proof. unfold sign_int. destruct (Z.compare_spec v 0); destruct (Z.eqb_spec v 0); try reflexivity; lia. Qed.

Lemma ofN_eqb a b : Z.eqb (Z.of_N a) (Z.of_N b) = N.eqb a b.
Proof. destruct (N.eqb_spec a b); destruct (Z.eqb_spec (Z.of_N a) (Z.of_N b)); try reflexivity; lia. Qed.
Lemma ofN_gtb a b : Z.gtb (Z.of_N a) (Z.of_N b) = N.ltb b a.
Proof. rewrite Z.gtb_ltb. destruct (N.ltb_spec b a); destruct (Z.ltb_spec (Z.of_N b) (Z.of_N a)); try reflexivity; lia. Qed.
Lemma ofN_succ_u64 a : Z.of_N a < 18446744073709551615 -> go_add U64 (Z.of_N a) 1 = Z.of_N (a + 1).
Proof. intros H. unfold go_add. rewrite wrap_id by (unfold in_range; lia). lia. Qed.

(* ------------------------------------------------------------------ *)
(** * (d) validateBlock / CreateProposalBlock *)

(** the control flow of cstate/validation.go validateBlock, every condition being the generated one *)
Definition src_validate (st : cstate) (b : blockv) : verdict :=
  let h := Z.of_N (b_height b) in
  let l := Z.of_N (s_last_height st) in
  let i := Z.of_N (s_initial_height st) in
  let rest :=
    if kai_state_cstate__validateBlock__if_numEvidence_gt_maxNumEvidence (b_evidence b) (b_max_evidence b) then VEvidence
    else if kai_state_cstate__validateBlock__if_not_state_Validators_HasAddress_block_ProposerAddress (b_proposer_in b) then VProposer
    else VOk in
  let time :=
    if kai_state_cstate__validateBlock__case_block_Height_gt_state_InitialHeight h i then
      if kai_state_cstate__validateBlock__if_not_block_Time__After_state_LastBlockTime (Z.ltb (s_last_time st) (b_time b)) then VTimeNotAfter
      else if kai_state_cstate__validateBlock__if_not_block_Time__Equal_medianTime (Z.eqb (b_time b) (b_median b)) then VTimeMedian
      else rest
    else if kai_state_cstate__validateBlock__case_block_Height_eq_state_InitialHeight h i then
      if kai_state_cstate__validateBlock__if_not_block_Time__Equal_genesisTime (Z.eqb (b_time b) (s_last_time st)) then VTimeGenesis
      else rest
    else VHeightLow in
  if negb (b_basic_ok b) then VBasic
  else if kai_state_cstate__validateBlock__if_block_Height_ne_state_LastBlockHeight_plus_1 h l then VHeight
  else if kai_state_cstate__validateBlock__if_state_LastBlockHeight_eq_0_and_block_Height_ne_state_InitialHeight l h i then VHeight
  else if kai_state_cstate__validateBlock__if_state_LastBlockHeight_gt_0_and_block_Height_ne_state_LastBlo_85dde98c l h then VHeight
  else if kai_state_cstate__validateBlock__if_not_block_Header__LastBlockID_Equal_state_LastBlockID
            (N.eqb (b_last_block_id b) (s_last_block_id st)) then VLastID
  else if kai_state_cstate__validateBlock__if_not_block_AppHash__Equal_state_AppHash
            (N.eqb (b_app_hash b) (s_app_hash st)) then VAppHash
  else if kai_state_cstate__validateBlock__if_not_block_Header__ValidatorsHash_Equal_state_Validators_Hash
            (N.eqb (b_vals_hash b) (s_vals_hash st)) then VValHash
  else if kai_state_cstate__validateBlock__if_not_block_Header__NextValidatorsHash_Equal_state_NextValidators_Hash
            (N.eqb (b_next_vals_hash b) (s_next_vals_hash st)) then VNextValHash
  else if kai_state_cstate__validateBlock__if_block_LastCommit_eq_nil (b_commit_nil b) then VNilCommit
  else if kai_state_cstate__validateBlock__if_block_Height_eq_state_InitialHeight h i then
    if kai_state_cstate__validateBlock__if_len_block_LastCommit__Signatures_ne_0 (Z.of_N (b_commit_sigs b)) then VCommitSig
    else time
  else if negb (b_commit_ok b) then VCommit
  else time.

Lemma tie_validate st b : Z.of_N (s_last_height st) < 18446744073709551615 ->
  validate_block st b = src_validate st b.
Proof.
  intros R. unfold src_validate, validate_block.
  unfold kai_state_cstate__validateBlock__if_block_Height_ne_state_LastBlockHeight_plus_1,
    kai_state_cstate__validateBlock__if_state_LastBlockHeight_eq_0_and_block_Height_ne_state_InitialHeight,
    kai_state_cstate__validateBlock__if_state_LastBlockHeight_gt_0_and_block_Height_ne_state_LastBlo_85dde98c,
    kai_state_cstate__validateBlock__if_not_block_Header__LastBlockID_Equal_state_LastBlockID,
    kai_state_cstate__validateBlock__if_not_block_AppHash__Equal_state_AppHash,
    kai_state_cstate__validateBlock__if_not_block_Header__ValidatorsHash_Equal_state_Validators_Hash,
    kai_state_cstate__validateBlock__if_not_block_Header__NextValidatorsHash_Equal_state_NextValidators_Hash,
    kai_state_cstate__validateBlock__if_block_LastCommit_eq_nil,
    kai_state_cstate__validateBlock__if_block_Height_eq_state_InitialHeight,
    kai_state_cstate__validateBlock__if_len_block_LastCommit__Signatures_ne_0,
    kai_state_cstate__validateBlock__case_block_Height_gt_state_InitialHeight,
    kai_state_cstate__validateBlock__if_not_block_Time__After_state_LastBlockTime,
    kai_state_cstate__validateBlock__if_not_block_Time__Equal_medianTime,
    kai_state_cstate__validateBlock__case_block_Height_eq_state_InitialHeight,
    kai_state_cstate__validateBlock__if_not_block_Time__Equal_genesisTime,
    kai_state_cstate__validateBlock__if_numEvidence_gt_maxNumEvidence,
    kai_state_cstate__validateBlock__if_not_state_Validators_HasAddress_block_ProposerAddress, go_neqb.
  rewrite (ofN_succ_u64 _ R). change 0 with (Z.of_N 0). rewrite !ofN_eqb, !ofN_gtb.
  rewrite (Z.gtb_ltb (b_evidence b) (b_max_evidence b)).
  destruct (b_basic_ok b); cbn [negb]; [|reflexivity].
  destruct (N.eqb (b_height b) (s_last_height st + 1)); cbn [negb andb]; [|reflexivity].
  rewrite !andb_false_r.
  destruct (N.eqb (s_last_height st) 0); cbn [andb];
    destruct (N.eqb (b_height b) (s_initial_height st)) eqn:HI; cbn [negb andb]; try reflexivity;
    destruct (N.eqb (b_last_block_id b) (s_last_block_id st)); cbn [negb]; try reflexivity;
    destruct (N.eqb (b_app_hash b) (s_app_hash st)); cbn [negb]; try reflexivity;
    destruct (N.eqb (b_vals_hash b) (s_vals_hash st)); cbn [negb]; try reflexivity;
    destruct (N.eqb (b_next_vals_hash b) (s_next_vals_hash st)); cbn [negb]; try reflexivity;
    destruct (b_commit_nil b); try reflexivity;
    destruct (N.eqb (b_commit_sigs b) 0); cbn [negb]; try reflexivity;
    destruct (b_commit_ok b); cbn [negb]; try reflexivity.
Qed.

Lemma validate_atoms :
  kai_state_cstate__validateBlock__if_block_Height_ne_state_LastBlockHeight_plus_1_atoms = ["block.Height() : uint64"; "state.LastBlockHeight : uint64"]%string
  /\ kai_state_cstate__validateBlock__if_state_LastBlockHeight_eq_0_and_block_Height_ne_state_InitialHeight_atoms
     = ["state.LastBlockHeight : uint64"; "block.Height() : uint64"; "state.InitialHeight : uint64"]%string
  /\ kai_state_cstate__validateBlock__if_not_block_Header__LastBlockID_Equal_state_LastBlockID_atoms = ["block.Header().LastBlockID.Equal(state.LastBlockID) : bool"]%string
  /\ kai_state_cstate__validateBlock__if_not_block_AppHash__Equal_state_AppHash_atoms = ["block.AppHash().Equal(state.AppHash) : bool"]%string
  /\ kai_state_cstate__validateBlock__if_not_block_Header__ValidatorsHash_Equal_state_Validators_Hash_atoms = ["block.Header().ValidatorsHash.Equal(state.Validators.Hash()) : bool"]%string
  /\ kai_state_cstate__validateBlock__if_not_block_Header__NextValidatorsHash_Equal_state_NextValidators_Hash_atoms = ["block.Header().NextValidatorsHash.Equal(state.NextValidators.Hash()) : bool"]%string
  /\ kai_state_cstate__validateBlock__if_block_LastCommit_eq_nil_atoms = ["block.LastCommit() == nil : untyped bool"]%string
  /\ kai_state_cstate__validateBlock__if_block_Height_eq_state_InitialHeight_atoms = ["block.Height() : uint64"; "state.InitialHeight : uint64"]%string
  /\ kai_state_cstate__validateBlock__if_len_block_LastCommit__Signatures_ne_0_atoms = ["len(block.LastCommit().Signatures) : int"]%string
  /\ kai_state_cstate__validateBlock__case_block_Height_gt_state_InitialHeight_atoms = ["block.Height() : uint64"; "state.InitialHeight : uint64"]%string
  /\ kai_state_cstate__validateBlock__if_not_block_Time__After_state_LastBlockTime_atoms = ["block.Time().After(state.LastBlockTime) : bool"]%string
  /\ kai_state_cstate__validateBlock__if_not_block_Time__Equal_medianTime_atoms = ["block.Time().Equal(medianTime) : bool"]%string
  /\ kai_state_cstate__validateBlock__if_not_block_Time__Equal_genesisTime_atoms = ["block.Time().Equal(genesisTime) : bool"]%string
  /\ kai_state_cstate__validateBlock__if_numEvidence_gt_maxNumEvidence_atoms = ["numEvidence : int64"; "maxNumEvidence : int64"]%string
  /\ kai_state_cstate__validateBlock__if_not_state_Validators_HasAddress_block_ProposerAddress_atoms = ["state.Validators.HasAddress(block.ProposerAddress()) : bool"]%string.
Proof. repeat split; reflexivity. Qed.

(** CreateProposalBlock: genesis time for height 1 (the literal 1), the commit's median time otherwise *)
Lemma tie_proposal_time st sigs cok med nev maxev pin :
  b_time (create_proposal_block st sigs cok med nev maxev pin) =
  if mainchain_blockchain__BlockOperations_CreateProposalBlock__if_height_eq_1 (Z.of_N (s_last_height st + 1))
  then s_last_time st else med.
Proof.
  unfold mainchain_blockchain__BlockOperations_CreateProposalBlock__if_height_eq_1. cbn [create_proposal_block b_time].
  change 1 with (Z.of_N 1). rewrite ofN_eqb. reflexivity.
Qed.
Lemma proposal_atoms :
  mainchain_blockchain__BlockOperations_CreateProposalBlock__if_height_eq_1_atoms = ["height : uint64"]%string.
Proof. reflexivity. Qed.

(* ------------------------------------------------------------------ *)
(** * (b) calculateValidatorSetUpdates / updateState *)

Lemma tie_calc_empty last vals :
  kai_state_cstate__calculateValidatorSetUpdates__if_len_vals_eq_0 (Z.of_nat (List.length vals)) = true ->
  calculate_updates last vals = [].
Proof.
  unfold kai_state_cstate__calculateValidatorSetUpdates__if_len_vals_eq_0. destruct vals; [reflexivity|].
  cbn [List.length]. intros H. apply Z.eqb_eq in H. lia.
Qed.

(** `oldPower, found := last[addr]; if !found || oldPower != val.VotingPower` *)
Lemma tie_is_update m v :
  is_update m v =
  kai_state_cstate__calculateValidatorSetUpdates__if_not_found_or_oldPower_ne_val_VotingPower
    (match amap_get (v_addr v) m with Some _ => true | None => false end)
    (match amap_get (v_addr v) m with Some p => p | None => 0 end) (v_power v).
Proof.
  unfold is_update, kai_state_cstate__calculateValidatorSetUpdates__if_not_found_or_oldPower_ne_val_VotingPower, go_neqb.
  destruct (amap_get (v_addr v) m); reflexivity.
Qed.
(** the pre-scan: `if _, dup := seen[val.Address]; dup { return vals }` *)
Lemma tie_dup seen v t :
  has_dup_addr seen (v :: t) =
  if kai_state_cstate__calculateValidatorSetUpdates__if_dup (existsb (N.eqb (v_addr v)) seen) then true
  else has_dup_addr (v_addr v :: seen) t.
Proof. reflexivity. Qed.
Lemma calc_atoms :
  kai_state_cstate__calculateValidatorSetUpdates__if_len_vals_eq_0_atoms = ["len(vals) : int"]%string
  /\ kai_state_cstate__calculateValidatorSetUpdates__if_dup_atoms = ["dup : bool"]%string
  /\ kai_state_cstate__calculateValidatorSetUpdates__if_not_found_or_oldPower_ne_val_VotingPower_atoms
     = ["found : bool"; "oldPower : int64"; "val.VotingPower : int64"]%string.
Proof. repeat split; reflexivity. Qed.

(** updateState: the change set is applied only when it is not empty; the height from which the
    new set counts is header.Height + 1 + 1 *)
Lemma tie_update_state_guard (ups : list validator) :
  kai_state_cstate__updateState__if_len_validatorUpdates_gt_0 (Z.of_nat (List.length ups)) =
  match ups with [] => false | _ => true end.
Proof.
  unfold kai_state_cstate__updateState__if_len_validatorUpdates_gt_0. destruct ups; [reflexivity|].
  cbn [List.length]. rewrite Z.gtb_ltb. apply Z.ltb_lt. lia.
Qed.
Lemma tie_update_state_height h : 0 <= h < 18446744073709551614 ->
  kai_state_cstate__updateState__set_lastHeightValsChanged h = h + 2.
Proof. intros H. unfold kai_state_cstate__updateState__set_lastHeightValsChanged, go_add. apply wrap_id. unfold in_range. lia. Qed.
Lemma update_state_atoms :
  kai_state_cstate__updateState__if_len_validatorUpdates_gt_0_atoms = ["len(validatorUpdates) : int"]%string
  /\ kai_state_cstate__updateState__set_lastHeightValsChanged_atoms = ["header.Height : uint64"]%string.
Proof. split; reflexivity. Qed.

(* ------------------------------------------------------------------ *)
(** * (c) cumulative gas, bloom bit positions *)

(** ApplyTransaction: `*usedGas += result.UsedGas` is the accumulation of [receipts_from] *)
Lemma tie_cumulative_gas (ba bt : N -> list N) cum st g logs t :
  map r_cum (receipts_from ba bt cum (Applied st g logs :: t)) =
  mainchain_blockchain__ApplyTransaction__assign_op cum g ::
  map r_cum (receipts_from ba bt (mainchain_blockchain__ApplyTransaction__assign_op cum g) t).
Proof. reflexivity. Qed.
Lemma tie_receipt_gas (ba bt : N -> list N) cum st g logs t :
  map r_gas (firstn 1 (receipts_from ba bt cum (Applied st g logs :: t))) = [mainchain_blockchain__ApplyTransaction__put_receipt_GasUsed g].
Proof. reflexivity. Qed.
(** NewReceipt: status 0 for a failed execution, 1 otherwise (the status the model's [Applied] carries) *)
Lemma tie_receipt_status :
  types__NewReceipt__put_r_Status = 0 /\ types__NewReceipt__put_r_Status_2 = 1 /\
  types__NewReceipt__if_failed true = true /\ types__NewReceipt__if_failed false = false.
Proof. repeat split; reflexivity. Qed.
(** CreateProposalBlock: the block gas limits *)
Lemma tie_gas_limits :
  mainchain_blockchain__BlockOperations_CreateProposalBlock__put_header_GasLimit = 200000000
  /\ mainchain_blockchain__BlockOperations_CreateProposalBlock__put_header_GasLimit_2 = 100000000.
Proof. split; reflexivity. Qed.
Lemma gas_atoms :
  mainchain_blockchain__ApplyTransaction__assign_op_atoms = ["*usedGas : uint64"; "result.UsedGas : uint64"]%string
  /\ mainchain_blockchain__ApplyTransaction__put_receipt_GasUsed_atoms = ["result.UsedGas : uint64"]%string
  /\ types__NewReceipt__if_failed_atoms = ["failed : bool"]%string.
Proof. repeat split; reflexivity. Qed.

(** bloomValues: with x the big-endian uint16 at an even offset of the Keccak hash, the byte that
    is ORed into is number [BloomByteLength - ((x & 0x7ff) >> 3) - 1]; together with bit (x & 7)
    of that byte (the low three bits of the second byte) this is bit [x mod bloom_bit_length] of
    the bloom read as a big-endian number — the position the model's bloom sets (bits_addr /
    bits_topic, instantiated by the driver as the 11 low bits of the same uint16) *)
Lemma tie_bloom_index x : in_range U16 x ->
  types__bloomValues__set_i1 x = 255 - (x mod bloom_bit_length) / 8.
Proof.
  intros H. unfold types__bloomValues__set_i1, go_sub, go_conv, go_shr, go_and, bloom_bit_length.
  change 2047 with (Z.ones 11). rewrite Z.land_ones by lia. change (2 ^ 11) with 2048. change (2 ^ 3) with 8.
  unfold in_range in H.
  assert (0 <= x mod 2048 < 2048) by (apply Z.mod_pos_bound; lia).
  assert (0 <= x mod 2048 / 8 < 256) by (split; [apply Z.div_pos; lia|apply Z.div_lt_upper_bound; lia]).
  rewrite (wrap_id U16 (x mod 2048)) by (unfold in_range; lia).
  rewrite (wrap_id U16) by (unfold in_range; lia).
  rewrite (wrap_id U64 (x mod 2048 / 8)) by (unfold in_range; lia).
  rewrite (wrap_id U64 (256 - _)) by (unfold in_range; lia).
  rewrite wrap_id by (unfold in_range; lia). lia.
Qed.
Lemma tie_bloom_index_same x : types__bloomValues__set_i2 x = types__bloomValues__set_i1 x /\ types__bloomValues__set_i3 x = types__bloomValues__set_i1 x.
Proof. split; reflexivity. Qed.
Lemma tie_bloom_position x : in_range U16 x ->
  8 * (255 - types__bloomValues__set_i1 x) + x mod 8 = x mod bloom_bit_length.
Proof.
  intros H. rewrite (tie_bloom_index x H). unfold bloom_bit_length.
  assert (E : x mod 8 = (x mod 2048) mod 8).
  { pose proof (Z.div_mod x 2048 ltac:(lia)) as D1. pose proof (Z.div_mod (x mod 2048) 8 ltac:(lia)) as D2.
    pose proof (Z.mod_pos_bound (x mod 2048) 8 ltac:(lia)) as B2.
    symmetry. apply (Z.mod_unique_pos x 8 (256 * (x / 2048) + x mod 2048 / 8)); lia. }
  rewrite E. pose proof (Z.div_mod (x mod 2048) 8). lia.
Qed.
Lemma tie_bloom_or b v : in_range U8 b -> in_range U8 v -> types__Bloom_add__assign_op b v = Z.lor b v.
Proof.
  intros Hb Hv. unfold types__Bloom_add__assign_op, go_or. apply wrap_id. unfold in_range in *.
  split; [apply Z.lor_nonneg; lia|].
  assert (Z.lor b v < 2 ^ 8); [|lia].
  destruct (Z.eq_dec (Z.lor b v) 0) as [->|NZ]; [lia|].
  apply Z.log2_lt_pow2; [pose proof (Z.lor_nonneg b v); lia|].
  rewrite Z.log2_lor by lia.
  apply Z.max_lub_lt.
  - destruct (Z.eq_dec b 0) as [->|]; [cbn; lia|]. apply Z.log2_lt_pow2; lia.
  - destruct (Z.eq_dec v 0) as [->|]; [cbn; lia|]. apply Z.log2_lt_pow2; lia.
Qed.
Lemma bloom_atoms :
  types__bloomValues__set_i1_atoms = ["binary.BigEndian.Uint16(hashbuf) : uint16"]%string
  /\ types__bloomValues__set_i2_atoms = ["binary.BigEndian.Uint16(hashbuf[2:]) : uint16"]%string
  /\ types__bloomValues__set_i3_atoms = ["binary.BigEndian.Uint16(hashbuf[4:]) : uint16"]%string
  /\ types__bloomValues__set_v1_atoms = ["1 << (hashbuf[1] & 0x7) : byte"]%string
  /\ types__bloomValues__set_v2_atoms = ["1 << (hashbuf[3] & 0x7) : byte"]%string
  /\ types__bloomValues__set_v3_atoms = ["1 << (hashbuf[5] & 0x7) : byte"]%string
  /\ types__Bloom_add__assign_op_atoms = ["b[i1] : byte"; "v1 : byte"]%string
  /\ types__Bloom_add__assign_op_2_atoms = ["b[i2] : byte"; "v2 : byte"]%string
  /\ types__Bloom_add__assign_op_3_atoms = ["b[i3] : byte"; "v3 : byte"]%string.
Proof. repeat split; reflexivity. Qed.

(* ------------------------------------------------------------------ *)
(** * (e) the StateDB overlay *)

(** stateObject.empty *)
Lemma tie_empty o :
  so_empty o =
  kai_state__stateObject_empty__ret_s_data_Nonce_eq_0_and_s_data_Balance_Sign_eq_0_and_bytes_Equ_d1151db1
    (Z.of_N (so_nonce o)) (sign_int (so_balance o)) (N.eqb (so_code o) 0).
Proof.
  unfold so_empty, kai_state__stateObject_empty__ret_s_data_Nonce_eq_0_and_s_data_Balance_Sign_eq_0_and_bytes_Equ_d1151db1.
  rewrite sign_int_eq0. pose proof (ofN_eqb (so_nonce o) 0) as E. cbn [Z.of_N] in E. rewrite E. reflexivity.
Qed.

(** Finalise(true): `obj.suicided || (deleteEmptyObjects && obj.empty())` decides between
    "deleted, marked destructed, pending" and "pending" *)
Lemma tie_finalise_one st a o : fm_get a (live st) = Some o ->
  finalise_one st a =
  if kai_state__StateDB_Finalise__if_obj_suicided_or_deleteEmptyObjects_and_obj_empty (so_suicided o) true (so_empty o)
  then {| live := fm_set a (with_deleted o) (live st); destr := fm_set a tt (destr st); dirt := dirt st; pend := fm_set a tt (pend st) |}
  else {| live := live st; destr := destr st; dirt := dirt st; pend := fm_set a tt (pend st) |}.
Proof. intros E. unfold finalise_one. rewrite E. reflexivity. Qed.
Lemma tie_finalise_deleted o : so_deleted (with_deleted o) = kai_state__StateDB_Finalise__put_obj_deleted.
Proof. reflexivity. Qed.
Lemma tie_finalise_missing st a : fm_get a (live st) = None ->
  kai_state__StateDB_Finalise__if_not_exist false = true /\ finalise_one st a = st.
Proof. intros E. split; [reflexivity|]. unfold finalise_one. rewrite E. reflexivity. Qed.

(** getStateObject: `obj != nil && !obj.deleted` *)
Lemma tie_get_obj bk st a :
  get_obj bk st a =
  match get_deleted bk st a with
  | Some o => if kai_state__StateDB_getStateObject__if_obj_ne_nil_and_not_obj_deleted true (so_deleted o) then Some o else None
  | None => if kai_state__StateDB_getStateObject__if_obj_ne_nil_and_not_obj_deleted false false then Some fresh_obj else None
  end.
Proof. unfold get_obj. destruct (get_deleted bk st a) as [o|]; [destruct (so_deleted o)|]; reflexivity. Qed.

(** createObject: the overwritten object is returned `if prev != nil && !prev.deleted`; the
    destruct mark is added `if !prevdestruct` (a set insertion either way) *)
Lemma tie_create_prev bk st a :
  snd (create_object bk st a) =
  match get_deleted bk st a with
  | Some p => if kai_state__StateDB_createObject__if_prev_ne_nil_and_not_prev_deleted true (so_deleted p) then Some p else None
  | None => if kai_state__StateDB_createObject__if_prev_ne_nil_and_not_prev_deleted false false then Some fresh_obj else None
  end.
Proof. unfold create_object. destruct (get_deleted bk st a) as [p|]; [destruct (so_deleted p)|]; reflexivity. Qed.
Lemma tie_create_branch bk st a :
  create_object bk st a =
  if kai_state__StateDB_createObject__if_prev_eq_nil (match get_deleted bk st a with None => true | Some _ => false end)
  then (put st a fresh_obj, None)
  else ({| live := fm_set a fresh_obj (live st); destr := fm_set a tt (destr st); dirt := fm_set a tt (dirt st); pend := pend st |},
        snd (create_object bk st a)).
Proof. unfold create_object. destruct (get_deleted bk st a); reflexivity. Qed.
Lemma tie_create_account bk st a :
  create_account bk st a =
  let st1 := fst (create_object bk st a) in
  if kai_state__StateDB_CreateAccount__if_prev_ne_nil (match snd (create_object bk st a) with Some _ => true | None => false end)
  then {| live := fm_set a (with_balance fresh_obj (match snd (create_object bk st a) with Some p => so_balance p | None => 0 end)) (live st1);
          destr := destr st1; dirt := dirt st1; pend := pend st1 |}
  else st1.
Proof. unfold create_account. destruct (create_object bk st a) as [st1 [p|]]; reflexivity. Qed.
Lemma tie_create_destruct ds a b :
  mem b (fm_set a tt ds) =
  mem b (if kai_state__StateDB_createObject__if_not_prevdestruct (mem a ds) then fm_set a tt ds else ds).
Proof.
  unfold kai_state__StateDB_createObject__if_not_prevdestruct. destruct (mem a ds) eqn:M; cbn [negb]; [|reflexivity].
  rewrite mem_set. destruct (N.eqb_spec b a) as [->|]; [rewrite M|]; reflexivity.
Qed.

(** resetObjectChange.revert: `if !ch.prevdestruct { delete(s.stateObjectsDestruct, addr) }` takes
    the set back to what it was before createObject marked the address — the model's restore of
    the saved set (the first seeded change removed exactly this guard) *)
Lemma mem_rm a b (s : fmap unit) : mem b (fm_rm a s) = if N.eqb b a then false else mem b s.
Proof. unfold mem. rewrite get_rm. destruct (N.eqb b a); reflexivity. Qed.

Lemma tie_revert_destruct ds0 a b :
  mem b (if kai_state__resetObjectChange_revert__if_not_ch_prevdestruct (mem a ds0)
         then fm_rm a (fm_set a tt ds0) else fm_set a tt ds0) = mem b ds0.
Proof.
  unfold kai_state__resetObjectChange_revert__if_not_ch_prevdestruct. destruct (mem a ds0) eqn:M; cbn [negb].
  - rewrite mem_set. destruct (N.eqb_spec b a) as [->|]; [rewrite M|]; reflexivity.
  - rewrite mem_rm, mem_set.
    destruct (N.eqb_spec b a) as [->|]; [rewrite M|]; reflexivity.
Qed.

(** AddBalance / SubBalance: `amount.Sign() == 0` *)
Lemma tie_add_zero v : kai_state__stateObject_AddBalance__if_amount_Sign_eq_0 (sign_int v) = Z.eqb v 0.
Proof. apply sign_int_eq0. Qed.
Lemma tie_sub_zero v : kai_state__stateObject_SubBalance__if_amount_Sign_eq_0 (sign_int v) = Z.eqb v 0.
Proof. apply sign_int_eq0. Qed.
Lemma tie_add_balance bk st a v :
  add_balance bk st a v =
  let '(st1, o) := get_or_new bk st a in
  if kai_state__stateObject_AddBalance__if_amount_Sign_eq_0 (sign_int v)
  then (if kai_state__stateObject_AddBalance__if_s_empty (so_empty o) then put st1 a o else st1)
  else put st1 a (with_balance o (so_balance o + v)).
Proof. unfold add_balance. rewrite tie_add_zero. reflexivity. Qed.
Lemma tie_sub_balance bk st a v :
  sub_balance bk st a v =
  let '(st1, o) := get_or_new bk st a in
  if kai_state__stateObject_SubBalance__if_amount_Sign_eq_0 (sign_int v) then st1 else put st1 a (with_balance o (so_balance o - v)).
Proof. unfold sub_balance. rewrite tie_sub_zero. reflexivity. Qed.

(** GetCommittedState: the snapshot answers unless `s.db.snap == nil || err != nil` *)
Lemma tie_committed bk st a o k :
  committed bk st a o k =
  if kai_state__stateObject_GetCommittedState__if_destructed (mem a (destr st)) then 0%N
  else
    let v := if kai_state__stateObject_GetCommittedState__if_s_db_snap_ne_nil (bk_snap bk) then bk_slot bk a k else 0%N in
    if kai_state__stateObject_GetCommittedState__if_s_db_snap_eq_nil_or_err_ne_nil (negb (bk_snap bk)) false
    then (if so_fresh o then 0%N else bk_slot bk a k)
    else v.
Proof.
  unfold committed, kai_state__stateObject_GetCommittedState__if_s_db_snap_eq_nil_or_err_ne_nil,
    kai_state__stateObject_GetCommittedState__if_destructed, kai_state__stateObject_GetCommittedState__if_s_db_snap_ne_nil.
  destruct (mem a (destr st)); [reflexivity|]. destruct (bk_snap bk); reflexivity.
Qed.
(** GetState / GetCommittedState above the committed value: the dirty, then the pending slots
    (one map in the model) *)
Lemma tie_obj_state bk st a o k :
  obj_state bk st a o k =
  if kai_state__stateObject_GetState__if_dirty (match fm_get k (so_slots o) with Some _ => true | None => false end)
  then match fm_get k (so_slots o) with Some v => v | None => 0%N end
  else if kai_state__stateObject_GetCommittedState__if_pending false then 0%N
  else committed bk st a o k.
Proof. unfold obj_state. destruct (fm_get k (so_slots o)); reflexivity. Qed.
(** SetState: `if prev == value { return }` *)
Lemma tie_set_state bk st a k v :
  set_state bk st a k v =
  let '(st1, o) := get_or_new bk st a in
  if kai_state__stateObject_SetState__if_prev_eq_value (N.eqb (obj_state bk st1 a o k) v) then st1 else put st1 a (with_slot o k v).
Proof. reflexivity. Qed.

(** IntermediateRoot: `if obj.deleted { deleteStateObject } else { updateStateObject }` *)
Lemma tie_commit_one c d :
  commit_one c d =
  if kai_state__StateDB_IntermediateRoot__if_not_obj_deleted (d_deleted d)
  then fm_set (d_addr d) (new_account c d) c else fm_del (d_addr d) c.
Proof.
  rewrite commit_one_eq. unfold kai_state__StateDB_IntermediateRoot__if_not_obj_deleted. destruct (d_deleted d); reflexivity.
Qed.

(** updateTrie: nothing is written (and no snapshot storage entry made) `if len(s.pendingStorage) == 0` *)
Lemma tie_no_pending (m : fmap N) :
  kai_state__stateObject_updateTrie__if_len_s_pendingStorage_eq_0 (Z.of_nat (List.length m)) =
  match m with [] => true | _ => false end.
Proof.
  unfold kai_state__stateObject_updateTrie__if_len_s_pendingStorage_eq_0. destruct m; [reflexivity|].
  cbn [List.length]. apply Z.eqb_neq. lia.
Qed.

Lemma statedb_atoms :
  kai_state__StateDB_Finalise__if_obj_suicided_or_deleteEmptyObjects_and_obj_empty_atoms = ["obj.suicided : bool"; "deleteEmptyObjects : bool"; "obj.empty() : bool"]%string
  /\ kai_state__StateDB_Finalise__if_not_exist_atoms = ["exist : bool"]%string
  /\ kai_state__stateObject_empty__ret_s_data_Nonce_eq_0_and_s_data_Balance_Sign_eq_0_and_bytes_Equ_d1151db1_atoms
     = ["s.data.Nonce : uint64"; "s.data.Balance.Sign() : int"; "bytes.Equal(s.data.CodeHash, types.EmptyCodeHash.Bytes()) : bool"]%string
  /\ kai_state__StateDB_getStateObject__if_obj_ne_nil_and_not_obj_deleted_atoms = ["obj != nil : bool"; "obj.deleted : bool"]%string
  /\ kai_state__StateDB_createObject__if_prev_ne_nil_and_not_prev_deleted_atoms = ["prev != nil : bool"; "prev.deleted : bool"]%string
  /\ kai_state__StateDB_createObject__if_not_prevdestruct_atoms = ["prevdestruct : bool"]%string
  /\ kai_state__resetObjectChange_revert__if_not_ch_prevdestruct_atoms = ["ch.prevdestruct : bool"]%string
  /\ kai_state__stateObject_AddBalance__if_amount_Sign_eq_0_atoms = ["amount.Sign() : int"]%string
  /\ kai_state__stateObject_SubBalance__if_amount_Sign_eq_0_atoms = ["amount.Sign() : int"]%string
  /\ kai_state__stateObject_GetCommittedState__if_s_db_snap_eq_nil_or_err_ne_nil_atoms = ["s.db.snap == nil : untyped bool"; "err != nil : untyped bool"]%string
  /\ kai_state__StateDB_IntermediateRoot__if_not_obj_deleted_atoms = ["obj.deleted : bool"]%string
  /\ kai_state__stateObject_updateTrie__if_len_s_pendingStorage_eq_0_atoms = ["len(s.pendingStorage) : int"]%string.
Proof. repeat split; reflexivity. Qed.

(* ------------------------------------------------------------------ *)
(** * (e) the snapshot tree *)

(** Tree.Cap(root, layers): `layers == 0` flattens everything, the head included, into the disk layer *)
Lemma tie_cap_zero ls dk :
  kai_state_snapshot__Tree_Cap__if_layers_eq_0 (Z.of_nat 0) = true /\
  cap 0 ls dk = match flatten_all ls with None => (ls, dk) | Some b => ([], diff_to_disk b dk) end.
Proof. split; reflexivity. Qed.
Lemma tie_cap_nonzero n : kai_state_snapshot__Tree_Cap__if_layers_eq_0 (Z.of_nat (S n)) = false.
Proof. unfold kai_state_snapshot__Tree_Cap__if_layers_eq_0. apply Z.eqb_neq. lia. Qed.

(** Tree.cap: `for i := 0; i < layers-1; i++ { diff = parent }` goes down layers-1 parents from the
    head, so [layers] diff layers stay above what is flattened: the model's [firstn layers] *)
Lemma tie_cap_descents i layers : (1 <= layers)%nat -> Z.of_nat layers <= 9223372036854775807 ->
  kai_state_snapshot__Tree_cap__for_i_lt_layers_minus_1 (Z.of_nat i) (Z.of_nat layers) = (i <? layers - 1)%nat.
Proof.
  intros L R. unfold kai_state_snapshot__Tree_cap__for_i_lt_layers_minus_1, go_sub.
  rewrite wrap_id by (unfold in_range; lia).
  destruct (Nat.ltb_spec i (layers - 1)); [apply Z.ltb_lt|apply Z.ltb_ge]; lia.
Qed.
Lemma tie_cap_keeps n (ls : list layer) dk b : (n <= List.length ls)%nat -> flatten_all (skipn n ls) = Some b ->
  List.length (fst (cap n ls dk)) = n.
Proof. intros L E. unfold cap. rewrite E. cbn [fst]. apply firstn_length_le, L. Qed.

(** diffLayer.flatten: `if !ok { return dl }` — a layer directly above the disk layer is the bottom *)
Lemma tie_flatten_bottom l :
  kai_state_snapshot__diffLayer_flatten__if_not_ok false = true /\ flatten_all [l] = Some l.
Proof. split; reflexivity. Qed.

(** diffToDisk: a slot is written `if len(data) > 0` and deleted otherwise (the model's value 0) *)
Lemma tie_disk_slot n : kai_state_snapshot__diffToDisk__if_len_data_gt_0 (Z.of_nat n) = negb (Nat.eqb n 0).
Proof.
  unfold kai_state_snapshot__diffToDisk__if_len_data_gt_0. rewrite Z.gtb_ltb.
  destruct n; [reflexivity|]. cbn [Nat.eqb negb]. apply Z.ltb_lt. lia.
Qed.
(** updateTrie: `if value == (common.Hash{}) { DeleteStorage } else { UpdateStorage }` *)
Lemma tie_set_slot m kv :
  set_slot m kv =
  if kai_state__stateObject_updateTrie__if_value_eq_common_Hash (N.eqb (snd kv) 0) then fm_del (fst kv) m else fm_set (fst kv) (snd kv) m.
Proof. reflexivity. Qed.

(** diffLayer.accountRLP / storage: own data, then own destruct set, then the parent *)
Lemma tie_look_acc l t dk a :
  look_acc (l :: t) dk a =
  if kai_state_snapshot__diffLayer_accountRLP__if_ok (match fm_get a (l_accts l) with Some _ => true | None => false end)
  then fm_get a (l_accts l)
  else if kai_state_snapshot__diffLayer_accountRLP__if_ok_2 (mem a (l_destr l)) then None else look_acc t dk a.
Proof.
  cbn [look_acc]. unfold kai_state_snapshot__diffLayer_accountRLP__if_ok, kai_state_snapshot__diffLayer_accountRLP__if_ok_2.
  destruct (fm_get a (l_accts l)); reflexivity.
Qed.
Lemma tie_look_slot l t dk a k :
  look_slot (l :: t) dk a k =
  if kai_state_snapshot__diffLayer_storage__if_ok (match fm_get a (l_stor l) with Some _ => true | None => false end)
     && kai_state_snapshot__diffLayer_storage__if_ok_2 (match stor_get (l_stor l) a k with Some _ => true | None => false end)
  then match stor_get (l_stor l) a k with Some v => v | None => 0%N end
  else if kai_state_snapshot__diffLayer_storage__if_ok_3 (mem a (l_destr l)) then 0%N else look_slot t dk a k.
Proof.
  cbn [look_slot]. unfold kai_state_snapshot__diffLayer_storage__if_ok, kai_state_snapshot__diffLayer_storage__if_ok_2,
    kai_state_snapshot__diffLayer_storage__if_ok_3, stor_get.
  destruct (fm_get a (l_stor l)) as [m|]; [destruct (fm_get k m)|]; reflexivity.
Qed.

(** Tree.cap's loop `for i := 0; i < layers-1; i++`, run with the generated init, guard and step:
    exactly layers-1 descents *)
Fixpoint cap_descents (fuel : nat) (i layers : Z) : nat :=
  match fuel with
  | O => O
  | S f => if kai_state_snapshot__Tree_cap__for_i_lt_layers_minus_1 i layers
           then S (cap_descents f (kai_state_snapshot__Tree_cap__set_i_op i) layers) else O
  end.
Lemma cap_descents_spec layers : 1 <= layers <= 4611686018427387904 -> forall f i,
  0 <= i <= layers - 1 -> (Z.to_nat (layers - 1 - i) <= f)%nat ->
  cap_descents f i layers = Z.to_nat (layers - 1 - i).
Proof.
  intros R. induction f as [|f IH]; intros i Hi Hf.
  - cbn [cap_descents]. lia.
  - cbn [cap_descents]. unfold kai_state_snapshot__Tree_cap__for_i_lt_layers_minus_1, go_sub.
    rewrite (wrap_id I64 (layers - 1)) by (unfold in_range; lia).
    destruct (Z.ltb_spec i (layers - 1)) as [L|L].
    + unfold kai_state_snapshot__Tree_cap__set_i_op, go_add. rewrite (wrap_id I64 (i + 1)) by (unfold in_range; lia).
      rewrite IH by lia. lia.
    + lia.
Qed.
Lemma tie_cap_loop layers : 1 <= layers <= 4611686018427387904 ->
  cap_descents (Z.to_nat layers) kai_state_snapshot__Tree_cap__forinit_i layers = Z.to_nat (layers - 1).
Proof.
  intros R. rewrite (cap_descents_spec layers R); unfold kai_state_snapshot__Tree_cap__forinit_i; [f_equal; lia|lia|lia].
Qed.
(** the aggressive cap while the generator runs; the cycle guard of Tree.Update *)
Lemma tie_cap_misc :
  kai_state_snapshot__Tree_Cap__let_layers = 8 /\
  kai_state_snapshot__Tree_Update__if_blockRoot_eq_parentRoot_atoms = ["blockRoot == parentRoot : untyped bool"]%string.
Proof. split; reflexivity. Qed.

Lemma snapshot_atoms :
  kai_state_snapshot__Tree_Cap__if_layers_eq_0_atoms = ["layers : int"]%string
  /\ kai_state_snapshot__Tree_cap__for_i_lt_layers_minus_1_atoms = ["i : int"; "layers : int"]%string
  /\ kai_state_snapshot__Tree_cap__if_flattened_memory_lt_aggregatorMemoryLimit_atoms = ["flattened.memory : uint64"; "aggregatorMemoryLimit : uint64"]%string
  /\ kai_state_snapshot__diffLayer_flatten__if_not_ok_atoms = ["ok : bool"]%string
  /\ kai_state_snapshot__diffToDisk__if_len_data_gt_0_atoms = ["len(data) : int"]%string.
Proof. repeat split; reflexivity. Qed.

(* ------------------------------------------------------------------ *)
(** * the statement quoted by Properties.v *)

Definition C06_source_tie_statement : Prop :=
  (forall st b, Z.of_N (s_last_height st) < 18446744073709551615 -> validate_block st b = src_validate st b)
  /\ (forall st sigs cok med nev maxev pin,
        b_time (create_proposal_block st sigs cok med nev maxev pin) =
        if mainchain_blockchain__BlockOperations_CreateProposalBlock__if_height_eq_1 (Z.of_N (s_last_height st + 1))
        then s_last_time st else med)
  /\ (forall last vals, kai_state_cstate__calculateValidatorSetUpdates__if_len_vals_eq_0 (Z.of_nat (List.length vals)) = true ->
        calculate_updates last vals = [])
  /\ (forall m v, is_update m v =
        kai_state_cstate__calculateValidatorSetUpdates__if_not_found_or_oldPower_ne_val_VotingPower
          (match amap_get (v_addr v) m with Some _ => true | None => false end)
          (match amap_get (v_addr v) m with Some p => p | None => 0 end) (v_power v))
  /\ (forall ups : list validator, kai_state_cstate__updateState__if_len_validatorUpdates_gt_0 (Z.of_nat (List.length ups)) =
        match ups with [] => false | _ => true end)
  /\ (forall h, 0 <= h < 18446744073709551614 -> kai_state_cstate__updateState__set_lastHeightValsChanged h = h + 2)
  /\ (forall (ba bt : N -> list N) cum st g logs t,
        map r_cum (receipts_from ba bt cum (Applied st g logs :: t)) =
        mainchain_blockchain__ApplyTransaction__assign_op cum g ::
        map r_cum (receipts_from ba bt (mainchain_blockchain__ApplyTransaction__assign_op cum g) t))
  /\ (forall x, in_range U16 x -> 8 * (255 - types__bloomValues__set_i1 x) + x mod 8 = x mod bloom_bit_length)
  /\ (forall x, types__bloomValues__set_i2 x = types__bloomValues__set_i1 x /\ types__bloomValues__set_i3 x = types__bloomValues__set_i1 x)
  /\ (forall b v, in_range U8 b -> in_range U8 v -> types__Bloom_add__assign_op b v = Z.lor b v)
  /\ (forall o, so_empty o =
        kai_state__stateObject_empty__ret_s_data_Nonce_eq_0_and_s_data_Balance_Sign_eq_0_and_bytes_Equ_d1151db1
          (Z.of_N (so_nonce o)) (sign_int (so_balance o)) (N.eqb (so_code o) 0))
  /\ (forall st a o, fm_get a (live st) = Some o ->
        finalise_one st a =
        if kai_state__StateDB_Finalise__if_obj_suicided_or_deleteEmptyObjects_and_obj_empty (so_suicided o) true (so_empty o)
        then {| live := fm_set a (with_deleted o) (live st); destr := fm_set a tt (destr st); dirt := dirt st; pend := fm_set a tt (pend st) |}
        else {| live := live st; destr := destr st; dirt := dirt st; pend := fm_set a tt (pend st) |})
  /\ (forall bk st a, get_obj bk st a =
        match get_deleted bk st a with
        | Some o => if kai_state__StateDB_getStateObject__if_obj_ne_nil_and_not_obj_deleted true (so_deleted o) then Some o else None
        | None => if kai_state__StateDB_getStateObject__if_obj_ne_nil_and_not_obj_deleted false false then Some fresh_obj else None
        end)
  /\ (forall bk st a, snd (create_object bk st a) =
        match get_deleted bk st a with
        | Some p => if kai_state__StateDB_createObject__if_prev_ne_nil_and_not_prev_deleted true (so_deleted p) then Some p else None
        | None => if kai_state__StateDB_createObject__if_prev_ne_nil_and_not_prev_deleted false false then Some fresh_obj else None
        end)
  /\ (forall ds a b, mem b (fm_set a tt ds) =
        mem b (if kai_state__StateDB_createObject__if_not_prevdestruct (mem a ds) then fm_set a tt ds else ds))
  /\ (forall ds0 a b,
        mem b (if kai_state__resetObjectChange_revert__if_not_ch_prevdestruct (mem a ds0)
               then fm_rm a (fm_set a tt ds0) else fm_set a tt ds0) = mem b ds0)
  /\ (forall bk st a v, add_balance bk st a v =
        let '(st1, o) := get_or_new bk st a in
        if kai_state__stateObject_AddBalance__if_amount_Sign_eq_0 (sign_int v)
        then (if kai_state__stateObject_AddBalance__if_s_empty (so_empty o) then put st1 a o else st1)
        else put st1 a (with_balance o (so_balance o + v)))
  /\ (forall bk st a v, sub_balance bk st a v =
        let '(st1, o) := get_or_new bk st a in
        if kai_state__stateObject_SubBalance__if_amount_Sign_eq_0 (sign_int v) then st1 else put st1 a (with_balance o (so_balance o - v)))
  /\ (forall bk st a o k, committed bk st a o k =
        if kai_state__stateObject_GetCommittedState__if_destructed (mem a (destr st)) then 0%N
        else
          let v := if kai_state__stateObject_GetCommittedState__if_s_db_snap_ne_nil (bk_snap bk) then bk_slot bk a k else 0%N in
          if kai_state__stateObject_GetCommittedState__if_s_db_snap_eq_nil_or_err_ne_nil (negb (bk_snap bk)) false
          then (if so_fresh o then 0%N else bk_slot bk a k) else v)
  /\ (forall bk st a k v, set_state bk st a k v =
        let '(st1, o) := get_or_new bk st a in
        if kai_state__stateObject_SetState__if_prev_eq_value (N.eqb (obj_state bk st1 a o k) v) then st1 else put st1 a (with_slot o k v))
  /\ (forall bk st a, create_object bk st a =
        if kai_state__StateDB_createObject__if_prev_eq_nil (match get_deleted bk st a with None => true | Some _ => false end)
        then (put st a fresh_obj, None)
        else ({| live := fm_set a fresh_obj (live st); destr := fm_set a tt (destr st); dirt := fm_set a tt (dirt st); pend := pend st |},
              snd (create_object bk st a)))
  /\ (forall m kv, set_slot m kv =
        if kai_state__stateObject_updateTrie__if_value_eq_common_Hash (N.eqb (snd kv) 0) then fm_del (fst kv) m else fm_set (fst kv) (snd kv) m)
  /\ (forall l t dk a, look_acc (l :: t) dk a =
        if kai_state_snapshot__diffLayer_accountRLP__if_ok (match fm_get a (l_accts l) with Some _ => true | None => false end)
        then fm_get a (l_accts l)
        else if kai_state_snapshot__diffLayer_accountRLP__if_ok_2 (mem a (l_destr l)) then None else look_acc t dk a)
  /\ (forall l t dk a k, look_slot (l :: t) dk a k =
        if kai_state_snapshot__diffLayer_storage__if_ok (match fm_get a (l_stor l) with Some _ => true | None => false end)
           && kai_state_snapshot__diffLayer_storage__if_ok_2 (match stor_get (l_stor l) a k with Some _ => true | None => false end)
        then match stor_get (l_stor l) a k with Some v => v | None => 0%N end
        else if kai_state_snapshot__diffLayer_storage__if_ok_3 (mem a (l_destr l)) then 0%N else look_slot t dk a k)
  /\ (forall layers, 1 <= layers <= 4611686018427387904 ->
        cap_descents (Z.to_nat layers) kai_state_snapshot__Tree_cap__forinit_i layers = Z.to_nat (layers - 1))
  /\ (forall c d, commit_one c d =
        if kai_state__StateDB_IntermediateRoot__if_not_obj_deleted (d_deleted d)
        then fm_set (d_addr d) (new_account c d) c else fm_del (d_addr d) c)
  /\ (forall m : fmap N, kai_state__stateObject_updateTrie__if_len_s_pendingStorage_eq_0 (Z.of_nat (List.length m)) =
        match m with [] => true | _ => false end)
  /\ (forall ls dk, kai_state_snapshot__Tree_Cap__if_layers_eq_0 (Z.of_nat 0) = true /\
        cap 0 ls dk = match flatten_all ls with None => (ls, dk) | Some b => ([], diff_to_disk b dk) end)
  /\ (forall n, kai_state_snapshot__Tree_Cap__if_layers_eq_0 (Z.of_nat (S n)) = false)
  /\ (forall i layers, (1 <= layers)%nat -> Z.of_nat layers <= 9223372036854775807 ->
        kai_state_snapshot__Tree_cap__for_i_lt_layers_minus_1 (Z.of_nat i) (Z.of_nat layers) = (i <? layers - 1)%nat)
  /\ (forall l, kai_state_snapshot__diffLayer_flatten__if_not_ok false = true /\ flatten_all [l] = Some l)
  /\ (forall n, kai_state_snapshot__diffToDisk__if_len_data_gt_0 (Z.of_nat n) = negb (Nat.eqb n 0))
  /\ (kai_state_cstate__validateBlock__if_block_Height_ne_state_LastBlockHeight_plus_1_atoms = ["block.Height() : uint64"; "state.LastBlockHeight : uint64"]%string
      /\ kai_state_cstate__validateBlock__if_numEvidence_gt_maxNumEvidence_atoms = ["numEvidence : int64"; "maxNumEvidence : int64"]%string
      /\ mainchain_blockchain__BlockOperations_CreateProposalBlock__if_height_eq_1_atoms = ["height : uint64"]%string
      /\ kai_state_cstate__calculateValidatorSetUpdates__if_not_found_or_oldPower_ne_val_VotingPower_atoms = ["found : bool"; "oldPower : int64"; "val.VotingPower : int64"]%string
      /\ mainchain_blockchain__ApplyTransaction__assign_op_atoms = ["*usedGas : uint64"; "result.UsedGas : uint64"]%string
      /\ types__bloomValues__set_i1_atoms = ["binary.BigEndian.Uint16(hashbuf) : uint16"]%string
      /\ kai_state__StateDB_Finalise__if_obj_suicided_or_deleteEmptyObjects_and_obj_empty_atoms = ["obj.suicided : bool"; "deleteEmptyObjects : bool"; "obj.empty() : bool"]%string
      /\ kai_state__resetObjectChange_revert__if_not_ch_prevdestruct_atoms = ["ch.prevdestruct : bool"]%string
      /\ kai_state__StateDB_createObject__if_not_prevdestruct_atoms = ["prevdestruct : bool"]%string
      /\ kai_state__stateObject_GetCommittedState__if_s_db_snap_eq_nil_or_err_ne_nil_atoms = ["s.db.snap == nil : untyped bool"; "err != nil : untyped bool"]%string
      /\ kai_state_snapshot__Tree_cap__for_i_lt_layers_minus_1_atoms = ["i : int"; "layers : int"]%string
      /\ kai_state_snapshot__diffToDisk__if_len_data_gt_0_atoms = ["len(data) : int"]%string
      /\ kai_state__stateObject_GetCommittedState__if_destructed_atoms = ["destructed : bool"]%string
      /\ kai_state__stateObject_GetCommittedState__if_pending_atoms = ["pending : bool"]%string
      /\ kai_state__stateObject_GetState__if_dirty_atoms = ["dirty : bool"]%string
      /\ kai_state__stateObject_SetState__if_prev_eq_value_atoms = ["prev == value : untyped bool"]%string
      /\ kai_state__StateDB_createObject__if_prev_eq_nil_atoms = ["prev == nil : untyped bool"]%string
      /\ kai_state__StateDB_CreateAccount__if_prev_ne_nil_atoms = ["prev != nil : untyped bool"]%string
      /\ kai_state__stateObject_AddBalance__if_s_empty_atoms = ["s.empty() : bool"]%string
      /\ kai_state__stateObject_updateTrie__if_value_eq_common_Hash_atoms = ["value == common.Hash{} : untyped bool"]%string
      /\ kai_state_cstate__calculateValidatorSetUpdates__if_dup_atoms = ["dup : bool"]%string
      /\ kai_state_cstate__validateBlock__if_block_LastCommit_eq_nil_atoms = ["block.LastCommit() == nil : untyped bool"]%string
      /\ types__NewReceipt__if_failed_atoms = ["failed : bool"]%string
      /\ types__NewReceipt__put_r_Status = 0 /\ types__NewReceipt__put_r_Status_2 = 1
      /\ kai_state__StateDB_Finalise__put_obj_deleted = true
      /\ kai_state_snapshot__Tree_Cap__let_layers = 8).

Lemma C06_source_tie_proof : C06_source_tie_statement.
Proof.
  unfold C06_source_tie_statement.
  split; [exact tie_validate|]. split; [exact tie_proposal_time|]. split; [exact tie_calc_empty|].
  split; [exact tie_is_update|]. split; [exact tie_update_state_guard|]. split; [exact tie_update_state_height|].
  split; [exact tie_cumulative_gas|]. split; [exact tie_bloom_position|]. split; [exact tie_bloom_index_same|].
  split; [exact tie_bloom_or|]. split; [exact tie_empty|]. split; [exact tie_finalise_one|].
  split; [exact tie_get_obj|]. split; [exact tie_create_prev|]. split; [exact tie_create_destruct|].
  split; [exact tie_revert_destruct|]. split; [exact tie_add_balance|]. split; [exact tie_sub_balance|].
  split; [exact tie_committed|]. split; [exact tie_set_state|]. split; [exact tie_create_branch|].
  split; [exact tie_set_slot|]. split; [exact tie_look_acc|]. split; [exact tie_look_slot|]. split; [exact tie_cap_loop|].
  split; [exact tie_commit_one|]. split; [exact tie_no_pending|].
  split; [exact tie_cap_zero|]. split; [exact tie_cap_nonzero|]. split; [exact tie_cap_descents|].
  split; [exact tie_flatten_bottom|]. split; [exact tie_disk_slot|]. repeat split; reflexivity.
Qed.
