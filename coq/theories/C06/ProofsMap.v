(** C06 — facts about the canonical finite maps of the model, and the generic
    "a fold of pairwise commuting updates does not depend on the order" lemma. *)
From Coq Require Import List ZArith NArith Bool Lia Permutation.
From Kardia Require Import C06.Model.
Import ListNotations.

Section FMapFacts.
  Context {V : Type}.
  Implicit Types (m : fmap V).

  Definition keys m : list N := map fst m.

  (** strictly ascending keys *)
  Fixpoint sorted m : Prop :=
    match m with
    | [] => True
    | (k, _) :: t => (forall k', In k' (keys t) -> (k < k')%N) /\ sorted t
    end.

  Lemma get_none m k : ~ In k (keys m) -> fm_get k m = None.
  Proof.
    induction m as [|[k' v] t IH]; cbn [fm_get keys map fst]; [reflexivity|].
    intros H. destruct (N.eqb_spec k k') as [E|E].
    - exfalso. apply H. left. cbn. congruence.
    - apply IH. intros I. apply H. right. exact I.
  Qed.

  Lemma get_in m k v : fm_get k m = Some v -> In k (keys m).
  Proof.
    induction m as [|[k' v'] t IH]; cbn [fm_get keys map fst]; [discriminate|].
    destruct (N.eqb_spec k k') as [E|E]; intros H.
    - left. cbn. congruence.
    - right. apply IH, H.
  Qed.

  Lemma get_in_pair m k v : fm_get k m = Some v -> In (k, v) m.
  Proof.
    induction m as [|[k' v'] t IH]; cbn [fm_get]; [discriminate|].
    destruct (N.eqb_spec k k') as [E|E]; intros H.
    - left. congruence.
    - right. apply IH, H.
  Qed.

  Lemma get_set m k k' v : fm_get k (fm_set k' v m) = if N.eqb k k' then Some v else fm_get k m.
  Proof.
    induction m as [|[k0 v0] t IH]; cbn [fm_set fm_get]; [reflexivity|].
    destruct (N.ltb_spec k' k0) as [L|L]; cbn [fm_get]; [reflexivity|].
    destruct (N.eqb_spec k' k0) as [E|E]; cbn [fm_get].
    - subst. destruct (N.eqb_spec k k0); reflexivity.
    - rewrite IH. destruct (N.eqb_spec k k0) as [E0|E0]; [|reflexivity].
      destruct (N.eqb_spec k k'); [congruence|reflexivity].
  Qed.

  Lemma sorted_head_notin k v t : sorted ((k, v) :: t) -> ~ In k (keys t).
  Proof. intros [F _] I. specialize (F k I). lia. Qed.

  Lemma get_del m k k' : sorted m -> fm_get k (fm_del k' m) = if N.eqb k k' then None else fm_get k m.
  Proof.
    induction m as [|[k0 v0] t IH]; intros S; cbn [fm_del fm_get].
    - destruct (N.eqb k k'); reflexivity.
    - pose proof (sorted_head_notin _ _ _ S) as NI. destruct S as [F S].
      destruct (N.eqb_spec k' k0) as [E|E]; cbn [fm_get].
      + subst. destruct (N.eqb_spec k k0) as [E0|E0]; [|reflexivity].
        subst. apply get_none, NI.
      + rewrite (IH S). destruct (N.eqb_spec k k0) as [E0|E0]; [|reflexivity].
        destruct (N.eqb_spec k k'); [congruence|reflexivity].
  Qed.

  Lemma keys_set m k v x : In x (keys (fm_set k v m)) -> x = k \/ In x (keys m).
  Proof.
    induction m as [|[k0 v0] t IH]; cbn [fm_set keys map fst]; intros H.
    - destruct H as [H|[]]. left. cbn in H. congruence.
    - destruct (N.ltb_spec k k0) as [L|L].
      + cbn [map fst] in H. destruct H as [H|H]; [left; cbn in H; congruence|right; exact H].
      + destruct (N.eqb_spec k k0) as [E|E]; cbn [map fst] in H.
        * destruct H as [H|H]; [left; cbn in H; congruence|right; right; exact H].
        * destruct H as [H|H]; [right; left; exact H|].
          destruct (IH H) as [H'|H']; [left; exact H'|right; right; exact H'].
  Qed.

  Lemma keys_del m k x : In x (keys (fm_del k m)) -> In x (keys m).
  Proof.
    induction m as [|[k0 v0] t IH]; cbn [fm_del keys map fst]; intros H; [exact H|].
    destruct (N.eqb_spec k k0) as [E|E].
    - right. exact H.
    - cbn [map fst] in H. destruct H as [H|H]; [left; exact H|right; apply IH, H].
  Qed.

  Lemma sorted_set m k v : sorted m -> sorted (fm_set k v m).
  Proof.
    induction m as [|[k0 v0] t IH]; intros S; cbn [fm_set].
    - cbn. split; [intros ? []|exact I].
    - destruct S as [F S]. destruct (N.ltb_spec k k0) as [L|L].
      + cbn [sorted]. split; [|split; assumption].
        intros x Hx. cbn [keys map fst] in Hx. destruct Hx as [<-|Hx]; [exact L|].
        specialize (F x Hx). lia.
      + destruct (N.eqb_spec k k0) as [E|E].
        * subst. cbn [sorted]. split; assumption.
        * cbn [sorted]. split; [|apply IH, S].
          intros x Hx. apply keys_set in Hx. destruct Hx as [->|Hx]; [lia|apply F, Hx].
  Qed.

  Lemma sorted_del m k : sorted m -> sorted (fm_del k m).
  Proof.
    induction m as [|[k0 v0] t IH]; intros S; cbn [fm_del]; [exact S|].
    destruct S as [F S]. destruct (N.eqb_spec k k0) as [E|E]; [exact S|].
    cbn [sorted]. split; [|apply IH, S].
    intros x Hx. apply keys_del in Hx. apply F, Hx.
  Qed.

  Lemma in_set m k v e : In e (fm_set k v m) -> e = (k, v) \/ In e m.
  Proof.
    induction m as [|[k0 v0] t IH]; cbn [fm_set]; intros H.
    - destruct H as [H|[]]. left. congruence.
    - destruct (N.ltb_spec k k0) as [L|L].
      + destruct H as [H|H]; [left; congruence|right; exact H].
      + destruct (N.eqb_spec k k0) as [E|E].
        * destruct H as [H|H]; [left; congruence|right; right; exact H].
        * destruct H as [H|H]; [right; left; exact H|].
          destruct (IH H) as [H'|H']; [left; exact H'|right; right; exact H'].
  Qed.

  Lemma in_del m k e : In e (fm_del k m) -> In e m.
  Proof.
    induction m as [|[k0 v0] t IH]; cbn [fm_del]; intros H; [exact H|].
    destruct (N.eqb_spec k k0) as [E|E]; [right; exact H|].
    destruct H as [H|H]; [left; exact H|right; apply IH, H].
  Qed.

  (** canonicity: a sorted map is determined by its lookups *)
  Lemma fmap_ext m1 : forall m2, sorted m1 -> sorted m2 ->
    (forall k, fm_get k m1 = fm_get k m2) -> m1 = m2.
  Proof.
    induction m1 as [|[k1 v1] t1 IH]; intros [|[k2 v2] t2] S1 S2 H.
    - reflexivity.
    - specialize (H k2). cbn [fm_get] in H. rewrite N.eqb_refl in H. discriminate.
    - specialize (H k1). cbn [fm_get] in H. rewrite N.eqb_refl in H. discriminate.
    - pose proof (sorted_head_notin _ _ _ S1) as N1. pose proof (sorted_head_notin _ _ _ S2) as N2.
      destruct S1 as [F1 S1]. destruct S2 as [F2 S2].
      assert (k1 = k2) as ->.
      { pose proof (H k1) as A. pose proof (H k2) as B. cbn [fm_get] in A, B.
        rewrite N.eqb_refl in A, B.
        destruct (N.eqb_spec k1 k2) as [E|E]; [exact E|].
        destruct (N.eqb_spec k2 k1) as [E'|E']; [congruence|].
        symmetry in A. apply get_in in A. apply get_in in B.
        specialize (F2 _ A). specialize (F1 _ B). lia. }
      assert (v1 = v2) as ->.
      { specialize (H k2). cbn [fm_get] in H. rewrite N.eqb_refl in H. congruence. }
      f_equal. apply IH; [assumption|assumption|].
      intros k. destruct (N.eq_dec k k2) as [->|D].
      + rewrite (get_none _ _ N1), (get_none _ _ N2). reflexivity.
      + specialize (H k). cbn [fm_get] in H.
        destruct (N.eqb_spec k k2); [congruence|exact H].
  Qed.

  (** updates at different keys commute (as maps, hence — canonicity — as lists) *)
  Lemma set_set_comm m k1 v1 k2 v2 : sorted m -> k1 <> k2 ->
    fm_set k2 v2 (fm_set k1 v1 m) = fm_set k1 v1 (fm_set k2 v2 m).
  Proof.
    intros S D. apply fmap_ext; [repeat apply sorted_set; exact S|repeat apply sorted_set; exact S|].
    intros k. rewrite !get_set.
    destruct (N.eqb_spec k k2), (N.eqb_spec k k1); congruence.
  Qed.

  Lemma set_set_same m k v1 v2 : sorted m -> fm_set k v2 (fm_set k v1 m) = fm_set k v2 m.
  Proof.
    intros S. apply fmap_ext; [repeat apply sorted_set; exact S|apply sorted_set; exact S|].
    intros x. rewrite !get_set. destruct (N.eqb_spec x k); reflexivity.
  Qed.
End FMapFacts.

(* ------------------------------------------------------------------ *)
(** * folds of commuting updates *)

Lemma fold_left_perm {A B} (f : A -> B -> A) (key : B -> N) (P : A -> Prop) :
  (forall a x, P a -> P (f a x)) ->
  (forall a x y, P a -> key x <> key y -> f (f a x) y = f (f a y) x) ->
  forall l l', Permutation l l' -> NoDup (map key l) ->
  forall a, P a -> fold_left f l a = fold_left f l' a.
Proof.
  intros Pres Comm l l' Perm.
  induction Perm as [|x l l' Perm IH|x y l|l l' l'' P1 IH1 P2 IH2]; intros ND a Pa.
  - reflexivity.
  - cbn [fold_left]. cbn [map] in ND. inversion ND; subst. apply IH; [assumption|apply Pres, Pa].
  - cbn [fold_left]. cbn [map] in ND. inversion ND as [|? ? NI _]; subst.
    rewrite (Comm a y x Pa); [reflexivity|]. intros E. apply NI. left. symmetry. exact E.
  - rewrite (IH1 ND a Pa). apply IH2; [|exact Pa].
    eapply Permutation_NoDup; [apply Permutation_map; exact P1|exact ND].
Qed.

(** the same when every pair commutes (no distinctness needed) *)
Lemma fold_left_perm_all {A B} (f : A -> B -> A) (P : A -> Prop) :
  (forall a x, P a -> P (f a x)) ->
  (forall a x y, P a -> f (f a x) y = f (f a y) x) ->
  forall l l', Permutation l l' -> forall a, P a -> fold_left f l a = fold_left f l' a.
Proof.
  intros Pres Comm l l' Perm.
  induction Perm as [|x l l' Perm IH|x y l|l l' l'' P1 IH1 P2 IH2]; intros a Pa.
  - reflexivity.
  - cbn [fold_left]. apply IH, Pres, Pa.
  - cbn [fold_left]. rewrite (Comm a y x Pa). reflexivity.
  - rewrite (IH1 a Pa). apply IH2, Pa.
Qed.

Lemma fold_left_pres {A B} (f : A -> B -> A) (P : A -> Prop) :
  (forall a x, P a -> P (f a x)) -> forall l a, P a -> P (fold_left f l a).
Proof. intros Pres l. induction l as [|x t IH]; intros a Pa; cbn [fold_left]; [exact Pa|apply IH, Pres, Pa]. Qed.
