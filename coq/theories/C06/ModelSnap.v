(** C06 — executable model of the part of block execution that depends on the SNAPSHOT
    configuration: the StateDB overlay of one block (kai/state/statedb.go, state_object.go,
    journal.go) reading its parent state either through the snapshot layers or through the tries,
    and the snapshot tree's data (kai/state/snapshot/difflayer.go, snapshot.go: Update, lookup
    through the layers, flatten, diffToDisk).

    What is transcribed
      - the live objects (stateObjects), the set stateObjectsDestruct, the addresses the journal
        has dirtied since the last Finalise (journal.dirties), stateObjectsPending;
      - getDeletedStateObject / getStateObject / GetOrNewStateObject / createObject (with its
        "reset" branch that marks the overwritten account as destructed) / CreateAccount,
        AddBalance (touch of an empty object), SubBalance, SetNonce, SetCode, SetState (no-op
        when the value is unchanged), Suicide, GetState / GetCommittedState (pending value, the
        destructed short-cut, then the snapshot — by address, whatever the object's root — or the
        object's storage trie), Finalise(true), Commit(true) (flush = [commit_updates] of Model.v;
        the diff layer handed to snapshot.Tree.Update: destructs, accounts, storage);
      - Snapshot / RevertToSnapshot as save / restore of (objects, destruct set, dirtied set):
        that the journal's entry-by-entry undo IS such a restore is property C08's theorem; the
        harness compares this model with the real journal operation by operation;
      - diffLayer.accountRLP / storage (own data, then own destruct set, then the parent),
        diffLayer.flatten, diffToDisk.
    What is not: the bloom filters, staleness, the iterators, the generator, the journal file;
    originStorage (a cache: updateTrie skips writing a slot whose value equals the cached
    original, which leaves every lookup unchanged); storage roots (a storage trie is its content).
    No proofs in this file. *)
From Coq Require Import List ZArith NArith Bool.
From Kardia Require Import C06.Model.
Import ListNotations.

(* ------------------------------------------------------------------ *)
(** * The parent state as the overlay reads it *)

Definition acct_view := option (N * Z * N).        (* nonce, balance, code hash (0 = none) *)

Record backend := {
  bk_acc : N -> acct_view;           (* snap.Account / trie.GetAccount *)
  bk_slot : N -> N -> N;             (* snap.Storage / storage trie of the account as stored *)
  bk_snap : bool }.                  (* StateDB.snap != nil *)

Definition fields (a : account) : N * Z * N := (a_nonce a, a_balance a, a_code a).

Definition slot_of (m : fmap N) (k : N) : N := match fm_get k m with Some v => v | None => 0%N end.

Definition bk_content (c : content) : backend :=
  {| bk_acc := fun a => option_map fields (fm_get a c);
     bk_slot := fun a k => slot_of (storage_of c a) k;
     bk_snap := false |}.

(** one diff layer: destructSet, accountData, storageData (value 0 = the nil of a deleted slot) *)
Record layer := {
  l_destr : fmap unit;
  l_accts : fmap (N * Z * N);
  l_stor : fmap (fmap N) }.

(** the disk layer: account entries and storage entries of the key-value store *)
Record disk := {
  dk_accts : fmap (N * Z * N);
  dk_stor : fmap (fmap N) }.

Definition mem (a : N) (s : fmap unit) : bool :=
  match fm_get a s with Some _ => true | None => false end.

Definition stor_get (st : fmap (fmap N)) (a k : N) : option N :=
  match fm_get a st with Some m => fm_get k m | None => None end.

(** diffLayer.accountRLP: own accountData, own destructSet, parent; diskLayer.AccountRLP *)
Fixpoint look_acc (ls : list layer) (dk : disk) (a : N) : acct_view :=
  match ls with
  | [] => fm_get a (dk_accts dk)
  | l :: t =>
    match fm_get a (l_accts l) with
    | Some x => Some x
    | None => if mem a (l_destr l) then None else look_acc t dk a
    end
  end.

(** diffLayer.storage: own storageData, own destructSet, parent; diskLayer.Storage *)
Fixpoint look_slot (ls : list layer) (dk : disk) (a k : N) : N :=
  match ls with
  | [] => match stor_get (dk_stor dk) a k with Some v => v | None => 0%N end
  | l :: t =>
    match stor_get (l_stor l) a k with
    | Some v => v
    | None => if mem a (l_destr l) then 0%N else look_slot t dk a k
    end
  end.

Definition bk_layers (ls : list layer) (dk : disk) : backend :=
  {| bk_acc := look_acc ls dk; bk_slot := look_slot ls dk; bk_snap := true |}.

(* ------------------------------------------------------------------ *)
(** * The overlay of one block *)

Record sobj := {
  so_nonce : N;
  so_balance : Z;
  so_code : N;
  so_suicided : bool;
  so_deleted : bool;
  so_fresh : bool;            (* newObject(db, addr, StateAccount{}): made by createObject, empty storage root *)
  so_slots : fmap N }.        (* dirtyStorage over pendingStorage: key -> value, 0 = cleared *)

Record core := {
  live : fmap sobj;           (* stateObjects that were written (clean cached copies are re-read) *)
  destr : fmap unit;          (* stateObjectsDestruct *)
  dirt : fmap unit;           (* journal.dirties *)
  pend : fmap unit }.         (* stateObjectsPending *)

Definition core0 : core := {| live := []; destr := []; dirt := []; pend := [] |}.

Definition loaded (x : N * Z * N) : sobj :=
  {| so_nonce := fst (fst x); so_balance := snd (fst x); so_code := snd x;
     so_suicided := false; so_deleted := false; so_fresh := false; so_slots := [] |}.

Definition fresh_obj : sobj :=
  {| so_nonce := 0; so_balance := 0; so_code := 0;
     so_suicided := false; so_deleted := false; so_fresh := true; so_slots := [] |}.

Definition so_empty (o : sobj) : bool :=
  N.eqb (so_nonce o) 0 && Z.eqb (so_balance o) 0 && N.eqb (so_code o) 0.

Definition with_balance (o : sobj) (v : Z) : sobj :=
  {| so_nonce := so_nonce o; so_balance := v; so_code := so_code o; so_suicided := so_suicided o;
     so_deleted := so_deleted o; so_fresh := so_fresh o; so_slots := so_slots o |}.
Definition with_nonce (o : sobj) (n : N) : sobj :=
  {| so_nonce := n; so_balance := so_balance o; so_code := so_code o; so_suicided := so_suicided o;
     so_deleted := so_deleted o; so_fresh := so_fresh o; so_slots := so_slots o |}.
Definition with_code (o : sobj) (h : N) : sobj :=
  {| so_nonce := so_nonce o; so_balance := so_balance o; so_code := h; so_suicided := so_suicided o;
     so_deleted := so_deleted o; so_fresh := so_fresh o; so_slots := so_slots o |}.
Definition with_slot (o : sobj) (k v : N) : sobj :=
  {| so_nonce := so_nonce o; so_balance := so_balance o; so_code := so_code o; so_suicided := so_suicided o;
     so_deleted := so_deleted o; so_fresh := so_fresh o; so_slots := fm_set k v (so_slots o) |}.
Definition with_suicided (o : sobj) : sobj :=
  {| so_nonce := so_nonce o; so_balance := 0; so_code := so_code o; so_suicided := true;
     so_deleted := so_deleted o; so_fresh := so_fresh o; so_slots := so_slots o |}.
Definition with_deleted (o : sobj) : sobj :=
  {| so_nonce := so_nonce o; so_balance := so_balance o; so_code := so_code o; so_suicided := so_suicided o;
     so_deleted := true; so_fresh := so_fresh o; so_slots := so_slots o |}.

Section Overlay.
  Variable bk : backend.

  (** getDeletedStateObject *)
  Definition get_deleted (st : core) (a : N) : option sobj :=
    match fm_get a (live st) with
    | Some o => Some o
    | None => option_map loaded (bk_acc bk a)
    end.

  (** getStateObject *)
  Definition get_obj (st : core) (a : N) : option sobj :=
    match get_deleted st a with
    | Some o => if so_deleted o then None else Some o
    | None => None
    end.

  (** write an object and journal the change (the journal entry dirties the address) *)
  Definition put (st : core) (a : N) (o : sobj) : core :=
    {| live := fm_set a o (live st); destr := destr st; dirt := fm_set a tt (dirt st); pend := pend st |}.

  (** createObject: (state, new object, the overwritten object unless it was deleted) *)
  Definition create_object (st : core) (a : N) : core * option sobj :=
    match get_deleted st a with
    | None => (put st a fresh_obj, None)                        (* createObjectChange *)
    | Some p =>                                                 (* resetObjectChange *)
      ({| live := fm_set a fresh_obj (live st); destr := fm_set a tt (destr st);
          dirt := fm_set a tt (dirt st); pend := pend st |},
       if so_deleted p then None else Some p)
    end.

  (** GetOrNewStateObject *)
  Definition get_or_new (st : core) (a : N) : core * sobj :=
    match get_obj st a with
    | Some o => (st, o)
    | None => (fst (create_object st a), fresh_obj)
    end.

  (** CreateAccount: the balance of an overwritten account is carried over (setBalance: no journal entry) *)
  Definition create_account (st : core) (a : N) : core :=
    let '(st1, prev) := create_object st a in
    match prev with
    | Some p => {| live := fm_set a (with_balance fresh_obj (so_balance p)) (live st1);
                   destr := destr st1; dirt := dirt st1; pend := pend st1 |}
    | None => st1
    end.

  Definition add_balance (st : core) (a : N) (v : Z) : core :=
    let '(st1, o) := get_or_new st a in
    if Z.eqb v 0 then (if so_empty o then put st1 a o else st1)          (* touch *)
    else put st1 a (with_balance o (so_balance o + v)).

  Definition sub_balance (st : core) (a : N) (v : Z) : core :=
    let '(st1, o) := get_or_new st a in
    if Z.eqb v 0 then st1 else put st1 a (with_balance o (so_balance o - v)).

  Definition set_nonce (st : core) (a : N) (n : N) : core :=
    let '(st1, o) := get_or_new st a in put st1 a (with_nonce o n).

  Definition set_code (st : core) (a : N) (h : N) : core :=
    let '(st1, o) := get_or_new st a in put st1 a (with_code o h).

  (** GetCommittedState below the pending values *)
  Definition committed (st : core) (a : N) (o : sobj) (k : N) : N :=
    if mem a (destr st) then 0%N
    else if bk_snap bk then bk_slot bk a k                 (* snap.Storage(addrHash, keyHash) *)
    else if so_fresh o then 0%N                            (* storage trie of an empty root *)
    else bk_slot bk a k.

  Definition obj_state (st : core) (a : N) (o : sobj) (k : N) : N :=
    match fm_get k (so_slots o) with Some v => v | None => committed st a o k end.

  Definition set_state (st : core) (a : N) (k v : N) : core :=
    let '(st1, o) := get_or_new st a in
    if N.eqb (obj_state st1 a o k) v then st1 else put st1 a (with_slot o k v).

  Definition suicide (st : core) (a : N) : core :=
    match get_obj st a with
    | None => st
    | Some o => put st a (with_suicided o)
    end.

  (** reads *)
  Definition read_acc (st : core) (a : N) : acct_view :=
    match get_obj st a with Some o => Some (so_nonce o, so_balance o, so_code o) | None => None end.
  Definition read_slot (st : core) (a k : N) : N :=
    match get_obj st a with Some o => obj_state st a o k | None => 0%N end.

  (** Finalise(true) *)
  Definition finalise_one (st : core) (a : N) : core :=
    match fm_get a (live st) with
    | None => st
    | Some o =>
      if so_suicided o || so_empty o
      then {| live := fm_set a (with_deleted o) (live st); destr := fm_set a tt (destr st);
              dirt := dirt st; pend := fm_set a tt (pend st) |}
      else {| live := live st; destr := destr st; dirt := dirt st; pend := fm_set a tt (pend st) |}
    end.

  Definition finalise (st : core) : core :=
    let st1 := fold_left finalise_one (map fst (dirt st)) st in
    {| live := live st1; destr := destr st1; dirt := []; pend := pend st1 |}.

  (** operations of a block, as the KVM and the state transition issue them *)
  Inductive op :=
  | OCreate (a : N)                  (* CreateAccount *)
  | OAdd (a : N) (v : Z)             (* AddBalance *)
  | OSub (a : N) (v : Z)             (* SubBalance *)
  | OTransfer (a b : N) (v : Z)      (* CanTransfer, then Transfer *)
  | ONonce (a : N) (n : N)
  | OCode (a : N) (h : N)
  | OStore (a k v : N)               (* SetState *)
  | OSuicide (a b : N)               (* AddBalance(b, balance of a); Suicide(a) *)
  | OSnap                            (* Snapshot *)
  | ORevert (k : nat)                (* RevertToSnapshot of the k-th youngest valid revision *)
  | OFinalise                        (* end of a transaction *)
  | OReadAcc (a : N)
  | OReadSlot (a k : N).

  Inductive readres := RAcc (x : acct_view) | RSlot (v : N).

  Definition balance_of (st : core) (a : N) : Z :=
    match get_obj st a with Some o => so_balance o | None => 0%Z end.

  (** state of an execution: the overlay, the saved revisions (youngest first), the reads so far *)
  Definition xstate := (core * list core * list readres)%type.

  Definition step (x : xstate) (o : op) : xstate :=
    let '(st, stack, out) := x in
    match o with
    | OCreate a => (create_account st a, stack, out)
    | OAdd a v => (add_balance st a v, stack, out)
    | OSub a v => (sub_balance st a v, stack, out)
    | OTransfer a b v =>
      if Z.leb v (balance_of st a) then (add_balance (sub_balance st a v) b v, stack, out) else x
    | ONonce a n => (set_nonce st a n, stack, out)
    | OCode a h => (set_code st a h, stack, out)
    | OStore a k v => (set_state st a k v, stack, out)
    | OSuicide a b => (suicide (add_balance st b (balance_of st a)) a, stack, out)
    | OSnap => (st, st :: stack, out)
    | ORevert k =>
      match nth_error stack k with
      | Some s => (s, skipn (S k) stack, out)      (* stateObjectsPending only changes in Finalise, which also drops every revision *)
      | None => x
      end
    | OFinalise => (finalise st, [], out)
    | OReadAcc a => (st, stack, out ++ [RAcc (read_acc st a)])
    | OReadSlot a k => (st, stack, out ++ [RSlot (read_slot st a k)])
    end.

  Definition run_block (ops : list op) : core * list readres :=
    let '(st, _, out) := fold_left step ops (core0, [], []) in (finalise st, out).
End Overlay.

(* ------------------------------------------------------------------ *)
(** * Commit: the flush into the tries and the new diff layer *)

Definition slots_list (m : fmap N) : list (N * N) := m.

Definition to_dirty (a : N) (o : sobj) : dirty :=
  {| d_addr := a; d_deleted := so_deleted o; d_reset := so_fresh o; d_nonce := so_nonce o;
     d_balance := so_balance o; d_code := so_code o; d_slots := slots_list (so_slots o) |}.

(** the pending objects, in the (ascending) order of the model's set *)
Definition pending_objs (st : core) : list dirty :=
  flat_map (fun a => match fm_get a (live st) with Some o => [to_dirty a o] | None => [] end)
           (map fst (pend st)).

(** updateStateObject fills snapAccounts, updateTrie fills snapStorage — for the objects that are
    not deleted; the destruct set is handed over as it is.  (snapAccounts / snapStorage are Go
    maps; the model lists their entries by ascending address.) *)
Definition layer_of (st : core) : layer :=
  let ks := map fst (pend st) in
  {| l_destr := destr st;
     l_accts := flat_map (fun a => match fm_get a (live st) with
                                   | Some o => if so_deleted o then [] else [(a, (so_nonce o, so_balance o, so_code o))]
                                   | None => [] end) ks;
     l_stor := flat_map (fun a => match fm_get a (live st) with
                                  | Some o => if so_deleted o then []
                                              else match so_slots o with [] => [] | s => [(a, s)] end
                                  | None => [] end) ks |}.

Definition commit (st : core) (c : content) : content * layer :=
  (commit_updates (pending_objs st) c, layer_of st).

(* ------------------------------------------------------------------ *)
(** * The snapshot tree below the head: flatten and diffToDisk *)

(** delete(m, k) of a Go map *)
Definition fm_rm {V} (k : N) (m : fmap V) : fmap V := filter (fun kv => negb (N.eqb (fst kv) k)) m.

(** writing the entries of one Go map over another (ranging over a map: every key once, in any
    order; the model lets the first binding of its list win, as [fm_get] does) *)
Definition overlay {V} (top base : fmap V) : fmap V :=
  fold_right (fun kv m => fm_set (fst kv) (snd kv) m) base top.

(** diffLayer.flatten: the child [l] is merged into its parent [p] *)
Definition merge_slots (child parent : fmap N) : fmap N := overlay child parent.

Definition flatten (l p : layer) : layer :=
  let dks := map fst (l_destr l) in
  let destr1 := fold_right (fun a m => fm_set a tt m) (l_destr p) dks in
  let accts1 := fold_right (fun a m => fm_rm a m) (l_accts p) dks in
  let stor1 := fold_right (fun a m => fm_rm a m) (l_stor p) dks in
  {| l_destr := destr1;
     l_accts := overlay (l_accts l) accts1;
     l_stor := fold_right (fun asl m =>
                             match fm_get (fst asl) m with
                             | None => fm_set (fst asl) (snd asl) m
                             | Some ps => fm_set (fst asl) (merge_slots (snd asl) ps) m
                             end) stor1 (l_stor l) |}.

(** diffToDisk: destructed accounts lose their entry and every storage entry, then the account
    entries and the storage entries of the layer are written (nil value: delete) *)
Definition disk_slots (slots base : fmap N) : fmap N :=
  fold_right (fun kv m => if N.eqb (snd kv) 0 then fm_rm (fst kv) m else fm_set (fst kv) (snd kv) m) base slots.

Definition diff_to_disk (l : layer) (dk : disk) : disk :=
  let dks := map fst (l_destr l) in
  let accts1 := fold_right (fun a m => fm_rm a m) (dk_accts dk) dks in
  let stor1 := fold_right (fun a m => fm_rm a m) (dk_stor dk) dks in
  {| dk_accts := overlay (l_accts l) accts1;
     dk_stor := fold_right (fun asl m =>
                              fm_set (fst asl)
                                     (disk_slots (snd asl) (match fm_get (fst asl) m with Some b => b | None => [] end)) m)
                           stor1 (l_stor l) |}.

(** Tree.Cap(root, n): the layers below the n youngest are flattened into one, which goes to disk
    (whether it does depends on a memory threshold; no lookup can tell) *)
Fixpoint flatten_all (ls : list layer) : option layer :=
  match ls with
  | [] => None
  | l :: t => match flatten_all t with
              | None => Some l
              | Some p => Some (flatten l p)
              end
  end.

Definition cap (n : nat) (ls : list layer) (dk : disk) : list layer * disk :=
  match flatten_all (skipn n ls) with
  | None => (ls, dk)
  | Some b => (firstn n ls, diff_to_disk b dk)
  end.

(** generateSnapshot: the disk layer of a state *)
Definition disk_of_content (c : content) : disk :=
  {| dk_accts := map (fun ax => (fst ax, fields (snd ax))) c;
     dk_stor := flat_map (fun ax => match a_storage (snd ax) with [] => [] | s => [(fst ax, s)] end) c |}.

(* ------------------------------------------------------------------ *)
(** * Chains of blocks in the two configurations *)

Record node := { n_content : content; n_layers : list layer; n_disk : disk }.

(** a node that keeps snapshots: reads through the layers, flushes into the tries, adds a layer,
    caps the tree *)
Definition apply_block_snap (keep : nat) (n : node) (ops : list op) : node * list readres :=
  let '(st, out) := run_block (bk_layers (n_layers n) (n_disk n)) ops in
  let '(c', l) := commit st (n_content n) in
  let '(ls, dk) := cap keep (l :: n_layers n) (n_disk n) in
  ({| n_content := c'; n_layers := ls; n_disk := dk |}, out).

(** a node without: reads the tries *)
Definition apply_block_trie (c : content) (ops : list op) : content * list readres :=
  let '(st, out) := run_block (bk_content c) ops in
  (fst (commit st c), out).

Fixpoint chain_snap (keep : nat) (n : node) (blocks : list (list op)) : list (content * list readres) :=
  match blocks with
  | [] => []
  | b :: t => let '(n', out) := apply_block_snap keep n b in (n_content n', out) :: chain_snap keep n' t
  end.

Fixpoint chain_trie (c : content) (blocks : list (list op)) : list (content * list readres) :=
  match blocks with
  | [] => []
  | b :: t => let '(c', out) := apply_block_trie c b in (c', out) :: chain_trie c' t
  end.

Definition genesis_node (c : content) : node :=
  {| n_content := c; n_layers := []; n_disk := disk_of_content c |}.
