(** C06 — statements that are NOT proved (kept as [Definition]s of type [Prop]; nothing here is
    used by Properties.v).

    1. (proved in this round: C06_permute_is_permutation, C06_flush_runs_agree_idx.)
    2. [open_own_block_valid_full]: C06_own_block_valid_partial with the delegated checks opened
       up: VerifyCommit of the commit the proposer includes (C02), MedianTime being later than the
       previous block time for commits of honest voters, Block.ValidateBasic of what NewBlock
       builds (C13).  Needs the C02/C13 models of commits and blocks; stated informally only.
    3. The equivalence of the remaining runtime artefacts (clean/dirty trie caches, GC mode,
       prefetcher, preimages; of the snapshot tree: bloom filters, staleness, iterators, the
       generator, the journal file) with the bare content has no statement in this model: it is
       the PARTIAL part, sampled by the harness.  The DATA of the snapshot tree (diff layers,
       destruct sets, flatten, diffToDisk, Cap, generated disk layer) and the StateDB overlay
       that feeds it are modelled (ModelSnap.v) and proved equivalent to the tries
       (C06_snapshot_config_free and the theorems after it in Properties.v). *)
From Coq Require Import List Arith Permutation.
From Kardia Require Import C06.Model.
Import ListNotations.
