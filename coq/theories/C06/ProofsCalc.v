(** C06 (b) — calculateValidatorSetUpdates (as repaired by 530b44a): its output is the same
    change set (up to order) whatever the order of the report, hence the validator set consensus
    ends up with is the same; a report that repeats an address is always rejected. *)
From Coq Require Import List ZArith NArith Bool Lia Permutation.
From Kardia Require Import Base.Int64 C06.ModelValset C06.ProofsMap C06.ProofsValset.
Import ListNotations.
Local Open Scope Z_scope.

Lemma amap_get_del_other a b m : a <> b -> amap_get a (amap_del b m) = amap_get a m.
Proof.
  intros D. induction m as [|[k p] t IH]; cbn [amap_del amap_get]; [reflexivity|].
  destruct (N.eqb_spec b k) as [E|E].
  - rewrite IH. destruct (N.eqb_spec a k); [congruence|reflexivity].
  - cbn [amap_get]. rewrite IH. reflexivity.
Qed.

Lemma amap_del_comm a b m : amap_del a (amap_del b m) = amap_del b (amap_del a m).
Proof.
  induction m as [|[k p] t IH]; cbn [amap_del]; [reflexivity|].
  destruct (N.eqb_spec b k) as [E|E], (N.eqb_spec a k) as [E'|E']; cbn [amap_del].
  - exact IH.
  - destruct (N.eqb_spec b k); [exact IH|congruence].
  - destruct (N.eqb_spec a k); [exact IH|congruence].
  - destruct (N.eqb_spec a k); [congruence|]. destruct (N.eqb_spec b k); [congruence|]. f_equal. exact IH.
Qed.

Definition del_all (vals : list validator) (m : amap) : amap :=
  fold_left (fun m v => amap_del (v_addr v) m) vals m.

Lemma is_update_del_other m a v : v_addr v <> a -> is_update (amap_del a m) v = is_update m v.
Proof. intros D. unfold is_update. rewrite amap_get_del_other by exact D. reflexivity. Qed.

Lemma calc_scan_nodup vals : forall m, NoDup (map v_addr vals) ->
  calc_scan m vals = (filter (is_update m) vals, del_all vals m).
Proof.
  induction vals as [|v t IH]; intros m ND; cbn [calc_scan filter del_all fold_left map]; [reflexivity|].
  cbn [map] in ND. inversion ND as [|? ? NI ND']; subst.
  rewrite (IH (amap_del (v_addr v) m) ND'). fold (del_all t (amap_del (v_addr v) m)).
  assert (filter (is_update (amap_del (v_addr v) m)) t = filter (is_update m) t) as ->.
  { apply filter_ext_in. intros x Hx. apply is_update_del_other.
    intros E. apply NI. rewrite <- E. apply in_map, Hx. }
  destruct (is_update m v); reflexivity.
Qed.

Lemma filter_perm {A} (f : A -> bool) l l' : Permutation l l' -> Permutation (filter f l) (filter f l').
Proof.
  induction 1 as [|x l l' P IH|x y l|l l' l'' P1 IH1 P2 IH2]; cbn [filter].
  - constructor.
  - destruct (f x); [constructor|]; exact IH.
  - destruct (f x), (f y); try reflexivity. apply perm_swap.
  - etransitivity; eassumption.
Qed.

Lemma del_all_perm vals vals' m : Permutation vals vals' -> del_all vals m = del_all vals' m.
Proof.
  intros P. unfold del_all.
  apply (fold_left_perm_all (fun m v => amap_del (v_addr v) m) (fun _ => True)); auto.
  intros a x y _. apply amap_del_comm.
Qed.

Lemma has_dup_false seen vals : has_dup_addr seen vals = false ->
  NoDup (map v_addr vals) /\ (forall a, In a seen -> ~ In a (map v_addr vals)).
Proof.
  revert seen. induction vals as [|v t IH]; intros seen H; cbn [has_dup_addr map] in *.
  - split; [constructor|intros a _ []].
  - destruct (existsb (N.eqb (v_addr v)) seen) eqn:E; [discriminate|].
    destruct (IH _ H) as [ND DJ]. split.
    + constructor; [|exact ND]. apply (DJ (v_addr v)). now left.
    + intros a Ha [Hv|Ht].
      * subst a. assert (existsb (N.eqb (v_addr v)) seen = true) as X; [|congruence].
        apply existsb_exists. exists (v_addr v). split; [exact Ha|apply N.eqb_refl].
      * apply (DJ a); [now right|exact Ht].
Qed.

Lemma has_dup_true seen vals : has_dup_addr seen vals = true ->
  ~ (NoDup (map v_addr vals) /\ (forall a, In a seen -> ~ In a (map v_addr vals))).
Proof.
  revert seen. induction vals as [|v t IH]; intros seen H [ND DJ]; cbn [has_dup_addr map] in *; [discriminate|].
  destruct (existsb (N.eqb (v_addr v)) seen) eqn:E.
  - apply existsb_exists in E. destruct E as (a & Ha & Ea). apply N.eqb_eq in Ea. subst a.
    apply (DJ (v_addr v) Ha). now left.
  - inversion ND as [|? ? NI ND']; subst. apply (IH _ H). split; [exact ND'|].
    intros a [Ha|Ha] I; [subst a; exact (NI I)|]. apply (DJ a Ha). now right.
Qed.

Lemma has_dup_nodup vals : has_dup_addr [] vals = false <-> NoDup (map v_addr vals).
Proof.
  split.
  - intros H. apply (has_dup_false [] vals H).
  - intros ND. destruct (has_dup_addr [] vals) eqn:E; [|reflexivity].
    exfalso. apply (has_dup_true [] vals E). split; [exact ND|intros a []].
Qed.

Lemma has_dup_perm vals vals' : Permutation vals vals' -> has_dup_addr [] vals = has_dup_addr [] vals'.
Proof.
  intros P.
  destruct (has_dup_addr [] vals) eqn:E, (has_dup_addr [] vals') eqn:E'; try reflexivity; exfalso.
  - apply has_dup_nodup in E'. assert (has_dup_addr [] vals = false) as X; [|congruence].
    apply has_dup_nodup. eapply Permutation_NoDup; [apply Permutation_map, Permutation_sym, P|exact E'].
  - apply has_dup_nodup in E. assert (has_dup_addr [] vals' = false) as X; [|congruence].
    apply has_dup_nodup. eapply Permutation_NoDup; [apply Permutation_map, P|exact E].
Qed.

Lemma calculate_updates_perm last vals vals' :
  Permutation vals vals' ->
  Permutation (calculate_updates last vals) (calculate_updates last vals').
Proof.
  intros P. unfold calculate_updates.
  destruct vals as [|v t].
  { apply Permutation_nil in P. subst. constructor. }
  destruct vals' as [|v' t'].
  { apply Permutation_sym, Permutation_nil in P. discriminate. }
  rewrite <- (has_dup_perm _ _ P).
  destruct (has_dup_addr [] (v :: t)) eqn:E; [exact P|].
  pose proof (proj1 (has_dup_nodup _) E) as ND.
  assert (NoDup (map v_addr (v' :: t'))) as ND' by (eapply Permutation_NoDup; [apply Permutation_map, P|exact ND]).
  rewrite (calc_scan_nodup (v :: t) _ ND), (calc_scan_nodup (v' :: t') _ ND').
  rewrite (del_all_perm _ _ _ P).
  apply Permutation_app_tail, filter_perm, P.
Qed.

(** what ApplyBlock hands to consensus does not depend on the order of the report *)
Lemma apply_reported_order_free s vals vals' :
  Permutation vals vals' -> apply_reported s vals = apply_reported s vals'.
Proof.
  intros P. unfold apply_reported. apply update_order_free, calculate_updates_perm; assumption.
Qed.

(** a report that repeats an address is always rejected *)
Lemma update_dup_rejected s cs : ~ NoDup (map v_addr cs) -> update s cs = UpdErr.
Proof.
  intros H. destruct cs as [|c t]; [exfalso; apply H; constructor|].
  unfold update, update_with_change_set.
  destruct (process_changes (c :: t)) as [e|ups rems] eqn:E.
  - destruct e; try reflexivity. exfalso. unfold process_changes in E. now apply scan_err_not_ok in E.
  - exfalso. apply H. destruct (process_ok_valid _ _ _ E) as ([N _] & _). exact N.
Qed.

Lemma apply_reported_dup_rejected s vals : ~ NoDup (map v_addr vals) -> apply_reported s vals = UpdErr.
Proof.
  intros H. unfold apply_reported, calculate_updates.
  destruct vals as [|v t]; [exfalso; apply H; constructor|].
  destruct (has_dup_addr [] (v :: t)) eqn:E.
  - apply update_dup_rejected, H.
  - exfalso. apply H, has_dup_nodup, E.
Qed.

(** ... and not on the order in which Go's map iteration emits the removals either: any
    permutation of the computed change set gives the same result *)
Lemma apply_changes_order_free s vals cs :
  Permutation (calculate_updates (vs_vals s) vals) cs -> update s cs = apply_reported s vals.
Proof. intros P. unfold apply_reported. symmetry. apply update_order_free, P. Qed.

(* ------------------------------------------------------------------ *)
(** * examples *)

Definition ex_set : vset :=
  {| vs_vals := [ {| v_addr := 10; v_power := 10; v_prio := 0 |}; {| v_addr := 20; v_power := 5; v_prio := 0 |} ];
     vs_proposer := None; vs_total := 15 |}.
Definition rep (a : N) (p : Z) : validator := {| v_addr := a; v_power := p; v_prio := 0 |}.

(** before fix 530b44a, [10:10, 10:7, 20:5] was accepted (as 10:7) and [10:7, 10:10, 20:5]
    rejected; now both orders are rejected *)
Example dup_report_rejected :
  apply_reported ex_set [rep 10 10; rep 10 7; rep 20 5] = UpdErr /\
  apply_reported ex_set [rep 10 7; rep 10 10; rep 20 5] = UpdErr.
Proof. split; vm_compute; reflexivity. Qed.

(** the hypotheses of the positive statement are satisfiable, on a report that changes a power,
    adds a validator and drops one *)
Example ex_reorder :
  NoDup (map v_addr [rep 30 4; rep 10 12]) /\
  apply_reported ex_set [rep 30 4; rep 10 12] = apply_reported ex_set [rep 10 12; rep 30 4] /\
  (exists s', apply_reported ex_set [rep 30 4; rep 10 12] = UpdOk s' /\ map v_addr (vs_vals s') = [10%N; 30%N]).
Proof.
  split; [repeat constructor; cbn; intuition lia|]. split.
  - apply apply_reported_order_free. apply perm_swap.
  - eexists. split; [vm_compute; reflexivity|reflexivity].
Qed.
