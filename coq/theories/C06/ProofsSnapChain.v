(** C06 — chains of blocks: a node that keeps snapshots (reads through the layers, adds a layer
    per block, caps the tree) and a node that reads its tries compute the same states and the same
    reads, block after block. *)
From Coq Require Import List ZArith NArith Bool Lia.
From Kardia Require Import C06.Model C06.ModelSnap C06.ProofsMap C06.ProofsFlush C06.ProofsSnapInv C06.ProofsSnapView.
Import ListNotations.

Definition node_ok (n : node) : Prop :=
  wf_content (n_content n) /\ Forall wf_layer (n_layers n) /\
  view_ok (n_layers n) (n_disk n) (n_content n).

Lemma apply_block_agree keep n ops : node_ok n ->
  node_ok (fst (apply_block_snap keep n ops)) /\
  n_content (fst (apply_block_snap keep n ops)) = fst (apply_block_trie (n_content n) ops) /\
  snd (apply_block_snap keep n ops) = snd (apply_block_trie (n_content n) ops).
Proof.
  intros (WF & FL & V). unfold apply_block_snap, apply_block_trie.
  pose proof (run_block_inv (bk_layers (n_layers n) (n_disk n)) ops) as [I D].
  assert (WB : bk_wf (bk_layers (n_layers n) (n_disk n))) by (apply (bk_same_wf _ _ V), bk_content_wf).
  rewrite <- (same_run_block _ _ V WB ops).
  destruct (run_block (bk_layers (n_layers n) (n_disk n)) ops) as [st out]. cbn [fst snd] in *.
  unfold commit.
  assert (FL' : Forall wf_layer (layer_of st :: n_layers n)).
  { constructor; [apply sorted_layer_stor, (inv_sorted _ _ I)|exact FL]. }
  pose proof (look_cap keep _ (n_disk n) FL') as [FC SC].
  destruct (cap keep (layer_of st :: n_layers n) (n_disk n)) as [ls dk]. cbn [fst snd] in *.
  split; [|split; reflexivity].
  split; [apply wf_commit_updates, WF|]. split; [exact FC|].
  apply (bk_same_trans _ _ _ SC). apply view_commit; assumption.
Qed.

Theorem chain_agree keep blocks : forall n, node_ok n ->
  chain_snap keep n blocks = chain_trie (n_content n) blocks.
Proof.
  induction blocks as [|b t IH]; intros n OK; cbn [chain_snap chain_trie]; [reflexivity|].
  destruct (apply_block_agree keep n b OK) as (OK' & EC & EO).
  destruct (apply_block_snap keep n b) as [n' out]. destruct (apply_block_trie (n_content n) b) as [c' out'].
  cbn [fst snd] in *. subst. f_equal. apply IH, OK'.
Qed.

Lemma genesis_ok c : wf_content c -> node_ok (genesis_node c).
Proof.
  intros WF. split; [exact WF|]. split; [constructor|]. apply view_genesis, WF.
Qed.

Theorem chain_config_free keep c blocks : wf_content c ->
  chain_snap keep (genesis_node c) blocks = chain_trie c blocks.
Proof. intros WF. apply (chain_agree keep blocks (genesis_node c)), genesis_ok, WF. Qed.

(** the node that keeps snapshots stays consistent: after any chain its layers describe its tries *)
Fixpoint final_snap (keep : nat) (n : node) (blocks : list (list op)) : node :=
  match blocks with
  | [] => n
  | b :: t => final_snap keep (fst (apply_block_snap keep n b)) t
  end.

Theorem chain_view keep blocks : forall n, node_ok n ->
  view_ok (n_layers (final_snap keep n blocks)) (n_disk (final_snap keep n blocks)) (n_content (final_snap keep n blocks)).
Proof.
  induction blocks as [|b t IH]; intros n OK; cbn [final_snap]; [apply OK|].
  apply IH, (apply_block_agree keep n b OK).
Qed.

(** what the diff layer needs from the journal: at the end of a block every address in
    stateObjectsDestruct is among the pending objects (so a destructed mark never stands for an
    account the flush leaves alone) *)
Theorem destruct_tracked bk ops a :
  mem a (destr (fst (run_block bk ops))) = true ->
  mem a (pend (fst (run_block bk ops))) = true /\ fm_get a (live (fst (run_block bk ops))) <> None.
Proof.
  intros M. destruct (run_block_inv bk ops) as [I D].
  destruct (inv_track _ _ I a M) as [H|H]; [rewrite D in H; discriminate|].
  split; [exact H|apply (inv_pend _ _ I a H)].
Qed.

(** the hypotheses are satisfiable, and the scenario of the first seeded change: block 1 funds the
    address a later creation will use, block 2 runs that creation and rolls it back, block 3 pays
    the address again; a transfer of 5 then of 3 *)
Definition ex_blocks : list (list op) :=
  [ [OAdd 1 100; OTransfer 1 9 5; OFinalise];
    [ONonce 1 1; OSnap; OCreate 9; ONonce 9 1; OTransfer 1 9 7; OStore 9 0 4; ORevert 0; OFinalise; OReadAcc 9];
    [OTransfer 1 9 3; OFinalise; OReadAcc 9; OReadSlot 9 0] ].

Example ex_chain :
  map snd (chain_snap 1 (genesis_node []) ex_blocks) =
  [ []; [RAcc (Some (0%N, 5%Z, 0%N))]; [RAcc (Some (0%N, 8%Z, 0%N)); RSlot 0] ] /\
  chain_snap 1 (genesis_node []) ex_blocks = chain_trie [] ex_blocks.
Proof. split; vm_compute; reflexivity. Qed.

(** without the restore of the destruct set on revert (the seeded change) the layer of block 2
    would say "destructed" for an account the flush leaves alone: the view breaks *)
Definition ex_stale_layer : layer :=
  {| l_destr := [(9%N, tt)]; l_accts := [(1%N, (1%N, 95%Z, 0%N))]; l_stor := [] |}.

Example ex_stale_view_breaks :
  let n1 := fst (apply_block_snap 128 (genesis_node []) (nth 0 ex_blocks [])) in
  look_acc (ex_stale_layer :: n_layers n1) (n_disk n1) 9 = None /\
  option_map fields (fm_get 9%N (n_content n1)) = Some (0%N, 5%Z, 0%N).
Proof. split; vm_compute; reflexivity. Qed.
