(** C06 — deterministic block execution: executable model of the order-sensitive looking parts.

    (a) the flush of the dirty state objects (kai/state/statedb.go IntermediateRoot / Commit,
        state_object.go updateTrie) as a function of CONTENT: the world state is a canonical
        finite map (association list sorted by strictly ascending key) from address to account,
        an account carries its storage as a canonical finite map from (hashed) slot key to a
        non-zero word; the tries, the node database, the caches, the snapshot layers and the
        prefetcher are represented by nothing at all — the root is an abstract function of the
        content ([root], a Section variable of the theorems);
    (c) receipts, cumulative gas and bloom as a function of the per-transaction results
        (mainchain/blockchain/block_operations.go commitBlock, state_processor.go
        ApplyTransaction, types/bloom9.go);
    (d) cstate/validation.go validateBlock and block_operations.go CreateProposalBlock on the
        header fields.
    The validator-set part (b) is in ModelValset.v.  No proofs in this file. *)
From Coq Require Import List ZArith NArith Bool.
From Kardia Require Import Base.Int64.
Import ListNotations.

(* ------------------------------------------------------------------ *)
(** * Canonical finite maps *)

Section FMap.
  Context {V : Type}.
  Definition fmap := list (N * V).

  Fixpoint fm_get (k : N) (m : fmap) : option V :=
    match m with
    | [] => None
    | (k', v) :: t => if N.eqb k k' then Some v else fm_get k t
    end.

  (** insert or replace, keeping the keys ascending *)
  Fixpoint fm_set (k : N) (v : V) (m : fmap) : fmap :=
    match m with
    | [] => [(k, v)]
    | (k', v') :: t =>
      if N.ltb k k' then (k, v) :: m
      else if N.eqb k k' then (k, v) :: t
      else (k', v') :: fm_set k v t
    end.

  Fixpoint fm_del (k : N) (m : fmap) : fmap :=
    match m with
    | [] => []
    | (k', v') :: t => if N.eqb k k' then t else (k', v') :: fm_del k t
    end.
End FMap.
Arguments fmap V : clear implicits.

(* ------------------------------------------------------------------ *)
(** * (a) the flush of the dirty objects *)

Record account := {
  a_nonce : N;
  a_balance : Z;
  a_code : N;                 (* code hash as a number, 0 = no code *)
  a_storage : fmap N }.       (* hashed slot key -> non-zero value *)

Definition content := fmap account.

(** one entry of stateObjectsPending as IntermediateRoot sees it *)
Record dirty := {
  d_addr : N;
  d_deleted : bool;           (* obj.deleted: deleteStateObject *)
  d_reset : bool;             (* the object was (re)created in this block: its storage trie starts empty *)
  d_nonce : N;
  d_balance : Z;
  d_code : N;
  d_slots : list (N * N) }.   (* pendingStorage in map-iteration order: (hashed key, value), 0 = delete *)

(** updateTrie, one slot: DeleteStorage for the zero word, UpdateStorage otherwise.  (The Go
    code skips a slot whose value equals the cached original; writing it again changes nothing.) *)
Definition set_slot (m : fmap N) (kv : N * N) : fmap N :=
  if N.eqb (snd kv) 0 then fm_del (fst kv) m else fm_set (fst kv) (snd kv) m.

Definition apply_slots (slots : list (N * N)) (base : fmap N) : fmap N :=
  fold_left set_slot slots base.

Definition storage_of (c : content) (a : N) : fmap N :=
  match fm_get a c with Some acc => a_storage acc | None => [] end.

(** updateRoot + updateStateObject, or deleteStateObject *)
Definition commit_one (c : content) (d : dirty) : content :=
  if d_deleted d then fm_del (d_addr d) c
  else
    let base := if d_reset d then [] else storage_of c (d_addr d) in
    fm_set (d_addr d)
           {| a_nonce := d_nonce d; a_balance := d_balance d; a_code := d_code d;
              a_storage := apply_slots (d_slots d) base |} c.

(** the loops over stateObjectsPending, in whatever order the map is enumerated *)
Definition commit_updates (ds : list dirty) (c : content) : content :=
  fold_left commit_one ds c.

(** reordering the input: [permute idx l] lists the elements of [l] at the given positions *)
Definition permute {A} (idx : list nat) (l : list A) : list A :=
  flat_map (fun i => match nth_error l i with Some x => [x] | None => [] end) idx.

Definition rev_slots (d : dirty) : dirty :=
  {| d_addr := d_addr d; d_deleted := d_deleted d; d_reset := d_reset d; d_nonce := d_nonce d;
     d_balance := d_balance d; d_code := d_code d; d_slots := rev (d_slots d) |}.

(** what the driver runs: the flush in the reported order, and in a permuted order with every
    object's slots reversed *)
Definition flush_both (idx : list nat) (ds : list dirty) (c : content) : content * content :=
  (commit_updates ds c, commit_updates (map rev_slots (permute idx ds)) c).

(* ------------------------------------------------------------------ *)
(** * (c) receipts, gas, bloom *)

Record log := { l_addr : N; l_topics : list N }.

(** outcome of one transaction of the block: rejected by ApplyTransaction (reverted to the
    snapshot, no receipt), or applied with a status, the gas it used and its logs *)
Inductive txres := Skipped | Applied (status : N) (gas : Z) (logs : list log).

Record receipt := {
  r_status : N;
  r_gas : Z;
  r_cum : Z;                  (* CumulativeGasUsed *)
  r_logs : list log;
  r_bloom : fmap unit }.      (* the set of bit positions that are 1 *)

Section Bloom.
  (** bloomValues: the (three) bit positions an address / a topic sets; Keccak stays abstract *)
  Variables bits_addr bits_topic : N -> list N.

  Definition bloom_add (b : fmap unit) (p : N) : fmap unit := fm_set p tt b.
  Definition log_bits (l : log) : list N := bits_addr (l_addr l) ++ flat_map bits_topic (l_topics l).
  (** CreateBloom / LogsBloom: fold over the logs in order *)
  Definition bloom_of_logs (logs : list log) : fmap unit :=
    fold_left bloom_add (flat_map log_bits logs) [].

  (** the LOOP of commitBlock: usedGas accumulates over the applied transactions (uint64) *)
  Fixpoint receipts_from (cum : Z) (rs : list txres) : list receipt :=
    match rs with
    | [] => []
    | Skipped :: t => receipts_from cum t
    | Applied st g logs :: t =>
      let cum' := wrapu64 (cum + g) in
      {| r_status := st; r_gas := g; r_cum := cum'; r_logs := logs; r_bloom := bloom_of_logs logs |}
        :: receipts_from cum' t
    end.

  Definition gas_used (rcs : list receipt) : Z := last (map r_cum rcs) 0%Z.

  (** BlockInfo: receipts, GasUsed, Bloom = CreateBloom(receipts) *)
  Definition exec_summary (rs : list txres) : list receipt * Z * fmap unit :=
    let rcs := receipts_from 0 rs in
    (rcs, gas_used rcs, bloom_of_logs (flat_map r_logs rcs)).
End Bloom.

(* ------------------------------------------------------------------ *)
(** * (d) validateBlock / CreateProposalBlock on the header fields

    Hashes and block ids are numbers (the harness maps them injectively).  What validateBlock
    delegates — Block.ValidateBasic, LastValidators.VerifyCommit, MedianTime, the evidence pool —
    enters as data computed by the caller. *)

Record cstate := {
  s_last_height : N;
  s_initial_height : N;
  s_last_block_id : N;
  s_app_hash : N;
  s_vals_hash : N;
  s_next_vals_hash : N;
  s_last_time : Z }.          (* LastBlockTime, nanoseconds *)

Record blockv := {
  b_height : N;
  b_last_block_id : N;
  b_app_hash : N;
  b_vals_hash : N;
  b_next_vals_hash : N;
  b_time : Z;
  b_basic_ok : bool;          (* Block.ValidateBasic *)
  b_commit_nil : bool;        (* LastCommit == nil *)
  b_commit_sigs : N;          (* len(LastCommit.Signatures) *)
  b_commit_ok : bool;         (* LastValidators.VerifyCommit(chain, LastBlockID, height-1, LastCommit) == nil *)
  b_median : Z;               (* MedianTime(LastCommit, LastValidators) *)
  b_evidence : Z;             (* number of evidence items *)
  b_max_evidence : Z;         (* MaxEvidencePerBlock(ConsensusParams.Block.MaxBytes) *)
  b_proposer_in : bool }.     (* state.Validators.HasAddress(ProposerAddress) *)

Inductive verdict :=
| VOk | VBasic | VHeight | VLastID | VAppHash | VValHash | VNextValHash | VNilCommit | VCommitSig
| VCommit | VTimeNotAfter | VTimeMedian | VTimeGenesis | VHeightLow | VEvidence | VProposer.

Definition validate_block (st : cstate) (b : blockv) : verdict :=
  if negb (b_basic_ok b) then VBasic
  else if negb (N.eqb (b_height b) (s_last_height st + 1)) then VHeight
  else if N.eqb (s_last_height st) 0 && negb (N.eqb (b_height b) (s_initial_height st)) then VHeight
  else if N.ltb 0 (s_last_height st) && negb (N.eqb (b_height b) (s_last_height st + 1)) then VHeight
  else if negb (N.eqb (b_last_block_id b) (s_last_block_id st)) then VLastID
  else if negb (N.eqb (b_app_hash b) (s_app_hash st)) then VAppHash
  else if negb (N.eqb (b_vals_hash b) (s_vals_hash st)) then VValHash
  else if negb (N.eqb (b_next_vals_hash b) (s_next_vals_hash st)) then VNextValHash
  else if b_commit_nil b then VNilCommit
  else if N.eqb (b_height b) (s_initial_height st) && negb (N.eqb (b_commit_sigs b) 0) then VCommitSig
  else if negb (N.eqb (b_height b) (s_initial_height st)) && negb (b_commit_ok b) then VCommit
  else if N.ltb (s_initial_height st) (b_height b) then
    if negb (Z.ltb (s_last_time st) (b_time b)) then VTimeNotAfter
    else if negb (Z.eqb (b_time b) (b_median b)) then VTimeMedian
    else if Z.ltb (b_max_evidence b) (b_evidence b) then VEvidence
    else if negb (b_proposer_in b) then VProposer
    else VOk
  else if N.eqb (b_height b) (s_initial_height st) then
    if negb (Z.eqb (b_time b) (s_last_time st)) then VTimeGenesis
    else if Z.ltb (b_max_evidence b) (b_evidence b) then VEvidence
    else if negb (b_proposer_in b) then VProposer
    else VOk
  else VHeightLow.

(** CreateProposalBlock: header fields taken from the proposer's own LatestBlockState; the time is
    the genesis time for height 1 (the code compares with the literal 1, not InitialHeight) and
    the median time of the commit otherwise.  The caller supplies what the block carries:
    [commit_sigs], [commit_ok], [median] describe the commit the proposer includes, [nev] the
    evidence it picked, [max_ev] the validators' cap. *)
Definition create_proposal_block (st : cstate) (commit_sigs : N) (commit_ok : bool) (median : Z)
           (nev max_ev : Z) (proposer_in : bool) : blockv :=
  let h := (s_last_height st + 1)%N in
  {| b_height := h;
     b_last_block_id := s_last_block_id st;
     b_app_hash := s_app_hash st;
     b_vals_hash := s_vals_hash st;
     b_next_vals_hash := s_next_vals_hash st;
     b_time := if N.eqb h 1 then s_last_time st else median;
     b_basic_ok := true;               (* NewBlock fills TxHash / LastCommitHash / EvidenceHash consistently *)
     b_commit_nil := false;
     b_commit_sigs := commit_sigs;
     b_commit_ok := commit_ok;
     b_median := median;
     b_evidence := nev;
     b_max_evidence := max_ev;
     b_proposer_in := proposer_in |}.
