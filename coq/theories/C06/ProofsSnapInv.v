(** C06 — the overlay of a block (ModelSnap.v): its invariant, and why the snapshot flag of the
    backend cannot be observed. *)
From Coq Require Import List ZArith NArith Bool Lia.
From Kardia Require Import C06.Model C06.ModelSnap C06.ProofsMap.
Import ListNotations.

(* ------------------------------------------------------------------ *)
(** * sets *)

Lemma mem_set a b s : mem a (fm_set b tt s) = N.eqb a b || mem a s.
Proof. unfold mem. rewrite get_set. destruct (N.eqb a b); reflexivity. Qed.

Lemma mem_nil a : mem a [] = false.
Proof. reflexivity. Qed.

Lemma mem_in a (s : fmap unit) : mem a s = true <-> In a (map fst s).
Proof.
  unfold mem. split.
  - destruct (fm_get a s) eqn:E; [|discriminate]. intros _. apply (get_in _ _ _ E).
  - intros I. destruct (fm_get a s) eqn:E; [reflexivity|].
    exfalso. revert I E. induction s as [|[k v] t IH]; cbn [map fst fm_get In]; [tauto|].
    intros [->|I]; [rewrite N.eqb_refl; discriminate|].
    destruct (N.eqb a k); [discriminate|]. apply IH, I.
Qed.

(* ------------------------------------------------------------------ *)
(** * the invariant of the overlay *)

Definition bk_wf (bk : backend) : Prop := forall a k, bk_acc bk a = None -> bk_slot bk a k = 0%N.

(** what an object at address [a] must satisfy with respect to the destruct set *)
Definition ok_obj (bk : backend) (ds : fmap unit) (a : N) (o : sobj) : Prop :=
  (mem a ds = true -> so_fresh o = true \/ so_deleted o = true) /\
  (so_fresh o = true -> mem a ds = false -> bk_acc bk a = None) /\
  (so_deleted o = true -> mem a ds = true) /\
  sorted (so_slots o).

Record inv (bk : backend) (st : core) : Prop := {
  inv_obj : forall a o, fm_get a (live st) = Some o -> ok_obj bk (destr st) a o;
  inv_destr : forall a, mem a (destr st) = true -> fm_get a (live st) <> None;
  inv_track : forall a, mem a (destr st) = true -> mem a (dirt st) = true \/ mem a (pend st) = true;
  inv_dirt : forall a, mem a (dirt st) = true -> fm_get a (live st) <> None;
  inv_pend : forall a, mem a (pend st) = true -> fm_get a (live st) <> None;
  inv_sorted : sorted (pend st) }.

Lemma inv_core0 bk : inv bk core0.
Proof.
  split; cbn; try discriminate; try (intros; discriminate); exact I.
Qed.

Section Inv.
  Variable bk : backend.

  Lemma ok_loaded ds a x : mem a ds = false -> ok_obj bk ds a (loaded x).
  Proof.
    intros M. unfold ok_obj, loaded; cbn. rewrite M. repeat split; try discriminate.
  Qed.

  Lemma get_deleted_ok st a o : inv bk st -> get_deleted bk st a = Some o ->
    ok_obj bk (destr st) a o /\ (fm_get a (live st) = Some o \/ (fm_get a (live st) = None /\ so_fresh o = false /\ so_deleted o = false)).
  Proof.
    intros I. unfold get_deleted. destruct (fm_get a (live st)) as [o'|] eqn:E.
    - intros [= <-]. split; [apply (inv_obj _ _ I _ _ E)|left; reflexivity].
    - destruct (bk_acc bk a) as [x|]; [|discriminate]. cbn. intros [= <-]. split.
      + apply ok_loaded. destruct (mem a (destr st)) eqn:M; [|reflexivity].
        exfalso. apply (inv_destr _ _ I _ M), E.
      + right. repeat split; reflexivity.
  Qed.

  Lemma get_obj_ok st a o : inv bk st -> get_obj bk st a = Some o ->
    ok_obj bk (destr st) a o /\ so_deleted o = false.
  Proof.
    intros I. unfold get_obj. destruct (get_deleted bk st a) as [o'|] eqn:E; [|discriminate].
    destruct (so_deleted o') eqn:D; [discriminate|]. intros [= <-].
    split; [apply (get_deleted_ok _ _ _ I E)|exact D].
  Qed.

  (** flags and slots of the modified copies *)
  Definition same_flags (o o' : sobj) : Prop :=
    so_fresh o' = so_fresh o /\ so_deleted o' = so_deleted o /\ (sorted (so_slots o) -> sorted (so_slots o')).

  Lemma ok_same_flags ds a o o' : same_flags o o' -> ok_obj bk ds a o -> ok_obj bk ds a o'.
  Proof.
    intros (F & D & S) (A & B & C & E). unfold ok_obj. rewrite F, D. repeat split; auto.
  Qed.

  Lemma sf_balance o v : same_flags o (with_balance o v).
  Proof. repeat split; auto. Qed.
  Lemma sf_nonce o v : same_flags o (with_nonce o v).
  Proof. repeat split; auto. Qed.
  Lemma sf_code o v : same_flags o (with_code o v).
  Proof. repeat split; auto. Qed.
  Lemma sf_suicided o : same_flags o (with_suicided o).
  Proof. repeat split; auto. Qed.
  Lemma sf_slot o k v : same_flags o (with_slot o k v).
  Proof. repeat split; auto. cbn. apply sorted_set. Qed.
  Lemma sf_refl o : same_flags o o.
  Proof. repeat split; auto. Qed.

  Lemma put_inv st a o : inv bk st -> ok_obj bk (destr st) a o -> inv bk (put st a o).
  Proof.
    intros I K. split; cbn [put live destr dirt pend].
    - intros b ob. rewrite get_set. destruct (N.eqb_spec b a) as [->|D].
      + intros [= <-]. exact K.
      + apply (inv_obj _ _ I).
    - intros b M. rewrite get_set. destruct (N.eqb_spec b a); [discriminate|]. apply (inv_destr _ _ I _ M).
    - intros b M. rewrite mem_set. destruct (inv_track _ _ I _ M) as [H|H]; rewrite H; [left; apply orb_true_r|right; reflexivity].
    - intros b. rewrite mem_set, get_set. destruct (N.eqb_spec b a); [discriminate|]. cbn. apply (inv_dirt _ _ I).
    - intros b M. rewrite get_set. destruct (N.eqb_spec b a); [discriminate|]. apply (inv_pend _ _ I _ M).
    - apply (inv_sorted _ _ I).
  Qed.

  Lemma ok_fresh_marked ds a : mem a ds = true -> ok_obj bk ds a fresh_obj.
  Proof.
    intros M. unfold ok_obj, fresh_obj; cbn. rewrite M. repeat split; try discriminate; auto.
  Qed.

  Lemma create_object_inv st a : inv bk st ->
    inv bk (fst (create_object bk st a)) /\
    fm_get a (live (fst (create_object bk st a))) = Some fresh_obj /\
    ok_obj bk (destr (fst (create_object bk st a))) a fresh_obj /\
    (forall p, snd (create_object bk st a) = Some p -> so_deleted p = false).
  Proof.
    intros I. unfold create_object. destruct (get_deleted bk st a) as [p|] eqn:E; cbn [fst snd].
    - assert (K : ok_obj bk (fm_set a tt (destr st)) a fresh_obj).
      { apply ok_fresh_marked. rewrite mem_set, N.eqb_refl. reflexivity. }
      split; [|split; [cbn; rewrite get_set, N.eqb_refl; reflexivity|split; [exact K|]]].
      + split; cbn [live destr dirt pend].
        * intros b ob. rewrite get_set. destruct (N.eqb_spec b a) as [->|D].
          -- intros [= <-]. exact K.
          -- intros G. destruct (inv_obj _ _ I _ _ G) as (A & B & C & S).
             unfold ok_obj. rewrite mem_set. destruct (N.eqb_spec b a); [congruence|]. cbn. auto.
        * intros b. rewrite mem_set, get_set. destruct (N.eqb_spec b a); [discriminate|]. cbn. apply (inv_destr _ _ I).
        * intros b. rewrite !mem_set. destruct (N.eqb_spec b a); [left; reflexivity|]. cbn. apply (inv_track _ _ I).
        * intros b. rewrite mem_set, get_set. destruct (N.eqb_spec b a); [discriminate|]. cbn. apply (inv_dirt _ _ I).
        * intros b M. rewrite get_set. destruct (N.eqb_spec b a); [discriminate|]. apply (inv_pend _ _ I _ M).
        * apply (inv_sorted _ _ I).
      + intros p'. destruct (so_deleted p) eqn:D; [discriminate|]. intros [= <-]. exact D.
    - assert (NL : fm_get a (live st) = None /\ bk_acc bk a = None).
      { unfold get_deleted in E. destruct (fm_get a (live st)); [discriminate|].
        destruct (bk_acc bk a); [discriminate|]. split; reflexivity. }
      destruct NL as [NL NB].
      assert (K : ok_obj bk (destr st) a fresh_obj).
      { unfold ok_obj, fresh_obj; cbn. repeat split; try discriminate; auto. }
      split; [apply put_inv; assumption|].
      split; [cbn; rewrite get_set, N.eqb_refl; reflexivity|].
      split; [exact K|discriminate].
  Qed.

  Lemma get_or_new_inv st a : inv bk st ->
    inv bk (fst (get_or_new bk st a)) /\
    ok_obj bk (destr (fst (get_or_new bk st a))) a (snd (get_or_new bk st a)) /\
    so_deleted (snd (get_or_new bk st a)) = false.
  Proof.
    intros I. unfold get_or_new. destruct (get_obj bk st a) as [o|] eqn:E; cbn [fst snd].
    - destruct (get_obj_ok _ _ _ I E) as [K D]. auto.
    - destruct (create_object_inv st a I) as (I1 & _ & K & _). auto.
  Qed.

  (** every mutator has the shape: get_or_new, then possibly put a copy with the same flags *)
  Lemma mut_inv st a (f : sobj -> sobj) : inv bk st -> (forall o, same_flags o (f o)) ->
    inv bk (let '(st1, o) := get_or_new bk st a in put st1 a (f o)).
  Proof.
    intros I F. destruct (get_or_new_inv st a I) as (I1 & K & _).
    destruct (get_or_new bk st a) as [st1 o]. cbn [fst snd] in *.
    apply put_inv; [exact I1|]. apply (ok_same_flags _ _ o); [apply F|exact K].
  Qed.

  Lemma create_account_inv st a : inv bk st -> inv bk (create_account bk st a).
  Proof.
    intros I. unfold create_account. destruct (create_object_inv st a I) as (I1 & L & K & _).
    destruct (create_object bk st a) as [st1 prev]. cbn [fst snd] in *.
    destruct prev as [p|]; [|exact I1].
    (* the carried-over balance: the same object with another balance *)
    assert (E : {| live := fm_set a (with_balance fresh_obj (so_balance p)) (live st1); destr := destr st1;
                   dirt := dirt st1; pend := pend st1 |} =
                {| live := fm_set a (with_balance fresh_obj (so_balance p)) (live st1); destr := destr st1;
                   dirt := dirt st1; pend := pend st1 |}) by reflexivity.
    split; cbn [live destr dirt pend].
    - intros b ob. rewrite get_set. destruct (N.eqb_spec b a) as [->|D].
      + intros [= <-]. apply (ok_same_flags _ _ fresh_obj); [apply sf_balance|exact K].
      + apply (inv_obj _ _ I1).
    - intros b M. rewrite get_set. destruct (N.eqb_spec b a); [discriminate|]. apply (inv_destr _ _ I1 _ M).
    - apply (inv_track _ _ I1).
    - intros b M. rewrite get_set. destruct (N.eqb_spec b a); [discriminate|]. apply (inv_dirt _ _ I1 _ M).
    - intros b M. rewrite get_set. destruct (N.eqb_spec b a); [discriminate|]. apply (inv_pend _ _ I1 _ M).
    - apply (inv_sorted _ _ I1).
  Qed.

  Lemma add_balance_inv st a v : inv bk st -> inv bk (add_balance bk st a v).
  Proof.
    intros I. unfold add_balance. destruct (get_or_new_inv st a I) as (I1 & K & _).
    destruct (get_or_new bk st a) as [st1 o]. cbn [fst snd] in *.
    destruct (Z.eqb v 0).
    - destruct (so_empty o); [apply put_inv; assumption|exact I1].
    - apply put_inv; [exact I1|]. apply (ok_same_flags _ _ o); [apply sf_balance|exact K].
  Qed.

  Lemma sub_balance_inv st a v : inv bk st -> inv bk (sub_balance bk st a v).
  Proof.
    intros I. unfold sub_balance. destruct (get_or_new_inv st a I) as (I1 & K & _).
    destruct (get_or_new bk st a) as [st1 o]. cbn [fst snd] in *.
    destruct (Z.eqb v 0); [exact I1|].
    apply put_inv; [exact I1|]. apply (ok_same_flags _ _ o); [apply sf_balance|exact K].
  Qed.

  Lemma set_nonce_inv st a n : inv bk st -> inv bk (set_nonce bk st a n).
  Proof. intros I. apply (mut_inv st a (fun o => with_nonce o n) I). intros o. apply sf_nonce. Qed.

  Lemma set_code_inv st a h : inv bk st -> inv bk (set_code bk st a h).
  Proof. intros I. apply (mut_inv st a (fun o => with_code o h) I). intros o. apply sf_code. Qed.

  Lemma set_state_inv st a k v : inv bk st -> inv bk (set_state bk st a k v).
  Proof.
    intros I. unfold set_state. destruct (get_or_new_inv st a I) as (I1 & K & _).
    destruct (get_or_new bk st a) as [st1 o]. cbn [fst snd] in *.
    destruct (N.eqb (obj_state bk st1 a o k) v); [exact I1|].
    apply put_inv; [exact I1|]. apply (ok_same_flags _ _ o); [apply sf_slot|exact K].
  Qed.

  Lemma suicide_inv st a : inv bk st -> inv bk (suicide bk st a).
  Proof.
    intros I. unfold suicide. destruct (get_obj bk st a) as [o|] eqn:E; [|exact I].
    destruct (get_obj_ok _ _ _ I E) as [K _].
    apply put_inv; [exact I|]. apply (ok_same_flags _ _ o); [apply sf_suicided|exact K].
  Qed.

  (** Finalise *)
  Lemma finalise_one_inv st a : inv bk st -> inv bk (finalise_one st a).
  Proof.
    intros I. unfold finalise_one. destruct (fm_get a (live st)) as [o|] eqn:E; [|exact I].
    destruct (so_suicided o || so_empty o).
    - split; cbn [live destr dirt pend].
      + intros b ob. rewrite get_set. destruct (N.eqb_spec b a) as [->|D].
        * intros [= <-]. destruct (inv_obj _ _ I _ _ E) as (A & B & C & S).
          unfold ok_obj. rewrite mem_set, N.eqb_refl. cbn. repeat split; auto; try discriminate.
        * intros G. destruct (inv_obj _ _ I _ _ G) as (A & B & C & S).
          unfold ok_obj. rewrite mem_set. destruct (N.eqb_spec b a); [congruence|]. cbn. auto.
      + intros b. rewrite mem_set, get_set. destruct (N.eqb_spec b a); [discriminate|]. cbn. apply (inv_destr _ _ I).
      + intros b. rewrite !mem_set. destruct (N.eqb_spec b a); [right; reflexivity|]. cbn. apply (inv_track _ _ I).
      + intros b M. rewrite get_set. destruct (N.eqb_spec b a); [discriminate|]. apply (inv_dirt _ _ I _ M).
      + intros b. rewrite mem_set, get_set. destruct (N.eqb_spec b a); [discriminate|]. cbn. apply (inv_pend _ _ I).
      + apply sorted_set, (inv_sorted _ _ I).
    - split; cbn [live destr dirt pend].
      + apply (inv_obj _ _ I).
      + apply (inv_destr _ _ I).
      + intros b M. rewrite mem_set. destruct (inv_track _ _ I _ M) as [H|H]; rewrite H; [left; reflexivity|right; apply orb_true_r].
      + apply (inv_dirt _ _ I).
      + intros b. rewrite mem_set. destruct (N.eqb_spec b a) as [->|D]; [intros _; congruence|]. cbn. apply (inv_pend _ _ I).
      + apply sorted_set, (inv_sorted _ _ I).
  Qed.

  Lemma finalise_one_dirt st a : dirt (finalise_one st a) = dirt st.
  Proof. unfold finalise_one. destruct (fm_get a (live st)); [destruct (_ || _)|]; reflexivity. Qed.

  Lemma finalise_one_pend_mono st a b : mem b (pend st) = true -> mem b (pend (finalise_one st a)) = true.
  Proof.
    unfold finalise_one. destruct (fm_get a (live st)); [destruct (_ || _)|]; cbn [pend]; try rewrite mem_set; intros ->; auto using orb_true_r.
  Qed.

  Lemma finalise_one_pend st a : fm_get a (live st) <> None -> mem a (pend (finalise_one st a)) = true.
  Proof.
    unfold finalise_one. destruct (fm_get a (live st)); [|congruence]. intros _.
    destruct (_ || _); cbn [pend]; rewrite mem_set, N.eqb_refl; reflexivity.
  Qed.

  Lemma finalise_fold l : forall st, inv bk st -> (forall a, In a l -> mem a (dirt st) = true) ->
    let st' := fold_left finalise_one l st in
    inv bk st' /\ dirt st' = dirt st /\
    (forall a, In a l -> mem a (pend st') = true) /\
    (forall a, mem a (pend st) = true -> mem a (pend st') = true).
  Proof.
    induction l as [|a t IH]; intros st I D; cbn [fold_left].
    - cbn zeta. split; [exact I|]. split; [reflexivity|]. split; [intros b []|auto].
    - assert (I1 := finalise_one_inv st a I).
      destruct (IH (finalise_one st a) I1) as (I2 & D2 & P2 & M2).
      { intros b Hb. rewrite finalise_one_dirt. apply D. right. exact Hb. }
      cbn zeta in *. split; [exact I2|]. split; [rewrite D2; apply finalise_one_dirt|]. split.
      + intros b [<-|Hb]; [|apply P2, Hb]. apply M2, finalise_one_pend.
        apply (inv_dirt _ _ I). apply D. left. reflexivity.
      + intros b Hb. apply M2, finalise_one_pend_mono, Hb.
  Qed.

  Lemma finalise_inv st : inv bk st -> inv bk (finalise st) /\ dirt (finalise st) = [].
  Proof.
    intros I. unfold finalise.
    destruct (finalise_fold (map fst (dirt st)) st I) as (I2 & D2 & P2 & M2).
    { intros a Ha. apply mem_in, Ha. }
    cbn zeta in *. split; [|reflexivity].
    set (st1 := fold_left finalise_one (map fst (dirt st)) st) in *.
    split; cbn [live destr dirt pend].
    - apply (inv_obj _ _ I2).
    - apply (inv_destr _ _ I2).
    - intros a M. right. destruct (inv_track _ _ I2 _ M) as [H|H]; [|exact H].
      apply P2. apply mem_in. rewrite <- D2. exact H.
    - intros a M. discriminate.
    - apply (inv_pend _ _ I2).
    - apply (inv_sorted _ _ I2).
  Qed.

  (** steps *)
  Definition xinv (x : xstate) : Prop := inv bk (fst (fst x)) /\ Forall (inv bk) (snd (fst x)).

  Lemma Forall_skipn {A} (P : A -> Prop) n : forall l, Forall P l -> Forall P (skipn n l).
  Proof.
    induction n as [|n IH]; intros [|x t] F; cbn [skipn]; auto. apply IH. inversion F; assumption.
  Qed.

  Lemma step_inv x o : xinv x -> xinv (step bk x o).
  Proof.
    destruct x as [[st stack] out]. intros [I S]. cbn [fst snd] in *.
    destruct o; cbn [step]; unfold xinv; cbn [fst snd];
      try (split; [|exact S]).
    - apply create_account_inv, I.
    - apply add_balance_inv, I.
    - apply sub_balance_inv, I.
    - destruct (Z.leb v (balance_of bk st a)); cbn [fst snd]; split; auto.
      apply add_balance_inv, sub_balance_inv, I.
    - apply set_nonce_inv, I.
    - apply set_code_inv, I.
    - apply set_state_inv, I.
    - apply suicide_inv, add_balance_inv, I.
    - split; [exact I|constructor; assumption].
    - destruct (nth_error stack k) as [s|] eqn:E; cbn [fst snd]; [|split; assumption].
      split; [|apply Forall_skipn, S].
      apply nth_error_In in E. rewrite Forall_forall in S. apply S, E.
    - split; [apply finalise_inv, I|constructor].
    - exact I.
    - exact I.
  Qed.

  Lemma steps_inv ops : forall x, xinv x -> xinv (fold_left (step bk) ops x).
  Proof. induction ops as [|o t IH]; intros x X; cbn [fold_left]; [exact X|]. apply IH, step_inv, X. Qed.

  Lemma run_block_inv ops : inv bk (fst (run_block bk ops)) /\ dirt (fst (run_block bk ops)) = [].
  Proof.
    unfold run_block.
    pose proof (steps_inv ops (core0, [], [])) as X.
    destruct (fold_left (step bk) ops (core0, [], [])) as [[st stack] out]. cbn [fst snd] in *.
    apply finalise_inv. apply X. split; [apply inv_core0|constructor].
  Qed.
End Inv.

(* ------------------------------------------------------------------ *)
(** * two backends that answer alike run alike (whatever their snapshot flags) *)

Definition bk_same (b1 b2 : backend) : Prop :=
  (forall a, bk_acc b1 a = bk_acc b2 a) /\ (forall a k, bk_slot b1 a k = bk_slot b2 a k).

Section Same.
  Variables b1 b2 : backend.
  Hypothesis SAME : bk_same b1 b2.
  Hypothesis WF : bk_wf b1.

  Lemma same_get_deleted st a : get_deleted b1 st a = get_deleted b2 st a.
  Proof. unfold get_deleted. rewrite (proj1 SAME a). reflexivity. Qed.

  Lemma same_get_obj st a : get_obj b1 st a = get_obj b2 st a.
  Proof. unfold get_obj. rewrite same_get_deleted. reflexivity. Qed.

  Lemma same_create_object st a : create_object b1 st a = create_object b2 st a.
  Proof. unfold create_object, put. rewrite same_get_deleted. reflexivity. Qed.

  Lemma same_get_or_new st a : get_or_new b1 st a = get_or_new b2 st a.
  Proof. unfold get_or_new. rewrite same_get_obj, same_create_object. reflexivity. Qed.

  Lemma same_committed st a o k : ok_obj b1 (destr st) a o ->
    committed b1 st a o k = committed b2 st a o k.
  Proof.
    intros (A & B & C & S). unfold committed. destruct (mem a (destr st)) eqn:M; [reflexivity|].
    rewrite <- (proj2 SAME a k).
    assert (Z : so_fresh o = true -> bk_slot b1 a k = 0%N).
    { intros F. apply WF, B; [exact F|reflexivity]. }
    destruct (bk_snap b1), (bk_snap b2), (so_fresh o); try reflexivity; rewrite Z; reflexivity.
  Qed.

  Lemma same_obj_state st a o k : ok_obj b1 (destr st) a o ->
    obj_state b1 st a o k = obj_state b2 st a o k.
  Proof. intros K. unfold obj_state. rewrite (same_committed _ _ _ _ K). reflexivity. Qed.

  Lemma same_balance_of st a : balance_of b1 st a = balance_of b2 st a.
  Proof. unfold balance_of. rewrite same_get_obj. reflexivity. Qed.

  Lemma same_add_balance st a v : add_balance b1 st a v = add_balance b2 st a v.
  Proof. unfold add_balance. rewrite same_get_or_new. reflexivity. Qed.

  Lemma same_sub_balance st a v : sub_balance b1 st a v = sub_balance b2 st a v.
  Proof. unfold sub_balance. rewrite same_get_or_new. reflexivity. Qed.

  Lemma same_step x o : xinv b1 x -> step b1 x o = step b2 x o.
  Proof.
    destruct x as [[st stack] out]. intros [I S]. cbn [fst snd] in *.
    destruct o; cbn [step]; try reflexivity.
    - unfold create_account. rewrite same_create_object. reflexivity.
    - rewrite same_add_balance. reflexivity.
    - rewrite same_sub_balance. reflexivity.
    - rewrite same_balance_of, same_sub_balance, same_add_balance. reflexivity.
    - unfold set_nonce. rewrite same_get_or_new. reflexivity.
    - unfold set_code. rewrite same_get_or_new. reflexivity.
    - unfold set_state. rewrite <- same_get_or_new.
      destruct (get_or_new_inv b1 st a I) as (I1 & K & _).
      destruct (get_or_new b1 st a) as [st1 o]. cbn [fst snd] in *.
      rewrite (same_obj_state _ _ _ _ K). reflexivity.
    - rewrite same_balance_of, same_add_balance. unfold suicide. rewrite same_get_obj. reflexivity.
    - unfold read_acc. rewrite same_get_obj. reflexivity.
    - unfold read_slot. rewrite <- same_get_obj. destruct (get_obj b1 st a) as [o|] eqn:E; [|reflexivity].
      destruct (get_obj_ok b1 _ _ _ I E) as [K _]. rewrite (same_obj_state _ _ _ _ K). reflexivity.
  Qed.

  Lemma same_steps ops : forall x, xinv b1 x -> fold_left (step b1) ops x = fold_left (step b2) ops x.
  Proof.
    induction ops as [|o t IH]; intros x X; cbn [fold_left]; [reflexivity|].
    rewrite <- (same_step x o X). apply IH, step_inv, X.
  Qed.

  Lemma same_run_block ops : run_block b1 ops = run_block b2 ops.
  Proof.
    unfold run_block. rewrite same_steps; [reflexivity|].
    split; [apply inv_core0|constructor].
  Qed.
End Same.
