(** C06 (b) — own copy of the C12 lemmas about the insertion sort of the model and about
    processChanges, then: order independence of updateWithChangeSet and of
    calculateValidatorSetUpdates followed by it. *)
From Coq Require Import List ZArith NArith Bool Lia Permutation Sorted.
From Kardia Require Import Base.Int64 Base.ListX C06.ModelValset Generated.C06Facts.
Import ListNotations.
Local Open Scope Z_scope.

(* ------------------------------------------------------------------ *)
(** * insertion sort: permutation, sortedness *)

Lemma insert_by_perm {A} (lt : A -> A -> bool) x l : Permutation (insert_by lt x l) (x :: l).
Proof.
  induction l as [|h t IH]; cbn [insert_by]; [reflexivity|].
  destruct (lt h x); [|reflexivity].
  rewrite IH. apply perm_swap.
Qed.

Lemma sort_by_perm {A} (lt : A -> A -> bool) l : Permutation (sort_by lt l) l.
Proof.
  induction l as [|h t IH]; cbn [sort_by fold_right]; [reflexivity|].
  fold (sort_by lt t). rewrite insert_by_perm. now constructor.
Qed.

Lemma sort_by_length {A} (lt : A -> A -> bool) l : length (sort_by lt l) = length l.
Proof. apply Permutation_length, sort_by_perm. Qed.

Lemma sort_by_nil_inv {A} (lt : A -> A -> bool) l : sort_by lt l = [] -> l = [].
Proof.
  intros H. pose proof (sort_by_length lt l) as L. rewrite H in L.
  destruct l; [reflexivity|discriminate].
Qed.

Definition addr_le (a b : validator) : Prop := (v_addr a <= v_addr b)%N.
Definition addr_slt (a b : validator) : Prop := (v_addr a < v_addr b)%N.

Lemma insert_addr_sorted x l :
  StronglySorted addr_le l -> StronglySorted addr_le (insert_by addr_lt x l).
Proof.
  induction l as [|h t IH]; intros S; cbn [insert_by].
  - constructor; constructor.
  - inversion S as [|? ? St Fh]; subst.
    unfold addr_lt at 1. destruct (N.ltb_spec (v_addr h) (v_addr x)) as [L|L].
    + constructor; [apply IH; assumption|].
      rewrite Forall_forall. intros y Hy.
      apply (Permutation_in _ (insert_by_perm addr_lt x t)) in Hy.
      destruct Hy as [<-|Hy]; [unfold addr_le; lia|].
      rewrite Forall_forall in Fh. now apply Fh.
    + constructor; [assumption|].
      constructor; [exact L|].
      rewrite Forall_forall in *. intros y Hy. specialize (Fh y Hy). unfold addr_le in *. lia.
Qed.

Lemma sort_addr_sorted l : StronglySorted addr_le (sort_by addr_lt l).
Proof.
  induction l as [|h t IH]; cbn [sort_by fold_right]; [constructor|].
  apply insert_addr_sorted, IH.
Qed.

(** a (weakly) sorted list without repeated addresses is strictly sorted *)
Lemma sorted_nodup_strict l :
  StronglySorted addr_le l -> NoDup (map v_addr l) -> StronglySorted addr_slt l.
Proof.
  induction l as [|h t IH]; intros S N; [constructor|].
  inversion S as [|? ? St Fh]; subst. cbn [map] in N. inversion N as [|? ? Nh Nt]; subst.
  constructor; [now apply IH|].
  rewrite Forall_forall in *. intros y Hy. specialize (Fh y Hy).
  unfold addr_le, addr_slt in *.
  assert (v_addr h <> v_addr y) as D.
  { intros E. apply Nh. rewrite E. now apply in_map. }
  lia.
Qed.

Lemma strict_sorted_nodup l : StronglySorted addr_slt l -> NoDup (map v_addr l).
Proof.
  induction l as [|h t IH]; intros S; cbn [map]; [constructor|].
  inversion S as [|? ? St Fh]; subst. constructor; [|now apply IH].
  rewrite in_map_iff. intros (y & E & Hy). rewrite Forall_forall in Fh.
  specialize (Fh y Hy). unfold addr_slt in Fh. lia.
Qed.

(** two strictly sorted lists with the same elements are equal *)
Lemma strict_sorted_perm_eq l1 : forall l2,
  StronglySorted addr_slt l1 -> StronglySorted addr_slt l2 -> Permutation l1 l2 -> l1 = l2.
Proof.
  induction l1 as [|a t1 IH]; intros l2 S1 S2 P.
  - apply Permutation_nil in P. now subst.
  - destruct l2 as [|b t2]; [apply Permutation_sym, Permutation_nil in P; discriminate|].
    inversion S1 as [|? ? St1 F1]; subst. inversion S2 as [|? ? St2 F2]; subst.
    rewrite Forall_forall in F1, F2.
    assert (a = b) as ->.
    { assert (In a (b :: t2)) as Ha by (eapply Permutation_in; [exact P|now left]).
      assert (In b (a :: t1)) as Hb by (eapply Permutation_in; [apply Permutation_sym; exact P|now left]).
      destruct Ha as [Ha|Ha]; [now subst|].
      destruct Hb as [Hb|Hb]; [now subst|].
      specialize (F1 b Hb). specialize (F2 a Ha). unfold addr_slt in *. lia. }
    f_equal. apply IH; try assumption. now apply Permutation_cons_inv in P.
Qed.

Lemma sort_addr_perm_eq l1 l2 :
  Permutation l1 l2 -> NoDup (map v_addr l1) -> sort_by addr_lt l1 = sort_by addr_lt l2.
Proof.
  intros P N.
  assert (Permutation (sort_by addr_lt l1) (sort_by addr_lt l2)) as PS.
  { rewrite !sort_by_perm. exact P. }
  apply strict_sorted_perm_eq; [| |exact PS].
  - apply sorted_nodup_strict; [apply sort_addr_sorted|].
    eapply Permutation_NoDup; [|exact N]. apply Permutation_map, Permutation_sym, sort_by_perm.
  - apply sorted_nodup_strict; [apply sort_addr_sorted|].
    eapply Permutation_NoDup; [|exact N]. apply Permutation_map.
    rewrite sort_by_perm. exact P.
Qed.

(* ------------------------------------------------------------------ *)
(** * processChanges accepts exactly the well-formed change sets *)

Definition valid_change (c : validator) : Prop :=
  v_addr c <> 0%N /\ 0 <= v_power c <= max_total_voting_power.
Definition valid_changes (cs : list validator) : Prop :=
  NoDup (map v_addr cs) /\ Forall valid_change cs.

Lemma scan_ok_strict l : forall prev ups rems,
  StronglySorted addr_le l -> (forall x, In x l -> (prev <= v_addr x)%N) ->
  process_scan prev l = ScanOk ups rems ->
  StronglySorted addr_slt l /\ (forall x, In x l -> (prev < v_addr x)%N) /\
  Forall (fun c => 0 <= v_power c <= max_total_voting_power) l /\
  ups = filter (fun c => negb (v_power c =? 0)) l /\ rems = filter (fun c => v_power c =? 0) l.
Proof.
  induction l as [|c t IH]; intros prev ups rems S Hp H; cbn [process_scan] in H.
  - inversion H; subst. repeat split; try constructor. intros x [].
  - inversion S as [|? ? St Fc]; subst.
    destruct (N.eqb_spec (v_addr c) prev) as [E|NE]; [discriminate|].
    destruct (Z.ltb_spec (v_power c) 0) as [L0|L0]; [discriminate|].
    destruct (Z.ltb_spec max_total_voting_power (v_power c)) as [L1|L1]; [discriminate|].
    destruct (process_scan (v_addr c) t) as [e|ups' rems'] eqn:R; [discriminate|].
    rewrite Forall_forall in Fc.
    destruct (IH (v_addr c) ups' rems' St) as (S' & Hlt & Fp & Eu & Er); [exact Fc|exact R|].
    assert ((prev < v_addr c)%N) as Lc.
    { specialize (Hp c (or_introl eq_refl)). lia. }
    split; [|split; [|split]].
    + constructor; [exact S'|]. rewrite Forall_forall. intros y Hy. apply Hlt, Hy.
    + intros x [<-|Hx]; [exact Lc|]. specialize (Hlt x Hx). lia.
    + constructor; [lia|exact Fp].
    + cbn [filter]. destruct (Z.eqb_spec (v_power c) 0) as [Z0|Z0]; cbn [negb];
        inversion H; subst; split; reflexivity.
Qed.

Lemma process_ok_valid cs ups rems :
  process_changes cs = ScanOk ups rems ->
  valid_changes cs /\
  ups = filter (fun c => negb (v_power c =? 0)) (sort_by addr_lt cs) /\
  rems = filter (fun c => v_power c =? 0) (sort_by addr_lt cs).
Proof.
  unfold process_changes. intros H.
  destruct (scan_ok_strict _ 0%N ups rems (sort_addr_sorted cs)) as (S & Hlt & Fp & Eu & Er);
    [intros; lia|exact H|].
  split; [|split; assumption].
  split.
  - apply (Permutation_NoDup (Permutation_map v_addr (sort_by_perm addr_lt cs))).
    apply strict_sorted_nodup. exact S.
  - rewrite Forall_forall in *. intros c Hc.
    assert (In c (sort_by addr_lt cs)) as Hs by (eapply Permutation_in; [apply Permutation_sym, sort_by_perm|exact Hc]).
    split; [specialize (Hlt c Hs); intros E; rewrite E in Hlt; now apply N.lt_irrefl in Hlt|apply Fp, Hs].
Qed.

Lemma scan_valid_ok l : forall prev,
  StronglySorted addr_slt l -> (forall x, In x l -> (prev < v_addr x)%N) ->
  Forall (fun c => 0 <= v_power c <= max_total_voting_power) l ->
  exists ups rems, process_scan prev l = ScanOk ups rems.
Proof.
  induction l as [|c t IH]; intros prev S Hp F; cbn [process_scan]; [eauto|].
  inversion S as [|? ? St Fc]; subst. inversion F as [|? ? Fc0 Ft]; subst.
  rewrite Forall_forall in Fc.
  destruct (N.eqb_spec (v_addr c) prev) as [E|NE].
  { specialize (Hp c (or_introl eq_refl)). lia. }
  destruct (Z.ltb_spec (v_power c) 0) as [L0|L0]; [lia|].
  destruct (Z.ltb_spec max_total_voting_power (v_power c)) as [L1|L1]; [lia|].
  destruct (IH (v_addr c) St Fc Ft) as (u & r & ->).
  destruct (v_power c =? 0); eauto.
Qed.

Lemma process_valid_ok cs : valid_changes cs -> exists ups rems, process_changes cs = ScanOk ups rems.
Proof.
  intros [N F]. unfold process_changes.
  assert (Permutation (sort_by addr_lt cs) cs) as P by apply sort_by_perm.
  apply scan_valid_ok.
  - apply sorted_nodup_strict; [apply sort_addr_sorted|].
    eapply Permutation_NoDup; [apply Permutation_map, Permutation_sym, P|exact N].
  - intros x Hx. apply (Permutation_in _ P) in Hx. rewrite Forall_forall in F.
    destruct (F x Hx) as [NZ _]. lia.
  - rewrite Forall_forall in *. intros x Hx. apply (Permutation_in _ P) in Hx. apply F, Hx.
Qed.

(** the outcome of processChanges does not depend on the order of the change set *)
Lemma process_perm cs cs' ups rems :
  Permutation cs cs' -> process_changes cs = ScanOk ups rems -> process_changes cs' = ScanOk ups rems.
Proof.
  intros P H. destruct (process_ok_valid _ _ _ H) as ([N _] & _ & _).
  unfold process_changes in *. rewrite <- (sort_addr_perm_eq cs cs' P N). exact H.
Qed.

Lemma valid_changes_perm cs cs' : Permutation cs cs' -> valid_changes cs -> valid_changes cs'.
Proof.
  intros P [N F]. split.
  - eapply Permutation_NoDup; [apply Permutation_map, P|exact N].
  - eapply Permutation_Forall; eassumption.
Qed.

(* ------------------------------------------------------------------ *)
(** * order independence of updateWithChangeSet *)

Lemma scan_err_not_ok l : forall prev, process_scan prev l <> ScanErr UOk.
Proof.
  induction l as [|c t IH]; intros prev; cbn [process_scan]; [discriminate|].
  destruct (N.eqb (v_addr c) prev); [discriminate|].
  destruct (v_power c <? 0); [discriminate|].
  destruct (max_total_voting_power <? v_power c); [discriminate|].
  specialize (IH (v_addr c)). destruct (process_scan (v_addr c) t); [congruence|].
  destruct (v_power c =? 0); discriminate.
Qed.

(** On every error return the set is the one the caller passed, except that
    [TotalVotingPower()] may have filled a zero cache (which no accessor can tell apart). *)
Lemma update_perm s cs cs' b :
  Permutation cs cs' ->
  update_with_change_set s cs b = update_with_change_set s cs' b \/
  (exists e e', update_with_change_set s cs b = Some (s, e) /\
                update_with_change_set s cs' b = Some (s, e') /\ e <> UOk /\ e' <> UOk).
Proof.
  intros P.
  destruct cs as [|c t].
  { apply Permutation_nil in P. subst. now left. }
  destruct cs' as [|c' t'].
  { apply Permutation_sym, Permutation_nil in P. discriminate. }
  unfold update_with_change_set.
  destruct (process_changes (c :: t)) as [e|ups rems] eqn:E.
  - destruct (process_changes (c' :: t')) as [e'|ups' rems'] eqn:E'.
    + right. exists e, e'. repeat split; try reflexivity.
      * intros ->. unfold process_changes in E. now apply scan_err_not_ok in E.
      * intros ->. unfold process_changes in E'. now apply scan_err_not_ok in E'.
    + apply (process_perm _ _ _ _ (Permutation_sym P)) in E'. congruence.
  - rewrite (process_perm _ _ _ _ P E). now left.
Qed.


(** with the error classes collapsed (consensus only sees "applied" or "rejected, set unchanged") *)
Lemma update_order_free s cs cs' : Permutation cs cs' -> update s cs = update s cs'.
Proof.
  intros P. unfold update.
  destruct (update_perm s cs cs' true P) as [E|(e & e' & E & E' & NE & NE')].
  - rewrite E. reflexivity.
  - rewrite E, E'. destruct e, e'; congruence.
Qed.
