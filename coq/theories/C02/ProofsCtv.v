(** C02 — CommitToVoteSet is the inverse of MakeCommit (types/commit.go): for every reachable precommit
    vote set with a complete majority id (and wire-valid votes), CommitToVoteSet applied to MakeCommit's
    output does not panic, the rebuilt vote set reports the same majority, and MakeCommit of the
    rebuilt vote set gives the same commit back. *)
From Coq Require Import List ZArith NArith Bool Lia Arith.
From Kardia Require Import Base.Int64 Base.ListX C02.Model C02.ModelExt C02.Proofs C02.ProofsLists
     C02.ProofsVoteSet C02.ProofsExt Generated.C02Facts.
Import ListNotations.
Local Open Scope Z_scope.

(** the votes MakeCommit keeps (non-absent slots): votes for the majority id and nil votes *)
Definition kept (b : blockid) (o : option vote) : option vote :=
  match o with
  | Some v => if bid_is_complete (v_bid v) then (if bid_eqb (v_bid v) b then Some v else None) else Some v
  | None => None
  end.

Fixpoint votes_ops (l : list (option vote)) : list op :=
  match l with
  | [] => []
  | Some v :: t => OpVote v :: votes_ops t
  | None :: t => votes_ops t
  end.

Lemma votes_ops_app a b : votes_ops (a ++ b) = votes_ops a ++ votes_ops b.
Proof. induction a as [|[v|] t IH]; cbn [votes_ops app]; [reflexivity|rewrite IH; reflexivity|exact IH]. Qed.

Lemma votes_ops_in l v : In (OpVote v) (votes_ops l) <-> In (Some v) l.
Proof.
  induction l as [|[u|] t IH]; cbn [votes_ops In]; [tauto| |].
  - split; intros [E|H]; [left; congruence|right; apply IH; exact H|left; congruence|right; apply IH; exact H].
  - split; [intros H; right; apply IH; exact H|intros [E|H]; [discriminate|apply IH; exact H]].
Qed.

Lemma votes_ops_only_votes l o : In o (votes_ops l) -> exists v, o = OpVote v.
Proof.
  induction l as [|[u|] t IH]; cbn [votes_ops In]; [tauto| |exact IH].
  intros [<-|H]; [eauto|auto].
Qed.

Lemma commitsig_kept b o : commitsig_of b (kept b o) = commitsig_of b o.
Proof.
  destruct o as [v|]; cbn [kept commitsig_of]; [|reflexivity].
  destruct (bid_is_complete (v_bid v)) eqn:Ec.
  - destruct (bid_eqb (v_bid v) b) eqn:Eb; cbn [commitsig_of]; [rewrite Ec, Eb|]; reflexivity.
  - cbn [commitsig_of]. rewrite Ec. reflexivity.
Qed.

Lemma kept_some b o v : kept b o = Some v -> o = Some v.
Proof.
  destruct o as [u|]; cbn [kept]; [|discriminate].
  destruct (bid_is_complete (v_bid u)); [destruct (bid_eqb (v_bid u) b)|]; congruence.
Qed.

Lemma kept_idem b o : kept b (kept b o) = kept b o.
Proof.
  destruct o as [v|]; cbn [kept]; [|reflexivity].
  destruct (bid_is_complete (v_bid v)) eqn:Ec.
  - destruct (bid_eqb (v_bid v) b) eqn:Eb; cbn [kept]; [rewrite Ec, Eb|]; reflexivity.
  - cbn [kept]. rewrite Ec. reflexivity.
Qed.

Lemma absent_kept b o :
  N.eqb (cs_flag (commitsig_of b o)) FLAG_ABSENT = match kept b o with None => true | Some _ => false end.
Proof.
  destruct o as [v|]; cbn [kept commitsig_of]; [|reflexivity].
  destruct (bid_is_complete (v_bid v)); [destruct (bid_eqb (v_bid v) b)|]; reflexivity.
Qed.

Lemma vote_at_ext (l l' : list (option vote)) :
  length l = length l' -> (forall i, vote_at l i = vote_at l' i) -> l = l'.
Proof.
  revert l'. induction l as [|o t IH]; intros [|o' t'] Hl H; try discriminate; [reflexivity|].
  f_equal.
  - specialize (H O). unfold vote_at in H. cbn in H.
    destruct o, o'; cbn in H; congruence.
  - apply IH; [cbn in Hl; lia|]. intros i. specialize (H (S i)). rewrite !vote_at_cons_S in H. exact H.
Qed.

Lemma vote_at_app_l (a b : list (option vote)) i : (i < length a)%nat -> vote_at (a ++ b) i = vote_at a i.
Proof. intros H. unfold vote_at. rewrite nth_error_app1 by exact H. reflexivity. Qed.

Lemma vote_at_app_r (a b : list (option vote)) i : vote_at (a ++ b) (length a + i) = vote_at b i.
Proof. unfold vote_at. rewrite nth_error_app2 by lia. replace (length a + i - length a)%nat with i by lia. reflexivity. Qed.

Lemma vote_at_map_kept b l i : vote_at (map (kept b) l) i = kept b (vote_at l i).
Proof.
  unfold vote_at. rewrite nth_error_map. destruct (nth_error l i) as [[v|]|]; [|reflexivity|reflexivity].
  cbn [option_map]. change (opt_join (Some (Some v))) with (Some v). generalize (kept b (Some v)).
  intros [x|]; reflexivity.
Qed.

Lemma vote_at_in (l : list (option vote)) v : In (Some v) l -> exists i, vote_at l i = Some v.
Proof. intros H. apply In_nth_error in H. destruct H as [i Hi]. exists i. apply vote_at_nth_error. exact Hi. Qed.

Lemma add_verified_c vs v i p s' a c :
  add_verified vs v i p = (s', a, c) -> c = is_some (vote_at (vs_votes vs) i).
Proof.
  rewrite add_verified_eq. cbv zeta.
  destruct (bb_find _ _) as [bv|].
  - destruct (is_some (vote_at (vs_votes vs) i) && negb (bv_peermaj bv)); intros H; injection H as _ _ <-; reflexivity.
  - destruct (is_some (vote_at (vs_votes vs) i)) eqn:E; intros H; injection H as _ _ <-; reflexivity.
Qed.

Section Ctv.
Variables (chain ht rd : N) (vals : list validator).
Hypothesis Hwf : wf_vals vals.

Local Notation ginv := (inv chain ht rd PRECOMMIT vals).
Local Notation gvalid := (valid_vote chain ht rd PRECOMMIT vals).
Local Notation gfirst := (first_valid chain ht rd PRECOMMIT vals).
Local Notation ggood := (good chain ht rd PRECOMMIT vals).

(** a valid vote of a validator that has not voted yet is added without error *)
Lemma add_vote_fresh done s v :
  ginv done s -> gvalid v = true -> gfirst done (N.to_nat (v_idx v)) = None ->
  exists s', add_vote s v = (s', true, ENone).
Proof.
  intros [Hw Hf] Hv Hfv. unfold valid_vote in Hv. rewrite !andb_true_iff in Hv. destruct Hv as [[Ha Hs] Hn].
  unfold add_vote.
  rewrite (w_height _ _ _ _ _ _ _ Hw), (w_round _ _ _ _ _ _ _ Hw), (w_type _ _ _ _ _ _ _ Hw),
          (w_vals _ _ _ _ _ _ _ Hw), (w_chain _ _ _ _ _ _ _ Hw).
  destruct (N.eqb (v_addr v) 0); [discriminate|].
  replace (N.eqb (v_height v) ht && N.eqb (v_round v) rd && N.eqb (v_type v) PRECOMMIT)%bool with true
    by (symmetry; apply andb_true_iff; split; [apply andb_true_iff; exact (proj1 Hs)|exact (proj2 Hs)]).
  cbn [negb].
  destruct (nth_error vals (N.to_nat (v_idx v))) as [val|] eqn:En; [|discriminate].
  apply andb_true_iff in Hn. destruct Hn as [Had Hsig]. rewrite Had. cbn [negb].
  assert (Hvn : vote_at (vs_votes s) (N.to_nat (v_idx v)) = None) by (eapply votes_none_of_first; eauto).
  assert (Hg : get_vote s (N.to_nat (v_idx v)) (v_bid v) = None).
  { unfold get_vote. rewrite Hvn. destruct (bb_find (v_bid v) (vs_byblock s)) as [bv|] eqn:Eb; [|reflexivity].
    destruct (vote_at (bv_votes bv) (N.to_nat (v_idx v))) as [u|] eqn:Eu; [|reflexivity].
    destruct (w_bb _ _ _ _ _ _ _ Hw _ _ Eb) as [_ [_ Hpos]]. destruct (Hpos _ _ Eu) as [_ [_ Hc]]. congruence. }
  rewrite Hg, Hsig. cbn [negb].
  destruct (add_verified s v (N.to_nat (v_idx v)) (val_power val)) as [[s1 a1] c1] eqn:Eav.
  pose proof (add_verified_c _ _ _ _ _ _ _ Eav) as Hc. rewrite Hvn in Hc. cbn [is_some] in Hc. subst c1.
  pose proof (add_verified_noconflict _ _ _ _ _ _ _ Eav eq_refl) as ->.
  exists s1. reflexivity.
Qed.

Variables (ops : list op) (b : blockid).
Let s := final (new_voteset chain ht rd PRECOMMIT vals) ops.
Hypothesis Hwire : forall v, offered ops v -> bid_is_zero (v_bid v) = true \/ bid_is_complete (v_bid v) = true.
Hypothesis Hmaj : vs_maj23 s = Some b.
Hypothesis Hcomp : bid_is_complete b = true.
Hypothesis Hht : ht <> 0%N.

Let votes := vs_votes s.
Let c : commit := {| c_height := ht; c_round := rd; c_bid := b; c_sigs := map (commitsig_of b) votes |}.

Lemma Hs_inv : ginv ops s.
Proof. apply reach_inv. exact Hwf. Qed.

Lemma stored_good i v : vote_at votes i = Some v -> ggood ops i v.
Proof. apply (w_votes _ _ _ _ _ _ _ (proj1 Hs_inv)). Qed.

Lemma stored_wire v : In (Some v) votes -> bid_is_zero (v_bid v) = true \/ bid_is_complete (v_bid v) = true.
Proof. intros H. destruct (vote_at_in _ _ H) as [i Hi]. apply Hwire. apply (stored_good i v Hi). Qed.

Lemma make_commit_s : make_commit s = Some c.
Proof.
  unfold make_commit. rewrite (w_type _ _ _ _ _ _ _ (proj1 Hs_inv)). cbn [N.eqb Pos.eqb PRECOMMIT negb].
  rewrite Hmaj. fold votes. rewrite (make_sigs_map b votes stored_wire).
  rewrite (w_height _ _ _ _ _ _ _ (proj1 Hs_inv)), (w_round _ _ _ _ _ _ _ (proj1 Hs_inv)). reflexivity.
Qed.

(** the vote Commit.GetVote rebuilds from a kept slot is the stored vote itself *)
Lemma get_vote_kept i v :
  vote_at votes i = Some v -> kept b (Some v) = Some v -> commit_get_vote c i = Some v.
Proof.
  intros Hv Hk. pose proof (stored_good i v Hv) as [Hoff [Hi Hval]].
  unfold commit_get_vote, c. cbn [c_sigs c_bid c_height c_round].
  rewrite nth_error_map. apply vote_at_nth_error in Hv. fold votes. rewrite Hv. cbn [option_map].
  unfold valid_vote in Hval. rewrite !andb_true_iff in Hval. destruct Hval as [[_ [[Hh Hr] Ht]] _].
  apply N.eqb_eq in Hh, Hr, Ht.
  assert (Hidx : N.of_nat i = v_idx v) by (rewrite <- Hi; apply N2Nat.id).
  cbn [kept] in Hk. cbn [commitsig_of].
  destruct (bid_is_complete (v_bid v)) eqn:Ec.
  - destruct (bid_eqb (v_bid v) b) eqn:Eb; [|discriminate]. apply bid_eqb_eq in Eb.
    unfold cs_blockid. cbn [cs_flag cs_addr cs_time cs_sig N.eqb Pos.eqb FLAG_COMMIT FLAG_ABSENT].
    destruct v; cbn in *; subst; rewrite ?N2Nat.id; reflexivity.
  - destruct (Hwire v Hoff) as [Hz|Hc']; [|congruence]. apply bid_is_zero_eq in Hz.
    unfold cs_blockid. cbn [cs_flag cs_addr cs_time cs_sig N.eqb Pos.eqb FLAG_NIL FLAG_COMMIT FLAG_ABSENT].
    destruct v; cbn in *; subst; rewrite ?N2Nat.id; reflexivity.
Qed.

(** votes offered in the rebuilt history are stored votes of [s] (with their own index) *)
Lemma offered_kept l v : In (OpVote v) (votes_ops (map (kept b) l)) -> In (Some v) l.
Proof.
  intros H. apply votes_ops_in in H. apply in_map_iff in H. destruct H as [o [Hk Hin]].
  apply kept_some in Hk. subst o. exact Hin.
Qed.

(** the loop of CommitToVoteSet over the slots [l] that follow the prefix [pre] *)
Lemma ctv_loop_run : forall l pre vs,
  votes = pre ++ l ->
  ginv (votes_ops (map (kept b) pre)) vs ->
  ctv_loop c (map (commitsig_of b) l) (length pre) vs = Some (final vs (votes_ops (map (kept b) l))).
Proof.
  induction l as [|o t IH]; intros pre vs Hsplit Hinv; [reflexivity|].
  cbn [map ctv_loop]. rewrite absent_kept.
  assert (Hpre' : votes = (pre ++ [o]) ++ t) by (rewrite <- app_assoc; exact Hsplit).
  assert (Hlen' : length (pre ++ [o]) = S (length pre)) by (rewrite app_length; cbn; lia).
  destruct (kept b o) as [v|] eqn:Ek.
  - pose proof (kept_some _ _ _ Ek) as ->.
    assert (Hv : vote_at votes (length pre) = Some v).
    { rewrite Hsplit. replace (length pre) with (length pre + 0)%nat by lia. rewrite vote_at_app_r. reflexivity. }
    rewrite (get_vote_kept _ _ Hv Ek).
    pose proof (stored_good _ _ Hv) as [Hoff [Hi Hval]].
    destruct (add_vote_fresh _ _ v Hinv Hval) as [s' Hs'].
    { (* nobody in the prefix has this index *)
      destruct (gfirst (votes_ops (map (kept b) pre)) (N.to_nat (v_idx v))) as [u|] eqn:Ef; [|reflexivity].
      exfalso. destruct (first_valid_spec _ _ _ _ _ _ _ _ Ef) as [Hou [Hiu _]].
      apply offered_kept in Hou. destruct (vote_at_in _ _ Hou) as [j Hj].
      assert (Hjl : (j < length pre)%nat) by (eapply vote_at_Some_lt; eauto).
      assert (Hj' : vote_at votes j = Some u) by (rewrite Hsplit, vote_at_app_l by exact Hjl; exact Hj).
      destruct (stored_good _ _ Hj') as [_ [Hju _]]. lia. }
    rewrite Hs'. cbn [votes_ops].
    rewrite final_cons. cbn [step]. rewrite Hs'. cbn [fst].
    rewrite <- Hlen'. apply IH; [exact Hpre'|].
    rewrite map_app, votes_ops_app. cbn [map votes_ops]. rewrite Ek. cbn [votes_ops].
    eapply add_vote_inv; eauto.
  - cbn [votes_ops]. rewrite <- Hlen'. apply IH; [exact Hpre'|].
    rewrite map_app, votes_ops_app. cbn [map votes_ops]. rewrite Ek. cbn [votes_ops]. rewrite app_nil_r. exact Hinv.
Qed.

Let ops2 := votes_ops (map (kept b) votes).
Let s2 := final (new_voteset chain ht rd PRECOMMIT vals) ops2.

Lemma ctv_result : commit_to_voteset chain c vals = Some s2.
Proof.
  unfold commit_to_voteset, c. cbn [c_height c_round c_sigs].
  destruct (N.eqb_spec ht 0) as [E|_]; [contradiction|].
  apply (ctv_loop_run votes [] _ eq_refl). apply init_inv.
Qed.

(** the rebuilt history holds exactly one vote per kept slot *)
Lemma offered2 v : offered ops2 v -> exists i, vote_at votes i = Some v /\ kept b (Some v) = Some v /\ N.to_nat (v_idx v) = i.
Proof.
  intros H. unfold offered, ops2 in H. apply votes_ops_in in H. apply in_map_iff in H. destruct H as [o [Hk Hin]].
  pose proof (kept_some _ _ _ Hk) as ->. destruct (vote_at_in _ _ Hin) as [i Hi].
  exists i. split; [exact Hi|split; [exact Hk|]]. destruct (stored_good _ _ Hi) as [_ [Hidx _]]. exact Hidx.
Qed.

Lemma kept_offered2 i v : vote_at votes i = Some v -> kept b (Some v) = Some v -> ggood ops2 i v.
Proof.
  intros Hv Hk. destruct (stored_good _ _ Hv) as [_ [Hi Hval]]. split; [|split; assumption].
  unfold offered, ops2. apply votes_ops_in. apply in_map_iff. exists (Some v). split; [exact Hk|].
  apply vote_at_nth_error in Hv. eapply nth_error_In; eauto.
Qed.

Lemma first2 i v : vote_at votes i = Some v -> kept b (Some v) = Some v -> gfirst ops2 i = Some v.
Proof.
  intros Hv Hk. pose proof (kept_offered2 _ _ Hv Hk) as Hg.
  destruct (gfirst ops2 i) as [u|] eqn:Ef; [|exfalso; eapply good_first; eauto].
  destruct (first_valid_spec _ _ _ _ _ _ _ _ Ef) as [Hou [Hiu _]].
  destruct (offered2 _ Hou) as [j [Hj [_ Hju]]]. assert (j = i) by lia. subst j. congruence.
Qed.

Lemma maj2 : vs_maj23 s2 = Some b.
Proof.
  destruct (w_maj _ _ _ _ _ _ _ (proj1 Hs_inv) _ Hmaj) as [bv [Hx [Hq Hpos]]].
  destruct (w_bb _ _ _ _ _ _ _ (proj1 Hs_inv) _ _ Hx) as [K1 [K2 K3]].
  pose proof (sum_powers_nonneg _ (proj1 Hwf)) as HT.
  assert (Hkb : forall u, v_bid u = b -> kept b (Some u) = Some u).
  { intros u Hu. cbn [kept]. rewrite Hu, Hcomp. replace (bid_eqb b b) with true by (symmetry; apply bid_eqb_eq; reflexivity). reflexivity. }
  apply (complete_exact chain ht rd PRECOMMIT vals Hwf ops2 (map is_some (bv_votes bv)) b).
  - unfold voters_power in K2. rewrite <- K2. rewrite quorum_exact in Hq by exact Hwf. lia.
  - intros i Hi. rewrite nth_mask in Hi. apply is_some_true in Hi. apply not_none_ex in Hi. destruct Hi as [u Hu].
    destruct (Hpos i u Hu) as [u' [Hu' Hb]]. exists u'. split; [apply first2; [exact Hu'|apply Hkb; exact Hb]|exact Hb].
  - intros i v Hi Hoff Hidx _. rewrite nth_mask in Hi. apply is_some_true in Hi. apply not_none_ex in Hi. destruct Hi as [u Hu].
    destruct (Hpos i u Hu) as [u' [Hu' Hb]]. destruct (offered2 _ Hoff) as [j [Hj [_ Hjv]]].
    assert (j = i) by lia. subst j. fold votes in Hu'. congruence.
Qed.

Lemma votes2 : vs_votes s2 = map (kept b) votes.
Proof.
  pose proof (reach_inv chain ht rd PRECOMMIT vals Hwf ops2) as [Hw2 Hf2]. fold s2 in Hw2, Hf2.
  apply vote_at_ext.
  - rewrite map_length. rewrite (w_len _ _ _ _ _ _ _ Hw2). symmetry. apply (w_len _ _ _ _ _ _ _ (proj1 Hs_inv)).
  - intros i. rewrite vote_at_map_kept.
    destruct (kept b (vote_at votes i)) as [v|] eqn:Ek.
    + pose proof (kept_some _ _ _ Ek) as Hv. rewrite Hv in Ek.
      pose proof (first2 _ _ Hv Ek) as Hf. destruct (Hf2 i v Hf) as [bv [Hx Hn]].
      destruct (w_bb _ _ _ _ _ _ _ Hw2 _ _ Hx) as [_ [_ Hpos]].
      apply not_none_ex in Hn. destruct Hn as [u Hu]. destruct (Hpos i u Hu) as [_ [_ Hne]].
      apply not_none_ex in Hne. destruct Hne as [w Hw]. rewrite Hw.
      destruct (w_votes _ _ _ _ _ _ _ Hw2 i w Hw) as [Hoff [Hiw _]].
      destruct (offered2 _ Hoff) as [j [Hj [_ Hjw]]]. assert (j = i) by lia. subst j. congruence.
    + destruct (vote_at (vs_votes s2) i) as [w|] eqn:Ew; [|reflexivity]. exfalso.
      destruct (w_votes _ _ _ _ _ _ _ Hw2 i w Ew) as [Hoff [Hiw _]].
      destruct (offered2 _ Hoff) as [j [Hj [Hkw Hjw]]]. assert (Hji : j = i) by lia. rewrite Hji in Hj.
      rewrite Hj in Ek. congruence.
Qed.

Theorem commit_to_voteset_inverse :
  exists c s2, make_commit s = Some c /\ commit_to_voteset chain c vals = Some s2 /\
               vs_maj23 s2 = Some b /\ make_commit s2 = Some c.
Proof.
  exists c, s2. split; [exact make_commit_s|split; [exact ctv_result|split; [exact maj2|]]].
  pose proof (reach_inv chain ht rd PRECOMMIT vals Hwf ops2) as [Hw2 _]. fold s2 in Hw2.
  unfold make_commit. rewrite (w_type _ _ _ _ _ _ _ Hw2). cbn [N.eqb Pos.eqb PRECOMMIT negb].
  rewrite maj2, votes2.
  rewrite make_sigs_map.
  - rewrite (w_height _ _ _ _ _ _ _ Hw2), (w_round _ _ _ _ _ _ _ Hw2). unfold c. f_equal. f_equal.
    rewrite map_map. apply map_ext. intros o. apply commitsig_kept.
  - intros v Hin. apply in_map_iff in Hin. destruct Hin as [o [Hk Hin]]. apply kept_some in Hk. subst o.
    apply stored_wire. exact Hin.
Qed.

End Ctv.
