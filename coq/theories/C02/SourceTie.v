(** C02 — tie of the model's arithmetic and guards to the Go SOURCE.
    [Generated/C02Source.v] is produced on every check by /verif/go2coq from /repo's working tree:
    the bodies of safeAdd/safeSub/safeAddClip/safeSubClip and every guard / integer expression of
    VoteSet.addVote, addVerifiedVote, HasTwoThirdsAny, HasAll, MakeCommit, ValidatorSet.VerifyCommit,
    updateTotalVotingPower and BlockID.IsZero/IsComplete/Equal, as Gallina over [Z] with explicit
    int64 wraps (Base/GoSem.v).  The lemmas below state that the hand-written model of C02/Model.v
    computes exactly those expressions on exactly those operands (the [_atoms] lists name the Go
    operands).  An edit of the Go source that changes a comparison, a constant, an operand or the
    order of these guards changes the generated file and re-opens these obligations.
    Second part (go2coq second revision): the bare-atom conditions, field stores, call/constant
    assignments, ++/-- and for-init of the same functions, and the remaining anchored functions
    (getVote, SetPeerMaj23, blockVotes, accessors, Vote.CommitSig/Verify/ValidateBasic, CommitSig.*,
    Commit.ValidateBasic, CommitToVoteSet, ValidatorSet.GetByIndex/TotalVotingPower, PartSetHeader,
    consensus/types.HeightVoteSet) are tied to Model.v / ModelExt.v. *)
From Coq Require Import List ZArith NArith Bool Lia String.
From Kardia Require Import Base.Int64 Base.GoSem.
From Kardia Require Import Generated.C02Source.
From Kardia Require Import Generated.C02Facts C02.Model C02.ModelExt.
Import ListNotations.
Local Open Scope Z_scope.

(** ** safe arithmetic (types/validator_set.go) = Base/Int64.v, for all int64 operands *)
Lemma src_safeAddClip a b : in_range I64 a -> in_range I64 b -> types__safeAddClip a b = safe_add_clip a b.
Proof.
  intros Ha Hb. unfold types__safeAddClip, types__safeAdd, safe_add_clip, max_int64, min_int64, two63.
  unfold in_range in *. gosolve.
Qed.
Lemma src_safeSubClip a b : in_range I64 a -> in_range I64 b -> types__safeSubClip a b = safe_sub_clip a b.
Proof.
  intros Ha Hb. unfold types__safeSubClip, types__safeSub, safe_sub_clip, max_int64, min_int64, two63.
  unfold in_range in *. gosolve.
Qed.

(** the caps the facts translator prints are the constants the type checker evaluates *)
Lemma src_caps : types__MaxTotalVotingPower = max_total_voting_power /\ types__MaxVotesCount = max_votes_count.
Proof. split; reflexivity. Qed.

(** ** quorum arithmetic: the model's [quorum]/[two_thirds] ARE the source expressions *)
Lemma src_quorum vals : quorum vals = types__VoteSet_addVerifiedVote__set_quorum (total_power vals).
Proof. reflexivity. Qed.
Lemma src_quorum_atoms :
  types__VoteSet_addVerifiedVote__set_quorum_atoms = ["voteSet.valSet.TotalVotingPower() : int64"]%string.
Proof. reflexivity. Qed.

Lemma src_crossed orig q sum' :
  types__VoteSet_addVerifiedVote__if_origSum_lt_quorum_and_quorum_le_votesByBlock_sum orig q sum' = (Z.ltb orig q && Z.leb q sum')%bool.
Proof. reflexivity. Qed.
Lemma src_crossed_atoms :
  types__VoteSet_addVerifiedVote__if_origSum_lt_quorum_and_quorum_le_votesByBlock_sum_atoms = ["origSum : int64"; "quorum : int64"; "votesByBlock.sum : int64"]%string.
Proof. reflexivity. Qed.

(** running sums are int64 additions of the validator's power *)
Lemma src_sum_add s p : types__VoteSet_addVerifiedVote__set_sum_op s p = wrap64 (s + p).
Proof. reflexivity. Qed.
Lemma src_sum_add_atoms :
  types__VoteSet_addVerifiedVote__set_sum_op_atoms = ["voteSet.sum : int64"; "votingPower : int64"]%string.
Proof. reflexivity. Qed.

Lemma src_two_thirds_any vs :
  has_two_thirds_any vs = types__VoteSet_HasTwoThirdsAny__ret_voteSet_sum_gt_voteSet_valSet_TotalVotingPower_mul_2_div_3 (vs_sum vs) (total_power (vs_vals vs)).
Proof. unfold has_two_thirds_any, types__VoteSet_HasTwoThirdsAny__ret_voteSet_sum_gt_voteSet_valSet_TotalVotingPower_mul_2_div_3. rewrite Z.gtb_ltb. reflexivity. Qed.
Lemma src_two_thirds_any_atoms :
  types__VoteSet_HasTwoThirdsAny__ret_voteSet_sum_gt_voteSet_valSet_TotalVotingPower_mul_2_div_3_atoms = ["voteSet.sum : int64"; "voteSet.valSet.TotalVotingPower() : int64"]%string.
Proof. reflexivity. Qed.

Lemma src_has_all vs :
  has_all vs = types__VoteSet_HasAll__ret_voteSet_sum_eq_voteSet_valSet_TotalVotingPower (vs_sum vs) (total_power (vs_vals vs)).
Proof. reflexivity. Qed.

(** conflicting vote without a peer claim is dropped: [conflicting != nil && !peerMaj23] *)
Lemma src_conflict_guard c pm : types__VoteSet_addVerifiedVote__if_conflicting_ne_nil_and_not_votesByBlock_peerMaj23 c pm = (c && negb pm)%bool.
Proof. reflexivity. Qed.
Lemma src_conflict_guard_atoms :
  types__VoteSet_addVerifiedVote__if_conflicting_ne_nil_and_not_votesByBlock_peerMaj23_atoms = ["conflicting != nil : bool"; "votesByBlock.peerMaj23 : bool"]%string.
Proof. reflexivity. Qed.

(** addVote step check: height, round and type must all match *)
Lemma src_step_guard h h' r r' t t' :
  types__VoteSet_addVote__if_vote_Height_ne_voteSet_height_or_vote_Round_ne_voteSet_round_5947c832 (Z.of_N h) (Z.of_N h') (Z.of_N r) (Z.of_N r') (Z.of_N t) (Z.of_N t')
  = negb (N.eqb h h' && N.eqb r r' && N.eqb t t').
Proof.
  unfold types__VoteSet_addVote__if_vote_Height_ne_voteSet_height_or_vote_Round_ne_voteSet_round_5947c832, go_neqb.
  rewrite !negb_andb.
  replace (Z.of_N h =? Z.of_N h') with (N.eqb h h') by (destruct (N.eqb_spec h h'); destruct (Z.eqb_spec (Z.of_N h) (Z.of_N h')); try reflexivity; lia).
  replace (Z.of_N r =? Z.of_N r') with (N.eqb r r') by (destruct (N.eqb_spec r r'); destruct (Z.eqb_spec (Z.of_N r) (Z.of_N r')); try reflexivity; lia).
  replace (Z.of_N t =? Z.of_N t') with (N.eqb t t') by (destruct (N.eqb_spec t t'); destruct (Z.eqb_spec (Z.of_N t) (Z.of_N t')); try reflexivity; lia).
  reflexivity.
Qed.

(** ** VerifyCommit *)
Lemma src_needed vals : two_thirds vals = types__ValidatorSet_VerifyCommit__set_votingPowerNeeded (total_power vals).
Proof. reflexivity. Qed.
Lemma src_needed_atoms :
  types__ValidatorSet_VerifyCommit__set_votingPowerNeeded_atoms = ["vs.TotalVotingPower() : int64"]%string.
Proof. reflexivity. Qed.
Lemma src_tally_add acc p : types__ValidatorSet_VerifyCommit__set_talliedVotingPower_op acc p = wrap64 (acc + p).
Proof. reflexivity. Qed.
Lemma src_tally_add_atoms :
  types__ValidatorSet_VerifyCommit__set_talliedVotingPower_op_atoms = ["talliedVotingPower : int64"; "val.VotingPower : int64"]%string.
Proof. reflexivity. Qed.
(** "not enough power" is [got <= needed]: strictly more than two thirds is required *)
Lemma src_enough got needed : types__ValidatorSet_VerifyCommit__if_got_le_needed got needed = Z.leb got needed.
Proof. reflexivity. Qed.
Lemma src_enough_atoms : types__ValidatorSet_VerifyCommit__if_got_le_needed_atoms = ["got : int64"; "needed : int64"]%string.
Proof. reflexivity. Qed.
Lemma src_size_guard n m : types__ValidatorSet_VerifyCommit__if_vs_Size_ne_len_commit_Signatures (Z.of_nat n) (Z.of_nat m) = negb (Nat.eqb n m).
Proof.
  unfold types__ValidatorSet_VerifyCommit__if_vs_Size_ne_len_commit_Signatures, go_neqb. f_equal.
  destruct (Nat.eqb_spec n m); destruct (Z.eqb_spec (Z.of_nat n) (Z.of_nat m)); try reflexivity; lia.
Qed.
Lemma src_size_guard_atoms :
  types__ValidatorSet_VerifyCommit__if_vs_Size_ne_len_commit_Signatures_atoms = ["vs.Size() : int"; "len(commit.Signatures) : int"]%string.
Proof. reflexivity. Qed.
Lemma src_height_guard_atoms :
  types__ValidatorSet_VerifyCommit__if_height_ne_commit_GetHeight_atoms = ["height : uint64"; "commit.GetHeight() : uint64"]%string.
Proof. reflexivity. Qed.
Lemma src_blockid_guard_atoms :
  types__ValidatorSet_VerifyCommit__if_not_blockID_Equal_commit_BlockID_atoms = ["blockID.Equal(commit.BlockID) : bool"]%string
  /\ forall b, types__ValidatorSet_VerifyCommit__if_not_blockID_Equal_commit_BlockID b = negb b.
Proof. split; reflexivity. Qed.

(** a non-absent slot must name the validator of its position (checked before the signature) *)
Lemma src_addr_guard :
  types__ValidatorSet_VerifyCommit__if_not_commitSig_ValidatorAddress_Equal_val_Address_atoms
  = ["commitSig.ValidatorAddress.Equal(val.Address) : bool"]%string
  /\ forall b, types__ValidatorSet_VerifyCommit__if_not_commitSig_ValidatorAddress_Equal_val_Address b = negb b.
Proof. split; reflexivity. Qed.

(** the cap panic of updateTotalVotingPower is [sum > MaxTotalVotingPower] *)
Lemma src_cap_guard s : types__ValidatorSet_updateTotalVotingPower__if_sum_gt_MaxTotalVotingPower s = Z.ltb max_total_voting_power s.
Proof. unfold types__ValidatorSet_updateTotalVotingPower__if_sum_gt_MaxTotalVotingPower. rewrite Z.gtb_ltb. reflexivity. Qed.

(** ** block ids *)
Lemma src_bid_is_zero b :
  bid_is_zero b = types__BlockID_IsZero__ret_blockID_Hash_IsZero_and_blockID_PartsHeader_IsZero (N.eqb (b_hash b) 0) (N.eqb (b_total b) 0 && N.eqb (b_phash b) 0)%bool.
Proof. reflexivity. Qed.
Lemma src_bid_is_complete b :
  bid_is_complete b = types__BlockID_IsComplete__ret_not_blockID_Hash_IsZero_and_not_blockID_PartsHeader_IsZero (N.eqb (b_hash b) 0) (N.eqb (b_total b) 0 && N.eqb (b_phash b) 0)%bool.
Proof. reflexivity. Qed.
Lemma src_bid_atoms :
  types__BlockID_IsZero__ret_blockID_Hash_IsZero_and_blockID_PartsHeader_IsZero_atoms = ["blockID.Hash.IsZero() : bool"; "blockID.PartsHeader.IsZero() : bool"]%string
  /\ types__BlockID_IsComplete__ret_not_blockID_Hash_IsZero_and_not_blockID_PartsHeader_IsZero_atoms = ["blockID.Hash.IsZero() : bool"; "blockID.PartsHeader.IsZero() : bool"]%string
  /\ types__BlockID_Equal__ret_blockID_Hash_Equal_other_Hash_and_blockID_PartsHeader_Equals_d815eb38_atoms = ["blockID.Hash.Equal(other.Hash) : bool"; "blockID.PartsHeader.Equals(other.PartsHeader) : bool"]%string
  /\ forall x y, types__BlockID_Equal__ret_blockID_Hash_Equal_other_Hash_and_blockID_PartsHeader_Equals_d815eb38 x y = (x && y)%bool.
Proof. repeat split; reflexivity. Qed.

(* ================================================================== *)
(** * Second part: go2coq second revision *)

Lemma Zof_N_eqb a b : (Z.of_N a =? Z.of_N b) = N.eqb a b.
Proof. destruct (N.eqb_spec a b); destruct (Z.eqb_spec (Z.of_N a) (Z.of_N b)); try reflexivity; lia. Qed.
Lemma Zof_N_neqb a b : go_neqb (Z.of_N a) (Z.of_N b) = negb (N.eqb a b).
Proof. unfold go_neqb. rewrite Zof_N_eqb. reflexivity. Qed.
Lemma Zof_nat_eqb0 n : (Z.of_nat n =? 0) = Nat.eqb n 0.
Proof. destruct n; reflexivity. Qed.

(** a condition that is a single atom: the atom is pinned, and its polarity *)
Definition pinned1 (f : bool -> bool) (atoms : list string) (positive : bool) (a : string) : Prop :=
  atoms = [a] /\ forall b, f b = if positive then b else negb b.

Definition pins_VoteSet_addVote : Prop :=
  pinned1 types__VoteSet_addVote__if_vote_eq_nil types__VoteSet_addVote__if_vote_eq_nil_atoms true "vote == nil : untyped bool" /\
  pinned1 types__VoteSet_addVote__if_valAddr_Equal_cmn_Address types__VoteSet_addVote__if_valAddr_Equal_cmn_Address_atoms true "valAddr.Equal(cmn.Address{}) : bool" /\
  pinned1 types__VoteSet_addVote__if_val_eq_nil types__VoteSet_addVote__if_val_eq_nil_atoms true "val == nil : untyped bool" /\
  pinned1 types__VoteSet_addVote__if_not_valAddr_Equal_lookupAddr types__VoteSet_addVote__if_not_valAddr_Equal_lookupAddr_atoms false "valAddr.Equal(lookupAddr) : bool" /\
  pinned1 types__VoteSet_addVote__if_ok types__VoteSet_addVote__if_ok_atoms true "ok : bool" /\
  pinned1 types__VoteSet_addVote__if_bytes_Equal_existing_Signature_vote_Signature types__VoteSet_addVote__if_bytes_Equal_existing_Signature_vote_Signature_atoms true "bytes.Equal(existing.Signature, vote.Signature) : bool" /\
  pinned1 types__VoteSet_addVote__if_err_ne_nil types__VoteSet_addVote__if_err_ne_nil_atoms true "err != nil : untyped bool" /\
  pinned1 types__VoteSet_addVote__if_conflicting_ne_nil types__VoteSet_addVote__if_conflicting_ne_nil_atoms true "conflicting != nil : untyped bool" /\
  pinned1 types__VoteSet_addVote__if_not_added types__VoteSet_addVote__if_not_added_atoms false "added : bool".
Lemma pins_VoteSet_addVote_ok : pins_VoteSet_addVote. Proof. unfold pins_VoteSet_addVote, pinned1. repeat split. Qed.

Definition pins_VoteSet_addVerifiedVote : Prop :=
  pinned1 types__VoteSet_addVerifiedVote__if_existing_ne_nil types__VoteSet_addVerifiedVote__if_existing_ne_nil_atoms true "existing != nil : untyped bool" /\
  pinned1 types__VoteSet_addVerifiedVote__if_existing_BlockID_Equal_vote_BlockID types__VoteSet_addVerifiedVote__if_existing_BlockID_Equal_vote_BlockID_atoms true "existing.BlockID.Equal(vote.BlockID) : bool" /\
  pinned1 types__VoteSet_addVerifiedVote__if_ok types__VoteSet_addVerifiedVote__if_ok_atoms true "ok : bool" /\
  pinned1 types__VoteSet_addVerifiedVote__if_conflicting_ne_nil types__VoteSet_addVerifiedVote__if_conflicting_ne_nil_atoms true "conflicting != nil : untyped bool" /\
  pinned1 types__VoteSet_addVerifiedVote__if_voteSet_maj23_eq_nil types__VoteSet_addVerifiedVote__if_voteSet_maj23_eq_nil_atoms true "voteSet.maj23 == nil : untyped bool" /\
  pinned1 types__VoteSet_addVerifiedVote__if_vote_ne_nil types__VoteSet_addVerifiedVote__if_vote_ne_nil_atoms true "vote != nil : untyped bool".
Lemma pins_VoteSet_addVerifiedVote_ok : pins_VoteSet_addVerifiedVote. Proof. unfold pins_VoteSet_addVerifiedVote, pinned1. repeat split. Qed.

Definition pins_VoteSet_HasTwoThirdsAny : Prop :=
  pinned1 types__VoteSet_HasTwoThirdsAny__if_voteSet_eq_nil types__VoteSet_HasTwoThirdsAny__if_voteSet_eq_nil_atoms true "voteSet == nil : untyped bool".
Lemma pins_VoteSet_HasTwoThirdsAny_ok : pins_VoteSet_HasTwoThirdsAny. Proof. unfold pins_VoteSet_HasTwoThirdsAny, pinned1. repeat split. Qed.

Definition pins_VoteSet_MakeCommit : Prop :=
  pinned1 types__VoteSet_MakeCommit__if_voteSet_maj23_eq_nil types__VoteSet_MakeCommit__if_voteSet_maj23_eq_nil_atoms true "voteSet.maj23 == nil : untyped bool".
Lemma pins_VoteSet_MakeCommit_ok : pins_VoteSet_MakeCommit. Proof. unfold pins_VoteSet_MakeCommit, pinned1. repeat split. Qed.

Definition pins_ValidatorSet_VerifyCommit : Prop :=
  pinned1 types__ValidatorSet_VerifyCommit__if_vs_eq_nil types__ValidatorSet_VerifyCommit__if_vs_eq_nil_atoms true "vs == nil : untyped bool" /\
  pinned1 types__ValidatorSet_VerifyCommit__if_commit_eq_nil types__ValidatorSet_VerifyCommit__if_commit_eq_nil_atoms true "commit == nil : untyped bool" /\
  pinned1 types__ValidatorSet_VerifyCommit__if_err_ne_nil types__ValidatorSet_VerifyCommit__if_err_ne_nil_atoms true "err != nil : untyped bool" /\
  pinned1 types__ValidatorSet_VerifyCommit__if_not_blockID_Equal_commit_BlockID types__ValidatorSet_VerifyCommit__if_not_blockID_Equal_commit_BlockID_atoms false "blockID.Equal(commit.BlockID) : bool" /\
  pinned1 types__ValidatorSet_VerifyCommit__if_commitSig_Absent types__ValidatorSet_VerifyCommit__if_commitSig_Absent_atoms true "commitSig.Absent() : bool" /\
  pinned1 types__ValidatorSet_VerifyCommit__if_not_commitSig_ValidatorAddress_Equal_val_Address types__ValidatorSet_VerifyCommit__if_not_commitSig_ValidatorAddress_Equal_val_Address_atoms false "commitSig.ValidatorAddress.Equal(val.Address) : bool" /\
  pinned1 types__ValidatorSet_VerifyCommit__if_not_VerifySignature_val_Address_crypto_Keccak256_signBytes_c_6727322a types__ValidatorSet_VerifyCommit__if_not_VerifySignature_val_Address_crypto_Keccak256_signBytes_c_6727322a_atoms false "VerifySignature(val.Address, crypto.Keccak256(signBytes), commitSig.Signature) : bool" /\
  pinned1 types__ValidatorSet_VerifyCommit__if_blockID_Equal_commitSig_BlockID_commit_BlockID types__ValidatorSet_VerifyCommit__if_blockID_Equal_commitSig_BlockID_commit_BlockID_atoms true "blockID.Equal(commitSig.BlockID(commit.BlockID)) : bool".
Lemma pins_ValidatorSet_VerifyCommit_ok : pins_ValidatorSet_VerifyCommit. Proof. unfold pins_ValidatorSet_VerifyCommit, pinned1. repeat split. Qed.

Definition pins_VoteSet_getVote : Prop :=
  pinned1 types__VoteSet_getVote__if_existing_ne_nil types__VoteSet_getVote__if_existing_ne_nil_atoms true "existing != nil : untyped bool".
Lemma pins_VoteSet_getVote_ok : pins_VoteSet_getVote. Proof. unfold pins_VoteSet_getVote, pinned1. repeat split. Qed.

Definition pins_VoteSet_SetPeerMaj23 : Prop :=
  pinned1 types__VoteSet_SetPeerMaj23__if_voteSet_eq_nil types__VoteSet_SetPeerMaj23__if_voteSet_eq_nil_atoms true "voteSet == nil : untyped bool" /\
  pinned1 types__VoteSet_SetPeerMaj23__if_ok types__VoteSet_SetPeerMaj23__if_ok_atoms true "ok : bool" /\
  pinned1 types__VoteSet_SetPeerMaj23__if_existing_Equal_blockID types__VoteSet_SetPeerMaj23__if_existing_Equal_blockID_atoms true "existing.Equal(blockID) : bool" /\
  pinned1 types__VoteSet_SetPeerMaj23__if_ok_2 types__VoteSet_SetPeerMaj23__if_ok_2_atoms true "ok : bool" /\
  pinned1 types__VoteSet_SetPeerMaj23__if_votesByBlock_peerMaj23 types__VoteSet_SetPeerMaj23__if_votesByBlock_peerMaj23_atoms true "votesByBlock.peerMaj23 : bool".
Lemma pins_VoteSet_SetPeerMaj23_ok : pins_VoteSet_SetPeerMaj23. Proof. unfold pins_VoteSet_SetPeerMaj23, pinned1. repeat split. Qed.

Definition pins_VoteSet_TwoThirdsMajority : Prop :=
  pinned1 types__VoteSet_TwoThirdsMajority__if_voteSet_eq_nil types__VoteSet_TwoThirdsMajority__if_voteSet_eq_nil_atoms true "voteSet == nil : untyped bool" /\
  pinned1 types__VoteSet_TwoThirdsMajority__if_voteSet_maj23_ne_nil types__VoteSet_TwoThirdsMajority__if_voteSet_maj23_ne_nil_atoms true "voteSet.maj23 != nil : untyped bool".
Lemma pins_VoteSet_TwoThirdsMajority_ok : pins_VoteSet_TwoThirdsMajority. Proof. unfold pins_VoteSet_TwoThirdsMajority, pinned1. repeat split. Qed.

Definition pins_VoteSet_HasTwoThirdsMajority : Prop :=
  pinned1 types__VoteSet_HasTwoThirdsMajority__if_voteSet_eq_nil types__VoteSet_HasTwoThirdsMajority__if_voteSet_eq_nil_atoms true "voteSet == nil : untyped bool".
Lemma pins_VoteSet_HasTwoThirdsMajority_ok : pins_VoteSet_HasTwoThirdsMajority. Proof. unfold pins_VoteSet_HasTwoThirdsMajority, pinned1. repeat split. Qed.

Definition pins_VoteSet_IsCommit : Prop :=
  pinned1 types__VoteSet_IsCommit__if_voteSet_eq_nil types__VoteSet_IsCommit__if_voteSet_eq_nil_atoms true "voteSet == nil : untyped bool".
Lemma pins_VoteSet_IsCommit_ok : pins_VoteSet_IsCommit. Proof. unfold pins_VoteSet_IsCommit, pinned1. repeat split. Qed.

Definition pins_VoteSet_GetByIndex : Prop :=
  pinned1 types__VoteSet_GetByIndex__if_voteSet_eq_nil types__VoteSet_GetByIndex__if_voteSet_eq_nil_atoms true "voteSet == nil : untyped bool".
Lemma pins_VoteSet_GetByIndex_ok : pins_VoteSet_GetByIndex. Proof. unfold pins_VoteSet_GetByIndex, pinned1. repeat split. Qed.

Definition pins_VoteSet_BitArrayByBlockID : Prop :=
  pinned1 types__VoteSet_BitArrayByBlockID__if_voteSet_eq_nil types__VoteSet_BitArrayByBlockID__if_voteSet_eq_nil_atoms true "voteSet == nil : untyped bool" /\
  pinned1 types__VoteSet_BitArrayByBlockID__if_ok types__VoteSet_BitArrayByBlockID__if_ok_atoms true "ok : bool".
Lemma pins_VoteSet_BitArrayByBlockID_ok : pins_VoteSet_BitArrayByBlockID. Proof. unfold pins_VoteSet_BitArrayByBlockID, pinned1. repeat split. Qed.

Definition pins_blockVotes_addVerifiedVote : Prop :=
  pinned1 types__blockVotes_addVerifiedVote__if_existing_eq_nil types__blockVotes_addVerifiedVote__if_existing_eq_nil_atoms true "existing == nil : untyped bool".
Lemma pins_blockVotes_addVerifiedVote_ok : pins_blockVotes_addVerifiedVote. Proof. unfold pins_blockVotes_addVerifiedVote, pinned1. repeat split. Qed.

Definition pins_blockVotes_getByIndex : Prop :=
  pinned1 types__blockVotes_getByIndex__if_vs_eq_nil types__blockVotes_getByIndex__if_vs_eq_nil_atoms true "vs == nil : untyped bool".
Lemma pins_blockVotes_getByIndex_ok : pins_blockVotes_getByIndex. Proof. unfold pins_blockVotes_getByIndex, pinned1. repeat split. Qed.

Definition pins_Vote_CommitSig : Prop :=
  pinned1 types__Vote_CommitSig__if_vote_eq_nil types__Vote_CommitSig__if_vote_eq_nil_atoms true "vote == nil : untyped bool" /\
  pinned1 types__Vote_CommitSig__case_vote_BlockID_IsComplete types__Vote_CommitSig__case_vote_BlockID_IsComplete_atoms true "vote.BlockID.IsComplete() : bool" /\
  pinned1 types__Vote_CommitSig__case_vote_BlockID_IsZero types__Vote_CommitSig__case_vote_BlockID_IsZero_atoms true "vote.BlockID.IsZero() : bool".
Lemma pins_Vote_CommitSig_ok : pins_Vote_CommitSig. Proof. unfold pins_Vote_CommitSig, pinned1. repeat split. Qed.

Definition pins_Vote_Verify : Prop :=
  pinned1 types__Vote_Verify__if_not_vote_ValidatorAddress_Equal_address types__Vote_Verify__if_not_vote_ValidatorAddress_Equal_address_atoms false "vote.ValidatorAddress.Equal(address) : bool" /\
  pinned1 types__Vote_Verify__if_not_VerifySignature_address_crypto_Keccak256_signBytes_vote_Signature types__Vote_Verify__if_not_VerifySignature_address_crypto_Keccak256_signBytes_vote_Signature_atoms false "VerifySignature(address, crypto.Keccak256(signBytes), vote.Signature) : bool".
Lemma pins_Vote_Verify_ok : pins_Vote_Verify. Proof. unfold pins_Vote_Verify, pinned1. repeat split. Qed.

Definition pins_Vote_ValidateBasic : Prop :=
  pinned1 types__Vote_ValidateBasic__if_not_IsVoteTypeValid_vote_Type types__Vote_ValidateBasic__if_not_IsVoteTypeValid_vote_Type_atoms false "IsVoteTypeValid(vote.Type) : bool" /\
  pinned1 types__Vote_ValidateBasic__if_err_ne_nil types__Vote_ValidateBasic__if_err_ne_nil_atoms true "err != nil : untyped bool".
Lemma pins_Vote_ValidateBasic_ok : pins_Vote_ValidateBasic. Proof. unfold pins_Vote_ValidateBasic, pinned1. repeat split. Qed.

Definition pins_CommitSig_ValidateBasic : Prop :=
  pinned1 types__CommitSig_ValidateBasic__if_not_cs_ValidatorAddress_Equal_common_Address types__CommitSig_ValidateBasic__if_not_cs_ValidatorAddress_Equal_common_Address_atoms false "cs.ValidatorAddress.Equal(common.Address{}) : bool" /\
  pinned1 types__CommitSig_ValidateBasic__if_not_cs_Timestamp_IsZero types__CommitSig_ValidateBasic__if_not_cs_Timestamp_IsZero_atoms false "cs.Timestamp.IsZero() : bool".
Lemma pins_CommitSig_ValidateBasic_ok : pins_CommitSig_ValidateBasic. Proof. unfold pins_CommitSig_ValidateBasic, pinned1. repeat split. Qed.

Definition pins_Commit_ValidateBasic : Prop :=
  pinned1 types__Commit_ValidateBasic__if_commit_BlockID_IsZero types__Commit_ValidateBasic__if_commit_BlockID_IsZero_atoms true "commit.BlockID.IsZero() : bool" /\
  pinned1 types__Commit_ValidateBasic__if_err_ne_nil types__Commit_ValidateBasic__if_err_ne_nil_atoms true "err != nil : untyped bool".
Lemma pins_Commit_ValidateBasic_ok : pins_Commit_ValidateBasic. Proof. unfold pins_Commit_ValidateBasic, pinned1. repeat split. Qed.

Definition pins_Commit_Size : Prop :=
  pinned1 types__Commit_Size__if_commit_eq_nil types__Commit_Size__if_commit_eq_nil_atoms true "commit == nil : untyped bool".
Lemma pins_Commit_Size_ok : pins_Commit_Size. Proof. unfold pins_Commit_Size, pinned1. repeat split. Qed.

Definition pins_CommitToVoteSet : Prop :=
  pinned1 types__CommitToVoteSet__if_commitSig_Absent types__CommitToVoteSet__if_commitSig_Absent_atoms true "commitSig.Absent() : bool".
Lemma pins_CommitToVoteSet_ok : pins_CommitToVoteSet. Proof. unfold pins_CommitToVoteSet, pinned1. repeat split. Qed.

Definition pins_HeightVoteSet_addRound : Prop :=
  pinned1 consensus_types__HeightVoteSet_addRound__if_ok consensus_types__HeightVoteSet_addRound__if_ok_atoms true "ok : bool".
Lemma pins_HeightVoteSet_addRound_ok : pins_HeightVoteSet_addRound. Proof. unfold pins_HeightVoteSet_addRound, pinned1. repeat split. Qed.

Definition pins_HeightVoteSet_SetRound : Prop :=
  pinned1 consensus_types__HeightVoteSet_SetRound__if_ok consensus_types__HeightVoteSet_SetRound__if_ok_atoms true "ok : bool".
Lemma pins_HeightVoteSet_SetRound_ok : pins_HeightVoteSet_SetRound. Proof. unfold pins_HeightVoteSet_SetRound, pinned1. repeat split. Qed.

Definition pins_HeightVoteSet_AddVote : Prop :=
  pinned1 consensus_types__HeightVoteSet_AddVote__if_not_types_IsVoteTypeValid_vote_Type consensus_types__HeightVoteSet_AddVote__if_not_types_IsVoteTypeValid_vote_Type_atoms false "types.IsVoteTypeValid(vote.Type) : bool" /\
  pinned1 consensus_types__HeightVoteSet_AddVote__if_voteSet_eq_nil consensus_types__HeightVoteSet_AddVote__if_voteSet_eq_nil_atoms true "voteSet == nil : untyped bool".
Lemma pins_HeightVoteSet_AddVote_ok : pins_HeightVoteSet_AddVote. Proof. unfold pins_HeightVoteSet_AddVote, pinned1. repeat split. Qed.

Definition pins_HeightVoteSet_getVoteSet : Prop :=
  pinned1 consensus_types__HeightVoteSet_getVoteSet__if_not_ok consensus_types__HeightVoteSet_getVoteSet__if_not_ok_atoms false "ok : bool".
Lemma pins_HeightVoteSet_getVoteSet_ok : pins_HeightVoteSet_getVoteSet. Proof. unfold pins_HeightVoteSet_getVoteSet, pinned1. repeat split. Qed.

Definition pins_HeightVoteSet_SetPeerMaj23 : Prop :=
  pinned1 consensus_types__HeightVoteSet_SetPeerMaj23__if_not_types_IsVoteTypeValid_signedMsgType consensus_types__HeightVoteSet_SetPeerMaj23__if_not_types_IsVoteTypeValid_signedMsgType_atoms false "types.IsVoteTypeValid(signedMsgType) : bool" /\
  pinned1 consensus_types__HeightVoteSet_SetPeerMaj23__if_voteSet_eq_nil consensus_types__HeightVoteSet_SetPeerMaj23__if_voteSet_eq_nil_atoms true "voteSet == nil : untyped bool".
Lemma pins_HeightVoteSet_SetPeerMaj23_ok : pins_HeightVoteSet_SetPeerMaj23. Proof. unfold pins_HeightVoteSet_SetPeerMaj23, pinned1. repeat split. Qed.

Definition pins_HeightVoteSet_POLInfo : Prop :=
  pinned1 consensus_types__HeightVoteSet_POLInfo__if_ok consensus_types__HeightVoteSet_POLInfo__if_ok_atoms true "ok : bool".
Lemma pins_HeightVoteSet_POLInfo_ok : pins_HeightVoteSet_POLInfo. Proof. unfold pins_HeightVoteSet_POLInfo, pinned1. repeat split. Qed.


(** ** VoteSet.addVote / getVote / addVerifiedVote / blockVotes *)

(** AddVote(nil) is ErrVoteNil and changes nothing ([vote == nil] is the first test) *)
Lemma src_nil_vote vs : add_vote_o vs None = (vs, false, None).
Proof. reflexivity. Qed.

(** [valIndex < 0] on a uint32 never holds: the model has no such branch *)
Lemma src_index_never_negative i : types__VoteSet_addVote__if_valIndex_lt_0 (Z.of_N i) = false
  /\ types__VoteSet_addVote__if_valIndex_lt_0_atoms = ["valIndex : uint32"]%string.
Proof. split; [|reflexivity]. unfold types__VoteSet_addVote__if_valIndex_lt_0. destruct (Z.ltb_spec (Z.of_N i) 0); [lia|reflexivity]. Qed.

(** ValidatorSet.GetByIndex: [index >= uint32(len(vs.Validators))] is the model's [nth_error = None] *)
Lemma src_get_by_index (vals : list validator) i :
  Z.of_nat (List.length vals) <= 4294967295 ->
  types__ValidatorSet_GetByIndex__if_index_ge_uint32_len_vs_Validators (Z.of_N i) (Z.of_nat (List.length vals))
  = match nth_error vals (N.to_nat i) with None => true | Some _ => false end.
Proof.
  intros Hn. unfold types__ValidatorSet_GetByIndex__if_index_ge_uint32_len_vs_Validators, go_conv.
  rewrite wrap_id by (unfold in_range; lia).
  destruct (nth_error vals (N.to_nat i)) eqn:E.
  - assert (N.to_nat i < List.length vals)%nat by (apply nth_error_Some; congruence).
    rewrite Z.geb_leb. destruct (Z.leb_spec (Z.of_nat (List.length vals)) (Z.of_N i)); [lia|reflexivity].
  - apply nth_error_None in E.
    rewrite Z.geb_leb. destruct (Z.leb_spec (Z.of_nat (List.length vals)) (Z.of_N i)); [reflexivity|lia].
Qed.
Lemma src_get_by_index_atoms :
  types__ValidatorSet_GetByIndex__if_index_ge_uint32_len_vs_Validators_atoms = ["index : uint32"; "len(vs.Validators) : int"]%string.
Proof. reflexivity. Qed.

(** the vote replaces the stored one iff a majority exists and its key is the vote's key: [maj_is] *)
Lemma src_maj_is vs b :
  maj_is vs b = types__VoteSet_addVerifiedVote__if_voteSet_maj23_ne_nil_and_voteSet_maj23_Key_eq_blockKey
                  (match vs_maj23 vs with Some _ => true | None => false end)
                  (match vs_maj23 vs with Some m => key_eqb m b | None => false end).
Proof. unfold maj_is. destruct (vs_maj23 vs); reflexivity. Qed.
Lemma src_maj_is_atoms :
  types__VoteSet_addVerifiedVote__if_voteSet_maj23_ne_nil_and_voteSet_maj23_Key_eq_blockKey_atoms
  = ["voteSet.maj23 != nil : untyped bool"; "voteSet.maj23.Key() == blockKey : untyped bool"]%string.
Proof. reflexivity. Qed.

(** getVote looks at voteSet.votes first ([existing != nil && key matches]), then at the block's entry *)
Lemma src_get_vote vs i b :
  get_vote vs i b =
  match vote_at (vs_votes vs) i with
  | Some ex => if types__VoteSet_getVote__if_existing_ne_nil_and_existing_BlockID_Key_eq_blockKey true (key_eqb (v_bid ex) b)
               then Some ex
               else match bb_find b (vs_byblock vs) with Some bv => vote_at (bv_votes bv) i | None => None end
  | None => match bb_find b (vs_byblock vs) with Some bv => vote_at (bv_votes bv) i | None => None end
  end.
Proof. unfold get_vote. destruct (vote_at (vs_votes vs) i); reflexivity. Qed.
Lemma src_get_vote_atoms :
  types__VoteSet_getVote__if_existing_ne_nil_and_existing_BlockID_Key_eq_blockKey_atoms
  = ["existing != nil : untyped bool"; "existing.BlockID.Key() == blockKey : untyped bool"]%string.
Proof. reflexivity. Qed.

(** blockVotes.addVerifiedVote: only a free slot is filled, and its sum is an int64 addition *)
Lemma src_bv_add bv i v p :
  bv_sum (bv_add bv i v p) =
  if types__blockVotes_addVerifiedVote__if_existing_eq_nil (match vote_at (bv_votes bv) i with None => true | Some _ => false end)
  then types__blockVotes_addVerifiedVote__set_sum_op (bv_sum bv) p else bv_sum bv.
Proof. unfold bv_add. destruct (vote_at (bv_votes bv) i); reflexivity. Qed.
Lemma src_bv_add_atoms :
  types__blockVotes_addVerifiedVote__set_sum_op_atoms = ["vs.sum : int64"; "votingPower : int64"]%string
  /\ types__blockVotes_addVerifiedVote__if_existing_eq_nil_atoms = ["existing == nil : untyped bool"]%string.
Proof. split; reflexivity. Qed.

(** SetPeerMaj23 stores [true] in the entry's peerMaj23 *)
Lemma src_peer_put : types__VoteSet_SetPeerMaj23__put_votesByBlock_peerMaj23 = true.
Proof. reflexivity. Qed.

(** ** MakeCommit / IsCommit / flags *)
Lemma src_flags :
  Z.of_N FLAG_ABSENT = types__BlockIDFlagAbsent /\ Z.of_N FLAG_COMMIT = types__BlockIDFlagCommit
  /\ Z.of_N FLAG_NIL = types__BlockIDFlagNil
  /\ types__Vote_CommitSig__let_blockIDFlag = Z.of_N FLAG_COMMIT
  /\ types__Vote_CommitSig__let_blockIDFlag_2 = Z.of_N FLAG_NIL.
Proof. repeat split; reflexivity. Qed.
Lemma src_absent flag : types__CommitSig_Absent__ret_cs_BlockIDFlag_eq_BlockIDFlagAbsent (Z.of_N flag) = N.eqb flag FLAG_ABSENT.
Proof. exact (Zof_N_eqb flag FLAG_ABSENT). Qed.
Lemma src_for_block flag : types__CommitSig_ForBlock__ret_cs_BlockIDFlag_eq_BlockIDFlagCommit (Z.of_N flag) = N.eqb flag FLAG_COMMIT.
Proof. exact (Zof_N_eqb flag FLAG_COMMIT). Qed.
Lemma src_precommit_guard t :
  types__VoteSet_MakeCommit__if_voteSet_signedMsgType_ne_kproto_PrecommitType (Z.of_N t) = negb (N.eqb t PRECOMMIT).
Proof. exact (Zof_N_neqb t PRECOMMIT). Qed.
Lemma src_is_commit vs :
  is_commit vs = (negb (types__VoteSet_IsCommit__if_voteSet_signedMsgType_ne_kproto_PrecommitType (Z.of_N (vs_type vs)))
                  && match vs_maj23 vs with Some _ => true | None => false end)%bool.
Proof.
  unfold is_commit, types__VoteSet_IsCommit__if_voteSet_signedMsgType_ne_kproto_PrecommitType.
  change 2 with (Z.of_N PRECOMMIT). rewrite Zof_N_neqb, negb_involutive. reflexivity.
Qed.
(** a for-block signature of another block id is replaced by an absent slot *)
Lemma src_make_commit_exclude flag eqm :
  types__VoteSet_MakeCommit__if_commitSig_ForBlock_and_not_v_BlockID_Equal_mul_voteSet_maj23
    (types__CommitSig_ForBlock__ret_cs_BlockIDFlag_eq_BlockIDFlagCommit (Z.of_N flag)) eqm
  = (N.eqb flag FLAG_COMMIT && negb eqm)%bool.
Proof. rewrite src_for_block. reflexivity. Qed.
Lemma src_make_commit_exclude_atoms :
  types__VoteSet_MakeCommit__if_commitSig_ForBlock_and_not_v_BlockID_Equal_mul_voteSet_maj23_atoms
  = ["commitSig.ForBlock() : bool"; "v.BlockID.Equal(*voteSet.maj23) : bool"]%string.
Proof. reflexivity. Qed.

(** ** Commit.ValidateBasic / CommitSig.ValidateBasic / CommitToVoteSet / NewVoteSet *)
Lemma src_height0 h : types__NewVoteSet__if_height_eq_0 (Z.of_N h) = N.eqb h 0.
Proof. exact (Zof_N_eqb h 0). Qed.
Lemma src_commit_height_ge_1 h : types__Commit_ValidateBasic__if_commit_Height_ge_1 (Z.of_N h) = N.leb 1 h.
Proof.
  unfold types__Commit_ValidateBasic__if_commit_Height_ge_1. rewrite Z.geb_leb.
  destruct (Z.leb_spec 1 (Z.of_N h)); destruct (N.leb_spec 1 h); try reflexivity; lia.
Qed.
Lemma src_commit_validate_basic c :
  commit_validate_basic c =
  if types__Commit_ValidateBasic__if_commit_Height_ge_1 (Z.of_N (c_height c)) then
    (negb (types__Commit_ValidateBasic__if_commit_BlockID_IsZero (bid_is_zero (c_bid c)))
     && negb (types__Commit_ValidateBasic__if_len_commit_Signatures_eq_0 (Z.of_nat (List.length (c_sigs c))))
     && forallb cs_validate_basic (c_sigs c))%bool
  else true.
Proof.
  unfold commit_validate_basic. rewrite src_commit_height_ge_1.
  unfold types__Commit_ValidateBasic__if_commit_BlockID_IsZero, types__Commit_ValidateBasic__if_len_commit_Signatures_eq_0.
  rewrite Zof_nat_eqb0. destruct (c_sigs c); reflexivity.
Qed.
(** an absent slot must be empty; a present slot must carry a signature ([e] = signature length is 0) *)
Lemma src_cs_validate_basic cs n :
  s_empty (cs_sig cs) = Nat.eqb n 0 ->
  cs_validate_basic cs =
  if types__CommitSig_Absent__ret_cs_BlockIDFlag_eq_BlockIDFlagAbsent (Z.of_N (cs_flag cs)) then
    (negb (types__CommitSig_ValidateBasic__if_not_cs_ValidatorAddress_Equal_common_Address (N.eqb (cs_addr cs) 0))
     && negb (types__CommitSig_ValidateBasic__if_not_cs_Timestamp_IsZero (N.eqb (cs_time cs) 0))
     && negb (types__CommitSig_ValidateBasic__if_len_cs_Signature_ne_0 (Z.of_nat n)))%bool
  else if (N.eqb (cs_flag cs) FLAG_COMMIT || N.eqb (cs_flag cs) FLAG_NIL)%bool then
    negb (types__CommitSig_ValidateBasic__if_len_cs_Signature_eq_0 (Z.of_nat n))
  else false.
Proof.
  intros He. unfold cs_validate_basic. rewrite src_absent.
  unfold types__CommitSig_ValidateBasic__if_not_cs_ValidatorAddress_Equal_common_Address,
    types__CommitSig_ValidateBasic__if_not_cs_Timestamp_IsZero,
    types__CommitSig_ValidateBasic__if_len_cs_Signature_ne_0,
    types__CommitSig_ValidateBasic__if_len_cs_Signature_eq_0, go_neqb.
  rewrite Zof_nat_eqb0, <- He, !negb_involutive. reflexivity.
Qed.
(** CommitToVoteSet panics unless the slot was added without error *)
Lemma src_ctv_guard (added : bool) (e : verr) :
  (match e with ENone => if added then false else true | _ => true end)
  = types__CommitToVoteSet__if_not_added_or_err_ne_nil added (match e with ENone => false | _ => true end).
Proof. destruct e, added; reflexivity. Qed.
Lemma src_ctv_guard_atoms :
  types__CommitToVoteSet__if_not_added_or_err_ne_nil_atoms = ["added : bool"; "err != nil : bool"]%string.
Proof. reflexivity. Qed.
(** Vote.ValidateBasic's block-id rule is the wire-validity hypothesis of C02_commit_roundtrip *)
Lemma src_wire_valid b :
  negb (types__Vote_ValidateBasic__if_not_vote_BlockID_IsZero_and_not_vote_BlockID_IsComplete (bid_is_zero b) (bid_is_complete b))
  = (bid_is_zero b || bid_is_complete b)%bool.
Proof. unfold types__Vote_ValidateBasic__if_not_vote_BlockID_IsZero_and_not_vote_BlockID_IsComplete. destruct (bid_is_zero b), (bid_is_complete b); reflexivity. Qed.

(** ** VerifyCommit: the tally starts at the constant the source assigns *)
Lemma src_verify_commit_start vals chain want h c :
  verify_commit vals chain want h c =
  if negb (commit_validate_basic c) then CBasic
  else if negb (Nat.eqb (List.length vals) (List.length (c_sigs c))) then CSize
  else if negb (N.eqb h (c_height c)) then CHeight
  else if negb (bid_eqb want (c_bid c)) then CBlockID
  else match tally chain (c_height c) (c_round c) (c_bid c) want vals (c_sigs c)
                   types__ValidatorSet_VerifyCommit__let_talliedVotingPower with
       | TSig => CSig
       | TAddr => CAddr
       | TOk got => if types__ValidatorSet_VerifyCommit__if_got_le_needed got
                          (types__ValidatorSet_VerifyCommit__set_votingPowerNeeded (total_power vals))
                    then CPower else COk
       end.
Proof. reflexivity. Qed.
Lemma src_height_guard h h' : types__ValidatorSet_VerifyCommit__if_height_ne_commit_GetHeight (Z.of_N h) (Z.of_N h') = negb (N.eqb h h').
Proof. exact (Zof_N_neqb h h'). Qed.

(** ** updateTotalVotingPower: the fold of safeAddClip from the constant the source assigns *)
Lemma safe_add_clip_in_range a b : in_range I64 (safe_add_clip a b).
Proof.
  unfold safe_add_clip, in_range, max_int64, min_int64, two63. cbv zeta.
  repeat match goal with |- context [Z.ltb ?x ?y] => destruct (Z.ltb_spec x y) end; lia.
Qed.
Lemma src_total_power_fold vals : forall acc,
  in_range I64 acc -> Forall (fun v => in_range I64 (val_power v)) vals ->
  fold_left (fun a v => safe_add_clip a (val_power v)) vals acc
  = fold_left (fun a v => types__ValidatorSet_updateTotalVotingPower__let_sum_2 (types__safeAddClip a (val_power v))) vals acc.
Proof.
  induction vals as [|v t IH]; intros acc Ha Hf; [reflexivity|].
  inversion Hf as [|? ? Hv Ht]; subst. cbn [fold_left].
  unfold types__ValidatorSet_updateTotalVotingPower__let_sum_2 at 2.
  rewrite (src_safeAddClip acc (val_power v) Ha Hv).
  apply IH; [apply safe_add_clip_in_range|exact Ht].
Qed.
Lemma src_total_power vals :
  Forall (fun v => in_range I64 (val_power v)) vals ->
  total_power vals
  = types__ValidatorSet_updateTotalVotingPower__put_vs_totalVotingPower
      (fold_left (fun a v => types__ValidatorSet_updateTotalVotingPower__let_sum_2 (types__safeAddClip a (val_power v)))
                 vals types__ValidatorSet_updateTotalVotingPower__let_sum).
Proof.
  intros Hf. unfold total_power, types__ValidatorSet_updateTotalVotingPower__put_vs_totalVotingPower,
    types__ValidatorSet_updateTotalVotingPower__let_sum.
  apply src_total_power_fold; [unfold in_range; lia|exact Hf].
Qed.
Lemma src_total_power_atoms :
  types__ValidatorSet_updateTotalVotingPower__let_sum_2_atoms = ["safeAddClip(sum, val.VotingPower) : int64"]%string
  /\ types__ValidatorSet_updateTotalVotingPower__put_vs_totalVotingPower_atoms = ["sum : int64"]%string
  /\ types__ValidatorSet_TotalVotingPower__if_vs_totalVotingPower_eq_0_atoms = ["vs.totalVotingPower : int64"]%string.
Proof. repeat split; reflexivity. Qed.

(** ** block ids down to the parts header *)
Lemma src_bid_is_zero_full b :
  bid_is_zero b = types__BlockID_IsZero__ret_blockID_Hash_IsZero_and_blockID_PartsHeader_IsZero (N.eqb (b_hash b) 0)
                    (types__PartSetHeader_IsZero__ret_psh_Total_eq_0_and_psh_Hash_IsZero (Z.of_N (b_total b)) (N.eqb (b_phash b) 0)).
Proof.
  unfold bid_is_zero, types__BlockID_IsZero__ret_blockID_Hash_IsZero_and_blockID_PartsHeader_IsZero,
    types__PartSetHeader_IsZero__ret_psh_Total_eq_0_and_psh_Hash_IsZero.
  change 0 with (Z.of_N 0) at 1. rewrite Zof_N_eqb. reflexivity.
Qed.
Lemma src_bid_eqb_full a b :
  bid_eqb a b = types__BlockID_Equal__ret_blockID_Hash_Equal_other_Hash_and_blockID_PartsHeader_Equals_d815eb38
                  (N.eqb (b_hash a) (b_hash b))
                  (types__PartSetHeader_Equals__ret_psh_Total_eq_other_Total_and_common_Hash_Equal_psh_Hash_other_Hash
                     (Z.of_N (b_total a)) (Z.of_N (b_total b)) (N.eqb (b_phash a) (b_phash b))).
Proof.
  unfold bid_eqb, types__BlockID_Equal__ret_blockID_Hash_Equal_other_Hash_and_blockID_PartsHeader_Equals_d815eb38,
    types__PartSetHeader_Equals__ret_psh_Total_eq_other_Total_and_common_Hash_Equal_psh_Hash_other_Hash.
  rewrite Zof_N_eqb, andb_assoc. reflexivity.
Qed.
Lemma src_psh_atoms :
  types__PartSetHeader_IsZero__ret_psh_Total_eq_0_and_psh_Hash_IsZero_atoms = ["psh.Total : uint32"; "psh.Hash.IsZero() : bool"]%string
  /\ types__PartSetHeader_Equals__ret_psh_Total_eq_other_Total_and_common_Hash_Equal_psh_Hash_other_Hash_atoms
     = ["psh.Total : uint32"; "other.Total : uint32"; "common.Hash.Equal(psh.Hash, other.Hash) : bool"]%string.
Proof. split; reflexivity. Qed.

(** ** HeightVoteSet *)
(** NewHeightVoteSet starts at round 1 *)
Lemma src_hvs_new_round chain h vals s :
  hvs_new chain h vals = Some s -> Z.of_N (h_round s) = consensus_types__NewHeightVoteSet__put_hvs_round.
Proof.
  unfold hvs_new. destruct (hvs_add_round _ 1) as [s0|]; [|discriminate]. intros E; injection E as <-. reflexivity.
Qed.
(** SetRound: newRound is hvs.round - 1 in uint32 (0 wraps to MaxUint32) *)
Lemma src_pred32 r : Z.of_N r <= 4294967295 -> Z.of_N (pred32 r) = consensus_types__HeightVoteSet_SetRound__set_newRound (Z.of_N r).
Proof.
  intros Hr. unfold pred32, consensus_types__HeightVoteSet_SetRound__set_newRound, go_sub, wrap, U32MAX.
  destruct (N.eqb_spec r 0) as [->|Hne]; [reflexivity|].
  rewrite Z.mod_small by lia. lia.
Qed.
Lemma src_setround_guard hr r nr :
  consensus_types__HeightVoteSet_SetRound__if_hvs_round_ne_1_and_round_lt_newRound (Z.of_N hr) (Z.of_N r) (Z.of_N nr)
  = (negb (N.eqb hr 1) && N.ltb r nr)%bool.
Proof.
  unfold consensus_types__HeightVoteSet_SetRound__if_hvs_round_ne_1_and_round_lt_newRound.
  change 1 with (Z.of_N 1). rewrite Zof_N_neqb. f_equal.
  destruct (Z.ltb_spec (Z.of_N r) (Z.of_N nr)); destruct (N.ltb_spec r nr); try reflexivity; lia.
Qed.
Lemma src_setround_guard_atoms :
  consensus_types__HeightVoteSet_SetRound__if_hvs_round_ne_1_and_round_lt_newRound_atoms
  = ["hvs.round : uint32"; "round : uint32"; "newRound : uint32"]%string
  /\ consensus_types__HeightVoteSet_SetRound__set_newRound_atoms = ["hvs.round : uint32"]%string
  /\ consensus_types__HeightVoteSet_SetRound__forinit_r_atoms = ["newRound : uint32"]%string
  /\ consensus_types__HeightVoteSet_SetRound__for_r_le_round_atoms = ["r : uint32"; "round : uint32"]%string
  /\ consensus_types__HeightVoteSet_SetRound__put_hvs_round_atoms = ["round : uint32"]%string.
Proof. repeat split; reflexivity. Qed.
(** the loop [for r := newRound; r <= round; r++] runs exactly the model's count of iterations *)
Lemma src_setround_count nr round k :
  (k < N.to_nat (N.succ round - nr))%nat <->
  consensus_types__HeightVoteSet_SetRound__for_r_le_round
    (consensus_types__HeightVoteSet_SetRound__forinit_r (Z.of_N nr) + Z.of_nat k) (Z.of_N round) = true.
Proof.
  unfold consensus_types__HeightVoteSet_SetRound__for_r_le_round, consensus_types__HeightVoteSet_SetRound__forinit_r.
  rewrite Z.leb_le. lia.
Qed.
Lemma src_setround_incr r : Z.of_N r < 4294967295 ->
  consensus_types__HeightVoteSet_SetRound__set_r_op (Z.of_N r) = Z.of_N (N.succ r).
Proof.
  intros Hr. unfold consensus_types__HeightVoteSet_SetRound__set_r_op, go_add, wrap.
  rewrite Z.mod_small by lia. lia.
Qed.
(** a peer may open a round through AddVote while it has opened fewer than two *)
Lemma src_catchup_guard (l : list N) :
  consensus_types__HeightVoteSet_AddVote__if_len_rndz_lt_2 (Z.of_nat (List.length l)) = Nat.ltb (List.length l) 2.
Proof.
  unfold consensus_types__HeightVoteSet_AddVote__if_len_rndz_lt_2.
  destruct (Z.ltb_spec (Z.of_nat (List.length l)) 2); destruct (Nat.ltb_spec (List.length l) 2); try reflexivity; lia.
Qed.
Lemma src_catchup_guard_atoms :
  consensus_types__HeightVoteSet_AddVote__if_len_rndz_lt_2_atoms = ["len(rndz) : int"]%string.
Proof. reflexivity. Qed.
(** POLInfo scans r = hvs.round, hvs.round-1, ..., 1 *)
Lemma src_pol_for k :
  consensus_types__HeightVoteSet_POLInfo__for_r_ge_1 (Z.of_nat k) = match k with O => false | S _ => true end.
Proof.
  unfold consensus_types__HeightVoteSet_POLInfo__for_r_ge_1. rewrite Z.geb_leb.
  destruct k; [reflexivity|]. destruct (Z.leb_spec 1 (Z.of_nat (S k))); [reflexivity|lia].
Qed.
Lemma src_pol_decr k : Z.of_nat (S k) <= 4294967295 ->
  consensus_types__HeightVoteSet_POLInfo__set_r_op (Z.of_nat (S k)) = Z.of_nat k.
Proof.
  intros Hk. unfold consensus_types__HeightVoteSet_POLInfo__set_r_op, go_sub, wrap.
  rewrite Z.mod_small by lia. lia.
Qed.
Lemma src_pol_atoms :
  consensus_types__HeightVoteSet_POLInfo__forinit_r_atoms = ["hvs.round : uint32"]%string
  /\ consensus_types__HeightVoteSet_POLInfo__for_r_ge_1_atoms = ["r : uint32"]%string
  /\ consensus_types__HeightVoteSet_POLInfo__set_r_op_atoms = ["r : uint32"]%string.
Proof. repeat split; reflexivity. Qed.
(** [pol_scan] is that loop: one unfolding per iteration *)
Lemma src_pol_scan s k :
  pol_scan s k =
  if consensus_types__HeightVoteSet_POLInfo__for_r_ge_1 (Z.of_nat k) then
    match get_vs s (N.of_nat k) PREVOTE with
    | Some vs => match vs_maj23 vs with
                 | Some b => (N.of_nat k, b)
                 | None => pol_scan s (Nat.pred k)
                 end
    | None => pol_scan s (Nat.pred k)
    end
  else (0%N, bid_zero).
Proof. rewrite src_pol_for. destruct k; reflexivity. Qed.

(** ** Vote.ValidateBasic / Vote.Verify *)
Lemma src_vote_validate_basic v n :
  s_empty (v_sig v) = Nat.eqb n 0 ->
  vote_validate_basic v =
  (negb (types__Vote_ValidateBasic__if_not_IsVoteTypeValid_vote_Type (type_valid (v_type v)))
   && negb (types__Vote_ValidateBasic__if_not_vote_BlockID_IsZero_and_not_vote_BlockID_IsComplete (bid_is_zero (v_bid v)) (bid_is_complete (v_bid v)))
   && negb (types__Vote_ValidateBasic__if_len_vote_Signature_eq_0 (Z.of_nat n)))%bool.
Proof.
  intros He. unfold vote_validate_basic, types__Vote_ValidateBasic__if_not_IsVoteTypeValid_vote_Type,
    types__Vote_ValidateBasic__if_len_vote_Signature_eq_0.
  rewrite src_wire_valid, Zof_nat_eqb0, <- He, negb_involutive. reflexivity.
Qed.
Lemma src_vote_verify chain addr v :
  vote_verify chain addr v =
  if types__Vote_Verify__if_not_vote_ValidatorAddress_Equal_address (N.eqb (v_addr v) addr) then VVAddr
  else if types__Vote_Verify__if_not_VerifySignature_address_crypto_Keccak256_signBytes_vote_Signature (vote_sig_valid chain addr v)
       then VVSig else VVOk.
Proof.
  unfold vote_verify, types__Vote_Verify__if_not_vote_ValidatorAddress_Equal_address,
    types__Vote_Verify__if_not_VerifySignature_address_crypto_Keccak256_signBytes_vote_Signature.
  destruct (negb (N.eqb (v_addr v) addr)); [reflexivity|]. destruct (vote_sig_valid chain addr v); reflexivity.
Qed.

(** ** tagged switches (go2coq third revision): vote type and BlockIDFlag dispatch *)
Lemma src_type_valid t :
  type_valid t = (types__IsVoteTypeValid__case_t_eq_kproto_PrevoteType (Z.of_N t)
                  || types__IsVoteTypeValid__case_t_eq_kproto_PrecommitType (Z.of_N t))%bool.
Proof.
  unfold type_valid, types__IsVoteTypeValid__case_t_eq_kproto_PrevoteType, types__IsVoteTypeValid__case_t_eq_kproto_PrecommitType.
  change 1 with (Z.of_N PREVOTE). change 2 with (Z.of_N PRECOMMIT). rewrite !Zof_N_eqb. reflexivity.
Qed.
(** CommitSig.BlockID: absent -> nil id, commit -> the commit's id, nil -> nil id, anything else panics *)
Lemma src_cs_blockid cs cb :
  cs_blockid cs cb =
  if types__CommitSig_BlockID__case_cs_BlockIDFlag_eq_BlockIDFlagAbsent (Z.of_N (cs_flag cs)) then Some bid_zero
  else if types__CommitSig_BlockID__case_cs_BlockIDFlag_eq_BlockIDFlagCommit (Z.of_N (cs_flag cs)) then Some cb
  else if types__CommitSig_BlockID__case_cs_BlockIDFlag_eq_BlockIDFlagNil (Z.of_N (cs_flag cs)) then Some bid_zero
  else None.
Proof.
  unfold cs_blockid, types__CommitSig_BlockID__case_cs_BlockIDFlag_eq_BlockIDFlagAbsent,
    types__CommitSig_BlockID__case_cs_BlockIDFlag_eq_BlockIDFlagCommit, types__CommitSig_BlockID__case_cs_BlockIDFlag_eq_BlockIDFlagNil.
  change 1 with (Z.of_N FLAG_ABSENT). change 2 with (Z.of_N FLAG_COMMIT). change 3 with (Z.of_N FLAG_NIL).
  rewrite !Zof_N_eqb. reflexivity.
Qed.
(** CommitSig.ValidateBasic: first switch = the flag is one of the three, second switch = absent or not *)
Lemma src_cs_validate_basic_switch cs n :
  s_empty (cs_sig cs) = Nat.eqb n 0 ->
  cs_validate_basic cs =
  if negb (types__CommitSig_ValidateBasic__case_cs_BlockIDFlag_eq_BlockIDFlagAbsent (Z.of_N (cs_flag cs))
           || types__CommitSig_ValidateBasic__case_cs_BlockIDFlag_eq_BlockIDFlagCommit (Z.of_N (cs_flag cs))
           || types__CommitSig_ValidateBasic__case_cs_BlockIDFlag_eq_BlockIDFlagNil (Z.of_N (cs_flag cs))) then false
  else if types__CommitSig_ValidateBasic__case_cs_BlockIDFlag_eq_BlockIDFlagAbsent_2 (Z.of_N (cs_flag cs)) then
    (negb (types__CommitSig_ValidateBasic__if_not_cs_ValidatorAddress_Equal_common_Address (N.eqb (cs_addr cs) 0))
     && negb (types__CommitSig_ValidateBasic__if_not_cs_Timestamp_IsZero (N.eqb (cs_time cs) 0))
     && negb (types__CommitSig_ValidateBasic__if_len_cs_Signature_ne_0 (Z.of_nat n)))%bool
  else negb (types__CommitSig_ValidateBasic__if_len_cs_Signature_eq_0 (Z.of_nat n)).
Proof.
  intros He. rewrite (src_cs_validate_basic cs n He), src_absent.
  unfold types__CommitSig_ValidateBasic__case_cs_BlockIDFlag_eq_BlockIDFlagAbsent,
    types__CommitSig_ValidateBasic__case_cs_BlockIDFlag_eq_BlockIDFlagCommit,
    types__CommitSig_ValidateBasic__case_cs_BlockIDFlag_eq_BlockIDFlagNil,
    types__CommitSig_ValidateBasic__case_cs_BlockIDFlag_eq_BlockIDFlagAbsent_2.
  change 1 with (Z.of_N FLAG_ABSENT). change 2 with (Z.of_N FLAG_COMMIT). change 3 with (Z.of_N FLAG_NIL).
  rewrite !Zof_N_eqb.
  destruct (N.eqb (cs_flag cs) FLAG_ABSENT); [reflexivity|]. cbn [orb].
  destruct (N.eqb (cs_flag cs) FLAG_COMMIT || N.eqb (cs_flag cs) FLAG_NIL)%bool; reflexivity.
Qed.
(** HeightVoteSet.getVoteSet: prevote -> the round's prevotes, precommit -> its precommits *)
Lemma src_get_vs s r ty :
  type_valid ty = true ->
  get_vs s r ty =
  match rs_find r (h_sets s) with
  | None => None
  | Some rv =>
    if consensus_types__HeightVoteSet_getVoteSet__case_signedMsgType_eq_kproto_PrevoteType (Z.of_N ty) then Some (rv_pre rv)
    else if consensus_types__HeightVoteSet_getVoteSet__case_signedMsgType_eq_kproto_PrecommitType (Z.of_N ty) then Some (rv_com rv)
    else None
  end.
Proof.
  intros Hty. unfold get_vs, consensus_types__HeightVoteSet_getVoteSet__case_signedMsgType_eq_kproto_PrevoteType,
    consensus_types__HeightVoteSet_getVoteSet__case_signedMsgType_eq_kproto_PrecommitType.
  change 1 with (Z.of_N PREVOTE). change 2 with (Z.of_N PRECOMMIT). rewrite !Zof_N_eqb.
  destruct (rs_find r (h_sets s)); [|reflexivity]. unfold type_valid in Hty.
  destruct (N.eqb ty PREVOTE); [reflexivity|]. cbn [orb] in Hty. rewrite Hty. reflexivity.
Qed.
Lemma src_switch_atoms :
  types__IsVoteTypeValid__case_t_eq_kproto_PrevoteType_atoms = ["t : github.com/kardiachain/go-kardia/proto/kardiachain/types.SignedMsgType"]%string
  /\ types__CommitSig_BlockID__case_cs_BlockIDFlag_eq_BlockIDFlagCommit_atoms = ["cs.BlockIDFlag : github.com/kardiachain/go-kardia/types.BlockIDFlag"]%string
  /\ types__CommitSig_ValidateBasic__case_cs_BlockIDFlag_eq_BlockIDFlagAbsent_2_atoms = ["cs.BlockIDFlag : github.com/kardiachain/go-kardia/types.BlockIDFlag"]%string
  /\ consensus_types__HeightVoteSet_getVoteSet__case_signedMsgType_eq_kproto_PrevoteType_atoms
     = ["signedMsgType : github.com/kardiachain/go-kardia/proto/kardiachain/types.SignedMsgType"]%string.
Proof. repeat split; reflexivity. Qed.

(** ** the second part as one statement *)
Definition C02_source_tie2_statement : Prop :=
  (* every single-atom condition of the anchored functions: atom and polarity *)
  (pins_VoteSet_addVote /\ pins_VoteSet_addVerifiedVote /\ pins_VoteSet_HasTwoThirdsAny /\ pins_VoteSet_MakeCommit
   /\ pins_ValidatorSet_VerifyCommit /\ pins_VoteSet_getVote /\ pins_VoteSet_SetPeerMaj23 /\ pins_VoteSet_TwoThirdsMajority
   /\ pins_VoteSet_HasTwoThirdsMajority /\ pins_VoteSet_IsCommit /\ pins_VoteSet_GetByIndex /\ pins_VoteSet_BitArrayByBlockID
   /\ pins_blockVotes_addVerifiedVote /\ pins_blockVotes_getByIndex /\ pins_Vote_CommitSig /\ pins_Vote_Verify
   /\ pins_Vote_ValidateBasic /\ pins_CommitSig_ValidateBasic /\ pins_Commit_ValidateBasic /\ pins_Commit_Size
   /\ pins_CommitToVoteSet /\ pins_HeightVoteSet_addRound /\ pins_HeightVoteSet_SetRound /\ pins_HeightVoteSet_AddVote
   /\ pins_HeightVoteSet_getVoteSet /\ pins_HeightVoteSet_SetPeerMaj23 /\ pins_HeightVoteSet_POLInfo)
  (* vote set *)
  /\ (forall vs, add_vote_o vs None = (vs, false, None))
  /\ (forall i, types__VoteSet_addVote__if_valIndex_lt_0 (Z.of_N i) = false)
  /\ (forall h h' r r' t t',
        types__VoteSet_addVote__if_vote_Height_ne_voteSet_height_or_vote_Round_ne_voteSet_round_5947c832
          (Z.of_N h) (Z.of_N h') (Z.of_N r) (Z.of_N r') (Z.of_N t) (Z.of_N t')
        = negb (N.eqb h h' && N.eqb r r' && N.eqb t t'))
  /\ (forall (vals : list validator) i, Z.of_nat (List.length vals) <= 4294967295 ->
        types__ValidatorSet_GetByIndex__if_index_ge_uint32_len_vs_Validators (Z.of_N i) (Z.of_nat (List.length vals))
        = match nth_error vals (N.to_nat i) with None => true | Some _ => false end)
  /\ (forall vs b,
        maj_is vs b = types__VoteSet_addVerifiedVote__if_voteSet_maj23_ne_nil_and_voteSet_maj23_Key_eq_blockKey
                        (match vs_maj23 vs with Some _ => true | None => false end)
                        (match vs_maj23 vs with Some m => key_eqb m b | None => false end))
  /\ (forall bv i v p,
        bv_sum (bv_add bv i v p) =
        if types__blockVotes_addVerifiedVote__if_existing_eq_nil (match vote_at (bv_votes bv) i with None => true | Some _ => false end)
        then types__blockVotes_addVerifiedVote__set_sum_op (bv_sum bv) p else bv_sum bv)
  /\ (forall s p, types__blockVotes_addVerifiedVote__set_sum_op s p = wrap64 (s + p))
  /\ types__VoteSet_SetPeerMaj23__put_votesByBlock_peerMaj23 = true
  (* commits *)
  /\ (Z.of_N FLAG_ABSENT = types__BlockIDFlagAbsent /\ Z.of_N FLAG_COMMIT = types__BlockIDFlagCommit
      /\ Z.of_N FLAG_NIL = types__BlockIDFlagNil
      /\ types__Vote_CommitSig__let_blockIDFlag = Z.of_N FLAG_COMMIT
      /\ types__Vote_CommitSig__let_blockIDFlag_2 = Z.of_N FLAG_NIL)
  /\ (forall flag, types__CommitSig_Absent__ret_cs_BlockIDFlag_eq_BlockIDFlagAbsent (Z.of_N flag) = N.eqb flag FLAG_ABSENT)
  /\ (forall flag, types__CommitSig_ForBlock__ret_cs_BlockIDFlag_eq_BlockIDFlagCommit (Z.of_N flag) = N.eqb flag FLAG_COMMIT)
  /\ (forall t, types__VoteSet_MakeCommit__if_voteSet_signedMsgType_ne_kproto_PrecommitType (Z.of_N t) = negb (N.eqb t PRECOMMIT))
  /\ (forall vs, is_commit vs = (negb (types__VoteSet_IsCommit__if_voteSet_signedMsgType_ne_kproto_PrecommitType (Z.of_N (vs_type vs)))
                                 && match vs_maj23 vs with Some _ => true | None => false end)%bool)
  /\ (forall flag eqm,
        types__VoteSet_MakeCommit__if_commitSig_ForBlock_and_not_v_BlockID_Equal_mul_voteSet_maj23
          (types__CommitSig_ForBlock__ret_cs_BlockIDFlag_eq_BlockIDFlagCommit (Z.of_N flag)) eqm
        = (N.eqb flag FLAG_COMMIT && negb eqm)%bool)
  /\ (forall h, types__NewVoteSet__if_height_eq_0 (Z.of_N h) = N.eqb h 0)
  /\ (forall c,
        commit_validate_basic c =
        if types__Commit_ValidateBasic__if_commit_Height_ge_1 (Z.of_N (c_height c)) then
          (negb (types__Commit_ValidateBasic__if_commit_BlockID_IsZero (bid_is_zero (c_bid c)))
           && negb (types__Commit_ValidateBasic__if_len_commit_Signatures_eq_0 (Z.of_nat (List.length (c_sigs c))))
           && forallb cs_validate_basic (c_sigs c))%bool
        else true)
  /\ (forall cs n, s_empty (cs_sig cs) = Nat.eqb n 0 ->
        cs_validate_basic cs =
        if types__CommitSig_Absent__ret_cs_BlockIDFlag_eq_BlockIDFlagAbsent (Z.of_N (cs_flag cs)) then
          (negb (types__CommitSig_ValidateBasic__if_not_cs_ValidatorAddress_Equal_common_Address (N.eqb (cs_addr cs) 0))
           && negb (types__CommitSig_ValidateBasic__if_not_cs_Timestamp_IsZero (N.eqb (cs_time cs) 0))
           && negb (types__CommitSig_ValidateBasic__if_len_cs_Signature_ne_0 (Z.of_nat n)))%bool
        else if (N.eqb (cs_flag cs) FLAG_COMMIT || N.eqb (cs_flag cs) FLAG_NIL)%bool then
          negb (types__CommitSig_ValidateBasic__if_len_cs_Signature_eq_0 (Z.of_nat n))
        else false)
  /\ (forall (added : bool) (e : verr),
        (match e with ENone => if added then false else true | _ => true end)
        = types__CommitToVoteSet__if_not_added_or_err_ne_nil added (match e with ENone => false | _ => true end))
  /\ (forall b,
        negb (types__Vote_ValidateBasic__if_not_vote_BlockID_IsZero_and_not_vote_BlockID_IsComplete (bid_is_zero b) (bid_is_complete b))
        = (bid_is_zero b || bid_is_complete b)%bool)
  /\ (forall v n, s_empty (v_sig v) = Nat.eqb n 0 ->
        vote_validate_basic v =
        (negb (types__Vote_ValidateBasic__if_not_IsVoteTypeValid_vote_Type (type_valid (v_type v)))
         && negb (types__Vote_ValidateBasic__if_not_vote_BlockID_IsZero_and_not_vote_BlockID_IsComplete (bid_is_zero (v_bid v)) (bid_is_complete (v_bid v)))
         && negb (types__Vote_ValidateBasic__if_len_vote_Signature_eq_0 (Z.of_nat n)))%bool)
  /\ (forall chain addr v,
        vote_verify chain addr v =
        if types__Vote_Verify__if_not_vote_ValidatorAddress_Equal_address (N.eqb (v_addr v) addr) then VVAddr
        else if types__Vote_Verify__if_not_VerifySignature_address_crypto_Keccak256_signBytes_vote_Signature (vote_sig_valid chain addr v)
             then VVSig else VVOk)
  /\ (forall t, type_valid t = (types__IsVoteTypeValid__case_t_eq_kproto_PrevoteType (Z.of_N t)
                                || types__IsVoteTypeValid__case_t_eq_kproto_PrecommitType (Z.of_N t))%bool)
  /\ (forall cs cb,
        cs_blockid cs cb =
        if types__CommitSig_BlockID__case_cs_BlockIDFlag_eq_BlockIDFlagAbsent (Z.of_N (cs_flag cs)) then Some bid_zero
        else if types__CommitSig_BlockID__case_cs_BlockIDFlag_eq_BlockIDFlagCommit (Z.of_N (cs_flag cs)) then Some cb
        else if types__CommitSig_BlockID__case_cs_BlockIDFlag_eq_BlockIDFlagNil (Z.of_N (cs_flag cs)) then Some bid_zero
        else None)
  /\ (forall cs n, s_empty (cs_sig cs) = Nat.eqb n 0 ->
        cs_validate_basic cs =
        if negb (types__CommitSig_ValidateBasic__case_cs_BlockIDFlag_eq_BlockIDFlagAbsent (Z.of_N (cs_flag cs))
                 || types__CommitSig_ValidateBasic__case_cs_BlockIDFlag_eq_BlockIDFlagCommit (Z.of_N (cs_flag cs))
                 || types__CommitSig_ValidateBasic__case_cs_BlockIDFlag_eq_BlockIDFlagNil (Z.of_N (cs_flag cs))) then false
        else if types__CommitSig_ValidateBasic__case_cs_BlockIDFlag_eq_BlockIDFlagAbsent_2 (Z.of_N (cs_flag cs)) then
          (negb (types__CommitSig_ValidateBasic__if_not_cs_ValidatorAddress_Equal_common_Address (N.eqb (cs_addr cs) 0))
           && negb (types__CommitSig_ValidateBasic__if_not_cs_Timestamp_IsZero (N.eqb (cs_time cs) 0))
           && negb (types__CommitSig_ValidateBasic__if_len_cs_Signature_ne_0 (Z.of_nat n)))%bool
        else negb (types__CommitSig_ValidateBasic__if_len_cs_Signature_eq_0 (Z.of_nat n)))
  /\ (forall s r ty, type_valid ty = true ->
        get_vs s r ty =
        match rs_find r (h_sets s) with
        | None => None
        | Some rv =>
          if consensus_types__HeightVoteSet_getVoteSet__case_signedMsgType_eq_kproto_PrevoteType (Z.of_N ty) then Some (rv_pre rv)
          else if consensus_types__HeightVoteSet_getVoteSet__case_signedMsgType_eq_kproto_PrecommitType (Z.of_N ty) then Some (rv_com rv)
          else None
        end)
  /\ types__ValidatorSet_VerifyCommit__let_talliedVotingPower = 0
  /\ (forall n m, types__ValidatorSet_VerifyCommit__if_vs_Size_ne_len_commit_Signatures (Z.of_nat n) (Z.of_nat m) = negb (Nat.eqb n m))
  /\ (forall h h', types__ValidatorSet_VerifyCommit__if_height_ne_commit_GetHeight (Z.of_N h) (Z.of_N h') = negb (N.eqb h h'))
  (* total power, block ids *)
  /\ (forall vals, Forall (fun v => in_range I64 (val_power v)) vals ->
        total_power vals
        = types__ValidatorSet_updateTotalVotingPower__put_vs_totalVotingPower
            (fold_left (fun a v => types__ValidatorSet_updateTotalVotingPower__let_sum_2 (types__safeAddClip a (val_power v)))
                       vals types__ValidatorSet_updateTotalVotingPower__let_sum))
  /\ (forall b,
        bid_is_zero b = types__BlockID_IsZero__ret_blockID_Hash_IsZero_and_blockID_PartsHeader_IsZero (N.eqb (b_hash b) 0)
                          (types__PartSetHeader_IsZero__ret_psh_Total_eq_0_and_psh_Hash_IsZero (Z.of_N (b_total b)) (N.eqb (b_phash b) 0)))
  /\ (forall b,
        bid_is_complete b = types__BlockID_IsComplete__ret_not_blockID_Hash_IsZero_and_not_blockID_PartsHeader_IsZero (N.eqb (b_hash b) 0)
                              (types__PartSetHeader_IsZero__ret_psh_Total_eq_0_and_psh_Hash_IsZero (Z.of_N (b_total b)) (N.eqb (b_phash b) 0)))
  /\ (forall a b,
        bid_eqb a b = types__BlockID_Equal__ret_blockID_Hash_Equal_other_Hash_and_blockID_PartsHeader_Equals_d815eb38
                        (N.eqb (b_hash a) (b_hash b))
                        (types__PartSetHeader_Equals__ret_psh_Total_eq_other_Total_and_common_Hash_Equal_psh_Hash_other_Hash
                           (Z.of_N (b_total a)) (Z.of_N (b_total b)) (N.eqb (b_phash a) (b_phash b))))
  (* HeightVoteSet *)
  /\ (forall chain h vals s, hvs_new chain h vals = Some s -> Z.of_N (h_round s) = consensus_types__NewHeightVoteSet__put_hvs_round)
  /\ (forall r, Z.of_N r <= 4294967295 -> Z.of_N (pred32 r) = consensus_types__HeightVoteSet_SetRound__set_newRound (Z.of_N r))
  /\ (forall hr r nr,
        consensus_types__HeightVoteSet_SetRound__if_hvs_round_ne_1_and_round_lt_newRound (Z.of_N hr) (Z.of_N r) (Z.of_N nr)
        = (negb (N.eqb hr 1) && N.ltb r nr)%bool)
  /\ (forall nr round k,
        (k < N.to_nat (N.succ round - nr))%nat <->
        consensus_types__HeightVoteSet_SetRound__for_r_le_round
          (consensus_types__HeightVoteSet_SetRound__forinit_r (Z.of_N nr) + Z.of_nat k) (Z.of_N round) = true)
  /\ (forall r, Z.of_N r < 4294967295 -> consensus_types__HeightVoteSet_SetRound__set_r_op (Z.of_N r) = Z.of_N (N.succ r))
  /\ (forall r, consensus_types__HeightVoteSet_SetRound__put_hvs_round r = r)
  /\ (forall l : list N, consensus_types__HeightVoteSet_AddVote__if_len_rndz_lt_2 (Z.of_nat (List.length l)) = Nat.ltb (List.length l) 2)
  /\ (forall s k,
        pol_scan s k =
        if consensus_types__HeightVoteSet_POLInfo__for_r_ge_1 (Z.of_nat k) then
          match get_vs s (N.of_nat k) PREVOTE with
          | Some vs => match vs_maj23 vs with
                       | Some b => (N.of_nat k, b)
                       | None => pol_scan s (Nat.pred k)
                       end
          | None => pol_scan s (Nat.pred k)
          end
        else (0%N, bid_zero))
  /\ (forall k, Z.of_nat (S k) <= 4294967295 -> consensus_types__HeightVoteSet_POLInfo__set_r_op (Z.of_nat (S k)) = Z.of_nat k)
  /\ (forall r, consensus_types__HeightVoteSet_POLInfo__forinit_r r = r)
  (* operand names of the new arithmetic *)
  /\ (types__ValidatorSet_GetByIndex__if_index_ge_uint32_len_vs_Validators_atoms = ["index : uint32"; "len(vs.Validators) : int"]%string
      /\ types__blockVotes_addVerifiedVote__set_sum_op_atoms = ["vs.sum : int64"; "votingPower : int64"]%string
      /\ types__CommitToVoteSet__if_not_added_or_err_ne_nil_atoms = ["added : bool"; "err != nil : bool"]%string
      /\ types__ValidatorSet_updateTotalVotingPower__let_sum_2_atoms = ["safeAddClip(sum, val.VotingPower) : int64"]%string
      /\ types__ValidatorSet_updateTotalVotingPower__put_vs_totalVotingPower_atoms = ["sum : int64"]%string
      /\ consensus_types__HeightVoteSet_SetRound__if_hvs_round_ne_1_and_round_lt_newRound_atoms
         = ["hvs.round : uint32"; "round : uint32"; "newRound : uint32"]%string
      /\ consensus_types__HeightVoteSet_SetRound__set_newRound_atoms = ["hvs.round : uint32"]%string
      /\ consensus_types__HeightVoteSet_SetRound__forinit_r_atoms = ["newRound : uint32"]%string
      /\ consensus_types__HeightVoteSet_SetRound__put_hvs_round_atoms = ["round : uint32"]%string
      /\ consensus_types__HeightVoteSet_AddVote__if_len_rndz_lt_2_atoms = ["len(rndz) : int"]%string
      /\ consensus_types__HeightVoteSet_POLInfo__forinit_r_atoms = ["hvs.round : uint32"]%string).

Lemma C02_source_tie2_proof : C02_source_tie2_statement.
Proof.
  unfold C02_source_tie2_statement.
  split. { repeat split;
           first [ exact pins_VoteSet_addVote_ok | exact pins_VoteSet_addVerifiedVote_ok | exact pins_VoteSet_HasTwoThirdsAny_ok
                 | exact pins_VoteSet_MakeCommit_ok | exact pins_ValidatorSet_VerifyCommit_ok | exact pins_VoteSet_getVote_ok
                 | exact pins_VoteSet_SetPeerMaj23_ok | exact pins_VoteSet_TwoThirdsMajority_ok
                 | exact pins_VoteSet_HasTwoThirdsMajority_ok | exact pins_VoteSet_IsCommit_ok | exact pins_VoteSet_GetByIndex_ok
                 | exact pins_VoteSet_BitArrayByBlockID_ok | exact pins_blockVotes_addVerifiedVote_ok
                 | exact pins_blockVotes_getByIndex_ok | exact pins_Vote_CommitSig_ok | exact pins_Vote_Verify_ok
                 | exact pins_Vote_ValidateBasic_ok | exact pins_CommitSig_ValidateBasic_ok | exact pins_Commit_ValidateBasic_ok
                 | exact pins_Commit_Size_ok | exact pins_CommitToVoteSet_ok | exact pins_HeightVoteSet_addRound_ok
                 | exact pins_HeightVoteSet_SetRound_ok | exact pins_HeightVoteSet_AddVote_ok
                 | exact pins_HeightVoteSet_getVoteSet_ok | exact pins_HeightVoteSet_SetPeerMaj23_ok
                 | exact pins_HeightVoteSet_POLInfo_ok ]. }
  split; [exact src_nil_vote|]. split; [intros i; exact (proj1 (src_index_never_negative i))|].
  split; [exact src_step_guard|]. split; [exact src_get_by_index|]. split; [exact src_maj_is|].
  split; [exact src_bv_add|]. split; [reflexivity|]. split; [reflexivity|].
  split; [exact src_flags|]. split; [exact src_absent|]. split; [exact src_for_block|].
  split; [exact src_precommit_guard|]. split; [exact src_is_commit|]. split; [exact src_make_commit_exclude|].
  split; [exact src_height0|]. split; [exact src_commit_validate_basic|]. split; [exact src_cs_validate_basic|].
  split; [exact src_ctv_guard|]. split; [exact src_wire_valid|].
  split; [exact src_vote_validate_basic|]. split; [exact src_vote_verify|].
  split; [exact src_type_valid|]. split; [exact src_cs_blockid|]. split; [exact src_cs_validate_basic_switch|].
  split; [exact src_get_vs|]. split; [reflexivity|].
  split; [exact src_size_guard|]. split; [exact src_height_guard|].
  split; [exact src_total_power|]. split; [exact src_bid_is_zero_full|].
  split. { intros b. rewrite src_bid_is_complete.
           unfold types__PartSetHeader_IsZero__ret_psh_Total_eq_0_and_psh_Hash_IsZero.
           replace (Z.of_N (b_total b) =? 0) with (N.eqb (b_total b) 0) by (symmetry; exact (Zof_N_eqb (b_total b) 0)).
           reflexivity. }
  split; [exact src_bid_eqb_full|].
  split; [exact src_hvs_new_round|]. split; [exact src_pred32|]. split; [exact src_setround_guard|].
  split; [exact src_setround_count|]. split; [exact src_setround_incr|]. split; [reflexivity|].
  split; [exact src_catchup_guard|]. split; [exact src_pol_scan|]. split; [exact src_pol_decr|].
  split; [reflexivity|]. repeat split; reflexivity.
Qed.

(** ** the whole tie, as one statement (quoted by Properties.v) *)
Definition C02_source_tie_statement : Prop :=
  (forall a b, in_range I64 a -> in_range I64 b -> types__safeAddClip a b = safe_add_clip a b)
  /\ (forall a b, in_range I64 a -> in_range I64 b -> types__safeSubClip a b = safe_sub_clip a b)
  /\ types__MaxTotalVotingPower = max_total_voting_power
  /\ (forall vals, quorum vals = types__VoteSet_addVerifiedVote__set_quorum (total_power vals))
  /\ (forall orig q s, types__VoteSet_addVerifiedVote__if_origSum_lt_quorum_and_quorum_le_votesByBlock_sum orig q s = (Z.ltb orig q && Z.leb q s)%bool)
  /\ (forall s p, types__VoteSet_addVerifiedVote__set_sum_op s p = wrap64 (s + p))
  /\ (forall vs, has_two_thirds_any vs = types__VoteSet_HasTwoThirdsAny__ret_voteSet_sum_gt_voteSet_valSet_TotalVotingPower_mul_2_div_3 (vs_sum vs) (total_power (vs_vals vs)))
  /\ (forall vs, has_all vs = types__VoteSet_HasAll__ret_voteSet_sum_eq_voteSet_valSet_TotalVotingPower (vs_sum vs) (total_power (vs_vals vs)))
  /\ (forall c pm, types__VoteSet_addVerifiedVote__if_conflicting_ne_nil_and_not_votesByBlock_peerMaj23 c pm = (c && negb pm)%bool)
  /\ (forall vals, two_thirds vals = types__ValidatorSet_VerifyCommit__set_votingPowerNeeded (total_power vals))
  /\ (forall acc p, types__ValidatorSet_VerifyCommit__set_talliedVotingPower_op acc p = wrap64 (acc + p))
  /\ (forall got needed, types__ValidatorSet_VerifyCommit__if_got_le_needed got needed = Z.leb got needed)
  /\ (forall s, types__ValidatorSet_updateTotalVotingPower__if_sum_gt_MaxTotalVotingPower s = Z.ltb max_total_voting_power s)
  /\ (types__VoteSet_addVerifiedVote__set_quorum_atoms = ["voteSet.valSet.TotalVotingPower() : int64"]%string
      /\ types__VoteSet_addVerifiedVote__if_origSum_lt_quorum_and_quorum_le_votesByBlock_sum_atoms = ["origSum : int64"; "quorum : int64"; "votesByBlock.sum : int64"]%string
      /\ types__VoteSet_HasTwoThirdsAny__ret_voteSet_sum_gt_voteSet_valSet_TotalVotingPower_mul_2_div_3_atoms = ["voteSet.sum : int64"; "voteSet.valSet.TotalVotingPower() : int64"]%string
      /\ types__ValidatorSet_VerifyCommit__set_votingPowerNeeded_atoms = ["vs.TotalVotingPower() : int64"]%string
      /\ types__ValidatorSet_VerifyCommit__if_got_le_needed_atoms = ["got : int64"; "needed : int64"]%string)
  /\ C02_source_tie2_statement.

Lemma C02_source_tie_proof : C02_source_tie_statement.
Proof.
  unfold C02_source_tie_statement.
  split; [exact src_safeAddClip|]. split; [exact src_safeSubClip|]. split; [reflexivity|].
  split; [exact src_quorum|]. split; [exact src_crossed|]. split; [exact src_sum_add|].
  split; [exact src_two_thirds_any|]. split; [exact src_has_all|]. split; [exact src_conflict_guard|].
  split; [exact src_needed|]. split; [exact src_tally_add|]. split; [exact src_enough|].
  split; [exact src_cap_guard|]. split; [repeat split; reflexivity|]. exact C02_source_tie2_proof.
Qed.
