(** C02 — tie of the model's arithmetic and guards to the Go SOURCE.
    [Generated/C02Source.v] is produced on every check by /verif/go2coq from /repo's working tree:
    the bodies of safeAdd/safeSub/safeAddClip/safeSubClip and every guard / integer expression of
    VoteSet.addVote, addVerifiedVote, HasTwoThirdsAny, HasAll, MakeCommit, ValidatorSet.VerifyCommit,
    updateTotalVotingPower and BlockID.IsZero/IsComplete/Equal, as Gallina over [Z] with explicit
    int64 wraps (Base/GoSem.v).  The lemmas below state that the hand-written model of C02/Model.v
    computes exactly those expressions on exactly those operands (the [_atoms] lists name the Go
    operands).  An edit of the Go source that changes a comparison, a constant, an operand or the
    order of these guards changes the generated file and re-opens these obligations. *)
From Coq Require Import List ZArith NArith Bool Lia String.
From Kardia Require Import Base.Int64 Base.GoSem.
From Kardia Require Import Generated.C02Source.
From Kardia Require Import Generated.C02Facts C02.Model.
Import ListNotations.
Local Open Scope Z_scope.

(** ** safe arithmetic (types/validator_set.go) = Base/Int64.v, for all int64 operands *)
Lemma src_safeAddClip a b : in_range I64 a -> in_range I64 b -> types__safeAddClip a b = safe_add_clip a b.
Proof.
  intros Ha Hb. unfold types__safeAddClip, types__safeAdd, safe_add_clip, max_int64, min_int64, two63.
  unfold in_range in *. gosolve.
Qed.
Lemma src_safeSubClip a b : in_range I64 a -> in_range I64 b -> types__safeSubClip a b = safe_sub_clip a b.
Proof.
  intros Ha Hb. unfold types__safeSubClip, types__safeSub, safe_sub_clip, max_int64, min_int64, two63.
  unfold in_range in *. gosolve.
Qed.

(** the caps the facts translator prints are the constants the type checker evaluates *)
Lemma src_caps : types__MaxTotalVotingPower = max_total_voting_power /\ types__MaxVotesCount = max_votes_count.
Proof. split; reflexivity. Qed.

(** ** quorum arithmetic: the model's [quorum]/[two_thirds] ARE the source expressions *)
Lemma src_quorum vals : quorum vals = types__VoteSet_addVerifiedVote__set_quorum (total_power vals).
Proof. reflexivity. Qed.
Lemma src_quorum_atoms :
  types__VoteSet_addVerifiedVote__set_quorum_atoms = ["voteSet.valSet.TotalVotingPower() : int64"]%string.
Proof. reflexivity. Qed.

Lemma src_crossed orig q sum' :
  types__VoteSet_addVerifiedVote__if_origSum_lt_quorum_and_quorum_le_votesByBlock_sum orig q sum' = (Z.ltb orig q && Z.leb q sum')%bool.
Proof. reflexivity. Qed.
Lemma src_crossed_atoms :
  types__VoteSet_addVerifiedVote__if_origSum_lt_quorum_and_quorum_le_votesByBlock_sum_atoms = ["origSum : int64"; "quorum : int64"; "votesByBlock.sum : int64"]%string.
Proof. reflexivity. Qed.

(** running sums are int64 additions of the validator's power *)
Lemma src_sum_add s p : types__VoteSet_addVerifiedVote__set_sum_op s p = wrap64 (s + p).
Proof. reflexivity. Qed.
Lemma src_sum_add_atoms :
  types__VoteSet_addVerifiedVote__set_sum_op_atoms = ["voteSet.sum : int64"; "votingPower : int64"]%string.
Proof. reflexivity. Qed.

Lemma src_two_thirds_any vs :
  has_two_thirds_any vs = types__VoteSet_HasTwoThirdsAny__ret_voteSet_sum_gt_voteSet_valSet_TotalVotingPower_mul_2_div_3 (vs_sum vs) (total_power (vs_vals vs)).
Proof. unfold has_two_thirds_any, types__VoteSet_HasTwoThirdsAny__ret_voteSet_sum_gt_voteSet_valSet_TotalVotingPower_mul_2_div_3. rewrite Z.gtb_ltb. reflexivity. Qed.
Lemma src_two_thirds_any_atoms :
  types__VoteSet_HasTwoThirdsAny__ret_voteSet_sum_gt_voteSet_valSet_TotalVotingPower_mul_2_div_3_atoms = ["voteSet.sum : int64"; "voteSet.valSet.TotalVotingPower() : int64"]%string.
Proof. reflexivity. Qed.

Lemma src_has_all vs :
  has_all vs = types__VoteSet_HasAll__ret_voteSet_sum_eq_voteSet_valSet_TotalVotingPower (vs_sum vs) (total_power (vs_vals vs)).
Proof. reflexivity. Qed.

(** conflicting vote without a peer claim is dropped: [conflicting != nil && !peerMaj23] *)
Lemma src_conflict_guard c pm : types__VoteSet_addVerifiedVote__if_conflicting_ne_nil_and_not_votesByBlock_peerMaj23 c pm = (c && negb pm)%bool.
Proof. reflexivity. Qed.
Lemma src_conflict_guard_atoms :
  types__VoteSet_addVerifiedVote__if_conflicting_ne_nil_and_not_votesByBlock_peerMaj23_atoms = ["conflicting != nil : bool"; "votesByBlock.peerMaj23 : bool"]%string.
Proof. reflexivity. Qed.

(** addVote step check: height, round and type must all match *)
Lemma src_step_guard h h' r r' t t' :
  types__VoteSet_addVote__if_vote_Height_ne_voteSet_height_or_vote_Round_ne_voteSet_round_5947c832 (Z.of_N h) (Z.of_N h') (Z.of_N r) (Z.of_N r') (Z.of_N t) (Z.of_N t')
  = negb (N.eqb h h' && N.eqb r r' && N.eqb t t').
Proof.
  unfold types__VoteSet_addVote__if_vote_Height_ne_voteSet_height_or_vote_Round_ne_voteSet_round_5947c832, go_neqb.
  rewrite !negb_andb.
  replace (Z.of_N h =? Z.of_N h') with (N.eqb h h') by (destruct (N.eqb_spec h h'); destruct (Z.eqb_spec (Z.of_N h) (Z.of_N h')); try reflexivity; lia).
  replace (Z.of_N r =? Z.of_N r') with (N.eqb r r') by (destruct (N.eqb_spec r r'); destruct (Z.eqb_spec (Z.of_N r) (Z.of_N r')); try reflexivity; lia).
  replace (Z.of_N t =? Z.of_N t') with (N.eqb t t') by (destruct (N.eqb_spec t t'); destruct (Z.eqb_spec (Z.of_N t) (Z.of_N t')); try reflexivity; lia).
  reflexivity.
Qed.

(** ** VerifyCommit *)
Lemma src_needed vals : two_thirds vals = types__ValidatorSet_VerifyCommit__set_votingPowerNeeded (total_power vals).
Proof. reflexivity. Qed.
Lemma src_needed_atoms :
  types__ValidatorSet_VerifyCommit__set_votingPowerNeeded_atoms = ["vs.TotalVotingPower() : int64"]%string.
Proof. reflexivity. Qed.
Lemma src_tally_add acc p : types__ValidatorSet_VerifyCommit__set_talliedVotingPower_op acc p = wrap64 (acc + p).
Proof. reflexivity. Qed.
Lemma src_tally_add_atoms :
  types__ValidatorSet_VerifyCommit__set_talliedVotingPower_op_atoms = ["talliedVotingPower : int64"; "val.VotingPower : int64"]%string.
Proof. reflexivity. Qed.
(** "not enough power" is [got <= needed]: strictly more than two thirds is required *)
Lemma src_enough got needed : types__ValidatorSet_VerifyCommit__if_got_le_needed got needed = Z.leb got needed.
Proof. reflexivity. Qed.
Lemma src_enough_atoms : types__ValidatorSet_VerifyCommit__if_got_le_needed_atoms = ["got : int64"; "needed : int64"]%string.
Proof. reflexivity. Qed.
Lemma src_size_guard n m : types__ValidatorSet_VerifyCommit__if_vs_Size_ne_len_commit_Signatures (Z.of_nat n) (Z.of_nat m) = negb (Nat.eqb n m).
Proof.
  unfold types__ValidatorSet_VerifyCommit__if_vs_Size_ne_len_commit_Signatures, go_neqb. f_equal.
  destruct (Nat.eqb_spec n m); destruct (Z.eqb_spec (Z.of_nat n) (Z.of_nat m)); try reflexivity; lia.
Qed.
Lemma src_size_guard_atoms :
  types__ValidatorSet_VerifyCommit__if_vs_Size_ne_len_commit_Signatures_atoms = ["vs.Size() : int"; "len(commit.Signatures) : int"]%string.
Proof. reflexivity. Qed.
Lemma src_height_guard_atoms :
  types__ValidatorSet_VerifyCommit__if_height_ne_commit_GetHeight_atoms = ["height : uint64"; "commit.GetHeight() : uint64"]%string.
Proof. reflexivity. Qed.
Lemma src_blockid_guard_atoms :
  types__ValidatorSet_VerifyCommit__if_not_blockID_Equal_commit_BlockID_atoms = ["blockID.Equal(commit.BlockID) : bool"]%string
  /\ forall b, types__ValidatorSet_VerifyCommit__if_not_blockID_Equal_commit_BlockID b = negb b.
Proof. split; reflexivity. Qed.

(** a non-absent slot must name the validator of its position (checked before the signature) *)
Lemma src_addr_guard :
  types__ValidatorSet_VerifyCommit__if_not_commitSig_ValidatorAddress_Equal_val_Address_atoms
  = ["commitSig.ValidatorAddress.Equal(val.Address) : bool"]%string
  /\ forall b, types__ValidatorSet_VerifyCommit__if_not_commitSig_ValidatorAddress_Equal_val_Address b = negb b.
Proof. split; reflexivity. Qed.

(** the cap panic of updateTotalVotingPower is [sum > MaxTotalVotingPower] *)
Lemma src_cap_guard s : types__ValidatorSet_updateTotalVotingPower__if_sum_gt_MaxTotalVotingPower s = Z.ltb max_total_voting_power s.
Proof. unfold types__ValidatorSet_updateTotalVotingPower__if_sum_gt_MaxTotalVotingPower. rewrite Z.gtb_ltb. reflexivity. Qed.

(** ** block ids *)
Lemma src_bid_is_zero b :
  bid_is_zero b = types__BlockID_IsZero__ret_blockID_Hash_IsZero_and_blockID_PartsHeader_IsZero (N.eqb (b_hash b) 0) (N.eqb (b_total b) 0 && N.eqb (b_phash b) 0)%bool.
Proof. reflexivity. Qed.
Lemma src_bid_is_complete b :
  bid_is_complete b = types__BlockID_IsComplete__ret_not_blockID_Hash_IsZero_and_not_blockID_PartsHeader_IsZero (N.eqb (b_hash b) 0) (N.eqb (b_total b) 0 && N.eqb (b_phash b) 0)%bool.
Proof. reflexivity. Qed.
Lemma src_bid_atoms :
  types__BlockID_IsZero__ret_blockID_Hash_IsZero_and_blockID_PartsHeader_IsZero_atoms = ["blockID.Hash.IsZero() : bool"; "blockID.PartsHeader.IsZero() : bool"]%string
  /\ types__BlockID_IsComplete__ret_not_blockID_Hash_IsZero_and_not_blockID_PartsHeader_IsZero_atoms = ["blockID.Hash.IsZero() : bool"; "blockID.PartsHeader.IsZero() : bool"]%string
  /\ types__BlockID_Equal__ret_blockID_Hash_Equal_other_Hash_and_blockID_PartsHeader_Equals_d815eb38_atoms = ["blockID.Hash.Equal(other.Hash) : bool"; "blockID.PartsHeader.Equals(other.PartsHeader) : bool"]%string
  /\ forall x y, types__BlockID_Equal__ret_blockID_Hash_Equal_other_Hash_and_blockID_PartsHeader_Equals_d815eb38 x y = (x && y)%bool.
Proof. repeat split; reflexivity. Qed.

(** ** the whole tie, as one statement (quoted by Properties.v) *)
Definition C02_source_tie_statement : Prop :=
  (forall a b, in_range I64 a -> in_range I64 b -> types__safeAddClip a b = safe_add_clip a b)
  /\ (forall a b, in_range I64 a -> in_range I64 b -> types__safeSubClip a b = safe_sub_clip a b)
  /\ types__MaxTotalVotingPower = max_total_voting_power
  /\ (forall vals, quorum vals = types__VoteSet_addVerifiedVote__set_quorum (total_power vals))
  /\ (forall orig q s, types__VoteSet_addVerifiedVote__if_origSum_lt_quorum_and_quorum_le_votesByBlock_sum orig q s = (Z.ltb orig q && Z.leb q s)%bool)
  /\ (forall s p, types__VoteSet_addVerifiedVote__set_sum_op s p = wrap64 (s + p))
  /\ (forall vs, has_two_thirds_any vs = types__VoteSet_HasTwoThirdsAny__ret_voteSet_sum_gt_voteSet_valSet_TotalVotingPower_mul_2_div_3 (vs_sum vs) (total_power (vs_vals vs)))
  /\ (forall vs, has_all vs = types__VoteSet_HasAll__ret_voteSet_sum_eq_voteSet_valSet_TotalVotingPower (vs_sum vs) (total_power (vs_vals vs)))
  /\ (forall c pm, types__VoteSet_addVerifiedVote__if_conflicting_ne_nil_and_not_votesByBlock_peerMaj23 c pm = (c && negb pm)%bool)
  /\ (forall vals, two_thirds vals = types__ValidatorSet_VerifyCommit__set_votingPowerNeeded (total_power vals))
  /\ (forall acc p, types__ValidatorSet_VerifyCommit__set_talliedVotingPower_op acc p = wrap64 (acc + p))
  /\ (forall got needed, types__ValidatorSet_VerifyCommit__if_got_le_needed got needed = Z.leb got needed)
  /\ (forall s, types__ValidatorSet_updateTotalVotingPower__if_sum_gt_MaxTotalVotingPower s = Z.ltb max_total_voting_power s)
  /\ (types__VoteSet_addVerifiedVote__set_quorum_atoms = ["voteSet.valSet.TotalVotingPower() : int64"]%string
      /\ types__VoteSet_addVerifiedVote__if_origSum_lt_quorum_and_quorum_le_votesByBlock_sum_atoms = ["origSum : int64"; "quorum : int64"; "votesByBlock.sum : int64"]%string
      /\ types__VoteSet_HasTwoThirdsAny__ret_voteSet_sum_gt_voteSet_valSet_TotalVotingPower_mul_2_div_3_atoms = ["voteSet.sum : int64"; "voteSet.valSet.TotalVotingPower() : int64"]%string
      /\ types__ValidatorSet_VerifyCommit__set_votingPowerNeeded_atoms = ["vs.TotalVotingPower() : int64"]%string
      /\ types__ValidatorSet_VerifyCommit__if_got_le_needed_atoms = ["got : int64"; "needed : int64"]%string).

Lemma C02_source_tie_proof : C02_source_tie_statement.
Proof.
  unfold C02_source_tie_statement.
  split; [exact src_safeAddClip|]. split; [exact src_safeSubClip|]. split; [reflexivity|].
  split; [exact src_quorum|]. split; [exact src_crossed|]. split; [exact src_sum_add|].
  split; [exact src_two_thirds_any|]. split; [exact src_has_all|]. split; [exact src_conflict_guard|].
  split; [exact src_needed|]. split; [exact src_tally_add|]. split; [exact src_enough|].
  split; [exact src_cap_guard|]. repeat split; reflexivity.
Qed.
