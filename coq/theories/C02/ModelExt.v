(** C02 — second part of the executable model (no proofs here):
    - the remaining read accessors of types/vote_set.go (GetByIndex, BitArrayByBlockID, IsCommit,
      AddVote(nil));
    - Commit.GetVote / CommitToVoteSet (types/commit.go), the inverse of MakeCommit;
    - ValidatorSet.VerifyCommit with its nil-commit error and its panic on an unknown BlockIDFlag
      (reachable only for a commit of height 0, whose ValidateBasic checks nothing);
    - consensus/types/height_vote_set.go: HeightVoteSet (one prevote and one precommit VoteSet per
      round, SetRound, AddVote with the two catch-up rounds per peer, SetPeerMaj23, POLInfo).
    Everything is built on [add_vote] / [set_peer_maj23] / [verify_commit] of Model.v. *)
From Coq Require Import List ZArith NArith Bool.
From Kardia Require Import Base.Int64 Base.ListX C02.Model.
Import ListNotations.
Local Open Scope Z_scope.

(* ------------------------------------------------------------------ *)
(** * VoteSet accessors *)

(** GetByIndex(i) for every i: the signature identity of the canonical vote, 0 = nil *)
Definition votes_ids (vs : voteset) : list N :=
  map (fun o => match o with Some v => s_id (v_sig v) | None => 0%N end) (vs_votes vs).

(** BitArrayByBlockID: None = nil (block not tracked) *)
Definition bits_by_block (vs : voteset) (b : blockid) : option (list bool) :=
  match bb_find b (vs_byblock vs) with
  | Some bv => Some (map (fun o => match o with Some _ => true | None => false end) (bv_votes bv))
  | None => None
  end.

(** IsCommit *)
Definition is_commit (vs : voteset) : bool :=
  N.eqb (vs_type vs) PRECOMMIT && match vs_maj23 vs with Some _ => true | None => false end.

(** AddVote with a possibly nil vote: [None] as error class = ErrVoteNil *)
Definition add_vote_o (vs : voteset) (o : option vote) : voteset * bool * option verr :=
  match o with
  | None => (vs, false, None)
  | Some v => let '(vs', added, e) := add_vote vs v in (vs', added, Some e)
  end.

(** Vote.ValidateBasic (types/vote.go): valid type, zero or complete block id, a signature is present
    (BlockID.ValidateBasic only checks the length of a fixed-size hash) *)
Definition type_valid (t : N) : bool := N.eqb t PREVOTE || N.eqb t PRECOMMIT.
Definition vote_validate_basic (v : vote) : bool :=
  type_valid (v_type v) && (bid_is_zero (v_bid v) || bid_is_complete (v_bid v)) && negb (s_empty (v_sig v)).

(** Vote.Verify(chainID, address) *)
Inductive vverr := VVOk | VVAddr | VVSig.
Definition vote_verify (chain addr : N) (v : vote) : vverr :=
  if negb (N.eqb (v_addr v) addr) then VVAddr
  else if vote_sig_valid chain addr v then VVOk else VVSig.

(* ------------------------------------------------------------------ *)
(** * Commit.GetVote and CommitToVoteSet *)

(** CommitSig.BlockID: None = panic (unknown flag) *)
Definition cs_blockid (cs : commitsig) (cb : blockid) : option blockid :=
  if N.eqb (cs_flag cs) FLAG_ABSENT then Some bid_zero
  else if N.eqb (cs_flag cs) FLAG_COMMIT then Some cb
  else if N.eqb (cs_flag cs) FLAG_NIL then Some bid_zero
  else None.

(** Commit.GetVote(i): None = panic (index out of range or unknown flag) *)
Definition commit_get_vote (c : commit) (i : nat) : option vote :=
  match nth_error (c_sigs c) i with
  | None => None
  | Some cs =>
    match cs_blockid cs (c_bid c) with
    | None => None
    | Some b => Some {| v_idx := N.of_nat i; v_addr := cs_addr cs; v_height := c_height c;
                        v_round := c_round c; v_type := PRECOMMIT; v_time := cs_time cs;
                        v_bid := b; v_sig := cs_sig cs |}
    end
  end.

(** the loop of CommitToVoteSet from slot [i] on; None = panic ("Failed to reconstruct LastCommit") *)
Fixpoint ctv_loop (c : commit) (sigs : list commitsig) (i : nat) (vs : voteset) : option voteset :=
  match sigs with
  | [] => Some vs
  | cs :: t =>
    if N.eqb (cs_flag cs) FLAG_ABSENT then ctv_loop c t (S i) vs
    else match commit_get_vote c i with
         | None => None
         | Some v =>
           let '(vs', added, e) := add_vote vs v in
           match e with
           | ENone => if added then ctv_loop c t (S i) vs' else None
           | _ => None
           end
         end
  end.

(** CommitToVoteSet: None = panic (NewVoteSet refuses height 0; a slot that cannot be added) *)
Definition commit_to_voteset (chain : N) (c : commit) (vals : list validator) : option voteset :=
  if N.eqb (c_height c) 0 then None
  else ctv_loop c (c_sigs c) 0 (new_voteset chain (c_height c) (c_round c) PRECOMMIT vals).

(* ------------------------------------------------------------------ *)
(** * VerifyCommit, with the nil commit and the panic of an unknown flag *)

Inductive tresx := TXOk (z : Z) | TXSig | TXAddr | TXPanic.

(** as [tally]; a slot whose flag is none of absent/commit/nil panics in CommitSig.BlockID (reached
    through commit.VoteSignBytes, after the address check and before the signature check) *)
Fixpoint tally_x (chain h r : N) (cb want : blockid) (vals : list validator) (sigs : list commitsig)
         (acc : Z) : tresx :=
  match vals, sigs with
  | val :: vt, cs :: st =>
    if N.eqb (cs_flag cs) FLAG_ABSENT then tally_x chain h r cb want vt st acc
    else if negb (N.eqb (cs_addr cs) (val_addr val)) then TXAddr
    else if negb (N.eqb (cs_flag cs) FLAG_COMMIT || N.eqb (cs_flag cs) FLAG_NIL) then TXPanic
    else
      let vb := if N.eqb (cs_flag cs) FLAG_COMMIT then cb else bid_zero in
      if sig_valid chain (val_addr val) PRECOMMIT h r vb (cs_time cs) (cs_sig cs) then
        tally_x chain h r cb want vt st (if bid_eqb want vb then wrap64 (acc + val_power val) else acc)
      else TXSig
  | _, _ => TXOk acc
  end.

Inductive cerrx := XNilCommit | XPanic | XErr (e : cerr).

Definition verify_commit_x (vals : list validator) (chain : N) (want : blockid) (h : N) (oc : option commit)
  : cerrx :=
  match oc with
  | None => XNilCommit
  | Some c =>
    if negb (commit_validate_basic c) then XErr CBasic
    else if negb (Nat.eqb (length vals) (length (c_sigs c))) then XErr CSize
    else if negb (N.eqb h (c_height c)) then XErr CHeight
    else if negb (bid_eqb want (c_bid c)) then XErr CBlockID
    else match tally_x chain (c_height c) (c_round c) (c_bid c) want vals (c_sigs c) 0 with
         | TXSig => XErr CSig
         | TXAddr => XErr CAddr
         | TXPanic => XPanic
         | TXOk got => if Z.leb got (two_thirds vals) then XErr CPower else XErr COk
         end
  end.

(* ------------------------------------------------------------------ *)
(** * HeightVoteSet (consensus/types/height_vote_set.go) *)

Record roundvs := { rv_pre : voteset; rv_com : voteset }.

Record hvs := {
  h_chain : N; h_height : N; h_vals : list validator;
  h_round : N;                          (* uint32: max tracked round *)
  h_sets : list (N * roundvs);          (* roundVoteSets *)
  h_catchup : list (N * list N) }.      (* peerCatchupRounds; peer 0 = "" (self) *)

Fixpoint rs_find (r : N) (l : list (N * roundvs)) : option roundvs :=
  match l with
  | [] => None
  | (k, x) :: t => if N.eqb k r then Some x else rs_find r t
  end.

Fixpoint rs_set (r : N) (x : roundvs) (l : list (N * roundvs)) : list (N * roundvs) :=
  match l with
  | [] => [(r, x)]
  | (k, y) :: t => if N.eqb k r then (k, x) :: t else (k, y) :: rs_set r x t
  end.

Fixpoint cu_find (p : N) (l : list (N * list N)) : list N :=
  match l with
  | [] => []
  | (k, x) :: t => if N.eqb k p then x else cu_find p t
  end.

Fixpoint cu_set (p : N) (x : list N) (l : list (N * list N)) : list (N * list N) :=
  match l with
  | [] => [(p, x)]
  | (k, y) :: t => if N.eqb k p then (k, x) :: t else (k, y) :: cu_set p x t
  end.

Definition with_sets (s : hvs) (round : N) sets catchup : hvs :=
  {| h_chain := h_chain s; h_height := h_height s; h_vals := h_vals s; h_round := round;
     h_sets := sets; h_catchup := catchup |}.

Definition new_round (s : hvs) (r : N) : roundvs :=
  {| rv_pre := new_voteset (h_chain s) (h_height s) r PREVOTE (h_vals s);
     rv_com := new_voteset (h_chain s) (h_height s) r PRECOMMIT (h_vals s) |}.

(** addRound: None = panic (round exists; NewVoteSet refuses height 0) *)
Definition hvs_add_round (s : hvs) (r : N) : option hvs :=
  match rs_find r (h_sets s) with
  | Some _ => None
  | None => if N.eqb (h_height s) 0 then None
            else Some (with_sets s (h_round s) (rs_set r (new_round s r) (h_sets s)) (h_catchup s))
  end.

(** NewHeightVoteSet: round 1 exists, hvs.round = 1 *)
Definition hvs_new (chain h : N) (vals : list validator) : option hvs :=
  match hvs_add_round {| h_chain := chain; h_height := h; h_vals := vals; h_round := 0;
                         h_sets := []; h_catchup := [] |} 1 with
  | Some s => Some (with_sets s 1 (h_sets s) (h_catchup s))
  | None => None
  end.

Definition U32MAX : N := 4294967295%N.
(** hvs.round - 1 in uint32 *)
Definition pred32 (r : N) : N := if N.eqb r 0 then U32MAX else N.pred r.

(** for r := from; ...; r++ { if exists continue; addRound(r) }, [cnt] iterations *)
Fixpoint add_rounds (s : hvs) (r : N) (cnt : nat) : option hvs :=
  match cnt with
  | O => Some s
  | S k =>
    match rs_find r (h_sets s) with
    | Some _ => add_rounds s (N.succ r) k
    | None => match hvs_add_round s r with
              | Some s' => add_rounds s' (N.succ r) k
              | None => None
              end
    end
  end.

(** SetRound: None = panic, or no return at all: for round = MaxUint32 the Go loop [r <= round; r++]
    wraps around and never ends *)
Definition hvs_set_round (s : hvs) (round : N) : option hvs :=
  let nr := pred32 (h_round s) in
  if N.leb U32MAX round then None
  else if negb (N.eqb (h_round s) 1) && N.ltb round nr then None
  else match add_rounds s nr (N.to_nat (N.succ round - nr)) with
       | Some s' => Some (with_sets s' round (h_sets s') (h_catchup s'))
       | None => None
       end.

(** getVoteSet (for a valid type) *)
Definition get_vs (s : hvs) (r ty : N) : option voteset :=
  match rs_find r (h_sets s) with
  | None => None
  | Some rv => Some (if N.eqb ty PREVOTE then rv_pre rv else rv_com rv)
  end.

Definition put_vs (s : hvs) (r ty : N) (vs : voteset) : hvs :=
  match rs_find r (h_sets s) with
  | None => s
  | Some rv =>
    let rv' := if N.eqb ty PREVOTE then {| rv_pre := vs; rv_com := rv_com rv |}
               else {| rv_pre := rv_pre rv; rv_com := vs |} in
    with_sets s (h_round s) (rs_set r rv' (h_sets s)) (h_catchup s)
  end.

Inductive hres := HNilType | HUnwanted | HPanic | HVoted (added : bool) (e : verr).

(** HeightVoteSet.AddVote(vote, peer) *)
Definition hvs_add_vote (s : hvs) (v : vote) (peer : N) : hvs * hres :=
  if negb (type_valid (v_type v)) then (s, HNilType) else
  let go (s1 : hvs) :=
    match get_vs s1 (v_round v) (v_type v) with
    | Some vs => let '(vs', added, e) := add_vote vs v in
                 (put_vs s1 (v_round v) (v_type v) vs', HVoted added e)
    | None => (s1, HPanic)
    end in
  match get_vs s (v_round v) (v_type v) with
  | Some _ => go s
  | None =>
    let rndz := cu_find peer (h_catchup s) in
    if Nat.ltb (length rndz) 2 then
      match hvs_add_round s (v_round v) with
      | Some s1 => go (with_sets s1 (h_round s1) (h_sets s1) (cu_set peer (rndz ++ [v_round v]) (h_catchup s1)))
      | None => (s, HPanic)
      end
    else (s, HUnwanted)
  end.

(** HeightVoteSet.SetPeerMaj23(round, type, peer, id): error? *)
Definition hvs_set_peer_maj23 (s : hvs) (r ty peer : N) (b : blockid) : hvs * bool :=
  if negb (type_valid ty) then (s, true) else
  match get_vs s r ty with
  | None => (s, false)
  | Some vs => let '(vs', e) := set_peer_maj23 vs peer b in (put_vs s r ty vs', e)
  end.

(** POLInfo: scan the prevote sets from hvs.round down to 1; (0, zero id) = none *)
Fixpoint pol_scan (s : hvs) (r : nat) : N * blockid :=
  match r with
  | O => (0%N, bid_zero)
  | S k =>
    match get_vs s (N.of_nat r) PREVOTE with
    | Some vs => match vs_maj23 vs with
                 | Some b => (N.of_nat r, b)
                 | None => pol_scan s k
                 end
    | None => pol_scan s k
    end
  end.
Definition pol_info (s : hvs) : N * blockid := pol_scan s (N.to_nat (h_round s)).

Inductive hop :=
| HSetRound (r : N)
| HVote (v : vote) (peer : N)
| HPeer (r ty peer : N) (b : blockid).

(** one call; None = the call panicked (the harness stops the history there) *)
Definition hvs_step (s : hvs) (o : hop) : option hvs :=
  match o with
  | HSetRound r => hvs_set_round s r
  | HVote v p => match hvs_add_vote s v p with
                 | (_, HPanic) => None
                 | (s', _) => Some s'
                 end
  | HPeer r ty p b => Some (fst (hvs_set_peer_maj23 s r ty p b))
  end.

Fixpoint hvs_run (s : hvs) (ops : list hop) : option hvs :=
  match ops with
  | [] => Some s
  | o :: t => match hvs_step s o with Some s' => hvs_run s' t | None => None end
  end.
