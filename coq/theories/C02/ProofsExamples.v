(** C02 — non-vacuity: a concrete 4-validator history (conflicting votes, a peer-claimed
    majority, a bad signature, a nil vote, a quorum) that satisfies the hypotheses of the
    soundness, completeness and round-trip theorems; everything is evaluated by the kernel. *)
From Coq Require Import List ZArith NArith Bool Lia.
From Kardia Require Import Base.Int64 Base.ListX C02.Model C02.Proofs C02.ProofsLists C02.ProofsVoteSet
     Generated.C02Facts.
Import ListNotations.
Local Open Scope Z_scope.

Definition ex_chain : N := 7%N.
Definition ex_h : N := 5%N.
Definition ex_r : N := 1%N.

Definition ex_vals : list validator :=
  [ {| val_addr := 11; val_power := 35 |}; {| val_addr := 12; val_power := 10 |};
    {| val_addr := 13; val_power := 35 |}; {| val_addr := 14; val_power := 20 |} ].

Definition ex_B : blockid := {| b_hash := 100; b_total := 1; b_phash := 200 |}.
(** same hash and parts hash as [ex_B], different part-set total *)
Definition ex_C : blockid := {| b_hash := 100; b_total := 2; b_phash := 200 |}.

(** a precommit of validator [i] (address [addr]) for [b], signed by [signer]; [sid] is the
    identity of the signature bytes *)
Definition ex_vote (i addr signer : N) (b : blockid) (sid : N) : vote :=
  {| v_idx := i; v_addr := addr; v_height := ex_h; v_round := ex_r; v_type := PRECOMMIT; v_time := 1000 + sid;
     v_bid := b;
     v_sig := {| s_id := sid; s_empty := false; s_signer := signer; s_chain := ex_chain; s_type := PRECOMMIT;
                 s_height := ex_h; s_round := ex_r; s_bid := b; s_time := 1000 + sid |} |}.

Definition ex_ops : list op :=
  [ OpVote (ex_vote 0 11 11 ex_B 1);          (* added *)
    OpVote (ex_vote 1 12 12 ex_C 2);          (* added: validator 1 votes for C first *)
    OpVote (ex_vote 1 12 12 ex_B 3);          (* conflicting, nobody claims B: not added *)
    OpPeer 1 ex_B;                            (* a peer claims +2/3 for B *)
    OpVote (ex_vote 1 12 12 ex_B 3);          (* conflicting, now tracked in B's entry *)
    OpVote (ex_vote 2 13 12 ex_B 4);          (* signed by the wrong key *)
    OpVote (ex_vote 3 14 14 bid_zero 5);      (* nil vote *)
    OpVote (ex_vote 0 11 11 ex_B 1);          (* duplicate *)
    OpVote (ex_vote 2 13 13 ex_B 6);          (* 35 + 10 + 35 = 80 >= 67: quorum for B *)
    OpVote (ex_vote 3 14 14 ex_C 7);          (* conflicting after the quorum: not added *)
    OpMakeCommit ].

Definition ex_init : voteset := new_voteset ex_chain ex_h ex_r PRECOMMIT ex_vals.
Definition ex_final : voteset := final ex_init ex_ops.

Definition ob_err (o : obs) : option (bool * verr) :=
  match o with ObVote a e _ _ _ _ => Some (a, e) | _ => None end.

(** what the history does, step by step *)
Example ex_trace :
  map ob_err (snd (run ex_init ex_ops)) =
  [ Some (true, ENone); Some (true, ENone); Some (false, EConflict); None; Some (true, EConflict);
    Some (false, EInvalidSig); Some (true, ENone); Some (false, ENone); Some (true, ENone);
    Some (false, EConflict); None ].
Proof. vm_compute. reflexivity. Qed.

Example ex_wf : wf_vals ex_vals.
Proof.
  split.
  - repeat constructor; cbn; lia.
  - unfold max_total_voting_power. cbn. lia.
Qed.

Example ex_maj : vs_maj23 ex_final = Some ex_B.
Proof. vm_compute. reflexivity. Qed.

Example ex_sum : vs_sum ex_final = 100 /\ has_two_thirds_any ex_final = true /\ has_all ex_final = true.
Proof. vm_compute. auto. Qed.

(** the set A = {0, 2}: 70 of 100 *)
Definition ex_A : list bool := [true; false; true; false].

Example ex_A_quorum : 2 * sum_powers ex_vals < 3 * mask_power ex_vals ex_A.
Proof. vm_compute. reflexivity. Qed.

Example ex_A_first :
  forall i, nth i ex_A false = true ->
            exists v, first_valid ex_chain ex_h ex_r PRECOMMIT ex_vals ex_ops i = Some v /\ v_bid v = ex_B.
Proof.
  intros [|[|[|[|i]]]] H; try discriminate H.
  - eexists. split; vm_compute; reflexivity.
  - eexists. split; vm_compute; reflexivity.
  - destruct i; discriminate H.
Qed.

(** boolean versions of the two "for every offered vote" hypotheses *)
Definition wire_ok_b (ops : list op) : bool :=
  forallb (fun o => match o with
                    | OpVote v => bid_is_zero (v_bid v) || bid_is_complete (v_bid v)
                    | _ => true end) ops.

Lemma wire_ok_b_spec ops :
  wire_ok_b ops = true ->
  forall v, offered ops v -> bid_is_zero (v_bid v) = true \/ bid_is_complete (v_bid v) = true.
Proof.
  unfold wire_ok_b, offered. rewrite forallb_forall. intros H v Hin. specialize (H _ Hin).
  apply orb_true_iff in H. exact H.
Qed.

Definition exclusive_b chain ht rd ty vals (A : list bool) (b : blockid) (ops : list op) : bool :=
  forallb (fun o => match o with
                    | OpVote v => if nth (N.to_nat (v_idx v)) A false && valid_vote chain ht rd ty vals v
                                  then bid_eqb (v_bid v) b else true
                    | _ => true end) ops.

Lemma exclusive_b_spec chain ht rd ty vals A b ops :
  exclusive_b chain ht rd ty vals A b ops = true ->
  forall i v, nth i A false = true -> offered ops v -> N.to_nat (v_idx v) = i ->
              valid_vote chain ht rd ty vals v = true -> v_bid v = b.
Proof.
  unfold exclusive_b, offered. rewrite forallb_forall. intros H i v Hi Hin Hidx Hval. specialize (H _ Hin).
  cbn in H. rewrite Hidx, Hi, Hval in H. cbn [andb] in H. apply bid_eqb_eq. exact H.
Qed.

Example ex_wire :
  forall v, offered ex_ops v -> bid_is_zero (v_bid v) = true \/ bid_is_complete (v_bid v) = true.
Proof. apply wire_ok_b_spec. vm_compute. reflexivity. Qed.

Example ex_A_exclusive :
  forall i v, nth i ex_A false = true -> offered ex_ops v -> N.to_nat (v_idx v) = i ->
              valid_vote ex_chain ex_h ex_r PRECOMMIT ex_vals v = true -> v_bid v = ex_B.
Proof. apply exclusive_b_spec. vm_compute. reflexivity. Qed.

(** the hypotheses of the completeness theorem hold together on this history ... *)
Example ex_complete_applies : vs_maj23 ex_final = Some ex_B.
Proof.
  exact (complete_exact ex_chain ex_h ex_r PRECOMMIT ex_vals ex_wf ex_ops ex_A ex_B
                        ex_A_quorum ex_A_first ex_A_exclusive).
Qed.

(** ... and so do those of the round-trip theorem; the commit (three COMMIT signatures, one NIL)
    is also computed and verified directly *)
Example ex_roundtrip_applies :
  exists c, make_commit ex_final = Some c /\ verify_commit ex_vals ex_chain ex_B ex_h c = COk.
Proof.
  exact (commit_roundtrip ex_chain ex_h ex_r PRECOMMIT ex_vals ex_wf ex_ops ex_B
                          eq_refl ex_wire ex_maj eq_refl).
Qed.

Example ex_roundtrip_computed :
  match make_commit ex_final with
  | Some c => map cs_flag (c_sigs c) = [FLAG_COMMIT; FLAG_COMMIT; FLAG_COMMIT; FLAG_NIL] /\
              verify_commit ex_vals ex_chain ex_B ex_h c = COk /\
              verify_commit ex_vals ex_chain ex_C ex_h c = CBlockID
  | None => False
  end.
Proof. vm_compute. auto. Qed.

(** the quorum witness of [maj23_sound] on this history: B's entry holds validators 0, 1, 2 *)
Example ex_witness :
  match bb_find ex_B (vs_byblock ex_final) with
  | Some bv => map is_some (bv_votes bv) = [true; true; true; false] /\ bv_sum bv = 80
  | None => False
  end.
Proof. vm_compute. auto. Qed.

(** all hypotheses of the completeness and round-trip theorems hold together on one history
    that also contains a rejected and an admitted conflicting vote *)
Lemma hypotheses_satisfiable :
  exists chain ht rd vals ops A b,
    wf_vals vals /\
    2 * sum_powers vals < 3 * mask_power vals A /\
    (forall i, nth i A false = true ->
               exists v, first_valid chain ht rd PRECOMMIT vals ops i = Some v /\ v_bid v = b) /\
    (forall i v, nth i A false = true -> offered ops v -> N.to_nat (v_idx v) = i ->
                 valid_vote chain ht rd PRECOMMIT vals v = true -> v_bid v = b) /\
    (forall v, offered ops v -> bid_is_zero (v_bid v) = true \/ bid_is_complete (v_bid v) = true) /\
    bid_is_complete b = true /\
    vs_maj23 (final (new_voteset chain ht rd PRECOMMIT vals) ops) = Some b /\
    In (Some (true, EConflict)) (map ob_err (snd (run (new_voteset chain ht rd PRECOMMIT vals) ops))) /\
    In (Some (false, EConflict)) (map ob_err (snd (run (new_voteset chain ht rd PRECOMMIT vals) ops))).
Proof.
  exists ex_chain, ex_h, ex_r, ex_vals, ex_ops, ex_A, ex_B.
  split; [exact ex_wf|]. split; [exact ex_A_quorum|]. split; [exact ex_A_first|].
  split; [exact ex_A_exclusive|]. split; [exact ex_wire|]. split; [reflexivity|].
  split; [exact ex_maj|]. fold ex_init. rewrite ex_trace. cbn [In]. split; tauto.
Qed.
