(** C02 — proofs about the second part of the model (ModelExt.v):
    - the first reported majority is final;
    - VerifyCommit with the nil commit / unknown-flag panic agrees with [verify_commit] on every
      commit that ValidateBasic examined (height >= 1), and an "ok" of the extended function is an
      "ok" of [verify_commit] (so C02_verify_commit_sound applies to it);
    - HeightVoteSet: every per-round vote set of a reachable HeightVoteSet is a reachable VoteSet
      of that round and type over votes offered to the HeightVoteSet; POLInfo is sound (the round it
      names really has +2/3 valid prevotes for that exact id) and names the LATEST such round up to
      hvs.round; a peer opens at most two catch-up rounds, every open round is 1, below a round
      given to SetRound, or one of those catch-up rounds. *)
From Coq Require Import List ZArith NArith Bool Lia Arith.
From Kardia Require Import Base.Int64 Base.ListX C02.Model C02.ModelExt C02.Proofs C02.ProofsLists
     C02.ProofsVoteSet Generated.C02Facts.
Import ListNotations.
Local Open Scope Z_scope.

(* ------------------------------------------------------------------ *)
(** * The first majority is final *)

Lemma final_snoc s ops o : final s (ops ++ [o]) = fst (step (final s ops) o).
Proof.
  revert s. induction ops as [|x t IH]; intros s.
  - cbn [app]. rewrite final_cons. reflexivity.
  - cbn [app]. rewrite !final_cons. apply IH.
Qed.

Lemma final_app s a b : final s (a ++ b) = final (final s a) b.
Proof.
  revert s. induction a as [|x t IH]; intros s; [reflexivity|].
  cbn [app]. rewrite !final_cons. apply IH.
Qed.

Theorem maj23_stable s ops m : vs_maj23 s = Some m -> vs_maj23 (final s ops) = Some m.
Proof.
  revert s. induction ops as [|o t IH]; intros s Hm; [exact Hm|].
  rewrite final_cons. apply IH. apply (proj1 (step_maj s o)). exact Hm.
Qed.

Theorem maj23_stable_prefix s ops1 ops2 m :
  vs_maj23 (final s ops1) = Some m -> vs_maj23 (final s (ops1 ++ ops2)) = Some m.
Proof. rewrite final_app. apply maj23_stable. Qed.

(** a vote that passes Vote.ValidateBasic has a zero or complete block id: the wire-validity hypothesis
    of C02_commit_roundtrip / C02_commit_to_voteset_inverse is what the reactor enforces on receipt *)
Lemma validate_basic_wire v :
  vote_validate_basic v = true ->
  (bid_is_zero (v_bid v) = true \/ bid_is_complete (v_bid v) = true) /\ s_empty (v_sig v) = false /\
  (v_type v = PREVOTE \/ v_type v = PRECOMMIT).
Proof.
  unfold vote_validate_basic, type_valid. rewrite !andb_true_iff, !orb_true_iff, negb_true_iff, !N.eqb_eq. tauto.
Qed.

(** Vote.Verify accepts exactly the votes naming that address with that address's valid signature *)
Lemma vote_verify_ok chain addr v :
  vote_verify chain addr v = VVOk <-> v_addr v = addr /\ vote_sig_valid chain addr v = true.
Proof.
  unfold vote_verify. destruct (N.eqb_spec (v_addr v) addr) as [E|E]; cbn [negb].
  - destruct (vote_sig_valid chain addr v); split; try discriminate; try tauto. intros [_ H]; discriminate.
  - split; [discriminate|]. intros [H _]. contradiction.
Qed.

(* ------------------------------------------------------------------ *)
(** * VerifyCommit with nil commit and unknown-flag panic *)

Definition tres_x (t : tres) : tresx :=
  match t with TOk z => TXOk z | TSig => TXSig | TAddr => TXAddr end.

Definition flag_known (cs : commitsig) : bool :=
  N.eqb (cs_flag cs) FLAG_ABSENT || N.eqb (cs_flag cs) FLAG_COMMIT || N.eqb (cs_flag cs) FLAG_NIL.

Lemma cs_validate_basic_known cs : cs_validate_basic cs = true -> flag_known cs = true.
Proof.
  unfold cs_validate_basic, flag_known.
  destruct (N.eqb (cs_flag cs) FLAG_ABSENT); [reflexivity|]. cbn [orb].
  destruct (N.eqb (cs_flag cs) FLAG_COMMIT || N.eqb (cs_flag cs) FLAG_NIL); [reflexivity|discriminate].
Qed.

Lemma tally_x_known chain h r cb want vals : forall sigs acc,
  forallb flag_known sigs = true ->
  tally_x chain h r cb want vals sigs acc = tres_x (tally chain h r cb want vals sigs acc).
Proof.
  induction vals as [|val vt IH]; intros sigs acc Hk; [reflexivity|].
  destruct sigs as [|cs st]; [reflexivity|].
  cbn [forallb] in Hk. apply andb_true_iff in Hk. destruct Hk as [Hc Ht].
  cbn [tally_x tally]. unfold flag_known in Hc.
  destruct (N.eqb (cs_flag cs) FLAG_ABSENT) eqn:Ea; [apply IH; exact Ht|]. cbn [orb] in Hc.
  destruct (negb (N.eqb (cs_addr cs) (val_addr val))); [reflexivity|].
  rewrite Hc. cbn [negb].
  destruct (sig_valid _ _ _ _ _ _ _ _); [apply IH; exact Ht|reflexivity].
Qed.

(** an "ok" of the extended function is an "ok" of [verify_commit] *)
Lemma tally_x_ok chain h r cb want vals : forall sigs acc z,
  tally_x chain h r cb want vals sigs acc = TXOk z -> tally chain h r cb want vals sigs acc = TOk z.
Proof.
  induction vals as [|val vt IH]; intros sigs acc z; [cbn; intros H; injection H as <-; reflexivity|].
  destruct sigs as [|cs st]; [cbn; intros H; injection H as <-; reflexivity|].
  cbn [tally_x tally].
  destruct (N.eqb (cs_flag cs) FLAG_ABSENT); [apply IH|].
  destruct (negb (N.eqb (cs_addr cs) (val_addr val))); [discriminate|].
  destruct (negb (N.eqb (cs_flag cs) FLAG_COMMIT || N.eqb (cs_flag cs) FLAG_NIL)); [discriminate|].
  destruct (sig_valid _ _ _ _ _ _ _ _); [apply IH|discriminate].
Qed.

Theorem verify_commit_x_ok vals chain want h c :
  verify_commit_x vals chain want h (Some c) = XErr COk -> verify_commit vals chain want h c = COk.
Proof.
  unfold verify_commit_x, verify_commit.
  destruct (negb (commit_validate_basic c)); [discriminate|].
  destruct (negb (Nat.eqb _ _)); [discriminate|].
  destruct (negb (N.eqb h (c_height c))); [discriminate|].
  destruct (negb (bid_eqb want (c_bid c))); [discriminate|].
  destruct (tally_x _ _ _ _ _ _ _ _) as [z| | |] eqn:E; try discriminate.
  rewrite (tally_x_ok _ _ _ _ _ _ _ _ _ E).
  destruct (Z.leb z (two_thirds vals)); [discriminate|reflexivity].
Qed.

(** no panic, and the same answer, for every commit whose slots ValidateBasic examined *)
Theorem verify_commit_x_validated vals chain want h c :
  (1 <= c_height c)%N ->
  verify_commit_x vals chain want h (Some c) = XErr (verify_commit vals chain want h c).
Proof.
  intros Hh. unfold verify_commit_x, verify_commit.
  destruct (commit_validate_basic c) eqn:Evb; cbn [negb]; [|reflexivity].
  destruct (negb (Nat.eqb _ _)); [reflexivity|].
  destruct (negb (N.eqb h (c_height c))); [reflexivity|].
  destruct (negb (bid_eqb want (c_bid c))); [reflexivity|].
  assert (Hk : forallb flag_known (c_sigs c) = true).
  { unfold commit_validate_basic in Evb. apply N.leb_le in Hh. rewrite Hh in Evb.
    apply andb_true_iff in Evb. destruct Evb as [_ Hf].
    apply forallb_forall. intros cs Hin. apply cs_validate_basic_known.
    eapply forallb_forall in Hf; eauto. }
  rewrite (tally_x_known _ _ _ _ _ _ _ _ Hk).
  destruct (tally _ _ _ _ _ _ _ _) as [z| |]; cbn [tres_x]; try reflexivity.
  destruct (Z.leb z (two_thirds vals)); reflexivity.
Qed.

Theorem verify_commit_x_nil vals chain want h : verify_commit_x vals chain want h None = XNilCommit.
Proof. reflexivity. Qed.

(* ------------------------------------------------------------------ *)
(** * HeightVoteSet *)

Lemma rs_find_set r r' x l :
  rs_find r' (rs_set r x l) = if N.eqb r r' then Some x else rs_find r' l.
Proof.
  induction l as [|[k y] t IH]; cbn [rs_set rs_find].
  - reflexivity.
  - destruct (N.eqb k r) eqn:E; cbn [rs_find].
    + apply N.eqb_eq in E. subst k. destruct (N.eqb r r'); reflexivity.
    + rewrite IH. destruct (N.eqb k r') eqn:E'; [|reflexivity].
      apply N.eqb_eq in E'. subst r'. rewrite N.eqb_sym, E. reflexivity.
Qed.

Lemma cu_find_set p p' x l :
  cu_find p' (cu_set p x l) = if N.eqb p p' then x else cu_find p' l.
Proof.
  induction l as [|[k y] t IH]; cbn [cu_set cu_find].
  - destruct (N.eqb p p'); reflexivity.
  - destruct (N.eqb k p) eqn:E; cbn [cu_find].
    + apply N.eqb_eq in E. subst k. destruct (N.eqb p p'); reflexivity.
    + rewrite IH. destruct (N.eqb k p') eqn:E'; [|reflexivity].
      apply N.eqb_eq in E'. subst p'. rewrite N.eqb_sym, E. reflexivity.
Qed.

Lemma rs_find_in r l x : rs_find r l = Some x -> In r (map fst l).
Proof.
  induction l as [|[k y] t IH]; cbn [rs_find map fst]; [discriminate|].
  destruct (N.eqb k r) eqn:E; [apply N.eqb_eq in E; left; exact E|right; auto].
Qed.

Lemma in_rs_find r l : In r (map fst l) -> rs_find r l <> None.
Proof.
  induction l as [|[k y] t IH]; cbn [rs_find map fst In]; [tauto|].
  intros [->|Hin]; [rewrite N.eqb_refl; discriminate|].
  destruct (N.eqb k r); [discriminate|auto].
Qed.

Ltac hprj := cbn [with_sets h_chain h_height h_vals h_round h_sets h_catchup rv_pre rv_com] in *.

(* ---- POLInfo ---- *)

Lemma pol_scan_spec s : forall k r b,
  pol_scan s k = (r, b) ->
  (r = 0%N /\ b = bid_zero /\
   forall j, (1 <= j <= k)%nat -> forall vs, get_vs s (N.of_nat j) PREVOTE = Some vs -> vs_maj23 vs = None) \/
  ((1 <= N.to_nat r <= k)%nat /\
   (exists vs, get_vs s r PREVOTE = Some vs /\ vs_maj23 vs = Some b) /\
   forall j, (N.to_nat r < j <= k)%nat -> forall vs, get_vs s (N.of_nat j) PREVOTE = Some vs -> vs_maj23 vs = None).
Proof.
  induction k as [|k IH]; intros r b; cbn [pol_scan].
  - intros E; injection E as <- <-. left. split; [reflexivity|split; [reflexivity|]]. intros j Hj. lia.
  - assert (Hrec : pol_scan s k = (r, b) ->
              (forall vs, get_vs s (N.of_nat (S k)) PREVOTE = Some vs -> vs_maj23 vs = None) ->
              (r = 0%N /\ b = bid_zero /\
               forall j, (1 <= j <= S k)%nat -> forall vs, get_vs s (N.of_nat j) PREVOTE = Some vs -> vs_maj23 vs = None) \/
              ((1 <= N.to_nat r <= S k)%nat /\
               (exists vs, get_vs s r PREVOTE = Some vs /\ vs_maj23 vs = Some b) /\
               forall j, (N.to_nat r < j <= S k)%nat -> forall vs, get_vs s (N.of_nat j) PREVOTE = Some vs -> vs_maj23 vs = None)).
    { intros E Hnone. destruct (IH r b E) as [[A [B C]]|[A [B C]]].
      - left. split; [exact A|split; [exact B|]]. intros j Hj vs Hvs.
        destruct (Nat.eq_dec j (S k)) as [->|Hne]; [apply Hnone; exact Hvs|apply (C j); [lia|exact Hvs]].
      - right. split; [lia|split; [exact B|]]. intros j Hj vs Hvs.
        destruct (Nat.eq_dec j (S k)) as [->|Hne]; [apply Hnone; exact Hvs|apply (C j); [lia|exact Hvs]]. }
    destruct (get_vs s (N.of_nat (S k)) PREVOTE) as [vs|] eqn:Eg.
    + destruct (vs_maj23 vs) as [m|] eqn:Em.
      * intros E; injection E as <- <-. right. split; [|split].
        -- change (1 <= N.to_nat (N.of_nat (S k)) <= S k)%nat. lia.
        -- exists vs. split; [exact Eg|exact Em].
        -- intros j Hj. change (N.to_nat (N.of_nat (S k)) < j <= S k)%nat in Hj. lia.
      * intros E. apply Hrec; [exact E|]. intros vs' E'. injection E' as <-. exact Em.
    + intros E. apply Hrec; [exact E|]. intros vs' E'. discriminate.
Qed.

(** ... and it is the LATEST one: no later round up to hvs.round has a prevote majority; when POLInfo
    names no round, no round 1..hvs.round has one. *)
Theorem pol_latest s r b :
  pol_info s = (r, b) ->
  forall r', (r < r' <= h_round s)%N -> forall vs, get_vs s r' PREVOTE = Some vs -> vs_maj23 vs = None.
Proof.
  intros Hp r' Hr' vs Hvs. unfold pol_info in Hp.
  destruct (pol_scan_spec s _ _ _ Hp) as [[A [_ C]]|[A [_ C]]].
  - apply (C (N.to_nat r')); [lia|]. rewrite N2Nat.id. exact Hvs.
  - apply (C (N.to_nat r')); [lia|]. rewrite N2Nat.id. exact Hvs.
Qed.

Theorem pol_none_zero s b : pol_info s = (0%N, b) -> b = bid_zero.
Proof.
  intros Hp. unfold pol_info in Hp. destruct (pol_scan_spec s _ _ _ Hp) as [[_ [B _]]|[A _]]; [exact B|lia].
Qed.

Section HVS.
Variables (chain ht : N) (vals : list validator).

(** votes offered to the HeightVoteSet (by any peer) *)
Definition offered_h (hops : list hop) (v : vote) : Prop := exists p, In (HVote v p) hops.

(** [vs] is a reachable VoteSet of round [r] and type [ty], over votes offered to the HeightVoteSet *)
Definition set_reach (hops : list hop) (r ty : N) (vs : voteset) : Prop :=
  exists ops, vs = final (new_voteset chain ht r ty vals) ops /\
              forall v, In (OpVote v) ops -> offered_h hops v.

(** rounds the node asked for itself *)
Definition asked (hops : list hop) (r : N) : Prop := exists r0, In (HSetRound r0) hops /\ (r <= r0)%N.

Record hinv (hops : list hop) (s : hvs) : Prop := {
  hi_chain : h_chain s = chain;
  hi_height : h_height s = ht;
  hi_vals : h_vals s = vals;
  hi_sets : forall r rv, rs_find r (h_sets s) = Some rv ->
            set_reach hops r PREVOTE (rv_pre rv) /\ set_reach hops r PRECOMMIT (rv_com rv);
  hi_catchup : forall p, (length (cu_find p (h_catchup s)) <= 2)%nat;
  hi_rounds : forall k, (1 <= k <= h_round s)%N -> rs_find k (h_sets s) <> None;
  hi_open : forall r, In r (map fst (h_sets s)) ->
            r = 1%N \/ asked hops r \/ exists p, In r (cu_find p (h_catchup s)) }.

Lemma offered_h_mono hops x v : offered_h hops v -> offered_h (hops ++ x) v.
Proof. intros [p Hp]. exists p. apply in_or_app. left. exact Hp. Qed.

Lemma set_reach_mono hops x r ty vs : set_reach hops r ty vs -> set_reach (hops ++ x) r ty vs.
Proof. intros [ops [E H]]. exists ops. split; [exact E|]. intros v Hv. apply offered_h_mono. auto. Qed.

Lemma asked_mono hops x r : asked hops r -> asked (hops ++ x) r.
Proof. intros [r0 [H1 H2]]. exists r0. split; [apply in_or_app; left; exact H1|exact H2]. Qed.

Lemma hinv_mono hops x s : hinv hops s -> hinv (hops ++ x) s.
Proof.
  intros [H1 H2 H3 H4 H5 H6 H7]. constructor; auto.
  - intros r rv Hr. destruct (H4 r rv Hr) as [A B]. split; apply set_reach_mono; assumption.
  - intros r Hr. destruct (H7 r Hr) as [E|[E|E]]; [left; exact E|right; left; apply asked_mono; exact E|right; right; exact E].
Qed.

Lemma set_reach_new hops s r ty :
  h_chain s = chain -> h_height s = ht -> h_vals s = vals ->
  set_reach hops r ty (new_voteset (h_chain s) (h_height s) r ty (h_vals s)).
Proof. intros -> -> ->. exists []. split; [reflexivity|]. intros v []. Qed.

(** addRound keeps the invariant when the new round is accounted for *)
Lemma add_round_inv hops s r s' :
  hinv hops s -> hvs_add_round s r = Some s' ->
  (r = 1%N \/ asked hops r \/ exists p, In r (cu_find p (h_catchup s))) ->
  hinv hops s' /\ h_round s' = h_round s /\ h_catchup s' = h_catchup s /\
  rs_find r (h_sets s') <> None /\
  (forall k, rs_find k (h_sets s) <> None -> rs_find k (h_sets s') <> None) /\
  (forall k, In k (map fst (h_sets s')) -> k = r \/ In k (map fst (h_sets s))).
Proof.
  intros Hi. pose proof Hi as [H1 H2 H3 H4 H5 H6 H7]. unfold hvs_add_round.
  destruct (rs_find r (h_sets s)) eqn:Ef; [discriminate|].
  destruct (N.eqb (h_height s) 0); [discriminate|]. intros E Hacc. injection E as <-. hprj.
  assert (Hfind : forall k, rs_find k (rs_set r (new_round s r) (h_sets s)) =
                            if N.eqb r k then Some (new_round s r) else rs_find k (h_sets s))
    by (intros k; apply rs_find_set).
  split; [|split; [reflexivity|split; [reflexivity|split; [|split]]]].
  - constructor; hprj; auto.
    + intros k rv. rewrite Hfind. destruct (N.eqb r k) eqn:Ek; [|apply H4].
      apply N.eqb_eq in Ek. subst k. intros E; injection E as <-. unfold new_round. hprj.
      split; apply set_reach_new; assumption.
    + intros k Hk. rewrite Hfind. destruct (N.eqb r k); [discriminate|apply H6; exact Hk].
    + intros k Hk. apply in_rs_find in Hk. rewrite Hfind in Hk. destruct (N.eqb r k) eqn:Ek.
      * apply N.eqb_eq in Ek. subst k. exact Hacc.
      * apply H7. destruct (rs_find k (h_sets s)) eqn:Ek'; [eapply rs_find_in; eauto|congruence].
  - rewrite Hfind, N.eqb_refl. discriminate.
  - intros k Hk. rewrite Hfind. destruct (N.eqb r k); [discriminate|exact Hk].
  - intros k Hk. apply in_rs_find in Hk. rewrite Hfind in Hk. destruct (N.eqb r k) eqn:Ek.
    + apply N.eqb_eq in Ek. left. symmetry. exact Ek.
    + right. destruct (rs_find k (h_sets s)) eqn:Ek'; [eapply rs_find_in; eauto|congruence].
Qed.

(** the loop of SetRound *)
Lemma add_rounds_inv hops : forall cnt s r s',
  hinv hops s -> add_rounds s r cnt = Some s' ->
  (forall k, (r <= k < r + N.of_nat cnt)%N -> asked hops k) ->
  hinv hops s' /\ h_round s' = h_round s /\
  (forall k, (r <= k < r + N.of_nat cnt)%N -> rs_find k (h_sets s') <> None) /\
  (forall k, rs_find k (h_sets s) <> None -> rs_find k (h_sets s') <> None).
Proof.
  induction cnt as [|cnt IH]; intros s r s' Hi E Hask.
  - cbn [add_rounds] in E. injection E as <-. split; [exact Hi|split; [reflexivity|split; [intros k Hk; lia|auto]]].
  - cbn [add_rounds] in E.
    assert (Hask' : forall k, (N.succ r <= k < N.succ r + N.of_nat cnt)%N -> asked hops k) by (intros k Hk; apply Hask; lia).
    destruct (rs_find r (h_sets s)) eqn:Ef.
    + destruct (IH s (N.succ r) s' Hi E Hask') as [A [B [C D]]].
      split; [exact A|split; [exact B|split; [|exact D]]].
      intros k Hk. destruct (N.eq_dec k r) as [->|Hne]; [apply D; congruence|apply C; lia].
    + destruct (hvs_add_round s r) as [s1|] eqn:Ea; [|discriminate].
      destruct (add_round_inv hops s r s1 Hi Ea) as [A1 [B1 [_ [C1 [D1 _]]]]].
      { right; left. apply Hask. lia. }
      destruct (IH s1 (N.succ r) s' A1 E Hask') as [A [B [C D]]].
      split; [exact A|split; [congruence|split; [|intros k Hk; apply D, D1; exact Hk]]].
      intros k Hk. destruct (N.eq_dec k r) as [->|Hne]; [apply D; exact C1|apply C; lia].
Qed.

Lemma set_round_inv hops s round s' :
  hinv hops s -> hvs_set_round s round = Some s' -> hinv (hops ++ [HSetRound round]) s' /\ h_round s' = round.
Proof.
  intros Hi. unfold hvs_set_round.
  set (nr := pred32 (h_round s)).
  destruct (N.leb U32MAX round) eqn:Emax; [discriminate|]. apply N.leb_gt in Emax.
  destruct (negb (N.eqb (h_round s) 1) && N.ltb round nr) eqn:Eg; [discriminate|].
  destruct (add_rounds s nr (N.to_nat (N.succ round - nr))) as [s1|] eqn:Ea; [|discriminate].
  intros E; injection E as <-. hprj.
  assert (Hi' : hinv (hops ++ [HSetRound round]) s) by (apply hinv_mono; exact Hi).
  destruct (add_rounds_inv _ _ _ _ _ Hi' Ea) as [A [B [C D]]].
  { intros k Hk. exists round. split; [apply in_or_app; right; left; reflexivity|lia]. }
  split; [|reflexivity].
  pose proof A as [H1 H2 H3 H4 H5 H6 H7]. constructor; hprj; auto.
  intros k Hk.
  (* rounds 1..round: those below newRound existed before (1..h_round s), the others were just created *)
  destruct (N.ltb k nr) eqn:Ek.
  - apply N.ltb_lt in Ek. apply D. apply (hi_rounds _ _ Hi'). unfold nr, pred32 in Ek.
    destruct (N.eqb (h_round s) 0) eqn:E0.
    + (* h_round = 0: newRound = MaxUint32, the guard forces a panic unless round >= newRound *)
      apply N.eqb_eq in E0. rewrite E0 in Eg. cbn [N.eqb negb andb] in Eg.
      apply N.ltb_ge in Eg. unfold nr, pred32 in Eg. rewrite E0 in Eg. cbn [N.eqb] in Eg.
      exfalso. unfold U32MAX in *. lia.
    + apply N.eqb_neq in E0. lia.
  - apply N.ltb_ge in Ek. apply C. lia.
Qed.

(** updating one vote set of an existing round *)
Lemma put_vs_inv hops s r ty vs' :
  hinv hops s -> type_valid ty = true ->
  rs_find r (h_sets s) <> None -> set_reach hops r ty vs' ->
  hinv hops (put_vs s r ty vs').
Proof.
  intros Hi Hty Hex Hsr. pose proof Hi as [H1 H2 H3 H4 H5 H6 H7]. unfold put_vs.
  destruct (rs_find r (h_sets s)) as [rv|] eqn:Ef; [|exact Hi].
  assert (Hfind : forall x k, rs_find k (rs_set r x (h_sets s)) = if N.eqb r k then Some x else rs_find k (h_sets s))
    by (intros x k; apply rs_find_set).
  destruct (H4 r rv Ef) as [Hp Hc].
  constructor; hprj; auto.
  - intros k rv'. rewrite Hfind. destruct (N.eqb r k) eqn:Ek; [|apply H4].
    apply N.eqb_eq in Ek. subst k. intros E; injection E as <-.
    unfold type_valid in Hty. destruct (N.eqb ty PREVOTE) eqn:Et; hprj.
    + apply N.eqb_eq in Et. subst ty. split; assumption.
    + cbn [orb] in Hty. apply N.eqb_eq in Hty. subst ty. split; assumption.
  - intros k Hk. rewrite Hfind. destruct (N.eqb r k); [discriminate|apply H6; exact Hk].
  - intros k Hk. apply H7. apply in_rs_find in Hk. rewrite Hfind in Hk. destruct (N.eqb r k) eqn:Ek.
    + apply N.eqb_eq in Ek. subst k. eapply rs_find_in; eauto.
    + destruct (rs_find k (h_sets s)) eqn:Ek'; [eapply rs_find_in; eauto|congruence].
Qed.

Lemma put_vs_round s r ty vs' : h_round (put_vs s r ty vs') = h_round s.
Proof. unfold put_vs. destruct (rs_find r (h_sets s)); reflexivity. Qed.

Lemma get_vs_reach hops s r ty vs :
  hinv hops s -> type_valid ty = true -> get_vs s r ty = Some vs -> set_reach hops r ty vs.
Proof.
  intros Hi Hty. unfold get_vs. destruct (rs_find r (h_sets s)) as [rv|] eqn:Ef; [|discriminate].
  intros E; injection E as <-. destruct (hi_sets _ _ Hi r rv Ef) as [Hp Hc].
  unfold type_valid in Hty. destruct (N.eqb ty PREVOTE) eqn:Et.
  - apply N.eqb_eq in Et. subst ty. exact Hp.
  - cbn [orb] in Hty. apply N.eqb_eq in Hty. subst ty. exact Hc.
Qed.

Lemma set_reach_step hops r ty vs o :
  set_reach hops r ty vs -> (forall v, o = OpVote v -> offered_h hops v) ->
  set_reach hops r ty (fst (step vs o)).
Proof.
  intros [ops [E H]] Ho. exists (ops ++ [o]). split.
  - rewrite final_snoc, <- E. reflexivity.
  - intros v Hv. apply in_app_or in Hv. destruct Hv as [Hv|[Hv|[]]]; [auto|apply Ho; exact Hv].
Qed.

Lemma add_vote_inv_h hops s v p s' res :
  hinv hops s -> hvs_add_vote s v p = (s', res) -> res <> HPanic ->
  hinv (hops ++ [HVote v p]) s' /\ h_round s' = h_round s.
Proof.
  intros Hi. unfold hvs_add_vote.
  destruct (type_valid (v_type v)) eqn:Ety; cbn [negb];
    [|intros E _; injection E as <- _; split; [apply hinv_mono; exact Hi|reflexivity]].
  assert (Hoff : offered_h (hops ++ [HVote v p]) v) by (exists p; apply in_or_app; right; left; reflexivity).
  (* the common tail: the vote is added to the (now existing) set *)
  assert (Hgo : forall s1, hinv (hops ++ [HVote v p]) s1 -> h_round s1 = h_round s ->
            forall s2 r2,
            match get_vs s1 (v_round v) (v_type v) with
            | Some vs => let '(vs', added, e) := add_vote vs v in
                         (put_vs s1 (v_round v) (v_type v) vs', HVoted added e)
            | None => (s1, HPanic)
            end = (s2, r2) -> r2 <> HPanic ->
            hinv (hops ++ [HVote v p]) s2 /\ h_round s2 = h_round s).
  { intros s1 Hi1 Hr1 s2 r2. destruct (get_vs s1 (v_round v) (v_type v)) as [vs|] eqn:Eg;
      [|intros E Hn; injection E as _ <-; congruence].
    pose proof (get_vs_reach _ _ _ _ _ Hi1 Ety Eg) as Hsr.
    pose proof (set_reach_step _ _ _ _ (OpVote v) Hsr) as Hst. cbn [step] in Hst.
    destruct (add_vote vs v) as [[vs' added] e] eqn:Eav. cbn [fst] in Hst.
    intros E _. injection E as <- _. split; [|rewrite put_vs_round; exact Hr1].
    apply put_vs_inv; auto.
    - unfold get_vs in Eg. destruct (rs_find (v_round v) (h_sets s1)); [discriminate|discriminate Eg].
    - apply Hst. intros v0 E0. injection E0 as <-. exact Hoff. }
  destruct (get_vs s (v_round v) (v_type v)) as [vs0|] eqn:Eg0.
  - intros E Hn. apply (Hgo s (hinv_mono _ _ _ Hi) eq_refl s' res); [rewrite Eg0; exact E|exact Hn].
  - destruct (Nat.ltb (length (cu_find p (h_catchup s))) 2) eqn:Elt;
      [|intros E _; injection E as <- _; split; [apply hinv_mono; exact Hi|reflexivity]].
    apply Nat.ltb_lt in Elt.
    destruct (hvs_add_round s (v_round v)) as [s1|] eqn:Ea; [|intros E Hn; injection E as _ <-; congruence].
    intros E Hn.
    (* the intermediate state: round added, charged to the peer *)
    set (s1' := with_sets s1 (h_round s1) (h_sets s1)
                          (cu_set p (cu_find p (h_catchup s) ++ [v_round v]) (h_catchup s1))) in *.
    assert (Hi0 : hinv (hops ++ [HVote v p]) s) by (apply hinv_mono; exact Hi).
    (* add the round under a temporary account: it will be in the peer's list *)
    unfold hvs_add_round in Ea.
    destruct (rs_find (v_round v) (h_sets s)) eqn:Ef; [discriminate|].
    destruct (N.eqb (h_height s) 0) eqn:Eh0; [discriminate|]. injection Ea as <-.
    pose proof Hi0 as [H1 H2 H3 H4 H5 H6 H7].
    assert (Hfind : forall k, rs_find k (rs_set (v_round v) (new_round s (v_round v)) (h_sets s)) =
                              if N.eqb (v_round v) k then Some (new_round s (v_round v)) else rs_find k (h_sets s))
      by (intros k; apply rs_find_set).
    assert (Hi1 : hinv (hops ++ [HVote v p]) s1').
    { unfold s1'. constructor; hprj; auto.
      - intros k rv. rewrite Hfind. destruct (N.eqb (v_round v) k) eqn:Ek; [|apply H4].
        apply N.eqb_eq in Ek. subst k. intros E'; injection E' as <-. unfold new_round. hprj.
        split; apply set_reach_new; assumption.
      - intros q. rewrite cu_find_set. destruct (N.eqb p q) eqn:Epq; [|apply H5].
        rewrite app_length. cbn [length]. lia.
      - intros k Hk. rewrite Hfind. destruct (N.eqb (v_round v) k); [discriminate|apply H6; exact Hk].
      - intros k Hk. apply in_rs_find in Hk. rewrite Hfind in Hk. destruct (N.eqb (v_round v) k) eqn:Ek.
        + apply N.eqb_eq in Ek. subst k. right; right. exists p. rewrite cu_find_set, N.eqb_refl.
          apply in_or_app. right. left. reflexivity.
        + assert (Hin : In k (map fst (h_sets s))).
          { destruct (rs_find k (h_sets s)) eqn:Ek'; [eapply rs_find_in; eauto|congruence]. }
          destruct (H7 k Hin) as [A|[A|[q A]]]; [left; exact A|right; left; exact A|right; right].
          exists q. rewrite cu_find_set. destruct (N.eqb p q) eqn:Epq; [|exact A].
          apply N.eqb_eq in Epq. subst q. apply in_or_app. left. exact A. }
    apply (Hgo s1' Hi1 eq_refl s' res); [exact E|exact Hn].
Qed.

Lemma set_peer_inv_h hops s r ty p b :
  hinv hops s ->
  hinv (hops ++ [HPeer r ty p b]) (fst (hvs_set_peer_maj23 s r ty p b)) /\
  h_round (fst (hvs_set_peer_maj23 s r ty p b)) = h_round s.
Proof.
  intros Hi. unfold hvs_set_peer_maj23.
  destruct (type_valid ty) eqn:Ety; cbn [negb]; [|cbn [fst]; split; [apply hinv_mono; exact Hi|reflexivity]].
  destruct (get_vs s r ty) as [vs|] eqn:Eg; [|cbn [fst]; split; [apply hinv_mono; exact Hi|reflexivity]].
  assert (Hi' : hinv (hops ++ [HPeer r ty p b]) s) by (apply hinv_mono; exact Hi).
  pose proof (get_vs_reach _ _ _ _ _ Hi' Ety Eg) as Hsr.
  pose proof (set_reach_step _ _ _ _ (OpPeer p b) Hsr) as Hst. cbn [step] in Hst.
  destruct (set_peer_maj23 vs p b) as [vs' e] eqn:Esp. cbn [fst] in *.
  split; [|apply put_vs_round]. apply put_vs_inv; auto.
  - unfold get_vs in Eg. destruct (rs_find r (h_sets s)); [discriminate|discriminate Eg].
  - apply Hst. intros v0 E0. discriminate E0.
Qed.

Lemma step_inv_h hops s o s' : hinv hops s -> hvs_step s o = Some s' -> hinv (hops ++ [o]) s'.
Proof.
  intros Hi. destruct o as [r|v p|r ty p b]; cbn [hvs_step].
  - intros E. apply (set_round_inv _ _ _ _ Hi E).
  - destruct (hvs_add_vote s v p) as [s1 res] eqn:E. intros E'.
    assert (Hn : res <> HPanic) by (intros ->; discriminate E').
    assert (Hs : s1 = s') by (destruct res; try discriminate E'; injection E' as E'; exact E').
    subst s1. apply (add_vote_inv_h _ _ _ _ _ _ Hi E Hn).
  - intros E; injection E as <-. apply set_peer_inv_h. exact Hi.
Qed.

Lemma run_inv_h ops : forall hops s s', hinv hops s -> hvs_run s ops = Some s' -> hinv (hops ++ ops) s'.
Proof.
  induction ops as [|o t IH]; intros hops s s' Hi; cbn [hvs_run].
  - intros E; injection E as <-. rewrite app_nil_r. exact Hi.
  - destruct (hvs_step s o) as [s1|] eqn:E; [|discriminate]. intros E'.
    replace (hops ++ o :: t) with ((hops ++ [o]) ++ t) by (rewrite <- app_assoc; reflexivity).
    eapply IH; [eapply step_inv_h; eauto|exact E'].
Qed.

Lemma new_inv s : hvs_new chain ht vals = Some s -> hinv [] s.
Proof.
  unfold hvs_new, hvs_add_round. cbn [h_sets rs_find h_height].
  destruct (N.eqb ht 0); [discriminate|]. intros E; injection E as <-. hprj. cbn [rs_set].
  constructor; hprj; auto.
  - intros r rv. cbn [rs_find]. destruct (N.eqb 1 r) eqn:E1; [|discriminate].
    apply N.eqb_eq in E1. subst r. intros E; injection E as <-. unfold new_round. hprj.
    split; (exists []; split; [reflexivity|intros v []]).
  - intros k Hk. assert (k = 1%N) by lia. subst k. cbn [rs_find N.eqb Pos.eqb]. discriminate.
  - intros r [<-|[]]. left; reflexivity.
Qed.

(** every state reached from NewHeightVoteSet by calls that did not panic *)
Theorem reach_inv_h s0 hops s :
  hvs_new chain ht vals = Some s0 -> hvs_run s0 hops = Some s -> hinv hops s.
Proof. intros H0 Hr. apply (run_inv_h hops [] s0 s (new_inv _ H0) Hr). Qed.

Hypothesis Hwf : wf_vals vals.

(** POLInfo is sound: the round it names is within 1..hvs.round, and distinct validators holding strictly
    more than 2/3 sent valid prevotes (offered to this HeightVoteSet, of this height and exactly that
    round) for exactly that block id. *)
Theorem pol_sound s0 hops s r b :
  hvs_new chain ht vals = Some s0 -> hvs_run s0 hops = Some s ->
  pol_info s = (r, b) -> r <> 0%N ->
  (1 <= r <= h_round s)%N /\
  exists w : list (option vote),
    length w = length vals /\
    (forall i v, vote_at w i = Some v ->
       offered_h hops v /\ valid_vote_of chain ht r PREVOTE vals i v /\ v_bid v = b) /\
    2 * sum_powers vals < 3 * voters_power vals w.
Proof.
  intros H0 Hr Hp Hnz. pose proof (reach_inv_h _ _ _ H0 Hr) as Hi.
  unfold pol_info in Hp. destruct (pol_scan_spec s _ _ _ Hp) as [[A _]|[A [[vs [Eg Em]] _]]]; [congruence|].
  split; [lia|].
  assert (Hty : type_valid PREVOTE = true) by reflexivity.
  destruct (get_vs_reach _ _ _ _ _ Hi Hty Eg) as [ops [Evs Hoff]].
  rewrite Evs in Em.
  destruct (maj23_sound chain ht r PREVOTE vals Hwf ops b Em) as [bv [_ [Hl [Hv Hq]]]].
  exists (bv_votes bv). split; [exact Hl|split; [|exact Hq]].
  intros i v Hiv. destruct (Hv i v Hiv) as [[Ho Hvv] Hb]. split; [apply Hoff; exact Ho|split; assumption].
Qed.

(** Catch-up rounds are bounded: a peer's list never exceeds two rounds, and every open round is round 1,
    at most a round the node itself asked for with SetRound, or in some peer's list. *)
Theorem catchup_bounded s0 hops s :
  hvs_new chain ht vals = Some s0 -> hvs_run s0 hops = Some s ->
  (forall p, (length (cu_find p (h_catchup s)) <= 2)%nat) /\
  (forall r, rs_find r (h_sets s) <> None ->
     r = 1%N \/ (exists r0, In (HSetRound r0) hops /\ (r <= r0)%N) \/ exists p, In r (cu_find p (h_catchup s))) /\
  (forall k, (1 <= k <= h_round s)%N -> rs_find k (h_sets s) <> None).
Proof.
  intros H0 Hr. pose proof (reach_inv_h _ _ _ H0 Hr) as Hi.
  split; [apply (hi_catchup _ _ Hi)|split; [|apply (hi_rounds _ _ Hi)]].
  intros r Hne. apply (hi_open _ _ Hi).
  destruct (rs_find r (h_sets s)) eqn:E; [eapply rs_find_in; eauto|congruence].
Qed.

(** Every per-round vote set is a reachable VoteSet of that height, round and type whose history consists
    of votes offered to the HeightVoteSet: all C02 vote-set theorems apply to it. *)
Theorem hvs_sets_reachable s0 hops s r ty vs :
  hvs_new chain ht vals = Some s0 -> hvs_run s0 hops = Some s ->
  type_valid ty = true -> get_vs s r ty = Some vs ->
  exists ops, vs = final (new_voteset chain ht r ty vals) ops /\
              forall v, In (OpVote v) ops -> offered_h hops v.
Proof.
  intros H0 Hr Hty Hg. exact (get_vs_reach _ _ _ _ _ (reach_inv_h _ _ _ H0 Hr) Hty Hg).
Qed.

End HVS.

(** Non-vacuity: a HeightVoteSet history with a SetRound, a catch-up round and a prevote majority in
    round 2, for which POLInfo names round 2. *)
Definition exh_vals : list validator :=
  [{| val_addr := 11; val_power := 1 |}; {| val_addr := 12; val_power := 1 |}; {| val_addr := 13; val_power := 1 |}].
Definition exh_B : blockid := {| b_hash := 100; b_total := 1; b_phash := 200 |}.
Definition exh_vote (i addr r : N) (sid : N) : vote :=
  {| v_idx := i; v_addr := addr; v_height := 5; v_round := r; v_type := PREVOTE; v_time := 3; v_bid := exh_B;
     v_sig := {| s_id := sid; s_empty := false; s_signer := addr; s_chain := 7; s_type := PREVOTE; s_height := 5;
                 s_round := r; s_bid := exh_B; s_time := 3 |} |}.
Definition exh_ops : list hop :=
  [HVote (exh_vote 0 11 2 1) 1; HSetRound 2; HVote (exh_vote 1 12 2 2) 0; HVote (exh_vote 2 13 2 3) 2;
   HVote (exh_vote 0 11 7 4) 1; HVote (exh_vote 0 11 8 5) 1].

Lemma hvs_example :
  exists s0 s, hvs_new 7 5 exh_vals = Some s0 /\ hvs_run s0 exh_ops = Some s /\
               pol_info s = (2%N, exh_B) /\ wf_vals exh_vals /\
               snd (hvs_add_vote s (exh_vote 0 11 8 5) 1) = HUnwanted.
Proof.
  eexists. eexists. split; [vm_compute; reflexivity|]. split; [vm_compute; reflexivity|].
  split; [vm_compute; reflexivity|]. split.
  - split; [repeat constructor; cbn; lia|]. vm_compute. discriminate.
  - vm_compute. reflexivity.
Qed.
