(** C02 — executable model of types/vote_set.go (addVote, addVerifiedVote, SetPeerMaj23,
    TwoThirdsMajority, HasTwoThirdsAny, HasAll, MakeCommit) and of
    ValidatorSet.VerifyCommit / Commit.ValidateBasic (types/validator_set.go, types/commit.go).

    Signatures are ideal: a signature value records who produced it and over which
    canonical content; [s_id] is the identity of the byte string (two signatures are
    byte-equal iff their ids are equal).  The harness, which creates every signature
    with real keys, maps each real signature to that tuple (C11 proves that the sign
    bytes determine the content).  All int64 arithmetic goes through [wrap64]. *)
From Coq Require Import List ZArith NArith Bool Lia.
From Kardia Require Import Base.Int64 Base.ListX.
Import ListNotations.
Local Open Scope Z_scope.

(* ------------------------------------------------------------------ *)
(** * Data *)

Record blockid := { b_hash : N; b_total : N; b_phash : N }.

Definition bid_eqb (a b : blockid) : bool :=
  N.eqb (b_hash a) (b_hash b) && N.eqb (b_total a) (b_total b) && N.eqb (b_phash a) (b_phash b).
Definition bid_zero : blockid := {| b_hash := 0; b_total := 0; b_phash := 0 |}.
(** BlockID.IsZero / IsComplete (types/block.go) *)
Definition bid_is_zero (b : blockid) : bool :=
  N.eqb (b_hash b) 0 && (N.eqb (b_total b) 0 && N.eqb (b_phash b) 0).
Definition bid_is_complete (b : blockid) : bool :=
  negb (N.eqb (b_hash b) 0) && negb (N.eqb (b_total b) 0 && N.eqb (b_phash b) 0).

(** BlockID.Key(): hash, parts hash and parts total (fixed-width hex strings, then
    ":" and the decimal total) — the triple below is what the string determines. *)
Definition key (b : blockid) : N * N * N := (b_hash b, b_phash b, b_total b).
Definition key_eqb (a b : blockid) : bool :=
  let '(h1, p1, t1) := key a in let '(h2, p2, t2) := key b in
  N.eqb h1 h2 && N.eqb p1 p2 && N.eqb t1 t2.

Definition PREVOTE : N := 1%N.
Definition PRECOMMIT : N := 2%N.

Record sigv := {
  s_id : N;          (* identity of the byte string *)
  s_empty : bool;    (* len(signature) = 0 *)
  s_signer : N;      (* address whose key produced it; 0 = nobody (garbage bytes) *)
  s_chain : N; s_type : N; s_height : N; s_round : N; s_bid : blockid; s_time : N }.

Definition sig_none : sigv :=
  {| s_id := 0; s_empty := true; s_signer := 0; s_chain := 0; s_type := 0; s_height := 0;
     s_round := 0; s_bid := bid_zero; s_time := 0 |}.

Record vote := {
  v_idx : N; v_addr : N; v_height : N; v_round : N; v_type : N; v_time : N;
  v_bid : blockid; v_sig : sigv }.

Record validator := { val_addr : N; val_power : Z }.

(** VerifySignature(addr, Keccak(VoteSignBytes(chain, vote)), sig) with ideal signatures *)
Definition sig_valid (chain addr ty h r : N) (b : blockid) (t : N) (s : sigv) : bool :=
  negb (s_empty s) && negb (N.eqb (s_signer s) 0) && N.eqb (s_signer s) addr &&
  N.eqb (s_chain s) chain && N.eqb (s_type s) ty && N.eqb (s_height s) h &&
  N.eqb (s_round s) r && bid_eqb (s_bid s) b && N.eqb (s_time s) t.

Definition vote_sig_valid (chain addr : N) (v : vote) : bool :=
  sig_valid chain addr (v_type v) (v_height v) (v_round v) (v_bid v) (v_time v) (v_sig v).

Record blockvotes := { bv_peermaj : bool; bv_votes : list (option vote); bv_sum : Z }.

Record voteset := {
  vs_chain : N; vs_height : N; vs_round : N; vs_type : N;
  vs_vals : list validator;
  vs_votes : list (option vote);
  vs_sum : Z;
  vs_maj23 : option blockid;
  vs_byblock : list (blockid * blockvotes);
  vs_peers : list (N * blockid) }.

Inductive verr := ENone | EUnexpectedStep | EInvalidIndex | EInvalidAddress
                | ENonDetSig | EInvalidSig | EConflict.

(* ------------------------------------------------------------------ *)
(** * Validator-set total (updateTotalVotingPower: safeAddClip, no panic below the cap) *)

Definition total_power (vals : list validator) : Z :=
  fold_left (fun acc v => safe_add_clip acc (val_power v)) vals 0.

(** voteSet.valSet.TotalVotingPower()*2/3 + 1 in int64 *)
Definition quorum (vals : list validator) : Z :=
  wrap64 (div64 (wrap64 (total_power vals * 2)) 3 + 1).
Definition two_thirds (vals : list validator) : Z :=
  div64 (wrap64 (total_power vals * 2)) 3.

(* ------------------------------------------------------------------ *)
(** * VoteSet *)

Definition new_voteset (chain h r ty : N) (vals : list validator) : voteset :=
  {| vs_chain := chain; vs_height := h; vs_round := r; vs_type := ty; vs_vals := vals;
     vs_votes := repeat None (length vals); vs_sum := 0; vs_maj23 := None;
     vs_byblock := []; vs_peers := [] |}.

Fixpoint bb_find (b : blockid) (l : list (blockid * blockvotes)) : option blockvotes :=
  match l with
  | [] => None
  | (k, bv) :: t => if key_eqb k b then Some bv else bb_find b t
  end.

Fixpoint bb_set (b : blockid) (bv : blockvotes) (l : list (blockid * blockvotes))
  : list (blockid * blockvotes) :=
  match l with
  | [] => [(b, bv)]
  | (k, x) :: t => if key_eqb k b then (k, bv) :: t else (k, x) :: bb_set b bv t
  end.

Definition opt_join {A} (o : option (option A)) : option A :=
  match o with Some (Some x) => Some x | _ => None end.

Definition vote_at (l : list (option vote)) (i : nat) : option vote := opt_join (nth_error l i).

(** getVote *)
Definition get_vote (vs : voteset) (i : nat) (b : blockid) : option vote :=
  match vote_at (vs_votes vs) i with
  | Some ex => if key_eqb (v_bid ex) b then Some ex
               else match bb_find b (vs_byblock vs) with
                    | Some bv => vote_at (bv_votes bv) i | None => None end
  | None => match bb_find b (vs_byblock vs) with
            | Some bv => vote_at (bv_votes bv) i | None => None end
  end.

(** blockVotes.addVerifiedVote *)
Definition bv_add (bv : blockvotes) (i : nat) (v : vote) (power : Z) : blockvotes :=
  match vote_at (bv_votes bv) i with
  | Some _ => bv
  | None => {| bv_peermaj := bv_peermaj bv;
               bv_votes := set_nth i (Some v) (bv_votes bv);
               bv_sum := wrap64 (bv_sum bv + power) |}
  end.

(** copy votesByBlock.votes over voteSet.votes where present *)
Fixpoint copy_over (src dst : list (option vote)) : list (option vote) :=
  match src, dst with
  | Some v :: s, _ :: d => Some v :: copy_over s d
  | None :: s, x :: d => x :: copy_over s d
  | _, d => d
  end.

Definition with_votes (vs : voteset) votes sum : voteset :=
  {| vs_chain := vs_chain vs; vs_height := vs_height vs; vs_round := vs_round vs;
     vs_type := vs_type vs; vs_vals := vs_vals vs; vs_votes := votes; vs_sum := sum;
     vs_maj23 := vs_maj23 vs; vs_byblock := vs_byblock vs; vs_peers := vs_peers vs |}.

Definition maj_is (vs : voteset) (b : blockid) : bool :=
  match vs_maj23 vs with Some m => key_eqb m b | None => false end.

(** addVerifiedVote; returns (state, added, conflicting?) *)
Definition add_verified (vs : voteset) (v : vote) (i : nat) (power : Z)
  : voteset * bool * bool :=
  let b := v_bid v in
  let existing := vote_at (vs_votes vs) i in
  let conflicting := match existing with Some _ => true | None => false end in
  let vs1 :=
    match existing with
    | Some _ => if maj_is vs b then with_votes vs (set_nth i (Some v) (vs_votes vs)) (vs_sum vs)
                else vs
    | None => with_votes vs (set_nth i (Some v) (vs_votes vs)) (wrap64 (vs_sum vs + power))
    end in
  let proceed (bv : blockvotes) :=
    let orig := bv_sum bv in
    let q := quorum (vs_vals vs) in
    let bv' := bv_add bv i v power in
    let byblock' := bb_set b bv' (vs_byblock vs1) in
    let crossed := Z.ltb orig q && Z.leb q (bv_sum bv') in
    let '(maj', votes') :=
      if crossed then
        match vs_maj23 vs1 with
        | None => (Some b, copy_over (bv_votes bv') (vs_votes vs1))
        | Some m => (Some m, vs_votes vs1)
        end
      else (vs_maj23 vs1, vs_votes vs1) in
    ({| vs_chain := vs_chain vs1; vs_height := vs_height vs1; vs_round := vs_round vs1;
        vs_type := vs_type vs1; vs_vals := vs_vals vs1; vs_votes := votes'; vs_sum := vs_sum vs1;
        vs_maj23 := maj'; vs_byblock := byblock'; vs_peers := vs_peers vs1 |}, true, conflicting) in
  match bb_find b (vs_byblock vs1) with
  | Some bv => if conflicting && negb (bv_peermaj bv) then (vs1, false, conflicting)
               else proceed bv
  | None => if conflicting then (vs1, false, conflicting)
            else proceed {| bv_peermaj := false; bv_votes := repeat None (length (vs_vals vs));
                            bv_sum := 0 |}
  end.

(** addVote; returns (state, added, error class) *)
Definition add_vote (vs : voteset) (v : vote) : voteset * bool * verr :=
  let i := N.to_nat (v_idx v) in
  if N.eqb (v_addr v) 0 then (vs, false, EInvalidAddress)
  else if negb (N.eqb (v_height v) (vs_height vs) && N.eqb (v_round v) (vs_round vs)
                && N.eqb (v_type v) (vs_type vs)) then (vs, false, EUnexpectedStep)
  else match nth_error (vs_vals vs) i with
       | None => (vs, false, EInvalidIndex)
       | Some val =>
         if negb (N.eqb (v_addr v) (val_addr val)) then (vs, false, EInvalidAddress)
         else match get_vote vs i (v_bid v) with
              | Some ex => if N.eqb (s_id (v_sig ex)) (s_id (v_sig v)) then (vs, false, ENone)
                           else (vs, false, ENonDetSig)
              | None =>
                if negb (vote_sig_valid (vs_chain vs) (val_addr val) v) then (vs, false, EInvalidSig)
                else let '(vs', added, conflicting) := add_verified vs v i (val_power val) in
                     (vs', added, if conflicting then EConflict else ENone)
              end
       end.

Fixpoint peer_find (p : N) (l : list (N * blockid)) : option blockid :=
  match l with
  | [] => None
  | (q, b) :: t => if N.eqb q p then Some b else peer_find p t
  end.

(** SetPeerMaj23; returns (state, error?) *)
Definition set_peer_maj23 (vs : voteset) (peer : N) (b : blockid) : voteset * bool :=
  match peer_find peer (vs_peers vs) with
  | Some ex => (vs, negb (bid_eqb ex b))
  | None =>
    let peers' := (peer, b) :: vs_peers vs in
    let byblock' :=
      match bb_find b (vs_byblock vs) with
      | Some bv => if bv_peermaj bv then vs_byblock vs
                   else bb_set b {| bv_peermaj := true; bv_votes := bv_votes bv; bv_sum := bv_sum bv |}
                               (vs_byblock vs)
      | None => bb_set b {| bv_peermaj := true; bv_votes := repeat None (length (vs_vals vs));
                            bv_sum := 0 |} (vs_byblock vs)
      end in
    ({| vs_chain := vs_chain vs; vs_height := vs_height vs; vs_round := vs_round vs;
        vs_type := vs_type vs; vs_vals := vs_vals vs; vs_votes := vs_votes vs; vs_sum := vs_sum vs;
        vs_maj23 := vs_maj23 vs; vs_byblock := byblock'; vs_peers := peers' |}, false)
  end.

Definition has_two_thirds_any (vs : voteset) : bool := Z.ltb (two_thirds (vs_vals vs)) (vs_sum vs).
Definition has_all (vs : voteset) : bool := Z.eqb (vs_sum vs) (total_power (vs_vals vs)).
Definition bit_array (vs : voteset) : list bool :=
  map (fun o => match o with Some _ => true | None => false end) (vs_votes vs).

(* ------------------------------------------------------------------ *)
(** * Commits *)

Definition FLAG_ABSENT : N := 1%N.
Definition FLAG_COMMIT : N := 2%N.
Definition FLAG_NIL : N := 3%N.

Record commitsig := { cs_flag : N; cs_addr : N; cs_time : N; cs_sig : sigv }.
Record commit := { c_height : N; c_round : N; c_bid : blockid; c_sigs : list commitsig }.

Definition cs_absent : commitsig := {| cs_flag := FLAG_ABSENT; cs_addr := 0; cs_time := 0; cs_sig := sig_none |}.

(** Vote.CommitSig(): None models the panic on a block id that is neither zero nor complete *)
Definition vote_commitsig (o : option vote) : option commitsig :=
  match o with
  | None => Some cs_absent
  | Some v =>
    if bid_is_complete (v_bid v) then
      Some {| cs_flag := FLAG_COMMIT; cs_addr := v_addr v; cs_time := v_time v; cs_sig := v_sig v |}
    else if bid_is_zero (v_bid v) then
      Some {| cs_flag := FLAG_NIL; cs_addr := v_addr v; cs_time := v_time v; cs_sig := v_sig v |}
    else None
  end.

Fixpoint make_sigs (m : blockid) (l : list (option vote)) : option (list commitsig) :=
  match l with
  | [] => Some []
  | o :: t =>
    match vote_commitsig o, make_sigs m t with
    | Some cs, Some rest =>
      let cs' := match o with
                 | Some v => if N.eqb (cs_flag cs) FLAG_COMMIT && negb (bid_eqb (v_bid v) m)
                             then cs_absent else cs
                 | None => cs end in
      Some (cs' :: rest)
    | _, _ => None
    end
  end.

(** MakeCommit: None = panic (wrong type, no majority, malformed vote) *)
Definition make_commit (vs : voteset) : option commit :=
  if negb (N.eqb (vs_type vs) PRECOMMIT) then None else
  match vs_maj23 vs with
  | None => None
  | Some m => match make_sigs m (vs_votes vs) with
              | Some sigs => Some {| c_height := vs_height vs; c_round := vs_round vs;
                                     c_bid := m; c_sigs := sigs |}
              | None => None end
  end.

Inductive cerr := COk | CBasic | CSize | CHeight | CBlockID | CSig | CAddr | CPower.

Definition cs_validate_basic (cs : commitsig) : bool :=
  if N.eqb (cs_flag cs) FLAG_ABSENT then
    N.eqb (cs_addr cs) 0 && N.eqb (cs_time cs) 0 && s_empty (cs_sig cs)
  else if N.eqb (cs_flag cs) FLAG_COMMIT || N.eqb (cs_flag cs) FLAG_NIL then
    negb (s_empty (cs_sig cs))
  else false.

Definition commit_validate_basic (c : commit) : bool :=
  if N.leb 1 (c_height c) then
    negb (bid_is_zero (c_bid c)) &&
    match c_sigs c with [] => false | _ => true end &&
    forallb cs_validate_basic (c_sigs c)
  else true.

(** the tally loop of VerifyCommit: the tallied power, or the first failure.  A non-absent slot must
    name the validator of that position (the sign bytes do not cover the address, but MedianTime
    weighs the slot's timestamp by it) and carry its valid precommit signature. *)
Inductive tres := TOk (z : Z) | TSig | TAddr.
Fixpoint tally (chain h r : N) (cb want : blockid) (vals : list validator) (sigs : list commitsig)
         (acc : Z) : tres :=
  match vals, sigs with
  | val :: vt, cs :: st =>
    if N.eqb (cs_flag cs) FLAG_ABSENT then tally chain h r cb want vt st acc
    else if negb (N.eqb (cs_addr cs) (val_addr val)) then TAddr
    else
      let vb := if N.eqb (cs_flag cs) FLAG_COMMIT then cb else bid_zero in
      if sig_valid chain (val_addr val) PRECOMMIT h r vb (cs_time cs) (cs_sig cs) then
        tally chain h r cb want vt st (if bid_eqb want vb then wrap64 (acc + val_power val) else acc)
      else TSig
  | _, _ => TOk acc
  end.

(** ValidatorSet.VerifyCommit *)
Definition verify_commit (vals : list validator) (chain : N) (want : blockid) (h : N) (c : commit)
  : cerr :=
  if negb (commit_validate_basic c) then CBasic
  else if negb (Nat.eqb (length vals) (length (c_sigs c))) then CSize
  else if negb (N.eqb h (c_height c)) then CHeight
  else if negb (bid_eqb want (c_bid c)) then CBlockID
  else match tally chain (c_height c) (c_round c) (c_bid c) want vals (c_sigs c) 0 with
       | TSig => CSig
       | TAddr => CAddr
       | TOk got => if Z.leb got (two_thirds vals) then CPower else COk
       end.

(* ------------------------------------------------------------------ *)
(** * Operation histories (what the harness drives on the real VoteSet) *)

Inductive op :=
| OpVote (v : vote)
| OpPeer (peer : N) (b : blockid)
| OpMakeCommit
| OpVerify (want : blockid) (h : N) (c : commit).

Inductive obs :=
| ObVote (added : bool) (e : verr) (maj : option blockid) (any all : bool) (bits : list bool)
| ObPeer (err : bool) (maj : option blockid)
| ObCommit (c : option commit)
| ObVerify (e : cerr).

Definition step (vs : voteset) (o : op) : voteset * obs :=
  match o with
  | OpVote v => let '(vs', added, e) := add_vote vs v in
                (vs', ObVote added e (vs_maj23 vs') (has_two_thirds_any vs') (has_all vs') (bit_array vs'))
  | OpPeer p b => let '(vs', e) := set_peer_maj23 vs p b in (vs', ObPeer e (vs_maj23 vs'))
  | OpMakeCommit => (vs, ObCommit (make_commit vs))
  | OpVerify want h c => (vs, ObVerify (verify_commit (vs_vals vs) (vs_chain vs) want h c))
  end.

Fixpoint run (vs : voteset) (ops : list op) : voteset * list obs :=
  match ops with
  | [] => (vs, [])
  | o :: t => let '(vs1, ob) := step vs o in
              let '(vs2, obs) := run vs1 t in (vs2, ob :: obs)
  end.

Definition final (vs : voteset) (ops : list op) : voteset := fst (run vs ops).
