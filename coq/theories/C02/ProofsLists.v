(** C02 — list-level facts used by the vote-set proofs: exact power of a set of positions
    (a boolean mask, or the [Some] positions of a vote list), [vote_at], [copy_over],
    the by-block association list. *)
From Coq Require Import List ZArith NArith Bool Lia.
From Kardia Require Import Base.Int64 Base.ListX C02.Model C02.Proofs Generated.C02Facts.
Import ListNotations.
Local Open Scope Z_scope.

(* ------------------------------------------------------------------ *)
(** * Exact power of a set of validator positions *)

Definition is_some {A} (o : option A) : bool := match o with Some _ => true | None => false end.

(** exact (unbounded [Z]) sum of the powers of the validators whose position is [true] in
    the mask; one summand per position, so every validator counts at most once *)
Fixpoint mask_power (vals : list validator) (m : list bool) : Z :=
  match vals, m with
  | val :: vt, x :: mt => (if x then val_power val else 0) + mask_power vt mt
  | _, _ => 0
  end.

(** exact power of the validators that have a vote in the position-indexed list [w] *)
Definition voters_power (vals : list validator) (w : list (option vote)) : Z :=
  mask_power vals (map is_some w).

Lemma mask_power_nil_r vals : mask_power vals [] = 0.
Proof. destruct vals; reflexivity. Qed.

Lemma mask_power_bounds vals m :
  Forall (fun v => 0 <= val_power v) vals -> 0 <= mask_power vals m <= sum_powers vals.
Proof.
  intros Hf; revert m; induction Hf as [|v vs Hv Hvs IH]; intros m; [destruct m; simpl; lia|].
  destruct m as [|x mt].
  - rewrite mask_power_nil_r. pose proof (sum_powers_nonneg _ Hvs).
    change (sum_powers (v :: vs)) with (val_power v + sum_powers vs). lia.
  - cbn [mask_power]. change (sum_powers (v :: vs)) with (val_power v + sum_powers vs).
    specialize (IH mt). destruct x; lia.
Qed.

Lemma mask_power_mono vals m m' :
  Forall (fun v => 0 <= val_power v) vals ->
  (forall i, nth i m false = true -> nth i m' false = true) ->
  mask_power vals m <= mask_power vals m'.
Proof.
  intros Hf; revert m m'; induction Hf as [|v vs Hv Hvs IH]; intros m m' H; [destruct m, m'; simpl; lia|].
  destruct m as [|x mt].
  - rewrite mask_power_nil_r. apply (mask_power_bounds (v :: vs)). constructor; auto.
  - assert (Ht : forall i, nth i mt false = true -> nth i (tl m') false = true).
    { intros i Hi. specialize (H (S i) Hi). destruct m'; simpl in *; [discriminate|exact H]. }
    specialize (IH mt (tl m') Ht).
    destruct m' as [|y mt']; cbn [mask_power tl] in *.
    + rewrite mask_power_nil_r in IH. destruct x; [specialize (H O eq_refl); discriminate|]. lia.
    + destruct x; [rewrite (H O eq_refl : y = true)|destruct y]; lia.
Qed.

Lemma mask_power_ext vals m m' :
  Forall (fun v => 0 <= val_power v) vals ->
  (forall i, nth i m false = nth i m' false) ->
  mask_power vals m = mask_power vals m'.
Proof.
  intros Hf H. apply Z.le_antisymm; apply mask_power_mono; auto; intros i; rewrite H; auto.
Qed.

(** two disjoint sets of positions hold together at most the total *)
Lemma mask_power_disjoint vals m m' :
  Forall (fun v => 0 <= val_power v) vals ->
  (forall i, nth i m false = true -> nth i m' false = true -> False) ->
  mask_power vals m + mask_power vals m' <= sum_powers vals.
Proof.
  intros Hf; revert m m'; induction Hf as [|v vs Hv Hvs IH]; intros m m' H; [destruct m, m'; simpl; lia|].
  assert (Hvv : Forall (fun v => 0 <= val_power v) (v :: vs)) by (constructor; auto).
  destruct m as [|x mt].
  - rewrite mask_power_nil_r. pose proof (mask_power_bounds (v :: vs) m' Hvv). lia.
  - destruct m' as [|y mt'].
    + rewrite mask_power_nil_r. pose proof (mask_power_bounds (v :: vs) (x :: mt) Hvv). lia.
    + cbn [mask_power]. change (sum_powers (v :: vs)) with (val_power v + sum_powers vs).
      assert (Ht : forall i, nth i mt false = true -> nth i mt' false = true -> False)
        by (intros i; exact (H (S i))).
      specialize (IH mt mt' Ht).
      destruct x, y; try lia. exfalso. exact (H O eq_refl eq_refl).
Qed.

Lemma mask_power_set_new vals m i val :
  nth_error vals i = Some val -> nth_error m i = Some false ->
  mask_power vals (set_nth i true m) = mask_power vals m + val_power val.
Proof.
  revert m i; induction vals as [|v vs IH]; intros m i Hv Hm; [destruct i; discriminate|].
  destruct m as [|x mt]; [destruct i; discriminate|].
  destruct i as [|i]; cbn [set_nth mask_power nth_error] in *.
  - injection Hv as ->. injection Hm as ->. lia.
  - rewrite (IH mt i Hv Hm). lia.
Qed.

Lemma set_nth_same {A} i (x : A) l : nth_error l i = Some x -> set_nth i x l = l.
Proof.
  revert i; induction l as [|h t IH]; intros [|i] H; simpl in *; try discriminate.
  - injection H as ->. reflexivity.
  - f_equal. auto.
Qed.

Lemma map_set_nth {A B} (f : A -> B) i x l : map f (set_nth i x l) = set_nth i (f x) (map f l).
Proof. revert i; induction l as [|h t IH]; intros [|i]; simpl; auto. f_equal. apply IH. Qed.

(* ------------------------------------------------------------------ *)
(** * [vote_at] *)

Lemma vote_at_nil i : vote_at [] i = None.
Proof. unfold vote_at. destruct i; reflexivity. Qed.

Lemma vote_at_cons_S o l i : vote_at (o :: l) (S i) = vote_at l i.
Proof. reflexivity. Qed.

Lemma vote_at_Some_lt l i v : vote_at l i = Some v -> (i < length l)%nat.
Proof.
  unfold vote_at. intros H. apply nth_error_Some. destruct (nth_error l i); [discriminate|discriminate].
Qed.

Lemma vote_at_nth_error l i v : vote_at l i = Some v <-> nth_error l i = Some (Some v).
Proof.
  unfold vote_at, opt_join. destruct (nth_error l i) as [[u|]|]; split; intros H; try discriminate; congruence.
Qed.

Lemma vote_at_set_eq l i v : (i < length l)%nat -> vote_at (set_nth i (Some v) l) i = Some v.
Proof. intros H. unfold vote_at. rewrite nth_error_set_nth_eq by auto. reflexivity. Qed.

Lemma vote_at_set_neq l i j x : i <> j -> vote_at (set_nth i x l) j = vote_at l j.
Proof. intros H. unfold vote_at. rewrite nth_error_set_nth_neq by auto. reflexivity. Qed.

Lemma vote_at_repeat_none n i : vote_at (repeat None n) i = None.
Proof.
  unfold vote_at. destruct (nth_error (repeat None n) i) as [o|] eqn:E; [|reflexivity].
  apply nth_error_In in E. apply repeat_spec in E. subst o. reflexivity.
Qed.

Lemma nth_mask (w : list (option vote)) i : nth i (map is_some w) false = is_some (vote_at w i).
Proof.
  revert i; induction w as [|o t IH]; intros [|i]; simpl; auto.
  - destruct o; reflexivity.
  - rewrite IH. reflexivity.
Qed.

Lemma is_some_true {A} (o : option A) : is_some o = true <-> o <> None.
Proof. destruct o; simpl; split; intros; congruence. Qed.

Lemma not_none_ex {A} (o : option A) : o <> None -> exists x, o = Some x.
Proof. destruct o; [eauto|congruence]. Qed.

(* ------------------------------------------------------------------ *)
(** * [voters_power] *)

Lemma voters_power_bounds vals w :
  Forall (fun v => 0 <= val_power v) vals -> 0 <= voters_power vals w <= sum_powers vals.
Proof. apply mask_power_bounds. Qed.

Lemma voters_power_repeat_none vals n : voters_power vals (repeat None n) = 0.
Proof.
  unfold voters_power. revert n; induction vals as [|v vs IH]; intros n; [reflexivity|].
  destruct n; simpl; [reflexivity|]. rewrite IH. reflexivity.
Qed.

Lemma voters_power_set_new vals w i v val :
  nth_error vals i = Some val -> vote_at w i = None -> (i < length w)%nat ->
  voters_power vals (set_nth i (Some v) w) = voters_power vals w + val_power val.
Proof.
  intros Hv Hw Hl. unfold voters_power. rewrite map_set_nth. cbn [is_some].
  apply mask_power_set_new; auto.
  rewrite nth_error_map. unfold vote_at, opt_join in Hw.
  destruct (nth_error w i) as [[u|]|] eqn:E; try discriminate; [reflexivity|].
  apply nth_error_None in E. lia.
Qed.

Lemma voters_power_set_same vals w i v u :
  vote_at w i = Some u -> voters_power vals (set_nth i (Some v) w) = voters_power vals w.
Proof.
  intros Hw. unfold voters_power. rewrite map_set_nth. cbn [is_some].
  rewrite set_nth_same; auto. rewrite nth_error_map. apply vote_at_nth_error in Hw. rewrite Hw. reflexivity.
Qed.

Lemma voters_power_mono vals w w' :
  Forall (fun v => 0 <= val_power v) vals ->
  (forall i, vote_at w i <> None -> vote_at w' i <> None) ->
  voters_power vals w <= voters_power vals w'.
Proof.
  intros Hf H. apply mask_power_mono; auto. intros i. rewrite !nth_mask, !is_some_true. apply H.
Qed.

Lemma voters_power_ext vals w w' :
  Forall (fun v => 0 <= val_power v) vals ->
  (forall i, vote_at w i <> None <-> vote_at w' i <> None) ->
  voters_power vals w = voters_power vals w'.
Proof.
  intros Hf H. apply Z.le_antisymm; apply voters_power_mono; auto; intros i; apply H.
Qed.

(** a mask and a vote list with no common position *)
Lemma mask_voters_disjoint vals m w :
  Forall (fun v => 0 <= val_power v) vals ->
  (forall i, nth i m false = true -> vote_at w i <> None -> False) ->
  mask_power vals m + voters_power vals w <= sum_powers vals.
Proof.
  intros Hf H. apply mask_power_disjoint; auto. intros i Hm. rewrite nth_mask, is_some_true. apply H; auto.
Qed.

Lemma mask_le_voters vals m w :
  Forall (fun v => 0 <= val_power v) vals ->
  (forall i, nth i m false = true -> vote_at w i <> None) ->
  mask_power vals m <= voters_power vals w.
Proof.
  intros Hf H. apply mask_power_mono; auto. intros i Hm. rewrite nth_mask, is_some_true. auto.
Qed.

(* ------------------------------------------------------------------ *)
(** * [copy_over] *)

Lemma copy_over_length src dst : length (copy_over src dst) = length dst.
Proof.
  revert dst; induction src as [|o s IH]; intros dst; [destruct dst; reflexivity|].
  destruct dst as [|x d]; [destruct o; reflexivity|]. destruct o; simpl; rewrite IH; reflexivity.
Qed.

Lemma vote_at_copy_over src dst i :
  length src = length dst ->
  vote_at (copy_over src dst) i = match vote_at src i with Some v => Some v | None => vote_at dst i end.
Proof.
  revert dst i; induction src as [|o s IH]; intros dst i Hl.
  - destruct dst; [|discriminate]. cbn [copy_over]. rewrite vote_at_nil. reflexivity.
  - destruct dst as [|x d]; [discriminate|]. injection Hl as Hl.
    destruct i as [|i].
    + destruct o; reflexivity.
    + destruct o; cbn [copy_over]; rewrite !vote_at_cons_S; apply IH; auto.
Qed.

(* ------------------------------------------------------------------ *)
(** * The by-block association list *)

Lemma key_eqb_refl b : key_eqb b b = true.
Proof. apply key_eqb_eq. reflexivity. Qed.

Lemma key_eqb_false a b : key_eqb a b = false <-> a <> b.
Proof.
  split.
  - intros H E. apply key_eqb_eq in E. congruence.
  - intros H. destruct (key_eqb a b) eqn:E; [|reflexivity]. apply key_eqb_eq in E. contradiction.
Qed.

Lemma bb_find_set b b' bv l :
  bb_find b (bb_set b' bv l) = if key_eqb b' b then Some bv else bb_find b l.
Proof.
  induction l as [|[k x] t IH]; cbn [bb_set bb_find].
  - reflexivity.
  - destruct (key_eqb k b') eqn:Ekb'; cbn [bb_find].
    + apply key_eqb_eq in Ekb'. subst k. destruct (key_eqb b' b); reflexivity.
    + rewrite IH. destruct (key_eqb k b) eqn:Ekb; [|reflexivity].
      apply key_eqb_eq in Ekb. subst k. apply key_eqb_false in Ekb'.
      assert (E : key_eqb b' b = false) by (apply key_eqb_false; congruence).
      rewrite E. reflexivity.
Qed.

Lemma bid_is_zero_eq b : bid_is_zero b = true -> b = bid_zero.
Proof.
  unfold bid_is_zero, bid_zero. destruct b as [hh t p]; cbn. rewrite !andb_true_iff, !N.eqb_eq.
  intros [-> [-> ->]]. reflexivity.
Qed.

Lemma bid_complete_not_zero b : bid_is_complete b = true -> bid_is_zero b = false.
Proof.
  unfold bid_is_complete, bid_is_zero. destruct (N.eqb (b_hash b) 0); simpl; [discriminate|reflexivity].
Qed.

(* ------------------------------------------------------------------ *)
(** * Masks against the signed power of a commit *)

Lemma mask_le_signed chain h r want vals m sigs :
  Forall (fun v => 0 <= val_power v) vals ->
  (forall i val cs, nth i m false = true -> nth_error vals i = Some val -> nth_error sigs i = Some cs ->
                    signs_block chain h r want val cs = true) ->
  length sigs = length vals ->
  mask_power vals m <= signed_power chain h r want vals sigs.
Proof.
  intros Hf; revert m sigs; induction Hf as [|v vs Hv Hvs IH]; intros m sigs H Hl; [destruct m; simpl; lia|].
  destruct sigs as [|cs st]; [discriminate|]. injection Hl as Hl.
  destruct m as [|x mt].
  - rewrite mask_power_nil_r. apply (signed_power_bounds chain h r want (v :: vs) (cs :: st)). constructor; auto.
  - cbn [mask_power signed_power].
    assert (Ht : forall i val cs0, nth i mt false = true -> nth_error vs i = Some val -> nth_error st i = Some cs0 ->
                                   signs_block chain h r want val cs0 = true)
      by (intros i val cs0; exact (H (S i) val cs0)).
    specialize (IH mt st Ht Hl).
    destruct x.
    + rewrite (H O v cs eq_refl eq_refl eq_refl). lia.
    + destruct (signs_block chain h r want v cs); lia.
Qed.

(** the commit signature MakeCommit emits for a slot of voteSet.votes, when every vote has a
    zero or complete block id *)
Definition commitsig_of (m : blockid) (o : option vote) : commitsig :=
  match o with
  | None => cs_absent
  | Some v => if bid_is_complete (v_bid v)
              then if bid_eqb (v_bid v) m
                   then {| cs_flag := FLAG_COMMIT; cs_addr := v_addr v; cs_time := v_time v; cs_sig := v_sig v |}
                   else cs_absent
              else {| cs_flag := FLAG_NIL; cs_addr := v_addr v; cs_time := v_time v; cs_sig := v_sig v |}
  end.

Lemma make_sigs_map m l :
  (forall v, In (Some v) l -> bid_is_zero (v_bid v) = true \/ bid_is_complete (v_bid v) = true) ->
  make_sigs m l = Some (map (commitsig_of m) l).
Proof.
  induction l as [|o t IH]; intros H; [reflexivity|].
  cbn [make_sigs map]. rewrite IH by (intros v Hv; apply H; right; auto).
  destruct o as [v|]; cbn [vote_commitsig commitsig_of]; [|reflexivity].
  destruct (bid_is_complete (v_bid v)) eqn:Ec.
  - cbn [cs_flag]. rewrite N.eqb_refl. cbn [andb].
    destruct (bid_eqb (v_bid v) m); reflexivity.
  - destruct (H v (or_introl eq_refl)) as [Hz|Hc]; [|congruence]. rewrite Hz. cbn [cs_flag].
    change (N.eqb FLAG_NIL FLAG_COMMIT) with false. reflexivity.
Qed.
