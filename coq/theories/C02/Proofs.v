(** C02 — proofs about the vote-set / commit-verification model. *)
From Coq Require Import List ZArith NArith Bool Lia.
From Kardia Require Import Base.Int64 Base.ListX C02.Model Generated.C02Facts.
Import ListNotations.
Local Open Scope Z_scope.
Ltac Zify.zify_post_hook ::= Z.div_mod_to_equations.

(* ------------------------------------------------------------------ *)
(** * Arithmetic of "+2/3" *)

Definition sum_powers (vals : list validator) : Z := fold_right (fun v acc => val_power v + acc) 0 vals.

(** what NewValidatorSet / UpdateWithChangeSet guarantee (C12): non-negative powers, total below the cap *)
Definition wf_vals (vals : list validator) : Prop :=
  Forall (fun v => 0 <= val_power v) vals /\ sum_powers vals <= max_total_voting_power.

(** side condition on the generated constant: 2*cap (and a fortiori cap) fits in int64 *)
Lemma cap_fits : 0 <= max_total_voting_power /\ 8 * max_total_voting_power <= max_int64.
Proof. unfold max_total_voting_power, max_int64, two63. lia. Qed.

Lemma sum_powers_nonneg vals : Forall (fun v => 0 <= val_power v) vals -> 0 <= sum_powers vals.
Proof. induction 1; simpl; lia. Qed.

Lemma fold_clip_exact vals acc :
  Forall (fun v => 0 <= val_power v) vals -> 0 <= acc -> acc + sum_powers vals <= max_int64 ->
  fold_left (fun a v => safe_add_clip a (val_power v)) vals acc = acc + sum_powers vals.
Proof.
  revert acc; induction vals as [|v vs IH]; simpl; intros acc Hf Ha Hb; [lia|].
  inversion Hf as [|? ? Hv Hvs]; subst.
  pose proof (sum_powers_nonneg _ Hvs) as Hn.
  rewrite safe_add_clip_exact by (unfold in_int64, min_int64, max_int64, two63 in *; lia).
  rewrite IH; auto; lia.
Qed.

Lemma total_power_exact vals : wf_vals vals -> total_power vals = sum_powers vals.
Proof.
  intros [Hf Hc]. unfold total_power. rewrite fold_clip_exact; auto; try lia.
  pose proof cap_fits. lia.
Qed.

Lemma two_thirds_exact vals : wf_vals vals -> two_thirds vals = sum_powers vals * 2 / 3.
Proof.
  intros Hw. pose proof Hw as [Hf Hc]. pose proof (sum_powers_nonneg _ Hf) as Hn. pose proof cap_fits as [_ Hcap].
  unfold two_thirds, div64. rewrite total_power_exact by auto.
  rewrite (wrap64_id (sum_powers vals * 2)) by (unfold in_int64, min_int64, max_int64, two63 in *; lia).
  rewrite Z.quot_div_nonneg by lia.
  apply wrap64_id. unfold in_int64, min_int64, max_int64, two63 in *. lia.
Qed.

Lemma quorum_exact vals : wf_vals vals -> quorum vals = sum_powers vals * 2 / 3 + 1.
Proof.
  intros Hw. pose proof Hw as [Hf Hc]. pose proof (sum_powers_nonneg _ Hf) as Hn. pose proof cap_fits as [_ Hcap].
  unfold quorum. fold (two_thirds vals). rewrite two_thirds_exact by auto.
  apply wrap64_id. unfold in_int64, min_int64, max_int64, two63 in *. lia.
Qed.

(** the strict two-thirds reading of the integer quorum: for every total T >= 0,
    T*2/3 + 1 <= s  <->  2*T < 3*s   and   T*2/3 < s  <->  2*T < 3*s *)
Lemma quorum_arith T s : 0 <= T -> (T * 2 / 3 + 1 <= s <-> 2 * T < 3 * s).
Proof. intros; lia. Qed.
Lemma any_arith T s : 0 <= T -> (T * 2 / 3 < s <-> 2 * T < 3 * s).
Proof. intros; lia. Qed.

(* ------------------------------------------------------------------ *)
(** * Equality tests *)

Lemma bid_eqb_eq a b : bid_eqb a b = true <-> a = b.
Proof.
  unfold bid_eqb. destruct a, b; simpl. rewrite !andb_true_iff, !N.eqb_eq.
  split; [intros [[-> ->] ->]; reflexivity | intros H; inversion H; auto].
Qed.

Lemma key_eqb_bid_eqb a b : key_eqb a b = bid_eqb a b.
Proof.
  unfold key_eqb, bid_eqb, key. destruct a as [h1 t1 p1], b as [h2 t2 p2]; simpl.
  destruct (N.eqb h1 h2), (N.eqb p1 p2), (N.eqb t1 t2); reflexivity.
Qed.

(** BlockID.Key is injective: equal keys mean equal block ids (all three components) *)
Lemma key_injective a b : key a = key b -> a = b.
Proof. unfold key; destruct a, b; simpl; intros H; inversion H; reflexivity. Qed.

Lemma key_eqb_eq a b : key_eqb a b = true <-> a = b.
Proof. rewrite key_eqb_bid_eqb. apply bid_eqb_eq. Qed.

(* ------------------------------------------------------------------ *)
(** * VerifyCommit soundness *)

(** commit signature [cs] is a valid precommit signature of [val] for exactly block [want]
    at (chain, h, r) *)
Definition signs_block (chain h r : N) (want : blockid) (val : validator) (cs : commitsig) : bool :=
  N.eqb (cs_flag cs) FLAG_COMMIT &&
  sig_valid chain (val_addr val) PRECOMMIT h r want (cs_time cs) (cs_sig cs).

(** exact (unbounded) power of the distinct validators — one position each — whose commit
    signature validly signs [want] *)
Fixpoint signed_power (chain h r : N) (want : blockid) (vals : list validator) (sigs : list commitsig) : Z :=
  match vals, sigs with
  | val :: vt, cs :: st =>
    (if signs_block chain h r want val cs then val_power val else 0) + signed_power chain h r want vt st
  | _, _ => 0
  end.

Lemma signed_power_bounds chain h r want vals sigs :
  Forall (fun v => 0 <= val_power v) vals ->
  0 <= signed_power chain h r want vals sigs <= sum_powers vals.
Proof.
  intros Hf; revert sigs; induction Hf as [|v vs Hv Hvs IH]; intros sigs; simpl; [destruct sigs; lia|].
  destruct sigs as [|cs st]; simpl.
  - pose proof (sum_powers_nonneg _ Hvs). lia.
  - specialize (IH st). destruct (signs_block _ _ _ _ _ _); lia.
Qed.

Lemma tally_exact chain h r cb want vals sigs acc got :
  Forall (fun v => 0 <= val_power v) vals -> 0 <= acc -> acc + sum_powers vals <= max_int64 ->
  bid_is_zero want = false -> bid_eqb want cb = true ->
  tally chain h r cb want vals sigs acc = TOk got ->
  got = acc + signed_power chain h r want vals sigs.
Proof.
  intros Hf; revert sigs acc; induction Hf as [|v vs Hv Hvs IH]; intros sigs acc Ha Hb Hz Hcb Ht.
  - simpl in *. destruct sigs; inversion Ht; lia.
  - destruct sigs as [|cs st]; [simpl in *; inversion Ht; lia|].
    pose proof (sum_powers_nonneg _ Hvs) as Hn.
    cbn [tally signed_power] in *. change (sum_powers (v :: vs)) with (val_power v + sum_powers vs) in *.
    pose proof Hcb as Hww. apply bid_eqb_eq in Hcb; subst cb.
    unfold signs_block.
    destruct (N.eqb (cs_flag cs) FLAG_ABSENT) eqn:Eabs.
    + apply N.eqb_eq in Eabs. rewrite Eabs. change (N.eqb FLAG_ABSENT FLAG_COMMIT) with false. cbn [andb].
      apply IH in Ht; auto; lia.
    + destruct (N.eqb (cs_addr cs) (val_addr v)); cbn [negb] in Ht; [|discriminate].
      destruct (N.eqb (cs_flag cs) FLAG_COMMIT) eqn:Ecom; cbn [andb].
      * destruct (sig_valid chain (val_addr v) PRECOMMIT h r want (cs_time cs) (cs_sig cs)) eqn:Esig; [|discriminate].
        rewrite Hww in Ht.
        rewrite wrap64_id in Ht by (unfold in_int64, min_int64, max_int64, two63 in *; lia).
        apply IH in Ht; auto; lia.
      * destruct (sig_valid chain (val_addr v) PRECOMMIT h r bid_zero (cs_time cs) (cs_sig cs)) eqn:Esig; [|discriminate].
        assert (Hwz : bid_eqb want bid_zero = false).
        { destruct (bid_eqb want bid_zero) eqn:E; [|reflexivity]. apply bid_eqb_eq in E. subst want. discriminate. }
        rewrite Hwz in Ht. apply IH in Ht; auto; lia.
Qed.

(** VerifyCommit accepts only a commit of the right size, height and block id in which
    distinct validators of [vals] holding strictly more than 2/3 of the total power validly
    signed a precommit for exactly [want] at (chain, h, round of the commit). *)
Theorem verify_commit_sound vals chain want h c :
  wf_vals vals -> (1 <= h)%N ->
  verify_commit vals chain want h c = COk ->
  length (c_sigs c) = length vals /\ c_height c = h /\ c_bid c = want /\
  2 * sum_powers vals < 3 * signed_power chain h (c_round c) want vals (c_sigs c).
Proof.
  intros Hw Hh. unfold verify_commit.
  destruct (commit_validate_basic c) eqn:Evb; cbn [negb]; [|discriminate].
  destruct (Nat.eqb (length vals) (length (c_sigs c))) eqn:Elen; cbn [negb]; [|discriminate].
  destruct (N.eqb h (c_height c)) eqn:Eh; cbn [negb]; [|discriminate].
  destruct (bid_eqb want (c_bid c)) eqn:Eb; cbn [negb]; [|discriminate].
  destruct (tally chain (c_height c) (c_round c) (c_bid c) want vals (c_sigs c) 0) as [got| |] eqn:Et; [|discriminate|discriminate].
  destruct (Z.leb got (two_thirds vals)) eqn:Ele; [discriminate|]. intros _.
  apply Nat.eqb_eq in Elen. apply N.eqb_eq in Eh. pose proof Eb as Eb'. apply bid_eqb_eq in Eb'.
  subst h. pose proof Hw as [Hf Hc]. pose proof cap_fits as [_ Hcap].
  assert (Hnz : bid_is_zero want = false).
  { unfold commit_validate_basic in Evb. destruct (N.leb 1 (c_height c)) eqn:E1.
    - rewrite !andb_true_iff in Evb. destruct Evb as [[Hz _] _]. rewrite <- Eb' in Hz.
      destruct (bid_is_zero want); [discriminate|reflexivity].
    - apply N.leb_gt in E1. lia. }
  pose proof (sum_powers_nonneg _ Hf) as Hn.
  apply tally_exact in Et; auto; try lia.
  repeat split; auto.
  apply Z.leb_gt in Ele. rewrite two_thirds_exact in Ele by auto. subst got. lia.
Qed.

(** converse direction: what suffices for acceptance *)
Lemma tally_total chain h r want vals sigs acc :
  Forall (fun v => 0 <= val_power v) vals -> 0 <= acc -> acc + sum_powers vals <= max_int64 ->
  bid_is_zero want = false -> length sigs = length vals ->
  (forall i val cs, nth_error vals i = Some val -> nth_error sigs i = Some cs ->
     N.eqb (cs_flag cs) FLAG_ABSENT = true \/
     (N.eqb (cs_flag cs) FLAG_COMMIT = true /\ cs_addr cs = val_addr val /\
      sig_valid chain (val_addr val) PRECOMMIT h r want (cs_time cs) (cs_sig cs) = true) \/
     (N.eqb (cs_flag cs) FLAG_ABSENT = false /\ N.eqb (cs_flag cs) FLAG_COMMIT = false /\ cs_addr cs = val_addr val /\
      sig_valid chain (val_addr val) PRECOMMIT h r bid_zero (cs_time cs) (cs_sig cs) = true)) ->
  tally chain h r want want vals sigs acc = TOk (acc + signed_power chain h r want vals sigs).
Proof.
  intros Hf; revert sigs acc; induction Hf as [|v vs Hv Hvs IH]; intros sigs acc Ha Hb Hz Hl Hall.
  - destruct sigs; simpl in *; [f_equal; lia|discriminate].
  - destruct sigs as [|cs st]; [discriminate|]. simpl in Hl. injection Hl as Hl.
    pose proof (sum_powers_nonneg _ Hvs) as Hn.
    cbn [tally signed_power] in *. change (sum_powers (v :: vs)) with (val_power v + sum_powers vs) in *. unfold signs_block.
    assert (Hrest : forall i val cs0, nth_error vs i = Some val -> nth_error st i = Some cs0 -> _) by
        (intros i val cs0 H1 H2; exact (Hall (S i) val cs0 H1 H2)).
    destruct (Hall O v cs eq_refl eq_refl) as [Habs | [[Hc [Had Hs]] | [Habs [Hc [Had Hs]]]]].
    + rewrite Habs. apply N.eqb_eq in Habs. rewrite Habs. change (N.eqb FLAG_ABSENT FLAG_COMMIT) with false. cbn [andb].
      rewrite IH; auto; try lia; try (f_equal; lia).
    + assert (Habs : N.eqb (cs_flag cs) FLAG_ABSENT = false).
      { apply N.eqb_eq in Hc. rewrite Hc. reflexivity. }
      rewrite Habs, Had, N.eqb_refl, Hc, Hs. cbn [andb negb].
      assert (Hww : bid_eqb want want = true) by (apply bid_eqb_eq; reflexivity). rewrite Hww.
      rewrite wrap64_id by (unfold in_int64, min_int64, max_int64, two63 in *; lia).
      rewrite IH; auto; try lia; try (f_equal; lia).
    + rewrite Habs, Had, N.eqb_refl, Hc, Hs. cbn [andb negb].
      assert (Hwz : bid_eqb want bid_zero = false).
      { destruct (bid_eqb want bid_zero) eqn:E; [|reflexivity]. apply bid_eqb_eq in E. subst want. discriminate. }
      rewrite Hwz. rewrite IH; auto; try lia; try (f_equal; lia).
Qed.

(** VerifyCommit accepts only commits in which every non-absent slot names the validator of its
    position: the address (not covered by the sign bytes, but used by MedianTime to weigh the slot's
    timestamp) cannot be forged. *)
Lemma tally_addresses chain h r cb want vals sigs acc got :
  tally chain h r cb want vals sigs acc = TOk got ->
  forall i val cs, nth_error vals i = Some val -> nth_error sigs i = Some cs ->
    N.eqb (cs_flag cs) FLAG_ABSENT = false -> cs_addr cs = val_addr val.
Proof.
  revert sigs acc; induction vals as [|v vs IH]; intros sigs acc Ht i val cs Hv Hc Hna.
  - destruct i; discriminate.
  - destruct sigs as [|c0 st]; [destruct i; discriminate|].
    cbn [tally] in Ht.
    destruct (N.eqb (cs_flag c0) FLAG_ABSENT) eqn:Eabs.
    + destruct i as [|i]; cbn [nth_error] in Hv, Hc.
      * injection Hc as <-. congruence.
      * eapply IH; eauto.
    + destruct (N.eqb (cs_addr c0) (val_addr v)) eqn:Ead; cbn [negb] in Ht; [|discriminate].
      destruct (sig_valid chain (val_addr v) PRECOMMIT h r _ (cs_time c0) (cs_sig c0)); [|discriminate].
      destruct i as [|i]; cbn [nth_error] in Hv, Hc.
      * injection Hv as <-. injection Hc as <-. apply N.eqb_eq. exact Ead.
      * eapply IH; eauto.
Qed.

Theorem verify_commit_addresses vals chain want h c :
  verify_commit vals chain want h c = COk ->
  forall i val cs, nth_error vals i = Some val -> nth_error (c_sigs c) i = Some cs ->
    N.eqb (cs_flag cs) FLAG_ABSENT = false -> cs_addr cs = val_addr val.
Proof.
  unfold verify_commit.
  destruct (commit_validate_basic c); cbn [negb]; [|discriminate].
  destruct (Nat.eqb (length vals) (length (c_sigs c))); cbn [negb]; [|discriminate].
  destruct (N.eqb h (c_height c)); cbn [negb]; [|discriminate].
  destruct (bid_eqb want (c_bid c)); cbn [negb]; [|discriminate].
  destruct (tally chain (c_height c) (c_round c) (c_bid c) want vals (c_sigs c) 0) as [got| |] eqn:Et; [|discriminate|discriminate].
  intros _. eapply tally_addresses; eauto.
Qed.
