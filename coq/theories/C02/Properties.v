(** C02 — property theorems only.  Each is closed by [exact] of a lemma proved in Proofs*.v
    and followed by [Print Assumptions].

    Vocabulary (definitions in Proofs.v / ProofsLists.v / ProofsVoteSet.v):
    - [final (new_voteset chain h r ty vals) ops]: the vote set reached from a fresh
      VoteSet by an arbitrary history [ops] of AddVote / SetPeerMaj23 / MakeCommit /
      VerifyCommit calls;
    - [offered ops v]: [In (OpVote v) ops];
    - [stored_ok chain h r ty vals ops i v]: [v] was offered in [ops], carries validator index
      [i], the address of validator [i] of [vals], the vote set's height, round and type, and a
      signature that is valid for that validator over exactly the vote's content
      ([valid_vote_of]);
    - [voters_power vals w]: exact (unbounded) sum of the powers of the validators whose
      position holds a vote in the position-indexed list [w]; [mask_power vals A] the same for
      a boolean mask [A].  One summand per position: a validator counts at most once;
    - [valid_vote ... v]: [v] passes the checks of addVote that do not depend on earlier votes
      (non-empty address, step, index in range, address of that index, signature);
      [first_valid ... ops i]: the first vote of [ops] with index [i] that does. *)
From Coq Require Import List ZArith NArith Bool.
From Kardia Require Import Base.Int64 C02.Model C02.Proofs C02.ProofsLists C02.ProofsVoteSet
     C02.ProofsExamples Generated.C02Facts.
Local Open Scope Z_scope.

(** "+2/3" is strict: the integer quorum the code computes is reached exactly when the
    power is strictly more than two thirds of the total, for every total. *)
Theorem C02_quorum_is_strict_two_thirds :
  forall T s, 0 <= T -> (T * 2 / 3 + 1 <= s <-> 2 * T < 3 * s).
Proof. exact quorum_arith. Qed.
Print Assumptions C02_quorum_is_strict_two_thirds.

Theorem C02_any_is_strict_two_thirds :
  forall T s, 0 <= T -> (T * 2 / 3 < s <-> 2 * T < 3 * s).
Proof. exact any_arith. Qed.
Print Assumptions C02_any_is_strict_two_thirds.

(** the int64 quorum computation never wraps for validator sets below the cap that the
    code itself enforces (value regenerated from the source on every run) *)
Theorem C02_quorum_no_overflow :
  forall vals, wf_vals vals -> quorum vals = sum_powers vals * 2 / 3 + 1.
Proof. exact quorum_exact. Qed.
Print Assumptions C02_quorum_no_overflow.

Theorem C02_block_key_injective : forall a b, key a = key b -> a = b.
Proof. exact key_injective. Qed.
Print Assumptions C02_block_key_injective.

Theorem C02_verify_commit_sound :
  forall vals chain want h c,
    wf_vals vals -> (1 <= h)%N ->
    verify_commit vals chain want h c = COk ->
    length (c_sigs c) = length vals /\ c_height c = h /\ c_bid c = want /\
    2 * sum_powers vals < 3 * signed_power chain h (c_round c) want vals (c_sigs c).
Proof. exact verify_commit_sound. Qed.
Print Assumptions C02_verify_commit_sound.

(** ... and every non-absent slot of an accepted commit names the validator of its position (the
    address is outside the sign bytes but weighs the slot's timestamp in the block-time median). *)
Theorem C02_verify_commit_addresses :
  forall vals chain want h c,
    verify_commit vals chain want h c = COk ->
    forall i val cs, nth_error vals i = Some val -> nth_error (c_sigs c) i = Some cs ->
      N.eqb (cs_flag cs) FLAG_ABSENT = false -> cs_addr cs = val_addr val.
Proof. exact verify_commit_addresses. Qed.
Print Assumptions C02_verify_commit_addresses.

(** Each validator's power is counted at most once whatever it sends: in every reachable vote
    set, [sum] is the exact total of the powers of the positions that hold a vote, every
    per-block sum is the exact total of the positions of that block's entry, no int64 addition
    wrapped, and every stored vote is an offered, valid vote of that position (for the entry of
    block [b]: a vote for exactly [b]). *)
Theorem C02_counted_once :
  forall chain h r ty vals, wf_vals vals -> forall ops,
    let s := final (new_voteset chain h r ty vals) ops in
    length (vs_votes s) = length vals /\
    vs_sum s = voters_power vals (vs_votes s) /\ 0 <= vs_sum s <= sum_powers vals /\
    (forall i v, vote_at (vs_votes s) i = Some v -> stored_ok chain h r ty vals ops i v) /\
    forall b bv, bb_find b (vs_byblock s) = Some bv ->
      length (bv_votes bv) = length vals /\
      bv_sum bv = voters_power vals (bv_votes bv) /\ 0 <= bv_sum bv <= sum_powers vals /\
      forall i v, vote_at (bv_votes bv) i = Some v -> stored_ok chain h r ty vals ops i v /\ v_bid v = b.
Proof. exact counted_once. Qed.
Print Assumptions C02_counted_once.

(** HasTwoThirdsAny: distinct validators with offered, valid votes hold strictly more than 2/3 *)
Theorem C02_any_sound :
  forall chain h r ty vals, wf_vals vals -> forall ops,
    let s := final (new_voteset chain h r ty vals) ops in
    has_two_thirds_any s = true ->
    (forall i v, vote_at (vs_votes s) i = Some v -> stored_ok chain h r ty vals ops i v) /\
    2 * sum_powers vals < 3 * voters_power vals (vs_votes s).
Proof. exact any_sound. Qed.
Print Assumptions C02_any_sound.

(** HasAll: the validators with offered, valid votes hold the whole power *)
Theorem C02_hasall_sound :
  forall chain h r ty vals, wf_vals vals -> forall ops,
    let s := final (new_voteset chain h r ty vals) ops in
    has_all s = true ->
    (forall i v, vote_at (vs_votes s) i = Some v -> stored_ok chain h r ty vals ops i v) /\
    voters_power vals (vs_votes s) = sum_powers vals.
Proof. exact hasall_sound. Qed.
Print Assumptions C02_hasall_sound.

(** A vote rejected with any error other than a conflict, and a duplicate, leave the vote set
    exactly as it was (any state, reachable or not). *)
Theorem C02_rejected_unchanged :
  forall vs v vs' added e,
    add_vote vs v = (vs', added, e) -> e <> EConflict -> (e <> ENone \/ added = false) ->
    vs' = vs /\ added = false.
Proof. exact rejected_unchanged. Qed.
Print Assumptions C02_rejected_unchanged.

(** TwoThirdsMajority = b only if the stored entry of [b] holds, at distinct validator
    positions, offered votes with that index and address, this height, round and type, a valid
    signature, block id exactly [b], whose exact total power is strictly more than 2/3. *)
Theorem C02_maj23_sound :
  forall chain h r ty vals, wf_vals vals -> forall ops b,
    let s := final (new_voteset chain h r ty vals) ops in
    vs_maj23 s = Some b ->
    exists bv, bb_find b (vs_byblock s) = Some bv /\
      length (bv_votes bv) = length vals /\
      (forall i v, vote_at (bv_votes bv) i = Some v -> stored_ok chain h r ty vals ops i v /\ v_bid v = b) /\
      2 * sum_powers vals < 3 * voters_power vals (bv_votes bv).
Proof. exact maj23_sound. Qed.
Print Assumptions C02_maj23_sound.

(** For precommits, when every offered vote has a zero or complete block id (what
    Vote.ValidateBasic enforces on the wire) and the majority block id is complete, MakeCommit
    does not panic and VerifyCommit with the same validator set accepts its result (at any
    height, including 0). *)
Theorem C02_commit_roundtrip :
  forall chain h r ty vals, wf_vals vals -> forall ops b,
    let s := final (new_voteset chain h r ty vals) ops in
    ty = PRECOMMIT ->
    (forall v, offered ops v -> bid_is_zero (v_bid v) = true \/ bid_is_complete (v_bid v) = true) ->
    vs_maj23 s = Some b -> bid_is_complete b = true ->
    exists c, make_commit s = Some c /\ verify_commit vals chain b h c = COk.
Proof. exact commit_roundtrip. Qed.
Print Assumptions C02_commit_roundtrip.

(** Completeness: if the validators of a set [A] holding strictly more than 2/3 each have, as
    the first of their votes passing the stateless checks, a vote for [b], then a majority is
    reported, whatever else is in the history. *)
Theorem C02_complete :
  forall chain h r ty vals, wf_vals vals -> forall ops A b,
    let s := final (new_voteset chain h r ty vals) ops in
    2 * sum_powers vals < 3 * mask_power vals A ->
    (forall i, nth i A false = true ->
               exists v, first_valid chain h r ty vals ops i = Some v /\ v_bid v = b) ->
    vs_maj23 s <> None.
Proof. exact complete. Qed.
Print Assumptions C02_complete.

(** ... and it is [b] when the members of [A] offer no valid vote for another id (everybody
    else may equivocate and peers may claim anything) ... *)
Theorem C02_complete_exact :
  forall chain h r ty vals, wf_vals vals -> forall ops A b,
    let s := final (new_voteset chain h r ty vals) ops in
    2 * sum_powers vals < 3 * mask_power vals A ->
    (forall i, nth i A false = true ->
               exists v, first_valid chain h r ty vals ops i = Some v /\ v_bid v = b) ->
    (forall i v, nth i A false = true -> offered ops v -> N.to_nat (v_idx v) = i ->
                 valid_vote chain h r ty vals v = true -> v_bid v = b) ->
    vs_maj23 s = Some b.
Proof. exact complete_exact. Qed.
Print Assumptions C02_complete_exact.

(** ... or when no validator's first valid vote is for another id (later equivocation by
    anybody, admitted through peer claims, cannot overtake [b]). *)
Theorem C02_complete_all_first :
  forall chain h r ty vals, wf_vals vals -> forall ops A b,
    let s := final (new_voteset chain h r ty vals) ops in
    2 * sum_powers vals < 3 * mask_power vals A ->
    (forall i, nth i A false = true ->
               exists v, first_valid chain h r ty vals ops i = Some v /\ v_bid v = b) ->
    (forall i v, first_valid chain h r ty vals ops i = Some v -> v_bid v = b) ->
    vs_maj23 s = Some b.
Proof. exact complete_all_first. Qed.
Print Assumptions C02_complete_all_first.

(** Non-vacuity: one concrete 4-validator history (ProofsExamples.v) satisfies all the
    hypotheses above at once and contains a rejected and an admitted conflicting vote. *)
Theorem C02_hypotheses_satisfiable :
  exists chain h r vals ops A b,
    wf_vals vals /\
    2 * sum_powers vals < 3 * mask_power vals A /\
    (forall i, nth i A false = true ->
               exists v, first_valid chain h r PRECOMMIT vals ops i = Some v /\ v_bid v = b) /\
    (forall i v, nth i A false = true -> offered ops v -> N.to_nat (v_idx v) = i ->
                 valid_vote chain h r PRECOMMIT vals v = true -> v_bid v = b) /\
    (forall v, offered ops v -> bid_is_zero (v_bid v) = true \/ bid_is_complete (v_bid v) = true) /\
    bid_is_complete b = true /\
    vs_maj23 (final (new_voteset chain h r PRECOMMIT vals) ops) = Some b /\
    In (Some (true, EConflict)) (map ob_err (snd (run (new_voteset chain h r PRECOMMIT vals) ops))) /\
    In (Some (false, EConflict)) (map ob_err (snd (run (new_voteset chain h r PRECOMMIT vals) ops))).
Proof. exact hypotheses_satisfiable. Qed.
Print Assumptions C02_hypotheses_satisfiable.

(** Tie to the Go SOURCE (translator /verif/go2coq, regenerated from /repo on every check): the model's
    quorum arithmetic, running sums, quorum-crossing test, VerifyCommit threshold test, cap test and
    safeAddClip/safeSubClip are the expressions of types/vote_set.go and types/validator_set.go
    themselves, on the operands named there (statement spelled out in SourceTie.v). *)
From Kardia Require Import C02.SourceTie.
Theorem C02_source_tie : C02_source_tie_statement.
Proof. exact C02_source_tie_proof. Qed.
Print Assumptions C02_source_tie.
