(** C02 — property theorems only.  Each is closed by [exact] of a lemma proved in Proofs.v
    and followed by [Print Assumptions]. *)
From Coq Require Import List ZArith NArith Bool.
From Kardia Require Import Base.Int64 C02.Model C02.Proofs Generated.C02Facts.
Local Open Scope Z_scope.

(** "+2/3" is strict: the integer quorum the code computes is reached exactly when the
    power is strictly more than two thirds of the total, for every total. *)
Theorem C02_quorum_is_strict_two_thirds :
  forall T s, 0 <= T -> (T * 2 / 3 + 1 <= s <-> 2 * T < 3 * s).
Proof. exact quorum_arith. Qed.
Print Assumptions C02_quorum_is_strict_two_thirds.

Theorem C02_any_is_strict_two_thirds :
  forall T s, 0 <= T -> (T * 2 / 3 < s <-> 2 * T < 3 * s).
Proof. exact any_arith. Qed.
Print Assumptions C02_any_is_strict_two_thirds.

(** the int64 quorum computation never wraps for validator sets below the cap that the
    code itself enforces (value regenerated from the source on every run) *)
Theorem C02_quorum_no_overflow :
  forall vals, wf_vals vals -> quorum vals = sum_powers vals * 2 / 3 + 1.
Proof. exact quorum_exact. Qed.
Print Assumptions C02_quorum_no_overflow.

Theorem C02_block_key_injective : forall a b, key a = key b -> a = b.
Proof. exact key_injective. Qed.
Print Assumptions C02_block_key_injective.

Theorem C02_verify_commit_sound :
  forall vals chain want h c,
    wf_vals vals -> (1 <= h)%N ->
    verify_commit vals chain want h c = COk ->
    length (c_sigs c) = length vals /\ c_height c = h /\ c_bid c = want /\
    2 * sum_powers vals < 3 * signed_power chain h (c_round c) want vals (c_sigs c).
Proof. exact verify_commit_sound. Qed.
Print Assumptions C02_verify_commit_sound.
