(** C02 — property theorems only.  Each is closed by [exact] of a lemma proved in Proofs*.v
    and followed by [Print Assumptions].

    Vocabulary (definitions in Proofs.v / ProofsLists.v / ProofsVoteSet.v):
    - [final (new_voteset chain h r ty vals) ops]: the vote set reached from a fresh
      VoteSet by an arbitrary history [ops] of AddVote / SetPeerMaj23 / MakeCommit /
      VerifyCommit calls;
    - [offered ops v]: [In (OpVote v) ops];
    - [stored_ok chain h r ty vals ops i v]: [v] was offered in [ops], carries validator index
      [i], the address of validator [i] of [vals], the vote set's height, round and type, and a
      signature that is valid for that validator over exactly the vote's content
      ([valid_vote_of]);
    - [voters_power vals w]: exact (unbounded) sum of the powers of the validators whose
      position holds a vote in the position-indexed list [w]; [mask_power vals A] the same for
      a boolean mask [A].  One summand per position: a validator counts at most once;
    - [valid_vote ... v]: [v] passes the checks of addVote that do not depend on earlier votes
      (non-empty address, step, index in range, address of that index, signature);
      [first_valid ... ops i]: the first vote of [ops] with index [i] that does. *)
From Coq Require Import List ZArith NArith Bool.
From Kardia Require Import Base.Int64 C02.Model C02.ModelExt C02.Proofs C02.ProofsLists C02.ProofsVoteSet
     C02.ProofsExamples C02.ProofsExt C02.ProofsCtv Generated.C02Facts.
Local Open Scope Z_scope.

(** "+2/3" is strict: the integer quorum the code computes is reached exactly when the
    power is strictly more than two thirds of the total, for every total. *)
Theorem C02_quorum_is_strict_two_thirds :
  forall T s, 0 <= T -> (T * 2 / 3 + 1 <= s <-> 2 * T < 3 * s).
Proof. exact quorum_arith. Qed.
Print Assumptions C02_quorum_is_strict_two_thirds.

Theorem C02_any_is_strict_two_thirds :
  forall T s, 0 <= T -> (T * 2 / 3 < s <-> 2 * T < 3 * s).
Proof. exact any_arith. Qed.
Print Assumptions C02_any_is_strict_two_thirds.

(** the int64 quorum computation never wraps for validator sets below the cap that the
    code itself enforces (value regenerated from the source on every run) *)
Theorem C02_quorum_no_overflow :
  forall vals, wf_vals vals -> quorum vals = sum_powers vals * 2 / 3 + 1.
Proof. exact quorum_exact. Qed.
Print Assumptions C02_quorum_no_overflow.

Theorem C02_block_key_injective : forall a b, key a = key b -> a = b.
Proof. exact key_injective. Qed.
Print Assumptions C02_block_key_injective.

Theorem C02_verify_commit_sound :
  forall vals chain want h c,
    wf_vals vals -> (1 <= h)%N ->
    verify_commit vals chain want h c = COk ->
    length (c_sigs c) = length vals /\ c_height c = h /\ c_bid c = want /\
    2 * sum_powers vals < 3 * signed_power chain h (c_round c) want vals (c_sigs c).
Proof. exact verify_commit_sound. Qed.
Print Assumptions C02_verify_commit_sound.

(** ... and every non-absent slot of an accepted commit names the validator of its position (the
    address is outside the sign bytes but weighs the slot's timestamp in the block-time median). *)
Theorem C02_verify_commit_addresses :
  forall vals chain want h c,
    verify_commit vals chain want h c = COk ->
    forall i val cs, nth_error vals i = Some val -> nth_error (c_sigs c) i = Some cs ->
      N.eqb (cs_flag cs) FLAG_ABSENT = false -> cs_addr cs = val_addr val.
Proof. exact verify_commit_addresses. Qed.
Print Assumptions C02_verify_commit_addresses.

(** Each validator's power is counted at most once whatever it sends: in every reachable vote
    set, [sum] is the exact total of the powers of the positions that hold a vote, every
    per-block sum is the exact total of the positions of that block's entry, no int64 addition
    wrapped, and every stored vote is an offered, valid vote of that position (for the entry of
    block [b]: a vote for exactly [b]). *)
Theorem C02_counted_once :
  forall chain h r ty vals, wf_vals vals -> forall ops,
    let s := final (new_voteset chain h r ty vals) ops in
    length (vs_votes s) = length vals /\
    vs_sum s = voters_power vals (vs_votes s) /\ 0 <= vs_sum s <= sum_powers vals /\
    (forall i v, vote_at (vs_votes s) i = Some v -> stored_ok chain h r ty vals ops i v) /\
    forall b bv, bb_find b (vs_byblock s) = Some bv ->
      length (bv_votes bv) = length vals /\
      bv_sum bv = voters_power vals (bv_votes bv) /\ 0 <= bv_sum bv <= sum_powers vals /\
      forall i v, vote_at (bv_votes bv) i = Some v -> stored_ok chain h r ty vals ops i v /\ v_bid v = b.
Proof. exact counted_once. Qed.
Print Assumptions C02_counted_once.

(** HasTwoThirdsAny: distinct validators with offered, valid votes hold strictly more than 2/3 *)
Theorem C02_any_sound :
  forall chain h r ty vals, wf_vals vals -> forall ops,
    let s := final (new_voteset chain h r ty vals) ops in
    has_two_thirds_any s = true ->
    (forall i v, vote_at (vs_votes s) i = Some v -> stored_ok chain h r ty vals ops i v) /\
    2 * sum_powers vals < 3 * voters_power vals (vs_votes s).
Proof. exact any_sound. Qed.
Print Assumptions C02_any_sound.

(** HasAll: the validators with offered, valid votes hold the whole power *)
Theorem C02_hasall_sound :
  forall chain h r ty vals, wf_vals vals -> forall ops,
    let s := final (new_voteset chain h r ty vals) ops in
    has_all s = true ->
    (forall i v, vote_at (vs_votes s) i = Some v -> stored_ok chain h r ty vals ops i v) /\
    voters_power vals (vs_votes s) = sum_powers vals.
Proof. exact hasall_sound. Qed.
Print Assumptions C02_hasall_sound.

(** A vote rejected with any error other than a conflict, and a duplicate, leave the vote set
    exactly as it was (any state, reachable or not). *)
Theorem C02_rejected_unchanged :
  forall vs v vs' added e,
    add_vote vs v = (vs', added, e) -> e <> EConflict -> (e <> ENone \/ added = false) ->
    vs' = vs /\ added = false.
Proof. exact rejected_unchanged. Qed.
Print Assumptions C02_rejected_unchanged.

(** TwoThirdsMajority = b only if the stored entry of [b] holds, at distinct validator
    positions, offered votes with that index and address, this height, round and type, a valid
    signature, block id exactly [b], whose exact total power is strictly more than 2/3. *)
Theorem C02_maj23_sound :
  forall chain h r ty vals, wf_vals vals -> forall ops b,
    let s := final (new_voteset chain h r ty vals) ops in
    vs_maj23 s = Some b ->
    exists bv, bb_find b (vs_byblock s) = Some bv /\
      length (bv_votes bv) = length vals /\
      (forall i v, vote_at (bv_votes bv) i = Some v -> stored_ok chain h r ty vals ops i v /\ v_bid v = b) /\
      2 * sum_powers vals < 3 * voters_power vals (bv_votes bv).
Proof. exact maj23_sound. Qed.
Print Assumptions C02_maj23_sound.

(** For precommits, when every offered vote has a zero or complete block id (what
    Vote.ValidateBasic enforces on the wire) and the majority block id is complete, MakeCommit
    does not panic and VerifyCommit with the same validator set accepts its result (at any
    height, including 0). *)
Theorem C02_commit_roundtrip :
  forall chain h r ty vals, wf_vals vals -> forall ops b,
    let s := final (new_voteset chain h r ty vals) ops in
    ty = PRECOMMIT ->
    (forall v, offered ops v -> bid_is_zero (v_bid v) = true \/ bid_is_complete (v_bid v) = true) ->
    vs_maj23 s = Some b -> bid_is_complete b = true ->
    exists c, make_commit s = Some c /\ verify_commit vals chain b h c = COk.
Proof. exact commit_roundtrip. Qed.
Print Assumptions C02_commit_roundtrip.

(** Completeness: if the validators of a set [A] holding strictly more than 2/3 each have, as
    the first of their votes passing the stateless checks, a vote for [b], then a majority is
    reported, whatever else is in the history. *)
Theorem C02_complete :
  forall chain h r ty vals, wf_vals vals -> forall ops A b,
    let s := final (new_voteset chain h r ty vals) ops in
    2 * sum_powers vals < 3 * mask_power vals A ->
    (forall i, nth i A false = true ->
               exists v, first_valid chain h r ty vals ops i = Some v /\ v_bid v = b) ->
    vs_maj23 s <> None.
Proof. exact complete. Qed.
Print Assumptions C02_complete.

(** ... and it is [b] when the members of [A] offer no valid vote for another id (everybody
    else may equivocate and peers may claim anything) ... *)
Theorem C02_complete_exact :
  forall chain h r ty vals, wf_vals vals -> forall ops A b,
    let s := final (new_voteset chain h r ty vals) ops in
    2 * sum_powers vals < 3 * mask_power vals A ->
    (forall i, nth i A false = true ->
               exists v, first_valid chain h r ty vals ops i = Some v /\ v_bid v = b) ->
    (forall i v, nth i A false = true -> offered ops v -> N.to_nat (v_idx v) = i ->
                 valid_vote chain h r ty vals v = true -> v_bid v = b) ->
    vs_maj23 s = Some b.
Proof. exact complete_exact. Qed.
Print Assumptions C02_complete_exact.

(** ... or when no validator's first valid vote is for another id (later equivocation by
    anybody, admitted through peer claims, cannot overtake [b]). *)
Theorem C02_complete_all_first :
  forall chain h r ty vals, wf_vals vals -> forall ops A b,
    let s := final (new_voteset chain h r ty vals) ops in
    2 * sum_powers vals < 3 * mask_power vals A ->
    (forall i, nth i A false = true ->
               exists v, first_valid chain h r ty vals ops i = Some v /\ v_bid v = b) ->
    (forall i v, first_valid chain h r ty vals ops i = Some v -> v_bid v = b) ->
    vs_maj23 s = Some b.
Proof. exact complete_all_first. Qed.
Print Assumptions C02_complete_all_first.

(** Non-vacuity: one concrete 4-validator history (ProofsExamples.v) satisfies all the
    hypotheses above at once and contains a rejected and an admitted conflicting vote. *)
Theorem C02_hypotheses_satisfiable :
  exists chain h r vals ops A b,
    wf_vals vals /\
    2 * sum_powers vals < 3 * mask_power vals A /\
    (forall i, nth i A false = true ->
               exists v, first_valid chain h r PRECOMMIT vals ops i = Some v /\ v_bid v = b) /\
    (forall i v, nth i A false = true -> offered ops v -> N.to_nat (v_idx v) = i ->
                 valid_vote chain h r PRECOMMIT vals v = true -> v_bid v = b) /\
    (forall v, offered ops v -> bid_is_zero (v_bid v) = true \/ bid_is_complete (v_bid v) = true) /\
    bid_is_complete b = true /\
    vs_maj23 (final (new_voteset chain h r PRECOMMIT vals) ops) = Some b /\
    In (Some (true, EConflict)) (map ob_err (snd (run (new_voteset chain h r PRECOMMIT vals) ops))) /\
    In (Some (false, EConflict)) (map ob_err (snd (run (new_voteset chain h r PRECOMMIT vals) ops))).
Proof. exact hypotheses_satisfiable. Qed.
Print Assumptions C02_hypotheses_satisfiable.

(** The first reported majority is final: whatever is added afterwards (conflicting votes admitted through
    peer claims, a second quorum for another id), TwoThirdsMajority keeps reporting it (any state). *)
Theorem C02_maj23_stable :
  forall s ops m, vs_maj23 s = Some m -> vs_maj23 (final s ops) = Some m.
Proof. exact maj23_stable. Qed.
Print Assumptions C02_maj23_stable.

(** CommitToVoteSet is the inverse of MakeCommit: for a reachable precommit vote set (height >= 1) with
    wire-valid votes and a complete majority id, rebuilding a vote set from MakeCommit's output does not
    panic, reports the same majority, and MakeCommit of it gives the same commit back. *)
Theorem C02_commit_to_voteset_inverse :
  forall chain ht rd vals, wf_vals vals -> forall ops b,
    let s := final (new_voteset chain ht rd PRECOMMIT vals) ops in
    (forall v, offered ops v -> bid_is_zero (v_bid v) = true \/ bid_is_complete (v_bid v) = true) ->
    vs_maj23 s = Some b -> bid_is_complete b = true -> ht <> 0%N ->
    exists c s2, make_commit s = Some c /\ commit_to_voteset chain c vals = Some s2 /\
                 vs_maj23 s2 = Some b /\ make_commit s2 = Some c.
Proof. exact commit_to_voteset_inverse. Qed.
Print Assumptions C02_commit_to_voteset_inverse.

(** Vote.ValidateBasic (what the reactor enforces on receipt) gives the wire-validity hypothesis used above;
    Vote.Verify accepts exactly the votes naming the given address and carrying its valid signature. *)
Theorem C02_validate_basic_wire :
  forall v, vote_validate_basic v = true ->
    (bid_is_zero (v_bid v) = true \/ bid_is_complete (v_bid v) = true) /\ s_empty (v_sig v) = false /\
    (v_type v = PREVOTE \/ v_type v = PRECOMMIT).
Proof. exact validate_basic_wire. Qed.
Print Assumptions C02_validate_basic_wire.

Theorem C02_vote_verify_ok :
  forall chain addr v, vote_verify chain addr v = VVOk <-> v_addr v = addr /\ vote_sig_valid chain addr v = true.
Proof. exact vote_verify_ok. Qed.
Print Assumptions C02_vote_verify_ok.

(** VerifyCommit as the code has it (nil commit = error; a slot with an unknown BlockIDFlag panics in
    CommitSig.BlockID): on every commit whose slots ValidateBasic examined (height >= 1) there is no panic
    and the answer is [verify_commit]'s; and whenever it answers ok, so does [verify_commit] — hence
    C02_verify_commit_sound / _addresses hold for the extended function at every height. *)
Theorem C02_verify_commit_x_validated :
  forall vals chain want h c, (1 <= c_height c)%N ->
    verify_commit_x vals chain want h (Some c) = XErr (verify_commit vals chain want h c).
Proof. exact verify_commit_x_validated. Qed.
Print Assumptions C02_verify_commit_x_validated.

Theorem C02_verify_commit_x_ok :
  forall vals chain want h c,
    verify_commit_x vals chain want h (Some c) = XErr COk -> verify_commit vals chain want h c = COk.
Proof. exact verify_commit_x_ok. Qed.
Print Assumptions C02_verify_commit_x_ok.

(** HeightVoteSet (consensus/types/height_vote_set.go).  [hvs_run s0 hops = Some s]: [s] is reached from
    NewHeightVoteSet by the calls [hops] (SetRound / AddVote by any peer / SetPeerMaj23), none of which
    panicked; [offered_h hops v]: [v] was passed to AddVote by some peer.
    Every per-round vote set is a reachable VoteSet of that height, round and type whose history consists
    of votes offered to the HeightVoteSet, so every vote-set theorem above applies to it. *)
Theorem C02_hvs_sets_reachable :
  forall chain ht vals s0 hops s r ty vs,
    hvs_new chain ht vals = Some s0 -> hvs_run s0 hops = Some s ->
    type_valid ty = true -> get_vs s r ty = Some vs ->
    exists ops, vs = final (new_voteset chain ht r ty vals) ops /\
                forall v, In (OpVote v) ops -> offered_h hops v.
Proof. exact hvs_sets_reachable. Qed.
Print Assumptions C02_hvs_sets_reachable.

(** POLInfo is sound: the round it names lies in 1..hvs.round and distinct validators (one list position
    each) holding strictly more than 2/3 of the power sent valid prevotes of this height and exactly that
    round, offered to this HeightVoteSet, for exactly that block id. *)
Theorem C02_hvs_pol_sound :
  forall chain ht vals, wf_vals vals -> forall s0 hops s r b,
    hvs_new chain ht vals = Some s0 -> hvs_run s0 hops = Some s ->
    pol_info s = (r, b) -> r <> 0%N ->
    (1 <= r <= h_round s)%N /\
    exists w : list (option vote),
      length w = length vals /\
      (forall i v, vote_at w i = Some v ->
         offered_h hops v /\ valid_vote_of chain ht r PREVOTE vals i v /\ v_bid v = b) /\
      2 * sum_powers vals < 3 * voters_power vals w.
Proof. exact pol_sound. Qed.
Print Assumptions C02_hvs_pol_sound.

(** ... and it names the LATEST such round: no later round up to hvs.round has a prevote majority (any
    state); with no round named, the block id is the zero id. *)
Theorem C02_hvs_pol_latest :
  forall s r b, pol_info s = (r, b) ->
    forall r', (r < r' <= h_round s)%N -> forall vs, get_vs s r' PREVOTE = Some vs -> vs_maj23 vs = None.
Proof. exact pol_latest. Qed.
Print Assumptions C02_hvs_pol_latest.

Theorem C02_hvs_pol_none_zero : forall s b, pol_info s = (0%N, b) -> b = bid_zero.
Proof. exact pol_none_zero. Qed.
Print Assumptions C02_hvs_pol_none_zero.

(** Catch-up rounds are bounded: no peer's list of opened rounds exceeds two; every open round is round 1,
    at most a round the node itself passed to SetRound, or in some peer's list; all of 1..hvs.round exist. *)
Theorem C02_hvs_catchup_bounded :
  forall chain ht vals s0 hops s,
    hvs_new chain ht vals = Some s0 -> hvs_run s0 hops = Some s ->
    (forall p, (length (cu_find p (h_catchup s)) <= 2)%nat) /\
    (forall r, rs_find r (h_sets s) <> None ->
       r = 1%N \/ (exists r0, In (HSetRound r0) hops /\ (r <= r0)%N) \/ exists p, In r (cu_find p (h_catchup s))) /\
    (forall k, (1 <= k <= h_round s)%N -> rs_find k (h_sets s) <> None).
Proof. exact catchup_bounded. Qed.
Print Assumptions C02_hvs_catchup_bounded.

(** Non-vacuity of the HeightVoteSet theorems: a 3-validator history with a catch-up round, a SetRound and
    a prevote majority in round 2; POLInfo names round 2 and a third catch-up round of the same peer is
    refused. *)
Theorem C02_hvs_hypotheses_satisfiable :
  exists s0 s, hvs_new 7 5 exh_vals = Some s0 /\ hvs_run s0 exh_ops = Some s /\
               pol_info s = (2%N, exh_B) /\ wf_vals exh_vals /\
               snd (hvs_add_vote s (exh_vote 0 11 8 5) 1) = HUnwanted.
Proof. exact hvs_example. Qed.
Print Assumptions C02_hvs_hypotheses_satisfiable.

(** Tie to the Go SOURCE (translator /verif/go2coq, regenerated from /repo on every check): the model's
    quorum arithmetic, running sums, quorum-crossing test, VerifyCommit threshold test, cap test and
    safeAddClip/safeSubClip are the expressions of types/vote_set.go and types/validator_set.go
    themselves, on the operands named there; second part: every single-atom condition (atom and polarity),
    field store, constant/call assignment and loop header of addVote, getVote, addVerifiedVote,
    SetPeerMaj23, MakeCommit, the accessors, Vote.CommitSig/Verify/ValidateBasic, CommitSig.*,
    Commit.ValidateBasic, CommitToVoteSet, VerifyCommit, GetByIndex, updateTotalVotingPower, BlockID /
    PartSetHeader and consensus/types.HeightVoteSet (statement spelled out in SourceTie.v). *)
From Kardia Require Import C02.SourceTie.
Theorem C02_source_tie : C02_source_tie_statement.
Proof. exact C02_source_tie_proof. Qed.
Print Assumptions C02_source_tie.

(** The decision-critical functions of the anchored code have exactly the decisions the source tie knows about
    (go2coq manifests, regenerated from /repo on every check; statement in SourceManifest.v). *)
From Kardia Require Import C02.SourceManifest.
Theorem C02_source_manifest : C02_source_manifest_statement.
Proof. exact C02_source_manifest_proof. Qed.
Print Assumptions C02_source_manifest.
