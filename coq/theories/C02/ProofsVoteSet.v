(** C02 — invariants of every reachable vote set (any history of votes, peer claims,
    MakeCommit and VerifyCommit calls applied to a fresh VoteSet) and the soundness theorems
    that follow from them: counted-once, HasTwoThirdsAny / HasAll / TwoThirdsMajority
    soundness, rejected votes leave the state unchanged. *)
From Coq Require Import List ZArith NArith Bool Lia Arith.
From Kardia Require Import Base.Int64 Base.ListX C02.Model C02.Proofs C02.ProofsLists Generated.C02Facts.
Import ListNotations.
Local Open Scope Z_scope.
Ltac Zify.zify_post_hook ::= Z.div_mod_to_equations.

Ltac prj := cbn [with_votes vs_chain vs_height vs_round vs_type vs_vals vs_votes vs_sum vs_maj23
                 vs_byblock vs_peers bv_votes bv_sum bv_peermaj] in *.

(* ------------------------------------------------------------------ *)
(** * addVerifiedVote in two phases *)

Definition upd (s : voteset) votes maj bb : voteset :=
  {| vs_chain := vs_chain s; vs_height := vs_height s; vs_round := vs_round s; vs_type := vs_type s;
     vs_vals := vs_vals s; vs_votes := votes; vs_sum := vs_sum s; vs_maj23 := maj;
     vs_byblock := bb; vs_peers := vs_peers s |}.

Definition fresh_bv (n : nat) : blockvotes :=
  {| bv_peermaj := false; bv_votes := repeat None n; bv_sum := 0 |}.

(** first half: voteSet.votes / voteSet.sum *)
Definition phase1 (vs : voteset) (v : vote) (i : nat) (power : Z) : voteset :=
  match vote_at (vs_votes vs) i with
  | Some _ => if maj_is vs (v_bid v) then with_votes vs (set_nth i (Some v) (vs_votes vs)) (vs_sum vs)
              else vs
  | None => with_votes vs (set_nth i (Some v) (vs_votes vs)) (wrap64 (vs_sum vs + power))
  end.

(** second half: the per-block entry and the quorum crossing *)
Definition proceed (vs1 : voteset) (v : vote) (i : nat) (power q : Z) (bv : blockvotes) : voteset :=
  let bv' := bv_add bv i v power in
  let crossed := Z.ltb (bv_sum bv) q && Z.leb q (bv_sum bv') in
  upd vs1
      (if crossed then match vs_maj23 vs1 with
                       | None => copy_over (bv_votes bv') (vs_votes vs1)
                       | Some _ => vs_votes vs1 end
       else vs_votes vs1)
      (if crossed then match vs_maj23 vs1 with None => Some (v_bid v) | Some m => Some m end
       else vs_maj23 vs1)
      (bb_set (v_bid v) bv' (vs_byblock vs1)).

Lemma add_verified_eq vs v i power :
  add_verified vs v i power =
  let vs1 := phase1 vs v i power in
  let c := is_some (vote_at (vs_votes vs) i) in
  match bb_find (v_bid v) (vs_byblock vs1) with
  | Some bv => if c && negb (bv_peermaj bv) then (vs1, false, c)
               else (proceed vs1 v i power (quorum (vs_vals vs)) bv, true, c)
  | None => if c then (vs1, false, c)
            else (proceed vs1 v i power (quorum (vs_vals vs)) (fresh_bv (length (vs_vals vs))), true, c)
  end.
Proof.
  unfold add_verified, proceed, upd, fresh_bv. fold (phase1 vs v i power). cbv zeta.
  set (vs1 := phase1 vs v i power).
  assert (Ec : match vote_at (vs_votes vs) i with Some _ => true | None => false end
               = is_some (vote_at (vs_votes vs) i)) by reflexivity.
  rewrite Ec. clear Ec.
  destruct (bb_find (v_bid v) (vs_byblock vs1)) as [bv|].
  - destruct (is_some (vote_at (vs_votes vs) i) && negb (bv_peermaj bv)); [reflexivity|].
    destruct (Z.ltb (bv_sum bv) (quorum (vs_vals vs)) &&
              Z.leb (quorum (vs_vals vs)) (bv_sum (bv_add bv i v power))); [|reflexivity].
    destruct (vs_maj23 vs1); reflexivity.
  - destruct (is_some (vote_at (vs_votes vs) i)); [reflexivity|].
    match goal with |- context [if ?c then _ else _] => destruct c end; [|reflexivity].
    destruct (vs_maj23 vs1); reflexivity.
Qed.

Lemma phase1_bb vs v i p : vs_byblock (phase1 vs v i p) = vs_byblock vs.
Proof. unfold phase1. destruct (vote_at _ _); [destruct (maj_is _ _)|]; reflexivity. Qed.

Lemma phase1_vals vs v i p : vs_vals (phase1 vs v i p) = vs_vals vs.
Proof. unfold phase1. destruct (vote_at _ _); [destruct (maj_is _ _)|]; reflexivity. Qed.

Lemma bv_add_mono bv i v p j :
  vote_at (bv_votes bv) j <> None -> vote_at (bv_votes (bv_add bv i v p)) j <> None.
Proof.
  unfold bv_add. destruct (vote_at (bv_votes bv) i) eqn:E; [auto|]. prj.
  intros H. destruct (Nat.eq_dec i j) as [->|Hne]; [congruence|]. rewrite vote_at_set_neq; auto.
Qed.

(** conflicting = false means the vote was added *)
Lemma add_verified_noconflict vs v i p s a c :
  add_verified vs v i p = (s, a, c) -> c = false -> a = true.
Proof.
  rewrite add_verified_eq. cbv zeta.
  destruct (bb_find _ _) as [bv|].
  - destruct (is_some (vote_at (vs_votes vs) i)); cbn [andb].
    + destruct (negb (bv_peermaj bv)); intros H; inversion H; congruence.
    + intros H; inversion H; congruence.
  - destruct (is_some (vote_at (vs_votes vs) i)); intros H; inversion H; congruence.
Qed.

(** the per-block vote lists only grow *)
Lemma add_verified_entries_mono s v i p s' a c :
  add_verified s v i p = (s', a, c) ->
  forall b bv j, bb_find b (vs_byblock s) = Some bv -> vote_at (bv_votes bv) j <> None ->
  exists bv', bb_find b (vs_byblock s') = Some bv' /\ vote_at (bv_votes bv') j <> None.
Proof.
  rewrite add_verified_eq. cbv zeta. rewrite phase1_bb. intros H b bv j Hf Hj.
  assert (Hstop : vs_byblock s' = vs_byblock s ->
                  exists bv', bb_find b (vs_byblock s') = Some bv' /\ vote_at (bv_votes bv') j <> None).
  { intros E. rewrite E. eauto. }
  assert (Hgo : forall bv0,
             (key_eqb (v_bid v) b = true -> bv0 = bv) ->
             vs_byblock s' = bb_set (v_bid v) (bv_add bv0 i v p) (vs_byblock s) ->
             exists bv', bb_find b (vs_byblock s') = Some bv' /\ vote_at (bv_votes bv') j <> None).
  { intros bv0 Hsame E. rewrite E, bb_find_set. destruct (key_eqb (v_bid v) b) eqn:Ek.
    - rewrite (Hsame eq_refl). eexists; split; [reflexivity|]. apply bv_add_mono; auto.
    - eauto. }
  destruct (bb_find (v_bid v) (vs_byblock s)) as [bv0|] eqn:Ef.
  - destruct (is_some (vote_at (vs_votes s) i) && negb (bv_peermaj bv0)); inversion H; subst.
    + apply Hstop. apply phase1_bb.
    + apply (Hgo bv0).
      * intros Ek. apply key_eqb_eq in Ek. rewrite Ek in Ef. congruence.
      * unfold proceed, upd. prj. rewrite phase1_bb. reflexivity.
  - destruct (is_some (vote_at (vs_votes s) i)); inversion H; subst.
    + apply Hstop. apply phase1_bb.
    + apply (Hgo (fresh_bv (length (vs_vals s)))).
      * intros Ek. apply key_eqb_eq in Ek. rewrite Ek in Ef. congruence.
      * unfold proceed, upd. prj. rewrite phase1_bb. reflexivity.
Qed.


(** the majority, once set, never changes; and the step that sets it touches only that
    block's entry *)
Lemma phase1_maj vs v i p : vs_maj23 (phase1 vs v i p) = vs_maj23 vs.
Proof. unfold phase1. destruct (vote_at _ _); [destruct (maj_is _ _)|]; reflexivity. Qed.

Lemma proceed_maj vs1 v i p q bv :
  let s' := proceed vs1 v i p q bv in
  (forall m, vs_maj23 vs1 = Some m -> vs_maj23 s' = Some m) /\
  (vs_maj23 vs1 = None -> forall m, vs_maj23 s' = Some m ->
   forall x, x <> m -> bb_find x (vs_byblock s') = bb_find x (vs_byblock vs1)).
Proof.
  cbv zeta. unfold proceed, upd. prj.
  destruct (Z.ltb (bv_sum bv) q && Z.leb q (bv_sum (bv_add bv i v p))).
  - split.
    + intros m Hm. rewrite Hm. reflexivity.
    + intros Hn m. rewrite Hn. intros E; injection E as <-. intros x Hx. rewrite bb_find_set.
      assert (Ek : key_eqb (v_bid v) x = false) by (apply key_eqb_false; congruence). rewrite Ek. reflexivity.
  - split; [auto|]. intros Hn m Hm. congruence.
Qed.

Lemma add_verified_maj s v i p s' a c :
  add_verified s v i p = (s', a, c) ->
  (forall m, vs_maj23 s = Some m -> vs_maj23 s' = Some m) /\
  (vs_maj23 s = None -> forall m, vs_maj23 s' = Some m ->
   forall x, x <> m -> bb_find x (vs_byblock s') = bb_find x (vs_byblock s)).
Proof.
  rewrite add_verified_eq. cbv zeta. intros H.
  assert (Hstop : s' = phase1 s v i p ->
            (forall m, vs_maj23 s = Some m -> vs_maj23 s' = Some m) /\
            (vs_maj23 s = None -> forall m, vs_maj23 s' = Some m ->
             forall x, x <> m -> bb_find x (vs_byblock s') = bb_find x (vs_byblock s))).
  { intros ->. rewrite phase1_maj, phase1_bb. split; [auto|]. intros Hn m Hm. congruence. }
  assert (Hgo : forall bv0, s' = proceed (phase1 s v i p) v i p (quorum (vs_vals s)) bv0 ->
            (forall m, vs_maj23 s = Some m -> vs_maj23 s' = Some m) /\
            (vs_maj23 s = None -> forall m, vs_maj23 s' = Some m ->
             forall x, x <> m -> bb_find x (vs_byblock s') = bb_find x (vs_byblock s))).
  { intros bv0 ->. pose proof (proceed_maj (phase1 s v i p) v i p (quorum (vs_vals s)) bv0) as Hp.
    cbv zeta in Hp. rewrite phase1_maj, phase1_bb in Hp. exact Hp. }
  destruct (bb_find (v_bid v) (vs_byblock (phase1 s v i p))) as [bv0|].
  - destruct (is_some (vote_at (vs_votes s) i) && negb (bv_peermaj bv0)); injection H as <- _ _.
    + apply Hstop; reflexivity.
    + apply (Hgo bv0); reflexivity.
  - destruct (is_some (vote_at (vs_votes s) i)); injection H as <- _ _.
    + apply Hstop; reflexivity.
    + apply (Hgo (fresh_bv (length (vs_vals s)))); reflexivity.
Qed.

Lemma step_maj s o :
  let s' := fst (step s o) in
  (forall m, vs_maj23 s = Some m -> vs_maj23 s' = Some m) /\
  (vs_maj23 s = None -> forall m, vs_maj23 s' = Some m ->
   forall x, x <> m -> bb_find x (vs_byblock s') = bb_find x (vs_byblock s)).
Proof.
  cbv zeta.
  assert (Hsame : forall s', vs_maj23 s' = vs_maj23 s ->
            (forall m, vs_maj23 s = Some m -> vs_maj23 s' = Some m) /\
            (vs_maj23 s = None -> forall m, vs_maj23 s' = Some m ->
             forall x, x <> m -> bb_find x (vs_byblock s') = bb_find x (vs_byblock s))).
  { intros s' E. rewrite E. split; [auto|]. intros Hn m Hm. congruence. }
  destruct o as [v|p b| |want hh c]; cbn [step]; try (cbn [fst]; apply Hsame; reflexivity).
  - destruct (add_vote s v) as [[s' a] e] eqn:E. cbn [fst]. unfold add_vote in E.
    destruct (N.eqb (v_addr v) 0); [injection E as <- _ _; apply Hsame; reflexivity|].
    destruct (negb _); [injection E as <- _ _; apply Hsame; reflexivity|].
    destruct (nth_error (vs_vals s) (N.to_nat (v_idx v))) as [val|]; [|injection E as <- _ _; apply Hsame; reflexivity].
    destruct (negb (N.eqb (v_addr v) (val_addr val))); [injection E as <- _ _; apply Hsame; reflexivity|].
    destruct (get_vote s (N.to_nat (v_idx v)) (v_bid v)) as [ex|].
    { destruct (N.eqb (s_id (v_sig ex)) (s_id (v_sig v))); injection E as <- _ _; apply Hsame; reflexivity. }
    destruct (negb _); [injection E as <- _ _; apply Hsame; reflexivity|].
    destruct (add_verified s v (N.to_nat (v_idx v)) (val_power val)) as [[s1 a1] c1] eqn:Eav.
    injection E as <- _ _. eapply add_verified_maj; eauto.
  - destruct (set_peer_maj23 s p b) as [s' e] eqn:E. cbn [fst]. unfold set_peer_maj23 in E.
    destruct (peer_find p (vs_peers s)); injection E as <- _; apply Hsame; reflexivity.
Qed.

(* ------------------------------------------------------------------ *)
(** * Rejected votes leave the vote set unchanged (no reachability needed) *)

Lemma rejected_unchanged vs v vs' added e :
  add_vote vs v = (vs', added, e) -> e <> EConflict -> (e <> ENone \/ added = false) ->
  vs' = vs /\ added = false.
Proof.
  unfold add_vote. intros H Hne Hor.
  destruct (N.eqb (v_addr v) 0); [inversion H; auto|].
  destruct (negb _); [inversion H; auto|].
  destruct (nth_error (vs_vals vs) (N.to_nat (v_idx v))) as [val|]; [|inversion H; auto].
  destruct (negb (N.eqb (v_addr v) (val_addr val))); [inversion H; auto|].
  destruct (get_vote vs (N.to_nat (v_idx v)) (v_bid v)) as [ex|].
  { destruct (N.eqb _ _); inversion H; auto. }
  destruct (negb _); [inversion H; auto|].
  destruct (add_verified vs v (N.to_nat (v_idx v)) (val_power val)) as [[s a] c] eqn:E.
  inversion H; subst. destruct c; [congruence|].
  apply add_verified_noconflict in E; auto. subst. destruct Hor; congruence.
Qed.

(* ------------------------------------------------------------------ *)
(** * Reachable vote sets *)

Section VoteSet.
Variables (chain ht rd ty : N) (vals : list validator).
Hypothesis Hwf : wf_vals vals.

(** the checks of addVote that do not depend on what was received before: non-empty address,
    step, index in range, address of that index, signature *)
Definition valid_vote (v : vote) : bool :=
  negb (N.eqb (v_addr v) 0) &&
  (N.eqb (v_height v) ht && N.eqb (v_round v) rd && N.eqb (v_type v) ty) &&
  match nth_error vals (N.to_nat (v_idx v)) with
  | Some val => N.eqb (v_addr v) (val_addr val) && vote_sig_valid chain (val_addr val) v
  | None => false
  end.

Definition offered (ops : list op) (v : vote) : Prop := In (OpVote v) ops.

(** the first vote in the history that carries index [i] and passes those checks *)
Fixpoint first_valid (ops : list op) (i : nat) : option vote :=
  match ops with
  | [] => None
  | OpVote v :: t => if Nat.eqb (N.to_nat (v_idx v)) i && valid_vote v then Some v else first_valid t i
  | _ :: t => first_valid t i
  end.

Definition good (done : list op) (i : nat) (u : vote) : Prop :=
  offered done u /\ N.to_nat (v_idx u) = i /\ valid_vote u = true.

Definition entry_ok (done : list op) (votes : list (option vote)) (b : blockid) (bv : blockvotes) : Prop :=
  length (bv_votes bv) = length vals /\
  bv_sum bv = voters_power vals (bv_votes bv) /\
  forall i u, vote_at (bv_votes bv) i = Some u ->
              good done i u /\ v_bid u = b /\ vote_at votes i <> None.

Record winv (done : list op) (s : voteset) : Prop := {
  w_chain : vs_chain s = chain;
  w_height : vs_height s = ht;
  w_round : vs_round s = rd;
  w_type : vs_type s = ty;
  w_vals : vs_vals s = vals;
  w_len : length (vs_votes s) = length vals;
  w_votes : forall i u, vote_at (vs_votes s) i = Some u -> good done i u;
  w_sum : vs_sum s = voters_power vals (vs_votes s);
  w_bb : forall b bv, bb_find b (vs_byblock s) = Some bv -> entry_ok done (vs_votes s) b bv;
  w_maj : forall m, vs_maj23 s = Some m ->
          exists bv, bb_find m (vs_byblock s) = Some bv /\ quorum vals <= bv_sum bv /\
                     forall i u, vote_at (bv_votes bv) i = Some u ->
                                 exists u', vote_at (vs_votes s) i = Some u' /\ v_bid u' = m;
  w_nomaj : vs_maj23 s = None ->
            forall b bv, bb_find b (vs_byblock s) = Some bv -> bv_sum bv < quorum vals }.

(** a validator's first valid vote is in the entry of its block *)
Definition finv (done : list op) (s : voteset) : Prop :=
  forall i u, first_valid done i = Some u ->
              exists bv, bb_find (v_bid u) (vs_byblock s) = Some bv /\ vote_at (bv_votes bv) i <> None.

Definition inv (done : list op) (s : voteset) : Prop := winv done s /\ finv done s.

(* ---- arithmetic side conditions ---- *)

Lemma Hnonneg : Forall (fun v => 0 <= val_power v) vals.
Proof. exact (proj1 Hwf). Qed.

Lemma no_wrap x : 0 <= x <= sum_powers vals -> wrap64 x = x.
Proof.
  intros H. destruct Hwf as [_ Hc]. pose proof cap_fits as [_ Hcap].
  apply wrap64_id. unfold in_int64, min_int64, max_int64, two63 in *. lia.
Qed.

Lemma quorum_pos : 1 <= quorum vals.
Proof.
  rewrite quorum_exact by exact Hwf. pose proof (sum_powers_nonneg _ Hnonneg). lia.
Qed.

(* ---- monotonicity ---- *)

Lemma good_mono done done' i u :
  (forall x, offered done x -> offered done' x) -> good done i u -> good done' i u.
Proof. intros H [H1 H2]. split; auto. Qed.

Lemma offered_app_l done x u : offered done u -> offered (done ++ x) u.
Proof. unfold offered. intros. apply in_or_app. auto. Qed.

Lemma entry_ok_mono done done' votes votes' b bv :
  (forall x, offered done x -> offered done' x) ->
  (forall j, vote_at votes j <> None -> vote_at votes' j <> None) ->
  entry_ok done votes b bv -> entry_ok done' votes' b bv.
Proof.
  intros Hd Hv [H1 [H2 H3]]. split; [auto|split; [auto|]].
  intros i u Hu. destruct (H3 i u Hu) as [Hg [Hb Hn]]. split; [eapply good_mono; eauto|split; auto].
Qed.

Lemma winv_mono done x s : winv done s -> winv (done ++ x) s.
Proof.
  intros [Hc Hh Hr Ht Hv Hl Hvo Hs Hb Hm Hn]. constructor; auto.
  - intros i u Hu. eapply good_mono; [|eauto]. intros; apply offered_app_l; auto.
  - intros b bv Hf. eapply entry_ok_mono; [| |eauto]; auto. intros; apply offered_app_l; auto.
Qed.

Lemma entry_ok_fresh done votes b : entry_ok done votes b (fresh_bv (length vals)).
Proof.
  unfold entry_ok, fresh_bv. prj. split; [apply repeat_length|split].
  - rewrite voters_power_repeat_none. reflexivity.
  - intros i u Hu. rewrite vote_at_repeat_none in Hu. discriminate.
Qed.

Lemma entry_ok_add done votes b bv i v val :
  entry_ok done votes b bv -> good done i v -> v_bid v = b -> vote_at votes i <> None ->
  nth_error vals i = Some val ->
  let bv' := bv_add bv i v (val_power val) in
  entry_ok done votes b bv' /\ bv_sum bv <= bv_sum bv' /\
  (forall j u, vote_at (bv_votes bv') j = Some u -> vote_at (bv_votes bv) j = Some u \/ (j = i /\ u = v)).
Proof.
  intros [H1 [H2 H3]] Hg Hb Hn Hval. cbv zeta. unfold bv_add.
  destruct (vote_at (bv_votes bv) i) as [ex|] eqn:Eex.
  - split; [split; auto|split; [lia|auto]].
  - prj. assert (Hlt : (i < length (bv_votes bv))%nat).
    { rewrite H1. apply nth_error_Some. congruence. }
    pose proof (voters_power_bounds vals (set_nth i (Some v) (bv_votes bv)) Hnonneg) as Hbd.
    rewrite (voters_power_set_new vals _ i v val Hval Eex Hlt) in Hbd.
    pose proof (voters_power_bounds vals (bv_votes bv) Hnonneg) as Hbd0.
    assert (Hp : 0 <= val_power val).
    { pose proof Hnonneg as Hf. rewrite Forall_forall in Hf. apply Hf. eapply nth_error_In; eauto. }
    rewrite H2. rewrite no_wrap by lia.
    assert (Hpos : forall j u, vote_at (set_nth i (Some v) (bv_votes bv)) j = Some u ->
                               vote_at (bv_votes bv) j = Some u \/ (j = i /\ u = v)).
    { intros j u Hu. destruct (Nat.eq_dec i j) as [->|Hne].
      - rewrite vote_at_set_eq in Hu by auto. right. split; congruence.
      - rewrite vote_at_set_neq in Hu by auto. auto. }
    split; [|split; [lia|exact Hpos]].
    unfold entry_ok. prj. split; [rewrite set_nth_length; auto|split].
    + rewrite (voters_power_set_new vals _ i v val Hval Eex Hlt). reflexivity.
    + intros j u Hu. destruct (Hpos j u Hu) as [Ho|[-> ->]]; auto.
Qed.

(* ---- phase 1 ---- *)

Lemma set_vote_mono (l : list (option vote)) i v j :
  (i < length l)%nat -> vote_at l j <> None -> vote_at (set_nth i (Some v) l) j <> None.
Proof.
  intros Hl H. destruct (Nat.eq_dec i j) as [->|Hne].
  - rewrite vote_at_set_eq by auto. discriminate.
  - rewrite vote_at_set_neq by auto. auto.
Qed.

Lemma winv_set_vote done s v i val sum' :
  winv done s -> N.to_nat (v_idx v) = i -> valid_vote v = true -> nth_error vals i = Some val ->
  ((vote_at (vs_votes s) i = None /\ sum' = wrap64 (vs_sum s + val_power val)) \/
   (exists ex, vote_at (vs_votes s) i = Some ex /\ sum' = vs_sum s /\ vs_maj23 s = Some (v_bid v))) ->
  winv (done ++ [OpVote v]) (with_votes s (set_nth i (Some v) (vs_votes s)) sum').
Proof.
  intros [Hc Hh Hr Ht Hv Hl Hvo Hs Hb Hm Hn] Hi Hval Hnth Hcase.
  assert (Hlt : (i < length (vs_votes s))%nat) by (rewrite Hl; apply nth_error_Some; congruence).
  assert (Hoff : forall x, offered done x -> offered (done ++ [OpVote v]) x)
    by (intros; apply offered_app_l; auto).
  assert (Hgv : good (done ++ [OpVote v]) i v).
  { split; [|split; auto]. unfold offered. apply in_or_app. right. left. reflexivity. }
  constructor; prj; auto.
  - rewrite set_nth_length. auto.
  - intros j u Hu. destruct (Nat.eq_dec i j) as [->|Hne].
    + rewrite vote_at_set_eq in Hu by auto. injection Hu as <-. auto.
    + rewrite vote_at_set_neq in Hu by auto. eapply good_mono; eauto.
  - destruct Hcase as [[Hnone ->]|[ex [Hex [-> _]]]].
    + rewrite (voters_power_set_new vals _ i v val Hnth Hnone Hlt).
      pose proof (voters_power_bounds vals (set_nth i (Some v) (vs_votes s)) Hnonneg) as Hbd.
      rewrite (voters_power_set_new vals _ i v val Hnth Hnone Hlt) in Hbd.
      rewrite Hs. apply no_wrap. lia.
    + rewrite (voters_power_set_same vals _ i v ex Hex). auto.
  - intros b bv Hf. eapply entry_ok_mono; [exact Hoff| |eauto].
    intros j. apply set_vote_mono; auto.
  - intros m Hm'. destruct (Hm m Hm') as [bv [Hf [Hq Hpos]]]. exists bv. split; [auto|split; [auto|]].
    intros j u Hu. destruct (Hpos j u Hu) as [u' [Hu' Hbid]].
    destruct (Nat.eq_dec i j) as [->|Hne].
    + destruct Hcase as [[Hnone _]|[ex [_ [_ Hmaj]]]]; [congruence|].
      exists v. split; [apply vote_at_set_eq; auto|congruence].
    + exists u'. rewrite vote_at_set_neq by auto. auto.
Qed.

Lemma maj_is_true s b : maj_is s b = true -> vs_maj23 s = Some b.
Proof.
  unfold maj_is. destruct (vs_maj23 s) as [m|]; [|discriminate]. intros H. apply key_eqb_eq in H. congruence.
Qed.

Lemma phase1_winv done s v i val :
  winv done s -> N.to_nat (v_idx v) = i -> valid_vote v = true -> nth_error vals i = Some val ->
  let s1 := phase1 s v i (val_power val) in
  winv (done ++ [OpVote v]) s1 /\
  vs_maj23 s1 = vs_maj23 s /\
  vote_at (vs_votes s1) i <> None /\
  (vs_maj23 s = Some (v_bid v) \/ vote_at (vs_votes s) i = None -> vote_at (vs_votes s1) i = Some v).
Proof.
  intros Hw Hi Hval Hnth. cbv zeta.
  assert (Hlt : (i < length (vs_votes s))%nat).
  { rewrite (w_len _ _ Hw). apply nth_error_Some. congruence. }
  unfold phase1. destruct (vote_at (vs_votes s) i) as [ex|] eqn:Eex.
  - destruct (maj_is s (v_bid v)) eqn:Emaj.
    + apply maj_is_true in Emaj.
      split; [apply (winv_set_vote done s v i val); auto; right; exists ex; auto|].
      prj. split; [reflexivity|]. rewrite vote_at_set_eq by auto. split; [discriminate|auto].
    + split; [apply winv_mono; auto|]. split; [reflexivity|]. split; [congruence|].
      intros [Hm|Hn]; [|congruence]. unfold maj_is in Emaj. rewrite Hm, key_eqb_refl in Emaj. discriminate.
  - split; [apply (winv_set_vote done s v i val); auto|].
    prj. split; [reflexivity|]. rewrite vote_at_set_eq by auto. split; [discriminate|auto].
Qed.

(* ---- phase 2 ---- *)

Lemma winv_upd_entry done s1 b bv' :
  winv done s1 -> entry_ok done (vs_votes s1) b bv' ->
  (vs_maj23 s1 = Some b ->
   quorum vals <= bv_sum bv' /\
   forall i u, vote_at (bv_votes bv') i = Some u ->
               exists u', vote_at (vs_votes s1) i = Some u' /\ v_bid u' = b) ->
  (vs_maj23 s1 = None -> bv_sum bv' < quorum vals) ->
  winv done (upd s1 (vs_votes s1) (vs_maj23 s1) (bb_set b bv' (vs_byblock s1))).
Proof.
  intros [Hc Hh Hr Ht Hv Hl Hvo Hs Hb Hm Hn] Hok Hmajb Hnone.
  constructor; unfold upd; prj; auto.
  - intros x bv. rewrite bb_find_set. destruct (key_eqb b x) eqn:Ek.
    + apply key_eqb_eq in Ek. subst x. intros E; injection E as <-. auto.
    + auto.
  - intros m Hm'. rewrite bb_find_set. destruct (key_eqb b m) eqn:Ek.
    + apply key_eqb_eq in Ek. subst m. destruct (Hmajb Hm') as [Hq Hpos]. exists bv'. auto.
    + auto.
  - intros Hnm x bv. rewrite bb_find_set. destruct (key_eqb b x) eqn:Ek.
    + intros E; injection E as <-. auto.
    + apply Hn; auto.
Qed.

Lemma winv_cross done s1 b bv' :
  winv done s1 -> entry_ok done (vs_votes s1) b bv' ->
  vs_maj23 s1 = None -> quorum vals <= bv_sum bv' ->
  winv done (upd s1 (copy_over (bv_votes bv') (vs_votes s1)) (Some b) (bb_set b bv' (vs_byblock s1))).
Proof.
  intros [Hc Hh Hr Ht Hv Hl Hvo Hs Hb Hm Hn] Hok Hnone Hq.
  pose proof Hok as [Hk1 [Hk2 Hk3]].
  assert (Hlen : length (bv_votes bv') = length (vs_votes s1)) by congruence.
  assert (Hsup : forall j, vote_at (vs_votes s1) j <> None ->
                           vote_at (copy_over (bv_votes bv') (vs_votes s1)) j <> None).
  { intros j Hj. rewrite vote_at_copy_over by auto. destruct (vote_at (bv_votes bv') j); [discriminate|auto]. }
  constructor; unfold upd; prj; auto.
  - rewrite copy_over_length. auto.
  - intros j u. rewrite vote_at_copy_over by auto.
    destruct (vote_at (bv_votes bv') j) as [w|] eqn:Ew.
    + intros E; injection E as <-. apply (Hk3 j w Ew).
    + apply Hvo.
  - rewrite Hs. apply voters_power_ext; [exact Hnonneg|]. intros j. split; [apply Hsup|].
    rewrite vote_at_copy_over by auto.
    destruct (vote_at (bv_votes bv') j) as [w|] eqn:Ew; [|auto].
    intros _. apply (Hk3 j w Ew).
  - intros x bv. rewrite bb_find_set. destruct (key_eqb b x) eqn:Ek.
    + apply key_eqb_eq in Ek. subst x. intros E; injection E as <-.
      eapply entry_ok_mono; [| |exact Hok]; auto.
    + intros Hf. eapply entry_ok_mono; [| |exact (Hb x bv Hf)]; auto.
  - intros m E. injection E as <-. exists bv'. rewrite bb_find_set, key_eqb_refl.
    split; [reflexivity|split; [auto|]].
    intros j u Hu. exists u. rewrite vote_at_copy_over by auto. rewrite Hu. split; [reflexivity|].
    apply (Hk3 j u Hu).
  - discriminate.
Qed.

Lemma proceed_winv done s1 v i val bv0 :
  winv done s1 -> good done i v -> nth_error vals i = Some val ->
  vote_at (vs_votes s1) i <> None ->
  (vs_maj23 s1 = Some (v_bid v) -> exists u, vote_at (vs_votes s1) i = Some u /\ v_bid u = v_bid v) ->
  (bb_find (v_bid v) (vs_byblock s1) = Some bv0 \/
   (bb_find (v_bid v) (vs_byblock s1) = None /\ bv0 = fresh_bv (length vals))) ->
  winv done (proceed s1 v i (val_power val) (quorum vals) bv0).
Proof.
  intros Hw Hg Hnth Hni Hmi Hbv0.
  assert (Hok0 : entry_ok done (vs_votes s1) (v_bid v) bv0).
  { destruct Hbv0 as [Hf|[_ ->]]; [apply (w_bb _ _ Hw); auto|apply entry_ok_fresh]. }
  destruct (entry_ok_add done (vs_votes s1) (v_bid v) bv0 i v val Hok0 Hg eq_refl Hni Hnth)
    as [Hok' [Hle Hsub]].
  assert (Horig : vs_maj23 s1 = None -> bv_sum bv0 < quorum vals).
  { intros Hnm. destruct Hbv0 as [Hf|[_ ->]]; [eapply (w_nomaj _ _ Hw); eauto|].
    unfold fresh_bv. prj. pose proof quorum_pos. lia. }
  assert (Hmajb : vs_maj23 s1 = Some (v_bid v) ->
                  quorum vals <= bv_sum (bv_add bv0 i v (val_power val)) /\
                  forall j u, vote_at (bv_votes (bv_add bv0 i v (val_power val))) j = Some u ->
                              exists u', vote_at (vs_votes s1) j = Some u' /\ v_bid u' = v_bid v).
  { intros Hmaj. destruct (w_maj _ _ Hw _ Hmaj) as [bv [Hf [Hq Hpos]]].
    assert (bv = bv0) by (destruct Hbv0 as [Hf0|[Hf0 _]]; congruence). subst bv.
    split; [lia|]. intros j u Hu. destruct (Hsub j u Hu) as [Ho|[-> ->]]; [eauto|auto]. }
  unfold proceed.
  destruct (Z.ltb (bv_sum bv0) (quorum vals) && Z.leb (quorum vals) (bv_sum (bv_add bv0 i v (val_power val))))
    eqn:Ecr.
  - apply andb_true_iff in Ecr. destruct Ecr as [Elt Ele]. apply Z.ltb_lt in Elt. apply Z.leb_le in Ele.
    destruct (vs_maj23 s1) as [m|] eqn:Emaj.
    + rewrite <- Emaj. apply winv_upd_entry; auto.
      * rewrite Emaj. exact Hmajb.
      * rewrite Emaj. discriminate.
    + apply winv_cross; auto.
  - apply winv_upd_entry; auto.
    intros Hnm. specialize (Horig Hnm).
    apply andb_false_iff in Ecr. destruct Ecr as [E|E]; [apply Z.ltb_ge in E|apply Z.leb_gt in E]; lia.
Qed.

Lemma add_verified_winv done s v i val s' a c :
  winv done s -> N.to_nat (v_idx v) = i -> valid_vote v = true -> nth_error vals i = Some val ->
  add_verified s v i (val_power val) = (s', a, c) ->
  winv (done ++ [OpVote v]) s'.
Proof.
  intros Hw Hi Hval Hnth. rewrite add_verified_eq. cbv zeta.
  destruct (phase1_winv done s v i val Hw Hi Hval Hnth) as [Hw1 [Hmaj1 [Hni Hset]]].
  rewrite (w_vals _ _ Hw).
  assert (Hg : good (done ++ [OpVote v]) i v).
  { split; [|split; auto]. unfold offered. apply in_or_app. right. left. reflexivity. }
  assert (Hmi : vs_maj23 (phase1 s v i (val_power val)) = Some (v_bid v) ->
                exists u, vote_at (vs_votes (phase1 s v i (val_power val))) i = Some u /\ v_bid u = v_bid v).
  { intros E. rewrite Hmaj1 in E. exists v. split; auto. }
  destruct (bb_find (v_bid v) (vs_byblock (phase1 s v i (val_power val)))) as [bv0|] eqn:Ef.
  - destruct (is_some (vote_at (vs_votes s) i) && negb (bv_peermaj bv0)); intros H; injection H as <- _ _; auto.
    apply (proceed_winv _ _ v i val bv0); auto.
  - destruct (is_some (vote_at (vs_votes s) i)); intros H; injection H as <- _ _; auto.
    apply (proceed_winv _ _ v i val (fresh_bv (length vals))); auto.
Qed.

(** a vote of a validator that has nothing in voteSet.votes yet lands in its block's entry *)
Lemma add_verified_first done s v i val s' a c :
  winv done s -> nth_error vals i = Some val -> vote_at (vs_votes s) i = None ->
  add_verified s v i (val_power val) = (s', a, c) ->
  exists bv, bb_find (v_bid v) (vs_byblock s') = Some bv /\ vote_at (bv_votes bv) i = Some v.
Proof.
  intros Hw Hnth Hnone. rewrite add_verified_eq. cbv zeta. rewrite phase1_bb, Hnone. cbn [is_some andb].
  assert (Hlt : (i < length vals)%nat) by (apply nth_error_Some; congruence).
  assert (Hgo : forall bv0, length (bv_votes bv0) = length vals -> vote_at (bv_votes bv0) i = None ->
            exists bv, bb_find (v_bid v)
                         (vs_byblock (proceed (phase1 s v i (val_power val)) v i (val_power val)
                                              (quorum (vs_vals s)) bv0)) = Some bv /\
                       vote_at (bv_votes bv) i = Some v).
  { intros bv0 Hl0 Hn0. unfold proceed, upd. prj. rewrite bb_find_set, key_eqb_refl.
    eexists; split; [reflexivity|]. unfold bv_add. rewrite Hn0. prj. apply vote_at_set_eq. lia. }
  destruct (bb_find (v_bid v) (vs_byblock s)) as [bv0|] eqn:Ef; intros H; inversion H; subst.
  - destruct (w_bb _ _ Hw _ _ Ef) as [Hl0 [_ Hpos]]. apply Hgo; auto.
    destruct (vote_at (bv_votes bv0) i) as [u|] eqn:Eu; [|reflexivity].
    destruct (Hpos i u Eu) as [_ [_ Hc]]. congruence.
  - rewrite (w_vals _ _ Hw). apply Hgo; unfold fresh_bv; prj.
    + apply repeat_length.
    + apply vote_at_repeat_none.
Qed.

(* ---- first_valid ---- *)

Lemma first_valid_app a b i :
  first_valid (a ++ b) i = match first_valid a i with Some v => Some v | None => first_valid b i end.
Proof.
  induction a as [|o t IH]; [reflexivity|]. destruct o; cbn [first_valid app]; auto.
  destruct (Nat.eqb (N.to_nat (v_idx v)) i && valid_vote v); auto.
Qed.

Lemma good_first done i u : good done i u -> first_valid done i <> None.
Proof.
  intros [Ho [Hi Hv]]. unfold offered in Ho. induction done as [|o t IH]; [contradiction|].
  destruct Ho as [->|Ho].
  - cbn [first_valid]. rewrite Hi, Nat.eqb_refl, Hv. discriminate.
  - destruct o; cbn [first_valid]; auto.
    destruct (Nat.eqb (N.to_nat (v_idx v)) i && valid_vote v); [discriminate|auto].
Qed.

Lemma first_valid_spec done i u :
  first_valid done i = Some u -> offered done u /\ N.to_nat (v_idx u) = i /\ valid_vote u = true.
Proof.
  unfold offered. induction done as [|o t IH]; [discriminate|].
  destruct o; cbn [first_valid]; try (intros H; destruct (IH H) as [H1 H2]; split; [right; auto|auto]).
  destruct (Nat.eqb (N.to_nat (v_idx v)) i && valid_vote v) eqn:E.
  - intros H; injection H as <-. apply andb_true_iff in E. destruct E as [E1 E2]. apply Nat.eqb_eq in E1.
    split; [left; reflexivity|auto].
  - intros H; destruct (IH H) as [H1 H2]; split; [right; auto|auto].
Qed.

Lemma votes_none_of_first done s i : winv done s -> first_valid done i = None -> vote_at (vs_votes s) i = None.
Proof.
  intros Hw Hf. destruct (vote_at (vs_votes s) i) as [u|] eqn:E; [|reflexivity].
  exfalso. apply (good_first done i u); auto. apply (w_votes _ _ Hw); auto.
Qed.

(* ---- steps ---- *)

Lemma inv_keep done s o :
  inv done s ->
  (forall v, o = OpVote v -> valid_vote v = false \/ first_valid done (N.to_nat (v_idx v)) <> None) ->
  inv (done ++ [o]) s.
Proof.
  intros [Hw Hf] Ho. split; [apply winv_mono; auto|].
  intros i u. rewrite first_valid_app. destruct (first_valid done i) as [w|] eqn:E.
  - intros E'; injection E' as <-. apply Hf; auto.
  - destruct o; cbn [first_valid]; try discriminate.
    destruct (Nat.eqb (N.to_nat (v_idx v)) i && valid_vote v) eqn:Eb; [|discriminate].
    apply andb_true_iff in Eb. destruct Eb as [E1 E2]. apply Nat.eqb_eq in E1.
    destruct (Ho v eq_refl) as [H|H]; [congruence|]. rewrite E1 in H. contradiction.
Qed.

Lemma get_vote_some_votes done s i b ex :
  winv done s -> get_vote s i b = Some ex -> vote_at (vs_votes s) i <> None.
Proof.
  intros Hw. unfold get_vote.
  destruct (vote_at (vs_votes s) i) as [e0|] eqn:E0; [discriminate|].
  destruct (bb_find b (vs_byblock s)) as [bv|] eqn:Ef; [|discriminate].
  intros Hu. destruct (w_bb _ _ Hw _ _ Ef) as [_ [_ Hpos]]. destruct (Hpos i ex Hu) as [_ [_ Hc]]. congruence.
Qed.

Lemma add_vote_inv done s v s' a e :
  inv done s -> add_vote s v = (s', a, e) -> inv (done ++ [OpVote v]) s'.
Proof.
  intros Hinv. pose proof Hinv as [Hw Hf]. unfold add_vote.
  rewrite (w_height _ _ Hw), (w_round _ _ Hw), (w_type _ _ Hw), (w_vals _ _ Hw), (w_chain _ _ Hw).
  assert (Hrej : valid_vote v = false -> inv (done ++ [OpVote v]) s).
  { intros Hv. apply inv_keep; auto. intros v0 E; injection E as <-. auto. }
  unfold valid_vote in Hrej.
  destruct (N.eqb (v_addr v) 0) eqn:Ea; [intros H; inversion H; subst; apply Hrej; reflexivity|].
  destruct (N.eqb (v_height v) ht && N.eqb (v_round v) rd && N.eqb (v_type v) ty) eqn:Es; cbn [negb andb] in *;
    [|intros H; inversion H; subst; apply Hrej; reflexivity].
  destruct (nth_error vals (N.to_nat (v_idx v))) as [val|] eqn:Enth;
    [|intros H; inversion H; subst; apply Hrej; reflexivity].
  destruct (N.eqb (v_addr v) (val_addr val)) eqn:Ead; cbn [negb andb] in *;
    [|intros H; inversion H; subst; apply Hrej; reflexivity].
  destruct (get_vote s (N.to_nat (v_idx v)) (v_bid v)) as [ex|] eqn:Eg.
  { assert (Hk : inv (done ++ [OpVote v]) s).
    { apply inv_keep; auto. intros v0 E; injection E as <-. right.
      pose proof (get_vote_some_votes _ _ _ _ _ Hw Eg) as Hn.
      intros Hfv. apply Hn. eapply votes_none_of_first; eauto. }
    destruct (N.eqb (s_id (v_sig ex)) (s_id (v_sig v))); intros H; inversion H; subst; exact Hk. }
  destruct (vote_sig_valid chain (val_addr val) v) eqn:Esig; cbn [negb] in *;
    [|intros H; inversion H; subst; apply Hrej; reflexivity].
  assert (Hval : valid_vote v = true).
  { unfold valid_vote. rewrite Ea, Es, Enth, Ead, Esig. reflexivity. }
  destruct (add_verified s v (N.to_nat (v_idx v)) (val_power val)) as [[s1 a1] c1] eqn:Eav.
  intros H; inversion H; subst. split.
  - eapply add_verified_winv; eauto.
  - intros i u. rewrite first_valid_app. destruct (first_valid done i) as [w|] eqn:E.
    + intros E'; injection E' as <-. destruct (Hf i w E) as [bv [Hfb Hnb]].
      eapply add_verified_entries_mono; eauto.
    + cbn [first_valid]. destruct (Nat.eqb (N.to_nat (v_idx v)) i && valid_vote v) eqn:Eb; [|discriminate].
      intros E'; injection E' as <-. apply andb_true_iff in Eb. destruct Eb as [E1 _]. apply Nat.eqb_eq in E1.
      subst i. pose proof (votes_none_of_first _ _ _ Hw E) as Hnone.
      destruct (add_verified_first done s v _ val _ _ _ Hw Enth Hnone Eav) as [bv [Hfb Hvb]].
      exists bv. split; [auto|congruence].
Qed.

Lemma set_peer_inv done s p b s' e :
  inv done s -> set_peer_maj23 s p b = (s', e) -> inv (done ++ [OpPeer p b]) s'.
Proof.
  intros Hinv. unfold set_peer_maj23.
  assert (Hkeep : inv (done ++ [OpPeer p b]) s) by (apply inv_keep; auto; discriminate).
  destruct (peer_find p (vs_peers s)); [intros H; inversion H; subst; auto|].
  destruct Hkeep as [Hw Hf]. pose proof Hw as [Hc Hh Hr Ht Hv Hl Hvo Hs Hb Hm Hn].
  set (bv1 := match bb_find b (vs_byblock s) with
              | Some bv => {| bv_peermaj := true; bv_votes := bv_votes bv; bv_sum := bv_sum bv |}
              | None => {| bv_peermaj := true; bv_votes := repeat None (length (vs_vals s)); bv_sum := 0 |} end).
  (** every entry of the new table has the votes and sum of the old entry, or is new and empty *)
  assert (Hview : forall bb',
     bb' = vs_byblock s \/ bb' = bb_set b bv1 (vs_byblock s) ->
     forall x bv, bb_find x bb' = Some bv ->
       (exists bv0, bb_find x (vs_byblock s) = Some bv0 /\ bv_votes bv = bv_votes bv0 /\ bv_sum bv = bv_sum bv0) \/
       (bv_votes bv = repeat None (length vals) /\ bv_sum bv = 0)).
  { intros bb' [->| ->] x bv; [intros Hx; left; eauto|].
    rewrite bb_find_set. destruct (key_eqb b x) eqn:Ek; [|intros Hx; left; eauto].
    apply key_eqb_eq in Ek. subst x. intros E; injection E as <-. unfold bv1.
    destruct (bb_find b (vs_byblock s)) as [bv0|]; [left; eauto|right]. prj. rewrite Hv. auto. }
  assert (Hgrow : forall bb',
     bb' = vs_byblock s \/ bb' = bb_set b bv1 (vs_byblock s) ->
     forall x bv0, bb_find x (vs_byblock s) = Some bv0 ->
       exists bv, bb_find x bb' = Some bv /\ bv_votes bv = bv_votes bv0 /\ bv_sum bv = bv_sum bv0).
  { intros bb' [->| ->] x bv0 Hx; [eauto|].
    rewrite bb_find_set. destruct (key_eqb b x) eqn:Ek; [|eauto].
    apply key_eqb_eq in Ek. subst x. unfold bv1. rewrite Hx. eexists; split; [reflexivity|auto]. }
  assert (Hbb : forall bb', bb' = vs_byblock s \/ bb' = bb_set b bv1 (vs_byblock s) ->
     inv (done ++ [OpPeer p b])
         {| vs_chain := vs_chain s; vs_height := vs_height s; vs_round := vs_round s; vs_type := vs_type s;
            vs_vals := vs_vals s; vs_votes := vs_votes s; vs_sum := vs_sum s; vs_maj23 := vs_maj23 s;
            vs_byblock := bb'; vs_peers := (p, b) :: vs_peers s |}).
  { intros bb' Hbb'. split.
    - constructor; prj; auto.
      + intros x bv Hx. destruct (Hview bb' Hbb' x bv Hx) as [[bv0 [Hx0 [Ev Es]]]|[Ev Es]].
        * destruct (Hb x bv0 Hx0) as [K1 [K2 K3]]. unfold entry_ok. rewrite Ev, Es. auto.
        * unfold entry_ok. rewrite Ev, Es. split; [apply repeat_length|split].
          -- rewrite voters_power_repeat_none. reflexivity.
          -- intros i u Hu. rewrite vote_at_repeat_none in Hu. discriminate.
      + intros m Hm'. destruct (Hm m Hm') as [bv0 [Hx0 [Hq Hpos]]].
        destruct (Hgrow bb' Hbb' m bv0 Hx0) as [bv [Hx [Ev Es]]]. exists bv. rewrite Ev, Es. auto.
      + intros Hnm x bv Hx. destruct (Hview bb' Hbb' x bv Hx) as [[bv0 [Hx0 [Ev Es]]]|[Ev Es]].
        * rewrite Es. eapply Hn; eauto.
        * rewrite Es. pose proof quorum_pos. lia.
    - intros i u Hu. prj. destruct (Hf i u Hu) as [bv0 [Hx0 Hn0]].
      destruct (Hgrow bb' Hbb' _ bv0 Hx0) as [bv [Hx [Ev Es]]]. exists bv. rewrite Ev. auto. }
  intros H; inversion H; subst. apply Hbb.
  destruct (bb_find b (vs_byblock s)) as [bv|] eqn:Ef.
  - destruct (bv_peermaj bv); [left; reflexivity|right; reflexivity].
  - right; reflexivity.
Qed.

Lemma step_inv done s o : inv done s -> inv (done ++ [o]) (fst (step s o)).
Proof.
  intros Hinv. destruct o as [v|p b| |want hh c]; cbn [step].
  - destruct (add_vote s v) as [[s' a] e] eqn:E. cbn [fst]. eapply add_vote_inv; eauto.
  - destruct (set_peer_maj23 s p b) as [s' e] eqn:E. cbn [fst]. eapply set_peer_inv; eauto.
  - cbn [fst]. apply inv_keep; auto; discriminate.
  - cbn [fst]. apply inv_keep; auto; discriminate.
Qed.

Lemma final_cons s o t : final s (o :: t) = final (fst (step s o)) t.
Proof.
  unfold final. cbn [run]. destruct (step s o) as [s1 ob]. cbn [fst]. destruct (run s1 t) as [s2 obs]. reflexivity.
Qed.

Lemma run_inv ops : forall done s, inv done s -> inv (done ++ ops) (final s ops).
Proof.
  induction ops as [|o t IH]; intros done s Hinv.
  - rewrite app_nil_r. exact Hinv.
  - rewrite final_cons. replace (done ++ o :: t) with ((done ++ [o]) ++ t) by (rewrite <- app_assoc; reflexivity).
    apply IH. apply step_inv. auto.
Qed.

Lemma init_inv : inv [] (new_voteset chain ht rd ty vals).
Proof.
  split.
  - constructor; unfold new_voteset; prj; auto.
    + apply repeat_length.
    + intros i u Hu. rewrite vote_at_repeat_none in Hu. discriminate.
    + rewrite voters_power_repeat_none. reflexivity.
    + intros b bv Hx. discriminate.
    + discriminate.
    + intros _ b bv Hx. discriminate.
  - intros i u Hu. discriminate.
Qed.

Theorem reach_inv ops : inv ops (final (new_voteset chain ht rd ty vals) ops).
Proof. apply (run_inv ops [] _ init_inv). Qed.

(* ------------------------------------------------------------------ *)
(** * Readable form of "a valid vote of validator i for this step" *)

Definition valid_vote_of (i : nat) (v : vote) : Prop :=
  N.to_nat (v_idx v) = i /\ v_height v = ht /\ v_round v = rd /\ v_type v = ty /\
  exists val, nth_error vals i = Some val /\ v_addr v = val_addr val /\
              vote_sig_valid chain (val_addr val) v = true.

Lemma valid_vote_spec i v : N.to_nat (v_idx v) = i -> valid_vote v = true -> valid_vote_of i v.
Proof.
  intros Hi. unfold valid_vote, valid_vote_of. rewrite Hi. rewrite !andb_true_iff.
  intros [[_ [[H1 H2] H3]] H4]. apply N.eqb_eq in H1, H2, H3.
  destruct (nth_error vals i) as [val|]; [|discriminate]. apply andb_true_iff in H4. destruct H4 as [H4 H5].
  apply N.eqb_eq in H4. repeat split; auto. exists val. auto.
Qed.

Lemma valid_vote_of_valid i v : valid_vote_of i v -> N.to_nat (v_idx v) = i /\ valid_vote v = true.
Proof.
  intros [Hi [H1 [H2 [H3 [val [Hn [Ha Hs]]]]]]]. split; auto. unfold valid_vote.
  rewrite Hi, Hn, H1, H2, H3, Ha, !N.eqb_refl, Hs. cbn [andb].
  unfold vote_sig_valid, sig_valid in Hs. rewrite !andb_true_iff in Hs.
  destruct Hs as [[[[[[[[_ Hs0] Hs1] _] _] _] _] _] _].
  apply N.eqb_eq in Hs1. rewrite <- Hs1. rewrite Hs0. reflexivity.
Qed.

(** a stored vote: offered in the history, carrying index [i] and passing all checks *)
Definition stored_ok (ops : list op) (i : nat) (v : vote) : Prop :=
  offered ops v /\ valid_vote_of i v.

Lemma good_stored ops i v : good ops i v -> stored_ok ops i v.
Proof. intros [H1 [H2 H3]]. split; auto. apply valid_vote_spec; auto. Qed.

(* ------------------------------------------------------------------ *)
(** * Soundness theorems *)

Let reach (ops : list op) : voteset := final (new_voteset chain ht rd ty vals) ops.

(** every validator's power is in [vs_sum], and in each per-block sum, at most once,
    whatever it sent; none of the int64 additions wrapped *)
Theorem counted_once ops :
  let s := reach ops in
  length (vs_votes s) = length vals /\
  vs_sum s = voters_power vals (vs_votes s) /\ 0 <= vs_sum s <= sum_powers vals /\
  (forall i v, vote_at (vs_votes s) i = Some v -> stored_ok ops i v) /\
  forall b bv, bb_find b (vs_byblock s) = Some bv ->
    length (bv_votes bv) = length vals /\
    bv_sum bv = voters_power vals (bv_votes bv) /\ 0 <= bv_sum bv <= sum_powers vals /\
    forall i v, vote_at (bv_votes bv) i = Some v -> stored_ok ops i v /\ v_bid v = b.
Proof.
  cbv zeta. destruct (reach_inv ops) as [Hw _]. fold (reach ops) in Hw.
  split; [apply (w_len _ _ Hw)|]. split; [apply (w_sum _ _ Hw)|].
  split; [rewrite (w_sum _ _ Hw); apply voters_power_bounds; exact Hnonneg|].
  split; [intros i v Hv; apply good_stored; apply (w_votes _ _ Hw); auto|].
  intros b bv Hx. destruct (w_bb _ _ Hw _ _ Hx) as [K1 [K2 K3]].
  split; [auto|split; [auto|split]].
  - rewrite K2. apply voters_power_bounds. exact Hnonneg.
  - intros i v Hv. destruct (K3 i v Hv) as [Hg [Hb _]]. split; [apply good_stored|]; auto.
Qed.

Theorem any_sound ops :
  let s := reach ops in
  has_two_thirds_any s = true ->
  (forall i v, vote_at (vs_votes s) i = Some v -> stored_ok ops i v) /\
  2 * sum_powers vals < 3 * voters_power vals (vs_votes s).
Proof.
  cbv zeta. destruct (reach_inv ops) as [Hw _]. fold (reach ops) in Hw.
  unfold has_two_thirds_any. rewrite (w_vals _ _ Hw), (w_sum _ _ Hw). intros H. apply Z.ltb_lt in H.
  split; [intros i v Hv; apply good_stored; apply (w_votes _ _ Hw); auto|].
  rewrite two_thirds_exact in H by exact Hwf.
  pose proof (sum_powers_nonneg _ Hnonneg). lia.
Qed.

Theorem hasall_sound ops :
  let s := reach ops in
  has_all s = true ->
  (forall i v, vote_at (vs_votes s) i = Some v -> stored_ok ops i v) /\
  voters_power vals (vs_votes s) = sum_powers vals.
Proof.
  cbv zeta. destruct (reach_inv ops) as [Hw _]. fold (reach ops) in Hw.
  unfold has_all. rewrite (w_vals _ _ Hw), (w_sum _ _ Hw). intros H. apply Z.eqb_eq in H.
  split; [intros i v Hv; apply good_stored; apply (w_votes _ _ Hw); auto|].
  rewrite total_power_exact in H by exact Hwf. exact H.
Qed.

Theorem maj23_sound ops b :
  let s := reach ops in
  vs_maj23 s = Some b ->
  exists bv, bb_find b (vs_byblock s) = Some bv /\
    length (bv_votes bv) = length vals /\
    (forall i v, vote_at (bv_votes bv) i = Some v -> stored_ok ops i v /\ v_bid v = b) /\
    2 * sum_powers vals < 3 * voters_power vals (bv_votes bv).
Proof.
  cbv zeta. destruct (reach_inv ops) as [Hw _]. fold (reach ops) in Hw. intros Hm.
  destruct (w_maj _ _ Hw _ Hm) as [bv [Hx [Hq _]]]. exists bv. split; [auto|].
  destruct (w_bb _ _ Hw _ _ Hx) as [K1 [K2 K3]]. split; [auto|split].
  - intros i v Hv. destruct (K3 i v Hv) as [Hg [Hb _]]. split; [apply good_stored|]; auto.
  - rewrite <- K2. rewrite quorum_exact in Hq by exact Hwf.
    pose proof (sum_powers_nonneg _ Hnonneg). lia.
Qed.

(* ------------------------------------------------------------------ *)
(** * MakeCommit / VerifyCommit round trip *)

Lemma good_sig done i v val :
  good done i v -> nth_error vals i = Some val ->
  sig_valid chain (val_addr val) ty ht rd (v_bid v) (v_time v) (v_sig v) = true.
Proof.
  intros [_ [Hi Hv]] Hn. destruct (valid_vote_spec i v Hi Hv) as [_ [H1 [H2 [H3 [val' [Hn' [_ Hs]]]]]]].
  assert (val' = val) by congruence. subst val'.
  unfold vote_sig_valid in Hs. rewrite H1, H2, H3 in Hs. exact Hs.
Qed.

Lemma good_addr done i v val :
  good done i v -> nth_error vals i = Some val -> v_addr v = val_addr val.
Proof.
  intros [_ [Hi Hv]] Hn. destruct (valid_vote_spec i v Hi Hv) as [_ [_ [_ [_ [val' [Hn' [Ha _]]]]]]].
  assert (val' = val) by congruence. subst val'. exact Ha.
Qed.

Lemma sig_valid_nonempty c a t hh r b tm sg : sig_valid c a t hh r b tm sg = true -> s_empty sg = false.
Proof.
  unfold sig_valid. rewrite !andb_true_iff. intros [[[[[[[[H _] _] _] _] _] _] _] _].
  destruct (s_empty sg); [discriminate|reflexivity].
Qed.

Theorem commit_roundtrip ops b :
  let s := reach ops in
  ty = PRECOMMIT ->
  (forall v, offered ops v -> bid_is_zero (v_bid v) = true \/ bid_is_complete (v_bid v) = true) ->
  vs_maj23 s = Some b -> bid_is_complete b = true ->
  exists c, make_commit s = Some c /\ verify_commit vals chain b ht c = COk.
Proof.
  cbv zeta. destruct (reach_inv ops) as [Hw _]. fold (reach ops) in Hw. set (s := reach ops) in *.
  intros Hty Hwire Hm Hcomp.
  destruct (w_maj _ _ Hw _ Hm) as [bv [Hx [Hq Hpos]]].
  destruct (w_bb _ _ Hw _ _ Hx) as [K1 [K2 K3]].
  pose proof (sum_powers_nonneg _ Hnonneg) as HT.
  pose proof quorum_pos as Hq1.
  assert (Hgood : forall i v, vote_at (vs_votes s) i = Some v -> good ops i v) by (apply (w_votes _ _ Hw)).
  assert (Hzc : forall v, In (Some v) (vs_votes s) ->
                          bid_is_zero (v_bid v) = true \/ bid_is_complete (v_bid v) = true).
  { intros v Hin. apply In_nth_error in Hin. destruct Hin as [i Hi]. apply vote_at_nth_error in Hi.
    apply Hwire. apply (Hgood i v Hi). }
  pose (c := {| c_height := vs_height s; c_round := vs_round s; c_bid := b;
                c_sigs := map (commitsig_of b) (vs_votes s) |}).
  exists c. split.
  { unfold make_commit. rewrite (w_type _ _ Hw), Hty, N.eqb_refl. cbn [negb]. rewrite Hm.
    rewrite (make_sigs_map b _ Hzc). reflexivity. }
  (* the validator set is not empty *)
  assert (Hne : vs_votes s <> []).
  { intros E. assert (Hl := w_len _ _ Hw). rewrite E in Hl. destruct vals as [|v0 vt]; [|discriminate].
    unfold voters_power in K2. cbn [mask_power] in K2. lia. }
  assert (Hnz : bid_is_zero b = false) by (apply bid_complete_not_zero; auto).
  assert (Hbb : bid_eqb b b = true) by (apply bid_eqb_eq; reflexivity).
  (* ValidateBasic *)
  assert (Hvb : commit_validate_basic c = true).
  { unfold commit_validate_basic, c. cbn [c_height c_bid c_sigs].
    destruct (N.leb 1 (vs_height s)); [|reflexivity]. rewrite Hnz. cbn [negb andb].
    destruct (vs_votes s) as [|o0 t0] eqn:Evs; [congruence|]. cbn [map]. rewrite <- Evs in *.
    change (commitsig_of b o0 :: map (commitsig_of b) t0) with (map (commitsig_of b) (o0 :: t0)).
    rewrite <- Evs. apply forallb_forall. intros cs Hin. apply in_map_iff in Hin.
    destruct Hin as [o [<- Hin]]. destruct o as [v|]; [|reflexivity].
    apply In_nth_error in Hin. destruct Hin as [i Hi]. apply vote_at_nth_error in Hi.
    pose proof (Hgood i v Hi) as Hg.
    assert (Hlt : (i < length vals)%nat) by (rewrite <- (w_len _ _ Hw); eapply vote_at_Some_lt; eauto).
    destruct (nth_error vals i) as [val|] eqn:Ev; [|apply nth_error_None in Ev; lia].
    pose proof (sig_valid_nonempty _ _ _ _ _ _ _ _ (good_sig _ _ _ _ Hg Ev)) as Hemp.
    cbn [commitsig_of]. destruct (bid_is_complete (v_bid v)); [destruct (bid_eqb (v_bid v) b)|];
      try reflexivity; unfold cs_validate_basic; cbn [cs_flag cs_sig]; rewrite Hemp; reflexivity. }
  (* what each slot of the commit is *)
  assert (Hslot : forall i val cs, nth_error vals i = Some val ->
                    nth_error (map (commitsig_of b) (vs_votes s)) i = Some cs ->
                    exists o, nth_error (vs_votes s) i = Some o /\ cs = commitsig_of b o).
  { intros i val cs _ Hcs. rewrite nth_error_map in Hcs.
    destruct (nth_error (vs_votes s) i) as [o|]; [|discriminate]. injection Hcs as <-. eauto. }
  assert (Htally : tally chain ht rd b b vals (map (commitsig_of b) (vs_votes s)) 0 =
                   TOk (0 + signed_power chain ht rd b vals (map (commitsig_of b) (vs_votes s)))).
  { apply tally_total; auto; try lia.
    - exact Hnonneg.
    - destruct Hwf as [_ Hc]. pose proof cap_fits as [_ Hcap]. lia.
    - rewrite map_length. apply (w_len _ _ Hw).
    - intros i val cs Hv Hcs. destruct (Hslot i val cs Hv Hcs) as [o [Ho ->]].
      destruct o as [v|]; [|left; reflexivity].
      apply vote_at_nth_error in Ho. pose proof (Hgood i v Ho) as Hg.
      pose proof (good_sig _ _ _ _ Hg Hv) as Hs. rewrite Hty in Hs.
      cbn [commitsig_of]. destruct (bid_is_complete (v_bid v)) eqn:Ec.
      + destruct (bid_eqb (v_bid v) b) eqn:Eb; [|left; reflexivity].
        right; left. apply bid_eqb_eq in Eb. rewrite <- Eb. cbn [cs_flag cs_addr cs_time cs_sig].
        split; [reflexivity|split; [exact (good_addr _ _ _ _ Hg Hv)|exact Hs]].
      + right; right. cbn [cs_flag cs_addr cs_time cs_sig]. split; [reflexivity|split; [reflexivity|split; [exact (good_addr _ _ _ _ Hg Hv)|]]].
        destruct Hg as [Hoff _]. destruct (Hwire v Hoff) as [Hz|Hc']; [|congruence].
        apply bid_is_zero_eq in Hz. rewrite <- Hz. exact Hs. }
  (* the signatures for b weigh at least as much as the quorum entry *)
  assert (Hsp : voters_power vals (bv_votes bv) <=
                signed_power chain ht rd b vals (map (commitsig_of b) (vs_votes s))).
  { apply mask_le_signed; [exact Hnonneg| |rewrite map_length; apply (w_len _ _ Hw)].
    intros i val cs Hmk Hv Hcs. rewrite nth_mask in Hmk. apply is_some_true in Hmk.
    apply not_none_ex in Hmk. destruct Hmk as [u Hu]. destruct (Hpos i u Hu) as [u' [Hu' Hbid]].
    destruct (Hslot i val cs Hv Hcs) as [o [Ho ->]]. apply vote_at_nth_error in Hu'.
    assert (o = Some u') by congruence. subst o.
    pose proof (Hgood i u' (proj2 (vote_at_nth_error _ _ _) Hu')) as Hg.
    pose proof (good_sig _ _ _ _ Hg Hv) as Hs. rewrite Hty, Hbid in Hs.
    cbn [commitsig_of]. rewrite Hbid, Hcomp, Hbb. unfold signs_block. cbn [cs_flag cs_time cs_sig].
    rewrite N.eqb_refl, Hs. reflexivity. }
  unfold verify_commit. rewrite Hvb. cbn [negb]. unfold c. cbn [c_height c_round c_bid c_sigs].
  rewrite map_length, (w_len _ _ Hw), Nat.eqb_refl. cbn [negb].
  rewrite (w_height _ _ Hw), (w_round _ _ Hw), N.eqb_refl. cbn [negb]. rewrite Hbb. cbn [negb].
  rewrite Htally.
  assert (Hlt : two_thirds vals < 0 + signed_power chain ht rd b vals (map (commitsig_of b) (vs_votes s))).
  { rewrite two_thirds_exact by exact Hwf. rewrite quorum_exact in Hq by exact Hwf. lia. }
  apply Z.leb_gt in Hlt. rewrite Hlt. reflexivity.
Qed.

(* ------------------------------------------------------------------ *)
(** * Completeness *)

(** If the validators of a set [A] (a mask over positions) holding more than 2/3 of the power
    each have, as the first of their votes that pass the stateless checks, a vote for [b],
    a majority is reported. *)
Theorem complete ops A b :
  let s := reach ops in
  2 * sum_powers vals < 3 * mask_power vals A ->
  (forall i, nth i A false = true -> exists v, first_valid ops i = Some v /\ v_bid v = b) ->
  vs_maj23 s <> None.
Proof.
  cbv zeta. destruct (reach_inv ops) as [Hw Hf]. fold (reach ops) in Hw, Hf. set (s := reach ops) in *.
  intros HA Hfirst Hnone.
  pose proof (sum_powers_nonneg _ Hnonneg) as HT.
  destruct (bb_find b (vs_byblock s)) as [bv|] eqn:Ex.
  - assert (Hle : mask_power vals A <= voters_power vals (bv_votes bv)).
    { apply mask_le_voters; [exact Hnonneg|]. intros i Hi. destruct (Hfirst i Hi) as [v [Hv Hb]].
      destruct (Hf i v Hv) as [bv' [Hx' Hn']]. rewrite Hb in Hx'. congruence. }
    destruct (w_bb _ _ Hw _ _ Ex) as [_ [K2 _]].
    pose proof (w_nomaj _ _ Hw Hnone _ _ Ex) as Hlt.
    rewrite quorum_exact in Hlt by exact Hwf. lia.
  - assert (Hle : mask_power vals A <= mask_power vals []).
    { apply mask_power_mono; [exact Hnonneg|]. intros i Hi. exfalso.
      destruct (Hfirst i Hi) as [v [Hv Hb]]. destruct (Hf i v Hv) as [bv' [Hx' _]]. rewrite Hb in Hx'. congruence. }
    rewrite mask_power_nil_r in Hle. lia.
Qed.

(** ... and the reported majority is [b] itself when, in addition, the members of [A] offer no
    valid vote for any other block id (they do not equivocate; everybody else may). *)
Theorem complete_exact ops A b :
  let s := reach ops in
  2 * sum_powers vals < 3 * mask_power vals A ->
  (forall i, nth i A false = true -> exists v, first_valid ops i = Some v /\ v_bid v = b) ->
  (forall i v, nth i A false = true -> offered ops v -> N.to_nat (v_idx v) = i -> valid_vote v = true ->
               v_bid v = b) ->
  vs_maj23 s = Some b.
Proof.
  cbv zeta. intros HA Hfirst Hexcl. pose proof (complete ops A b HA Hfirst) as Hsome. cbv zeta in Hsome.
  destruct (reach_inv ops) as [Hw Hf]. fold (reach ops) in Hw, Hf, Hsome. set (s := reach ops) in *.
  destruct (vs_maj23 s) as [m|] eqn:Em; [|congruence].
  destruct (bid_eqb m b) eqn:Emb; [apply bid_eqb_eq in Emb; congruence|]. exfalso.
  assert (Hne : m <> b) by (intros E; apply bid_eqb_eq in E; congruence).
  pose proof (sum_powers_nonneg _ Hnonneg) as HT.
  destruct (w_maj _ _ Hw _ Em) as [bv [Hx [Hq _]]].
  destruct (w_bb _ _ Hw _ _ Hx) as [_ [K2 K3]].
  assert (Hdis : mask_power vals A + voters_power vals (bv_votes bv) <= sum_powers vals).
  { apply mask_voters_disjoint; [exact Hnonneg|]. intros i Hi Hn. apply not_none_ex in Hn.
    destruct Hn as [u Hu]. destruct (K3 i u Hu) as [[Ho [Hidx Hval]] [Hb _]].
    apply Hne. rewrite <- Hb. apply (Hexcl i u); auto. }
  rewrite quorum_exact in Hq by exact Hwf. lia.
Qed.

(** ... or when every validator's first valid vote, if it has one, is for [b] (later
    conflicting votes for other ids, admitted through peer claims, cannot overtake [b]). *)
Definition hinv (done : list op) (s : voteset) : Prop :=
  forall m, vs_maj23 s = Some m ->
  exists pre suf s0, done = pre ++ suf /\ inv pre s0 /\ vs_maj23 s0 = Some m /\
    forall x bv, x <> m -> bb_find x (vs_byblock s0) = Some bv -> bv_sum bv < quorum vals.

Lemma step_hinv done s o : inv done s -> hinv done s -> hinv (done ++ [o]) (fst (step s o)).
Proof.
  intros Hinv Hh m Hm'. destruct (step_maj s o) as [Hkeep Hset]. cbv zeta in Hkeep, Hset.
  destruct (vs_maj23 s) as [m0|] eqn:Em.
  - rewrite (Hkeep m0 eq_refl) in Hm'. injection Hm' as <-.
    destruct (Hh m0 Em) as [pre [suf [s0 [E [Hi0 [Hm0 Hlt]]]]]].
    exists pre, (suf ++ [o]), s0. split; [rewrite E, app_assoc; reflexivity|auto].
  - exists (done ++ [o]), [], (fst (step s o)). split; [rewrite app_nil_r; reflexivity|].
    split; [apply step_inv; auto|split; [auto|]].
    intros x bv Hx Hf. rewrite (Hset eq_refl m Hm' x Hx) in Hf.
    destruct Hinv as [Hw _]. eapply (w_nomaj _ _ Hw); eauto.
Qed.

Lemma run_hinv ops : forall done s, inv done s -> hinv done s -> hinv (done ++ ops) (final s ops).
Proof.
  induction ops as [|o t IH]; intros done s Hinv Hh.
  - rewrite app_nil_r. exact Hh.
  - rewrite final_cons. replace (done ++ o :: t) with ((done ++ [o]) ++ t) by (rewrite <- app_assoc; reflexivity).
    apply IH; [apply step_inv|apply step_hinv]; auto.
Qed.

Theorem complete_all_first ops A b :
  let s := reach ops in
  2 * sum_powers vals < 3 * mask_power vals A ->
  (forall i, nth i A false = true -> exists v, first_valid ops i = Some v /\ v_bid v = b) ->
  (forall i v, first_valid ops i = Some v -> v_bid v = b) ->
  vs_maj23 s = Some b.
Proof.
  cbv zeta. intros HA Hfirst Hall. pose proof (complete ops A b HA Hfirst) as Hsome. cbv zeta in Hsome.
  assert (Hh : hinv ops (reach ops)).
  { apply (run_hinv ops [] _ init_inv). intros m Hm. discriminate. }
  destruct (vs_maj23 (reach ops)) as [m|] eqn:Em; [|congruence].
  destruct (bid_eqb m b) eqn:Emb; [apply bid_eqb_eq in Emb; congruence|]. exfalso.
  assert (Hne : b <> m) by (intros E; symmetry in E; apply bid_eqb_eq in E; congruence).
  destruct (Hh m Em) as [pre [suf [s0 [E [[Hw0 Hf0] [Hm0 Hlt]]]]]].
  destruct (w_maj _ _ Hw0 _ Hm0) as [bvm [Hxm [Hq _]]].
  destruct (w_bb _ _ Hw0 _ _ Hxm) as [_ [K2 K3]].
  (** every validator present in m's entry is present in b's entry *)
  assert (Hin : forall i, vote_at (bv_votes bvm) i <> None ->
                exists bvb, bb_find b (vs_byblock s0) = Some bvb /\ vote_at (bv_votes bvb) i <> None).
  { intros i Hn. apply not_none_ex in Hn. destruct Hn as [u Hu]. destruct (K3 i u Hu) as [Hg _].
    pose proof (good_first _ _ _ Hg) as Hfv. apply not_none_ex in Hfv. destruct Hfv as [w Hw'].
    assert (Hops : first_valid ops i = Some w) by (rewrite E, first_valid_app, Hw'; reflexivity).
    rewrite <- (Hall i w Hops). apply Hf0; auto. }
  pose proof quorum_pos as Hq1.
  destruct (bb_find b (vs_byblock s0)) as [bvb|] eqn:Exb.
  - assert (Hle : voters_power vals (bv_votes bvm) <= voters_power vals (bv_votes bvb)).
    { apply voters_power_mono; [exact Hnonneg|]. intros i Hn. destruct (Hin i Hn) as [bvb' [E1 E2]]. congruence. }
    destruct (w_bb _ _ Hw0 _ _ Exb) as [_ [K2b _]].
    pose proof (Hlt b bvb Hne Exb). lia.
  - assert (Hle : voters_power vals (bv_votes bvm) <= voters_power vals []).
    { apply voters_power_mono; [exact Hnonneg|]. intros i Hn. destruct (Hin i Hn) as [bvb' [E1 _]]. discriminate. }
    unfold voters_power in Hle at 2. cbn [map] in Hle. rewrite mask_power_nil_r in Hle. lia.
Qed.

End VoteSet.
