(** Weighted sets of validators and quorum intersection (used by C01). Validators are the
    indices [0..n) of a list of voting powers; a set is a boolean predicate on indices. *)
From Coq Require Import List ZArith Arith Bool Lia.
Import ListNotations.
Local Open Scope Z_scope.

Section Power.
Variable powers : list Z.
Hypothesis powers_nonneg : Forall (fun p => 0 <= p) powers.

Definition n : nat := length powers.
Definition power (i : nat) : Z := nth i powers 0.

Lemma power_nonneg i : 0 <= power i.
Proof.
  unfold power. destruct (lt_dec i (length powers)) as [H|H].
  - rewrite Forall_forall in powers_nonneg. apply powers_nonneg. apply nth_In; assumption.
  - rewrite nth_overflow by lia. lia.
Qed.

(** power of the validators below [k] that satisfy [X] *)
Fixpoint pw_upto (k : nat) (X : nat -> bool) : Z :=
  match k with
  | O => 0
  | S k' => (if X k' then power k' else 0) + pw_upto k' X
  end.

Definition pw (X : nat -> bool) : Z := pw_upto n X.
Definition total : Z := pw (fun _ => true).

Lemma pw_upto_nonneg k X : 0 <= pw_upto k X.
Proof. induction k; simpl; [lia|]. pose proof (power_nonneg k). destruct (X k); lia. Qed.

Lemma pw_upto_mono k (A B : nat -> bool) :
  (forall i, (i < k)%nat -> A i = true -> B i = true) -> pw_upto k A <= pw_upto k B.
Proof.
  induction k; simpl; intros H; [lia|].
  pose proof (power_nonneg k). assert (IH := IHk (fun i Hi => H i (Nat.lt_lt_succ_r _ _ Hi))).
  destruct (A k) eqn:Ea.
  - rewrite (H k (Nat.lt_succ_diag_r k) Ea). lia.
  - destruct (B k); lia.
Qed.

Lemma pw_upto_ext k (A B : nat -> bool) :
  (forall i, (i < k)%nat -> A i = B i) -> pw_upto k A = pw_upto k B.
Proof.
  induction k; simpl; intros H; [reflexivity|].
  rewrite (H k (Nat.lt_succ_diag_r k)). rewrite IHk; auto.
Qed.

(** inclusion-exclusion *)
Lemma pw_upto_union k (A B : nat -> bool) :
  pw_upto k A + pw_upto k B = pw_upto k (fun i => A i || B i) + pw_upto k (fun i => A i && B i).
Proof. induction k; cbn [pw_upto]; [lia|]. destruct (A k), (B k); cbn [orb andb]; lia. Qed.

Lemma pw_upto_le_total k X : pw_upto k X <= pw_upto k (fun _ => true).
Proof. apply pw_upto_mono; auto. Qed.

Lemma pw_upto_zero_or_witness k X : pw_upto k X = 0 \/ exists i, (i < k)%nat /\ X i = true.
Proof.
  induction k; cbn [pw_upto]; [left; reflexivity|].
  destruct (X k) eqn:E.
  - right. exists k. split; [lia|assumption].
  - destruct IHk as [H|[i [Hi Hs]]]; [left; lia|right; exists i; split; [lia|assumption]].
Qed.

Lemma pw_mono A B : (forall i, (i < n)%nat -> A i = true -> B i = true) -> pw A <= pw B.
Proof. apply pw_upto_mono. Qed.
Lemma pw_nonneg X : 0 <= pw X.
Proof. apply pw_upto_nonneg. Qed.
Lemma pw_le_total X : pw X <= total.
Proof. apply pw_upto_le_total. Qed.

(** two sets whose powers add up to more than the total meet *)
Lemma pw_meet A B : total < pw A + pw B -> 0 < pw (fun i => A i && B i).
Proof.
  unfold total, pw. intros H. rewrite pw_upto_union in H.
  pose proof (pw_upto_le_total n (fun i => A i || B i)). lia.
Qed.

Lemma pw_pos_witness X : 0 < pw X -> exists i, (i < n)%nat /\ X i = true.
Proof. unfold pw. destruct (pw_upto_zero_or_witness n X) as [H|H]; [lia|auto]. Qed.

(** removing a set of small power *)
Lemma pw_minus A F : pw A - pw F <= pw (fun i => A i && negb (F i)).
Proof.
  unfold pw. induction n as [|k IH]; simpl; [lia|].
  pose proof (power_nonneg k). destruct (A k), (F k); simpl; lia.
Qed.

(** Quorum intersection: two sets above two thirds meet in a member outside any set below one third. *)
Theorem quorum_intersection A B F :
  2 * total < 3 * pw A -> 2 * total < 3 * pw B -> 3 * pw F < total ->
  exists i, (i < n)%nat /\ A i = true /\ B i = true /\ F i = false.
Proof.
  intros HA HB HF.
  assert (H1 : total < pw A + pw (fun i => B i && negb (F i))).
  { pose proof (pw_minus B F). lia. }
  apply pw_meet in H1. apply pw_pos_witness in H1. destruct H1 as [i [Hi Hs]].
  exists i. rewrite !andb_true_iff, negb_true_iff in Hs. tauto.
Qed.

(** a set above two thirds keeps more than one third after removing the faulty *)
Lemma correct_part_third A F :
  2 * total < 3 * pw A -> 3 * pw F < total -> total < 3 * pw (fun i => A i && negb (F i)).
Proof. intros HA HF. pose proof (pw_minus A F). lia. Qed.

(** a set above two thirds meets every set above one third *)
Lemma two_thirds_meets_third P C :
  2 * total < 3 * pw P -> total < 3 * pw C -> exists i, (i < n)%nat /\ P i = true /\ C i = true.
Proof.
  intros HP HC. assert (H : total < pw P + pw C) by lia.
  apply pw_meet in H. apply pw_pos_witness in H. destruct H as [i [Hi Hs]].
  exists i. rewrite andb_true_iff in Hs. tauto.
Qed.

End Power.
