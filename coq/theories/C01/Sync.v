(** C01 — model (definitions only, no proofs) of the two pieces of code through which a node that
    catches up adopts a block:

    - [types/validator_set.go] [ValidatorSet.VerifyCommit] together with [Commit.ValidateBasic] /
      [CommitSig.ValidateBasic] ([types/commit.go]), check by check in the order of the code;
    - [blockchain/processor.go] [pcState.handle]: the queue of received blocks, [rProcessBlock]
      (first = queue[h+1] is adopted on the strength of second.LastCommit, second = queue[h+2]),
      the purge of the two peers after a verification failure, [scPeerError], [scFinishedEv].

    Signatures are ideal (C11): the canonical sign bytes of a precommit carry chain id, type,
    height, round, block id and timestamp — and NEITHER the validator's address NOR its index — so a
    signature in slot i of a commit is described by [s_signer]: the validator (index in the set
    that is asked to verify) whose key produced a signature over exactly the sign bytes that slot i
    of this commit stands for, if there is one.  [VerifyCommit] attributes slot i to validator i
    ("the vals and commit have a 1-to-1 correspondence"): the slot verifies iff [s_signer = Some i].
    The address a slot carries is not covered by the signature, but the block time is weighted by it
    (cstate.MedianTime looks validators up by address), so VerifyCommit (fix be3229d) first requires
    that a present slot i carries the address of validator i: [s_addr = Some i], where [s_addr] is the
    member of the verifying set whose address the slot names, if any. *)
From Coq Require Import List ZArith Arith Bool.
From Kardia Require Import C01.Power.
Import ListNotations.
Local Open Scope Z_scope.

Inductive flag := FAbsent | FCommit | FNil | FUnknown.

Record slot := mkSlot {
  s_flag : flag;
  s_addr_zero : bool;          (* ValidatorAddress is the zero address *)
  s_addr : option nat;         (* the validator (index in the verifying set) whose address it is *)
  s_time_zero : bool;          (* Timestamp.IsZero() *)
  s_sig_empty : bool;          (* len(Signature) == 0 *)
  s_signer : option nat        (* ideal signatures, see above *)
}.

Definition absent_slot : slot := mkSlot FAbsent true None true true None.

(** CommitSig.ValidateBasic *)
Definition slot_basic (s : slot) : bool :=
  match s_flag s with
  | FUnknown => false
  | FAbsent => s_addr_zero s && s_time_zero s && s_sig_empty s
  | _ => negb (s_sig_empty s)
  end.

Section Sync.
Variable B : Type.
Variable B_eq_dec : forall x y : B, {x = y} + {x <> y}.

(** a block id; [None] is the zero BlockID *)
Definition bid_eqb (x y : option B) : bool :=
  match x, y with
  | None, None => true
  | Some a, Some b => if B_eq_dec a b then true else false
  | _, _ => false
  end.

Record commit := mkCommit {
  c_height : nat;
  c_round : nat;
  c_block : option B;
  c_slots : list slot
}.

(** Commit.ValidateBasic: nothing is checked for height 0 *)
Definition commit_basic (c : commit) : bool :=
  match c_height c with
  | O => true
  | S _ =>
    match c_block c with
    | None => false
    | Some _ => negb (Nat.eqb (length (c_slots c)) 0) && forallb slot_basic (c_slots c)
    end
  end.

Inductive vresult :=
| VOk
| VNilCommit
| VBasic
| VSize
| VHeight
| VBlock
| VAddr (idx : nat)
| VSig (idx : nat)
| VPower (got needed : Z).

Inductive vc_err := EAddr (idx : nat) | ESig (idx : nat).

(** the slot counts for the tally: [blockID.Equal(commitSig.BlockID(commit.BlockID))] — the commit's
    block id for the flag Commit, the zero id for the flag Nil (which equals the wanted id only for
    the zero id, possible at height 0 where ValidateBasic checks nothing) *)
Definition slot_counts (want : option B) (s : slot) : bool :=
  match s_flag s with
  | FCommit => true
  | FNil => match want with None => true | Some _ => false end
  | _ => false
  end.

(** the loop [for idx, commitSig := range commit.Signatures] over the slots [0..k): the tally so
    far, or the first slot that does not carry validator idx's address / whose signature is not
    validator idx's (the address is checked first) *)
Definition is_idx (o : option nat) (k : nat) : bool :=
  match o with Some v => Nat.eqb v k | None => false end.

Fixpoint vc_loop (powers : list Z) (want : option B) (slots : list slot) (k : nat) : Z + vc_err :=
  match k with
  | O => inl 0
  | S k' =>
    match vc_loop powers want slots k' with
    | inr e => inr e
    | inl acc =>
      let s := nth k' slots absent_slot in
      match s_flag s with
      | FAbsent => inl acc
      | _ =>
        if negb (is_idx (s_addr s) k') then inr (EAddr k')
        else if negb (is_idx (s_signer s) k') then inr (ESig k')
        else inl (if slot_counts want s then acc + power powers k' else acc)
      end
    end
  end.

(** ValidatorSet.VerifyCommit(chainID, blockID = want, height = hw, commit) on a set with the given
    voting powers; [None] for a nil commit *)
Definition verify_commit (powers : list Z) (hw : nat) (want : option B) (oc : option commit) : vresult :=
  match oc with
  | None => VNilCommit
  | Some c =>
    if negb (commit_basic c) then VBasic
    else if negb (Nat.eqb (length powers) (length (c_slots c))) then VSize
    else if negb (Nat.eqb hw (c_height c)) then VHeight
    else if negb (bid_eqb want (c_block c)) then VBlock
    else match vc_loop powers want (c_slots c) (length (c_slots c)) with
         | inr (EAddr i) => VAddr i
         | inr (ESig i) => VSig i
         | inl got =>
           let needed := total powers * 2 / 3 in
           if Z.leb got needed then VPower got needed else VOk
         end
  end.

(** ---- the block-sync processor ---- *)

(** what the processor looks at in a block: its height, its block id computed with the standard
    part size (first.Hash(), first.MakePartSet(BlockPartSizeBytes).Header()), its LastCommit *)
Record blk := mkBlk {
  b_height : nat;
  b_id : B;
  b_last_commit : option commit
}.

Record pstate := mkP {
  p_chain : list B;                    (* adopted blocks, height 1 first: state.height() = length *)
  p_queue : list (nat * (nat * blk));  (* height -> (peer, block) *)
  p_draining : bool;
  p_synced : nat
}.

Definition p_init : pstate := mkP [] [] false 0.

Inductive pevent :=
| EvBlock (peer : nat) (b : blk)       (* scBlockReceived *)
| EvProcess                            (* rProcessBlock *)
| EvPeerError (peer : nat)             (* scPeerError *)
| EvFinished.                          (* scFinishedEv *)

Inductive pout :=
| ONoop
| ODupPanic                            (* enqueue panics on a height that is already queued *)
| OProcessed (h : nat)
| ORefused (h : nat)
| OApplyPanic (h : nat)                (* "failed to process committed block" *)
| OFinished.

Fixpoint q_get (q : list (nat * (nat * blk))) (h : nat) : option (nat * blk) :=
  match q with
  | [] => None
  | (h', x) :: q' => if Nat.eqb h h' then Some x else q_get q' h
  end.
Definition q_del (q : list (nat * (nat * blk))) (h : nat) := filter (fun e => negb (Nat.eqb (fst e) h)) q.
Definition q_purge (q : list (nat * (nat * blk))) (peer : nat) := filter (fun e => negb (Nat.eqb (fst (snd e)) peer)) q.

(** the validator powers entitled to sign the height after a committed prefix (the processor's
    state.Validators after applying the prefix) and the outcome of ApplyBlock are parameters *)
Variable powers_of : list B -> list Z.
Variable apply_ok : list B -> blk -> bool.

Definition p_handle (st : pstate) (ev : pevent) : pstate * pout :=
  let h := length (p_chain st) in
  match ev with
  | EvBlock peer b =>
    if Nat.ltb h (b_height b) then
      match q_get (p_queue st) (b_height b) with
      | Some _ => (st, ODupPanic)
      | None => (mkP (p_chain st) ((b_height b, (peer, b)) :: p_queue st) (p_draining st) (p_synced st), ONoop)
      end
    else (st, ONoop)
  | EvPeerError peer => (mkP (p_chain st) (q_purge (p_queue st) peer) (p_draining st) (p_synced st), ONoop)
  | EvFinished =>
    if Nat.leb (length (p_queue st)) 1 then (st, OFinished)
    else (mkP (p_chain st) (p_queue st) true (p_synced st), ONoop)
  | EvProcess =>
    match q_get (p_queue st) (S h), q_get (p_queue st) (S (S h)) with
    | Some (p1, first), Some (p2, second) =>
      match verify_commit (powers_of (p_chain st)) (b_height first) (Some (b_id first)) (b_last_commit second) with
      | VOk =>
        if apply_ok (p_chain st) first
        then (mkP (p_chain st ++ [b_id first]) (q_del (p_queue st) (b_height first)) (p_draining st) (S (p_synced st)),
              OProcessed (b_height first))
        else (st, OApplyPanic (b_height first))
      | _ =>
        (mkP (p_chain st) (q_purge (q_purge (p_queue st) p1) p2) (p_draining st) (p_synced st), ORefused (b_height first))
      end
    | _, _ => if p_draining st then (st, OFinished) else (st, ONoop)
    end
  end.

Fixpoint p_run (st : pstate) (evs : list pevent) : pstate :=
  match evs with
  | [] => st
  | e :: evs' => p_run (fst (p_handle st e)) evs'
  end.

End Sync.
