(** C01 — the lock discipline of one validator as a guarded automaton (definitions only).

    It abstracts what [consensus/state.go] keeps in [LockedRound]/[LockedBlock] and the guards under
    which it signs:
      - [APrecommit (Some b)]  enterPrecommit with +2/3 prevotes for b in the current round: lock
                               (or RE-LOCK: the lock round becomes the current round) and precommit b;
      - [APrecommit None]      precommit nil; +2/3 prevotes for nil in the current round release the lock;
      - [AUnlock]              the two release tests (addVote "Unlocking because of POL", doPrevote's scan,
                               enterPrecommit's "polka for a block we don't have"): a polka for another
                               value in a round r'' with  LockedRound < r'' <= Round;
      - [APrevote x]           doPrevote: the locked block if there is a lock, anything otherwise;
      - [ANewRound r]          rounds only go up;
      - [AOther e]             any other validator signs anything (the rest of the world).
    [LockProofs.v] proves that every run of the automaton, interleaved with arbitrary events of the
    other validators, satisfies the four obligations of [Agreement.obeys].  The network harness checks
    the real nodes against it: after every precommit for a block the real (LockedBlock, LockedRound)
    must be the automaton's lock (block, current round), and a node holding a lock must hold the lock of
    its last precommit for a block (the lock-state oracle). *)
From Coq Require Import List ZArith Arith Bool.
From Kardia Require Import C01.Power C01.Agreement C01.Checker.
Import ListNotations.
Local Open Scope Z_scope.

Section Lock.
Variable powers : list Z.
Variable B : Type.
Variable B_eq_dec : forall x y : B, {x = y} + {x <> y}.
Variable i : nat.                         (* this validator's index *)

Notation event := (event B).
Notation trace := (trace B).

Record lstate := mkL {
  l_round : nat;
  l_precommitted : bool;                  (* a precommit was signed in l_round *)
  l_locked : option (B * nat)             (* LockedBlock, LockedRound *)
}.

Definition l_init : lstate := mkL 0 false None.

Inductive action :=
| ANewRound (r : nat)
| APrevote (x : option B)
| APrecommit (x : option B)
| AUnlock
| AOther (e : event).

(** a polka for a value other than b in a round in (r, r'] among the messages signed so far, with
    one of its prevotes as the witness *)
Definition release (tr : trace) (r r' : nat) (b : B) : bool :=
  existsb (fun e' => match e' with
                     | (_, Prevote _ r'' y) =>
                       Nat.ltb r r'' && Nat.leb r'' r' && negb (opt_eqb B B_eq_dec y (Some b))
                       && polka_b powers B B_eq_dec tr r'' y
                     | _ => false end) tr.

Definition lstep (st : lstate) (tr : trace) (a : action) : option (lstate * trace) :=
  match a with
  | ANewRound r =>
    if Nat.ltb (l_round st) r then Some (mkL r false (l_locked st), tr) else None
  | APrevote x =>
    match l_locked st with
    | Some (b, _) => if opt_eqb B B_eq_dec x (Some b)
                     then Some (st, tr ++ [(i, Prevote B (l_round st) x)]) else None
    | None => Some (st, tr ++ [(i, Prevote B (l_round st) x)])
    end
  | APrecommit x =>
    if l_precommitted st then None else
      match x with
      | Some b =>
        if polka_b powers B B_eq_dec tr (l_round st) (Some b)
        then Some (mkL (l_round st) true (Some (b, l_round st)), tr ++ [(i, Precommit B (l_round st) x)])
        else None
      | None =>
        Some (mkL (l_round st) true
                  (if polka_b powers B B_eq_dec tr (l_round st) None then None else l_locked st),
              tr ++ [(i, Precommit B (l_round st) None)])
      end
  | AUnlock =>
    match l_locked st with
    | Some (b, lr) => if release tr lr (l_round st) b
                      then Some (mkL (l_round st) (l_precommitted st) None, tr) else None
    | None => None
    end
  | AOther e =>
    if Nat.eqb (fst e) i then None else Some (st, tr ++ [e])
  end.

Fixpoint lrun (st : lstate) (tr : trace) (acts : list action) : option (lstate * trace) :=
  match acts with
  | [] => Some (st, tr)
  | a :: acts' => match lstep st tr a with
                  | Some (st', tr') => lrun st' tr' acts'
                  | None => None
                  end
  end.

End Lock.
