(** C01 — proofs about the model of VerifyCommit and of the block-sync processor (C01/Sync.v):
    a commit that VerifyCommit accepts carries, for the wanted height and block, precommits of
    DISTINCT validators (slot i is validator i's or the commit is refused) holding more than two
    thirds of the power; hence, with ideal signatures, the chain the processor adopts — whatever
    blocks, in whatever order, from whatever peers it is offered — is a [justified] chain
    (Chain.v), and by [no_fork] it is a prefix of / extends every chain committed by consensus. *)
From Coq Require Import List ZArith Arith Bool Lia.
From Kardia Require Import C01.Power C01.Agreement C01.Chain C01.Sync.
Import ListNotations.
Local Open Scope Z_scope.
Ltac Zify.zify_post_hook ::= Z.div_mod_to_equations.

Section SyncProofs.
Variable B : Type.
Variable B_eq_dec : forall x y : B, {x = y} + {x <> y}.

Notation commit := (commit B).
Notation blk := (blk B).
Notation pstate := (pstate B).
Notation pevent := (pevent B).

(** slot i counts for the tally: present, carrying validator i's address, signed by validator i,
    for the wanted block *)
Definition counted (want : option B) (slots : list slot) (i : nat) : bool :=
  let s := nth i slots absent_slot in
  match s_flag s with
  | FAbsent => false
  | _ => is_idx (s_addr s) i && is_idx (s_signer s) i && slot_counts B want s
  end.

Lemma is_idx_eq o k : is_idx o k = true <-> o = Some k.
Proof.
  destruct o as [v|]; cbn [is_idx]; [|split; discriminate].
  rewrite Nat.eqb_eq. split; [intros ->; reflexivity|intros H; inversion H; reflexivity].
Qed.

Lemma vc_loop_spec powers want slots k got :
  vc_loop B powers want slots k = inl got -> got = pw_upto powers k (counted want slots).
Proof.
  revert got. induction k as [|k IH]; intros got H.
  - cbn [vc_loop] in H. inversion H. reflexivity.
  - cbn [vc_loop] in H. destruct (vc_loop B powers want slots k) as [acc|e] eqn:E; [|discriminate].
    specialize (IH acc eq_refl). cbn [pw_upto]. unfold counted at 1.
    destruct (s_flag (nth k slots absent_slot)) eqn:Ef;
      try (inversion H; subst; lia);
      (destruct (is_idx (s_addr (nth k slots absent_slot)) k); cbn [negb] in H; [|discriminate];
       destruct (is_idx (s_signer (nth k slots absent_slot)) k); cbn [negb] in H; [|discriminate];
       cbn [andb]; destruct (slot_counts B want (nth k slots absent_slot)); inversion H; subst; lia).
Qed.

(** every present slot below k carries the address and the signature of the validator of that index *)
Lemma vc_loop_attributes powers want slots k got :
  vc_loop B powers want slots k = inl got ->
  forall i, (i < k)%nat -> s_flag (nth i slots absent_slot) <> FAbsent ->
            s_addr (nth i slots absent_slot) = Some i /\ s_signer (nth i slots absent_slot) = Some i.
Proof.
  revert got. induction k as [|k IH]; intros got H i Hi Hf; [lia|].
  cbn [vc_loop] in H. destruct (vc_loop B powers want slots k) as [acc|e] eqn:E; [|discriminate].
  destruct (Nat.eq_dec i k) as [->|Hne].
  - destruct (s_flag (nth k slots absent_slot)) eqn:Ef; try contradiction;
      (destruct (is_idx (s_addr (nth k slots absent_slot)) k) eqn:Ea; cbn [negb] in H; [|discriminate];
       destruct (is_idx (s_signer (nth k slots absent_slot)) k) eqn:Es; cbn [negb] in H; [|discriminate];
       apply is_idx_eq in Ea; apply is_idx_eq in Es; split; assumption).
  - apply (IH acc eq_refl); [lia|assumption].
Qed.

Lemma bid_eqb_eq x y : bid_eqb B B_eq_dec x y = true <-> x = y.
Proof.
  destruct x as [a|], y as [b|]; simpl; try (split; discriminate); try tauto.
  destruct (B_eq_dec a b) as [->|Hne]; split; auto; try discriminate.
  intros H; inversion H; contradiction.
Qed.

(** what an accepted commit is *)
Theorem verify_commit_sound powers hw want oc :
  verify_commit B B_eq_dec powers hw want oc = VOk ->
  exists c, oc = Some c /\ c_height B c = hw /\ c_block B c = want /\
            length (c_slots B c) = length powers /\
            (forall i, (i < length powers)%nat -> s_flag (nth i (c_slots B c) absent_slot) <> FAbsent ->
                       s_addr (nth i (c_slots B c) absent_slot) = Some i /\
                       s_signer (nth i (c_slots B c) absent_slot) = Some i) /\
            2 * total powers < 3 * pw powers (counted want (c_slots B c)).
Proof.
  unfold verify_commit. destruct oc as [c|]; [|discriminate].
  destruct (commit_basic B c); cbn [negb]; [|discriminate].
  destruct (Nat.eqb (length powers) (length (c_slots B c))) eqn:El; cbn [negb]; [|discriminate].
  destruct (Nat.eqb hw (c_height B c)) eqn:Eh; cbn [negb]; [|discriminate].
  destruct (bid_eqb B B_eq_dec want (c_block B c)) eqn:Eb; cbn [negb]; [|discriminate].
  apply Nat.eqb_eq in El. apply Nat.eqb_eq in Eh. apply bid_eqb_eq in Eb.
  destruct (vc_loop B powers want (c_slots B c) (length (c_slots B c))) as [got|[e|e]] eqn:Ev; try discriminate.
  destruct (Z.leb got (total powers * 2 / 3)) eqn:Eg; [discriminate|]. intros _.
  exists c. split; [reflexivity|]. split; [auto|]. split; [auto|]. split; [auto|]. split.
  - intros i Hi Hf. apply (vc_loop_attributes _ _ _ _ _ Ev); [lia|assumption].
  - apply vc_loop_spec in Ev. apply Z.leb_gt in Eg.
    unfold pw, Power.n. rewrite El. rewrite <- Ev. lia.
Qed.

(** ideal signatures: a slot of commit c whose signature is validator v's, for the block, was
    signed by v — v's precommit for (height, round, block) is an event of the global signing
    history of that height (the history on top of the prefix ch) *)
Variable trace_of : list B -> trace B.

Definition commit_ideal (c : commit) : Prop :=
  forall ch b i v,
    c_height B c = S (length ch) -> c_block B c = Some b -> (i < length (c_slots B c))%nat ->
    s_flag (nth i (c_slots B c) absent_slot) = FCommit ->
    s_signer (nth i (c_slots B c) absent_slot) = Some v ->
    In (v, Precommit B (c_round B c) (Some b)) (trace_of ch).

Lemma counted_commit want slots i :
  counted want slots i = true -> (i < length slots)%nat /\
  s_signer (nth i slots absent_slot) = Some i /\
  (forall b, want = Some b -> s_flag (nth i slots absent_slot) = FCommit).
Proof.
  unfold counted. intros H.
  assert (Hi : (i < length slots)%nat).
  { destruct (lt_dec i (length slots)) as [L|L]; [exact L|].
    rewrite nth_overflow in H by lia. cbn in H. discriminate. }
  split; [exact Hi|].
  destruct (s_flag (nth i slots absent_slot)) eqn:Ef; try discriminate;
    rewrite !andb_true_iff in H; destruct H as [[_ Hv] Hc]; apply is_idx_eq in Hv;
    (split; [exact Hv|]); intros b ->; unfold slot_counts in Hc; rewrite Ef in Hc;
    try reflexivity; discriminate.
Qed.

(** an accepted commit for block b at the height after prefix ch is a +2/3 precommit quorum of
    that height's history: the block is [decided] on top of ch *)
Theorem verify_commit_decides powers ch b oc :
  Forall (fun p => 0 <= p) powers ->
  (forall c, oc = Some c -> commit_ideal c) ->
  verify_commit B B_eq_dec powers (S (length ch)) (Some b) oc = VOk ->
  exists r, commit_quorum powers B B_eq_dec (trace_of ch) r b.
Proof.
  intros Hp Hid H. apply verify_commit_sound in H.
  destruct H as [c [-> [Hh [Hb [Hl [_ Hq]]]]]].
  exists (c_round B c). unfold commit_quorum.
  assert (Hm : pw powers (counted (Some b) (c_slots B c)) <=
               pw powers (signed B B_eq_dec (trace_of ch) (Precommit B (c_round B c) (Some b)))).
  { apply pw_mono; [exact Hp|]. intros i _ Hc. apply counted_commit in Hc. destruct Hc as [Hi [Hs Hf]].
    apply signed_In. apply (Hid c eq_refl ch b i i Hh Hb Hi (Hf b eq_refl) Hs). }
  lia.
Qed.

(** ---- the processor ---- *)
Variable powers_of : list B -> list Z.
Variable apply_ok : list B -> blk -> bool.
Hypothesis powers_nonneg : forall c, Forall (fun p => 0 <= p) (powers_of c).

Notation justified := (justified B B_eq_dec powers_of trace_of).
Notation p_handle := (p_handle B B_eq_dec powers_of apply_ok).
Notation p_run := (p_run B B_eq_dec powers_of apply_ok).

Definition blk_ideal (b : blk) : Prop := forall c, b_last_commit B b = Some c -> commit_ideal c.
Definition ev_ideal (e : pevent) : Prop := match e with EvBlock _ _ b => blk_ideal b | _ => True end.

Definition queue_ok (q : list (nat * (nat * blk))) : Prop :=
  forall k p b, In (k, (p, b)) q -> b_height B b = k /\ blk_ideal b.

Definition inv (st : pstate) : Prop := justified (p_chain B st) /\ queue_ok (p_queue B st).

Lemma q_get_In q h p b : q_get B q h = Some (p, b) -> In (h, (p, b)) q.
Proof.
  induction q as [|[h' x] q IH]; cbn [q_get]; [discriminate|].
  destruct (Nat.eqb h h') eqn:E.
  - apply Nat.eqb_eq in E. subst. intros H. inversion H. left. reflexivity.
  - intros H. right. apply IH. exact H.
Qed.

Lemma queue_ok_filter f q : queue_ok q -> queue_ok (filter f q).
Proof. intros H k p b Hin. apply filter_In in Hin. destruct Hin as [Hin _]. exact (H k p b Hin). Qed.

Lemma handle_inv st ev : ev_ideal ev -> inv st -> inv (fst (p_handle st ev)).
Proof.
  intros Hev [Hj Hq]. destruct ev as [peer b| |peer|]; cbn [Sync.p_handle].
  - (* a block is received *)
    destruct (Nat.ltb (length (p_chain B st)) (b_height B b)); [|split; assumption].
    destruct (q_get B (p_queue B st) (b_height B b)); cbn [fst]; [split; assumption|].
    split; [exact Hj|]. cbn [p_queue]. intros k p b' [Hin|Hin].
    + inversion Hin; subst. split; [reflexivity|exact Hev].
    + apply Hq with (p := p). exact Hin.
  - (* process *)
    destruct (q_get B (p_queue B st) (S (length (p_chain B st)))) as [[p1 first]|] eqn:E1;
      [|destruct (p_draining B st); split; assumption].
    destruct (q_get B (p_queue B st) (S (S (length (p_chain B st))))) as [[p2 second]|] eqn:E2;
      [|destruct (p_draining B st); split; assumption].
    apply q_get_In in E1. apply q_get_In in E2.
    destruct (Hq _ _ _ E1) as [Hh1 _]. destruct (Hq _ _ _ E2) as [_ Hi2].
    destruct (verify_commit B B_eq_dec (powers_of (p_chain B st)) (b_height B first) (Some (b_id B first)) (b_last_commit B second)) eqn:Ev;
      try (cbn [fst p_chain p_queue]; split; [exact Hj|]; apply queue_ok_filter; apply queue_ok_filter; exact Hq).
    destruct (apply_ok (p_chain B st) first); cbn [fst]; [|split; assumption].
    cbn [p_chain p_queue]. split.
    + apply j_snoc; [exact Hj|]. rewrite Hh1 in Ev.
      apply (verify_commit_decides _ _ _ _ (powers_nonneg _) Hi2 Ev).
    + apply queue_ok_filter. exact Hq.
  - (* a peer is reported *)
    cbn [fst p_chain p_queue]. split; [exact Hj|]. apply queue_ok_filter. exact Hq.
  - (* the scheduler has finished *)
    destruct (Nat.leb (length (p_queue B st)) 1); cbn [fst]; split; assumption.
Qed.

Lemma run_inv evs : forall st, Forall ev_ideal evs -> inv st -> inv (p_run st evs).
Proof.
  induction evs as [|e evs IH]; intros st Hall Hinv; cbn [Sync.p_run]; [exact Hinv|].
  inversion Hall; subst. apply IH; [assumption|]. apply handle_inv; assumption.
Qed.

(** BLOCK SYNC ADOPTS ONLY DECIDED BLOCKS: for every sequence of events (blocks from any peers in
    any order, forged commits, peer errors), the chain the processor has adopted is justified *)
Theorem blocksync_justified evs :
  Forall ev_ideal evs -> justified (p_chain B (p_run (p_init B) evs)).
Proof.
  intros Hall. apply (run_inv evs (p_init B) Hall). split; [constructor|].
  intros k p b Hin. inversion Hin.
Qed.

(** hence it never forks from a chain committed by consensus *)
Variable faulty_of : list B -> nat -> bool.
Hypothesis few_faulty : forall c, 3 * pw (powers_of c) (faulty_of c) < total (powers_of c).
Hypothesis correct_obey : forall c, all_correct_obey (powers_of c) B B_eq_dec (faulty_of c) (trace_of c).

Theorem blocksync_no_fork evs c2 :
  Forall ev_ideal evs -> justified c2 ->
  let c1 := p_chain B (p_run (p_init B) evs) in
  c1 = firstn (length c1) c2 \/ c2 = firstn (length c2) c1.
Proof.
  intros Hall H2 c1.
  apply (no_fork B B_eq_dec powers_of faulty_of trace_of powers_nonneg few_faulty correct_obey); [|exact H2].
  apply blocksync_justified. exact Hall.
Qed.

Corollary blocksync_same_block evs c2 h b1 b2 :
  Forall ev_ideal evs -> justified c2 ->
  nth_error (p_chain B (p_run (p_init B) evs)) h = Some b1 -> nth_error c2 h = Some b2 -> b1 = b2.
Proof.
  intros Hall H2 E1 E2.
  apply (same_height_same_block B B_eq_dec powers_of faulty_of trace_of powers_nonneg few_faulty correct_obey
           (p_chain B (p_run (p_init B) evs)) c2 h b1 b2); auto.
  apply blocksync_justified. exact Hall.
Qed.

End SyncProofs.

(** ---- why the slot must be the validator: attributing a slot to the validator its ADDRESS names
    (and not checking that the named validators are pairwise different) is unsound.  [by_addr] is that
    variant of the loop; the witness is one validator of power 10 out of 40 whose precommit fills
    three slots. ---- *)
Definition by_addr_tally (powers : list Z) (named : list (option nat)) : Z :=
  fold_right (fun o acc => match o with Some v => acc + power powers v | None => acc end) 0 named.

Example by_addr_refuted :
  let powers := [10; 10; 10; 10] in
  (* slots 0..2 carry validator 3's precommit and name validator 3; slot 3 is absent *)
  let named := [Some 3%nat; Some 3%nat; Some 3%nat; None] in
  Z.leb (by_addr_tally powers named) (total powers * 2 / 3) = false /\
  (* while the real rule refuses it at slot 0: neither the address nor the signature is validator 0's *)
  verify_commit nat Nat.eq_dec powers 1 (Some 7%nat)
    (Some (mkCommit nat 1 1 (Some 7%nat)
             [mkSlot FCommit false (Some 3%nat) false false (Some 3%nat); mkSlot FCommit false (Some 3%nat) false false (Some 3%nat);
              mkSlot FCommit false (Some 3%nat) false false (Some 3%nat); absent_slot])) = VAddr 0.
Proof. vm_compute. split; reflexivity. Qed.

(** non-vacuity: a concrete offer sequence whose commits are ideal w.r.t. a concrete history and
    which the processor adopts *)
Definition ex_sync_trace : trace nat :=
  [ (0%nat, Precommit nat 1 (Some 7%nat)); (1%nat, Precommit nat 1 (Some 7%nat)); (2%nat, Precommit nat 1 (Some 7%nat)) ].
Definition ex_sync_commit : commit nat :=
  mkCommit nat 1 1 (Some 7%nat)
    [mkSlot FCommit false (Some 0%nat) false false (Some 0%nat); mkSlot FCommit false (Some 1%nat) false false (Some 1%nat);
     mkSlot FCommit false (Some 2%nat) false false (Some 2%nat); absent_slot].
Definition ex_sync_events : list (pevent nat) :=
  [ EvBlock nat 1 (mkBlk nat 1 7%nat (Some (mkCommit nat 0 0 None [])));
    EvBlock nat 1 (mkBlk nat 2 8%nat (Some ex_sync_commit));
    EvProcess nat ].

Example ex_sync_ideal : Forall (ev_ideal nat (fun _ => ex_sync_trace)) ex_sync_events.
Proof.
  unfold ex_sync_events. constructor; [|constructor; [|constructor; [exact I|constructor]]];
    cbn [ev_ideal]; intros c Hc; inversion Hc; subst; intros ch b i v Hh Hb Hi Hf Hs.
  - cbn in Hi. lia.
  - cbn in Hb. inversion Hb; subst. cbn in Hi.
    destruct i as [|[|[|[|]]]]; cbn in Hf, Hs; try discriminate; try lia; inversion Hs; subst; cbn; tauto.
Qed.

Example ex_sync_adopts :
  p_chain nat (p_run nat Nat.eq_dec (fun _ => [1; 1; 1; 1]) (fun _ _ => true) (p_init nat) ex_sync_events) = [7%nat].
Proof. vm_compute. reflexivity. Qed.
