(** C01 — every run of the lock automaton (Lock.v), interleaved with arbitrary signing events of
    the other validators, satisfies the obligations of Agreement.obeys: the lock discipline of
    consensus/state.go (lock / RE-LOCK with the lock round set to the current round, release only by
    a polka for another value in a round in (LockedRound, Round], prevote the locked block) is
    sufficient for the agreement theorem. *)
From Coq Require Import List ZArith Arith Bool Lia.
From Kardia Require Import C01.Power C01.Agreement C01.Checker C01.Lock.
Import ListNotations.
Local Open Scope Z_scope.

Section LockProofs.
Variable powers : list Z.
Hypothesis powers_nonneg : Forall (fun p => 0 <= p) powers.
Variable B : Type.
Variable B_eq_dec : forall x y : B, {x = y} + {x <> y}.
Variable i : nat.

Notation event := (event B).
Notation trace := (trace B).
Notation msg := (msg B).
Notation opt_eqb := (opt_eqb B B_eq_dec).
Notation polka_b := (polka_b powers B B_eq_dec).
Notation signed := (signed B B_eq_dec).
Notation check_event := (check_event powers B B_eq_dec).
Notation check_trace := (check_trace powers B B_eq_dec).
Notation release := (release powers B B_eq_dec).
Notation lstep := (lstep powers B B_eq_dec i).
Notation lrun := (lrun powers B B_eq_dec i).
Notation lstate := (lstate B).

Definition mround (m : msg) : nat := match m with Prevote _ r _ => r | Precommit _ r _ => r end.

(** ---- the checker walks appended traces piecewise ---- *)
Lemma check_trace_app t1 : forall p t2,
  check_trace i p (t1 ++ t2) = check_trace i p t1 && check_trace i (p ++ t1) t2.
Proof.
  induction t1 as [|[j m] t1 IH]; intros p t2.
  - cbn [app Checker.check_trace]. rewrite app_nil_r. reflexivity.
  - cbn [app Checker.check_trace]. rewrite IH. rewrite <- app_assoc. cbn [app].
    rewrite andb_assoc. reflexivity.
Qed.

Lemma check_trace_snoc tr e :
  check_trace i [] (tr ++ [e]) =
  check_trace i [] tr && (if Nat.eqb (fst e) i then check_event i tr (snd e) else true).
Proof.
  rewrite check_trace_app. cbn [app]. destruct e as [j m]. cbn [Checker.check_trace fst snd].
  rewrite andb_true_r. reflexivity.
Qed.

(** ---- polkas and releases only grow with the trace ---- *)
Lemma signed_app_mono tr t m j : signed tr m j = true -> signed (tr ++ t) m j = true.
Proof. apply signed_app. Qed.

Lemma polka_b_mono tr t r x : polka_b tr r x = true -> polka_b (tr ++ t) r x = true.
Proof.
  unfold Checker.polka_b. rewrite !Z.ltb_lt. intros H.
  assert (pw powers (signed tr (Prevote B r x)) <= pw powers (signed (tr ++ t) (Prevote B r x))).
  { apply pw_mono; [exact powers_nonneg|]. intros j _. apply signed_app_mono. }
  lia.
Qed.

Lemma release_mono tr t r0 r r1 r2 b :
  release tr r r1 b = true -> (r0 <= r)%nat -> (r1 <= r2)%nat -> release (tr ++ t) r0 r2 b = true.
Proof.
  unfold Lock.release. rewrite !existsb_exists. intros [[j m] [Hin H]] H0 H12.
  exists (j, m). split; [apply in_or_app; left; exact Hin|].
  destruct m as [r'' y|]; [|discriminate].
  rewrite !andb_true_iff in *. destruct H as [[[Ha Hb] Hc] Hd].
  apply Nat.ltb_lt in Ha. apply Nat.leb_le in Hb.
  repeat split; [apply Nat.ltb_lt; lia|apply Nat.leb_le; lia|exact Hc|apply polka_b_mono; exact Hd].
Qed.

Lemma release_same tr r0 r r1 r2 b :
  release tr r r1 b = true -> (r0 <= r)%nat -> (r1 <= r2)%nat -> release tr r0 r2 b = true.
Proof. intros H H0 H1. pose proof (release_mono tr [] r0 r r1 r2 b H H0 H1) as H2. rewrite app_nil_r in H2. exact H2. Qed.

(** a polka has a prevote in the trace *)
Lemma polka_witness tr r y : polka_b tr r y = true -> exists j, In (j, Prevote B r y) tr.
Proof.
  unfold Checker.polka_b. rewrite Z.ltb_lt. intros H.
  assert (Ht : 0 <= total powers) by (apply pw_nonneg; exact powers_nonneg).
  assert (Hp : 0 < pw powers (signed tr (Prevote B r y))) by lia.
  apply pw_pos_witness in Hp. destruct Hp as [j [_ Hs]]. exists j. apply signed_In in Hs. exact Hs.
Qed.

Lemma release_of_polka tr r r'' r' y b :
  polka_b tr r'' y = true -> (r < r'')%nat -> (r'' <= r')%nat -> y <> Some b -> release tr r r' b = true.
Proof.
  intros Hp H1 H2 Hy. destruct (polka_witness _ _ _ Hp) as [j Hin].
  unfold Lock.release. apply existsb_exists. exists (j, Prevote B r'' y). split; [exact Hin|].
  rewrite !andb_true_iff. repeat split; [apply Nat.ltb_lt; lia|apply Nat.leb_le; lia| |exact Hp].
  apply negb_true_iff. destruct (opt_eqb y (Some b)) eqn:E; [|reflexivity].
  apply opt_eqb_eq in E. contradiction.
Qed.

(** ---- the invariant ---- *)
Record linv (st : lstate) (tr : trace) : Prop := {
  k_checked : check_trace i [] tr = true;
  k_rounds : forall m, In (i, m) tr -> (mround m <= l_round B st)%nat;
  k_fresh : l_precommitted B st = false -> forall x, ~ In (i, Precommit B (l_round B st) x) tr;
  k_history : forall b r, In (i, Precommit B r (Some b)) tr ->
      (exists lr, l_locked B st = Some (b, lr) /\ (r <= lr)%nat) \/ release tr r (l_round B st) b = true;
  k_lock : forall b lr, l_locked B st = Some (b, lr) ->
      (lr <= l_round B st)%nat /\ (lr = l_round B st -> l_precommitted B st = true)
}.

Lemma linv_init : linv (l_init B) [].
Proof.
  constructor; cbn [l_init l_round l_precommitted l_locked].
  - reflexivity.
  - intros m [].
  - intros _ x [].
  - intros b r [].
  - intros b lr H; discriminate.
Qed.

Lemma in_snoc_other (tr : trace) (e : event) m : fst e <> i -> In (i, m) (tr ++ [e]) -> In (i, m) tr.
Proof.
  intros Hne Hin. apply in_app_or in Hin. destruct Hin as [H|[H|[]]]; [exact H|].
  subst e. cbn in Hne. contradiction.
Qed.

(** the check of a new precommit *)
Lemma precommit_checks st tr x :
  linv st tr -> l_precommitted B st = false ->
  (forall b, x = Some b -> polka_b tr (l_round B st) (Some b) = true) ->
  check_event i tr (Precommit B (l_round B st) x) = true.
Proof.
  intros Hinv Hf Hp. cbn [Checker.check_event]. rewrite !andb_true_iff. repeat split.
  - apply forallb_forall. intros [j m] Hin. destruct m as [|r0 y]; [reflexivity|].
    destruct (Nat.eqb j i) eqn:Ej; [|reflexivity]. apply Nat.eqb_eq in Ej. subst j.
    destruct (Nat.eqb r0 (l_round B st)) eqn:Er; [|reflexivity]. apply Nat.eqb_eq in Er. subst r0.
    exfalso. exact (k_fresh st tr Hinv Hf y Hin).
  - destruct x as [b|]; [apply Hp; reflexivity|reflexivity].
  - apply forallb_forall. intros [j m] Hin. destruct m as [r' y|]; [|reflexivity].
    destruct (Nat.eqb j i) eqn:Ej; [|reflexivity]. apply Nat.eqb_eq in Ej. subst j.
    cbn [negb orb]. apply Nat.leb_le. exact (k_rounds st tr Hinv _ Hin).
Qed.

(** the check of a new prevote *)
Lemma prevote_checks st tr x :
  linv st tr ->
  (forall b lr, l_locked B st = Some (b, lr) -> x = Some b) ->
  check_event i tr (Prevote B (l_round B st) x) = true.
Proof.
  intros Hinv Hl. cbn [Checker.check_event]. apply forallb_forall. intros [j m] Hin.
  destruct m as [|r [b|]]; try reflexivity.
  destruct (Nat.eqb j i) eqn:Ej; [|reflexivity]. apply Nat.eqb_eq in Ej. subst j. cbn [negb orb].
  destruct (Nat.ltb r (l_round B st)) eqn:Er; [|reflexivity]. cbn [negb orb].
  destruct (k_history st tr Hinv b r Hin) as [[lr [Hlk _]]|Hrel].
  - rewrite (Hl b lr Hlk). assert (E : opt_eqb (Some b) (Some b) = true) by (apply opt_eqb_eq; reflexivity).
    rewrite E. reflexivity.
  - apply orb_true_iff. right. exact Hrel.
Qed.

Lemma lstep_inv st tr a st' tr' : linv st tr -> lstep st tr a = Some (st', tr') -> linv st' tr'.
Proof.
  intros Hinv Hs. destruct a as [r|x|x| |e]; cbn [Lock.lstep] in Hs.
  - (* new round *)
    destruct (Nat.ltb (l_round B st) r) eqn:Er; [|discriminate]. apply Nat.ltb_lt in Er.
    inversion Hs; subst; clear Hs. constructor; cbn [l_round l_precommitted l_locked].
    + exact (k_checked st tr' Hinv).
    + intros m Hin. pose proof (k_rounds st tr' Hinv m Hin). lia.
    + intros _ x Hin. pose proof (k_rounds st tr' Hinv _ Hin) as H. cbn in H. lia.
    + intros b r0 Hin. destruct (k_history st tr' Hinv b r0 Hin) as [H|H]; [left; exact H|right].
      apply (release_same tr' r0 r0 (l_round B st) r b H); lia.
    + intros b lr Hl. destruct (k_lock st tr' Hinv b lr Hl) as [H1 _]. split; [lia|intros ->; lia].
  - (* prevote *)
    assert (Hguard : (forall b lr, l_locked B st = Some (b, lr) -> x = Some b) /\
                     st' = st /\ tr' = tr ++ [(i, Prevote B (l_round B st) x)]).
    { destruct (l_locked B st) as [[b lr]|] eqn:El.
      - destruct (opt_eqb x (Some b)) eqn:E; [|discriminate]. apply opt_eqb_eq in E. inversion Hs; subst.
        repeat split. intros b0 lr0 H0. inversion H0; subst. reflexivity.
      - inversion Hs; subst. repeat split. intros b0 lr0 H0. discriminate. }
    destruct Hguard as [Hg [-> ->]]. constructor.
    + rewrite check_trace_snoc. cbn [fst snd]. rewrite Nat.eqb_refl.
      rewrite (k_checked st tr Hinv). apply prevote_checks; assumption.
    + intros m Hin. apply in_app_or in Hin. destruct Hin as [H|[H|[]]].
      * exact (k_rounds st tr Hinv m H).
      * inversion H; subst. cbn. lia.
    + intros Hf x0 Hin. apply in_app_or in Hin. destruct Hin as [H|[H|[]]]; [|discriminate].
      exact (k_fresh st tr Hinv Hf x0 H).
    + intros b r Hin. apply in_app_or in Hin. destruct Hin as [H|[H|[]]]; [|discriminate].
      destruct (k_history st tr Hinv b r H) as [H1|H1]; [left; exact H1|right].
      apply (release_mono tr _ r r _ _ b H1); lia.
    + exact (k_lock st tr Hinv).
  - (* precommit *)
    destruct (l_precommitted B st) eqn:Ef; [discriminate|].
    destruct x as [b|].
    + destruct (polka_b tr (l_round B st) (Some b)) eqn:Ep; [|discriminate].
      inversion Hs; subst; clear Hs. constructor; cbn [l_round l_precommitted l_locked].
      * rewrite check_trace_snoc. cbn [fst snd]. rewrite Nat.eqb_refl.
        rewrite (k_checked st tr Hinv). apply precommit_checks; try assumption.
        intros b0 H0. inversion H0; subst. exact Ep.
      * intros m Hin. apply in_app_or in Hin. destruct Hin as [H|[H|[]]].
        -- exact (k_rounds st tr Hinv m H).
        -- inversion H; subst. cbn. lia.
      * discriminate.
      * intros b1 r1 Hin. apply in_app_or in Hin. destruct Hin as [H|[H|[]]].
        -- destruct (k_history st tr Hinv b1 r1 H) as [[lr [Hl Hle]]|H1].
           ++ destruct (k_lock st tr Hinv b1 lr Hl) as [Hlr Heq].
              destruct (B_eq_dec b1 b) as [->|Hne].
              ** left. exists (l_round B st). split; [reflexivity|lia].
              ** right. assert (Hlt : (lr < l_round B st)%nat).
                 { destruct (Nat.eq_dec lr (l_round B st)) as [E|E]; [|lia].
                   specialize (Heq E). congruence. }
                 apply (release_mono tr _ r1 r1 (l_round B st) (l_round B st) b1); try lia.
                 apply (release_of_polka tr r1 (l_round B st) (l_round B st) (Some b) b1 Ep); try lia.
                 intros E. inversion E. subst. contradiction.
           ++ right. apply (release_mono tr _ r1 r1 _ _ b1 H1); lia.
        -- inversion H; subst. left. exists (l_round B st). split; [reflexivity|lia].
      * intros b1 lr Hl. inversion Hl; subst. split; [lia|reflexivity].
    + inversion Hs; subst; clear Hs. constructor; cbn [l_round l_precommitted l_locked].
      * rewrite check_trace_snoc. cbn [fst snd]. rewrite Nat.eqb_refl.
        rewrite (k_checked st tr Hinv). apply precommit_checks; try assumption. intros b0 H0. discriminate.
      * intros m Hin. apply in_app_or in Hin. destruct Hin as [H|[H|[]]].
        -- exact (k_rounds st tr Hinv m H).
        -- inversion H; subst. cbn. lia.
      * discriminate.
      * intros b1 r1 Hin. apply in_app_or in Hin. destruct Hin as [H|[H|[]]]; [|discriminate].
        destruct (k_history st tr Hinv b1 r1 H) as [[lr [Hl Hle]]|H1].
        -- destruct (k_lock st tr Hinv b1 lr Hl) as [Hlr Heq].
           destruct (polka_b tr (l_round B st) None) eqn:Ep.
           ++ right. assert (Hlt : (lr < l_round B st)%nat).
              { destruct (Nat.eq_dec lr (l_round B st)) as [E|E]; [|lia]. specialize (Heq E). congruence. }
              apply (release_mono tr _ r1 r1 (l_round B st) (l_round B st) b1); try lia.
              apply (release_of_polka tr r1 (l_round B st) (l_round B st) None b1 Ep); try lia. discriminate.
           ++ left. exists lr. split; assumption.
        -- right. apply (release_mono tr _ r1 r1 _ _ b1 H1); lia.
      * intros b1 lr Hl. split; [|reflexivity].
        destruct (polka_b tr (l_round B st) None); [discriminate|].
        exact (proj1 (k_lock st tr Hinv b1 lr Hl)).
  - (* unlock *)
    destruct (l_locked B st) as [[b lr]|] eqn:El; [|discriminate].
    destruct (release tr lr (l_round B st) b) eqn:Er; [|discriminate].
    inversion Hs; subst; clear Hs. constructor; cbn [l_round l_precommitted l_locked].
    + exact (k_checked st tr' Hinv).
    + exact (k_rounds st tr' Hinv).
    + exact (k_fresh st tr' Hinv).
    + intros b1 r1 Hin. right. destruct (k_history st tr' Hinv b1 r1 Hin) as [[lr1 [Hl Hle]]|H1]; [|exact H1].
      rewrite El in Hl. inversion Hl; subst. apply (release_same tr' r1 lr1 _ _ b1 Er); lia.
    + discriminate.
  - (* another validator signs *)
    destruct (Nat.eqb (fst e) i) eqn:Ee; [discriminate|]. apply Nat.eqb_neq in Ee.
    inversion Hs as [[Hst Htr]]. subst st' tr'. clear Hs. constructor.
    + rewrite check_trace_snoc. apply Nat.eqb_neq in Ee. rewrite Ee. rewrite andb_true_r. exact (k_checked st tr Hinv).
    + intros m Hin. apply (k_rounds st tr Hinv). eapply in_snoc_other; eauto.
    + intros Hf x Hin. apply (k_fresh st tr Hinv Hf x). eapply in_snoc_other; eauto.
    + intros b r Hin. apply in_snoc_other in Hin; [|exact Ee].
      destruct (k_history st tr Hinv b r Hin) as [H1|H1]; [left; exact H1|right].
      apply (release_mono tr _ r r _ _ b H1); lia.
    + exact (k_lock st tr Hinv).
Qed.

Lemma lrun_inv acts : forall st tr st' tr', linv st tr -> lrun st tr acts = Some (st', tr') -> linv st' tr'.
Proof.
  induction acts as [|a acts IH]; intros st tr st' tr' Hinv Hr; cbn [Lock.lrun] in Hr.
  - inversion Hr; subst. exact Hinv.
  - destruct (lstep st tr a) as [[st1 tr1]|] eqn:E; [|discriminate].
    apply (IH st1 tr1 st' tr'); [|exact Hr]. eapply lstep_inv; eauto.
Qed.

(** THE LOCK DISCIPLINE SUFFICES: whatever the other validators sign and whenever, the trace of any
    run of the automaton satisfies this validator's four obligations *)
Theorem lock_discipline_obeys acts st tr :
  lrun (l_init B) [] acts = Some (st, tr) -> obeys powers B B_eq_dec tr i.
Proof.
  intros Hr. apply obeys_b_sound. unfold obeys_b.
  exact (k_checked st tr (lrun_inv acts _ _ _ _ linv_init Hr)).
Qed.

(** ... and the lock it holds is the lock of its last precommit for a block (what the harness's
    lock-state oracle checks on the real nodes): a held lock (b, lr) was precommitted, and no
    precommit for a block was signed in a later round *)
Theorem lock_is_last_precommit acts st tr b lr :
  lrun (l_init B) [] acts = Some (st, tr) -> l_locked B st = Some (b, lr) ->
  forall b' r, In (i, Precommit B r (Some b')) tr -> (r <= lr)%nat \/ release tr r (l_round B st) b' = true.
Proof.
  intros Hr Hl b' r Hin. pose proof (lrun_inv acts _ _ _ _ linv_init Hr) as Hinv.
  destruct (k_history st tr Hinv b' r Hin) as [[lr' [Hl' Hle]]|H]; [left|right; exact H].
  rewrite Hl in Hl'. inversion Hl'; subst. exact Hle.
Qed.

End LockProofs.

(** ---- non-vacuity and the re-lock schedule: validator 0 of four locks 7 in round 1, a polka for 8
    in round 2 stays incomplete, it re-locks 7 in round 3, the polka of round 2 completes late.  The
    automaton runs (so the theorem's hypothesis is satisfiable), its lock is (7, 3), and the late
    polka does NOT release it; with the lock round left at 1 (what a re-lock that does not advance
    LockedRound leaves behind) the same polka would release it. ---- *)
Definition ex_relock_actions : list (action nat) :=
  [ ANewRound nat 1;
    AOther nat (1%nat, Prevote nat 1 (Some 7%nat)); AOther nat (2%nat, Prevote nat 1 (Some 7%nat));
    APrevote nat (Some 7%nat); APrecommit nat (Some 7%nat);
    ANewRound nat 2; APrevote nat (Some 7%nat);
    AOther nat (1%nat, Prevote nat 2 (Some 8%nat)); AOther nat (2%nat, Prevote nat 2 (Some 8%nat));
    APrecommit nat None;
    ANewRound nat 3;
    AOther nat (1%nat, Prevote nat 3 (Some 7%nat)); AOther nat (2%nat, Prevote nat 3 (Some 7%nat));
    APrevote nat (Some 7%nat); APrecommit nat (Some 7%nat);
    AOther nat (3%nat, Prevote nat 2 (Some 8%nat)) ].

Definition ex_relock_run := lrun [1; 1; 1; 1] nat Nat.eq_dec 0 (l_init nat) [] ex_relock_actions.

Example ex_relock_runs :
  option_map (fun p => l_locked nat (fst p)) ex_relock_run = Some (Some (7%nat, 3%nat)).
Proof. vm_compute. reflexivity. Qed.

Example ex_relock_late_polka_does_not_release :
  match ex_relock_run with
  | Some (st, tr) => lstep [1; 1; 1; 1] nat Nat.eq_dec 0 st tr (AUnlock nat) = None /\
                     lstep [1; 1; 1; 1] nat Nat.eq_dec 0 st tr (APrevote nat (Some 8%nat)) = None /\
                     (* the stale lock round of the first lock would let the round-2 polka through *)
                     release [1; 1; 1; 1] nat Nat.eq_dec tr 1 3 7%nat = true
  | None => False
  end.
Proof. vm_compute. repeat split; reflexivity. Qed.
