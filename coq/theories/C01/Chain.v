(** C01 — from single-height agreement to the whole chain, with validator sets (and the
    faulty sets, and the message history of each height) determined by the committed prefix. *)
From Coq Require Import List ZArith Arith Bool Lia.
From Kardia Require Import C01.Power C01.Agreement.
Import ListNotations.
Local Open Scope Z_scope.

Section Chain.
Variable B : Type.
Variable B_eq_dec : forall x y : B, {x = y} + {x <> y}.

(** everything about height |c|+1 is a function of the committed prefix c: the voting powers
    (validator-set changes are decided by the application from the chain), which validators
    are faulty at that height, and the global signing history of that height *)
Variable powers_of : list B -> list Z.
Variable faulty_of : list B -> nat -> bool.
Variable trace_of : list B -> trace B.

Hypothesis powers_nonneg : forall c, Forall (fun p => 0 <= p) (powers_of c).
Hypothesis few_faulty : forall c, 3 * pw (powers_of c) (faulty_of c) < total (powers_of c).
Hypothesis correct_obey : forall c, all_correct_obey (powers_of c) B B_eq_dec (faulty_of c) (trace_of c).

(** block b gathered +2/3 precommits of the set entitled to sign the height after prefix c *)
Definition decided (c : list B) (b : B) : Prop :=
  exists r, commit_quorum (powers_of c) B B_eq_dec (trace_of c) r b.

(** a chain every block of which was decided on top of its prefix: what a correct node's
    committed chain is (C03_commit_needs_quorum), and also what block sync adopts
    (VerifyCommit with the current set, C02_verify_commit_sound) *)
Inductive justified : list B -> Prop :=
| j_nil : justified []
| j_snoc c b : justified c -> decided c b -> justified (c ++ [b]).

Lemma decided_unique c b b' : decided c b -> decided c b' -> b = b'.
Proof.
  intros [r H] [r' H'].
  eapply (agreement (powers_of c) (powers_nonneg c) B B_eq_dec (faulty_of c) (few_faulty c)); eauto.
Qed.

Lemma justified_prefix c1 : justified c1 -> forall c2, justified c2 ->
  (length c1 <= length c2)%nat -> c1 = firstn (length c1) c2.
Proof.
  induction 1 as [|c b Hc IH Hd]; intros c2 H2 Hlen; [reflexivity|].
  rewrite app_length in *. simpl in *.
  (* peel c2 down to length (length c + 1) *)
  assert (Hex : exists c2' b2 tl, c2 = (c2' ++ [b2]) ++ tl /\ length c2' = length c /\ justified c2' /\ decided c2' b2).
  { clear IH Hd. revert Hlen. induction H2 as [|d e Hd' IHd He]; intros Hlen; [simpl in Hlen; lia|].
    rewrite app_length in Hlen. simpl in Hlen.
    destruct (Nat.eq_dec (length d) (length c)) as [E|E].
    - exists d, e, []. rewrite app_nil_r. auto.
    - destruct IHd as [c2' [b2 [tl [E1 [E2 [E3 E4]]]]]]; [lia|].
      exists c2', b2, (tl ++ [e]). rewrite E1. rewrite <- !app_assoc. auto. }
  destruct Hex as [c2' [b2 [tl [E1 [E2 [E3 E4]]]]]].
  assert (Hc2' : c = c2').
  { pose proof (IH c2' E3 ltac:(lia)) as Hp. rewrite Hp. rewrite <- E2. rewrite firstn_all. reflexivity. }
  subst c2'. assert (b = b2) by (eapply decided_unique; eauto). subst b2.
  rewrite E1. rewrite firstn_app.
  replace (length c + 1)%nat with (length (c ++ [b])) by (rewrite app_length; simpl; lia).
  rewrite firstn_all. rewrite Nat.sub_diag. simpl. rewrite app_nil_r. reflexivity.
Qed.

(** no two justified chains fork: one is a prefix of the other *)
Theorem no_fork c1 c2 : justified c1 -> justified c2 ->
  c1 = firstn (length c1) c2 \/ c2 = firstn (length c2) c1.
Proof.
  intros H1 H2. destruct (le_ge_dec (length c1) (length c2)).
  - left. apply justified_prefix; auto.
  - right. apply justified_prefix; auto.
Qed.

Lemma nth_error_firstn_lt {A} (l : list A) k h : (h < k)%nat -> nth_error (firstn k l) h = nth_error l h.
Proof.
  revert k h; induction l as [|x l IH]; intros k h Hlt.
  - rewrite firstn_nil. reflexivity.
  - destruct k; [lia|]. destruct h; simpl; [reflexivity|]. apply IH. lia.
Qed.

(** in particular the blocks at any common height are equal *)
Corollary same_height_same_block c1 c2 h b1 b2 :
  justified c1 -> justified c2 -> nth_error c1 h = Some b1 -> nth_error c2 h = Some b2 -> b1 = b2.
Proof.
  intros H1 H2 E1 E2.
  assert (L1 : (h < length c1)%nat) by (apply nth_error_Some; congruence).
  assert (L2 : (h < length c2)%nat) by (apply nth_error_Some; congruence).
  destruct (no_fork c1 c2 H1 H2) as [E|E].
  - rewrite E in E1. rewrite nth_error_firstn_lt in E1 by assumption. congruence.
  - rewrite E in E2. rewrite nth_error_firstn_lt in E2 by assumption. congruence.
Qed.

End Chain.
