(** C01 — closed instances of the executable obligations checker for extraction: block ids are
    natural numbers (the harness interns the real block ids of a height to 1, 2, ...), the faulty
    set is given as a list of flags by validator index.  The correspondence check runs these on the
    signature logs of real ConsensusStates (harness/overlay/consensus/verif_net_test.go). *)
From Coq Require Import List ZArith Arith Bool.
From Kardia Require Import C01.Power C01.Agreement C01.Checker C01.Sync C01.Lock C01.Monitor.
Import ListNotations.
Local Open Scope Z_scope.

Definition faulty_of (flags : list bool) (i : nat) : bool := nth i flags false.

(** one signing event: validator index, kind (false = prevote, true = precommit), round, block *)
Definition mk_event (i : nat) (precommit : bool) (r : nat) (x : option nat) : event nat :=
  (i, if precommit then Precommit nat r x else Prevote nat r x).

Definition run_all_obey (powers : list Z) (flags : list bool) (tr : trace nat) : bool :=
  all_obey_b powers nat Nat.eq_dec (faulty_of flags) tr.

Definition run_obeys (powers : list Z) (tr : trace nat) (i : nat) : bool :=
  obeys_b powers nat Nat.eq_dec tr i.

Definition run_commit_quorum (powers : list Z) (tr : trace nat) (r b : nat) : bool :=
  commit_quorum_b powers nat Nat.eq_dec tr r b.

(** what a positive answer of the extracted functions means *)
Lemma run_all_obey_sound powers flags tr :
  run_all_obey powers flags tr = true ->
  all_correct_obey powers nat Nat.eq_dec (faulty_of flags) tr.
Proof. apply all_obey_b_sound. Qed.

Lemma run_commit_quorum_sound powers tr r b :
  run_commit_quorum powers tr r b = true -> commit_quorum powers nat Nat.eq_dec tr r b.
Proof. apply commit_quorum_b_spec. Qed.

(** two commits accepted by the checker on a trace that passes it are for the same block *)
Theorem run_agreement powers flags tr r r' b b' :
  Forall (fun p => 0 <= p) powers ->
  3 * pw powers (faulty_of flags) < total powers ->
  run_all_obey powers flags tr = true ->
  run_commit_quorum powers tr r b = true -> run_commit_quorum powers tr r' b' = true -> b = b'.
Proof.
  intros Hp Hf Ho Hc Hc'.
  eapply (agreement powers Hp nat Nat.eq_dec (faulty_of flags) Hf tr r r' b b').
  - apply run_all_obey_sound; exact Ho.
  - apply run_commit_quorum_sound; exact Hc.
  - apply run_commit_quorum_sound; exact Hc'.
Qed.

(** ---- VerifyCommit and the block-sync processor (C01/Sync.v) at block ids = nat, 0 = the zero id ---- *)

Definition bid_of (b : nat) : option nat := match b with O => None | S _ => Some b end.

Definition mk_slot (f : nat) (addr_zero : bool) (addr : option nat) (time_zero sig_empty : bool) (signer : option nat) : slot :=
  mkSlot (match f with
          | 1%nat => FAbsent | 2%nat => FCommit | 3%nat => FNil | _ => FUnknown end)
         addr_zero addr time_zero sig_empty signer.

Definition mk_commit (h r b : nat) (sl : list slot) : commit nat := mkCommit nat h r (bid_of b) sl.

Definition run_verify_commit (powers : list Z) (hw bw : nat) (oc : option (commit nat)) : vresult :=
  verify_commit nat Nat.eq_dec powers hw (bid_of bw) oc.

(** the powers entitled to sign height k+1 are the k-th entry of the table the harness supplies *)
Definition run_powers_of (pv : list (list Z)) (c : list nat) : list Z := nth (length c) pv [].

Definition mk_blk (h id : nat) (lc : option (commit nat)) : blk nat := mkBlk nat h id lc.

Definition run_p_init : pstate nat := p_init nat.

Definition run_p_handle (pv : list (list Z)) (st : pstate nat) (ev : pevent nat) : pstate nat * pout :=
  p_handle nat Nat.eq_dec (run_powers_of pv) (fun _ _ => true) st ev.

Definition ev_block (peer : nat) (b : blk nat) : pevent nat := EvBlock nat peer b.
Definition ev_process : pevent nat := EvProcess nat.
Definition ev_peer_error (peer : nat) : pevent nat := EvPeerError nat peer.
Definition ev_finished : pevent nat := EvFinished nat.

(** ---- the lock automaton as a monitor of validator i on a recorded trace (C01/Monitor.v) ---- *)

(** [None]: an own event violates a guard of the automaton; [Some l]: accepted, l = the lock held at
    the end of the trace (block, lock round) *)
Definition run_monitor_lock (powers : list Z) (tr : trace nat) (i : nat) : option (option (nat * nat)) :=
  option_map (fun p => l_locked nat (fst p)) (monitor powers nat Nat.eq_dec i tr).

(** all non-faulty validators are accepted *)
Definition run_monitor_all (powers : list Z) (flags : list bool) (tr : trace nat) : bool :=
  forallb (fun i => faulty_of flags i || match run_monitor_lock powers tr i with Some _ => true | None => false end)
          (seq 0 (length powers)).
