(** C01 — the monitor (Monitor.v) only composes steps of the lock automaton and reproduces the
    trace it reads: a trace it accepts satisfies the validator's obligations. *)
From Coq Require Import List ZArith Arith Bool Lia.
From Kardia Require Import C01.Power C01.Agreement C01.Checker C01.Lock C01.LockProofs C01.Monitor.
Import ListNotations.
Local Open Scope Z_scope.

Section MonitorProofs.
Variable powers : list Z.
Hypothesis powers_nonneg : Forall (fun p => 0 <= p) powers.
Variable B : Type.
Variable B_eq_dec : forall x y : B, {x = y} + {x <> y}.
Variable i : nat.

Notation lstep := (lstep powers B B_eq_dec i).
Notation linv := (linv powers B B_eq_dec i).
Notation monitor_own := (monitor_own powers B B_eq_dec i).
Notation monitor_step := (monitor_step powers B B_eq_dec i).
Notation monitor_from := (monitor_from powers B B_eq_dec i).

(** what a step of the automaton does to the trace *)
Lemma lstep_trace st tr a st' tr' :
  lstep st tr a = Some (st', tr') ->
  match a with
  | ANewRound _ _ | AUnlock _ => tr' = tr
  | APrevote _ x => tr' = tr ++ [(i, Prevote B (l_round B st) x)]
  | APrecommit _ x => tr' = tr ++ [(i, Precommit B (l_round B st) x)]
  | AOther _ e => tr' = tr ++ [e]
  end /\
  match a with
  | ANewRound _ r => l_round B st' = r
  | _ => l_round B st' = l_round B st
  end.
Proof.
  destruct a as [r|x|x| |e]; cbn [Lock.lstep]; intros H.
  - destruct (Nat.ltb (l_round B st) r); inversion H; subst; split; reflexivity.
  - destruct (l_locked B st) as [[b lr]|].
    + destruct (opt_eqb B B_eq_dec x (Some b)); inversion H; subst; split; reflexivity.
    + inversion H; subst; split; reflexivity.
  - destruct (l_precommitted B st); [discriminate|]. destruct x as [b|].
    + destruct (polka_b powers B B_eq_dec tr (l_round B st) (Some b)); inversion H; subst; split; reflexivity.
    + inversion H; subst; split; reflexivity.
  - destruct (l_locked B st) as [[b lr]|]; [|discriminate].
    destruct (release powers B B_eq_dec tr lr (l_round B st) b); inversion H; subst; split; reflexivity.
  - destruct (Nat.eqb (fst e) i); inversion H; subst; split; reflexivity.
Qed.

Lemma monitor_step_ok st tr e st' tr' :
  linv st tr -> monitor_step st tr e = Some (st', tr') -> linv st' tr' /\ tr' = tr ++ [e].
Proof.
  intros Hinv H. unfold Monitor.monitor_step in H. destruct e as [j m]. cbn [fst snd] in H.
  destruct (Nat.eqb j i) eqn:Ej.
  - apply Nat.eqb_eq in Ej. subst j. unfold Monitor.monitor_own in H.
    (* entering the round of the event *)
    assert (Hent : exists st1, linv st1 tr /\ l_round B st1 = msg_round B m /\
                   match m with
                   | Prevote _ _ x =>
                     match lstep st1 tr (APrevote B x) with
                     | Some y => Some y
                     | None => match lstep st1 tr (AUnlock B) with
                               | Some (st2, tr2) => lstep st2 tr2 (APrevote B x)
                               | None => None end
                     end
                   | Precommit _ _ x => lstep st1 tr (APrecommit B x)
                   end = Some (st', tr')).
    { destruct (Nat.ltb (l_round B st) (msg_round B m)) eqn:El.
      - destruct (lstep st tr (ANewRound B (msg_round B m))) as [[st1 tr1]|] eqn:E1; [|discriminate].
        pose proof (lstep_trace _ _ _ _ _ E1) as [Ht Hr]. subst tr1.
        exists st1. split; [eapply lstep_inv; eauto|]. split; [exact Hr|exact H].
      - destruct (Nat.eqb (msg_round B m) (l_round B st)) eqn:Ee; [|discriminate].
        apply Nat.eqb_eq in Ee. exists st. split; [exact Hinv|]. split; [symmetry; exact Ee|exact H]. }
    destruct Hent as [st1 [Hinv1 [Hr1 Hm]]]. clear H.
    destruct m as [r x|r x]; cbn [Monitor.msg_round] in Hr1.
    + destruct (lstep st1 tr (APrevote B x)) as [[st2 tr2]|] eqn:E2.
      * injection Hm as <- <-. pose proof (lstep_trace _ _ _ _ _ E2) as [Ht _]. rewrite Hr1 in Ht.
        split; [eapply lstep_inv; eauto|exact Ht].
      * destruct (lstep st1 tr (AUnlock B)) as [[st2 tr2]|] eqn:E3; [|discriminate].
        pose proof (lstep_trace _ _ _ _ _ E3) as [Ht3 Hr3]. subst tr2.
        pose proof (lstep_trace _ _ _ _ _ Hm) as [Ht _]. rewrite Hr3, Hr1 in Ht.
        split; [|exact Ht].
        apply (lstep_inv powers powers_nonneg B B_eq_dec i st2 tr (APrevote B x) st' tr'); [|exact Hm].
        exact (lstep_inv powers powers_nonneg B B_eq_dec i st1 tr (AUnlock B) st2 tr Hinv1 E3).
    + pose proof (lstep_trace _ _ _ _ _ Hm) as [Ht _]. rewrite Hr1 in Ht.
      split; [eapply lstep_inv; eauto|exact Ht].
  - pose proof (lstep_trace _ _ _ _ _ H) as [Ht _]. split; [eapply lstep_inv; eauto|exact Ht].
Qed.

Lemma monitor_from_ok todo : forall st tr st' tr',
  linv st tr -> monitor_from st tr todo = Some (st', tr') -> linv st' tr' /\ tr' = tr ++ todo.
Proof.
  induction todo as [|e rest IH]; intros st tr st' tr' Hinv H; cbn [Monitor.monitor_from] in H.
  - inversion H; subst. rewrite app_nil_r. split; [exact Hinv|reflexivity].
  - destruct (monitor_step st tr e) as [[st1 tr1]|] eqn:E; [|discriminate].
    destruct (monitor_step_ok _ _ _ _ _ Hinv E) as [Hinv1 ->].
    destruct (IH _ _ _ _ Hinv1 H) as [Hinv' ->]. split; [exact Hinv'|].
    rewrite <- app_assoc. reflexivity.
Qed.

(** a trace the monitor accepts satisfies the validator's obligations *)
Theorem monitor_sound tr st tr' :
  monitor powers B B_eq_dec i tr = Some (st, tr') -> tr' = tr /\ obeys powers B B_eq_dec tr i.
Proof.
  intros H. unfold Monitor.monitor in H.
  destruct (monitor_from_ok tr _ _ _ _ (linv_init powers B B_eq_dec i) H) as [Hinv ->].
  cbn [app]. split; [reflexivity|]. apply obeys_b_sound. exact (k_checked _ _ _ _ _ _ Hinv).
Qed.

End MonitorProofs.
