(** C01 — agreement at one height from the per-validator obligations (C03) and quorum
    intersection.

    The global history of a height is the chronological list of "validator i signed
    message m" events of ALL validators, faulty ones included (a message that reaches a
    correct node with a valid signature was signed before it was delivered: signatures are
    ideal, C11 proves the content binding).  Arbitrary delay, loss, duplication and
    reordering of deliveries, arbitrary timeouts and arbitrary behaviour of the faulty
    validators (equivocation, withholding, amnesia) are all covered, because nothing is
    assumed about the trace except that each NON-faulty validator's own signing events
    satisfy the obligations that C03 proves for the single-node model and checks on the
    real ConsensusState. *)
From Coq Require Import List ZArith Arith Bool Lia.
From Kardia Require Import C01.Power.
Import ListNotations.
Local Open Scope Z_scope.

Section Agreement.
Variable powers : list Z.
Hypothesis powers_nonneg : Forall (fun p => 0 <= p) powers.
Variable B : Type.                         (* block ids *)
Variable B_eq_dec : forall x y : B, {x = y} + {x <> y}.
Variable faulty : nat -> bool.
Hypothesis few_faulty : 3 * pw powers faulty < total powers.

Notation n := (Power.n powers).
Notation total := (Power.total powers).
Notation pw := (Power.pw powers).

Inductive msg :=
| Prevote (r : nat) (x : option B)
| Precommit (r : nat) (x : option B).

Definition event : Type := nat * msg.       (* validator index, message it signed *)
Definition trace : Type := list event.      (* chronological, earliest first *)

Definition opt_eqb (x y : option B) : bool :=
  match x, y with
  | None, None => true
  | Some a, Some b => if B_eq_dec a b then true else false
  | _, _ => false
  end.
Definition msg_eqb (a b : msg) : bool :=
  match a, b with
  | Prevote r x, Prevote r' y => Nat.eqb r r' && opt_eqb x y
  | Precommit r x, Precommit r' y => Nat.eqb r r' && opt_eqb x y
  | _, _ => false
  end.

Lemma opt_eqb_eq x y : opt_eqb x y = true <-> x = y.
Proof.
  destruct x as [a|], y as [b|]; simpl; try (split; [discriminate|discriminate]); try tauto.
  - destruct (B_eq_dec a b) as [->|Hne]; split; auto; try discriminate. intros H; inversion H; contradiction.
Qed.
Lemma msg_eqb_eq a b : msg_eqb a b = true <-> a = b.
Proof.
  destruct a as [r x|r x], b as [r' y|r' y]; simpl; try (split; discriminate);
    rewrite andb_true_iff, Nat.eqb_eq, opt_eqb_eq; split;
      try (intros [-> ->]; reflexivity); intros H; inversion H; auto.
Qed.

(** validator i signed m somewhere in tr *)
Definition signed (tr : trace) (m : msg) (i : nat) : bool :=
  existsb (fun e => Nat.eqb (fst e) i && msg_eqb (snd e) m) tr.

Lemma signed_In tr m i : signed tr m i = true <-> In (i, m) tr.
Proof.
  unfold signed. rewrite existsb_exists. split.
  - intros [[j m'] [Hin H]]. simpl in H. rewrite andb_true_iff, Nat.eqb_eq, msg_eqb_eq in H.
    destruct H as [-> ->]. assumption.
  - intros H. exists (i, m). split; [assumption|]. simpl.
    rewrite Nat.eqb_refl. simpl. apply msg_eqb_eq. reflexivity.
Qed.

Lemma signed_app tr tr' m i : signed tr m i = true -> signed (tr ++ tr') m i = true.
Proof. rewrite !signed_In, in_app_iff. auto. Qed.

(** +2/3 of the voting power (distinct validators) signed a prevote for x in round r *)
Definition polka (tr : trace) (r : nat) (x : option B) : Prop :=
  2 * total < 3 * pw (signed tr (Prevote r x)).
(** +2/3 signed a precommit for block b in the single round r: what a correct node requires
    before it commits b (C03_commit_needs_quorum) *)
Definition commit_quorum (tr : trace) (r : nat) (b : B) : Prop :=
  2 * total < 3 * pw (signed tr (Precommit r (Some b))).

(** The obligations of a non-faulty validator i, stated on its own signing events within
    the global trace.  They are the C03 theorems read on the signature log. *)
Record obeys (tr : trace) (i : nat) : Prop := {
  ob_one_precommit : forall r x y,
      In (i, Precommit r x) tr -> In (i, Precommit r y) tr -> x = y;
  ob_precommit_polka : forall p rest r b,
      tr = p ++ (i, Precommit r (Some b)) :: rest -> polka p r (Some b);
  ob_lock : forall p1 p2 rest r r' b x,
      tr = p1 ++ (i, Precommit r (Some b)) :: p2 ++ (i, Prevote r' x) :: rest ->
      (r < r')%nat -> x <> Some b ->
      exists r'' y, (r < r'' <= r')%nat /\ y <> Some b /\
                    polka (p1 ++ (i, Precommit r (Some b)) :: p2) r'' y;
  ob_monotone : forall p rest r r' x y,
      tr = p ++ (i, Prevote r' x) :: rest -> In (i, Precommit r y) rest -> (r' <= r)%nat
}.

Definition all_correct_obey (tr : trace) : Prop :=
  forall i, (i < n)%nat -> faulty i = false -> obeys tr i.

Section Locked.
Variable tr : trace.
Hypothesis Hobey : all_correct_obey tr.
Variables (r : nat) (b : B).
Hypothesis Hcommit : commit_quorum tr r b.

(** the correct validators (members of the set) that precommitted b in round r *)
Definition lockers (i : nat) : bool :=
  Nat.ltb i n && (signed tr (Precommit r (Some b)) i && negb (faulty i)).

Lemma lockers_third : total < 3 * pw lockers.
Proof.
  assert (H : pw lockers = pw (fun i => signed tr (Precommit r (Some b)) i && negb (faulty i))).
  { unfold Power.pw. apply pw_upto_ext. intros i Hi. unfold lockers.
    apply Nat.ltb_lt in Hi. unfold Power.n in *. rewrite Hi. reflexivity. }
  rewrite H. apply correct_part_third; assumption.
Qed.

(** a later-round prevote for anything but b by one of them *)
Definition bad (e : event) : Prop :=
  exists r' x, snd e = Prevote r' x /\ lockers (fst e) = true /\ (r < r')%nat /\ x <> Some b.

(** Decision locks: no member of [lockers] ever signs a prevote for another value in a later
    round — by taking the earliest offender. *)
Lemma decision_locks_upto k :
  forall p e rest, tr = p ++ e :: rest -> (length p <= k)%nat -> ~ bad e.
Proof.
  induction k as [k IH] using lt_wf_ind. intros p e rest Htr Hlen [r' [x [He [HC [Hr Hx]]]]].
  destruct e as [i m]. cbn [fst snd] in *. subst m.
  unfold lockers in HC. rewrite !andb_true_iff, negb_true_iff, Nat.ltb_lt in HC.
  destruct HC as [Hi [Hs Hf]].
  pose proof (Hobey i Hi Hf) as Hob.
  apply signed_In in Hs.
  (* where is i's precommit for b at r: before or after this prevote? *)
  rewrite Htr in Hs. apply in_app_or in Hs. destruct Hs as [Hs|Hs].
  - (* before: the lock rule gives an earlier polka for another value in (r, r'] *)
    apply in_split in Hs. destruct Hs as [p1 [p2 Hp]].
    assert (Htr' : tr = p1 ++ (i, Precommit r (Some b)) :: p2 ++ (i, Prevote r' x) :: rest).
    { rewrite Htr, Hp. rewrite <- app_assoc. reflexivity. }
    destruct (ob_lock tr i Hob p1 p2 rest r r' b x Htr' Hr Hx) as [r'' [y [Hr'' [Hy Hpolka]]]].
    assert (Hpolka' : polka p r'' y) by (rewrite Hp; exact Hpolka). clear Hpolka. rename Hpolka' into Hpolka.
    (* the polka's signers meet the lockers *)
    destruct (two_thirds_meets_third powers powers_nonneg _ _ Hpolka lockers_third) as [j [Hj [HjP HjC]]].
    apply signed_In in HjP. apply in_split in HjP. destruct HjP as [q1 [q2 Hq]].
    apply (IH (length q1)) with (p := q1) (e := (j, Prevote r'' y)) (rest := q2 ++ (i, Prevote r' x) :: rest).
    + rewrite Hq, app_length in Hlen. simpl in Hlen. lia.
    + rewrite Htr, Hq, <- app_assoc. reflexivity.
    + apply le_n.
    + exists r'', y. simpl. repeat split; auto; lia.
  - (* after (or the event itself): contradicts round monotonicity *)
    simpl in Hs. destruct Hs as [Hs|Hs]; [inversion Hs|].
    pose proof (ob_monotone tr i Hob p rest r r' x (Some b) Htr Hs). lia.
Qed.

Lemma decision_locks i r' x :
  In (i, Prevote r' x) tr -> lockers i = true -> (r < r')%nat -> x = Some b.
Proof.
  intros Hin HC Hr. destruct (opt_eqb x (Some b)) eqn:E; [apply opt_eqb_eq; exact E|exfalso].
  apply in_split in Hin. destruct Hin as [p [rest Htr]].
  apply (decision_locks_upto (length p) p (i, Prevote r' x) rest Htr (le_n _)).
  exists r', x. simpl. repeat split; auto.
  intros ->. assert (opt_eqb (Some b) (Some b) = true) by (apply opt_eqb_eq; reflexivity). congruence.
Qed.

(** hence no +2/3 prevotes for another value in any later round *)
Lemma no_later_polka r' y : (r < r')%nat -> y <> Some b -> forall p, (exists rest, tr = p ++ rest) -> ~ polka p r' y.
Proof.
  intros Hr Hy p [rest Htr] Hpolka.
  destruct (two_thirds_meets_third powers powers_nonneg _ _ Hpolka lockers_third) as [j [Hj [HjP HjC]]].
  apply Hy. apply (decision_locks j r' y); auto.
  apply signed_In in HjP. rewrite Htr. apply in_or_app. left. exact HjP.
Qed.

End Locked.

(** a set above two thirds contains a non-faulty member *)
Lemma quorum_has_correct X : 2 * total < 3 * pw X -> exists i, (i < n)%nat /\ X i = true /\ faulty i = false.
Proof.
  intros H. destruct (quorum_intersection powers powers_nonneg X X faulty H H few_faulty) as [i [Hi [Hx [_ Hf]]]].
  exists i; auto.
Qed.

Lemma agreement_le tr r r' b b' :
  all_correct_obey tr -> (r <= r')%nat ->
  commit_quorum tr r b -> commit_quorum tr r' b' -> b = b'.
Proof.
  intros Hobey Hle Hc Hc'.
  destruct (Nat.eq_dec r r') as [->|Hne].
  - (* same round: the two quorums share a correct validator, which precommits once per round *)
    destruct (quorum_intersection powers powers_nonneg _ _ faulty Hc Hc' few_faulty) as [i [Hi [H1 [H2 Hf]]]].
    apply signed_In in H1. apply signed_In in H2.
    pose proof (ob_one_precommit tr i (Hobey i Hi Hf) r' (Some b) (Some b') H1 H2) as E. inversion E; reflexivity.
  - (* later round: a correct precommitter of b' needs a polka for b' in round r' *)
    assert (Hr : (r < r')%nat) by lia.
    destruct (quorum_has_correct _ Hc') as [j [Hj [Hs Hf]]].
    apply signed_In in Hs. apply in_split in Hs. destruct Hs as [p [rest Htr]].
    pose proof (ob_precommit_polka tr j (Hobey j Hj Hf) p rest r' b' Htr) as Hpolka.
    destruct (B_eq_dec b b') as [E|E]; [exact E|exfalso].
    apply (no_later_polka tr Hobey r b Hc r' (Some b') Hr) with (p := p); auto.
    + intros H; inversion H; auto.
    + exists ((j, Precommit r' (Some b')) :: rest). exact Htr.
Qed.

(** AGREEMENT: if less than one third of the voting power is faulty and every non-faulty
    validator obeys its obligations, any two blocks that gathered +2/3 precommits (in any
    rounds of the height) — the only way a correct node commits — are the same block. *)
Theorem agreement tr r r' b b' :
  all_correct_obey tr -> commit_quorum tr r b -> commit_quorum tr r' b' -> b = b'.
Proof.
  intros Hobey Hc Hc'. destruct (le_ge_dec r r') as [H|H].
  - eapply agreement_le; eauto.
  - symmetry. eapply agreement_le; eauto.
Qed.

End Agreement.
