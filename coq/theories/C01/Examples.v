(** C01 — non-vacuity: concrete histories that satisfy the hypotheses of the agreement theorem,
    and a concrete equivocation history in which the faulty validator is caught by the checker. *)
From Coq Require Import List ZArith Arith Bool Lia.
From Kardia Require Import C01.Power C01.Agreement C01.Checker.
Import ListNotations.
Local Open Scope Z_scope.

Definition ex_powers : list Z := [1; 1; 1; 1].
Definition ex_faulty (i : nat) : bool := Nat.eqb i 3.

(** round 1: validators 0,1,2 prevote and precommit block 7; the faulty validator 3 equivocates
    (prevotes 7 and 8, precommits 8); round 2: 0 prevotes 7 again (locked), 3 prevotes 9 *)
Definition ex_trace : trace nat :=
  [ (0%nat, Prevote nat 1 (Some 7%nat)); (1%nat, Prevote nat 1 (Some 7%nat)); (3%nat, Prevote nat 1 (Some 8%nat));
    (2%nat, Prevote nat 1 (Some 7%nat)); (3%nat, Prevote nat 1 (Some 7%nat));
    (0%nat, Precommit nat 1 (Some 7%nat)); (3%nat, Precommit nat 1 (Some 8%nat));
    (1%nat, Precommit nat 1 (Some 7%nat)); (2%nat, Precommit nat 1 (Some 7%nat));
    (0%nat, Prevote nat 2 (Some 7%nat)); (3%nat, Prevote nat 2 (Some 9%nat)) ].

Example ex_few_faulty : 3 * pw ex_powers ex_faulty < total ex_powers.
Proof. vm_compute. reflexivity. Qed.

Example ex_all_obey : all_correct_obey ex_powers nat Nat.eq_dec ex_faulty ex_trace.
Proof. apply all_obey_b_sound. vm_compute. reflexivity. Qed.

Example ex_commit : commit_quorum ex_powers nat Nat.eq_dec ex_trace 1 7%nat.
Proof. apply commit_quorum_b_spec. vm_compute. reflexivity. Qed.

(** the checker is not trivially true: the equivocator fails it, and so would validator 0 had it
    prevoted another block in round 2 without a polka *)
Example ex_faulty_caught : obeys_b ex_powers nat Nat.eq_dec ex_trace 3 = false.
Proof. vm_compute. reflexivity. Qed.
Example ex_amnesia_caught :
  obeys_b ex_powers nat Nat.eq_dec (ex_trace ++ [(1%nat, Prevote nat 2 (Some 9%nat))]) 1 = false.
Proof. vm_compute. reflexivity. Qed.
