(** C01 — property theorems only. *)
From Coq Require Import List ZArith Arith Bool.
From Kardia Require Import C01.Power C01.Agreement C01.Chain C01.Checker C01.Examples C01.Sync C01.SyncProofs C01.Lock C01.LockProofs C01.Monitor C01.MonitorProofs.
Local Open Scope Z_scope.

(** Quorum intersection for arbitrary voting-power distributions. *)
Theorem C01_quorum_intersection :
  forall powers, Forall (fun p => 0 <= p) powers ->
  forall A B F : nat -> bool,
    2 * total powers < 3 * pw powers A -> 2 * total powers < 3 * pw powers B ->
    3 * pw powers F < total powers ->
    exists i, (i < Power.n powers)%nat /\ A i = true /\ B i = true /\ F i = false.
Proof. exact quorum_intersection. Qed.
Print Assumptions C01_quorum_intersection.

(** Agreement at a height: with less than one third of the power faulty and every non-faulty
    validator obeying the C03 obligations on its own signatures, for EVERY global signing history
    (any delivery order, loss, duplication, timeouts, any Byzantine behaviour) two blocks with
    +2/3 precommits in single rounds are equal. *)
Theorem C01_agreement :
  forall powers, Forall (fun p => 0 <= p) powers ->
  forall (B : Type) (B_eq_dec : forall x y : B, {x = y} + {x <> y}) (faulty : nat -> bool),
    3 * pw powers faulty < total powers ->
    forall (tr : trace B) r r' b b',
      all_correct_obey powers B B_eq_dec faulty tr ->
      commit_quorum powers B B_eq_dec tr r b -> commit_quorum powers B B_eq_dec tr r' b' -> b = b'.
Proof. exact agreement. Qed.
Print Assumptions C01_agreement.

(** Chains, validator-set changes and block sync: any two chains all of whose blocks were decided
    by +2/3 of the set that the committed prefix entitles (what consensus commits, and what block
    sync adopts after VerifyCommit) never fork. *)
Theorem C01_no_fork :
  forall (B : Type) (B_eq_dec : forall x y : B, {x = y} + {x <> y})
         (powers_of : list B -> list Z) (faulty_of : list B -> nat -> bool) (trace_of : list B -> trace B),
    (forall c, Forall (fun p => 0 <= p) (powers_of c)) ->
    (forall c, 3 * pw (powers_of c) (faulty_of c) < total (powers_of c)) ->
    (forall c, all_correct_obey (powers_of c) B B_eq_dec (faulty_of c) (trace_of c)) ->
    forall c1 c2,
      justified B B_eq_dec powers_of trace_of c1 -> justified B B_eq_dec powers_of trace_of c2 ->
      c1 = firstn (length c1) c2 \/ c2 = firstn (length c2) c1.
Proof. exact no_fork. Qed.
Print Assumptions C01_no_fork.

Theorem C01_same_height_same_block :
  forall (B : Type) (B_eq_dec : forall x y : B, {x = y} + {x <> y})
         (powers_of : list B -> list Z) (faulty_of : list B -> nat -> bool) (trace_of : list B -> trace B),
    (forall c, Forall (fun p => 0 <= p) (powers_of c)) ->
    (forall c, 3 * pw (powers_of c) (faulty_of c) < total (powers_of c)) ->
    (forall c, all_correct_obey (powers_of c) B B_eq_dec (faulty_of c) (trace_of c)) ->
    forall c1 c2 h b1 b2,
      justified B B_eq_dec powers_of trace_of c1 -> justified B B_eq_dec powers_of trace_of c2 ->
      nth_error c1 h = Some b1 -> nth_error c2 h = Some b2 -> b1 = b2.
Proof. exact same_height_same_block. Qed.
Print Assumptions C01_same_height_same_block.

(** The executable obligations checker (run on the signature logs of real nodes by the
    correspondence check) implies the hypotheses of the agreement theorem. *)
Theorem C01_checker_sound :
  forall powers (B : Type) (B_eq_dec : forall x y : B, {x = y} + {x <> y}) faulty (tr : trace B),
    all_obey_b powers B B_eq_dec faulty tr = true -> all_correct_obey powers B B_eq_dec faulty tr.
Proof. exact all_obey_b_sound. Qed.
Print Assumptions C01_checker_sound.

(** VerifyCommit (model of types/validator_set.go, C01/Sync.v): an accepted commit is for the wanted
    height and block, has one slot per validator, every present slot carries the ADDRESS and the
    signature of the validator OF THAT SLOT (so the tally is over distinct validators, and the block
    time, weighted by the slots' addresses, is weighted by the signers), and the slots that count
    hold more than two thirds of the total power. *)
Theorem C01_verify_commit_sound :
  forall (B : Type) (B_eq_dec : forall x y : B, {x = y} + {x <> y}) powers hw want oc,
    verify_commit B B_eq_dec powers hw want oc = VOk ->
    exists c, oc = Some c /\ c_height B c = hw /\ c_block B c = want /\
              length (c_slots B c) = length powers /\
              (forall i, (i < length powers)%nat -> s_flag (nth i (c_slots B c) absent_slot) <> FAbsent ->
                         s_addr (nth i (c_slots B c) absent_slot) = Some i /\
                         s_signer (nth i (c_slots B c) absent_slot) = Some i) /\
              2 * total powers < 3 * pw powers (counted B want (c_slots B c)).
Proof. exact verify_commit_sound. Qed.
Print Assumptions C01_verify_commit_sound.

(** With ideal signatures an accepted commit for block b of the height after prefix ch is a +2/3
    precommit quorum of that height's signing history. *)
Theorem C01_verify_commit_decides :
  forall (B : Type) (B_eq_dec : forall x y : B, {x = y} + {x <> y}) (trace_of : list B -> trace B) powers ch b oc,
    Forall (fun p => 0 <= p) powers ->
    (forall c, oc = Some c -> commit_ideal B trace_of c) ->
    verify_commit B B_eq_dec powers (S (length ch)) (Some b) oc = VOk ->
    exists r, commit_quorum powers B B_eq_dec (trace_of ch) r b.
Proof. exact verify_commit_decides. Qed.
Print Assumptions C01_verify_commit_decides.

(** Block sync (model of blockchain/processor.go pcState.handle): whatever blocks, from whatever
    peers, in whatever order, with whatever (forged) commits the processor is offered, peer errors and
    all, the chain it has adopted is justified: every block in it gathered +2/3 precommits of the
    validators entitled by the prefix. *)
Theorem C01_blocksync_justified :
  forall (B : Type) (B_eq_dec : forall x y : B, {x = y} + {x <> y})
         (trace_of : list B -> trace B) (powers_of : list B -> list Z) (apply_ok : list B -> blk B -> bool),
    (forall c, Forall (fun p => 0 <= p) (powers_of c)) ->
    forall evs, Forall (ev_ideal B trace_of) evs ->
      justified B B_eq_dec powers_of trace_of
        (p_chain B (p_run B B_eq_dec powers_of apply_ok (p_init B) evs)).
Proof. exact blocksync_justified. Qed.
Print Assumptions C01_blocksync_justified.

(** ... hence a node that catches up by block sync holds, at every height it has, the block that
    consensus decided there (any justified chain, in particular a correct node's committed chain). *)
Theorem C01_blocksync_same_block :
  forall (B : Type) (B_eq_dec : forall x y : B, {x = y} + {x <> y})
         (trace_of : list B -> trace B) (powers_of : list B -> list Z) (apply_ok : list B -> blk B -> bool),
    (forall c, Forall (fun p => 0 <= p) (powers_of c)) ->
    forall faulty_of : list B -> nat -> bool,
    (forall c, 3 * pw (powers_of c) (faulty_of c) < total (powers_of c)) ->
    (forall c, all_correct_obey (powers_of c) B B_eq_dec (faulty_of c) (trace_of c)) ->
    forall evs c2 h b1 b2,
      Forall (ev_ideal B trace_of) evs -> justified B B_eq_dec powers_of trace_of c2 ->
      nth_error (p_chain B (p_run B B_eq_dec powers_of apply_ok (p_init B) evs)) h = Some b1 ->
      nth_error c2 h = Some b2 -> b1 = b2.
Proof. exact blocksync_same_block. Qed.
Print Assumptions C01_blocksync_same_block.

(** The lock discipline (model C01/Lock.v of the LockedRound/LockedBlock bookkeeping of
    consensus/state.go: lock and RE-LOCK at the current round on a polka, release only by a polka for
    another value in a round in (LockedRound, Round], prevote the locked block) implies the four
    obligations, for every interleaving with arbitrary signing events of all other validators. *)
Theorem C01_lock_discipline_obeys :
  forall powers, Forall (fun p => 0 <= p) powers ->
  forall (B : Type) (B_eq_dec : forall x y : B, {x = y} + {x <> y}) (i : nat) acts st tr,
    lrun powers B B_eq_dec i (l_init B) nil acts = Some (st, tr) -> obeys powers B B_eq_dec tr i.
Proof. exact lock_discipline_obeys. Qed.
Print Assumptions C01_lock_discipline_obeys.

(** A held lock is the lock of the validator's last precommit for a block (or the later precommit
    was already released by a polka): what the lock-state oracle checks on the real nodes. *)
Theorem C01_lock_is_last_precommit :
  forall powers, Forall (fun p => 0 <= p) powers ->
  forall (B : Type) (B_eq_dec : forall x y : B, {x = y} + {x <> y}) (i : nat) acts st tr b lr,
    lrun powers B B_eq_dec i (l_init B) nil acts = Some (st, tr) -> l_locked B st = Some (b, lr) ->
    forall b' r, In (i, Precommit B r (Some b')) tr ->
      (r <= lr)%nat \/ release powers B B_eq_dec tr r (l_round B st) b' = true.
Proof. exact lock_is_last_precommit. Qed.
Print Assumptions C01_lock_is_last_precommit.

(** The monitor run by the correspondence check (C01/Monitor.v, extracted: the lock automaton replayed
    on a validator's events inside the recorded global trace) is sound: a trace it accepts satisfies
    that validator's obligations. *)
Theorem C01_monitor_sound :
  forall powers, Forall (fun p => 0 <= p) powers ->
  forall (B : Type) (B_eq_dec : forall x y : B, {x = y} + {x <> y}) (i : nat) (tr : trace B) st tr',
    monitor powers B B_eq_dec i tr = Some (st, tr') -> tr' = tr /\ obeys powers B B_eq_dec tr i.
Proof. exact monitor_sound. Qed.
Print Assumptions C01_monitor_sound.

(** Source tie: the tests of verify_commit / vc_loop (size, height, block id, absent, address,
    signature, tally, got <= needed), of the processor model (block height vs. state height, synced)
    and of the lock automaton (the release test of addVote / doPrevote, enterNewRound's and
    enterPrecommit's entry guards) ARE the expressions of types/validator_set.go,
    blockchain/processor.go and consensus/state.go, on the operands named there (Generated/C01Source.v
    is regenerated from /repo by /verif/go2coq on every check; statement spelled out in SourceTie.v). *)
From Kardia Require Import C01.SourceTie.
Theorem C01_source_tie : C01_source_tie_statement.
Proof. exact C01_source_tie_proof. Qed.
Print Assumptions C01_source_tie.

(** The decision-critical functions of the anchored code have exactly the decisions the source tie knows about
    (go2coq manifests, regenerated from /repo on every check; statement in SourceManifest.v). *)
From Kardia Require Import C01.SourceManifest.
Theorem C01_source_manifest : C01_source_manifest_statement.
Proof. exact C01_source_manifest_proof. Qed.
Print Assumptions C01_source_manifest.
