(** C01 — property theorems only. *)
From Coq Require Import List ZArith Arith Bool.
From Kardia Require Import C01.Power C01.Agreement C01.Chain C01.Checker C01.Examples.
Local Open Scope Z_scope.

(** Quorum intersection for arbitrary voting-power distributions. *)
Theorem C01_quorum_intersection :
  forall powers, Forall (fun p => 0 <= p) powers ->
  forall A B F : nat -> bool,
    2 * total powers < 3 * pw powers A -> 2 * total powers < 3 * pw powers B ->
    3 * pw powers F < total powers ->
    exists i, (i < Power.n powers)%nat /\ A i = true /\ B i = true /\ F i = false.
Proof. exact quorum_intersection. Qed.
Print Assumptions C01_quorum_intersection.

(** Agreement at a height: with less than one third of the power faulty and every non-faulty
    validator obeying the C03 obligations on its own signatures, for EVERY global signing history
    (any delivery order, loss, duplication, timeouts, any Byzantine behaviour) two blocks with
    +2/3 precommits in single rounds are equal. *)
Theorem C01_agreement :
  forall powers, Forall (fun p => 0 <= p) powers ->
  forall (B : Type) (B_eq_dec : forall x y : B, {x = y} + {x <> y}) (faulty : nat -> bool),
    3 * pw powers faulty < total powers ->
    forall (tr : trace B) r r' b b',
      all_correct_obey powers B B_eq_dec faulty tr ->
      commit_quorum powers B B_eq_dec tr r b -> commit_quorum powers B B_eq_dec tr r' b' -> b = b'.
Proof. exact agreement. Qed.
Print Assumptions C01_agreement.

(** Chains, validator-set changes and block sync: any two chains all of whose blocks were decided
    by +2/3 of the set that the committed prefix entitles (what consensus commits, and what block
    sync adopts after VerifyCommit) never fork. *)
Theorem C01_no_fork :
  forall (B : Type) (B_eq_dec : forall x y : B, {x = y} + {x <> y})
         (powers_of : list B -> list Z) (faulty_of : list B -> nat -> bool) (trace_of : list B -> trace B),
    (forall c, Forall (fun p => 0 <= p) (powers_of c)) ->
    (forall c, 3 * pw (powers_of c) (faulty_of c) < total (powers_of c)) ->
    (forall c, all_correct_obey (powers_of c) B B_eq_dec (faulty_of c) (trace_of c)) ->
    forall c1 c2,
      justified B B_eq_dec powers_of trace_of c1 -> justified B B_eq_dec powers_of trace_of c2 ->
      c1 = firstn (length c1) c2 \/ c2 = firstn (length c2) c1.
Proof. exact no_fork. Qed.
Print Assumptions C01_no_fork.

Theorem C01_same_height_same_block :
  forall (B : Type) (B_eq_dec : forall x y : B, {x = y} + {x <> y})
         (powers_of : list B -> list Z) (faulty_of : list B -> nat -> bool) (trace_of : list B -> trace B),
    (forall c, Forall (fun p => 0 <= p) (powers_of c)) ->
    (forall c, 3 * pw (powers_of c) (faulty_of c) < total (powers_of c)) ->
    (forall c, all_correct_obey (powers_of c) B B_eq_dec (faulty_of c) (trace_of c)) ->
    forall c1 c2 h b1 b2,
      justified B B_eq_dec powers_of trace_of c1 -> justified B B_eq_dec powers_of trace_of c2 ->
      nth_error c1 h = Some b1 -> nth_error c2 h = Some b2 -> b1 = b2.
Proof. exact same_height_same_block. Qed.
Print Assumptions C01_same_height_same_block.

(** The executable obligations checker (run on the signature logs of real nodes by the
    correspondence check) implies the hypotheses of the agreement theorem. *)
Theorem C01_checker_sound :
  forall powers (B : Type) (B_eq_dec : forall x y : B, {x = y} + {x <> y}) faulty (tr : trace B),
    all_obey_b powers B B_eq_dec faulty tr = true -> all_correct_obey powers B B_eq_dec faulty tr.
Proof. exact all_obey_b_sound. Qed.
Print Assumptions C01_checker_sound.
