(** C01 — an executable checker for the per-validator obligations of Agreement.v, proved
    sound.  It serves two purposes: (1) non-vacuity — concrete traces satisfy the hypotheses
    of the agreement theorem ([Example]s by [vm_compute]); (2) the correspondence check runs
    the extracted checker on the signature logs of REAL consensus nodes in a simulated
    network, so the hypotheses of the theorem are checked on the implementation's histories. *)
From Coq Require Import List ZArith Arith Bool Lia.
From Kardia Require Import C01.Power C01.Agreement.
Import ListNotations.
Local Open Scope Z_scope.

Section Checker.
Variable powers : list Z.
Variable B : Type.
Variable B_eq_dec : forall x y : B, {x = y} + {x <> y}.

Notation msg := (msg B).
Notation event := (event B).
Notation trace := (trace B).
Notation signed := (signed B B_eq_dec).
Notation opt_eqb := (opt_eqb B B_eq_dec).

Definition polka_b (p : trace) (r : nat) (x : option B) : bool :=
  Z.ltb (2 * total powers) (3 * pw powers (signed p (Prevote B r x))).

Lemma polka_b_spec p r x : polka_b p r x = true <-> polka powers B B_eq_dec p r x.
Proof. unfold polka_b, polka. apply Z.ltb_lt. Qed.

(** the check for event (i, m) given the prefix p of everything signed before it *)
Definition check_event (i : nat) (p : trace) (m : msg) : bool :=
  match m with
  | Precommit _ r x =>
    (* at most one precommit per round *)
    forallb (fun e => match e with
                      | (j, Precommit _ r0 y) => negb (Nat.eqb j i && Nat.eqb r0 r) || opt_eqb y x
                      | _ => true end) p
    (* a precommit for a block needs a polka for it in that round among the messages signed so far *)
    && (match x with Some b => polka_b p r (Some b) | None => true end)
    (* rounds do not go backwards: no own prevote of a later round before it *)
    && forallb (fun e => match e with
                         | (j, Prevote _ r' _) => negb (Nat.eqb j i) || Nat.leb r' r
                         | _ => true end) p
  | Prevote _ r' x =>
    (* lock rule: for each earlier own precommit for a block b <> x in an earlier round there is
       a polka for some y <> b in a round in (r, r'] among the messages signed so far *)
    forallb (fun e => match e with
                      | (j, Precommit _ r (Some b)) =>
                        negb (Nat.eqb j i) || negb (Nat.ltb r r') || opt_eqb x (Some b) ||
                        existsb (fun e' => match e' with
                                           | (_, Prevote _ r'' y) =>
                                             Nat.ltb r r'' && Nat.leb r'' r' && negb (opt_eqb y (Some b))
                                             && polka_b p r'' y
                                           | _ => false end) p
                      | _ => true end) p
  end.

(** walk the trace in order; [p] is the prefix already seen *)
Fixpoint check_trace (i : nat) (p : trace) (todo : trace) : bool :=
  match todo with
  | [] => true
  | (j, m) :: rest =>
    (if Nat.eqb j i then check_event i p m else true) && check_trace i (p ++ [(j, m)]) rest
  end.

Definition obeys_b (tr : trace) (i : nat) : bool := check_trace i [] tr.

Lemma check_trace_spec i : forall todo p, check_trace i p todo = true ->
  forall q m rest, todo = q ++ (i, m) :: rest -> check_event i (p ++ q) m = true.
Proof.
  induction todo as [|[j m0] todo IH]; intros p H q m rest E.
  - destruct q; discriminate.
  - cbn [check_trace] in H. apply andb_true_iff in H. destruct H as [H1 H2].
    destruct q as [|e q].
    + simpl in E. inversion E; subst. rewrite Nat.eqb_refl in H1. rewrite app_nil_r. exact H1.
    + simpl in E. inversion E; subst.
      specialize (IH _ H2 q m rest eq_refl). rewrite <- app_assoc in IH. exact IH.
Qed.

Lemma opt_eqb_true x y : opt_eqb x y = true <-> x = y.
Proof. apply opt_eqb_eq. Qed.

Theorem obeys_b_sound tr i : obeys_b tr i = true -> obeys powers B B_eq_dec tr i.
Proof.
  intros H. unfold obeys_b in H.
  assert (Hev : forall q m rest, tr = q ++ (i, m) :: rest -> check_event i q m = true).
  { intros q m rest E. exact (check_trace_spec i tr [] H q m rest E). }
  constructor.
  - (* one precommit per round *)
    intros r x y Hx Hy.
    (* order the two occurrences *)
    assert (Hgen : forall x y, In (i, Precommit B r x) tr -> In (i, Precommit B r y) tr ->
                               forall q rest, tr = q ++ (i, Precommit B r y) :: rest -> In (i, Precommit B r x) q -> x = y).
    { intros x0 y0 _ _ q rest E Hin. pose proof (Hev q _ rest E) as Hc. cbn [check_event] in Hc.
      rewrite !andb_true_iff in Hc. destruct Hc as [[Hc _] _].
      rewrite forallb_forall in Hc. specialize (Hc _ Hin). cbn -[Nat.ltb Nat.leb polka_b] in Hc.
      rewrite !Nat.eqb_refl in Hc. cbn -[Nat.ltb Nat.leb polka_b] in Hc. apply opt_eqb_true in Hc. exact Hc. }
    apply in_split in Hy. destruct Hy as [q [rest E]].
    pose proof Hx as Hx'. rewrite E in Hx'. apply in_app_or in Hx'. destruct Hx' as [Hq|Hq].
    + eapply Hgen; eauto. rewrite E. apply in_or_app. right. left. reflexivity.
    + simpl in Hq. destruct Hq as [Hq|Hq]; [inversion Hq; reflexivity|].
      (* x occurs after y: swap roles *)
      apply in_split in Hq. destruct Hq as [q2 [rest2 E2]].
      symmetry. eapply (Hgen y x) with (q := q ++ (i, Precommit B r y) :: q2) (rest := rest2); eauto.
      * rewrite E. apply in_or_app. right. left. reflexivity.
      * rewrite E, E2. rewrite <- app_assoc. reflexivity.
      * apply in_or_app. right. left. reflexivity.
  - (* precommit needs polka *)
    intros p rest r b E. pose proof (Hev p _ rest E) as Hc. cbn [check_event] in Hc.
    rewrite !andb_true_iff in Hc. destruct Hc as [[_ Hc] _]. apply polka_b_spec. exact Hc.
  - (* lock rule *)
    intros p1 p2 rest r r' b x E Hr Hx.
    assert (E' : tr = (p1 ++ (i, Precommit B r (Some b)) :: p2) ++ (i, Prevote B r' x) :: rest).
    { rewrite E. rewrite <- app_assoc. reflexivity. }
    pose proof (Hev _ _ rest E') as Hc. cbn [check_event] in Hc.
    rewrite forallb_forall in Hc.
    assert (Hin : In (i, Precommit B r (Some b)) (p1 ++ (i, Precommit B r (Some b)) :: p2)).
    { apply in_or_app. right. left. reflexivity. }
    specialize (Hc _ Hin). cbn -[Nat.ltb Nat.leb polka_b] in Hc. rewrite Nat.eqb_refl in Hc. cbn -[Nat.ltb Nat.leb polka_b] in Hc.
    assert (Hlt : Nat.ltb r r' = true) by (apply Nat.ltb_lt; exact Hr). rewrite Hlt in Hc. cbn -[Nat.ltb Nat.leb polka_b] in Hc.
    apply orb_true_iff in Hc. destruct Hc as [Hc|Hc].
    + apply opt_eqb_true in Hc. contradiction.
    + apply existsb_exists in Hc. destruct Hc as [[j m'] [_ Hm]].
      destruct m' as [r'' y|]; [|discriminate].
      rewrite !andb_true_iff, Nat.ltb_lt, Nat.leb_le, negb_true_iff in Hm.
      destruct Hm as [[[H1 H2] H3] H4].
      exists r'', y. split; [lia|]. split.
      * intros Ey. rewrite Ey in H3. assert (opt_eqb (Some b) (Some b) = true) by (apply opt_eqb_true; reflexivity). congruence.
      * apply polka_b_spec. exact H4.
  - (* monotone *)
    intros p rest r r' x y E Hin.
    apply in_split in Hin. destruct Hin as [q2 [rest2 E2]].
    assert (E' : tr = (p ++ (i, Prevote B r' x) :: q2) ++ (i, Precommit B r y) :: rest2).
    { rewrite E, E2. rewrite <- app_assoc. reflexivity. }
    pose proof (Hev _ _ rest2 E') as Hc. cbn [check_event] in Hc.
    rewrite !andb_true_iff in Hc. destruct Hc as [_ Hc].
    rewrite forallb_forall in Hc.
    assert (Hin : In (i, Prevote B r' x) (p ++ (i, Prevote B r' x) :: q2)).
    { apply in_or_app. right. left. reflexivity. }
    specialize (Hc _ Hin). cbn -[Nat.ltb Nat.leb polka_b] in Hc. rewrite Nat.eqb_refl in Hc. cbn -[Nat.ltb Nat.leb polka_b] in Hc.
    apply Nat.leb_le. exact Hc.
Qed.

(** all non-faulty members pass the check *)
Definition all_obey_b (faulty : nat -> bool) (tr : trace) : bool :=
  forallb (fun i => faulty i || obeys_b tr i) (seq 0 (length powers)).

Theorem all_obey_b_sound faulty tr :
  all_obey_b faulty tr = true -> all_correct_obey powers B B_eq_dec faulty tr.
Proof.
  unfold all_obey_b, all_correct_obey. rewrite forallb_forall. intros H i Hi Hf.
  apply obeys_b_sound. specialize (H i). rewrite Hf in H. simpl in H. apply H.
  apply in_seq. unfold Power.n in Hi. lia.
Qed.

Definition commit_quorum_b (tr : trace) (r : nat) (b : B) : bool :=
  Z.ltb (2 * total powers) (3 * pw powers (signed tr (Precommit B r (Some b)))).
Lemma commit_quorum_b_spec tr r b : commit_quorum_b tr r b = true <-> commit_quorum powers B B_eq_dec tr r b.
Proof. unfold commit_quorum_b, commit_quorum. apply Z.ltb_lt. Qed.

End Checker.
