(** C01 — tie of the models' guards to the Go SOURCE.
    [Generated/C01Source.v] is produced on every check by /verif/go2coq from /repo's working tree:
    every guard / integer expression of ValidatorSet.VerifyCommit, Commit.ValidateBasic,
    CommitSig.ValidateBasic / Absent / ForBlock (types), pcState.handle / synced (blockchain) and
    ConsensusState.enterPrecommit / addVote / doPrevote / enterNewRound / enterPrevote (consensus), as
    Gallina over [Z] with their operands named ([_atoms]).  The lemmas below say that
      - [verify_commit] / [vc_loop] / [commit_basic] / [slot_basic] of C01/Sync.v are built from exactly
        these tests, in this order, on these operands (whole-function restatements [src_verify_commit],
        [src_vc_step]);
      - [p_handle]'s height test and [EvFinished]'s queue test are the source's;
      - the release test of C01/Lock.v ([release], used by [AUnlock] and by the checker's lock rule) IS
        addVote's `LockedBlock != nil && LockedRound < vote.Round && vote.Round <= cs.Round &&
        !LockedBlock.HashesTo(..)` on (lock round, polka round, current round), doPrevote's scan bound
        is the same lower bound, [ANewRound] is accepted exactly when enterNewRound is not refused, and
        a second precommit in a round is refused exactly as enterPrecommit refuses it.
    An edit of the Go source that changes one of these comparisons, constants, operands or their order
    changes the generated file and re-opens these obligations. *)
From Coq Require Import List ZArith NArith Arith Bool Lia String.
From Kardia Require Import Base.Int64 Base.GoSem.
From Kardia Require Import Generated.C01Source.
From Kardia Require Import C01.Power C01.Agreement C01.Checker C01.Sync C01.Lock C01.Run.
Import ListNotations.
Local Open Scope Z_scope.

(** nat comparisons of the models vs. Z comparisons of the translation *)
Lemma ltb_nat_Z a b : Nat.ltb a b = Z.ltb (Z.of_nat a) (Z.of_nat b).
Proof. destruct (Nat.ltb_spec a b); destruct (Z.ltb_spec (Z.of_nat a) (Z.of_nat b)); try reflexivity; lia. Qed.
Lemma leb_nat_Z a b : Nat.leb a b = Z.leb (Z.of_nat a) (Z.of_nat b).
Proof. destruct (Nat.leb_spec a b); destruct (Z.leb_spec (Z.of_nat a) (Z.of_nat b)); try reflexivity; lia. Qed.
Lemma eqb_nat_Z a b : Nat.eqb a b = Z.eqb (Z.of_nat a) (Z.of_nat b).
Proof. destruct (Nat.eqb_spec a b); destruct (Z.eqb_spec (Z.of_nat a) (Z.of_nat b)); try reflexivity; lia. Qed.

Lemma existsb_ext {A} (f g : A -> bool) l : (forall x, f x = g x) -> existsb f l = existsb g l.
Proof. intros H. induction l as [|x l IH]; cbn [existsb]; [reflexivity|]. rewrite H, IH. reflexivity. Qed.

(** ** VerifyCommit (types/validator_set.go) *)

(** the BlockIDFlag byte of a slot *)
Definition flag_byte (f : flag) : Z := match f with FAbsent => 1 | FCommit => 2 | FNil => 3 | FUnknown => 0 end.

Lemma src_absent f :
  types__CommitSig_Absent__ret_cs_BlockIDFlag_eq_BlockIDFlagAbsent (flag_byte f) = match f with FAbsent => true | _ => false end.
Proof. destruct f; reflexivity. Qed.
Lemma src_for_block f :
  types__CommitSig_ForBlock__ret_cs_BlockIDFlag_eq_BlockIDFlagCommit (flag_byte f) = match f with FCommit => true | _ => false end.
Proof. destruct f; reflexivity. Qed.
(** the driver's decoding of the flag token is the same byte *)
Lemma src_flag_decoding f a ad t e sg :
  (f <= 3)%nat -> flag_byte (s_flag (mk_slot f a ad t e sg)) = Z.of_nat f.
Proof. intros H. destruct f as [|[|[|[|f]]]]; cbn; try reflexivity; lia. Qed.

Lemma src_needed t :
  0 <= t <= types__MaxTotalVotingPower -> t * 2 / 3 = types__ValidatorSet_VerifyCommit__set_votingPowerNeeded t.
Proof.
  intros H. unfold types__ValidatorSet_VerifyCommit__set_votingPowerNeeded, types__MaxTotalVotingPower in *.
  gosem_unfold. rewrite (wrap_id I64 (t * 2)) by (unfold in_range; lia).
  rewrite Z.quot_div_nonneg by lia.
  assert (0 <= t * 2 / 3 <= t * 2) by (split; [apply Z.div_pos; lia|apply Z.div_le_upper_bound; lia]).
  rewrite wrap_id; [reflexivity|unfold in_range; lia].
Qed.
Lemma src_needed_atoms :
  types__ValidatorSet_VerifyCommit__set_votingPowerNeeded_atoms = ["vs.TotalVotingPower() : int64"]%string.
Proof. reflexivity. Qed.

Lemma src_tally_add acc p :
  0 <= acc -> 0 <= p -> acc + p <= types__MaxTotalVotingPower ->
  acc + p = types__ValidatorSet_VerifyCommit__set_talliedVotingPower_op acc p.
Proof.
  intros Ha Hp H. unfold types__ValidatorSet_VerifyCommit__set_talliedVotingPower_op, types__MaxTotalVotingPower in *.
  gosem_unfold. rewrite wrap_id; [reflexivity|unfold in_range; lia].
Qed.
Lemma src_tally_add_atoms :
  types__ValidatorSet_VerifyCommit__set_talliedVotingPower_op_atoms = ["talliedVotingPower : int64"; "val.VotingPower : int64"]%string.
Proof. reflexivity. Qed.

Section Tie.
Variable B : Type.
Variable B_eq_dec : forall x y : B, {x = y} + {x <> y}.

(** the whole of [verify_commit], restated with the source's tests in the source's order *)
Lemma src_verify_commit powers hw want (c : commit B) :
  verify_commit B B_eq_dec powers hw want (Some c) =
  if negb (commit_basic B c) then VBasic
  else if types__ValidatorSet_VerifyCommit__if_vs_Size_ne_len_commit_Signatures
            (Z.of_nat (List.length powers)) (Z.of_nat (List.length (c_slots B c))) then VSize
  else if types__ValidatorSet_VerifyCommit__if_height_ne_commit_GetHeight (Z.of_nat hw) (Z.of_nat (c_height B c)) then VHeight
  else if types__ValidatorSet_VerifyCommit__if_not_blockID_Equal_commit_BlockID (bid_eqb B B_eq_dec want (c_block B c)) then VBlock
  else match vc_loop B powers want (c_slots B c) (List.length (c_slots B c)) with
       | inr (EAddr i) => VAddr i
       | inr (ESig i) => VSig i
       | inl got =>
         if types__ValidatorSet_VerifyCommit__if_got_le_needed got (total powers * 2 / 3)
         then VPower got (total powers * 2 / 3) else VOk
       end.
Proof.
  unfold verify_commit, types__ValidatorSet_VerifyCommit__if_vs_Size_ne_len_commit_Signatures,
    types__ValidatorSet_VerifyCommit__if_height_ne_commit_GetHeight,
    types__ValidatorSet_VerifyCommit__if_not_blockID_Equal_commit_BlockID,
    types__ValidatorSet_VerifyCommit__if_got_le_needed, go_neqb.
  rewrite <- !eqb_nat_Z. reflexivity.
Qed.

(** one iteration of the loop over the slots: absent -> next; address; signature; tally *)
Lemma src_vc_step powers want slots k :
  vc_loop B powers want slots (S k) =
  match vc_loop B powers want slots k with
  | inr e => inr e
  | inl acc =>
    let s := nth k slots absent_slot in
    if types__CommitSig_Absent__ret_cs_BlockIDFlag_eq_BlockIDFlagAbsent (flag_byte (s_flag s)) then inl acc
    else if types__ValidatorSet_VerifyCommit__if_not_commitSig_ValidatorAddress_Equal_val_Address (is_idx (s_addr s) k) then inr (EAddr k)
    else if types__ValidatorSet_VerifyCommit__if_not_VerifySignature_val_Address_crypto_Keccak256_signBytes_c_6727322a (is_idx (s_signer s) k) then inr (ESig k)
    else inl (if slot_counts B want s then acc + power powers k else acc)
  end.
Proof.
  cbn [vc_loop]. destruct (vc_loop B powers want slots k) as [acc|e]; [|reflexivity].
  cbv zeta. rewrite src_absent.
  unfold types__ValidatorSet_VerifyCommit__if_not_commitSig_ValidatorAddress_Equal_val_Address,
    types__ValidatorSet_VerifyCommit__if_not_VerifySignature_val_Address_crypto_Keccak256_signBytes_c_6727322a.
  destruct (s_flag (nth k slots absent_slot)); reflexivity.
Qed.

(** a slot counts when it is for the commit's block (ForBlock), or nil at the zero id *)
Lemma src_slot_counts b s :
  slot_counts B (Some b) s = types__CommitSig_ForBlock__ret_cs_BlockIDFlag_eq_BlockIDFlagCommit (flag_byte (s_flag s)).
Proof. unfold slot_counts. rewrite src_for_block. destruct (s_flag s); reflexivity. Qed.

(** Commit.ValidateBasic / CommitSig.ValidateBasic *)
Lemma src_commit_basic (c : commit B) :
  commit_basic B c =
  if types__Commit_ValidateBasic__if_commit_Height_ge_1 (Z.of_nat (c_height B c))
  then match c_block B c with
       | None => false
       | Some _ => negb (types__Commit_ValidateBasic__if_len_commit_Signatures_eq_0 (Z.of_nat (List.length (c_slots B c))))
                   && forallb slot_basic (c_slots B c)
       end
  else true.
Proof.
  unfold commit_basic, types__Commit_ValidateBasic__if_commit_Height_ge_1, types__Commit_ValidateBasic__if_len_commit_Signatures_eq_0.
  change 0 with (Z.of_nat 0). rewrite <- eqb_nat_Z.
  destruct (c_height B c) as [|h]; [reflexivity|].
  replace (Z.of_nat (S h) >=? 1) with true by (symmetry; apply Z.geb_le; lia). reflexivity.
Qed.

Lemma src_slot_basic s :
  slot_basic s =
  match s_flag s with
  | FUnknown => false
  | FAbsent =>
    negb (types__CommitSig_ValidateBasic__if_not_cs_ValidatorAddress_Equal_common_Address (s_addr_zero s))
    && negb (types__CommitSig_ValidateBasic__if_not_cs_Timestamp_IsZero (s_time_zero s))
    && negb (types__CommitSig_ValidateBasic__if_len_cs_Signature_ne_0 (if s_sig_empty s then 0 else 1))
  | _ => negb (types__CommitSig_ValidateBasic__if_len_cs_Signature_eq_0 (if s_sig_empty s then 0 else 1))
  end.
Proof.
  unfold slot_basic, types__CommitSig_ValidateBasic__if_not_cs_ValidatorAddress_Equal_common_Address,
    types__CommitSig_ValidateBasic__if_not_cs_Timestamp_IsZero, types__CommitSig_ValidateBasic__if_len_cs_Signature_ne_0,
    types__CommitSig_ValidateBasic__if_len_cs_Signature_eq_0, go_neqb.
  destruct (s_flag s), (s_addr_zero s), (s_time_zero s), (s_sig_empty s); reflexivity.
Qed.

(** ** the block-sync processor (blockchain/processor.go) *)
Lemma src_block_received h (b : blk B) :
  Nat.ltb h (b_height B b) = blockchain__pcState_handle__if_event_block_Height_gt_state_height (Z.of_nat (b_height B b)) (Z.of_nat h).
Proof. unfold blockchain__pcState_handle__if_event_block_Height_gt_state_height. rewrite Z.gtb_ltb. apply ltb_nat_Z. Qed.
Lemma src_synced (q : list (nat * (nat * blk B))) :
  Nat.leb (List.length q) 1 = blockchain__pcState_synced__ret_len_state_queue_le_1 (Z.of_nat (List.length q)).
Proof. unfold blockchain__pcState_synced__ret_len_state_queue_le_1. apply (leb_nat_Z (List.length q) 1). Qed.

(** [p_handle] on a received block / on scFinishedEv, with the source's tests *)
Lemma src_p_handle_block powers_of apply_ok (st : pstate B) peer b :
  p_handle B B_eq_dec powers_of apply_ok st (EvBlock B peer b) =
  if blockchain__pcState_handle__if_event_block_Height_gt_state_height (Z.of_nat (b_height B b)) (Z.of_nat (List.length (p_chain B st)))
  then match q_get B (p_queue B st) (b_height B b) with
       | Some _ => (st, ODupPanic)
       | None => (mkP B (p_chain B st) ((b_height B b, (peer, b)) :: p_queue B st) (p_draining B st) (p_synced B st), ONoop)
       end
  else (st, ONoop).
Proof. cbn [p_handle]. rewrite src_block_received. reflexivity. Qed.
Lemma src_p_handle_finished powers_of apply_ok (st : pstate B) :
  p_handle B B_eq_dec powers_of apply_ok st (EvFinished B) =
  if blockchain__pcState_synced__ret_len_state_queue_le_1 (Z.of_nat (List.length (p_queue B st))) then (st, OFinished)
  else (mkP B (p_chain B st) (p_queue B st) true (p_synced B st), ONoop).
Proof. cbn [p_handle]. rewrite src_synced. reflexivity. Qed.

(** ** the lock bookkeeping (consensus/state.go) *)
Variable powers : list Z.

(** addVote's release test on (a lock is held, LockedRound, the polka's round, the node's round, the
    polka is for the locked block) *)
Notation src_unlock := consensus__ConsensusState_addVote__if_cs_LockedBlock_ne_nil_and_cs_LockedRound_lt_vote_Round_and_v_a39f474f.

(** [release] (the guard of [AUnlock], and the checker's lock rule) IS that test, applied to the polkas
    of the trace *)
Lemma src_release (tr : trace B) lr r b :
  release powers B B_eq_dec tr lr r b =
  existsb (fun e' => match e' with
                     | (_, Prevote _ r'' y) =>
                       src_unlock true (Z.of_nat lr) (Z.of_nat r'') (Z.of_nat r) (opt_eqb B B_eq_dec y (Some b))
                       && polka_b powers B B_eq_dec tr r'' y
                     | _ => false end) tr.
Proof.
  unfold release. apply existsb_ext. intros [j [r'' y|r'' y]]; [|reflexivity].
  unfold src_unlock. cbn [andb]. rewrite <- ltb_nat_Z, <- leb_nat_Z. reflexivity.
Qed.

(** doPrevote's scan `for r := cs.Round; r > cs.LockedRound; r--` has the same lower bound *)
Lemma src_scan_bound lr r'' :
  Nat.ltb lr r'' = consensus__ConsensusState_doPrevote__for_r_gt_cs_LockedRound (Z.of_nat r'') (Z.of_nat lr).
Proof. unfold consensus__ConsensusState_doPrevote__for_r_gt_cs_LockedRound. rewrite Z.gtb_ltb. apply ltb_nat_Z. Qed.
(** ... and releases on a polka (`ok`) for another block *)
Lemma src_scan_test ok same :
  consensus__ConsensusState_doPrevote__if_ok_and_not_cs_LockedBlock_HashesTo_bid_Hash ok same = (ok && negb same)%bool.
Proof. reflexivity. Qed.

(** [ANewRound r] is accepted exactly when enterNewRound(height, r) is not refused (same height, the
    node is past the NewHeight step = 1) *)
Lemma src_new_round i (st : lstate B) (tr : trace B) r h step :
  step <> 1 ->
  (match lstep powers B B_eq_dec i st tr (ANewRound B r) with Some _ => true | None => false end) =
  negb (consensus__ConsensusState_enterNewRound__if_cs_Height_ne_height_or_round_lt_cs_Round_or_cs_Round_eq_roun_2354a6d9
          h h (Z.of_nat r) (Z.of_nat (l_round B st)) step).
Proof.
  intros Hs. cbn [lstep].
  unfold consensus__ConsensusState_enterNewRound__if_cs_Height_ne_height_or_round_lt_cs_Round_or_cs_Round_eq_roun_2354a6d9, go_neqb.
  rewrite Z.eqb_refl. cbn [negb orb].
  replace (step =? 1) with false by (symmetry; apply Z.eqb_neq; exact Hs). cbn [negb]. rewrite andb_true_r.
  destruct (Nat.ltb_spec (l_round B st) r); destruct (Z.ltb_spec (Z.of_nat r) (Z.of_nat (l_round B st)));
    destruct (Z.eqb_spec (Z.of_nat (l_round B st)) (Z.of_nat r)); cbn; try reflexivity; lia.
Qed.

(** a precommit in the node's own round is refused exactly when the step is already Precommit (= 6) or
    later: the model's [l_precommitted] *)
Lemma src_precommit_once h r step :
  consensus__ConsensusState_enterPrecommit__if_cs_Height_ne_height_or_round_lt_cs_Round_or_cs_Round_eq_roun_175a6e72 h h r r step
  = Z.leb 6 step.
Proof.
  unfold consensus__ConsensusState_enterPrecommit__if_cs_Height_ne_height_or_round_lt_cs_Round_or_cs_Round_eq_roun_175a6e72, go_neqb.
  rewrite !Z.eqb_refl, Z.ltb_irrefl. reflexivity.
Qed.
(** without a polka (`!ok`) the precommit is for nil: [APrecommit (Some b)] needs [polka_b] *)
Lemma src_no_polka ok : consensus__ConsensusState_enterPrecommit__if_not_ok ok = negb ok.
Proof. reflexivity. Qed.

End Tie.

(** ** what is compared (the operands of the guards) *)
Lemma src_atoms :
  types__ValidatorSet_VerifyCommit__if_vs_Size_ne_len_commit_Signatures_atoms = ["vs.Size() : int"; "len(commit.Signatures) : int"]%string
  /\ types__ValidatorSet_VerifyCommit__if_height_ne_commit_GetHeight_atoms = ["height : uint64"; "commit.GetHeight() : uint64"]%string
  /\ types__ValidatorSet_VerifyCommit__if_not_blockID_Equal_commit_BlockID_atoms = ["blockID.Equal(commit.BlockID) : bool"]%string
  /\ types__ValidatorSet_VerifyCommit__if_not_commitSig_ValidatorAddress_Equal_val_Address_atoms = ["commitSig.ValidatorAddress.Equal(val.Address) : bool"]%string
  /\ types__ValidatorSet_VerifyCommit__if_not_VerifySignature_val_Address_crypto_Keccak256_signBytes_c_6727322a_atoms
      = ["VerifySignature(val.Address, crypto.Keccak256(signBytes), commitSig.Signature) : bool"]%string
  /\ types__ValidatorSet_VerifyCommit__if_got_le_needed_atoms = ["got : int64"; "needed : int64"]%string
  /\ types__Commit_ValidateBasic__if_commit_Height_ge_1_atoms = ["commit.Height : uint64"]%string
  /\ types__Commit_ValidateBasic__if_len_commit_Signatures_eq_0_atoms = ["len(commit.Signatures) : int"]%string
  /\ blockchain__pcState_handle__if_event_block_Height_gt_state_height_atoms = ["event.block.Height() : uint64"; "state.height() : uint64"]%string
  /\ blockchain__pcState_synced__ret_len_state_queue_le_1_atoms = ["len(state.queue) : int"]%string
  /\ consensus__ConsensusState_addVote__if_cs_LockedBlock_ne_nil_and_cs_LockedRound_lt_vote_Round_and_v_a39f474f_atoms
      = ["cs.LockedBlock != nil : bool"; "cs.LockedRound : uint32"; "vote.Round : uint32"; "cs.Round : uint32"; "cs.LockedBlock.HashesTo(blockID.Hash) : bool"]%string
  /\ consensus__ConsensusState_doPrevote__for_r_gt_cs_LockedRound_atoms = ["r : uint32"; "cs.LockedRound : uint32"]%string
  /\ consensus__ConsensusState_doPrevote__if_ok_and_not_cs_LockedBlock_HashesTo_bid_Hash_atoms = ["ok : bool"; "cs.LockedBlock.HashesTo(bid.Hash) : bool"]%string
  /\ consensus__ConsensusState_enterPrecommit__if_not_ok_atoms = ["ok : bool"]%string.
Proof. repeat split; reflexivity. Qed.

(** ** the whole tie, as one statement (quoted by Properties.v) *)
Definition C01_source_tie_statement : Prop :=
  (forall (B : Type) (B_eq_dec : forall x y : B, {x = y} + {x <> y}) powers hw want (c : commit B),
      verify_commit B B_eq_dec powers hw want (Some c) =
      if negb (commit_basic B c) then VBasic
      else if types__ValidatorSet_VerifyCommit__if_vs_Size_ne_len_commit_Signatures
                (Z.of_nat (List.length powers)) (Z.of_nat (List.length (c_slots B c))) then VSize
      else if types__ValidatorSet_VerifyCommit__if_height_ne_commit_GetHeight (Z.of_nat hw) (Z.of_nat (c_height B c)) then VHeight
      else if types__ValidatorSet_VerifyCommit__if_not_blockID_Equal_commit_BlockID (bid_eqb B B_eq_dec want (c_block B c)) then VBlock
      else match vc_loop B powers want (c_slots B c) (List.length (c_slots B c)) with
           | inr (EAddr i) => VAddr i
           | inr (ESig i) => VSig i
           | inl got =>
             if types__ValidatorSet_VerifyCommit__if_got_le_needed got (total powers * 2 / 3)
             then VPower got (total powers * 2 / 3) else VOk
           end)
  /\ (forall (B : Type) powers want slots k,
      vc_loop B powers want slots (S k) =
      match vc_loop B powers want slots k with
      | inr e => inr e
      | inl acc =>
        let s := nth k slots absent_slot in
        if types__CommitSig_Absent__ret_cs_BlockIDFlag_eq_BlockIDFlagAbsent (flag_byte (s_flag s)) then inl acc
        else if types__ValidatorSet_VerifyCommit__if_not_commitSig_ValidatorAddress_Equal_val_Address (is_idx (s_addr s) k) then inr (EAddr k)
        else if types__ValidatorSet_VerifyCommit__if_not_VerifySignature_val_Address_crypto_Keccak256_signBytes_c_6727322a (is_idx (s_signer s) k) then inr (ESig k)
        else inl (if slot_counts B want s then acc + power powers k else acc)
      end)
  /\ (forall t, 0 <= t <= types__MaxTotalVotingPower -> t * 2 / 3 = types__ValidatorSet_VerifyCommit__set_votingPowerNeeded t)
  /\ (forall acc p, 0 <= acc -> 0 <= p -> acc + p <= types__MaxTotalVotingPower ->
                    acc + p = types__ValidatorSet_VerifyCommit__set_talliedVotingPower_op acc p)
  /\ (forall (B : Type) (B_eq_dec : forall x y : B, {x = y} + {x <> y}) powers_of apply_ok (st : pstate B) peer b,
      p_handle B B_eq_dec powers_of apply_ok st (EvBlock B peer b) =
      if blockchain__pcState_handle__if_event_block_Height_gt_state_height (Z.of_nat (b_height B b)) (Z.of_nat (List.length (p_chain B st)))
      then match q_get B (p_queue B st) (b_height B b) with
           | Some _ => (st, ODupPanic)
           | None => (mkP B (p_chain B st) ((b_height B b, (peer, b)) :: p_queue B st) (p_draining B st) (p_synced B st), ONoop)
           end
      else (st, ONoop))
  /\ (forall (B : Type) (B_eq_dec : forall x y : B, {x = y} + {x <> y}) powers_of apply_ok (st : pstate B),
      p_handle B B_eq_dec powers_of apply_ok st (EvFinished B) =
      if blockchain__pcState_synced__ret_len_state_queue_le_1 (Z.of_nat (List.length (p_queue B st))) then (st, OFinished)
      else (mkP B (p_chain B st) (p_queue B st) true (p_synced B st), ONoop))
  /\ (forall (B : Type) (B_eq_dec : forall x y : B, {x = y} + {x <> y}) powers (tr : trace B) lr r b,
      release powers B B_eq_dec tr lr r b =
      existsb (fun e' => match e' with
                         | (_, Prevote _ r'' y) =>
                           consensus__ConsensusState_addVote__if_cs_LockedBlock_ne_nil_and_cs_LockedRound_lt_vote_Round_and_v_a39f474f
                             true (Z.of_nat lr) (Z.of_nat r'') (Z.of_nat r) (opt_eqb B B_eq_dec y (Some b))
                           && polka_b powers B B_eq_dec tr r'' y
                         | _ => false end) tr)
  /\ (forall lr r'', Nat.ltb lr r'' = consensus__ConsensusState_doPrevote__for_r_gt_cs_LockedRound (Z.of_nat r'') (Z.of_nat lr))
  /\ (forall (B : Type) (B_eq_dec : forall x y : B, {x = y} + {x <> y}) powers i (st : lstate B) (tr : trace B) r h step,
      step <> 1 ->
      (match lstep powers B B_eq_dec i st tr (ANewRound B r) with Some _ => true | None => false end) =
      negb (consensus__ConsensusState_enterNewRound__if_cs_Height_ne_height_or_round_lt_cs_Round_or_cs_Round_eq_roun_2354a6d9
              h h (Z.of_nat r) (Z.of_nat (l_round B st)) step))
  /\ (forall h r step,
      consensus__ConsensusState_enterPrecommit__if_cs_Height_ne_height_or_round_lt_cs_Round_or_cs_Round_eq_roun_175a6e72 h h r r step
      = Z.leb 6 step)
  /\ consensus__ConsensusState_addVote__if_cs_LockedBlock_ne_nil_and_cs_LockedRound_lt_vote_Round_and_v_a39f474f_atoms
      = ["cs.LockedBlock != nil : bool"; "cs.LockedRound : uint32"; "vote.Round : uint32"; "cs.Round : uint32"; "cs.LockedBlock.HashesTo(blockID.Hash) : bool"]%string
  /\ types__ValidatorSet_VerifyCommit__if_not_commitSig_ValidatorAddress_Equal_val_Address_atoms = ["commitSig.ValidatorAddress.Equal(val.Address) : bool"]%string
  /\ types__ValidatorSet_VerifyCommit__if_got_le_needed_atoms = ["got : int64"; "needed : int64"]%string.

Lemma C01_source_tie_proof : C01_source_tie_statement.
Proof.
  unfold C01_source_tie_statement.
  split; [exact src_verify_commit|]. split; [exact src_vc_step|]. split; [exact src_needed|].
  split; [exact src_tally_add|]. split; [exact src_p_handle_block|]. split; [exact src_p_handle_finished|].
  split; [exact src_release|]. split; [exact src_scan_bound|]. split; [exact src_new_round|].
  split; [exact src_precommit_once|]. repeat split; reflexivity.
Qed.
