(** C01 — the lock automaton (Lock.v) as a monitor of one validator on a recorded global trace
    (definitions only): the validator's own events are replayed as actions of the automaton (a new
    round when the event's round is higher, the release action when a prevote needs it), everybody
    else's events are [AOther].  [monitor] answers the automaton's state after the whole trace, or
    [None] when some own event violates a guard.  The network harness prints, at every precommit for a
    block of a correct validator, the real node's (LockedBlock, LockedRound); the model side is the
    monitor's lock at that point of the trace. *)
From Coq Require Import List ZArith Arith Bool.
From Kardia Require Import C01.Power C01.Agreement C01.Checker C01.Lock.
Import ListNotations.
Local Open Scope Z_scope.

Section Monitor.
Variable powers : list Z.
Variable B : Type.
Variable B_eq_dec : forall x y : B, {x = y} + {x <> y}.
Variable i : nat.

Notation lstep := (lstep powers B B_eq_dec i).

Definition msg_round (m : msg B) : nat := match m with Prevote _ r _ => r | Precommit _ r _ => r end.

(** the own event e, preceded by the actions that make it possible *)
Definition monitor_own (st : lstate B) (tr : trace B) (m : msg B) : option (lstate B * trace B) :=
  let r := msg_round m in
  let entered :=
      if Nat.ltb (l_round B st) r then lstep st tr (ANewRound B r)
      else if Nat.eqb r (l_round B st) then Some (st, tr) else None in
  match entered with
  | None => None
  | Some (st1, tr1) =>
    match m with
    | Prevote _ _ x =>
      match lstep st1 tr1 (APrevote B x) with
      | Some y => Some y
      | None => match lstep st1 tr1 (AUnlock B) with
                | Some (st2, tr2) => lstep st2 tr2 (APrevote B x)
                | None => None
                end
      end
    | Precommit _ _ x => lstep st1 tr1 (APrecommit B x)
    end
  end.

Definition monitor_step (st : lstate B) (tr : trace B) (e : event B) : option (lstate B * trace B) :=
  if Nat.eqb (fst e) i then monitor_own st tr (snd e) else lstep st tr (AOther B e).

Fixpoint monitor_from (st : lstate B) (tr : trace B) (todo : trace B) : option (lstate B * trace B) :=
  match todo with
  | [] => Some (st, tr)
  | e :: rest => match monitor_step st tr e with
                 | Some (st', tr') => monitor_from st' tr' rest
                 | None => None
                 end
  end.

Definition monitor (tr : trace B) : option (lstate B * trace B) := monitor_from (l_init B) [] tr.

End Monitor.
