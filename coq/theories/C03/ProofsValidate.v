(** C03 — proofs about the block-validation model (Validate.v): what an accepted block satisfies
    (every clause of "valid extension of the node's own chain"), the weighted-median property of the
    prescribed block time, and the transparency of the executor's validation cache. *)
From Coq Require Import List ZArith NArith Bool Lia.
From Kardia Require Import Base.Int64 Base.GoSem C02.Model C02.Proofs C03.Validate.
Import ListNotations.
Local Open Scope Z_scope.
Ltac Zify.zify_post_hook ::= Z.div_mod_to_equations.

(* ------------------------------------------------------------------ *)
(** * validateBlock accepts only valid extensions *)

(** the last-commit and time clauses of an accepted block *)
Definition commit_and_time_ok (st : chain) (b : vblock) (c : commit) : Prop :=
  let h := vb_hdr b in
  (vh_height h = ch_initial st /\ c_sigs c = [] /\ vh_time h = ch_last_time st)
  \/ (ch_initial st < vh_height h
      /\ verify_commit (ch_last_vals st) (ch_id st) (ch_last_bid st) (z_to_N (go_sub U64 (vh_height h) 1)) c = COk
      /\ ch_last_time st < vh_time h
      /\ median_time c (ch_last_vals st) = Some (vh_time h)).

Definition valid_extension (st : chain) (b : vblock) : Prop :=
  let h := vb_hdr b in
  block_validate_basic b = true
  /\ vh_height h = go_add U64 (ch_last_height st) 1                       (* right height ... *)
  /\ (ch_last_height st = 0 -> vh_height h = ch_initial st)
  /\ vh_last h = ch_last_bid st                                           (* ... and parent id *)
  /\ vh_app h = ch_app st                                                 (* application hash of its own state *)
  /\ vh_vals h = ch_vals_hash st /\ vh_nextvals h = ch_nextvals_hash st   (* validator-set hashes of its own state *)
  /\ (exists c, vb_lc b = Some c /\ commit_and_time_ok st b c)            (* previous-block commit, prescribed time *)
  /\ vb_nevid b <= ch_max_evid st
  /\ has_address (ch_vals st) (vh_proposer h) = true
  /\ vb_evid_ok b = true.

Lemma bid_eqb_true a b : bid_eqb a b = true -> a = b.
Proof. apply bid_eqb_eq. Qed.

Lemma go_neqb_false a b : go_neqb a b = false -> a = b.
Proof. unfold go_neqb. intros H. apply negb_false_iff in H. apply Z.eqb_eq in H. exact H. Qed.

Lemma validate_time_ok st b c :
  validate_time st b c = VOk ->
  (vh_height (vb_hdr b) = ch_initial st /\ vh_time (vb_hdr b) = ch_last_time st)
  \/ (ch_initial st < vh_height (vb_hdr b) /\ ch_last_time st < vh_time (vb_hdr b)
      /\ median_time c (ch_last_vals st) = Some (vh_time (vb_hdr b))).
Proof.
  unfold validate_time. cbv zeta.
  destruct (vh_height (vb_hdr b) >? ch_initial st) eqn:Egt.
  - destruct (vh_time (vb_hdr b) >? ch_last_time st) eqn:Eaft; cbn [negb]; [|discriminate].
    destruct (median_time c (ch_last_vals st)) as [m|] eqn:Em; [|discriminate].
    destruct (vh_time (vb_hdr b) =? m) eqn:Eeq; cbn [negb]; [|discriminate].
    intros _. right. apply Z.gtb_lt in Egt. apply Z.gtb_lt in Eaft. apply Z.eqb_eq in Eeq. subst m. auto.
  - destruct (vh_height (vb_hdr b) =? ch_initial st) eqn:Eeq; [|discriminate].
    destruct (vh_time (vb_hdr b) =? ch_last_time st) eqn:Et; cbn [negb]; [|discriminate].
    intros _. left. apply Z.eqb_eq in Eeq. apply Z.eqb_eq in Et. auto.
Qed.

Lemma validate_commit_ok st b c :
  validate_commit st b c = VOk ->
  (vh_height (vb_hdr b) = ch_initial st /\ c_sigs c = [])
  \/ (vh_height (vb_hdr b) <> ch_initial st
      /\ verify_commit (ch_last_vals st) (ch_id st) (ch_last_bid st) (z_to_N (go_sub U64 (vh_height (vb_hdr b)) 1)) c = COk).
Proof.
  unfold validate_commit. cbv zeta.
  destruct (vh_height (vb_hdr b) =? ch_initial st) eqn:Eeq.
  - destruct (go_neqb (Z.of_nat (length (c_sigs c))) 0) eqn:En; [discriminate|].
    intros _. left. apply Z.eqb_eq in Eeq. apply go_neqb_false in En.
    split; [exact Eeq|]. destruct (c_sigs c); [reflexivity|]. cbn [length] in En. lia.
  - apply Z.eqb_neq in Eeq.
    destruct (verify_commit _ _ _ _ c) eqn:Ev; try discriminate. intros _. right. auto.
Qed.

Lemma validate_tail_ok st b :
  validate_tail st b = VOk ->
  vb_nevid b <= ch_max_evid st /\ has_address (ch_vals st) (vh_proposer (vb_hdr b)) = true /\ vb_evid_ok b = true.
Proof.
  unfold validate_tail.
  destruct (vb_nevid b >? ch_max_evid st) eqn:Ee; [discriminate|].
  destruct (has_address (ch_vals st) (vh_proposer (vb_hdr b))) eqn:Ea; cbn [negb]; [|discriminate].
  destruct (vb_evid_ok b) eqn:Eo; cbn [negb]; [|discriminate].
  intros _. rewrite Z.gtb_ltb in Ee. apply Z.ltb_ge in Ee. auto.
Qed.

Theorem validate_block_sound st b : validate_block st b = VOk -> valid_extension st b.
Proof.
  unfold validate_block, valid_extension. cbv zeta.
  destruct (block_validate_basic b) eqn:Eb; cbn [negb]; [|discriminate].
  destruct (go_neqb (vh_height (vb_hdr b)) (go_add U64 (ch_last_height st) 1)) eqn:Eh; [discriminate|].
  destruct ((ch_last_height st =? 0) && go_neqb (vh_height (vb_hdr b)) (ch_initial st))%bool eqn:Ei; [discriminate|].
  rewrite andb_false_r.
  destruct (bid_eqb (vh_last (vb_hdr b)) (ch_last_bid st)) eqn:El; cbn [negb]; [|discriminate].
  destruct (N.eqb (vh_app (vb_hdr b)) (ch_app st)) eqn:Ea; cbn [negb]; [|discriminate].
  destruct (N.eqb (vh_vals (vb_hdr b)) (ch_vals_hash st)) eqn:Ev; cbn [negb]; [|discriminate].
  destruct (N.eqb (vh_nextvals (vb_hdr b)) (ch_nextvals_hash st)) eqn:En; cbn [negb]; [|discriminate].
  destruct (vb_lc b) as [c|] eqn:Elc; [|discriminate].
  destruct (validate_commit st b c) eqn:Ec; try discriminate.
  destruct (validate_time st b c) eqn:Et; try discriminate.
  intros Htail.
  apply go_neqb_false in Eh. apply bid_eqb_true in El.
  apply N.eqb_eq in Ea. apply N.eqb_eq in Ev. apply N.eqb_eq in En.
  apply validate_tail_ok in Htail. destruct Htail as [Hne [Hpa Heo]].
  apply validate_commit_ok in Ec. apply validate_time_ok in Et.
  repeat split; auto.
  - intros H0. rewrite H0 in Ei. cbn [Z.eqb andb] in Ei. apply go_neqb_false in Ei. exact Ei.
  - exists c. split; [reflexivity|]. unfold commit_and_time_ok. cbv zeta.
    destruct Ec as [[Hc1 Hc2]|[Hc1 Hc2]]; destruct Et as [[Ht1 Ht2]|[Ht1 [Ht2 Ht3]]].
    + left. auto.
    + lia.
    + contradiction.
    + right. auto.
Qed.

(** conversely every block with these properties is accepted, so [valid_extension] is exactly what
    validateBlock checks (no stronger and no weaker) *)
Theorem validate_block_complete st b : valid_extension st b -> validate_block st b = VOk.
Proof.
  unfold valid_extension. cbv zeta.
  intros [Hb [Hh [Hi [Hl [Ha [Hv [Hn [[c [Hlc Hct]] [Hne [Hpa Heo]]]]]]]]]].
  unfold validate_block. cbv zeta. rewrite Hb. cbn [negb].
  assert (E1 : go_neqb (vh_height (vb_hdr b)) (go_add U64 (ch_last_height st) 1) = false).
  { unfold go_neqb. rewrite Hh. rewrite Z.eqb_refl. reflexivity. }
  rewrite E1.
  assert (E2 : ((ch_last_height st =? 0) && go_neqb (vh_height (vb_hdr b)) (ch_initial st))%bool = false).
  { destruct (Z.eqb_spec (ch_last_height st) 0) as [H0|H0]; [|reflexivity].
    cbn [andb]. unfold go_neqb. rewrite (Hi H0). rewrite Z.eqb_refl. reflexivity. }
  rewrite E2. rewrite andb_false_r.
  rewrite Hl, Ha, Hv, Hn. rewrite !N.eqb_refl.
  assert (E3 : bid_eqb (ch_last_bid st) (ch_last_bid st) = true).
  { unfold bid_eqb. rewrite !N.eqb_refl. reflexivity. }
  rewrite E3. cbn [negb]. rewrite Hlc.
  unfold commit_and_time_ok in Hct. cbv zeta in Hct.
  assert (Etail : validate_tail st b = VOk).
  { unfold validate_tail. rewrite Hpa, Heo. cbn [negb].
    destruct (vb_nevid b >? ch_max_evid st) eqn:Ee; [|reflexivity].
    apply Z.gtb_lt in Ee. lia. }
  destruct Hct as [[Hc1 [Hc2 Hc3]]|[Hc1 [Hc2 [Hc3 Hc4]]]].
  - assert (Ecm : validate_commit st b c = VOk).
    { unfold validate_commit. cbv zeta. rewrite Hc1, Z.eqb_refl, Hc2. reflexivity. }
    assert (Etm : validate_time st b c = VOk).
    { unfold validate_time. cbv zeta. rewrite Hc1.
      replace (ch_initial st >? ch_initial st) with false by (symmetry; rewrite Z.gtb_ltb; apply Z.ltb_irrefl).
      rewrite Z.eqb_refl, Hc3, Z.eqb_refl. reflexivity. }
    rewrite Ecm, Etm. exact Etail.
  - assert (Ecm : validate_commit st b c = VOk).
    { unfold validate_commit. cbv zeta.
      replace (vh_height (vb_hdr b) =? ch_initial st) with false by (symmetry; apply Z.eqb_neq; lia).
      rewrite Hc2. reflexivity. }
    assert (Etm : validate_time st b c = VOk).
    { unfold validate_time. cbv zeta.
      replace (vh_height (vb_hdr b) >? ch_initial st) with true by (symmetry; apply Z.gtb_lt; lia).
      replace (vh_time (vb_hdr b) >? ch_last_time st) with true by (symmetry; apply Z.gtb_lt; lia).
      cbn [negb]. rewrite Hc4, Z.eqb_refl. reflexivity. }
    rewrite Ecm, Etm. exact Etail.
Qed.

(** the last commit of an accepted block after the first carries valid precommit signatures, for
    exactly the parent id and height, of validators of the previous set holding more than two thirds
    of its power (C02's VerifyCommit theorem), each slot naming the validator of its position *)
Theorem accepted_commit_has_quorum st b c :
  validate_block st b = VOk -> vb_lc b = Some c ->
  wf_vals (ch_last_vals st) -> ch_initial st < vh_height (vb_hdr b) -> 1 <= ch_initial st -> vh_height (vb_hdr b) < two64 ->
  let hp := z_to_N (vh_height (vb_hdr b) - 1) in
  c_height c = hp /\ c_bid c = ch_last_bid st /\ length (c_sigs c) = length (ch_last_vals st) /\
  2 * sum_powers (ch_last_vals st) < 3 * signed_power (ch_id st) hp (c_round c) (ch_last_bid st) (ch_last_vals st) (c_sigs c).
Proof.
  intros Hv Hlc Hwf Hgt Hi Hmax hp.
  apply validate_block_sound in Hv. unfold valid_extension in Hv. cbv zeta in Hv.
  destruct Hv as [_ [_ [_ [_ [_ [_ [_ [[c' [Hlc' Hct]] _]]]]]]]].
  rewrite Hlc in Hlc'. inversion Hlc'; subst c'. clear Hlc'.
  unfold commit_and_time_ok in Hct. cbv zeta in Hct.
  destruct Hct as [[Hc1 _]|[_ [Hvc _]]]; [lia|].
  assert (Hsub : go_sub U64 (vh_height (vb_hdr b)) 1 = vh_height (vb_hdr b) - 1).
  { unfold go_sub. apply wrap_id. unfold in_range. unfold two64 in Hmax. lia. }
  rewrite Hsub in Hvc. fold hp in Hvc.
  assert (Hhp : (1 <= hp)%N). { unfold hp, z_to_N. lia. }
  destruct (verify_commit_sound _ _ _ _ _ Hwf Hhp Hvc) as [Hlen [Hh [Hb Hq]]].
  repeat split; auto.
Qed.

(* ------------------------------------------------------------------ *)
(** * the prescribed time is a weighted median of the commit's timestamps *)

(** total weight of the entries whose time satisfies [p] *)
Fixpoint wsum (p : Z -> bool) (l : list (Z * Z)) : Z :=
  match l with
  | [] => 0
  | (t, w) :: r => (if p t then w else 0) + wsum p r
  end.
Definition wtotal (l : list (Z * Z)) : Z := wsum (fun _ => true) l.

Fixpoint wt_sorted (l : list (Z * Z)) : Prop :=
  match l with
  | [] => True
  | x :: r => Forall (fun y => fst x <= fst y) r /\ wt_sorted r
  end.

Lemma wsum_insert p x l : wsum p (wt_insert x l) = wsum p [x] + wsum p l.
Proof.
  induction l as [|y r IH]; destruct x as [tx wx]; cbn [wt_insert wsum].
  - lia.
  - destruct (fst (tx, wx) <? fst y); cbn [wsum].
    + destruct y. cbn [wsum]. lia.
    + destruct y as [ty wy]. cbn [wsum] in *. rewrite IH. lia.
Qed.

Lemma wsum_sort p l : wsum p (wt_sort l) = wsum p l.
Proof.
  induction l as [|[t w] r IH]; [reflexivity|].
  cbn [wt_sort]. rewrite wsum_insert. cbn [wsum]. rewrite IH. lia.
Qed.

Lemma in_insert x l y : In y (wt_insert x l) <-> y = x \/ In y l.
Proof.
  induction l as [|z r IH]; cbn [wt_insert].
  - cbn [In]. intuition.
  - destruct (fst x <? fst z); cbn [In].
    + intuition.
    + rewrite IH. intuition.
Qed.

Lemma in_sort l y : In y (wt_sort l) <-> In y l.
Proof.
  induction l as [|x r IH]; [reflexivity|].
  cbn [wt_sort]. rewrite in_insert. cbn [In]. rewrite IH. intuition.
Qed.

Lemma insert_sorted x l : wt_sorted l -> wt_sorted (wt_insert x l).
Proof.
  induction l as [|y r IH]; cbn [wt_insert wt_sorted].
  - intros _. split; [constructor|exact I].
  - intros [Hy Hr]. destruct (Z.ltb_spec (fst x) (fst y)) as [Hlt|Hge]; cbn [wt_sorted].
    + split; [|split; assumption].
      constructor; [lia|]. eapply Forall_impl; [|exact Hy]. cbv beta. intros; lia.
    + split; [|apply IH; exact Hr].
      apply Forall_forall. intros z Hz. apply (proj1 (in_insert _ _ _)) in Hz. destruct Hz as [->|Hz]; [lia|].
      rewrite Forall_forall in Hy. apply Hy. exact Hz.
Qed.

Lemma sort_sorted l : wt_sorted (wt_sort l).
Proof. induction l as [|x r IH]; [exact I|]. cbn [wt_sort]. apply insert_sorted. exact IH. Qed.

Lemma wsum_nonneg p l : Forall (fun e => 0 <= snd e) l -> 0 <= wsum p l.
Proof.
  induction 1 as [|[t w] r Hw _ IH]; cbn [wsum]; [lia|]. cbn [snd] in Hw. destruct (p t); lia.
Qed.

Lemma wsum_le_total p l : Forall (fun e => 0 <= snd e) l -> wsum p l <= wtotal l.
Proof.
  unfold wtotal. induction 1 as [|[t w] r Hw _ IH]; cbn [wsum]; [lia|]. cbn [snd] in Hw. destruct (p t); lia.
Qed.

(** below the smallest time of a sorted list there is no weight *)
Lemma wsum_lt_head t0 l :
  Forall (fun y => t0 <= fst y) l -> wsum (fun t => t <? t0) l = 0.
Proof.
  induction 1 as [|[t w] r Ht _ IH]; [reflexivity|]. cbn [wsum fst] in *.
  destruct (Z.ltb_spec t t0); [lia|]. rewrite IH. lia.
Qed.

(** the scan: on a sorted list with non-negative weights (no int64 overflow), the answer [t]
    satisfies  weight(time < t) <= median <= weight(time <= t) *)
Lemma wm_scan_spec l : forall median t,
  wt_sorted l -> Forall (fun e => 0 <= snd e <= max_int64) l -> 0 <= median <= max_int64 ->
  wm_scan l median = Some t ->
  In t (map fst l) /\ wsum (fun x => x <? t) l <= median <= wsum (fun x => x <=? t) l.
Proof.
  induction l as [|[t0 w0] r IH]; intros median t Hs Hw Hm Hscan; [discriminate|].
  cbn [wm_scan] in Hscan. cbn [wt_sorted fst] in Hs. destruct Hs as [Hmin Hs].
  inversion Hw as [|? ? Hw0 Hwr]; subst. cbn [snd] in Hw0.
  assert (Hnn : Forall (fun e => 0 <= snd e) r) by (eapply Forall_impl; [|exact Hwr]; cbv beta; intros; lia).
  destruct (Z.leb_spec median w0) as [Hle|Hgt].
  - inversion Hscan; subst t. cbn [map In wsum fst].
    split; [left; reflexivity|].
    rewrite Z.ltb_irrefl, Z.leb_refl. rewrite (wsum_lt_head t0 r Hmin).
    pose proof (wsum_nonneg (fun x => x <=? t0) r Hnn). lia.
  - assert (Hsub : go_sub I64 median w0 = median - w0).
    { unfold go_sub. apply wrap_id. unfold in_range, max_int64, two63 in *. lia. }
    rewrite Hsub in Hscan.
    destruct (IH (median - w0) t Hs Hwr ltac:(lia) Hscan) as [Hin [Hlo Hhi]].
    cbn [map In wsum fst]. split; [right; exact Hin|].
    assert (Ht : t0 <= t).
    { apply in_map_iff in Hin. destruct Hin as [[t' w'] [Heq Hin]]. cbn [fst] in Heq. subst t'.
      rewrite Forall_forall in Hmin. apply (Hmin _ Hin). }
    destruct (Z.leb_spec t0 t); [|lia].
    destruct (Z.ltb_spec t0 t); lia.
Qed.

(** WeightedMedian of (time, weight) entries with non-negative weights whose total fits in int64:
    the result is one of the times, the entries strictly before it weigh at most half of the total
    and the entries at or before it weigh at least half *)
Theorem weighted_median_spec l t :
  Forall (fun e => 0 <= snd e) l -> wtotal l <= max_int64 ->
  weighted_median l (wtotal l) = Some t ->
  In t (map fst l)
  /\ wsum (fun x => x <? t) l <= wtotal l / 2 <= wsum (fun x => x <=? t) l.
Proof.
  intros Hnn Hmax Hm. unfold weighted_median in Hm.
  assert (Ht0 : 0 <= wtotal l) by (apply wsum_nonneg; exact Hnn).
  assert (Hq : go_quot I64 (wtotal l) 2 = wtotal l / 2).
  { unfold go_quot. rewrite Z.quot_div_nonneg by lia. apply wrap_id.
    unfold in_range, max_int64, two63 in *. lia. }
  rewrite Hq in Hm.
  assert (Hw : Forall (fun e => 0 <= snd e <= max_int64) (wt_sort l)).
  { apply Forall_forall. intros [t' w'] Hin. apply (proj1 (in_sort _ _)) in Hin. cbn [snd].
    rewrite Forall_forall in Hnn. pose proof (Hnn _ Hin) as H0. cbn [snd] in H0.
    split; [exact H0|].
    assert (w' <= wtotal l); [|lia].
    clear - Hin Hnn. unfold wtotal. induction l as [|[a b] r IH]; [destruct Hin|].
    cbn [wsum]. assert (Hr : forall x, In x r -> 0 <= snd x) by (intros x Hx; apply Hnn; right; exact Hx).
    destruct Hin as [Heq|Hin].
    - inversion Heq; subst. assert (0 <= wsum (fun _ => true) r); [|lia].
      apply wsum_nonneg. apply Forall_forall. exact Hr.
    - specialize (IH Hr Hin). pose proof (Hnn (a, b) (or_introl eq_refl)) as Hb. cbn [snd] in Hb. lia. }
  assert (Hmed : 0 <= wtotal l / 2 <= max_int64).
  { unfold max_int64, two63 in *. lia. }
  destruct (wm_scan_spec (wt_sort l) (wtotal l / 2) t (sort_sorted l) Hw Hmed Hm) as [Hin [Hlo Hhi]].
  rewrite !wsum_sort in Hlo, Hhi. split; [|lia].
  apply in_map_iff in Hin. destruct Hin as [x [Hx Hin]]. apply (proj1 (in_sort _ _)) in Hin.
  apply in_map_iff. exists x. auto.
Qed.

(** MedianTime: the entries are the non-absent slots that name a validator, each weighted by that
    validator's power, and the running total is their total weight (no overflow below the cap) *)
Fixpoint entries_of (vals : list validator) (sigs : list commitsig) : list (Z * Z) :=
  match sigs with
  | [] => []
  | cs :: r =>
    if N.eqb (cs_flag cs) FLAG_ABSENT then entries_of vals r
    else match power_of vals (cs_addr cs) with
         | None => entries_of vals r
         | Some p => (Z.of_N (cs_time cs), p) :: entries_of vals r
         end
  end.

Lemma median_entries_fst vals sigs tot : fst (median_entries vals sigs tot) = entries_of vals sigs.
Proof.
  revert tot. induction sigs as [|cs r IH]; intros tot; [reflexivity|].
  cbn [median_entries entries_of]. destruct (N.eqb (cs_flag cs) FLAG_ABSENT); [apply IH|].
  destruct (power_of vals (cs_addr cs)) as [p|]; [|apply IH].
  specialize (IH (go_add I64 tot p)). destruct (median_entries vals r (go_add I64 tot p)) as [l t].
  cbn [fst] in *. rewrite IH. reflexivity.
Qed.

Lemma median_entries_snd vals sigs tot :
  Forall (fun e => 0 <= snd e) (entries_of vals sigs) -> 0 <= tot -> tot + wtotal (entries_of vals sigs) <= max_int64 ->
  snd (median_entries vals sigs tot) = tot + wtotal (entries_of vals sigs).
Proof.
  revert tot. induction sigs as [|cs r IH]; intros tot Hnn Ht Hmax.
  - cbn [median_entries entries_of snd]. unfold wtotal. cbn [wsum]. lia.
  - cbn [median_entries entries_of] in *. destruct (N.eqb (cs_flag cs) FLAG_ABSENT); [apply IH; assumption|].
    destruct (power_of vals (cs_addr cs)) as [p|]; [|apply IH; assumption].
    inversion Hnn as [|? ? Hp Hr]; subst. cbn [snd] in Hp.
    unfold wtotal in *. cbn [wsum] in Hmax.
    assert (Hr0 : 0 <= wsum (fun _ => true) (entries_of vals r)) by (apply wsum_nonneg; exact Hr).
    assert (Hadd : go_add I64 tot p = tot + p).
    { unfold go_add. apply wrap_id. unfold in_range, max_int64, two63 in *. lia. }
    specialize (IH (go_add I64 tot p) Hr). rewrite Hadd in *.
    destruct (median_entries vals r (tot + p)) as [l t]. cbn [snd] in *.
    rewrite IH by lia. cbn [wsum]. lia.
Qed.

Theorem median_time_spec c vals t :
  Forall (fun e => 0 <= snd e) (entries_of vals (c_sigs c)) ->
  wtotal (entries_of vals (c_sigs c)) <= max_int64 ->
  median_time c vals = Some t ->
  let l := entries_of vals (c_sigs c) in
  In t (map fst l) /\ wsum (fun x => x <? t) l <= wtotal l / 2 <= wsum (fun x => x <=? t) l.
Proof.
  intros Hnn Hmax Hm l. unfold median_time in Hm.
  pose proof (median_entries_fst vals (c_sigs c) 0) as Hf.
  pose proof (median_entries_snd vals (c_sigs c) 0 Hnn ltac:(lia) ltac:(lia)) as Hs.
  destruct (median_entries vals (c_sigs c) 0) as [l' tot]. cbn [fst snd] in *. subst l'.
  rewrite Hs in Hm. rewrite Z.add_0_l in Hm.
  apply weighted_median_spec; assumption.
Qed.

(* ------------------------------------------------------------------ *)
(** * the validation cache of the executor is transparent *)

Lemma blockid_eq_dec (a b : blockid) : {a = b} + {a <> b}.
Proof. decide equality; apply N.eq_dec. Qed.
Lemma sigv_eq_dec (a b : sigv) : {a = b} + {a <> b}.
Proof. decide equality; try apply N.eq_dec; try apply Bool.bool_dec; apply blockid_eq_dec. Qed.
Lemma commitsig_eq_dec (a b : commitsig) : {a = b} + {a <> b}.
Proof. decide equality; try apply N.eq_dec; apply sigv_eq_dec. Qed.
Lemma commit_eq_dec (a b : commit) : {a = b} + {a <> b}.
Proof. decide equality; try apply N.eq_dec; try apply blockid_eq_dec. apply list_eq_dec. apply commitsig_eq_dec. Qed.
Lemma vheader_eq_dec (a b : vheader) : {a = b} + {a <> b}.
Proof. decide equality; try apply N.eq_dec; try apply Z.eq_dec; apply blockid_eq_dec. Qed.
Lemma vblock_eq_dec (a b : vblock) : {a = b} + {a <> b}.
Proof.
  decide equality; try apply Bool.bool_dec; try apply Z.eq_dec; try apply vheader_eq_dec.
  decide equality. apply commit_eq_dec.
Qed.

Section CacheProofs.
Variable bhash : vblock -> N.

(** two different blocks that both pass ValidateBasic under one validation key: the block hash
    (header) plus the last commit's height/round/id plus the hashes ValidateBasic recomputes
    (LastCommitHash, TxHash, EvidenceHash) determine everything validateBlock reads, so this is a
    hash collision *)
Definition key_collision : Prop :=
  exists b b', validation_key bhash b = validation_key bhash b'
               /\ block_validate_basic b = true /\ block_validate_basic b' = true /\ b <> b'.

Lemma vkey_eqb_eq a b : vkey_eqb a b = true -> a = b.
Proof.
  destruct a as [h1 m1], b as [h2 m2]. unfold vkey_eqb. cbn [fst snd].
  intros H. apply andb_true_iff in H. destruct H as [Hh Hm]. apply N.eqb_eq in Hh. subst h2.
  f_equal. destruct m1 as [[[a1 r1] b1]|], m2 as [[[a2 r2] b2]|]; cbn [meta_eqb] in Hm; try discriminate; [|reflexivity].
  apply andb_true_iff in Hm. destruct Hm as [Hm Hb]. apply andb_true_iff in Hm. destruct Hm as [Ha Hr].
  apply N.eqb_eq in Ha. apply N.eqb_eq in Hr. apply bid_eqb_eq in Hb. subst. reflexivity.
Qed.

Lemma vkey_eqb_refl a : vkey_eqb a a = true.
Proof.
  destruct a as [h m]. unfold vkey_eqb. cbn [fst snd]. rewrite N.eqb_refl. cbn [andb].
  destruct m as [[[a r] b]|]; [|reflexivity]. cbn [meta_eqb]. rewrite !N.eqb_refl.
  unfold bid_eqb. rewrite !N.eqb_refl. reflexivity.
Qed.

Lemma cached_in cache k : cached cache k = true <-> In k cache.
Proof.
  unfold cached. rewrite existsb_exists. split.
  - intros [x [Hin Heq]]. apply vkey_eqb_eq in Heq. subst. exact Hin.
  - intros Hin. exists k. split; [exact Hin|apply vkey_eqb_refl].
Qed.

(** the cache only ever holds keys of blocks that validateBlock accepted against the CURRENT state *)
Definition cache_inv (s : chain * list vkey) : Prop :=
  forall k, In k (snd s) -> exists b0, validation_key bhash b0 = k /\ validate_block (fst s) b0 = VOk.

Lemma validate_block_basic st b : validate_block st b = VOk -> block_validate_basic b = true.
Proof. intros H. apply validate_block_sound in H. apply H. Qed.

Lemma validate_block_not_basic st b : block_validate_basic b = false -> validate_block st b = VBasic.
Proof. intros H. unfold validate_block. cbv zeta. rewrite H. reflexivity. Qed.

(** one call: with a sound cache the answer is validateBlock's own answer (or there is a collision),
    and the cache stays sound *)
Lemma validate_cached_transparent st cache b :
  cache_inv (st, cache) ->
  (fst (validate_cached bhash st cache b) = validate_block st b \/ key_collision)
  /\ cache_inv (st, snd (validate_cached bhash st cache b)).
Proof.
  intros Hinv. unfold validate_cached.
  destruct (cached cache (validation_key bhash b)) eqn:Ec.
  - cbn [fst snd]. split; [|exact Hinv].
    apply cached_in in Ec. destruct (Hinv _ Ec) as [b0 [Hk Hv]]. cbn [fst] in Hv.
    destruct (block_validate_basic b) eqn:Eb.
    + pose proof (validate_block_basic _ _ Hv) as Hb0.
      destruct (vblock_eq_dec b0 b) as [->|Hne]; [left; symmetry; exact Hv|].
      right. exists b0, b. auto.
    + left. symmetry. apply validate_block_not_basic. exact Eb.
  - destruct (validate_block st b) eqn:Ev; cbn [fst snd]; (split; [left; reflexivity|]); try exact Hinv.
    intros k [Hk|Hk]; [|apply Hinv; exact Hk]. exists b. cbn [fst]. auto.
Qed.

(** every answer of a run of the executor (validations and block applications in any order, the
    state changing only with an applied block, which clears the cache) is validateBlock's answer
    for the chain state current at that moment — or a hash collision exists *)
Fixpoint xspec (st : chain) (ops : list xop) : list verr :=
  match ops with
  | [] => []
  | XValidate b :: t => validate_block st b :: xspec st t
  | XApply b next :: t =>
    validate_block st b :: xspec (match validate_block st b with VOk => next | _ => st end) t
  end.

Theorem cache_transparent ops : forall st cache,
  cache_inv (st, cache) ->
  snd (xrun bhash (st, cache) ops) = xspec st ops \/ key_collision.
Proof.
  induction ops as [|o t IH]; intros st cache Hinv; [left; reflexivity|].
  cbn [xrun xstep xspec].
  destruct (validate_cached_transparent st cache (match o with XValidate b => b | XApply b _ => b end) Hinv) as [[Hans|Hcol] Hinv'];
    [|right; exact Hcol].
  destruct o as [b|b next].
  - destruct (validate_cached bhash st cache b) as [e cache'] eqn:Evc. cbn [fst snd] in *.
    destruct (IH st cache' Hinv') as [Hrest|Hcol]; [|right; exact Hcol].
    destruct (xrun bhash (st, cache') t) as [s2 es]. cbn [snd] in *. left. rewrite Hans, Hrest. reflexivity.
  - destruct (validate_cached bhash st cache b) as [e cache'] eqn:Evc. cbn [fst snd] in *. subst e.
    destruct (validate_block st b) eqn:Ev;
      try (destruct (IH st cache' Hinv') as [Hrest|Hcol]; [|right; exact Hcol];
           destruct (xrun bhash (st, cache') t) as [s2 es]; cbn [snd] in *; left; rewrite Hrest; reflexivity).
    assert (Hempty : cache_inv (next, [])) by (intros k []).
    destruct (IH next [] Hempty) as [Hrest|Hcol]; [|right; exact Hcol].
    destruct (xrun bhash (next, []) t) as [s2 es]. cbn [snd] in *. left. rewrite Hrest. reflexivity.
Qed.

Corollary cache_transparent_from_start st ops :
  snd (xrun bhash (st, []) ops) = xspec st ops \/ key_collision.
Proof. apply cache_transparent. intros k []. Qed.

End CacheProofs.

(* ------------------------------------------------------------------ *)
(** * Examples: the hypotheses are satisfiable, and the twin of the known finding is rejected *)

Definition ex_vals : list validator :=
  [ {| val_addr := 1; val_power := 10 |}; {| val_addr := 2; val_power := 10 |};
    {| val_addr := 3; val_power := 10 |}; {| val_addr := 4; val_power := 10 |} ].
Definition ex_bid1 : blockid := {| b_hash := 1; b_total := 1; b_phash := 1 |}.

(** the genesis state and the first block *)
Definition ex_st0 : chain :=
  {| ch_id := 1; ch_initial := 1; ch_last_height := 0; ch_last_bid := bid_zero; ch_last_time := 100;
     ch_app := 0; ch_vals_hash := 2; ch_nextvals_hash := 2; ch_last_vals := ex_vals; ch_vals := ex_vals;
     ch_max_evid := 216 |}.
Definition ex_b1 : vblock :=
  {| vb_hdr := {| vh_height := 1; vh_time := 100; vh_last := bid_zero; vh_app := 0; vh_vals := 2;
                  vh_nextvals := 2; vh_proposer := 1 |};
     vb_wf := true; vb_lc := Some {| c_height := 0; c_round := 0; c_bid := bid_zero; c_sigs := [] |};
     vb_lch_ok := true; vb_nevid := 0; vb_evid_ok := true |}.
Example ex_first_block_valid : validate_block ex_st0 ex_b1 = VOk.
Proof. vm_compute. reflexivity. Qed.

(** the state after block 1 and a second block whose last commit carries three precommits *)
Definition ex_st1 : chain :=
  {| ch_id := 1; ch_initial := 1; ch_last_height := 1; ch_last_bid := ex_bid1; ch_last_time := 100;
     ch_app := 0; ch_vals_hash := 2; ch_nextvals_hash := 2; ch_last_vals := ex_vals; ch_vals := ex_vals;
     ch_max_evid := 216 |}.
Definition ex_sig (i r t : N) : sigv :=
  {| s_id := i; s_empty := false; s_signer := i; s_chain := 1; s_type := PRECOMMIT; s_height := 1;
     s_round := r; s_bid := ex_bid1; s_time := t |}.
Definition ex_commit (r : N) : commit :=
  {| c_height := 1; c_round := r; c_bid := ex_bid1;
     c_sigs := [ {| cs_flag := FLAG_COMMIT; cs_addr := 1; cs_time := 111; cs_sig := ex_sig 1 1 111 |};
                 {| cs_flag := FLAG_COMMIT; cs_addr := 2; cs_time := 112; cs_sig := ex_sig 2 1 112 |};
                 {| cs_flag := FLAG_COMMIT; cs_addr := 3; cs_time := 113; cs_sig := ex_sig 3 1 113 |};
                 cs_absent ] |}.
Definition ex_b2 (commit_round : N) (time : Z) : vblock :=
  {| vb_hdr := {| vh_height := 2; vh_time := time; vh_last := ex_bid1; vh_app := 0; vh_vals := 2;
                  vh_nextvals := 2; vh_proposer := 1 |};
     vb_wf := true; vb_lc := Some (ex_commit commit_round); vb_lch_ok := true; vb_nevid := 0;
     vb_evid_ok := true |}.
Example ex_second_block_valid : validate_block ex_st1 (ex_b2 1 112) = VOk.
Proof. vm_compute. reflexivity. Qed.
(** the median of 111, 112, 113 with equal weights is 112: any other time is rejected *)
Example ex_second_block_other_time :
  validate_block ex_st1 (ex_b2 1 113) = VTimeNotMedian /\ validate_block ex_st1 (ex_b2 1 111) = VTimeNotMedian.
Proof. split; vm_compute; reflexivity. Qed.
(** the twin: same header, the same signatures under another commit round — not a valid block *)
Example ex_twin_rejected : validate_block ex_st1 (ex_b2 2 112) = VCommit CSig.
Proof. vm_compute. reflexivity. Qed.
(** ... and with the executor's cache keyed by the header hash AND the commit's height/round/id the
    twin is still rejected after the original was validated, whereas a key that ignores the commit
    (hash only) would let it through *)
Definition ex_hash (b : vblock) : N := Z.to_N (vh_time (vb_hdr b)).   (* any function of the header *)
Example ex_cache_rejects_twin :
  snd (xrun ex_hash (ex_st1, []) [XValidate (ex_b2 1 112); XValidate (ex_b2 2 112)]) = [VOk; VCommit CSig].
Proof. vm_compute. reflexivity. Qed.
