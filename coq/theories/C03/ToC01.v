(** C03 -> C01 bridge.  The signing events of one validator running the Node model, embedded in a
    global C01 trace, satisfy the four obligations [C01.Agreement.obeys] that the agreement theorem
    consumes — provided the global trace and the node's history are [linked]: every well-signed vote
    of this height that the node received was signed (occurs in the global trace) before it was
    delivered, the node's own signatures of this height appear in the trace at the moment they are
    made, and no other event of the trace is attributed to this validator.  Block ids are projected
    to their hash (0 = nil), as the code itself compares them ([Block.HashesTo]). *)
From Coq Require Import List ZArith NArith Arith Bool Lia.
From Kardia Require C01.Power C01.Agreement.
From Kardia Require Import C03.Node C03.Spec C03.ProofsInv C03.ProofsPower C03.ProofsLock.
Import ListNotations.

Module A := Kardia.C01.Agreement.
Module P := Kardia.C01.Power.

Definition conv (b : bid) : option N := if (bh b =? 0)%N then None else Some (bh b).
Definition msg_of (v : vote) : A.msg N :=
  match v_type v with
  | Prevote => A.Prevote N (N.to_nat (v_round v)) (conv (v_bid v))
  | Precommit => A.Precommit N (N.to_nat (v_round v)) (conv (v_bid v))
  end.

(* ---------------------------------------------------------------- sums *)

Lemma pw_upto_wsum powers X : forall k, (k <= length powers)%nat ->
  P.pw_upto powers k X = wsum_on X powers (seq 0 k).
Proof.
  induction k as [|k IH]; intros Hk; [reflexivity|].
  rewrite seq_S. cbn [P.pw_upto plus]. unfold wsum_on in *. rewrite map_app, fold_right_app. cbn [map fold_right].
  rewrite IH by lia. unfold P.power.
  assert (G : forall l a, fold_right Z.add a l = (fold_right Z.add 0 l + a)%Z).
  { induction l as [|x l IHl]; intros a; cbn; [lia|]. rewrite IHl. lia. }
  rewrite (G _ (_ + 0)%Z). lia.
Qed.

Lemma pw_wsum powers X : P.pw powers X = wsum X powers.
Proof. unfold P.pw, wsum, P.n. apply pw_upto_wsum. lia. Qed.

Lemma wsum_true_total pw0 : wsum (fun _ => true) pw0 = total pw0.
Proof.
  unfold wsum, wsum_on, total. induction pw0 as [|a l IH]; [reflexivity|].
  cbn [length seq]. rewrite <- seq_shift. cbn [map fold_right nth]. rewrite map_map. cbn [nth].
  rewrite IH. reflexivity.
Qed.

Lemma total_total powers : P.total powers = total powers.
Proof. unfold P.total. rewrite pw_wsum. apply wsum_true_total. Qed.

Section Bridge.
Variable valid : N -> block -> bool.
Variable vals : N -> list Z.
Variable proposer : N -> N -> N.
Variable mkblock : N -> N -> option block.
Variable cfg : config.
Variable i : N.                      (* this validator *)
Variable h : N.                      (* the height under consideration *)
Hypothesis vals_nonneg : forall h, Forall (fun p => (0 <= p)%Z) (vals h).

Let powers := vals h.
Let me_nat := N.to_nat i.
Notation trace := (A.trace N).
Notation flog := (final_log valid vals proposer mkblock cfg (Some i)).

(** a received vote is justified by the global trace: it was signed before *)
Definition justified (tr : trace) (inp : input) : Prop :=
  match inp with
  | InVote _ w => v_ok w = true -> v_height w = h -> In (N.to_nat (v_idx w), msg_of w) tr
  | _ => True
  end.

(** the global trace (chronological) and the node's history (newest first) grow together *)
Inductive linked : trace -> list event -> Prop :=
| L_nil : linked [] []
| L_other tr l j m : linked tr l -> j <> me_nat -> linked (tr ++ [(j, m)]) l
| L_in tr l inp : linked tr l -> justified tr inp -> linked tr (EvIn inp :: l)
| L_sign tr l v : linked tr l -> v_height v = h ->
                  linked (tr ++ [(me_nat, msg_of v)]) (EvOut (SignVote v) :: l)
| L_out tr l o : linked tr l -> (forall v, o = SignVote v -> v_height v <> h) ->
                 linked tr (EvOut o :: l).

Lemma snoc_split {T} (tr : list T) a p x rest :
  tr ++ [a] = p ++ x :: rest ->
  (rest = [] /\ tr = p /\ a = x) \/ (exists rest', rest = rest' ++ [a] /\ tr = p ++ x :: rest').
Proof.
  destruct (exists_last (l := x :: rest)) as (l' & z & E); [discriminate|].
  intros H. destruct rest as [|y rest0].
  - left. apply app_inj_tail in H. destruct H; auto.
  - right. destruct (exists_last (l := y :: rest0)) as (r' & z' & E'); [discriminate|].
    exists r'. rewrite E' in *. replace (p ++ x :: r' ++ [z']) with ((p ++ x :: r') ++ [z']) in H
      by (rewrite <- app_assoc; reflexivity).
    apply app_inj_tail in H. destruct H as (H1 & H2). subst. auto.
Qed.

Lemma link_split tr l : linked tr l -> forall p m rest, tr = p ++ (me_nat, m) :: rest ->
  exists post v pre, l = post ++ EvOut (SignVote v) :: pre /\ linked p pre /\ m = msg_of v /\ v_height v = h.
Proof.
  induction 1 as [|tr l j m' L IH Hj|tr l inp L IH Hjust|tr l v L IH Hv|tr l o L IH Ho]; intros p m rest E.
  - destruct p; discriminate.
  - apply snoc_split in E. destruct E as [(_ & _ & E)|(rest' & _ & E)].
    + injection E as E _. congruence.
    + apply (IH _ _ _ E).
  - destruct (IH _ _ _ E) as (post & v & pre & E1 & L1 & E2 & E3).
    exists (EvIn inp :: post), v, pre. rewrite E1. auto.
  - apply snoc_split in E. destruct E as [(_ & E1 & E2)|(rest' & _ & E)].
    + injection E2 as E2. subst p. exists [], v, l. auto.
    + destruct (IH _ _ _ E) as (post & v' & pre & E1 & L1 & E2 & E3).
      exists (EvOut (SignVote v) :: post), v', pre. rewrite E1. auto.
  - destruct (IH _ _ _ E) as (post & v & pre & E1 & L1 & E2 & E3).
    exists (EvOut o :: post), v, pre. rewrite E1. auto.
Qed.

Lemma link_recv tr l : linked tr l -> forall peer w, In (InVote peer w) (received l) ->
  v_ok w = true -> v_height w = h -> In (N.to_nat (v_idx w), msg_of w) tr.
Proof.
  induction 1 as [|tr l j m' L IH Hj|tr l inp L IH Hjust|tr l v L IH Hv|tr l o L IH Ho]; intros peer w Hin Ok Hh.
  - destruct Hin.
  - apply in_or_app. left. eauto.
  - cbn in Hin. destruct Hin as [E|Hin]; [subst inp; now apply Hjust|eauto].
  - apply in_or_app. left. cbn in Hin. eauto.
  - cbn in Hin. eauto.
Qed.

Lemma link_own tr l : linked tr l -> forall m, In (me_nat, m) tr ->
  exists v, In v (signed_votes l) /\ v_height v = h /\ m = msg_of v.
Proof.
  induction 1 as [|tr l j m' L IH Hj|tr l inp L IH Hjust|tr l v L IH Hv|tr l o L IH Ho]; intros m Hin.
  - destruct Hin.
  - apply in_app_or in Hin. destruct Hin as [Hin|[E|[]]]; [eauto|]. injection E as E _. congruence.
  - destruct (IH m Hin) as (v & A1 & A2 & A3). exists v. cbn. auto.
  - apply in_app_or in Hin. destruct Hin as [Hin|[E|[]]].
    + destruct (IH m Hin) as (v' & A1 & A2 & A3). exists v'. cbn. auto.
    + injection E as <-. exists v. cbn. auto.
  - destruct (IH m Hin) as (v & A1 & A2 & A3). exists v. split; auto.
    change (EvOut o :: l) with ([EvOut o] ++ l). rewrite signed_votes_app. apply in_or_app. now right.
Qed.

(** a quorum among the received votes is a quorum of signers in the linked trace *)
Lemma quorum_transfer tr l ty r b :
  linked tr l -> quorum_received vals (received l) ty h r b ->
  (2 * P.total powers < 3 * P.pw powers (A.signed N N.eq_dec tr
       (match ty with Prevote => A.Prevote N (N.to_nat r) (conv b)
                    | Precommit => A.Precommit N (N.to_nat r) (conv b) end)))%Z.
Proof.
  intros L Q. unfold quorum_received in Q. rewrite total_total, pw_wsum. subst powers.
  rewrite recv_power_wsum in Q.
  match goal with |- (_ < 3 * wsum ?X _)%Z =>
    assert (wsum (fun k => voted_for (received l) ty h r b (N.of_nat k)) (vals h) <= wsum X (vals h))%Z end; [|lia].
  apply wsum_on_mono; auto. intros k Hk. unfold voted_for in Hk. apply existsb_exists in Hk.
  destruct Hk as (x & Hin & Hx). destruct x as [| | | |peer w|]; try discriminate.
  repeat (apply andb_true_iff in Hx; destruct Hx as (Hx & ?)).
  apply N.eqb_eq in H2. apply N.eqb_eq in H3. apply N.eqb_eq in H0.
  assert (v_bid w = b).
  { unfold bid_eqb in H1. apply andb_true_iff in H1. destruct H1 as (E1 & E2).
    apply N.eqb_eq in E1. apply N.eqb_eq in E2. destruct (v_bid w), b. cbn in *. congruence. }
  pose proof (link_recv tr l L peer w Hin H H3) as Hs.
  apply A.signed_In. rewrite H0, Nat2N.id in Hs.
  unfold msg_of in Hs. rewrite H4, H2 in Hs.
  destruct (v_type w), ty; try discriminate; exact Hs.
Qed.

Lemma conv_some b x : conv b = Some x -> bh b = x /\ x <> 0%N.
Proof. unfold conv. destruct (bh b =? 0)%N eqn:E; [discriminate|]. intros H. injection H as <-. apply N.eqb_neq in E. auto. Qed.

Lemma conv_ne b x : x <> 0%N -> conv b <> Some x -> bh b <> x.
Proof. intros Hx H E. apply H. unfold conv. rewrite E. apply N.eqb_neq in Hx. now rewrite Hx. Qed.

Lemma msg_precommit v r x : msg_of v = A.Precommit N r x ->
  v_type v = Precommit /\ N.to_nat (v_round v) = r /\ conv (v_bid v) = x.
Proof. unfold msg_of. destruct (v_type v); intros H; [discriminate|]. injection H as <- <-. auto. Qed.
Lemma msg_prevote v r x : msg_of v = A.Prevote N r x ->
  v_type v = Prevote /\ N.to_nat (v_round v) = r /\ conv (v_bid v) = x.
Proof. unfold msg_of. destruct (v_type v); intros H; [|discriminate]. injection H as <- <-. auto. Qed.

Lemma nonzero_bid b x : conv b = Some x -> bid_is_zero b = false.
Proof. intros H. apply conv_some in H. destruct H as (<- & Hx). unfold bid_is_zero. apply N.eqb_neq in Hx. now rewrite Hx. Qed.

(** The node's events in any linked global trace satisfy C01's obligations. *)
Theorem node_obeys (ins : list input) (tr : trace) :
  linked tr (flog ins) -> A.obeys powers N N.eq_dec tr me_nat.
Proof.
  intros L.
  pose proof (run_inv valid vals proposer mkblock cfg (Some i) ins) as I.
  split.
  - (* one precommit per round *)
    intros r x y H1 H2.
    destruct (link_own _ _ L _ H1) as (v1 & A1 & A2 & A3). destruct (link_own _ _ L _ H2) as (v2 & B1 & B2 & B3).
    symmetry in A3, B3. apply msg_precommit in A3. apply msg_precommit in B3.
    destruct A3 as (T1 & R1 & C1). destruct B3 as (T2 & R2 & C2).
    assert (Ek : vkey v1 = vkey v2).
    { unfold vkey. rewrite T1, T2, A2, B2. f_equal. apply N2Nat.inj. congruence. }
    assert (v1 = v2).
    { pose proof (i_nodup _ I) as ND. unfold final_log in A1, B1. clear -ND A1 B1 Ek.
      induction (signed_votes (log (run valid vals proposer mkblock cfg (Some i) ins))) as [|a sv IH]; [destruct A1|].
      cbn in ND. inversion ND as [|? ? Hn ND']; subst.
      destruct A1 as [->|A1], B1 as [->|B1]; auto.
      - exfalso. apply Hn. rewrite Ek. now apply in_map.
      - exfalso. apply Hn. rewrite <- Ek. now apply in_map. }
    subst v2. congruence.
  - (* a precommit needs a polka *)
    intros p rest r b E.
    destruct (link_split _ _ L _ _ _ E) as (post & v & pre & E1 & L1 & E2 & E3).
    symmetry in E2. apply msg_precommit in E2. destruct E2 as (Ty & Rr & Cb).
    destruct (precommit_needs_polka valid vals proposer mkblock cfg (Some i) vals_nonneg ins post pre v E1 Ty
                (nonzero_bid _ _ Cb)) as (Q & _).
    rewrite E3 in Q. pose proof (quorum_transfer p pre Prevote (v_round v) (v_bid v) L1 Q) as T.
    unfold A.polka. rewrite Rr, Cb in T. exact T.
  - (* lock rule *)
    intros p1 p2 rest r r' b x E Hr Hx.
    replace (p1 ++ (me_nat, A.Precommit N r (Some b)) :: p2 ++ (me_nat, A.Prevote N r' x) :: rest)
      with ((p1 ++ (me_nat, A.Precommit N r (Some b)) :: p2) ++ (me_nat, A.Prevote N r' x) :: rest) in E
      by (rewrite <- app_assoc; reflexivity).
    destruct (link_split _ _ L _ _ _ E) as (post & vx & pre & E1 & L1 & E2 & E3).
    destruct (link_split _ _ L1 _ _ _ eq_refl) as (post2 & vp & pre2 & F1 & L2 & F2 & F3).
    symmetry in E2. apply msg_prevote in E2. destruct E2 as (Tx & Rx & Cx).
    symmetry in F2. apply msg_precommit in F2. destruct F2 as (Tp & Rp & Cp).
    destruct (conv_some _ _ Cp) as (Hb & Hb0).
    assert (Hne : bh (v_bid vx) <> bh (v_bid vp)).
    { rewrite Hb. apply conv_ne; auto. now rewrite Cx. }
    rewrite F1 in E1.
    destruct (lock_rule_strong valid vals proposer mkblock cfg (Some i) vals_nonneg ins post post2 pre2 vp vx E1 Tp
                (nonzero_bid _ _ Cp) Tx) as (r'' & y & G1 & G2 & G3 & G4); auto; try congruence.
    { lia. }
    exists (N.to_nat r''), (conv y). split; [lia|]. split.
    + intros Ey. apply conv_some in Ey. destruct Ey as (Ey & _). apply G3. congruence.
    + rewrite F3 in G4. rewrite <- F1 in G4.
      exact (quorum_transfer _ pre Prevote r'' y L1 G4).
  - (* rounds never go back *)
    intros p rest r r' x y E Hin. apply in_split in Hin. destruct Hin as (q1 & q2 & Er). subst rest.
    replace (p ++ (me_nat, A.Prevote N r' x) :: q1 ++ (me_nat, A.Precommit N r y) :: q2)
      with ((p ++ (me_nat, A.Prevote N r' x) :: q1) ++ (me_nat, A.Precommit N r y) :: q2) in E
      by (rewrite <- app_assoc; reflexivity).
    destruct (link_split _ _ L _ _ _ E) as (post & vp & pre & E1 & L1 & E2 & E3).
    assert (Hx : In (me_nat, A.Prevote N r' x) (p ++ (me_nat, A.Prevote N r' x) :: q1)).
    { apply in_or_app. right. now left. }
    destruct (link_own _ _ L1 _ Hx) as (vx & X1 & X2 & X3).
    symmetry in X3. apply msg_prevote in X3. destruct X3 as (_ & Rx & _).
    symmetry in E2. apply msg_precommit in E2. destruct E2 as (_ & Rp & _).
    pose proof (i_mono _ I) as M. unfold final_log in E1. rewrite E1 in M.
    rewrite signed_votes_app in M. cbn [signed_votes flat_map app] in M.
    specialize (M (signed_votes post) vp (signed_votes pre) eq_refl vx X1).
    assert (v_round vx <= v_round vp)%N by (apply M; congruence). lia.
Qed.

End Bridge.
